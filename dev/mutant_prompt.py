#!/usr/bin/env python3
"""Write the prompt for an independent 'seeded change' sub-agent: property text only,
nothing from /verif.  usage: mutant_prompt.py Cxx <worktree> [round]  -> stdout"""
import json, sys
pid, wt = sys.argv[1], sys.argv[2]
rnd = sys.argv[3] if len(sys.argv) > 3 else "2"
p = next(json.loads(l) for l in open("/verif/properties.jsonl") if json.loads(l)["id"] == pid)
def g(*ks):
    for k in ks:
        if k in p: return p[k]
    return ""
where = g("where", "anchors", "location")
text = f"""You are given a scratch git worktree of a Rust crate at {wt} (the `repe` crate: a REPE binary RPC protocol implementation; read its README.md and docs/ for orientation). Work ONLY inside {wt}. Do not read or use anything under /verif or /repo or any other scratch directory under /tmp (your work must be independent of other efforts going on in this machine). There is no network; build with `cargo build --offline` / test with `cargo test --offline` (add `--features "websocket value-stream"` when the code you touch needs those features; the default-feature test suite is the reference one; a few fleet tests are flaky under machine load - re-run before concluding a test broke).

Here is a semantic property the crate is supposed to satisfy:

{json.dumps({k: v for k, v in p.items() if k != 'id'}, indent=2, ensure_ascii=False)}

Your task: play a careless or unlucky developer. Produce THREE DIFFERENT source changes (three separate patches, each applying on its own to the unmodified worktree) that each BREAK this property while the crate still COMPILES and the EXISTING test suite still PASSES (`cargo test --offline` with default features, and with `--features "websocket value-stream"`, must show the same passing tests as before your change; run them before and after). The three changes must differ in KIND: (1) one in a boundary/arithmetic/comparison condition; (2) one in an ordering, interleaving, cleanup or error-path step (something done in the wrong order, dropped on a rare path, or not undone on failure); (3) one in a place where two code paths that are supposed to agree (sync vs async vs WebSocket, owned vs borrowed, fast path vs slow path, client vs server) are made to differ on a rare input. Spread them over different source files / functions among those the property names where that is possible. Prefer realistic bugs a reviewer could miss. IMPORTANT: each change must need something SPECIFIC to manifest - a particular boundary value, a particular multi-step sequence of operations, an unusual input, a particular interleaving or fault at a particular point - NOT something any ordinary use of the library exposes at once, and not something only reachable with >1 GiB of data or > 30 s of waiting. The change must be in the library source (src/), not in tests, and must not be guarded by cfg(test) or feature tricks.

For each change deliver, under {wt}/out/<a|b|c>/:
  * `patch.diff` - `git diff` of the change against the unmodified worktree (only src/ changes);
  * a DEMONSTRATION `demo.rs`: a new integration test file (run as `tests/seeded_demo.rs`) that FAILS with the change applied and PASSES without it, deterministically (run each 3 times); it may use only the crate's public API plus the crate's existing dev-dependencies;
  * `meta.json` with keys: "property" ("{pid}"), "summary" (what the change does), "needs" (what specific input / sequence / interleaving is needed for the violation to manifest), "why_tests_pass" (why the existing suite does not notice), "commands" (what you ran to confirm).
When finished, leave the worktree source UNMODIFIED (`git checkout -- .` and remove your new test files from tests/ - keep copies only under out/), and reply with a short summary of the three changes.
"""

if rnd == "3":
    mechs = p.get("anchors", {}).get("mechanism", [])[:6]
    names = "\n".join("  (%s) %s  [%s]" % (chr(ord('a') + i), m.get("name", ""), m.get("where", "")) for i, m in enumerate(mechs))
    letters = "|".join(chr(ord('a') + i) for i in range(len(mechs)))
    head, tail = text.split("Your task: play a careless or unlucky developer.", 1)
    text = head + f"""Your task: play a careless or unlucky developer. The property text above lists, under anchors.mechanism, the code mechanisms it lives in:

{names}

Produce ONE source change PER MECHANISM ({len(mechs)} separate patches, each applying on its own to the unmodified worktree, each located in the code of its mechanism; line numbers in the list may have drifted - find the named functions) that BREAKS this property while the crate still COMPILES and the EXISTING test suite still PASSES (`cargo test --offline` with default features, and with `--features "websocket value-stream"`, must show the same passing tests as before your change; run them before and after). If for some mechanism you cannot find such a change after a real attempt, say so and skip it. Prefer realistic bugs a reviewer could miss: an off-by-one at a boundary, a wrong comparison direction, a dropped step in a multi-step sequence, something not undone on an error path, a refactoring that is right for the common case and wrong for a rare one, two sites that must agree made to differ. IMPORTANT: each change must need something SPECIFIC to manifest - a particular boundary value, a particular multi-step sequence of operations, an unusual input, a particular interleaving or fault at a particular point - NOT something any ordinary use of the library exposes at once, and not something only reachable with >1 GiB of data or > 30 s of waiting. Avoid the most obvious single-token mutations of the central comparison if a subtler change in the same mechanism exists. The change must be in the library source (src/), not in tests, and must not be guarded by cfg(test) or feature tricks.

For each change deliver, under {wt}/out/<{letters}>/:
  * `patch.diff` - `git diff` of the change against the unmodified worktree (only src/ changes);
  * a DEMONSTRATION `demo.rs`: a new integration test file (run as `tests/seeded_demo.rs`) that FAILS with the change applied and PASSES without it, deterministically (run each 3 times); it may use only the crate's public API plus the crate's existing dev-dependencies;
  * `meta.json` with keys: "property" ("{pid}"), "mechanism" (the name from the list), "summary" (what the change does), "needs" (what specific input / sequence / interleaving is needed for the violation to manifest), "why_tests_pass" (why the existing suite does not notice), "commands" (what you ran to confirm).
When finished, leave the worktree source UNMODIFIED (`git checkout -- .` and remove your new test files from tests/ - keep copies only under out/), and reply with a short summary of the changes.
"""

if rnd == "4":
    head, tail = text.split("Your task: play a careless or unlucky developer.", 1)
    text = head + f"""Your task: play a careless or unlucky developer. First split the STATEMENT above into its separate CLAUSES (each "and", each comma-separated guarantee, each "never"/"always"/"exactly" is a clause; typically 4-7 of them) and list them (a), (b), (c), ... in your notes. Then produce ONE source change PER CLAUSE (separate patches, each applying on its own to the unmodified worktree) that breaks THAT clause - and, as far as you can manage, only that clause - while the crate still COMPILES and the EXISTING test suite still PASSES (`cargo test --offline` with default features, and with `--features "websocket value-stream"`, must show the same passing tests as before your change; run them before and after). The change may be in ANY file under src/ (not only the ones the property names): look for the helper, constructor, default value, error conversion, Drop impl, builder option, configuration path or rarely-used public entry point through which the clause can be broken without touching the obvious central function. Keep each change small (a few lines) and plausible as an honest refactoring, optimisation or clean-up. IMPORTANT: each change must need something SPECIFIC to manifest - a particular boundary value, option combination, multi-step sequence, interleaving or fault at a particular point - NOT something any ordinary use of the library exposes at once, and not something only reachable with >1 GiB of data or > 30 s of waiting. If for some clause you cannot find such a change after a real attempt, say so and skip it. The change must be in the library source (src/), not in tests, and must not be guarded by cfg(test) or feature tricks.

For each change deliver, under {wt}/out/<a|b|c|...>/:
  * `patch.diff` - `git diff` of the change against the unmodified worktree (only src/ changes);
  * a DEMONSTRATION `demo.rs`: a new integration test file (run as `tests/seeded_demo.rs`) that FAILS with the change applied and PASSES without it, deterministically (run each 3 times); it may use only the crate's public API plus the crate's existing dev-dependencies;
  * `meta.json` with keys: "property" ("{pid}"), "clause" (the clause of the statement it breaks, quoted), "summary" (what the change does), "needs" (what specific input / option / sequence / interleaving is needed for the violation to manifest), "why_tests_pass" (why the existing suite does not notice), "commands" (what you ran to confirm).
When finished, leave the worktree source UNMODIFIED (`git checkout -- .` and remove your new test files from tests/ - keep copies only under out/), and reply with a short summary of the changes.
"""
if rnd == "h":
    head, tail = text.split("Your task: play a careless or unlucky developer.", 1)
    text = head + f"""Your task: play a diligent maintainer doing clean-up. Produce SIX DIFFERENT source changes (six separate patches, each applying on its own to the unmodified worktree) to the functions the property names under its anchors (and their immediate helpers) that are BEHAVIOUR-PRESERVING: after each change the crate must behave exactly as before on every input, schedule and fault - the property above must still hold, for the same reasons - the crate must still COMPILE without new warnings and the EXISTING test suite must still PASS (`cargo test --offline` with default features, and with `--features "websocket value-stream"`). The six must differ in KIND, for example: (1) renaming locals / reordering independent statements / introducing or removing a temporary; (2) replacing a control-flow idiom by an equivalent one (`match` <-> `if let` / `let else`, early return <-> nested branch, `loop`+`break` <-> `while`, iterator chain <-> explicit loop); (3) extracting a private helper function or inlining one; (4) replacing an arithmetic or comparison expression by a provably equivalent one for ALL values of the types involved (say why it is equivalent, including at the extremes of the integer types); (5) changing a data-structure operation to an equivalent one (e.g. `entry` API vs `get`+`insert`, `retain` vs filter-and-rebuild, `extend_from_slice` vs `extend`), keeping order and duplicates exactly; (6) moving code between functions / impl blocks / modules, changing visibility of private items, editing comments and log texts that are not part of any returned value. Spread them over different functions among those the property names. Each must be a change a careful reviewer would approve as a pure refactoring. Be strict with yourself: if you are not certain a change is behaviour-preserving in every corner (overflow, empty input, error paths, lock scope, drop order, wake-ups, ordering of observable effects), pick another one. The change must be in the library source (src/), not in tests.

For each change deliver, under {wt}/out/<a|b|c|d|e|f>/:
  * `patch.diff` - `git diff` of the change against the unmodified worktree (only src/ changes);
  * `meta.json` with keys: "property" ("{pid}"), "kind" (which of the kinds above), "summary" (what the change does), "why_equivalent" (the argument that behaviour is unchanged in every corner), "commands" (what you ran to confirm: build, both test-suite runs).
When finished, leave the worktree source UNMODIFIED (`git checkout -- .`), and reply with a short summary of the changes.
"""
print(text)
