#!/bin/bash
# usage: m5_lane.sh <lane> <PROP...>
lane=$1; shift
export SELFTEST_DIR=/var/tmp/verif-mut$lane
for P in "$@"; do
  for d in ${M_SRC:-/tmp/m5}-$P/out/?; do
    [ -f $d/patch.diff ] || continue
    echo "### $P $(basename $d)"
    /verif/bin/selftest-mutant $d/patch.diff $P 2>&1 | grep -E "VIOLATION|NOT DETECTED|DOES NOT APPLY"
    mkdir -p /var/tmp/m8-replays; cp -r $SELFTEST_DIR/out/replays/. /var/tmp/m8-replays/ 2>/dev/null
  done
done
rm -rf $SELFTEST_DIR
