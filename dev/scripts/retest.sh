#!/bin/bash
lane=$1; shift
export SELFTEST_DIR=/var/tmp/verif-mut$lane
for spec in "$@"; do
  P=${spec%%:*}; L=${spec##*:}
  echo "### $P $L"
  /verif/bin/selftest-mutant /tmp/m8-$P/out/$L/patch.diff $P 2>&1 | grep -E "VIOLATION|NOT DETECTED|DOES NOT APPLY"
done
rm -rf $SELFTEST_DIR
