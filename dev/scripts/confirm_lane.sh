#!/bin/bash
# usage: r4_confirm.sh <k> <n>  : files lines k mod n of ${R_FILE:-/var/tmp/r4_file.tsv}
k=$1; n=$2
export SEEDCHECK_DIR=/var/tmp/seedcheck$k
i=0
while IFS=$'\t' read -r P L PROPS NAME CAUGHT; do
  if [ $((i % n)) -eq $k ]; then
    echo "### $P $L -> $NAME"
    /verif/bin/confirm-seeded ${R_SRC:-/tmp/m4}-$P/out/$L $P "$NAME" "$CAUGHT" 2>&1 | tail -4
  fi
  i=$((i+1))
done < ${R_FILE:-/var/tmp/r4_file.tsv}
git -C /repo worktree remove --force $SEEDCHECK_DIR >/dev/null 2>&1
