#!/bin/bash
# usage: h_lane.sh <lane> <PROP...>
lane=$1; shift
export SELFTEST_DIR=/var/tmp/verif-mut$lane
for P in "$@"; do
  for d in /tmp/h-$P/out/?; do
    [ -f $d/patch.diff ] || continue
    echo "### $P $(basename $d)"
    /verif/bin/selftest-mutant $d/patch.diff $P 2>&1 | grep -E "VIOLATION|NOT DETECTED|DOES NOT APPLY"
  done
done
rm -rf $SELFTEST_DIR
