theories/Base/Word.vo theories/Base/Word.glob theories/Base/Word.v.beautified theories/Base/Word.required_vo: theories/Base/Word.v 
theories/Base/Word.vio: theories/Base/Word.v 
theories/Base/Word.vos theories/Base/Word.vok theories/Base/Word.required_vos: theories/Base/Word.v 
theories/Base/Outcome.vo theories/Base/Outcome.glob theories/Base/Outcome.v.beautified theories/Base/Outcome.required_vo: theories/Base/Outcome.v theories/Base/Word.vo
theories/Base/Outcome.vio: theories/Base/Outcome.v theories/Base/Word.vio
theories/Base/Outcome.vos theories/Base/Outcome.vok theories/Base/Outcome.required_vos: theories/Base/Outcome.v theories/Base/Word.vos
theories/Gen/Tables.vo theories/Gen/Tables.glob theories/Gen/Tables.v.beautified theories/Gen/Tables.required_vo: theories/Gen/Tables.v 
theories/Gen/Tables.vio: theories/Gen/Tables.v 
theories/Gen/Tables.vos theories/Gen/Tables.vok theories/Gen/Tables.required_vos: theories/Gen/Tables.v 
theories/Model/Header.vo theories/Model/Header.glob theories/Model/Header.v.beautified theories/Model/Header.required_vo: theories/Model/Header.v theories/Base/Outcome.vo
theories/Model/Header.vio: theories/Model/Header.v theories/Base/Outcome.vio
theories/Model/Header.vos theories/Model/Header.vok theories/Model/Header.required_vos: theories/Model/Header.v theories/Base/Outcome.vos
theories/Model/Message.vo theories/Model/Message.glob theories/Model/Message.v.beautified theories/Model/Message.required_vo: theories/Model/Message.v theories/Model/Header.vo
theories/Model/Message.vio: theories/Model/Message.v theories/Model/Header.vio
theories/Model/Message.vos theories/Model/Message.vok theories/Model/Message.required_vos: theories/Model/Message.v theories/Model/Header.vos
theories/Model/C01.vo theories/Model/C01.glob theories/Model/C01.v.beautified theories/Model/C01.required_vo: theories/Model/C01.v theories/Model/Message.vo
theories/Model/C01.vio: theories/Model/C01.v theories/Model/Message.vio
theories/Model/C01.vos theories/Model/C01.vok theories/Model/C01.required_vos: theories/Model/C01.v theories/Model/Message.vos
theories/Model/C02.vo theories/Model/C02.glob theories/Model/C02.v.beautified theories/Model/C02.required_vo: theories/Model/C02.v theories/Model/C01.vo
theories/Model/C02.vio: theories/Model/C02.v theories/Model/C01.vio
theories/Model/C02.vos theories/Model/C02.vok theories/Model/C02.required_vos: theories/Model/C02.v theories/Model/C01.vos
theories/Model/Stream.vo theories/Model/Stream.glob theories/Model/Stream.v.beautified theories/Model/Stream.required_vo: theories/Model/Stream.v theories/Base/Word.vo
theories/Model/Stream.vio: theories/Model/Stream.v theories/Base/Word.vio
theories/Model/Stream.vos theories/Model/Stream.vok theories/Model/Stream.required_vos: theories/Model/Stream.v theories/Base/Word.vos
theories/Model/C11.vo theories/Model/C11.glob theories/Model/C11.v.beautified theories/Model/C11.required_vo: theories/Model/C11.v theories/Model/Stream.vo
theories/Model/C11.vio: theories/Model/C11.v theories/Model/Stream.vio
theories/Model/C11.vos theories/Model/C11.vok theories/Model/C11.required_vos: theories/Model/C11.v theories/Model/Stream.vos
theories/Model/Condvar.vo theories/Model/Condvar.glob theories/Model/Condvar.v.beautified theories/Model/Condvar.required_vo: theories/Model/Condvar.v theories/Model/Stream.vo
theories/Model/Condvar.vio: theories/Model/Condvar.v theories/Model/Stream.vio
theories/Model/Condvar.vos theories/Model/Condvar.vok theories/Model/Condvar.required_vos: theories/Model/Condvar.v theories/Model/Stream.vos
theories/Model/Peers.vo theories/Model/Peers.glob theories/Model/Peers.v.beautified theories/Model/Peers.required_vo: theories/Model/Peers.v theories/Base/Word.vo
theories/Model/Peers.vio: theories/Model/Peers.v theories/Base/Word.vio
theories/Model/Peers.vos theories/Model/Peers.vok theories/Model/Peers.required_vos: theories/Model/Peers.v theories/Base/Word.vos
theories/Model/Fleet.vo theories/Model/Fleet.glob theories/Model/Fleet.v.beautified theories/Model/Fleet.required_vo: theories/Model/Fleet.v theories/Base/Word.vo
theories/Model/Fleet.vio: theories/Model/Fleet.v theories/Base/Word.vio
theories/Model/Fleet.vos theories/Model/Fleet.vok theories/Model/Fleet.required_vos: theories/Model/Fleet.v theories/Base/Word.vos
theories/Model/Limits.vo theories/Model/Limits.glob theories/Model/Limits.v.beautified theories/Model/Limits.required_vo: theories/Model/Limits.v theories/Model/Message.vo
theories/Model/Limits.vio: theories/Model/Limits.v theories/Model/Message.vio
theories/Model/Limits.vos theories/Model/Limits.vok theories/Model/Limits.required_vos: theories/Model/Limits.v theories/Model/Message.vos
theories/Model/Svs.vo theories/Model/Svs.glob theories/Model/Svs.v.beautified theories/Model/Svs.required_vo: theories/Model/Svs.v theories/Base/Word.vo
theories/Model/Svs.vio: theories/Model/Svs.v theories/Base/Word.vio
theories/Model/Svs.vos theories/Model/Svs.vok theories/Model/Svs.required_vos: theories/Model/Svs.v theories/Base/Word.vos
theories/Model/SvsCommit.vo theories/Model/SvsCommit.glob theories/Model/SvsCommit.v.beautified theories/Model/SvsCommit.required_vo: theories/Model/SvsCommit.v theories/Base/Word.vo
theories/Model/SvsCommit.vio: theories/Model/SvsCommit.v theories/Base/Word.vio
theories/Model/SvsCommit.vos theories/Model/SvsCommit.vok theories/Model/SvsCommit.required_vos: theories/Model/SvsCommit.v theories/Base/Word.vos
theories/Model/Json.vo theories/Model/Json.glob theories/Model/Json.v.beautified theories/Model/Json.required_vo: theories/Model/Json.v theories/Base/Word.vo
theories/Model/Json.vio: theories/Model/Json.v theories/Base/Word.vio
theories/Model/Json.vos theories/Model/Json.vok theories/Model/Json.required_vos: theories/Model/Json.v theories/Base/Word.vos
theories/Model/Registry.vo theories/Model/Registry.glob theories/Model/Registry.v.beautified theories/Model/Registry.required_vo: theories/Model/Registry.v theories/Model/Json.vo
theories/Model/Registry.vio: theories/Model/Registry.v theories/Model/Json.vio
theories/Model/Registry.vos theories/Model/Registry.vok theories/Model/Registry.required_vos: theories/Model/Registry.v theories/Model/Json.vos
theories/Model/Beve.vo theories/Model/Beve.glob theories/Model/Beve.v.beautified theories/Model/Beve.required_vo: theories/Model/Beve.v theories/Model/Message.vo
theories/Model/Beve.vio: theories/Model/Beve.v theories/Model/Message.vio
theories/Model/Beve.vos theories/Model/Beve.vok theories/Model/Beve.required_vos: theories/Model/Beve.v theories/Model/Message.vos
theories/Model/JsonPtr.vo theories/Model/JsonPtr.glob theories/Model/JsonPtr.v.beautified theories/Model/JsonPtr.required_vo: theories/Model/JsonPtr.v theories/Base/Word.vo
theories/Model/JsonPtr.vio: theories/Model/JsonPtr.v theories/Base/Word.vio
theories/Model/JsonPtr.vos theories/Model/JsonPtr.vok theories/Model/JsonPtr.required_vos: theories/Model/JsonPtr.v theories/Base/Word.vos
theories/Model/Router.vo theories/Model/Router.glob theories/Model/Router.v.beautified theories/Model/Router.required_vo: theories/Model/Router.v theories/Model/JsonPtr.vo
theories/Model/Router.vio: theories/Model/Router.v theories/Model/JsonPtr.vio
theories/Model/Router.vos theories/Model/Router.vok theories/Model/Router.required_vos: theories/Model/Router.v theories/Model/JsonPtr.vos
theories/Model/ClientMux.vo theories/Model/ClientMux.glob theories/Model/ClientMux.v.beautified theories/Model/ClientMux.required_vo: theories/Model/ClientMux.v theories/Base/Word.vo theories/Model/Peers.vo
theories/Model/ClientMux.vio: theories/Model/ClientMux.v theories/Base/Word.vio theories/Model/Peers.vio
theories/Model/ClientMux.vos theories/Model/ClientMux.vok theories/Model/ClientMux.required_vos: theories/Model/ClientMux.v theories/Base/Word.vos theories/Model/Peers.vos
theories/Model/OffReader.vo theories/Model/OffReader.glob theories/Model/OffReader.v.beautified theories/Model/OffReader.required_vo: theories/Model/OffReader.v theories/Base/Word.vo
theories/Model/OffReader.vio: theories/Model/OffReader.v theories/Base/Word.vio
theories/Model/OffReader.vos theories/Model/OffReader.vok theories/Model/OffReader.required_vos: theories/Model/OffReader.v theories/Base/Word.vos
theories/Model/Route.vo theories/Model/Route.glob theories/Model/Route.v.beautified theories/Model/Route.required_vo: theories/Model/Route.v theories/Base/Word.vo
theories/Model/Route.vio: theories/Model/Route.v theories/Base/Word.vio
theories/Model/Route.vos theories/Model/Route.vok theories/Model/Route.required_vos: theories/Model/Route.v theories/Base/Word.vos
theories/Model/Lifecycle.vo theories/Model/Lifecycle.glob theories/Model/Lifecycle.v.beautified theories/Model/Lifecycle.required_vo: theories/Model/Lifecycle.v theories/Base/Word.vo theories/Model/Peers.vo
theories/Model/Lifecycle.vio: theories/Model/Lifecycle.v theories/Base/Word.vio theories/Model/Peers.vio
theories/Model/Lifecycle.vos theories/Model/Lifecycle.vok theories/Model/Lifecycle.required_vos: theories/Model/Lifecycle.v theories/Base/Word.vos theories/Model/Peers.vos
theories/Model/ClientFail.vo theories/Model/ClientFail.glob theories/Model/ClientFail.v.beautified theories/Model/ClientFail.required_vo: theories/Model/ClientFail.v theories/Base/Word.vo
theories/Model/ClientFail.vio: theories/Model/ClientFail.v theories/Base/Word.vio
theories/Model/ClientFail.vos theories/Model/ClientFail.vok theories/Model/ClientFail.required_vos: theories/Model/ClientFail.v theories/Base/Word.vos
theories/Model/WriterSM.vo theories/Model/WriterSM.glob theories/Model/WriterSM.v.beautified theories/Model/WriterSM.required_vo: theories/Model/WriterSM.v theories/Model/Message.vo
theories/Model/WriterSM.vio: theories/Model/WriterSM.v theories/Model/Message.vio
theories/Model/WriterSM.vos theories/Model/WriterSM.vok theories/Model/WriterSM.required_vos: theories/Model/WriterSM.v theories/Model/Message.vos
theories/Proofs/HeaderProofs.vo theories/Proofs/HeaderProofs.glob theories/Proofs/HeaderProofs.v.beautified theories/Proofs/HeaderProofs.required_vo: theories/Proofs/HeaderProofs.v theories/Model/Header.vo
theories/Proofs/HeaderProofs.vio: theories/Proofs/HeaderProofs.v theories/Model/Header.vio
theories/Proofs/HeaderProofs.vos theories/Proofs/HeaderProofs.vok theories/Proofs/HeaderProofs.required_vos: theories/Proofs/HeaderProofs.v theories/Model/Header.vos
theories/Proofs/TablesC01.vo theories/Proofs/TablesC01.glob theories/Proofs/TablesC01.v.beautified theories/Proofs/TablesC01.required_vo: theories/Proofs/TablesC01.v theories/Model/Header.vo theories/Gen/Tables.vo
theories/Proofs/TablesC01.vio: theories/Proofs/TablesC01.v theories/Model/Header.vio theories/Gen/Tables.vio
theories/Proofs/TablesC01.vos theories/Proofs/TablesC01.vok theories/Proofs/TablesC01.required_vos: theories/Proofs/TablesC01.v theories/Model/Header.vos theories/Gen/Tables.vos
theories/Proofs/MessageProofs.vo theories/Proofs/MessageProofs.glob theories/Proofs/MessageProofs.v.beautified theories/Proofs/MessageProofs.required_vo: theories/Proofs/MessageProofs.v theories/Model/Message.vo theories/Proofs/HeaderProofs.vo
theories/Proofs/MessageProofs.vio: theories/Proofs/MessageProofs.v theories/Model/Message.vio theories/Proofs/HeaderProofs.vio
theories/Proofs/MessageProofs.vos theories/Proofs/MessageProofs.vok theories/Proofs/MessageProofs.required_vos: theories/Proofs/MessageProofs.v theories/Model/Message.vos theories/Proofs/HeaderProofs.vos
theories/Proofs/C01Proofs.vo theories/Proofs/C01Proofs.glob theories/Proofs/C01Proofs.v.beautified theories/Proofs/C01Proofs.required_vo: theories/Proofs/C01Proofs.v theories/Model/C01.vo theories/Proofs/HeaderProofs.vo theories/Proofs/MessageProofs.vo
theories/Proofs/C01Proofs.vio: theories/Proofs/C01Proofs.v theories/Model/C01.vio theories/Proofs/HeaderProofs.vio theories/Proofs/MessageProofs.vio
theories/Proofs/C01Proofs.vos theories/Proofs/C01Proofs.vok theories/Proofs/C01Proofs.required_vos: theories/Proofs/C01Proofs.v theories/Model/C01.vos theories/Proofs/HeaderProofs.vos theories/Proofs/MessageProofs.vos
theories/Proofs/C02Proofs.vo theories/Proofs/C02Proofs.glob theories/Proofs/C02Proofs.v.beautified theories/Proofs/C02Proofs.required_vo: theories/Proofs/C02Proofs.v theories/Model/C02.vo theories/Proofs/HeaderProofs.vo theories/Proofs/MessageProofs.vo theories/Proofs/C01Proofs.vo
theories/Proofs/C02Proofs.vio: theories/Proofs/C02Proofs.v theories/Model/C02.vio theories/Proofs/HeaderProofs.vio theories/Proofs/MessageProofs.vio theories/Proofs/C01Proofs.vio
theories/Proofs/C02Proofs.vos theories/Proofs/C02Proofs.vok theories/Proofs/C02Proofs.required_vos: theories/Proofs/C02Proofs.v theories/Model/C02.vos theories/Proofs/HeaderProofs.vos theories/Proofs/MessageProofs.vos theories/Proofs/C01Proofs.vos
theories/Proofs/StreamProofs.vo theories/Proofs/StreamProofs.glob theories/Proofs/StreamProofs.v.beautified theories/Proofs/StreamProofs.required_vo: theories/Proofs/StreamProofs.v theories/Model/C11.vo
theories/Proofs/StreamProofs.vio: theories/Proofs/StreamProofs.v theories/Model/C11.vio
theories/Proofs/StreamProofs.vos theories/Proofs/StreamProofs.vok theories/Proofs/StreamProofs.required_vos: theories/Proofs/StreamProofs.v theories/Model/C11.vos
theories/Props/C01.vo theories/Props/C01.glob theories/Props/C01.v.beautified theories/Props/C01.required_vo: theories/Props/C01.v theories/Model/C01.vo theories/Gen/Tables.vo theories/Proofs/HeaderProofs.vo theories/Proofs/TablesC01.vo theories/Proofs/MessageProofs.vo theories/Proofs/C01Proofs.vo
theories/Props/C01.vio: theories/Props/C01.v theories/Model/C01.vio theories/Gen/Tables.vio theories/Proofs/HeaderProofs.vio theories/Proofs/TablesC01.vio theories/Proofs/MessageProofs.vio theories/Proofs/C01Proofs.vio
theories/Props/C01.vos theories/Props/C01.vok theories/Props/C01.required_vos: theories/Props/C01.v theories/Model/C01.vos theories/Gen/Tables.vos theories/Proofs/HeaderProofs.vos theories/Proofs/TablesC01.vos theories/Proofs/MessageProofs.vos theories/Proofs/C01Proofs.vos
theories/Props/C02.vo theories/Props/C02.glob theories/Props/C02.v.beautified theories/Props/C02.required_vo: theories/Props/C02.v theories/Model/C02.vo theories/Proofs/HeaderProofs.vo theories/Proofs/MessageProofs.vo theories/Proofs/C01Proofs.vo theories/Proofs/C02Proofs.vo
theories/Props/C02.vio: theories/Props/C02.v theories/Model/C02.vio theories/Proofs/HeaderProofs.vio theories/Proofs/MessageProofs.vio theories/Proofs/C01Proofs.vio theories/Proofs/C02Proofs.vio
theories/Props/C02.vos theories/Props/C02.vok theories/Props/C02.required_vos: theories/Props/C02.v theories/Model/C02.vos theories/Proofs/HeaderProofs.vos theories/Proofs/MessageProofs.vos theories/Proofs/C01Proofs.vos theories/Proofs/C02Proofs.vos
theories/Props/C11.vo theories/Props/C11.glob theories/Props/C11.v.beautified theories/Props/C11.required_vo: theories/Props/C11.v theories/Model/C11.vo theories/Proofs/StreamProofs.vo
theories/Props/C11.vio: theories/Props/C11.v theories/Model/C11.vio theories/Proofs/StreamProofs.vio
theories/Props/C11.vos theories/Props/C11.vok theories/Props/C11.required_vos: theories/Props/C11.v theories/Model/C11.vos theories/Proofs/StreamProofs.vos
theories/Props/C13.vo theories/Props/C13.glob theories/Props/C13.v.beautified theories/Props/C13.required_vo: theories/Props/C13.v theories/Model/C11.vo theories/Proofs/StreamProofs.vo
theories/Props/C13.vio: theories/Props/C13.v theories/Model/C11.vio theories/Proofs/StreamProofs.vio
theories/Props/C13.vos theories/Props/C13.vok theories/Props/C13.required_vos: theories/Props/C13.v theories/Model/C11.vos theories/Proofs/StreamProofs.vos
theories/Proofs/PeersProofs.vo theories/Proofs/PeersProofs.glob theories/Proofs/PeersProofs.v.beautified theories/Proofs/PeersProofs.required_vo: theories/Proofs/PeersProofs.v theories/Model/Peers.vo
theories/Proofs/PeersProofs.vio: theories/Proofs/PeersProofs.v theories/Model/Peers.vio
theories/Proofs/PeersProofs.vos theories/Proofs/PeersProofs.vok theories/Proofs/PeersProofs.required_vos: theories/Proofs/PeersProofs.v theories/Model/Peers.vos
theories/Props/C18.vo theories/Props/C18.glob theories/Props/C18.v.beautified theories/Props/C18.required_vo: theories/Props/C18.v theories/Model/Peers.vo theories/Proofs/PeersProofs.vo
theories/Props/C18.vio: theories/Props/C18.v theories/Model/Peers.vio theories/Proofs/PeersProofs.vio
theories/Props/C18.vos theories/Props/C18.vok theories/Props/C18.required_vos: theories/Props/C18.v theories/Model/Peers.vos theories/Proofs/PeersProofs.vos
theories/Proofs/FleetProofs.vo theories/Proofs/FleetProofs.glob theories/Proofs/FleetProofs.v.beautified theories/Proofs/FleetProofs.required_vo: theories/Proofs/FleetProofs.v theories/Model/Fleet.vo theories/Gen/Tables.vo theories/Proofs/TablesC01.vo
theories/Proofs/FleetProofs.vio: theories/Proofs/FleetProofs.v theories/Model/Fleet.vio theories/Gen/Tables.vio theories/Proofs/TablesC01.vio
theories/Proofs/FleetProofs.vos theories/Proofs/FleetProofs.vok theories/Proofs/FleetProofs.required_vos: theories/Proofs/FleetProofs.v theories/Model/Fleet.vos theories/Gen/Tables.vos theories/Proofs/TablesC01.vos
theories/Props/C19.vo theories/Props/C19.glob theories/Props/C19.v.beautified theories/Props/C19.required_vo: theories/Props/C19.v theories/Model/Fleet.vo theories/Gen/Tables.vo theories/Proofs/TablesC01.vo theories/Proofs/FleetProofs.vo
theories/Props/C19.vio: theories/Props/C19.v theories/Model/Fleet.vio theories/Gen/Tables.vio theories/Proofs/TablesC01.vio theories/Proofs/FleetProofs.vio
theories/Props/C19.vos theories/Props/C19.vok theories/Props/C19.required_vos: theories/Props/C19.v theories/Model/Fleet.vos theories/Gen/Tables.vos theories/Proofs/TablesC01.vos theories/Proofs/FleetProofs.vos
theories/Proofs/LimitsProofs.vo theories/Proofs/LimitsProofs.glob theories/Proofs/LimitsProofs.v.beautified theories/Proofs/LimitsProofs.required_vo: theories/Proofs/LimitsProofs.v theories/Model/Limits.vo theories/Proofs/HeaderProofs.vo theories/Proofs/MessageProofs.vo
theories/Proofs/LimitsProofs.vio: theories/Proofs/LimitsProofs.v theories/Model/Limits.vio theories/Proofs/HeaderProofs.vio theories/Proofs/MessageProofs.vio
theories/Proofs/LimitsProofs.vos theories/Proofs/LimitsProofs.vok theories/Proofs/LimitsProofs.required_vos: theories/Proofs/LimitsProofs.v theories/Model/Limits.vos theories/Proofs/HeaderProofs.vos theories/Proofs/MessageProofs.vos
theories/Props/C17.vo theories/Props/C17.glob theories/Props/C17.v.beautified theories/Props/C17.required_vo: theories/Props/C17.v theories/Model/Limits.vo theories/Proofs/HeaderProofs.vo theories/Proofs/MessageProofs.vo theories/Proofs/LimitsProofs.vo
theories/Props/C17.vio: theories/Props/C17.v theories/Model/Limits.vio theories/Proofs/HeaderProofs.vio theories/Proofs/MessageProofs.vio theories/Proofs/LimitsProofs.vio
theories/Props/C17.vos theories/Props/C17.vok theories/Props/C17.required_vos: theories/Props/C17.v theories/Model/Limits.vos theories/Proofs/HeaderProofs.vos theories/Proofs/MessageProofs.vos theories/Proofs/LimitsProofs.vos
theories/Proofs/SvsCommitProofs.vo theories/Proofs/SvsCommitProofs.glob theories/Proofs/SvsCommitProofs.v.beautified theories/Proofs/SvsCommitProofs.required_vo: theories/Proofs/SvsCommitProofs.v theories/Model/SvsCommit.vo
theories/Proofs/SvsCommitProofs.vio: theories/Proofs/SvsCommitProofs.v theories/Model/SvsCommit.vio
theories/Proofs/SvsCommitProofs.vos theories/Proofs/SvsCommitProofs.vok theories/Proofs/SvsCommitProofs.required_vos: theories/Proofs/SvsCommitProofs.v theories/Model/SvsCommit.vos
theories/Props/C10.vo theories/Props/C10.glob theories/Props/C10.v.beautified theories/Props/C10.required_vo: theories/Props/C10.v theories/Model/SvsCommit.vo theories/Proofs/SvsCommitProofs.vo
theories/Props/C10.vio: theories/Props/C10.v theories/Model/SvsCommit.vio theories/Proofs/SvsCommitProofs.vio
theories/Props/C10.vos theories/Props/C10.vok theories/Props/C10.required_vos: theories/Props/C10.v theories/Model/SvsCommit.vos theories/Proofs/SvsCommitProofs.vos
theories/Proofs/SvsProofs.vo theories/Proofs/SvsProofs.glob theories/Proofs/SvsProofs.v.beautified theories/Proofs/SvsProofs.required_vo: theories/Proofs/SvsProofs.v theories/Model/Svs.vo
theories/Proofs/SvsProofs.vio: theories/Proofs/SvsProofs.v theories/Model/Svs.vio
theories/Proofs/SvsProofs.vos theories/Proofs/SvsProofs.vok theories/Proofs/SvsProofs.required_vos: theories/Proofs/SvsProofs.v theories/Model/Svs.vos
theories/Props/C09.vo theories/Props/C09.glob theories/Props/C09.v.beautified theories/Props/C09.required_vo: theories/Props/C09.v theories/Model/Svs.vo theories/Proofs/SvsProofs.vo
theories/Props/C09.vio: theories/Props/C09.v theories/Model/Svs.vio theories/Proofs/SvsProofs.vio
theories/Props/C09.vos theories/Props/C09.vok theories/Props/C09.required_vos: theories/Props/C09.v theories/Model/Svs.vos theories/Proofs/SvsProofs.vos
theories/Proofs/BeveProofs.vo theories/Proofs/BeveProofs.glob theories/Proofs/BeveProofs.v.beautified theories/Proofs/BeveProofs.required_vo: theories/Proofs/BeveProofs.v theories/Model/Beve.vo theories/Proofs/HeaderProofs.vo theories/Proofs/MessageProofs.vo
theories/Proofs/BeveProofs.vio: theories/Proofs/BeveProofs.v theories/Model/Beve.vio theories/Proofs/HeaderProofs.vio theories/Proofs/MessageProofs.vio
theories/Proofs/BeveProofs.vos theories/Proofs/BeveProofs.vok theories/Proofs/BeveProofs.required_vos: theories/Proofs/BeveProofs.v theories/Model/Beve.vos theories/Proofs/HeaderProofs.vos theories/Proofs/MessageProofs.vos
theories/Props/C08.vo theories/Props/C08.glob theories/Props/C08.v.beautified theories/Props/C08.required_vo: theories/Props/C08.v theories/Model/Beve.vo theories/Proofs/MessageProofs.vo theories/Proofs/BeveProofs.vo
theories/Props/C08.vio: theories/Props/C08.v theories/Model/Beve.vio theories/Proofs/MessageProofs.vio theories/Proofs/BeveProofs.vio
theories/Props/C08.vos theories/Props/C08.vok theories/Props/C08.required_vos: theories/Props/C08.v theories/Model/Beve.vos theories/Proofs/MessageProofs.vos theories/Proofs/BeveProofs.vos
theories/Proofs/JsonPtrProofs.vo theories/Proofs/JsonPtrProofs.glob theories/Proofs/JsonPtrProofs.v.beautified theories/Proofs/JsonPtrProofs.required_vo: theories/Proofs/JsonPtrProofs.v theories/Model/JsonPtr.vo
theories/Proofs/JsonPtrProofs.vio: theories/Proofs/JsonPtrProofs.v theories/Model/JsonPtr.vio
theories/Proofs/JsonPtrProofs.vos theories/Proofs/JsonPtrProofs.vok theories/Proofs/JsonPtrProofs.required_vos: theories/Proofs/JsonPtrProofs.v theories/Model/JsonPtr.vos
theories/Proofs/RouterProofs.vo theories/Proofs/RouterProofs.glob theories/Proofs/RouterProofs.v.beautified theories/Proofs/RouterProofs.required_vo: theories/Proofs/RouterProofs.v theories/Model/JsonPtr.vo theories/Model/Router.vo theories/Proofs/JsonPtrProofs.vo
theories/Proofs/RouterProofs.vio: theories/Proofs/RouterProofs.v theories/Model/JsonPtr.vio theories/Model/Router.vio theories/Proofs/JsonPtrProofs.vio
theories/Proofs/RouterProofs.vos theories/Proofs/RouterProofs.vok theories/Proofs/RouterProofs.required_vos: theories/Proofs/RouterProofs.v theories/Model/JsonPtr.vos theories/Model/Router.vos theories/Proofs/JsonPtrProofs.vos
theories/Props/C07.vo theories/Props/C07.glob theories/Props/C07.v.beautified theories/Props/C07.required_vo: theories/Props/C07.v theories/Model/JsonPtr.vo theories/Model/Router.vo theories/Proofs/JsonPtrProofs.vo theories/Proofs/RouterProofs.vo
theories/Props/C07.vio: theories/Props/C07.v theories/Model/JsonPtr.vio theories/Model/Router.vio theories/Proofs/JsonPtrProofs.vio theories/Proofs/RouterProofs.vio
theories/Props/C07.vos theories/Props/C07.vok theories/Props/C07.required_vos: theories/Props/C07.v theories/Model/JsonPtr.vos theories/Model/Router.vos theories/Proofs/JsonPtrProofs.vos theories/Proofs/RouterProofs.vos
theories/Proofs/CondvarProofs.vo theories/Proofs/CondvarProofs.glob theories/Proofs/CondvarProofs.v.beautified theories/Proofs/CondvarProofs.required_vo: theories/Proofs/CondvarProofs.v theories/Model/Condvar.vo theories/Proofs/StreamProofs.vo
theories/Proofs/CondvarProofs.vio: theories/Proofs/CondvarProofs.v theories/Model/Condvar.vio theories/Proofs/StreamProofs.vio
theories/Proofs/CondvarProofs.vos theories/Proofs/CondvarProofs.vok theories/Proofs/CondvarProofs.required_vos: theories/Proofs/CondvarProofs.v theories/Model/Condvar.vos theories/Proofs/StreamProofs.vos
theories/Props/C12.vo theories/Props/C12.glob theories/Props/C12.v.beautified theories/Props/C12.required_vo: theories/Props/C12.v theories/Model/Condvar.vo theories/Proofs/CondvarProofs.vo
theories/Props/C12.vio: theories/Props/C12.v theories/Model/Condvar.vio theories/Proofs/CondvarProofs.vio
theories/Props/C12.vos theories/Props/C12.vok theories/Props/C12.required_vos: theories/Props/C12.v theories/Model/Condvar.vos theories/Proofs/CondvarProofs.vos
theories/Proofs/ClientMuxProofs.vo theories/Proofs/ClientMuxProofs.glob theories/Proofs/ClientMuxProofs.v.beautified theories/Proofs/ClientMuxProofs.required_vo: theories/Proofs/ClientMuxProofs.v theories/Model/ClientMux.vo theories/Proofs/PeersProofs.vo
theories/Proofs/ClientMuxProofs.vio: theories/Proofs/ClientMuxProofs.v theories/Model/ClientMux.vio theories/Proofs/PeersProofs.vio
theories/Proofs/ClientMuxProofs.vos theories/Proofs/ClientMuxProofs.vok theories/Proofs/ClientMuxProofs.required_vos: theories/Proofs/ClientMuxProofs.v theories/Model/ClientMux.vos theories/Proofs/PeersProofs.vos
theories/Props/C04.vo theories/Props/C04.glob theories/Props/C04.v.beautified theories/Props/C04.required_vo: theories/Props/C04.v theories/Model/ClientMux.vo theories/Proofs/ClientMuxProofs.vo
theories/Props/C04.vio: theories/Props/C04.v theories/Model/ClientMux.vio theories/Proofs/ClientMuxProofs.vio
theories/Props/C04.vos theories/Props/C04.vok theories/Props/C04.required_vos: theories/Props/C04.v theories/Model/ClientMux.vos theories/Proofs/ClientMuxProofs.vos
theories/Proofs/OffReaderProofs.vo theories/Proofs/OffReaderProofs.glob theories/Proofs/OffReaderProofs.v.beautified theories/Proofs/OffReaderProofs.required_vo: theories/Proofs/OffReaderProofs.v theories/Model/OffReader.vo
theories/Proofs/OffReaderProofs.vio: theories/Proofs/OffReaderProofs.v theories/Model/OffReader.vio
theories/Proofs/OffReaderProofs.vos theories/Proofs/OffReaderProofs.vok theories/Proofs/OffReaderProofs.required_vos: theories/Proofs/OffReaderProofs.v theories/Model/OffReader.vos
theories/Props/C16.vo theories/Props/C16.glob theories/Props/C16.v.beautified theories/Props/C16.required_vo: theories/Props/C16.v theories/Model/OffReader.vo theories/Proofs/OffReaderProofs.vo
theories/Props/C16.vio: theories/Props/C16.v theories/Model/OffReader.vio theories/Proofs/OffReaderProofs.vio
theories/Props/C16.vos theories/Props/C16.vok theories/Props/C16.required_vos: theories/Props/C16.v theories/Model/OffReader.vos theories/Proofs/OffReaderProofs.vos
theories/Proofs/RouteProofs.vo theories/Proofs/RouteProofs.glob theories/Proofs/RouteProofs.v.beautified theories/Proofs/RouteProofs.required_vo: theories/Proofs/RouteProofs.v theories/Model/Route.vo
theories/Proofs/RouteProofs.vio: theories/Proofs/RouteProofs.v theories/Model/Route.vio
theories/Proofs/RouteProofs.vos theories/Proofs/RouteProofs.vok theories/Proofs/RouteProofs.required_vos: theories/Proofs/RouteProofs.v theories/Model/Route.vos
theories/Props/C03.vo theories/Props/C03.glob theories/Props/C03.v.beautified theories/Props/C03.required_vo: theories/Props/C03.v theories/Model/Route.vo theories/Proofs/RouteProofs.vo
theories/Props/C03.vio: theories/Props/C03.v theories/Model/Route.vio theories/Proofs/RouteProofs.vio
theories/Props/C03.vos theories/Props/C03.vok theories/Props/C03.required_vos: theories/Props/C03.v theories/Model/Route.vos theories/Proofs/RouteProofs.vos
theories/Proofs/JsonProofs.vo theories/Proofs/JsonProofs.glob theories/Proofs/JsonProofs.v.beautified theories/Proofs/JsonProofs.required_vo: theories/Proofs/JsonProofs.v theories/Model/Json.vo
theories/Proofs/JsonProofs.vio: theories/Proofs/JsonProofs.v theories/Model/Json.vio
theories/Proofs/JsonProofs.vos theories/Proofs/JsonProofs.vok theories/Proofs/JsonProofs.required_vos: theories/Proofs/JsonProofs.v theories/Model/Json.vos
theories/Proofs/PointerProofs.vo theories/Proofs/PointerProofs.glob theories/Proofs/PointerProofs.v.beautified theories/Proofs/PointerProofs.required_vo: theories/Proofs/PointerProofs.v theories/Model/Json.vo theories/Model/Registry.vo theories/Proofs/JsonProofs.vo
theories/Proofs/PointerProofs.vio: theories/Proofs/PointerProofs.v theories/Model/Json.vio theories/Model/Registry.vio theories/Proofs/JsonProofs.vio
theories/Proofs/PointerProofs.vos theories/Proofs/PointerProofs.vok theories/Proofs/PointerProofs.required_vos: theories/Proofs/PointerProofs.v theories/Model/Json.vos theories/Model/Registry.vos theories/Proofs/JsonProofs.vos
theories/Proofs/RegistryProofs.vo theories/Proofs/RegistryProofs.glob theories/Proofs/RegistryProofs.v.beautified theories/Proofs/RegistryProofs.required_vo: theories/Proofs/RegistryProofs.v theories/Model/Json.vo theories/Model/Registry.vo theories/Proofs/JsonProofs.vo theories/Proofs/PointerProofs.vo
theories/Proofs/RegistryProofs.vio: theories/Proofs/RegistryProofs.v theories/Model/Json.vio theories/Model/Registry.vio theories/Proofs/JsonProofs.vio theories/Proofs/PointerProofs.vio
theories/Proofs/RegistryProofs.vos theories/Proofs/RegistryProofs.vok theories/Proofs/RegistryProofs.required_vos: theories/Proofs/RegistryProofs.v theories/Model/Json.vos theories/Model/Registry.vos theories/Proofs/JsonProofs.vos theories/Proofs/PointerProofs.vos
theories/Proofs/RegistryLaws.vo theories/Proofs/RegistryLaws.glob theories/Proofs/RegistryLaws.v.beautified theories/Proofs/RegistryLaws.required_vo: theories/Proofs/RegistryLaws.v theories/Model/Json.vo theories/Model/Registry.vo theories/Proofs/JsonProofs.vo theories/Proofs/PointerProofs.vo theories/Proofs/RegistryProofs.vo
theories/Proofs/RegistryLaws.vio: theories/Proofs/RegistryLaws.v theories/Model/Json.vio theories/Model/Registry.vio theories/Proofs/JsonProofs.vio theories/Proofs/PointerProofs.vio theories/Proofs/RegistryProofs.vio
theories/Proofs/RegistryLaws.vos theories/Proofs/RegistryLaws.vok theories/Proofs/RegistryLaws.required_vos: theories/Proofs/RegistryLaws.v theories/Model/Json.vos theories/Model/Registry.vos theories/Proofs/JsonProofs.vos theories/Proofs/PointerProofs.vos theories/Proofs/RegistryProofs.vos
theories/Proofs/RegistryConc.vo theories/Proofs/RegistryConc.glob theories/Proofs/RegistryConc.v.beautified theories/Proofs/RegistryConc.required_vo: theories/Proofs/RegistryConc.v theories/Model/Json.vo theories/Model/Registry.vo theories/Proofs/JsonProofs.vo theories/Proofs/PointerProofs.vo theories/Proofs/RegistryProofs.vo theories/Proofs/RegistryLaws.vo
theories/Proofs/RegistryConc.vio: theories/Proofs/RegistryConc.v theories/Model/Json.vio theories/Model/Registry.vio theories/Proofs/JsonProofs.vio theories/Proofs/PointerProofs.vio theories/Proofs/RegistryProofs.vio theories/Proofs/RegistryLaws.vio
theories/Proofs/RegistryConc.vos theories/Proofs/RegistryConc.vok theories/Proofs/RegistryConc.required_vos: theories/Proofs/RegistryConc.v theories/Model/Json.vos theories/Model/Registry.vos theories/Proofs/JsonProofs.vos theories/Proofs/PointerProofs.vos theories/Proofs/RegistryProofs.vos theories/Proofs/RegistryLaws.vos
theories/Props/C14.vo theories/Props/C14.glob theories/Props/C14.v.beautified theories/Props/C14.required_vo: theories/Props/C14.v theories/Model/Json.vo theories/Model/Registry.vo theories/Proofs/JsonProofs.vo theories/Proofs/PointerProofs.vo theories/Proofs/RegistryProofs.vo theories/Proofs/RegistryLaws.vo theories/Proofs/RegistryConc.vo
theories/Props/C14.vio: theories/Props/C14.v theories/Model/Json.vio theories/Model/Registry.vio theories/Proofs/JsonProofs.vio theories/Proofs/PointerProofs.vio theories/Proofs/RegistryProofs.vio theories/Proofs/RegistryLaws.vio theories/Proofs/RegistryConc.vio
theories/Props/C14.vos theories/Props/C14.vok theories/Props/C14.required_vos: theories/Props/C14.v theories/Model/Json.vos theories/Model/Registry.vos theories/Proofs/JsonProofs.vos theories/Proofs/PointerProofs.vos theories/Proofs/RegistryProofs.vos theories/Proofs/RegistryLaws.vos theories/Proofs/RegistryConc.vos
theories/Proofs/LifecycleProofs.vo theories/Proofs/LifecycleProofs.glob theories/Proofs/LifecycleProofs.v.beautified theories/Proofs/LifecycleProofs.required_vo: theories/Proofs/LifecycleProofs.v theories/Model/Lifecycle.vo theories/Proofs/PeersProofs.vo
theories/Proofs/LifecycleProofs.vio: theories/Proofs/LifecycleProofs.v theories/Model/Lifecycle.vio theories/Proofs/PeersProofs.vio
theories/Proofs/LifecycleProofs.vos theories/Proofs/LifecycleProofs.vok theories/Proofs/LifecycleProofs.required_vos: theories/Proofs/LifecycleProofs.v theories/Model/Lifecycle.vos theories/Proofs/PeersProofs.vos
theories/Props/C15.vo theories/Props/C15.glob theories/Props/C15.v.beautified theories/Props/C15.required_vo: theories/Props/C15.v theories/Model/Lifecycle.vo theories/Proofs/PeersProofs.vo theories/Proofs/LifecycleProofs.vo
theories/Props/C15.vio: theories/Props/C15.v theories/Model/Lifecycle.vio theories/Proofs/PeersProofs.vio theories/Proofs/LifecycleProofs.vio
theories/Props/C15.vos theories/Props/C15.vok theories/Props/C15.required_vos: theories/Props/C15.v theories/Model/Lifecycle.vos theories/Proofs/PeersProofs.vos theories/Proofs/LifecycleProofs.vos
theories/Proofs/ClientFailProofs.vo theories/Proofs/ClientFailProofs.glob theories/Proofs/ClientFailProofs.v.beautified theories/Proofs/ClientFailProofs.required_vo: theories/Proofs/ClientFailProofs.v theories/Model/ClientFail.vo
theories/Proofs/ClientFailProofs.vio: theories/Proofs/ClientFailProofs.v theories/Model/ClientFail.vio
theories/Proofs/ClientFailProofs.vos theories/Proofs/ClientFailProofs.vok theories/Proofs/ClientFailProofs.required_vos: theories/Proofs/ClientFailProofs.v theories/Model/ClientFail.vos
theories/Props/C06.vo theories/Props/C06.glob theories/Props/C06.v.beautified theories/Props/C06.required_vo: theories/Props/C06.v theories/Model/ClientFail.vo theories/Proofs/ClientFailProofs.vo
theories/Props/C06.vio: theories/Props/C06.v theories/Model/ClientFail.vio theories/Proofs/ClientFailProofs.vio
theories/Props/C06.vos theories/Props/C06.vok theories/Props/C06.required_vos: theories/Props/C06.v theories/Model/ClientFail.vos theories/Proofs/ClientFailProofs.vos
theories/Proofs/WriterSMProofs.vo theories/Proofs/WriterSMProofs.glob theories/Proofs/WriterSMProofs.v.beautified theories/Proofs/WriterSMProofs.required_vo: theories/Proofs/WriterSMProofs.v theories/Model/WriterSM.vo theories/Proofs/HeaderProofs.vo theories/Proofs/MessageProofs.vo
theories/Proofs/WriterSMProofs.vio: theories/Proofs/WriterSMProofs.v theories/Model/WriterSM.vio theories/Proofs/HeaderProofs.vio theories/Proofs/MessageProofs.vio
theories/Proofs/WriterSMProofs.vos theories/Proofs/WriterSMProofs.vok theories/Proofs/WriterSMProofs.required_vos: theories/Proofs/WriterSMProofs.v theories/Model/WriterSM.vos theories/Proofs/HeaderProofs.vos theories/Proofs/MessageProofs.vos
theories/Props/C05.vo theories/Props/C05.glob theories/Props/C05.v.beautified theories/Props/C05.required_vo: theories/Props/C05.v theories/Model/WriterSM.vo theories/Proofs/HeaderProofs.vo theories/Proofs/MessageProofs.vo theories/Proofs/WriterSMProofs.vo
theories/Props/C05.vio: theories/Props/C05.v theories/Model/WriterSM.vio theories/Proofs/HeaderProofs.vio theories/Proofs/MessageProofs.vio theories/Proofs/WriterSMProofs.vio
theories/Props/C05.vos theories/Props/C05.vok theories/Props/C05.required_vos: theories/Props/C05.v theories/Model/WriterSM.vos theories/Proofs/HeaderProofs.vos theories/Proofs/MessageProofs.vos theories/Proofs/WriterSMProofs.vos
