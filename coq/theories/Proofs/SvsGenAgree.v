(** Agreement of the hand-written models of the SVS download path (Model/Svs.v: property C09;
    Model/SvsCommit.v: the TrailerHold of property C10) with the Gallina renderings of
    ChunkSink::{new, send_chunk, flush_remaining, write, flush}, produce, Session::{recv, pull},
    SessionTable::{new, get, remove}, NextHandler::handle, CancelHandler::handle and
    TrailerHold::{new, into_trailer, write} that bin/rs2v regenerates from
    /repo/src/value_stream.rs on every run (Gen/SvsGen.v).  A function that could not be
    translated is [None] and its lemma degrades to [True].

    The renderings thread the channel / the inner writer with a budget of operations that
    succeed ([tx_left] / [iw_left]); the models have no failing send or write, so the equalities
    with the models are stated for the unlimited budget ([None]: the receiver outlives the
    producer, the inner writer never fails).  [send_chunk], [flush_remaining], [write] and
    TrailerHold's [write] are also characterised for every budget: a failed send / inner write is
    passed on as [Err] and nothing further is attempted ([produce] only for the live channel: once
    the receiver is gone nothing it does can be observed). *)
From RepeV Require Import Model.SvsCommit.
From RepeV Require Import Model.Svs Base.GenSvsPrelude Gen.SvsGen.
From RepeV Require Export Proofs.GenAgreeBase.
From Coq Require Import ZifyBool ZifyN ZifyNat Lia.
Ltac Zify.zify_post_hook ::= Z.div_mod_to_equations.

Local Open Scope N_scope.

(** ** what the renderings are compared with *)
(** a live channel / inner writer: every send / write succeeds *)
Definition live (c : tx_chan) : Prop := tx_left c = None.
Definition sent_more (c : tx_chan) (ms : list msg) : tx_chan := mkTx (tx_sent c ++ ms) (tx_left c).
(** the [Write::write] payloads of a writer-oracle step *)
Definition wwrites (ops : list wop) : list (list byte) :=
  flat_map (fun o => match o with WWrite b => [b] | WFlush => [] end) ops.
(** [k] steps of the writer oracle (1 without compression; 3 with: the encoder's constructor,
    the body writer on the encoder, [finish]): the writes that reach the sink, whether a step
    failed (the later steps are then not run), the rest of the script *)
Fixpoint steps_run (k : nat) (script : list wstep) : list (list byte) * bool * list wstep :=
  match k with
  | O => ([], false, script)
  | S k' =>
      match script with
      | [] => steps_run k' []
      | st :: rest =>
          match ws_res st with
          | Some _ => (wwrites (ws_ops st), true, rest)
          | None => let '(ws, f, r) := steps_run k' rest in (wwrites (ws_ops st) ++ ws, f, r)
          end
      end
  end.
Definition steps_of (c : compression) : nat := match c with CoNone => 1 | CoZstd => 3 end.
(** [Result<(Vec<u8>, bool), String>] of Session::pull *)
Definition pulled_res (p : pulled) : result (list byte * bool) text :=
  match p with PChunk c l => ROk (c, l) | PErr => RErr TOpaque end.
(** the session table after a [next] / [cancel] on stream [id]: the model's new entry stored *)
Definition store_entry (m : list (N * session)) (id : N) (t : table) : list (N * session) :=
  match t with Some s => m_put m id s | None => m_del m id end.

(** ** small facts *)
Lemma sink_eta s : mkSink (k_buf s) (k_chunk_bytes s) = s.
Proof. destruct s; reflexivity. Qed.
Lemma session_eta s : mkSession (s_rx s) (s_look s) (s_done s) = s.
Proof. destruct s; reflexivity. Qed.
Lemma len_n_length {A} (l : list A) : len_n l = N.of_nat (length l).
Proof. reflexivity. Qed.
Lemma is_empty_nil {A} (l : list A) : list_is_empty l = match l with [] => true | _ => false end.
Proof. destruct l; reflexivity. Qed.
Lemma is_empty_len {A} (l : list A) : list_is_empty l = (length l =? 0)%nat.
Proof. destruct l; reflexivity. Qed.
Lemma slice_prefix {A} (l : list A) (k : N) : k <= len_n l -> slice_chk l 0 k = Ok (firstn (N.to_nat k) l).
Proof.
  intros H. unfold slice_chk, len_n in *. replace ((0 <=? k) && (k <=? N.of_nat (length l))) with true by lia.
  unfold slice. rewrite N2Nat.inj_0, Nat.sub_0_r. reflexivity.
Qed.
Lemma slice_suffix {A} (l : list A) (k : N) : k <= len_n l -> slice_chk l k (len_n l) = Ok (skipn (N.to_nat k) l).
Proof.
  intros H. unfold slice_chk, len_n in *. replace ((k <=? N.of_nat (length l)) && (N.of_nat (length l) <=? N.of_nat (length l))) with true by lia.
  unfold slice. rewrite Nat2N.id. f_equal. rewrite firstn_all2; [reflexivity|]. rewrite skipn_length. lia.
Qed.
Lemma m_get_del {V} (m : list (N * V)) k : m_get (m_del m k) k = None.
Proof. induction m as [|[k0 v0] m IH]; cbn [m_del m_get]; [reflexivity|]. destruct (k0 =? k) eqn:E; [exact IH|]. cbn [m_get]. now rewrite E. Qed.
Lemma m_del_absent {V} (m : list (N * V)) k : m_get m k = None -> m_del m k = m.
Proof. induction m as [|[k0 v0] m IH]; cbn [m_del m_get]; [reflexivity|]. destruct (k0 =? k); [discriminate|]. intros H. now rewrite IH. Qed.
Lemma m_del_put {V} (m : list (N * V)) k v : m_del (m_put m k v) k = m_del m k.
Proof. induction m as [|[k0 v0] m IH]; cbn [m_del m_put]; [reflexivity|]. destruct (k0 =? k) eqn:E; cbn [m_del]; rewrite E; [reflexivity|]. now rewrite IH. Qed.
Lemma m_put_put {V} (m : list (N * V)) k v w : m_put (m_put m k v) k w = m_put m k w.
Proof. induction m as [|[k0 v0] m IH]; cbn [m_put]; [reflexivity|]. destruct (k0 =? k) eqn:E; cbn [m_put]; rewrite E; [reflexivity|]. now rewrite IH. Qed.
Lemma m_get_put {V} (m : list (N * V)) k v : m_get m k <> None -> m_get (m_put m k v) k = Some v.
Proof. induction m as [|[k0 v0] m IH]; cbn [m_get m_put]; [congruence|]. destruct (k0 =? k) eqn:E; cbn [m_get]; rewrite E; [reflexivity|]. exact IH. Qed.

(** ** ChunkSink::new, send_chunk, flush_remaining, flush *)
Lemma sink_new_agrees :
  match gen_sink_new with
  | Some f => forall ch n, f ch n = Ok (mkSink [] n, ch)
  | None => True
  end.
Proof. gen_start. all: intros; reflexivity. Qed.

(** [send_chunk]: the whole buffer is sent as one chunk and the buffer is empty afterwards; a
    failed send (the receiver is gone) is [Err(BrokenPipe)] *)
Lemma sink_send_chunk_agrees :
  match gen_sink_send_chunk with
  | Some f => forall ch s,
      f ch s = Ok (res_map_err (fst (tx_send ch (MChunk (k_buf s)))) IoBrokenPipe, mkSink [] (k_chunk_bytes s),
                   snd (tx_send ch (MChunk (k_buf s))))
  | None => True
  end.
Proof. gen_start. all: intros ch s; destruct s as [buf n]; cbn [k_buf k_chunk_bytes set_k_buf]; destruct (tx_send ch (MChunk buf)); reflexivity. Qed.

Lemma tx_send_live c m : live c -> tx_send c m = (ROk tt, sent_more c [m]).
Proof. unfold live, tx_send, sent_more. intros ->. reflexivity. Qed.
Lemma sent_more_live c ms : live c -> live (sent_more c ms).
Proof. exact (fun H => H). Qed.
Lemma sent_more_more c a b : sent_more (sent_more c a) b = sent_more c (a ++ b).
Proof. unfold sent_more. cbn [tx_sent tx_left]. now rewrite app_assoc. Qed.
Lemma sent_more_nil c : sent_more c [] = c.
Proof. destruct c as [s l]. unfold sent_more. cbn [tx_sent tx_left]. now rewrite app_nil_r. Qed.

(** [flush_remaining]: the model's tail -- nothing for an empty buffer, else one chunk *)
Lemma sink_flush_remaining_agrees :
  match gen_sink_flush_remaining with
  | Some f => forall ch s, live ch ->
      f ch s = Ok (ROk tt, mkSink [] (k_chunk_bytes s),
                   sent_more ch (match k_buf s with [] => [] | _ :: _ => [MChunk (k_buf s)] end))
  | None => True
  end.
Proof.
  pose proof sink_send_chunk_agrees as Hs. gen_start.
  all: intros ch s Hl; callee Hs; rewrite ?Hs, ?is_empty_nil, ?tx_send_live by exact Hl; destruct s as [buf n]; cbn [k_buf k_chunk_bytes fst snd res_map_err].
  all: destruct buf; [rewrite sent_more_nil|]; reflexivity.
Qed.

(** [flush] sends nothing (an intermediate flush never emits a short chunk) *)
Lemma sink_flush_agrees :
  match gen_sink_flush with
  | Some f => forall ch s, f ch s = Ok (ROk tt, s, ch)
  | None => True
  end.
Proof. gen_start. all: intros; reflexivity. Qed.

(** ** ChunkSink::write: the loop is the model's [sink_write] *)
Lemma loop_chk_S {St R} f (step : St -> outcome (lflow St R)) s :
  loop_chk (S f) step s =
  (do x <- step s; match x with LNext s' => loop_chk f step s' | LStop s' => Ok (LFell s') | LReturn r => Ok (LReturned r) end).
Proof. reflexivity. Qed.
Lemma sink_write_fuel n : (0 < n)%nat -> forall f1 f2 data buf, (length buf < n)%nat -> (length data <= f1)%nat -> (length data <= f2)%nat ->
  sink_write f1 n buf data = sink_write f2 n buf data.
Proof.
  intros Hn. induction f1 as [|f1 IH]; intros f2 data buf Hb H1 H2.
  - destruct data; [destruct f2; reflexivity|cbn [length] in H1; lia].
  - destruct data as [|b data]; [destruct f2; reflexivity|]. destruct f2 as [|f2]; [cbn [length] in H2; lia|].
    cbn [sink_write]. set (d := b :: data) in *. set (tk := Nat.min (n - length buf) (length d)).
    assert (Htk : (1 <= tk <= length d)%nat) by (subst tk d; cbn [length] in *; lia).
    assert (Hs : (length (skipn tk d) <= f1 /\ length (skipn tk d) <= f2)%nat) by (rewrite skipn_length; subst d; cbn [length] in *; lia).
    assert (Hf : (length (buf ++ firstn tk d) <= n)%nat) by (rewrite app_length, firstn_length; lia).
    destruct (n <=? length (buf ++ firstn tk d))%nat eqn:E.
    + rewrite (IH f2 (skipn tk d) []); cbn [length]; try lia. reflexivity.
    + apply IH; lia.
Qed.

Lemma sink_write_tail n : (0 < n)%nat -> forall f data buf, (length buf < n)%nat -> (length (snd (sink_write f n buf data)) < n)%nat.
Proof.
  intros Hn. induction f as [|f IH]; intros data buf Hb.
  - destruct data; exact Hb.
  - destruct data as [|b data]; [exact Hb|]. cbn [sink_write]. set (d := b :: data). set (tk := Nat.min (n - length buf) (length d)).
    destruct (n <=? length (buf ++ firstn tk d))%nat eqn:E.
    + specialize (IH (skipn tk d) [] Hn). destruct (sink_write f n [] (skipn tk d)). exact IH.
    + apply IH. apply Nat.leb_gt in E. exact E.
Qed.

(** one iteration of the loop of [write] on a live channel, from a state that satisfies the sink's
    invariant ([buf] is shorter than a chunk) *)
Definition write_step (n : nat) (d b : list byte) (c : tx_chan) : lflow (list byte * sink * tx_chan) (result N io_error * sink * tx_chan) :=
  match d with
  | [] => LStop (d, mkSink b (N.of_nat n), c)
  | _ :: _ =>
      let tk := Nat.min (n - length b) (length d) in
      let b' := b ++ firstn tk d in
      if (n <=? length b')%nat then LNext (skipn tk d, mkSink [] (N.of_nat n), sent_more c [MChunk b'])
      else LNext (skipn tk d, mkSink b' (N.of_nat n), c)
  end.

Lemma write_loop n step : (0 < n)%nat ->
  (forall d b c, live c -> (length b < n)%nat -> step (d, mkSink b (N.of_nat n), c) = Ok (write_step n d b c)) ->
  forall f d b c, live c -> (length d <= f)%nat -> (length b < n)%nat ->
    loop_chk (S f) step (d, mkSink b (N.of_nat n), c) =
    Ok (LFell ([], mkSink (snd (sink_write f n b d)) (N.of_nat n), sent_more c (map MChunk (fst (sink_write f n b d))))).
Proof.
  intros Hn Hstep. induction f as [|f IH]; intros d b c Hc Hd Hb; rewrite loop_chk_S, Hstep by assumption.
  - destruct d; [|cbn [length] in Hd; lia]. cbn [write_step bind sink_write fst snd map]. rewrite sent_more_nil. reflexivity.
  - destruct d as [|x d]; [cbn [write_step bind sink_write fst snd map]; rewrite sent_more_nil; reflexivity|].
    cbn [sink_write write_step]. set (dd := x :: d) in *. set (tk := Nat.min (n - length b) (length dd)). cbv zeta.
    assert (Htk : (1 <= tk <= length dd)%nat) by (subst tk dd; cbn [length] in *; lia).
    assert (Hs1 : (length (skipn tk dd) <= f)%nat) by (rewrite skipn_length; lia).
    destruct (n <=? length (b ++ firstn tk dd))%nat eqn:E; cbn [bind].
    + rewrite IH by (cbn [length]; try assumption; lia).
      destruct (sink_write f n [] (skipn tk dd)) as [cs r]. cbn [fst snd map]. rewrite sent_more_more. reflexivity.
    + apply IH; try assumption. apply Nat.leb_gt in E. exact E.
Qed.

(** [write] on a live channel, from a sink whose buffer is shorter than a chunk: the chunks the
    model's loop cuts are sent, its tail is the new buffer, all of [data] is consumed *)
Lemma sink_write_agrees :
  match gen_sink_write with
  | Some f => forall ch s data n, live ch -> k_chunk_bytes s = N.of_nat n -> (0 < n)%nat -> (length (k_buf s) < n)%nat ->
      f ch s data = Ok (ROk (len_n data), mkSink (snd (sink_write (S (length data)) n (k_buf s) data)) (N.of_nat n),
                        sent_more ch (map MChunk (fst (sink_write (S (length data)) n (k_buf s) data))))
  | None => True
  end.
Proof.
  pose proof sink_send_chunk_agrees as Hs. gen_start.
  all: intros ch s data n Hl Hn Hpos Hb; callee Hs; destruct s as [buf nn]; cbn [k_buf k_chunk_bytes] in *; subst nn.
  all: match goal with |- context [loop_chk _ ?st _] => set (stp := st) end.
  all: assert (Hstep : forall d b c, live c -> (length b < n)%nat -> stp (d, mkSink b (N.of_nat n), c) = Ok (write_step n d b c))
    by (intros d b c Hc Hbb; unfold stp; destruct d as [|x d]; [reflexivity|]; cbn [write_step]; set (dd := x :: d) in *;
        cbn [k_buf k_chunk_bytes set_k_buf]; replace (negb (list_is_empty dd)) with true by reflexivity; cbv iota zeta;
        unfold sub64; replace (len_n b <=? N.of_nat n) with true by (unfold len_n; lia); cbn [bind];
        set (tk := Nat.min (n - length b) (length dd));
        replace (N.min (N.of_nat n - len_n b) (len_n dd)) with (N.of_nat tk) by (unfold len_n; lia);
        assert (Htk : (1 <= tk <= length dd)%nat) by (subst tk dd; cbn [length] in *; lia);
        rewrite slice_prefix, slice_suffix by (unfold len_n; lia); rewrite Nat2N.id; cbn [bind];
        replace (N.of_nat n <=? len_n (b ++ firstn tk dd)) with (n <=? length (b ++ firstn tk dd))%nat by (unfold len_n; lia);
        destruct (n <=? length (b ++ firstn tk dd))%nat; [rewrite Hs, tx_send_live by exact Hc|]; reflexivity).
  all: rewrite (write_loop n stp Hpos Hstep) by (try assumption; lia). all: cbn [bind].
  all: rewrite (sink_write_fuel n Hpos (length data) (S (length data))) by lia. all: reflexivity.
Qed.

(** ** the same for ANY channel state: [send_all c ms] is [c] after trying to send [ms] in order
    (what fits the budget is sent, the rest is lost), [fits c k] says that [k] more sends succeed *)
Definition send_all (c : tx_chan) (ms : list msg) : tx_chan :=
  match tx_left c with
  | None => mkTx (tx_sent c ++ ms) None
  | Some k => mkTx (tx_sent c ++ firstn k ms) (Some (k - length ms)%nat)
  end.
Definition fits (c : tx_chan) (k : nat) : bool := match tx_left c with None => true | Some b => (k <=? b)%nat end.

Lemma send_all_live c ms : live c -> send_all c ms = sent_more c ms /\ (forall k, fits c k = true).
Proof. unfold live, send_all, sent_more, fits. intros ->. split; reflexivity. Qed.
Lemma send_all_nil c : send_all c [] = c.
Proof. destruct c as [s [k|]]; unfold send_all; cbn [tx_left tx_sent length]; rewrite ?firstn_nil, app_nil_r, ?Nat.sub_0_r; reflexivity. Qed.
Lemma tx_send_all c m : tx_send c m = (if fits c 1 then ROk tt else RErr tt, send_all c [m]).
Proof.
  destruct c as [s [[|k]|]]; unfold tx_send, fits, send_all; cbn [tx_left tx_sent length firstn Nat.leb Nat.sub]; rewrite ?firstn_nil, ?app_nil_r, ?Nat.sub_0_r; reflexivity.
Qed.
Lemma send_all_app c a b : send_all (send_all c a) b = send_all c (a ++ b).
Proof.
  destruct c as [s [k|]]; unfold send_all; cbn [tx_left tx_sent]; [|now rewrite app_assoc].
  rewrite firstn_app, app_length, <- app_assoc. f_equal. f_equal. lia.
Qed.
Lemma fits_app c a k : fits c (length a + k) = fits c (length a) && fits (send_all c a) k.
Proof. destruct c as [s [b|]]; unfold fits, send_all; cbn [tx_left]; [lia|reflexivity]. Qed.
Lemma send_all_cut c a b : fits c (length a) = false -> send_all c (a ++ b) = send_all c a.
Proof.
  destruct c as [s [k|]]; unfold fits, send_all; cbn [tx_left tx_sent]; [|discriminate]. intros H.
  rewrite firstn_app, app_length. replace (k - length a)%nat with O by lia. rewrite firstn_O, app_nil_r. f_equal. f_equal. lia.
Qed.

Definition write_step_any (n : nat) (d b : list byte) (c : tx_chan) : lflow (list byte * sink * tx_chan) (result N io_error * sink * tx_chan) :=
  match d with
  | [] => LStop (d, mkSink b (N.of_nat n), c)
  | _ :: _ =>
      let tk := Nat.min (n - length b) (length d) in
      let b' := b ++ firstn tk d in
      if (n <=? length b')%nat then
        if fits c 1 then LNext (skipn tk d, mkSink [] (N.of_nat n), send_all c [MChunk b'])
        else LReturn (RErr IoBrokenPipe, mkSink [] (N.of_nat n), send_all c [MChunk b'])
      else LNext (skipn tk d, mkSink b' (N.of_nat n), c)
  end.

Lemma write_loop_any n step : (0 < n)%nat ->
  (forall d b c, (length b < n)%nat -> step (d, mkSink b (N.of_nat n), c) = Ok (write_step_any n d b c)) ->
  forall f d b c, (length d <= f)%nat -> (length b < n)%nat ->
    loop_chk (S f) step (d, mkSink b (N.of_nat n), c) =
    if fits c (length (fst (sink_write f n b d)))
    then Ok (LFell ([], mkSink (snd (sink_write f n b d)) (N.of_nat n), send_all c (map MChunk (fst (sink_write f n b d)))))
    else Ok (LReturned (RErr IoBrokenPipe, mkSink [] (N.of_nat n), send_all c (map MChunk (fst (sink_write f n b d))))).
Proof.
  intros Hn Hstep. induction f as [|f IH]; intros d b c Hd Hb; rewrite loop_chk_S, Hstep by assumption.
  - destruct d; [|cbn [length] in Hd; lia]. cbn [write_step_any bind sink_write fst snd map length].
    replace (fits c 0) with true by (destruct c as [s [k|]]; reflexivity). now rewrite send_all_nil.
  - destruct d as [|x d]; [cbn [write_step_any bind sink_write fst snd map length];
      replace (fits c 0) with true by (destruct c as [s [k|]]; reflexivity); now rewrite send_all_nil|].
    cbn [sink_write write_step_any]. set (dd := x :: d) in *. set (tk := Nat.min (n - length b) (length dd)). cbv zeta.
    assert (Htk : (1 <= tk <= length dd)%nat) by (subst tk dd; cbn [length] in *; lia).
    assert (Hs1 : (length (skipn tk dd) <= f)%nat) by (rewrite skipn_length; lia).
    destruct (n <=? length (b ++ firstn tk dd))%nat eqn:E.
    + set (m := MChunk (b ++ firstn tk dd)). destruct (sink_write f n [] (skipn tk dd)) as [cs r] eqn:Es. cbn [fst snd map length].
      change (S (length cs)) with (length [m] + length cs)%nat. rewrite fits_app. cbn [length].
      destruct (fits c 1) eqn:Ef; cbn [bind andb].
      * rewrite IH by (cbn [length]; lia). rewrite Es. cbn [fst snd]. rewrite send_all_app. reflexivity.
      * do 3 f_equal. symmetry. exact (send_all_cut c [m] (map MChunk cs) Ef).
    + cbn [bind]. apply IH; try assumption. apply Nat.leb_gt in E. exact E.
Qed.

(** [write] whatever the channel: the model's chunks are sent as far as the receiver takes them;
    the first failed send ends the call with [Err(BrokenPipe)] (nothing further is attempted) *)
Lemma sink_write_any_agrees :
  match gen_sink_write with
  | Some f => forall ch s data n, k_chunk_bytes s = N.of_nat n -> (0 < n)%nat -> (length (k_buf s) < n)%nat ->
      let cs := fst (sink_write (S (length data)) n (k_buf s) data) in
      f ch s data =
      if fits ch (length cs)
      then Ok (ROk (len_n data), mkSink (snd (sink_write (S (length data)) n (k_buf s) data)) (N.of_nat n), send_all ch (map MChunk cs))
      else Ok (RErr IoBrokenPipe, mkSink [] (N.of_nat n), send_all ch (map MChunk cs))
  | None => True
  end.
Proof.
  pose proof sink_send_chunk_agrees as Hs. gen_start.
  all: intros ch s data n Hn Hpos Hb; callee Hs; destruct s as [buf nn]; cbn [k_buf k_chunk_bytes] in *; subst nn.
  all: match goal with |- context [loop_chk _ ?st _] => set (stp := st) end.
  all: assert (Hstep : forall d b c, (length b < n)%nat -> stp (d, mkSink b (N.of_nat n), c) = Ok (write_step_any n d b c))
    by (intros d b c Hbb; unfold stp; destruct d as [|x d]; [reflexivity|]; cbn [write_step_any]; set (dd := x :: d) in *;
        cbn [k_buf k_chunk_bytes set_k_buf]; replace (negb (list_is_empty dd)) with true by reflexivity; cbv iota zeta;
        unfold sub64; replace (len_n b <=? N.of_nat n) with true by (unfold len_n; lia); cbn [bind];
        set (tk := Nat.min (n - length b) (length dd));
        replace (N.min (N.of_nat n - len_n b) (len_n dd)) with (N.of_nat tk) by (unfold len_n; lia);
        assert (Htk : (1 <= tk <= length dd)%nat) by (subst tk dd; cbn [length] in *; lia);
        rewrite slice_prefix, slice_suffix by (unfold len_n; lia); rewrite Nat2N.id; cbn [bind];
        replace (N.of_nat n <=? len_n (b ++ firstn tk dd)) with (n <=? length (b ++ firstn tk dd))%nat by (unfold len_n; lia);
        destruct (n <=? length (b ++ firstn tk dd))%nat; [rewrite Hs, tx_send_all; cbn [k_buf k_chunk_bytes fst snd]; destruct (fits c 1)|]; reflexivity).
  all: cbv zeta; rewrite (write_loop_any n stp Hpos Hstep) by (try assumption; lia).
  all: rewrite (sink_write_fuel n Hpos (length data) (S (length data))) by lia.
  all: destruct (fits ch _); reflexivity.
Qed.

(** [flush_remaining] whatever the channel *)
Lemma sink_flush_remaining_any_agrees :
  match gen_sink_flush_remaining with
  | Some f => forall ch s,
      let tail := match k_buf s with [] => [] | _ :: _ => [MChunk (k_buf s)] end in
      f ch s = Ok (if fits ch (length tail) then ROk tt else RErr IoBrokenPipe, mkSink [] (k_chunk_bytes s), send_all ch tail)
  | None => True
  end.
Proof.
  pose proof sink_send_chunk_agrees as Hs. gen_start.
  all: intros ch s; callee Hs; rewrite ?Hs, ?is_empty_nil, ?tx_send_all; destruct s as [buf n]; cbn [k_buf k_chunk_bytes fst snd res_map_err].
  all: destruct buf; cbn [length]; [rewrite send_all_nil; replace (fits ch 0) with true by (destruct ch as [x [k|]]; reflexivity); reflexivity|].
  all: destruct (fits ch 1); reflexivity.
Qed.

(** ** the writer oracle on a live channel: the writes of a step go through the model's sink *)
Lemma sink_writes_tail n : (0 < n)%nat -> forall ws buf, (length buf < n)%nat -> (length (snd (sink_writes n buf ws)) < n)%nat.
Proof.
  intros Hn. induction ws as [|w ws IH]; intros buf Hb; [exact Hb|]. cbn [sink_writes].
  pose proof (sink_write_tail n Hn (S (length w)) w buf Hb) as H1. destruct (sink_write (S (length w)) n buf w) as [cs b]. cbn [snd] in H1.
  specialize (IH b H1). destruct (sink_writes n b ws). exact IH.
Qed.

Lemma sink_writes_app n a : forall c buf,
  sink_writes n buf (a ++ c) =
  (fst (sink_writes n buf a) ++ fst (sink_writes n (snd (sink_writes n buf a)) c), snd (sink_writes n (snd (sink_writes n buf a)) c)).
Proof.
  induction a as [|w a IH]; intros c buf; cbn [app sink_writes fst snd]; [destruct (sink_writes n buf c); reflexivity|].
  destruct (sink_write (S (length w)) n buf w) as [cs b]. rewrite IH.
  destruct (sink_writes n b a) as [cs1 b1]. cbn [fst snd]. destruct (sink_writes n b1 c) as [cs2 b2]. cbn [fst snd]. now rewrite app_assoc.
Qed.

Definition write_spec (n : nat) (W : tx_chan -> sink -> list byte -> outcome (result N io_error * sink * tx_chan)) : Prop :=
  forall ch s d, live ch -> k_chunk_bytes s = N.of_nat n -> (length (k_buf s) < n)%nat ->
    W ch s d = Ok (ROk (len_n d), mkSink (snd (sink_write (S (length d)) n (k_buf s) d)) (N.of_nat n),
                   sent_more ch (map MChunk (fst (sink_write (S (length d)) n (k_buf s) d)))).
Definition flush_spec (F : tx_chan -> sink -> outcome (result unit io_error * sink * tx_chan)) : Prop :=
  forall ch s, F ch s = Ok (ROk tt, s, ch).

Lemma run_wops_live n W F : (0 < n)%nat -> write_spec n W -> flush_spec F ->
  forall ops ch b, live ch -> (length b < n)%nat ->
    run_wops W F ops ch (mkSink b (N.of_nat n)) =
    Ok (ROk tt, mkSink (snd (sink_writes n b (wwrites ops))) (N.of_nat n), sent_more ch (map MChunk (fst (sink_writes n b (wwrites ops))))).
Proof.
  intros Hn HW HF. induction ops as [|o ops IH]; intros ch b Hl Hb.
  - cbn [run_wops wwrites flat_map sink_writes fst snd map]. now rewrite sent_more_nil.
  - destruct o as [d|]; cbn [run_wops wwrites flat_map app].
    + rewrite HW by (cbn [k_buf k_chunk_bytes]; trivial). cbn [bind k_buf]. fold (wwrites ops). cbn [sink_writes].
      pose proof (sink_write_tail n Hn (S (length d)) d b Hb) as H1.
      destruct (sink_write (S (length d)) n b d) as [cs b1]. cbn [fst snd] in *.
      rewrite IH by (trivial; apply sent_more_live; exact Hl).
      destruct (sink_writes n b1 (wwrites ops)) as [cs2 b2]. cbn [fst snd]. now rewrite sent_more_more, map_app.
    + rewrite HF. cbn [bind]. fold (wwrites ops). apply IH; assumption.
Qed.

Lemma writer_step_live n W F : (0 < n)%nat -> write_spec n W -> flush_spec F ->
  forall script ch b, live ch -> (length b < n)%nat ->
    writer_step W F script ch (mkSink b (N.of_nat n)) =
    match script with
    | [] => Ok (ROk tt, mkSink b (N.of_nat n), ch, [])
    | st :: rest =>
        Ok (match ws_res st with Some e => RErr e | None => ROk tt end,
            mkSink (snd (sink_writes n b (wwrites (ws_ops st)))) (N.of_nat n),
            sent_more ch (map MChunk (fst (sink_writes n b (wwrites (ws_ops st))))), rest)
    end.
Proof.
  intros Hn HW HF script ch b Hl Hb. destruct script as [|st rest]; [reflexivity|]. cbn [writer_step].
  rewrite (run_wops_live n W F Hn HW HF) by assumption. reflexivity.
Qed.

(** ** produce: the chunks, then the tail [flush_remaining] sends and [End] -- or, when a step of
    the body writer / compressor returned an error (of any kind), [Fail] and no flush *)
Lemma produce_agrees :
  match gen_produce with
  | Some f => forall ch script opts n, live ch -> o_chunk_bytes opts = N.of_nat n -> (0 < n)%nat ->
      f ch script opts =
      let '(ws, failed, rest) := steps_run (steps_of (o_compression opts)) script in
      Ok (tt, sent_more ch (produce n ws failed), rest)
  | None => True
  end.
Proof.
  pose proof sink_new_agrees as Hnew. pose proof sink_write_agrees as Hw. pose proof sink_flush_agrees as Hf.
  pose proof sink_flush_remaining_agrees as Hr. gen_start.
  all: intros ch script opts n Hl Hn Hpos; callee Hnew; callee Hw; callee Hf; callee Hr.
  all: match goal with |- context [writer_step ?W ?F _ _ _] =>
         assert (HW : write_spec n W) by (intros c s d H1 H2 H3; apply Hw; assumption);
         assert (HF : flush_spec F) by exact Hf;
         assert (HS := writer_step_live n W F Hpos HW HF) end.
  all: rewrite Hnew, Hn; cbn [bind]; destruct (o_compression opts); cbn [steps_of steps_run].
  all: repeat (rewrite HS by (first [exact Hl | repeat (apply sink_writes_tail; [exact Hpos|]); cbn [length]; lia]);
               try destruct script as [|? script]; cbn [bind try_or steps_run]; try (destruct (ws_res _); cbn [bind try_or])).
  all: rewrite ?Hr by exact Hl; cbn [bind k_buf k_chunk_bytes]; rewrite tx_send_live by exact Hl.
  all: rewrite ?sent_more_more; unfold produce; rewrite ?app_nil_r, ?sink_writes_app; cbn [sink_writes fst snd].
  all: repeat match goal with |- context [sink_writes ?k ?b ?w] =>
         let cs := fresh "cs" in let r := fresh "r" in destruct (sink_writes k b w) as [cs r]; cbn [fst snd] end.
  all: repeat match goal with |- context [match ?r with [] => _ | _ :: _ => _ end] => destruct r end.
  all: rewrite ?map_app, ?app_nil_r, <- ?app_assoc; reflexivity.
Qed.

(** ** Session::recv, Session::pull *)
Lemma session_recv_agrees :
  match gen_session_recv with
  | Some f => forall s, f s = Ok (fst (recv (s_rx s)), mkSession (snd (recv (s_rx s))) (s_look s) (s_done s))
  | None => True
  end.
Proof. gen_start. all: intros s; destruct s as [rx look done]; destruct rx as [|m rx]; reflexivity. Qed.

(** [pull]: the model's [session_pull] -- the chunk in hand is marked last only after the
    look-ahead saw [End]; [Fail] (or a closed channel) at either position is an error *)
Lemma session_pull_agrees :
  match gen_session_pull with
  | Some f => forall s, f s = Ok (pulled_res (fst (session_pull s)), snd (session_pull s))
  | None => True
  end.
Proof.
  pose proof session_recv_agrees as Hr. gen_start.
  all: intros s; callee Hr; destruct s as [rx look done]; unfold session_pull, pull_second; cbn [s_rx s_look s_done set_s_look].
  all: destruct look as [c|]; rewrite ?Hr; cbn [bind s_rx s_look s_done set_s_look fst snd].
  all: destruct rx as [|m rx]; cbn [recv fst snd]; try destruct m; cbn [pulled_res fst snd]; rewrite ?Hr; cbn [bind s_rx s_look s_done set_s_look fst snd]; try reflexivity.
  all: destruct rx as [|m rx]; cbn [recv fst snd]; try destruct m; reflexivity.
Qed.

(** ** SessionTable::new, get, remove *)
Lemma table_new_agrees :
  match gen_table_new with
  | Some f => f = Ok (mkTable 1 [])
  | None => True
  end.
Proof. gen_start. all: reflexivity. Qed.

Lemma table_get_agrees :
  match gen_table_get with
  | Some f => forall t id, f t id = Ok (m_get (tb_sessions t) id, t)
  | None => True
  end.
Proof. gen_start. all: intros; reflexivity. Qed.

Lemma table_remove_agrees :
  match gen_table_remove with
  | Some f => forall t id, f t id = Ok (tt, mkTable (tb_next_id t) (m_del (tb_sessions t) id))
  | None => True
  end.
Proof. gen_start. all: intros; reflexivity. Qed.

(** ** NextHandler::handle: a body that does not decode is InvalidBody; otherwise the response
    and the new table entry of that stream id are the model's [next_handler] on the old entry
    (unknown id: InvalidQuery; finished / failed: InternalError and the entry removed; the last
    chunk: the entry removed) and no other entry changes *)
Lemma next_handle_agrees :
  match gen_next_handle with
  | Some f => forall decoded h,
      f decoded h =
      match decoded with
      | RErr _ => Ok (ROk (SResp (resp_err ERRC_InvalidBody)), h)
      | ROk id =>
          let m := tb_sessions (nh_table h) in
          Ok (ROk (SResp (fst (next_handler (m_get m id)))),
              mkHandler (mkTable (tb_next_id (nh_table h)) (store_entry m id (snd (next_handler (m_get m id))))))
      end
  | None => True
  end.
Proof.
  pose proof table_get_agrees as Hg. pose proof table_remove_agrees as Hd. pose proof session_pull_agrees as Hp. gen_start.
  all: intros decoded h; callee Hg; callee Hd; callee Hp; destruct h as [[nid m]]; destruct decoded as [id|e]; [|reflexivity].
  all: cbn [nh_table tb_sessions tb_next_id set_nh_table set_tb_sessions]; rewrite Hg; cbn [bind nh_table tb_sessions tb_next_id set_nh_table set_tb_sessions].
  all: unfold next_handler; destruct (m_get m id) as [s|] eqn:Eg; cbn [fst snd store_entry]; [|rewrite (m_del_absent m id Eg); reflexivity].
  all: destruct (s_done s) eqn:Ed; cbn [fst snd store_entry];
       [rewrite ?Hd; cbn [bind nh_table tb_sessions tb_next_id set_nh_table set_tb_sessions]; reflexivity|].
  all: rewrite Hp; cbn [bind nh_table tb_sessions tb_next_id set_nh_table set_tb_sessions].
  all: destruct (session_pull s) as [p s']; cbn [fst snd]; destruct p as [c [|]|]; cbn [pulled_res fst snd store_entry];
       rewrite ?Hd; cbn [bind nh_table tb_sessions tb_next_id set_nh_table set_tb_sessions set_s_done];
       rewrite ?m_put_put, ?m_del_put; reflexivity.
Qed.

(** ** CancelHandler::handle: acknowledged whatever the body; a decoded stream id is released
    (its entry is the model's [cancel_handler], i.e. gone), nothing else changes *)
Lemma cancel_handle_agrees :
  match gen_cancel_handle with
  | Some f => forall decoded h,
      f decoded h =
      Ok (ROk SAck, match decoded with
                    | ROk id => mkHandler (mkTable (tb_next_id (nh_table h)) (m_del (tb_sessions (nh_table h)) id))
                    | RErr _ => h
                    end)
  | None => True
  end.
Proof.
  pose proof table_remove_agrees as Hd. gen_start.
  all: intros decoded h; callee Hd; destruct h as [[nid m]]; destruct decoded as [id|e]; [|reflexivity].
  all: cbn [nh_table set_nh_table]; rewrite Hd; reflexivity.
Qed.

(** ** TrailerHold::new, into_trailer, write (property C10) *)
Lemma hold_new_agrees :
  match gen_hold_new with
  | Some f => forall inner n, f inner n = Ok (mkHold inner [] n)
  | None => True
  end.
Proof. gen_start. all: intros; reflexivity. Qed.

(** [into_trailer]: [Err(UnexpectedEof)] exactly when fewer than [trailer_len] bytes are held,
    else the held bytes *)
Lemma hold_into_trailer_agrees :
  match gen_hold_into_trailer with
  | Some f => forall h n, th_trailer_len h = N.of_nat n ->
      f h = Ok (if into_trailer_errors n (th_hold h) then RErr IoUnexpectedEof else ROk (th_hold h))
  | None => True
  end.
Proof.
  gen_start. all: intros h n Hn; destruct h as [inner hd tl]; cbn [th_hold th_trailer_len] in *; subst tl; unfold into_trailer_errors.
  all: replace (len_n hd <? N.of_nat n) with (length hd <? n)%nat by (unfold len_n; lia); destruct (length hd <? n)%nat; reflexivity.
Qed.

Lemma iw_write_all_live w x : iw_left w = None -> iw_write_all w x = (ROk tt, mkInner (iw_done w ++ [x]) None).
Proof. unfold iw_write_all. intros ->. reflexivity. Qed.

(** [write] with an inner writer that does not fail: the inner [write_all] calls and the new
    held tail are the model's [hold_write]; all of [buf] is consumed *)
Lemma hold_write_agrees :
  match gen_hold_write with
  | Some f => forall h buf n, iw_left (th_inner h) = None -> th_trailer_len h = N.of_nat n ->
      f h buf = Ok (ROk (len_n buf),
                    mkHold (mkInner (iw_done (th_inner h) ++ fst (hold_write n (th_hold h) buf)) None)
                           (snd (hold_write n (th_hold h) buf)) (N.of_nat n))
  | None => True
  end.
Proof.
  gen_start. all: intros h buf n Hl Hn; destruct h as [[dn lf] hd tl]; cbn [th_inner th_hold th_trailer_len iw_left iw_done] in *; subst tl lf.
  all: unfold hold_write; cbn [th_inner th_hold th_trailer_len set_th_inner set_th_hold].
  all: replace (N.of_nat n <=? len_n buf) with (n <=? length buf)%nat by (unfold len_n; lia); destruct (n <=? length buf)%nat eqn:E1.
  all: try (rewrite is_empty_nil; destruct hd as [|x hd]; cbn [negb]).
  all: rewrite ?iw_write_all_live by reflexivity; cbn [try_or bind th_inner th_hold th_trailer_len set_th_inner set_th_hold iw_done iw_left fst snd].
  all: try set (hh := hd ++ buf) in *.
  all: try (replace (N.of_nat n <? len_n hh) with (n <? length hh)%nat by (unfold len_n; lia); destruct (n <? length hh)%nat eqn:E2; [|cbn [fst snd set_th_hold th_inner th_trailer_len]; rewrite app_nil_r; reflexivity]).
  all: unfold sub64; try replace (N.of_nat n <=? len_n buf) with true by (unfold len_n; lia);
       try replace (N.of_nat n <=? len_n hh) with true by (unfold len_n; lia); cbn [bind].
  all: try replace (len_n buf - N.of_nat n) with (N.of_nat (length buf - n)) by (unfold len_n; lia).
  all: try replace (len_n hh - N.of_nat n) with (N.of_nat (length hh - n)) by (unfold len_n; lia).
  all: rewrite ?slice_prefix, ?slice_suffix by (unfold len_n; lia); rewrite ?Nat2N.id; cbn [bind].
  all: rewrite ?iw_write_all_live by reflexivity; cbn [try_or bind th_inner th_hold th_trailer_len set_th_inner set_th_hold iw_done iw_left fst snd app].
  all: unfold drain_chk; try replace (N.of_nat (length hh - n) <=? len_n hh) with true by (unfold len_n; lia); rewrite ?Nat2N.id; cbn [bind].
  all: rewrite <- ?app_assoc; cbn [app]; reflexivity.
Qed.

(** [write] with an inner writer of which only [k] more [write_all] calls succeed: with [k] at
    least the number of calls the model makes, as above (and [k] goes down by that number);
    otherwise the error of the failing call is returned ([Err]: the caller abandons the pull),
    exactly the first [k] calls were made, and no later one is attempted *)
Lemma hold_write_budget_agrees :
  match gen_hold_write with
  | Some f => forall h buf n k, iw_left (th_inner h) = Some k -> th_trailer_len h = N.of_nat n ->
      let ws := fst (hold_write n (th_hold h) buf) in
      if (length ws <=? k)%nat then
        f h buf = Ok (ROk (len_n buf),
                      mkHold (mkInner (iw_done (th_inner h) ++ ws) (Some (k - length ws)%nat)) (snd (hold_write n (th_hold h) buf)) (N.of_nat n))
      else exists hd, f h buf = Ok (RErr IoOther, mkHold (mkInner (iw_done (th_inner h) ++ firstn k ws) (Some O)) hd (N.of_nat n))
  | None => True
  end.
Proof.
  gen_start. all: intros h buf n k Hl Hn; destruct h as [[dn lf] hd tl]; cbn [th_inner th_hold th_trailer_len iw_left iw_done] in *; subst tl lf.
  all: unfold hold_write; cbn [th_inner th_hold th_trailer_len set_th_inner set_th_hold].
  all: replace (N.of_nat n <=? len_n buf) with (n <=? length buf)%nat by (unfold len_n; lia); destruct (n <=? length buf)%nat eqn:E1.
  all: try (rewrite is_empty_nil; destruct hd as [|x hd]; cbn [negb]).
  all: try set (hh := hd ++ buf) in *.
  all: try (replace (N.of_nat n <? len_n hh) with (n <? length hh)%nat by (unfold len_n; lia); destruct (n <? length hh)%nat eqn:E2).
  all: cbv zeta; cbn [fst snd app length]; destruct k as [|[|k]]; cbn [Nat.leb Nat.sub firstn].
  all: unfold iw_write_all; cbn [iw_left iw_done try_or bind th_inner th_hold th_trailer_len set_th_inner set_th_hold fst snd].
  all: unfold sub64; try replace (N.of_nat n <=? len_n buf) with true by (unfold len_n; lia);
       try replace (N.of_nat n <=? len_n hh) with true by (unfold len_n; lia); cbn [bind].
  all: try replace (len_n buf - N.of_nat n) with (N.of_nat (length buf - n)) by (unfold len_n; lia).
  all: try replace (len_n hh - N.of_nat n) with (N.of_nat (length hh - n)) by (unfold len_n; lia).
  all: rewrite ?slice_prefix, ?slice_suffix by (unfold len_n; lia); rewrite ?Nat2N.id; cbn [bind].
  all: unfold iw_write_all; cbn [iw_left iw_done try_or bind th_inner th_hold th_trailer_len set_th_inner set_th_hold fst snd app].
  all: unfold drain_chk; try replace (N.of_nat (length hh - n) <=? len_n hh) with true by (unfold len_n; lia); rewrite ?Nat2N.id; cbn [bind].
  all: rewrite ?app_nil_r, ?Nat.sub_0_r, <- ?app_assoc; cbn [app]; first [reflexivity | eexists; reflexivity].
Qed.

(** ** the bundles quoted by Props/C09.v and Props/C10.v *)
Lemma c09_source_translation :
  match gen_sink_new with Some f => forall ch n, f ch n = Ok (mkSink [] n, ch) | None => True end /\
  match gen_sink_send_chunk with
  | Some f => forall ch s,
      f ch s = Ok (res_map_err (fst (tx_send ch (MChunk (k_buf s)))) IoBrokenPipe, mkSink [] (k_chunk_bytes s),
                   snd (tx_send ch (MChunk (k_buf s))))
  | None => True
  end /\
  match gen_sink_flush_remaining with
  | Some f => forall ch s, live ch ->
      f ch s = Ok (ROk tt, mkSink [] (k_chunk_bytes s),
                   sent_more ch (match k_buf s with [] => [] | _ :: _ => [MChunk (k_buf s)] end))
  | None => True
  end /\
  match gen_sink_write with
  | Some f => forall ch s data n, live ch -> k_chunk_bytes s = N.of_nat n -> (0 < n)%nat -> (length (k_buf s) < n)%nat ->
      f ch s data = Ok (ROk (len_n data), mkSink (snd (sink_write (S (length data)) n (k_buf s) data)) (N.of_nat n),
                        sent_more ch (map MChunk (fst (sink_write (S (length data)) n (k_buf s) data))))
  | None => True
  end /\
  match gen_sink_flush_remaining with
  | Some f => forall ch s,
      let tail := match k_buf s with [] => [] | _ :: _ => [MChunk (k_buf s)] end in
      f ch s = Ok (if fits ch (length tail) then ROk tt else RErr IoBrokenPipe, mkSink [] (k_chunk_bytes s), send_all ch tail)
  | None => True
  end /\
  match gen_sink_write with
  | Some f => forall ch s data n, k_chunk_bytes s = N.of_nat n -> (0 < n)%nat -> (length (k_buf s) < n)%nat ->
      let cs := fst (sink_write (S (length data)) n (k_buf s) data) in
      f ch s data =
      if fits ch (length cs)
      then Ok (ROk (len_n data), mkSink (snd (sink_write (S (length data)) n (k_buf s) data)) (N.of_nat n), send_all ch (map MChunk cs))
      else Ok (RErr IoBrokenPipe, mkSink [] (N.of_nat n), send_all ch (map MChunk cs))
  | None => True
  end /\
  match gen_sink_flush with Some f => forall ch s, f ch s = Ok (ROk tt, s, ch) | None => True end /\
  match gen_produce with
  | Some f => forall ch script opts n, live ch -> o_chunk_bytes opts = N.of_nat n -> (0 < n)%nat ->
      f ch script opts =
      let '(ws, failed, rest) := steps_run (steps_of (o_compression opts)) script in
      Ok (tt, sent_more ch (produce n ws failed), rest)
  | None => True
  end /\
  match gen_session_recv with
  | Some f => forall s, f s = Ok (fst (recv (s_rx s)), mkSession (snd (recv (s_rx s))) (s_look s) (s_done s))
  | None => True
  end /\
  match gen_session_pull with
  | Some f => forall s, f s = Ok (pulled_res (fst (session_pull s)), snd (session_pull s))
  | None => True
  end /\
  match gen_table_new with Some f => f = Ok (mkTable 1 []) | None => True end /\
  match gen_table_get with Some f => forall t id, f t id = Ok (m_get (tb_sessions t) id, t) | None => True end /\
  match gen_table_remove with
  | Some f => forall t id, f t id = Ok (tt, mkTable (tb_next_id t) (m_del (tb_sessions t) id))
  | None => True
  end /\
  match gen_next_handle with
  | Some f => forall decoded h,
      f decoded h =
      match decoded with
      | RErr _ => Ok (ROk (SResp (resp_err ERRC_InvalidBody)), h)
      | ROk id =>
          let m := tb_sessions (nh_table h) in
          Ok (ROk (SResp (fst (next_handler (m_get m id)))),
              mkHandler (mkTable (tb_next_id (nh_table h)) (store_entry m id (snd (next_handler (m_get m id))))))
      end
  | None => True
  end /\
  match gen_cancel_handle with
  | Some f => forall decoded h,
      f decoded h =
      Ok (ROk SAck, match decoded with
                    | ROk id => mkHandler (mkTable (tb_next_id (nh_table h)) (m_del (tb_sessions (nh_table h)) id))
                    | RErr _ => h
                    end)
  | None => True
  end.
Proof.
  exact (conj sink_new_agrees (conj sink_send_chunk_agrees (conj sink_flush_remaining_agrees (conj sink_write_agrees
        (conj sink_flush_remaining_any_agrees (conj sink_write_any_agrees (conj sink_flush_agrees
        (conj produce_agrees (conj session_recv_agrees (conj session_pull_agrees (conj table_new_agrees (conj table_get_agrees
        (conj table_remove_agrees (conj next_handle_agrees cancel_handle_agrees)))))))))))))).
Qed.

(** what the right-hand sides mean: the entry of a stream id after [next] / [cancel] is the model's,
    the other entries are untouched; the sink's invariant is kept by [write]; the writes of one
    write call go through [sink_writes] *)
Lemma c09_source_translation_model :
  (forall m id t, m_get (store_entry m id t) id = match m_get m id with Some _ => t | None => None end) /\
  (forall m id id' t, id' <> id -> m_get (store_entry m id t) id' = m_get m id') /\
  (forall m id, m_get (m_del m id) id = cancel_handler (m_get m id)) /\
  (forall n f data buf, (0 < n)%nat -> (length buf < n)%nat -> (length (snd (sink_write f n buf data)) < n)%nat) /\
  (forall n buf w, sink_writes n buf [w] = sink_write (S (length w)) n buf w) /\
  (forall n ws failed, open_handler n ws failed = Some (mkSession (produce n ws failed) None false)) /\
  (forall c ms, live c -> send_all c ms = sent_more c ms /\ (forall k, fits c k = true)).
Proof.
  split; [|split; [|split; [|split; [|split; [|split; [|exact send_all_live]]]]]].
  - intros m id t. destruct t as [s|]; cbn [store_entry].
    + destruct (m_get m id) eqn:E; [apply m_get_put; congruence|].
      induction m as [|[k v] m IH]; cbn [m_put m_get] in *; [reflexivity|]. destruct (k =? id) eqn:Ek; [discriminate|]. cbn [m_get]. rewrite Ek. auto.
    + rewrite m_get_del. destruct (m_get m id); reflexivity.
  - intros m id id' t Hne. destruct t as [s|]; cbn [store_entry]; induction m as [|[k v] m IH]; cbn [m_put m_del m_get]; try reflexivity.
    + destruct (k =? id) eqn:Ek; cbn [m_get]; [apply N.eqb_eq in Ek; subst k; replace (id =? id') with false by lia; reflexivity|].
      destruct (k =? id'); [reflexivity|exact IH].
    + destruct (k =? id) eqn:Ek; [apply N.eqb_eq in Ek; subst k; replace (id =? id') with false by lia; exact IH|].
      cbn [m_get]. destruct (k =? id'); [reflexivity|exact IH].
  - intros m id. rewrite m_get_del. reflexivity.
  - intros n f data buf Hn Hb. apply sink_write_tail; assumption.
  - intros n buf w. cbn [sink_writes]. destruct (sink_write (S (length w)) n buf w). now rewrite app_nil_r.
  - reflexivity.
Qed.

Lemma c10_source_translation :
  match gen_hold_new with Some f => forall inner n, f inner n = Ok (mkHold inner [] n) | None => True end /\
  match gen_hold_into_trailer with
  | Some f => forall h n, th_trailer_len h = N.of_nat n ->
      f h = Ok (if into_trailer_errors n (th_hold h) then RErr IoUnexpectedEof else ROk (th_hold h))
  | None => True
  end /\
  match gen_hold_write with
  | Some f => forall h buf n, iw_left (th_inner h) = None -> th_trailer_len h = N.of_nat n ->
      f h buf = Ok (ROk (len_n buf),
                    mkHold (mkInner (iw_done (th_inner h) ++ fst (hold_write n (th_hold h) buf)) None)
                           (snd (hold_write n (th_hold h) buf)) (N.of_nat n))
  | None => True
  end /\
  match gen_hold_write with
  | Some f => forall h buf n k, iw_left (th_inner h) = Some k -> th_trailer_len h = N.of_nat n ->
      let ws := fst (hold_write n (th_hold h) buf) in
      if (length ws <=? k)%nat then
        f h buf = Ok (ROk (len_n buf),
                      mkHold (mkInner (iw_done (th_inner h) ++ ws) (Some (k - length ws)%nat)) (snd (hold_write n (th_hold h) buf)) (N.of_nat n))
      else exists hd, f h buf = Ok (RErr IoOther, mkHold (mkInner (iw_done (th_inner h) ++ firstn k ws) (Some O)) hd (N.of_nat n))
  | None => True
  end.
Proof. exact (conj hold_new_agrees (conj hold_into_trailer_agrees (conj hold_write_agrees hold_write_budget_agrees))). Qed.
