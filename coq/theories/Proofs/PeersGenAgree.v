(** Agreement of the hand-written peer-registry model (Model/Peers.v: property C18) with the
    Gallina renderings of PeerRegistry::{len, peers, get, alias, get_by, key_for, aliases_for, insert,
    remove, broadcast_each} that bin/rs2v regenerates from /repo/src/peer.rs on every run
    (Gen/PeersGen.v).  Each method is a [plan]; [run] executes it from a state: the statements say
    that it is ONE critical section (so nothing can happen between a lookup and its use), that
    this section is the model's step / query, and -- for the broadcast -- that the handles are
    snapshotted in that one section and then exactly the snapshotted peers are sent to, once each,
    outside the lock.  A method that could not be translated is [None] and its lemma degrades to
    [True]. *)
From RepeV Require Import Model.Peers Base.GenPeersPrelude Gen.PeersGen.
From RepeV Require Export Proofs.GenAgreeBase.
From Coq Require Import ZifyBool ZifyN ZifyNat.
Ltac Zify.zify_post_hook ::= Z.div_mod_to_equations.

(** ** what the renderings are compared with *)
(** [Option<PeerHandle>]: the handle of a present peer is its id *)
Definition found (s : preg) (id : N) : option N := if q_get s id then Some id else None.
Definition pbool (o : pout) : bool := match o with PBool b => b | _ => false end.
(** the ids are strictly increasing (every reachable state: [peers_sorted_reachable]) *)
Fixpoint ssorted (l : list N) : bool :=
  match l with
  | x :: ((y :: _) as l') => (x <? y) && ssorted l'
  | _ => true
  end.

(** ** association lists, id lists *)
Lemma preg_eta s : mkPreg (p_peers s) (p_aliases s) (p_index s) = s.
Proof. destruct s; reflexivity. Qed.

Lemma aset_same {V} (l : list (N * V)) k v : aget l k = Some v -> aset l k v = l.
Proof.
  induction l as [|[k0 v0] l IH]; cbn [aget aset]; [discriminate|].
  destruct (N.eqb_spec k0 k) as [E|E]; intros H.
  - inversion H; subst. reflexivity.
  - now rewrite IH.
Qed.

Lemma adel_absent {V} (l : list (N * V)) k : aget l k = None -> adel l k = l.
Proof.
  induction l as [|[k0 v0] l IH]; cbn [aget adel]; [reflexivity|].
  destruct (k0 =? k); [discriminate|]. intros H. now rewrite IH.
Qed.

Lemma delN_filter x l : delN x l = filter (fun k => negb (N.eqb k x)) l.
Proof. induction l as [|y l IH]; cbn [delN filter]; [reflexivity|]. destruct (y =? x); cbn [negb]; now rewrite IH. Qed.

Lemma ssorted_cons2 x y l : ssorted (x :: y :: l) = (x <? y) && ssorted (y :: l).
Proof. reflexivity. Qed.

Lemma ssorted_tail x l : ssorted (x :: l) = true -> ssorted l = true.
Proof. destruct l as [|y l]; [reflexivity|]. rewrite ssorted_cons2. intros H. apply andb_true_iff in H. tauto. Qed.

Lemma ssorted_notin x l : ssorted (x :: l) = true -> forall y, In y l -> x < y.
Proof.
  revert x. induction l as [|z l IH]; intros x H y Hy; [contradiction|].
  rewrite ssorted_cons2 in H. apply andb_true_iff in H as [H1 H2]. destruct Hy as [->|Hy]; [lia|].
  specialize (IH z H2 y Hy). lia.
Qed.

Lemma ssorted_cons x l : (forall y, In y l -> x < y) -> ssorted l = true -> ssorted (x :: l) = true.
Proof. destruct l as [|z l]; [reflexivity|]. intros H Hs. rewrite ssorted_cons2, Hs. specialize (H z (or_introl eq_refl)). lia. Qed.

Lemma In_insN y x l : In y (insN x l) -> y = x \/ In y l.
Proof.
  induction l as [|z l IH]; cbn [insN]; [intros [H|[]]; auto|].
  destruct (x <? z); [intros [H|H]; auto|]. destruct (x =? z); [auto|]. intros [H|H]; [right; left; exact H|].
  destruct (IH H); [auto|right; right; assumption].
Qed.
Lemma In_delN' y x l : In y (delN x l) -> In y l.
Proof. induction l as [|z l IH]; cbn [delN]; [auto|]. destruct (z =? x); [right; auto|]. intros [H|H]; [left; exact H|right; auto]. Qed.

Lemma ssorted_insN x l : ssorted l = true -> ssorted (insN x l) = true.
Proof.
  induction l as [|y l IH]; intros H; cbn [insN]; [reflexivity|].
  destruct (x <? y) eqn:E1; [rewrite ssorted_cons2, E1; exact H|].
  destruct (x =? y) eqn:E2; [exact H|].
  apply ssorted_cons; [|exact (IH (ssorted_tail _ _ H))].
  intros z Hz. apply In_insN in Hz as [->|Hz]; [lia|exact (ssorted_notin _ _ H z Hz)].
Qed.

Lemma ssorted_delN x l : ssorted l = true -> ssorted (delN x l) = true.
Proof.
  induction l as [|y l IH]; intros H; cbn [delN]; [reflexivity|].
  pose proof (ssorted_tail _ _ H) as Ht. destruct (y =? x); [exact (IH Ht)|].
  apply ssorted_cons; [|exact (IH Ht)]. intros z Hz. exact (ssorted_notin _ _ H z (In_delN' _ _ _ Hz)).
Qed.

Lemma ids_fold l : ssorted l = true -> forall acc, (forall a b, In a acc -> In b l -> a < b) ->
  fold_left (fun out id => ids_insert id out) l acc = acc ++ l.
Proof.
  induction l as [|x l IH]; intros H acc Hacc; cbn [fold_left]; [now rewrite app_nil_r|].
  unfold ids_insert at 2. replace (memN x acc) with false.
  - rewrite IH; [now rewrite <- app_assoc| exact (ssorted_tail _ _ H) |].
    intros a b Ha Hb. apply in_app_or in Ha as [Ha|[<-|[]]].
    + apply Hacc; [exact Ha|right; exact Hb].
    + exact (ssorted_notin _ _ H b Hb).
  - symmetry. destruct (memN x acc) eqn:E; [|reflexivity]. exfalso.
    assert (In x acc). { clear -E. induction acc as [|y acc IHa]; cbn [memN] in E; [discriminate|]. apply orb_true_iff in E as [E|E]; [left; lia|right; auto]. }
    specialize (Hacc x x H0 (or_introl eq_refl)). lia.
Qed.

(** ** tactics: case analysis on every test the two sides make *)
Ltac peers_tests :=
  repeat (match goal with
          | |- context [if ?b then _ else _] => destruct b eqn:?
          | |- context [match ?o with Some _ => _ | None => _ end] => destruct o eqn:?
          | |- context [match ?l with [] => _ | _ :: _ => _ end] => destruct l eqn:?
          end; cbn [negb fst snd p_peers p_aliases p_index set_p_peers set_p_aliases set_p_index o_unwrap_or opt_bind hd_error pbool] in *;
          try discriminate).
Ltac peers_done :=
  try reflexivity; try discriminate; try congruence; try (exfalso; lia);
  try (repeat match goal with H : Some _ = Some _ |- _ => inversion H; clear H; subst end;
       try reflexivity; try congruence; try (exfalso; lia)).

(** ** the queries: one critical section that changes nothing *)
Lemma peer_len_agrees :
  match gen_peer_len with Some f => forall s, run f s = (s, [], 1%nat, q_len s) | None => True end.
Proof. gen_start. all: intros s; reflexivity. Qed.

Lemma peer_peers_agrees :
  match gen_peer_peers with Some f => forall s, run f s = (s, [], 1%nat, p_peers s) | None => True end.
Proof. gen_start. all: intros s; reflexivity. Qed.

Lemma peer_get_agrees :
  match gen_peer_get with Some f => forall s id, run (f id) s = (s, [], 1%nat, found s id) | None => True end.
Proof. gen_start. all: intros s id; reflexivity. Qed.

Lemma peer_get_by_agrees :
  match gen_peer_get_by with Some f => forall s key, run (f key) s = (s, [], 1%nat, q_get_by s key) | None => True end.
Proof.
  gen_start. all: intros s key; unfold q_get_by; cbn [run]; cbv zeta.
  all: destruct (aget (p_aliases s) key) as [id|]; cbn [run]; reflexivity.
Qed.

Lemma peer_key_for_agrees :
  match gen_peer_key_for with Some f => forall s id, run (f id) s = (s, [], 1%nat, q_key_for s id) | None => True end.
Proof.
  gen_start. all: intros s id; unfold q_key_for, q_aliases_for; cbn [run].
  all: destruct (aget (p_index s) id) as [[|k ks]|]; reflexivity.
Qed.

Lemma peer_aliases_for_agrees :
  match gen_peer_aliases_for with Some f => forall s id, run (f id) s = (s, [], 1%nat, q_aliases_for s id) | None => True end.
Proof. gen_start. all: intros s id; unfold q_aliases_for; cbn [run]; destruct (aget (p_index s) id); reflexivity. Qed.

(** ** insert, remove, alias: one critical section, the model's step *)
Lemma peer_insert_agrees :
  match gen_peer_insert with Some f => forall s id, run (f id) s = (fst (pstep s (PInsert id)), [], 1%nat, tt) | None => True end.
Proof. gen_start. all: intros s id; reflexivity. Qed.

(** the loop of [remove] over the removed index entry, on the alias map alone *)
Definition purge (id : N) (al : list (N * N)) (key : N) : list (N * N) :=
  match aget al key with
  | Some owner => if owner =? id then adel al key else al
  | None => al
  end.
Lemma fold_purge (f : preg -> N -> preg) id :
  (forall s key, f s key = set_p_aliases s (purge id (p_aliases s) key)) ->
  forall keys s, fold_left f keys s = set_p_aliases s (fold_left (purge id) keys (p_aliases s)).
Proof.
  intros H. induction keys as [|k keys IH]; intros s; cbn [fold_left].
  - unfold set_p_aliases. now rewrite preg_eta.
  - rewrite IH, H. reflexivity.
Qed.

Lemma peer_remove_agrees :
  match gen_peer_remove with Some f => forall s id, run (f id) s = (fst (pstep s (PRemove id)), [], 1%nat, found s id) | None => True end.
Proof.
  gen_start. all: intros s id; cbn [pstep]; unfold p_remove, found, q_get; cbn [run]; cbv zeta.
  all: cbn [p_peers p_aliases p_index set_p_peers set_p_aliases set_p_index].
  all: destruct (aget (p_index s) id) as [keys|] eqn:Ei; cbn [run fst]; [|unfold set_p_index, set_p_peers; cbn [p_peers p_aliases p_index]; rewrite (adel_absent _ _ Ei); reflexivity].
  all: match goal with |- context [fold_left ?f ?l0 ?s0] =>
         rewrite (fold_purge f id) by (intros s1 k1; unfold purge, opt_eqb; cbn [p_aliases set_p_aliases];
                                       destruct (aget (p_aliases s1) k1) as [o|]; [destruct (N.eqb o id)|]; cbv zeta;
                                       unfold set_p_aliases; rewrite ?preg_eta; reflexivity) end.
  all: reflexivity.
Qed.

Lemma peer_alias_agrees :
  match gen_peer_alias with
  | Some f => forall s id key, run (f id key) s = (fst (pstep s (PAlias id key)), [], 1%nat, pbool (snd (pstep s (PAlias id key))))
  | None => True
  end.
Proof.
  gen_start. all: intros s id key; cbn [pstep]; unfold p_alias; cbn [run]; cbv zeta.
  all: cbn [p_peers p_aliases p_index set_p_peers set_p_aliases set_p_index].
  all: destruct (memN id (p_peers s)); cbn [negb run fst snd pbool]; [|reflexivity].
  all: destruct (aget (p_aliases s) key) as [prev|] eqn:Ea; [|reflexivity].
  all: rewrite ?(N.eqb_sym id prev); destruct (N.eqb_spec prev id) as [->|Hne]; cbn [run fst snd pbool].
  all: try (unfold set_p_aliases; rewrite (aset_same _ _ _ Ea), preg_eta; reflexivity).
  all: cbn [p_peers p_aliases p_index]; destruct (aget (p_index s) prev) as [keys|]; cbn [run fst snd pbool p_peers p_aliases p_index];
       rewrite <- ?delN_filter; unfold o_unwrap_or; reflexivity.
Qed.

(** ** broadcast_each: one snapshot under the lock, then one send per snapshotted peer outside it *)
Lemma run_pbind {A B} : forall (p : plan A) (k : A -> plan B) s,
  run (pbind p k) s =
  let '(s1, sends1, n1, a) := run p s in
  let '(s2, sends2, n2, b) := run (k a) s1 in (s2, sends1 ++ sends2, (n1 + n2)%nat, b).
Proof.
  fix IH 1. intros [a|f|id p'] k s; cbn [pbind run].
  - destruct (run (k a) s) as [[[s2 sends2] n2] b]. reflexivity.
  - destruct (f s) as [s' p']. rewrite IH. destruct (run p' s') as [[[s1 sends1] n1] a].
    destruct (run (k a) s1) as [[[s2 sends2] n2] b]. reflexivity.
  - rewrite IH. destruct (run p' s) as [[[s1 sends1] n1] a].
    destruct (run (k a) s1) as [[[s2 sends2] n2] b]. reflexivity.
Qed.

(** a loop whose every iteration sends to its element once, records it and takes no lock *)
Lemma run_for_send {R} (body : N -> list N -> (list N -> plan R) -> plan R) :
  (forall x st k s, run (body x st k) s = let '(s', sends, n, r) := run (k (ids_insert x st)) s in (s', x :: sends, n, r)) ->
  forall l st k s,
  run (for_plan body l st k) s =
  let '(s', sends, n, r) := run (k (fold_left (fun out id => ids_insert id out) l st)) s in (s', l ++ sends, n, r).
Proof.
  intros H. induction l as [|x l IH]; intros st k s; cbn [for_plan fold_left app].
  - destruct (run (k st) s) as [[[s' sends] n] r]. reflexivity.
  - rewrite H, IH. destruct (run _ s) as [[[s' sends] n] r]. reflexivity.
Qed.

Lemma peer_broadcast_each_agrees :
  match gen_peer_broadcast_each with
  | Some f => forall s, ssorted (p_peers s) = true -> run f s = (s, p_peers s, 1%nat, p_peers s)
  | None => True
  end.
Proof.
  pose proof peer_peers_agrees as Hp.
  gen_start. all: intros s Hs; callee Hp; rewrite run_pbind, Hp; cbv zeta.
  all: rewrite run_for_send by (intros x st k s0; cbn [run]; destruct (run _ s0) as [[[s' sends] n] r]; reflexivity).
  all: cbn [run]; rewrite (ids_fold _ Hs) by (intros a b []); rewrite app_nil_r; reflexivity.
Qed.

(** the premise: in every reachable state the ids are strictly increasing *)
Lemma peers_sorted_step s o : ssorted (p_peers s) = true -> ssorted (p_peers (fst (pstep s o))) = true.
Proof.
  intros H. destruct o as [id|id|id key|]; cbn [pstep fst p_peers].
  - apply ssorted_insN, H.
  - unfold p_remove. destruct (aget (p_index s) id); cbn [fst p_peers]; apply ssorted_delN, H.
  - unfold p_alias. destruct (negb _); [exact H|]. destruct (aget (p_aliases s) key) as [prev|]; [destruct (prev =? id)|]; exact H.
  - exact H.
Qed.
Lemma peers_sorted_reachable ops : forall s, ssorted (p_peers s) = true ->
  ssorted (p_peers (fold_left (fun c o => fst (pstep c o)) ops s)) = true.
Proof. induction ops as [|o ops IH]; intros s H; cbn [fold_left]; [exact H|]. apply IH, peers_sorted_step, H. Qed.

(** ** the bundle quoted by Props/C18.v *)
Lemma c18_source_translation :
  match gen_peer_insert with Some f => forall s id, run (f id) s = (fst (pstep s (PInsert id)), [], 1%nat, tt) | None => True end /\
  match gen_peer_remove with Some f => forall s id, run (f id) s = (fst (pstep s (PRemove id)), [], 1%nat, found s id) | None => True end /\
  match gen_peer_alias with
  | Some f => forall s id key, run (f id key) s = (fst (pstep s (PAlias id key)), [], 1%nat, pbool (snd (pstep s (PAlias id key))))
  | None => True
  end /\
  match gen_peer_get with Some f => forall s id, run (f id) s = (s, [], 1%nat, found s id) | None => True end /\
  match gen_peer_get_by with Some f => forall s key, run (f key) s = (s, [], 1%nat, q_get_by s key) | None => True end /\
  match gen_peer_key_for with Some f => forall s id, run (f id) s = (s, [], 1%nat, q_key_for s id) | None => True end /\
  match gen_peer_aliases_for with Some f => forall s id, run (f id) s = (s, [], 1%nat, q_aliases_for s id) | None => True end /\
  match gen_peer_len with Some f => forall s, run f s = (s, [], 1%nat, q_len s) | None => True end /\
  match gen_peer_peers with Some f => forall s, run f s = (s, [], 1%nat, p_peers s) | None => True end /\
  match gen_peer_broadcast_each with
  | Some f => forall s, ssorted (p_peers s) = true -> run f s = (s, p_peers s, 1%nat, p_peers s)
  | None => True
  end.
Proof.
  exact (conj peer_insert_agrees (conj peer_remove_agrees (conj peer_alias_agrees (conj peer_get_agrees (conj peer_get_by_agrees
        (conj peer_key_for_agrees (conj peer_aliases_for_agrees (conj peer_len_agrees (conj peer_peers_agrees peer_broadcast_each_agrees))))))))).
Qed.

(** what the right-hand sides are in terms of the model's results, and the premise of the broadcast *)
Lemma c18_source_translation_model :
  (forall s id, snd (pstep s (PRemove id)) = PBool (opt_is_some (found s id))) /\
  (forall s id key, exists b, snd (pstep s (PAlias id key)) = PBool b) /\
  (forall s, pstep s PBroadcast = (s, PIds (p_peers s))) /\
  (forall ops, ssorted (p_peers (fold_left (fun c o => fst (pstep c o)) ops preg_empty)) = true).
Proof.
  split; [|split; [|split]].
  - intros s id. cbn [pstep]. unfold p_remove, found, q_get. destruct (aget (p_index s) id); cbn [snd]; destruct (memN id (p_peers s)); reflexivity.
  - intros s id key. cbn [pstep]. unfold p_alias. destruct (negb _); [eexists; reflexivity|].
    destruct (aget (p_aliases s) key) as [prev|]; [destruct (prev =? id)|]; eexists; reflexivity.
  - reflexivity.
  - intros ops. apply peers_sorted_reachable. reflexivity.
Qed.
