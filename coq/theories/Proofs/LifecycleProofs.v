(** Proofs about the connection lifecycle model (Model/Lifecycle.v). *)
From RepeV Require Import Model.Lifecycle Proofs.PeersProofs.
From Coq Require Import ZifyBool ZifyN ZifyNat.
Ltac Zify.zify_post_hook ::= Z.div_mod_to_equations.

(** * generic list lemmas *)

Lemma filter_none {A} (P : A -> bool) l : (forall x, In x l -> P x = false) -> filter P l = [].
Proof.
  induction l as [|x l IH]; intros H; cbn [filter]; [reflexivity|].
  rewrite (H x (or_introl eq_refl)). apply IH. intros y Hy. apply H. right. exact Hy.
Qed.

Lemma forallb_flat_map {A B} (P : B -> bool) (f : A -> list B) l :
  forallb P (flat_map f l) = forallb (fun x => forallb P (f x)) l.
Proof.
  induction l as [|x l IH]; cbn [flat_map forallb]; [reflexivity|].
  rewrite forallb_app, IH. reflexivity.
Qed.

Lemma forallb_map_const {A B} (P : B -> bool) (f : A -> B) l :
  (forall x, P (f x) = true) -> forallb P (map f l) = true.
Proof. intros H. induction l as [|x l IH]; cbn [map forallb]; [reflexivity|]. rewrite H, IH. reflexivity. Qed.

Lemma forallb_In {A} (P : A -> bool) l x : forallb P l = true -> In x l -> P x = true.
Proof. intros H Hx. rewrite forallb_forall in H. apply H. exact Hx. Qed.

(** an element that does not occur in [a] splits [a ++ d] inside [d] *)
Lemma split_not_in {A} (x : A) a : forall d pre post,
  ~ In x a -> pre ++ x :: post = a ++ d ->
  exists pre', pre = a ++ pre' /\ d = pre' ++ x :: post.
Proof.
  induction a as [|y a IH]; intros d pre post Hn E.
  - exists pre. split; [reflexivity|]. symmetry. exact E.
  - destruct pre as [|z pre]; cbn [app] in E.
    + inversion E as [[E1 E2]]. exfalso. apply Hn. left. symmetry. exact E1.
    + inversion E as [[E1 E2]]. subst z.
      destruct (IH d pre post) as [pre' [P1 P2]]; [intros H; apply Hn; right; exact H|exact E2|].
      exists pre'. split; [cbn [app]; rewrite P1; reflexivity|exact P2].
Qed.

(** * the shape of a run *)

Definition exit_part (s : scenario) : list ev :=
  match panic_idx (script s) with Some i => [EExit (XHookPanic i)] | None => body s end.
Definition arrive_part (s : scenario) : list ev :=
  if is_PHooks (s_phase s) then [EArrive (s_cause s)] else [].
Definition pre_part (s : scenario) : list ev := arrive_part s ++ hookpart s ++ exit_part s.

Lemma run_ok s : s_hs s = true ->
  run s = EHandshake true :: EGuardBuilt :: pre_part s ++ drop_evs s.
Proof.
  intros H. unfold run, pre_part, arrive_part, exit_part. rewrite H.
  rewrite <- !app_assoc. reflexivity.
Qed.

Lemma run_fail s : s_hs s = false -> run s = [EHandshake false].
Proof. intros H. unfold run. rewrite H. reflexivity. Qed.

Definition is_disc (e : ev) : bool := match e with EDisconnect _ => true | _ => false end.
Definition is_disc_j (j : nat) (e : ev) : bool :=
  match e with EDisconnect j' => (j =? j')%nat | _ => false end.
Definition is_connect (e : ev) : bool := match e with EConnect _ => true | _ => false end.
Definition is_cancel (e : ev) : bool := match e with ECancel => true | _ => false end.
Definition is_remove (e : ev) : bool := match e with ERegRemove => true | _ => false end.

(** events that the guard's drop produces and nothing else does *)
Definition guard_side (e : ev) : bool := is_disc e || is_cancel e || is_remove e.
Definition before_guard (e : ev) : bool := negb (guard_side e).

Lemma before_guard_pings n : forallb before_guard (pings n) = true.
Proof. unfold pings. rewrite forallb_flat_map. apply forallb_forall. intros x _. reflexivity. Qed.

Lemma before_guard_hact i h : forallb before_guard (hact_evs i h) = true.
Proof.
  destruct h; cbn [hact_evs forallb]; try reflexivity.
  apply forallb_map_const. intros x. reflexivity.
Qed.

Lemma before_guard_hookpart s : forallb before_guard (hookpart s) = true.
Proof.
  unfold hookpart. rewrite forallb_flat_map. apply forallb_forall. intros c _.
  destruct c as [i h|]; cbn [cstep_evs forallb]; [|reflexivity].
  rewrite before_guard_hact. reflexivity.
Qed.

Lemma before_guard_body s : forallb before_guard (body s) = true.
Proof.
  unfold body. rewrite forallb_app. apply andb_true_iff. split; [|reflexivity].
  destruct (s_phase s).
  - cbn [forallb]. rewrite forallb_app, before_guard_pings. reflexivity.
  - cbn [forallb]. rewrite !forallb_app, before_guard_pings. destruct (s_cause s); reflexivity.
  - cbn [forallb]. rewrite !forallb_app, before_guard_pings. destruct (token_cause (s_cause s)); reflexivity.
  - cbn [forallb]. rewrite !forallb_app, before_guard_pings. cbn [forallb andb].
    rewrite forallb_map_const by reflexivity. reflexivity.
  - destruct (token_cause (s_cause s)); [reflexivity|]. cbn [forallb]. rewrite before_guard_pings. reflexivity.
Qed.

Lemma before_guard_pre_part s : forallb before_guard (pre_part s) = true.
Proof.
  unfold pre_part. rewrite !forallb_app, before_guard_hookpart.
  unfold arrive_part, exit_part.
  destruct (is_PHooks (s_phase s)); destruct (panic_idx (script s));
    cbn [forallb andb]; try reflexivity; rewrite before_guard_body; reflexivity.
Qed.

Lemma pre_part_In s e : In e (pre_part s) -> guard_side e = false.
Proof.
  intros H. pose proof (forallb_In _ _ _ (before_guard_pre_part s) H) as B.
  unfold before_guard in B. destruct (guard_side e); [discriminate|reflexivity].
Qed.

(** the events before the guard's drop *)
Definition head_part (s : scenario) : list ev := EHandshake true :: EGuardBuilt :: pre_part s.

Lemma run_ok' s : s_hs s = true -> run s = head_part s ++ drop_evs s.
Proof. intros H. rewrite (run_ok s H). reflexivity. Qed.

Lemma head_part_In s e : In e (head_part s) -> guard_side e = false.
Proof.
  intros [H|[H|H]]; [subst e; reflexivity|subst e; reflexivity|]. exact (pre_part_In s e H).
Qed.

(** * the drop of the guard *)

Lemma filter_disc_evs j : forall n k,
  filter (is_disc_j j) (disc_evs k n)
  = if ((k <=? j) && (j <? k + n))%nat then [EDisconnect j] else [].
Proof.
  induction n as [|n IH]; intros k; cbn [disc_evs filter].
  - destruct (Nat.leb_spec k j); destruct (Nat.ltb_spec j (k + 0)); cbn [andb]; try reflexivity; lia.
  - cbn [is_disc_j]. rewrite IH.
    destruct (Nat.eqb_spec j k) as [E|E].
    + subst k. destruct (Nat.leb_spec (S j) j); [lia|]. cbn [andb].
      destruct (Nat.leb_spec j j); [|lia]. destruct (Nat.ltb_spec j (j + S n)); [|lia]. reflexivity.
    + destruct (Nat.leb_spec (S k) j); destruct (Nat.leb_spec k j);
        destruct (Nat.ltb_spec j (S k + n)); destruct (Nat.ltb_spec j (k + S n)); cbn [andb]; try reflexivity; lia.
Qed.

Lemma disc_evs_connect_free k n e : In e (disc_evs k n) -> is_disc e = true.
Proof.
  revert k. induction n as [|n IH]; intros k H; cbn [disc_evs] in H; [destruct H|].
  destruct H as [H|H]; [subst e; reflexivity|exact (IH _ H)].
Qed.

Lemma drop_evs_In s e : In e (drop_evs s) ->
  is_connect e = false /\ (e = ECancel \/ e = EOffSeesCancel \/ e = ERegRemove \/ is_disc e = true).
Proof.
  unfold drop_evs. intros [H|H]; [subst e; split; [reflexivity|left; reflexivity]|].
  rewrite !in_app_iff in H. destruct H as [H|[H|[H|H]]].
  - destruct (off_pending s); [|destruct H]. destruct H as [H|[]]. subst e. split; [reflexivity|right; left; reflexivity].
  - pose proof (disc_evs_connect_free _ _ _ H) as D. destruct e; try discriminate D. split; [reflexivity|right; right; right; reflexivity].
  - destruct (s_reg s); [|destruct H]. destruct H as [H|[]]. subst e. split; [reflexivity|right; right; left; reflexivity].
  - pose proof (disc_evs_connect_free _ _ _ H) as D. destruct e; try discriminate D. split; [reflexivity|right; right; right; reflexivity].
Qed.

Lemma filter_disc_drop s j :
  filter (is_disc_j j) (drop_evs s) = if (j <? ndisc s)%nat then [EDisconnect j] else [].
Proof.
  unfold drop_evs, ndisc. cbn [filter is_disc_j]. rewrite !filter_app, !filter_disc_evs.
  replace (filter (is_disc_j j) (if off_pending s then [EOffSeesCancel] else [])) with (@nil ev)
    by (destruct (off_pending s); reflexivity).
  replace (filter (is_disc_j j) (if s_reg s then [ERegRemove] else [])) with (@nil ev)
    by (destruct (s_reg s); reflexivity).
  cbn [app].
  destruct (Nat.leb_spec 0 j); [|lia].
  destruct (Nat.ltb_spec j (0 + s_dpre s)); destruct (Nat.leb_spec (s_dpre s) j);
    destruct (Nat.ltb_spec j (s_dpre s + s_dpost s)); cbn [andb app]; try reflexivity; lia.
Qed.

(** * C15: disconnect hooks *)

(** handshake ok: disconnect hook [j] runs exactly once if it is registered
    (and never otherwise), for every exit cause, phase and hook configuration *)
Lemma disconnect_count s j : s_hs s = true ->
  length (filter (is_disc_j j) (run s)) = if (j <? ndisc s)%nat then 1%nat else 0%nat.
Proof.
  intros H. rewrite (run_ok' s H), filter_app, filter_disc_drop.
  rewrite (filter_none (is_disc_j j) (head_part s)).
  - destruct (j <? ndisc s)%nat; reflexivity.
  - intros e He. pose proof (head_part_In s e He) as G. unfold guard_side in G.
    destruct e; try reflexivity. discriminate G.
Qed.

(** ... after every connect hook that ran *)
Lemma disconnect_after_connects s j pre post : s_hs s = true ->
  run s = pre ++ EDisconnect j :: post -> forall e, In e post -> is_connect e = false.
Proof.
  intros H E e He. rewrite (run_ok' s H) in E.
  destruct (split_not_in (EDisconnect j) (head_part s) (drop_evs s) pre post) as [pre' [P1 P2]].
  - intros Hin. pose proof (head_part_In s _ Hin) as G. discriminate G.
  - symmetry. exact E.
  - apply (drop_evs_In s e). rewrite P2. apply in_or_app. right. right. exact He.
Qed.

(** ... and before it, every connect hook of the run (they are all in the part before the drop) *)
Lemma connects_before_drop s e : s_hs s = true -> In e (run s) -> is_connect e = true -> In e (head_part s).
Proof.
  intros H He C. rewrite (run_ok' s H) in He. apply in_app_or in He. destruct He as [He|He]; [exact He|].
  destruct (drop_evs_In s e He) as [C' _]. congruence.
Qed.

Lemma none_on_handshake_fail s : s_hs s = false -> run s = [EHandshake false].
Proof. exact (run_fail s). Qed.

(** the token is cancelled exactly once, after everything the connection did
    and before every disconnect hook *)
Lemma cancel_before_disconnect_hooks s : s_hs s = true ->
  exists pre post, run s = pre ++ ECancel :: post /\
    (forall e, In e pre -> guard_side e = false) /\
    (forall e, In e post -> is_cancel e = false /\ is_connect e = false) /\
    (forall j, (j < ndisc s)%nat -> In (EDisconnect j) post).
Proof.
  intros H. exists (head_part s), (tl (drop_evs s)). split; [|split; [|split]].
  - rewrite (run_ok' s H). reflexivity.
  - exact (head_part_In s).
  - intros e He. assert (Hd : In e (drop_evs s)) by (right; exact He).
    destruct (drop_evs_In s e Hd) as [C _]. split; [|exact C].
    unfold drop_evs in He. cbn [tl] in He. rewrite !in_app_iff in He.
    destruct He as [He|[He|[He|He]]].
    + destruct (off_pending s); [|destruct He]. destruct He as [He|[]]. subst e. reflexivity.
    + pose proof (disc_evs_connect_free _ _ _ He) as D. destruct e; try discriminate D. reflexivity.
    + destruct (s_reg s); [|destruct He]. destruct He as [He|[]]. subst e. reflexivity.
    + pose proof (disc_evs_connect_free _ _ _ He) as D. destruct e; try discriminate D. reflexivity.
  - intros j Hj.
    assert (F : filter (is_disc_j j) (drop_evs s) = [EDisconnect j]).
    { rewrite filter_disc_drop. destruct (Nat.ltb_spec j (ndisc s)); [reflexivity|lia]. }
    assert (I : In (EDisconnect j) (drop_evs s)).
    { apply (proj1 (filter_In (is_disc_j j) (EDisconnect j) (drop_evs s))). rewrite F. left. reflexivity. }
    destruct I as [I|I]; [discriminate I|exact I].
Qed.

(** a parked off-reader handler observes the cancellation before any disconnect hook runs *)
Lemma parked_handler_sees_cancel s : s_hs s = true ->
  s_phase s = POffReader -> panic_idx (script s) = None ->
  exists pre post, run s = pre ++ EOffSeesCancel :: post /\
    In EOffStart pre /\ (forall e, In e pre -> is_disc e = false).
Proof.
  intros H P N. rewrite (run_ok' s H).
  assert (B : body s = EReaderStart :: pings (s_reqs s) ++ [ERequest (s_reqs s); EOffStart; EArrive (s_cause s)] ++
                (if token_cause (s_cause s) then [EOffSeesCancel] else []) ++ [EExit (XCause (s_cause s))]).
  { unfold body. rewrite P. cbn [app]. rewrite <- !app_assoc. reflexivity. }
  assert (HP : head_part s = EHandshake true :: EGuardBuilt :: arrive_part s ++ hookpart s ++ body s).
  { unfold head_part, pre_part, exit_part. rewrite N. reflexivity. }
  destruct (token_cause (s_cause s)) eqn:T.
  - set (PRE := EHandshake true :: EGuardBuilt :: arrive_part s ++ hookpart s ++ EReaderStart :: pings (s_reqs s) ++
            [ERequest (s_reqs s); EOffStart; EArrive (s_cause s)]).
    assert (Hhp : head_part s = PRE ++ EOffSeesCancel :: [EExit (XCause (s_cause s))]).
    { rewrite HP, B. unfold PRE. cbn [app]. rewrite <- !app_assoc. cbn [app]. rewrite <- !app_assoc. reflexivity. }
    exists PRE, ([EExit (XCause (s_cause s))] ++ drop_evs s).
    split; [|split].
    + rewrite Hhp, <- app_assoc. reflexivity.
    + unfold PRE. right. right. apply in_or_app. right. apply in_or_app. right. right. apply in_or_app. right. right. left. reflexivity.
    + intros e He. assert (Hh : In e (head_part s)) by (rewrite Hhp; apply in_or_app; left; exact He).
      pose proof (head_part_In s e Hh) as G. unfold guard_side in G. destruct (is_disc e); [discriminate|reflexivity].
  - exists (head_part s ++ [ECancel]), (disc_evs 0 (s_dpre s) ++ (if s_reg s then [ERegRemove] else []) ++ disc_evs (s_dpre s) (s_dpost s)).
    split; [|split].
    + unfold drop_evs, off_pending. rewrite P, T, N. cbn [is_POff negb andb app]. rewrite <- app_assoc. reflexivity.
    + apply in_or_app. left. rewrite HP, B. right. right. apply in_or_app. right. apply in_or_app. right. right.
      apply in_or_app. right. right. left. reflexivity.
    + intros e He. apply in_app_or in He. destruct He as [He|[He|[]]]; [|subst e; reflexivity].
      pose proof (head_part_In s e He) as G. unfold guard_side in G. destruct (is_disc e); [discriminate|reflexivity].
Qed.

(** * the outbound FIFO *)

Lemma outq_app a b : outq (a ++ b) = outq a ++ outq b.
Proof. unfold outq. apply flat_map_app. Qed.

Definition cstep_notifies (c : cstep) : list omsg :=
  match c with CHook i (ANotify k) => map (OHookNotify i) (nseq k) | _ => [] end.

(** the notifies queued by the connect hooks that ran, in hook order *)
Definition hook_notifies (s : scenario) : list omsg := flat_map cstep_notifies (upto_panic (script s)).

Definition is_hook_notify (m : omsg) : bool := match m with OHookNotify _ _ => true | _ => false end.

Lemma outq_map_queue {A} (f : A -> omsg) l : outq (map (fun q => EQueue (f q)) l) = map f l.
Proof. induction l as [|x l IH]; cbn [map outq flat_map app]; [reflexivity|]. unfold outq in IH. rewrite IH. reflexivity. Qed.

Lemma outq_cstep c : outq (cstep_evs c) = cstep_notifies c.
Proof.
  destruct c as [i h|]; [|reflexivity]. cbn [cstep_evs]. change (EConnect i :: hact_evs i h) with ([EConnect i] ++ hact_evs i h).
  rewrite outq_app. cbn [outq flat_map app].
  destruct h; cbn [hact_evs cstep_notifies]; try reflexivity.
  exact (outq_map_queue (OHookNotify i) (nseq k)).
Qed.

Lemma outq_flat_cstep l : outq (flat_map cstep_evs l) = flat_map cstep_notifies l.
Proof. induction l as [|c l IH]; cbn [flat_map]; [reflexivity|]. rewrite outq_app, outq_cstep, IH. reflexivity. Qed.

Lemma outq_hookpart s : outq (hookpart s) = hook_notifies s.
Proof. apply outq_flat_cstep. Qed.

Lemma outq_disc k n : outq (disc_evs k n) = [].
Proof. revert k. induction n as [|n IH]; intros k; cbn [disc_evs]; [reflexivity|]. exact (IH (S k)). Qed.

Lemma outq_drop s : outq (drop_evs s) = [].
Proof.
  unfold drop_evs. change (ECancel :: ?l) with ([ECancel] ++ l). rewrite !outq_app, !outq_disc.
  destruct (off_pending s); destruct (s_reg s); reflexivity.
Qed.

Lemma outq_arrive s : outq (arrive_part s) = [].
Proof. unfold arrive_part. destruct (is_PHooks (s_phase s)); reflexivity. Qed.

Lemma outq_run s : s_hs s = true -> outq (run s) = hook_notifies s ++ outq (exit_part s).
Proof.
  intros H. rewrite (run_ok s H). change (EHandshake true :: EGuardBuilt :: ?l) with ([EHandshake true; EGuardBuilt] ++ l).
  unfold pre_part. rewrite !outq_app, outq_arrive, outq_hookpart, outq_drop, app_nil_r. reflexivity.
Qed.

(** events that are not a notify queued by a connect hook *)
Definition no_hn (e : ev) : bool := match e with EQueue (OHookNotify _ _) => false | _ => true end.

Lemma outq_no_hn l : forallb no_hn l = true -> forall m, In m (outq l) -> is_hook_notify m = false.
Proof.
  induction l as [|e l IH]; intros H m Hm; [destruct Hm|].
  cbn [forallb] in H. apply andb_true_iff in H. destruct H as [H1 H2].
  change (e :: l) with ([e] ++ l) in Hm. rewrite outq_app in Hm. apply in_app_or in Hm. destruct Hm as [Hm|Hm].
  - destruct e; cbn [outq flat_map app] in Hm; try (destruct Hm; fail). destruct Hm as [Hm|[]]. subst m0.
    destruct m; [discriminate H1|reflexivity|reflexivity].
  - exact (IH H2 m Hm).
Qed.

Lemma no_hn_pings n : forallb no_hn (pings n) = true.
Proof. unfold pings. rewrite forallb_flat_map. apply forallb_forall. intros x _. reflexivity. Qed.

Lemma no_hn_body s : forallb no_hn (body s) = true.
Proof.
  unfold body. rewrite forallb_app. apply andb_true_iff. split; [|reflexivity].
  destruct (s_phase s).
  - cbn [forallb]. rewrite forallb_app, no_hn_pings. reflexivity.
  - cbn [forallb]. rewrite !forallb_app, no_hn_pings. destruct (s_cause s); reflexivity.
  - cbn [forallb]. rewrite !forallb_app, no_hn_pings. destruct (token_cause (s_cause s)); reflexivity.
  - cbn [forallb]. rewrite !forallb_app, no_hn_pings. cbn [forallb andb].
    rewrite forallb_map_const by reflexivity. reflexivity.
  - destruct (token_cause (s_cause s)); [reflexivity|]. cbn [forallb]. rewrite no_hn_pings. reflexivity.
Qed.

Lemma no_hn_exit_part s : forallb no_hn (exit_part s) = true.
Proof. unfold exit_part. destruct (panic_idx (script s)); [reflexivity|apply no_hn_body]. Qed.

Lemma hook_notifies_all s m : In m (hook_notifies s) -> is_hook_notify m = true.
Proof.
  unfold hook_notifies. intros H. apply in_flat_map in H. destruct H as [c [_ H]].
  destruct c as [i h|]; [|destruct H]. destruct h; try destruct H.
  cbn [cstep_notifies] in H. apply in_map_iff in H. destruct H as [q [E _]]. subst m. reflexivity.
Qed.

(** one FIFO: what the connection sends is the notifies queued by the connect
    hooks, in hook order, followed by everything else (responses, pushes) *)
Lemma hook_notifies_before_responses s : s_hs s = true ->
  exists rest, outq (run s) = hook_notifies s ++ rest /\
    (forall m, In m (hook_notifies s) -> is_hook_notify m = true) /\
    (forall m, In m rest -> is_hook_notify m = false).
Proof.
  intros H. exists (outq (exit_part s)). split; [exact (outq_run s H)|]. split.
  - exact (hook_notifies_all s).
  - exact (outq_no_hn _ (no_hn_exit_part s)).
Qed.

(** * the registry view agrees with the registry specification of C18 *)

Definition agrees (id : N) (st : pspec) (v : rview) : Prop :=
  spec_inv st /\ memN id (s_present st) = rv_present v /\
  (forall k, sp_lookup st k = Some id <-> In k (rv_keys v)).

Lemma alias_keeps_present st id k : s_present (fst (sstep st (PAlias id k))) = s_present st.
Proof.
  cbn [sstep]. destruct (negb (memN id (s_present st))); [reflexivity|].
  destruct (sp_lookup st k) as [owner|]; [destruct (owner =? id)|]; reflexivity.
Qed.

Lemma agrees_step id st v e : agrees id st v -> agrees id (reg_step id st e) (rv_step v e).
Proof.
  intros [I [P K]].
  destruct e; try (split; [exact I|split; [exact P|exact K]]).
  - (* insert *) cbn [reg_step rv_step]. split; [apply spec_inv_step; exact I|]. split.
    + cbn [sstep fst s_present]. rewrite memN_insN, N.eqb_refl. reflexivity.
    + intros k. cbn [rv_keys]. exact (K k).
  - (* alias *) cbn [reg_step rv_step]. destruct (rv_present v) eqn:Pv.
    + destruct (spec_lookup_after_alias st id key P) as [L1 L2].
      assert (I' : spec_inv (fst (sstep st (PAlias id key)))) by (apply spec_inv_step; exact I).
      destruct (memN key (rv_keys v)) eqn:M.
      * split; [exact I'|]. split; [rewrite alias_keeps_present, P, Pv; reflexivity|].
        intros k. destruct (N.eq_dec k key) as [E|E].
        -- subst k. split; [intros _; apply memN_In; exact M|intros _; exact L1].
        -- rewrite (L2 k E). exact (K k).
      * split; [exact I'|]. split; [rewrite alias_keeps_present, P; reflexivity|].
        intros k. cbn [rv_keys]. rewrite in_app_iff. destruct (N.eq_dec k key) as [E|E].
        -- subst k. split; [intros _; right; left; reflexivity|intros _; exact L1].
        -- rewrite (L2 k E). split.
           ++ intros H. left. apply K. exact H.
           ++ intros [H|[H|[]]]; [apply K; exact H|congruence].
    + rewrite spec_alias_absent by exact P. cbn [fst].
      split; [exact I|split; [rewrite P, Pv; reflexivity|exact K]].
  - (* remove *) cbn [reg_step rv_step]. split; [apply spec_inv_step; exact I|]. split.
    + cbn [sstep fst s_present rv_present]. rewrite memN_delN, N.eqb_refl. reflexivity.
    + intros k. cbn [rv_keys]. rewrite (spec_remove_lookup st id k I). split; [|intros []].
      destruct (sp_lookup st k) as [owner|]; [|discriminate].
      destruct (N.eqb_spec owner id) as [E|E]; [discriminate|]. intros H. inversion H. congruence.
Qed.

Lemma agrees_after id tr : forall st v, agrees id st v -> agrees id (reg_after id st tr) (rv_after v tr).
Proof.
  induction tr as [|e tr IH]; intros st v A; [exact A|].
  unfold reg_after, rv_after. cbn [fold_left]. apply IH. apply agrees_step. exact A.
Qed.

Lemma agrees_init id st : spec_inv st -> memN id (s_present st) = false ->
  (forall k, sp_lookup st k <> Some id) -> agrees id st rv0.
Proof.
  intros I P K. split; [exact I|]. split; [exact P|]. intros k. cbn [rv0 rv_keys]. split; [intros H; exact (K k H)|intros []].
Qed.

(** * the projection of a run onto the observable callbacks *)

Lemma rv_after_app v a b : rv_after v (a ++ b) = rv_after (rv_after v a) b.
Proof. unfold rv_after. apply fold_left_app. Qed.

Lemma proj_app : forall a v b, proj v (a ++ b) = proj v a ++ proj (rv_after v a) b.
Proof.
  induction a as [|e a IH]; intros v b; [reflexivity|].
  cbn [app proj]. unfold rv_after. cbn [fold_left]. fold (rv_after (rv_step v e) a).
  rewrite IH. destruct e; reflexivity.
Qed.

(** events that neither change the registry view nor are projected *)
Definition inert (e : ev) : bool :=
  match e with
  | EConnect _ | EDisconnect _ | ERegInsert | ERegAlias _ | ERegRemove | EOffSeesCancel => false
  | _ => true
  end.

Lemma proj_inert : forall l v, forallb inert l = true -> proj v l = [] /\ rv_after v l = v.
Proof.
  induction l as [|e l IH]; intros v H; [split; reflexivity|].
  cbn [forallb] in H. apply andb_true_iff in H. destruct H as [H1 H2].
  unfold rv_after. cbn [proj fold_left]. fold (rv_after (rv_step v e) l).
  destruct e; try discriminate H1; cbn [rv_step]; exact (IH v H2).
Qed.

Lemma inert_pings n : forallb inert (pings n) = true.
Proof. unfold pings. rewrite forallb_flat_map. apply forallb_forall. intros x _. reflexivity. Qed.

Lemma inert_body s : is_POff (s_phase s) && token_cause (s_cause s) = false -> forallb inert (body s) = true.
Proof.
  intros H. unfold body. rewrite forallb_app. apply andb_true_iff. split; [|reflexivity].
  destruct (s_phase s).
  - cbn [forallb]. rewrite forallb_app, inert_pings. reflexivity.
  - cbn [forallb]. rewrite !forallb_app, inert_pings. destruct (s_cause s); reflexivity.
  - cbn [is_POff andb] in H. rewrite H. cbn [forallb]. rewrite !forallb_app, inert_pings. reflexivity.
  - cbn [forallb]. rewrite !forallb_app, inert_pings. cbn [forallb andb].
    rewrite forallb_map_const by reflexivity. reflexivity.
  - destruct (token_cause (s_cause s)); [reflexivity|]. cbn [forallb]. rewrite inert_pings. reflexivity.
Qed.

Lemma proj_body v s :
  proj v (body s) = (if is_POff (s_phase s) && token_cause (s_cause s) then [HK] else []) /\
  rv_after v (body s) = v.
Proof.
  destruct (is_POff (s_phase s) && token_cause (s_cause s)) eqn:E.
  - apply andb_true_iff in E. destruct E as [E1 E2].
    assert (B : body s = (EReaderStart :: pings (s_reqs s) ++ [ERequest (s_reqs s); EOffStart; EArrive (s_cause s)]) ++
                         [EOffSeesCancel; EExit (XCause (s_cause s))]).
    { unfold body. destruct (s_phase s); try discriminate E1. rewrite E2. cbn [app]. rewrite <- !app_assoc. reflexivity. }
    rewrite B, proj_app, rv_after_app.
    destruct (proj_inert (EReaderStart :: pings (s_reqs s) ++ [ERequest (s_reqs s); EOffStart; EArrive (s_cause s)]) v) as [P1 P2].
    { cbn [forallb]. rewrite forallb_app, inert_pings. reflexivity. }
    rewrite P1, P2. split; reflexivity.
  - exact (proj_inert (body s) v (inert_body s E)).
Qed.

Definition hooks_evs (i : nat) (hs : list hact) : list ev := flat_map cstep_evs (number i hs).

Lemma hooks_evs_cons i h r : hooks_evs i (h :: r) = (EConnect i :: hact_evs i h) ++ hooks_evs (S i) r.
Proof. reflexivity. Qed.

Lemma proj_hact v i h : proj v (hact_evs i h) = [].
Proof.
  destruct h; try reflexivity. cbn [hact_evs].
  apply (proj_inert (map (fun q => EQueue (OHookNotify i q)) (nseq k)) v).
  apply forallb_map_const. reflexivity.
Qed.

Lemma rv_hact v i h :
  rv_after v (hact_evs i h) = match h with AAlias k => rv_step v (ERegAlias k) | _ => v end.
Proof.
  destruct h; try reflexivity. cbn [hact_evs].
  apply (proj_inert (map (fun q => EQueue (OHookNotify i q)) (nseq k)) v).
  apply forallb_map_const. reflexivity.
Qed.

(** connect hooks while the peer is not in the registry *)
Lemma hooks_absent v : rv_present v = false -> forall hs i,
  proj v (hooks_evs i hs) = map (fun i' => HC i' false) (seq i (length hs)) /\
  rv_after v (hooks_evs i hs) = v.
Proof.
  intros Pv. induction hs as [|h r IH]; intros i; [split; reflexivity|].
  rewrite hooks_evs_cons, proj_app, rv_after_app.
  assert (R : rv_after v (EConnect i :: hact_evs i h) = v).
  { change (EConnect i :: hact_evs i h) with ([EConnect i] ++ hact_evs i h). rewrite rv_after_app.
    change (rv_after v [EConnect i]) with v. rewrite rv_hact. destruct h; try reflexivity.
    cbn [rv_step]. rewrite Pv. reflexivity. }
  rewrite R. destruct (IH (S i)) as [I1 I2]. rewrite I1, I2. split; [|reflexivity].
  cbn [proj rv_step length seq map]. rewrite proj_hact, Pv. reflexivity.
Qed.

Lemma memN_app x a b : memN x (a ++ b) = memN x a || memN x b.
Proof. induction a as [|y a IH]; cbn [app memN]; [reflexivity|]. rewrite IH, orb_assoc. reflexivity. Qed.

Lemma nodupN_app_l a b : nodupN (a ++ b) = true -> nodupN a = true.
Proof.
  induction a as [|x a IH]; intros H; [reflexivity|]. cbn [app nodupN] in *.
  apply andb_true_iff in H. destruct H as [H1 H2]. rewrite memN_app in H1.
  destruct (memN x a); [discriminate H1|]. cbn [negb andb]. exact (IH H2).
Qed.

Lemma nodupN_mid a k b : nodupN (a ++ k :: b) = true -> memN k a = false.
Proof.
  induction a as [|x a IH]; intros H; [reflexivity|]. cbn [app nodupN] in H.
  apply andb_true_iff in H. destruct H as [H1 H2]. cbn [memN]. rewrite (IH H2), orb_false_r.
  rewrite memN_app in H1. cbn [memN] in H1. destruct (N.eqb_spec x k) as [E|E]; [|reflexivity].
  subst x. rewrite N.eqb_refl, orb_true_r in H1. discriminate H1.
Qed.

Lemma alias_keys_cons h r :
  alias_keys (h :: r) = match h with AAlias k => k :: alias_keys r | _ => alias_keys r end.
Proof. destruct h; reflexivity. Qed.

Lemma alias_keys_app a b : alias_keys (a ++ b) = alias_keys a ++ alias_keys b.
Proof. unfold alias_keys. apply flat_map_app. Qed.

(** connect hooks while the peer is in the registry: aliases accumulate *)
Lemma hooks_present : forall hs i v, rv_present v = true ->
  nodupN (rv_keys v ++ alias_keys hs) = true ->
  proj v (hooks_evs i hs) = map (fun i' => HC i' true) (seq i (length hs)) /\
  rv_after v (hooks_evs i hs) = mkRv true (rv_keys v ++ alias_keys hs).
Proof.
  induction hs as [|h r IH]; intros i v Pv ND.
  - cbn [alias_keys flat_map]. rewrite app_nil_r. destruct v as [p ks]. cbn [rv_present] in Pv. subst p. split; reflexivity.
  - rewrite hooks_evs_cons, proj_app, rv_after_app.
    assert (R : rv_after v (EConnect i :: hact_evs i h) = match h with AAlias k => mkRv true (rv_keys v ++ [k]) | _ => v end).
    { change (EConnect i :: hact_evs i h) with ([EConnect i] ++ hact_evs i h). rewrite rv_after_app.
      change (rv_after v [EConnect i]) with v. rewrite rv_hact. destruct h; try reflexivity.
      cbn [rv_step]. rewrite Pv. rewrite alias_keys_cons in ND. rewrite (nodupN_mid _ _ _ ND). reflexivity. }
    rewrite R. rewrite alias_keys_cons in ND |- *.
    assert (P0 : proj v (EConnect i :: hact_evs i h) = [HC i true]).
    { cbn [proj rv_step]. rewrite proj_hact, Pv. reflexivity. }
    rewrite P0. cbn [length seq map app].
    destruct h.
    1-4: destruct (IH (S i) v Pv ND) as [I1 I2]; rewrite I1, I2; split; reflexivity.
    destruct (IH (S i) (mkRv true (rv_keys v ++ [key]))) as [I1 I2]; [reflexivity| |].
    + cbn [rv_keys]. rewrite <- app_assoc. exact ND.
    + rewrite I1, I2. cbn [rv_keys]. rewrite <- app_assoc. split; reflexivity.
Qed.

Lemma proj_disc v : forall n k,
  proj v (disc_evs k n) = map (fun j => HD j (rv_present v) (N.of_nat (length (rv_keys v)))) (seq k n) /\
  rv_after v (disc_evs k n) = v.
Proof.
  induction n as [|n IH]; intros k; [split; reflexivity|].
  destruct (IH (S k)) as [I1 I2]. unfold rv_after in *. cbn [disc_evs proj fold_left rv_step seq map].
  rewrite I1, I2. split; reflexivity.
Qed.

(** * which hooks run *)

Fixpoint cut (hs : list hact) : list hact :=
  match hs with [] => [] | APanic :: _ => [APanic] | h :: r => h :: cut r end.

Lemma upto_panic_number : forall hs i, upto_panic (number i hs) = number i (cut hs).
Proof. induction hs as [|h r IH]; intros i; [reflexivity|]. destruct h; cbn [number upto_panic cut]; try rewrite IH; reflexivity. Qed.

Lemma cut_nopanic hs : existsb is_panic hs = false -> cut hs = hs.
Proof.
  induction hs as [|h r IH]; intros H; [reflexivity|]. cbn [existsb] in H. apply orb_false_iff in H. destruct H as [H1 H2].
  destruct h; try discriminate H1; cbn [cut]; rewrite (IH H2); reflexivity.
Qed.

Lemma cut_prefix hs : exists r, hs = cut hs ++ r.
Proof.
  induction hs as [|h t IH]; [exists []; reflexivity|]. destruct IH as [r IH].
  destruct h; cbn [cut]; try (exists r; cbn [app]; rewrite <- IH; reflexivity).
  exists t. reflexivity.
Qed.

Lemma cut_length hs : (length (cut hs) <= length hs)%nat.
Proof. destruct (cut_prefix hs) as [r E]. rewrite E at 2. rewrite app_length. lia. Qed.

Lemma firstn_cut hs : firstn (length (cut hs)) hs = cut hs.
Proof.
  destruct (cut_prefix hs) as [r E]. rewrite E at 2.
  rewrite firstn_app, Nat.sub_diag, firstn_all. cbn [firstn]. apply app_nil_r.
Qed.

Definition is_panic_step (c : cstep) : bool := match c with CHook _ APanic => true | _ => false end.

Lemma upto_panic_app a b :
  upto_panic (a ++ b) = if existsb is_panic_step a then upto_panic a else a ++ upto_panic b.
Proof.
  induction a as [|c a IH]; [reflexivity|]. cbn [app].
  destruct c as [i h|]; [destruct h|]; cbn [upto_panic existsb is_panic_step orb]; try rewrite IH;
    try (destruct (existsb is_panic_step a); reflexivity); try reflexivity.
Qed.

Lemma panic_number hs : forall i, existsb is_panic_step (number i hs) = existsb is_panic hs.
Proof. induction hs as [|h r IH]; intros i; [reflexivity|]. cbn [number existsb]. rewrite IH. destruct h; reflexivity. Qed.

Lemma panic_idx_none l : panic_idx l = None <-> existsb is_panic_step l = false.
Proof.
  induction l as [|c l IH]; [split; reflexivity|].
  destruct c as [i h|]; [destruct h|]; cbn [panic_idx existsb is_panic_step orb]; try exact IH.
  split; discriminate.
Qed.

Lemma existsb_app' {A} (P : A -> bool) a b : existsb P (a ++ b) = existsb P a || existsb P b.
Proof. apply existsb_app. Qed.

Definition pre_panics (s : scenario) : bool := existsb is_panic (s_pre s).
Definition ran_pre (s : scenario) : list hact := cut (s_pre s).
Definition ran_rest (s : scenario) : list hact := if pre_panics s then [] else cut (s_post s ++ eff_xh s).
Definition regran (s : scenario) : bool := s_reg s && negb (pre_panics s).
Definition nran (s : scenario) : nat := (length (ran_pre s) + length (ran_rest s))%nat.
Definition panics (s : scenario) : bool := match panic_idx (script s) with Some _ => true | None => false end.

Lemma script_ran s :
  upto_panic (script s) =
  number 0 (ran_pre s) ++ (if regran s then [CReg] else []) ++ number (length (s_pre s)) (ran_rest s).
Proof.
  unfold script, ran_pre, ran_rest, regran, pre_panics. rewrite upto_panic_app, panic_number, upto_panic_number.
  destruct (existsb is_panic (s_pre s)) eqn:E.
  - rewrite andb_false_r. cbn [negb number app]. rewrite app_nil_r. reflexivity.
  - rewrite (cut_nopanic _ E), andb_true_r. cbn [negb]. f_equal.
    destruct (s_reg s); cbn [app upto_panic]; rewrite upto_panic_number; reflexivity.
Qed.

Lemma hookpart_ran s :
  hookpart s = hooks_evs 0 (ran_pre s) ++ (if regran s then [ERegInsert] else []) ++
               hooks_evs (length (s_pre s)) (ran_rest s).
Proof.
  unfold hookpart, hooks_evs. rewrite script_ran, !flat_map_app. destruct (regran s); reflexivity.
Qed.

Lemma ran_cases s :
  (pre_panics s = true /\ ran_rest s = [] /\ regran s = false) \/
  (pre_panics s = false /\ ran_pre s = s_pre s /\ regran s = s_reg s).
Proof.
  unfold ran_rest, regran, ran_pre. destruct (pre_panics s) eqn:E.
  - left. rewrite andb_false_r. repeat split.
  - right. unfold pre_panics in E. rewrite (cut_nopanic _ E), andb_true_r. repeat split.
Qed.

Lemma firstn_oh s : firstn (nran s) (oh s) = ran_pre s ++ ran_rest s.
Proof.
  unfold nran, oh. destruct (ran_cases s) as [[E1 [E2 _]]|[E1 [E2 _]]].
  - rewrite E2. cbn [length]. rewrite Nat.add_0_r, app_nil_r. unfold ran_pre.
    rewrite firstn_app. pose proof (cut_length (s_pre s)) as L.
    replace (length (cut (s_pre s)) - length (s_pre s))%nat with 0%nat by lia.
    cbn [firstn]. rewrite app_nil_r. apply firstn_cut.
  - rewrite E2. unfold ran_rest. rewrite E1.
    rewrite firstn_app. replace (length (s_pre s) + length (cut (s_post s ++ eff_xh s)) - length (s_pre s))%nat
      with (length (cut (s_post s ++ eff_xh s))) by lia.
    rewrite firstn_cut. rewrite firstn_all2 by lia. reflexivity.
Qed.

Lemma nran_le s : (nran s <= length (oh s))%nat.
Proof.
  unfold nran, oh, ran_pre, ran_rest. rewrite app_length.
  pose proof (cut_length (s_pre s)). pose proof (cut_length (s_post s ++ eff_xh s)).
  destruct (pre_panics s); cbn [length]; lia.
Qed.

Lemma panics_ran s : panics s = existsb is_panic (ran_pre s ++ ran_rest s).
Proof.
  unfold panics. destruct (panic_idx (script s)) eqn:E.
  - symmetry. destruct (existsb is_panic (ran_pre s ++ ran_rest s)) eqn:X; [reflexivity|exfalso].
    assert (N : panic_idx (script s) = None); [|congruence].
    apply panic_idx_none. unfold script. rewrite !existsb_app', !panic_number.
    rewrite existsb_app' in X. apply orb_false_iff in X. destruct X as [X1 X2].
    destruct (ran_cases s) as [[E1 _]|[E1 [E2 _]]].
    + unfold ran_pre in X1. unfold pre_panics in E1.
      destruct (cut_prefix (s_pre s)) as [r Hr].
      assert (C : existsb is_panic (cut (s_pre s)) = true).
      { clear -E1. induction (s_pre s) as [|h t IH]; [discriminate|]. cbn [existsb] in E1.
        destruct h; cbn [cut existsb is_panic orb] in *; try exact (IH E1). reflexivity. }
      congruence.
    + unfold ran_rest in X2. rewrite E1 in X2. rewrite E2 in X1. rewrite X1.
      assert (C : existsb is_panic (s_post s ++ eff_xh s) = false).
      { revert X2. generalize (s_post s ++ eff_xh s). induction l as [|h t IH]; [reflexivity|].
        destruct h; cbn [cut existsb is_panic orb]; try exact IH. discriminate. }
      rewrite C. destruct (s_reg s); reflexivity.
  - apply panic_idx_none in E. unfold script in E. rewrite !existsb_app', !panic_number in E.
    apply orb_false_iff in E. destruct E as [E1 E2]. apply orb_false_iff in E2. destruct E2 as [_ E2].
    unfold ran_pre, ran_rest, pre_panics. rewrite E1, (cut_nopanic _ E1), (cut_nopanic _ E2).
    rewrite existsb_app', E1, E2. reflexivity.
Qed.

(** * the model's observation in closed form *)

Lemma wf_parts s : c15_wf s = true ->
  existsb is_alias (s_pre s) = false /\
  nodupN (alias_keys (s_post s ++ s_xh s)) = true /\
  (if is_PHooks (s_phase s) then token_cause (s_cause s) = true /\ s_reqs s = 0 else 1 <= s_reqs s).
Proof.
  unfold c15_wf. intros H. rewrite !andb_true_iff in H.
  destruct H as [[[[[[[[H1 _] H3] _] _] _] H7] _] _].
  split; [destruct (existsb is_alias (s_pre s)); [discriminate H1|reflexivity]|]. split; [exact H3|].
  destruct (is_PHooks (s_phase s)).
  - apply andb_true_iff in H7. destruct H7 as [A B]. split; [exact A|lia].
  - apply andb_true_iff in H7. destruct H7 as [A _]. lia.
Qed.

Definition vh (s : scenario) : rview := mkRv (regran s) (if regran s then alias_keys (ran_rest s) else []).

Lemma nodup_ran_rest s : c15_wf s = true -> nodupN (alias_keys (ran_rest s)) = true.
Proof.
  intros W. destruct (wf_parts s W) as [_ [ND _]]. unfold ran_rest. destruct (pre_panics s); [reflexivity|].
  destruct (cut_prefix (s_post s ++ eff_xh s)) as [r Hr].
  assert (E : exists r', s_post s ++ s_xh s = cut (s_post s ++ eff_xh s) ++ r').
  { unfold eff_xh in *. destruct (s_ctx s).
    - exists r. exact Hr.
    - exists (r ++ s_xh s). rewrite app_assoc, <- Hr, app_nil_r. reflexivity. }
  destruct E as [r' E]. rewrite E, alias_keys_app in ND. exact (nodupN_app_l _ _ ND).
Qed.

Lemma proj_hookpart s : c15_wf s = true ->
  proj rv0 (hookpart s) =
    map (fun i => HC i false) (seq 0 (length (ran_pre s))) ++
    map (fun i => HC i (regran s)) (seq (length (s_pre s)) (length (ran_rest s))) /\
  rv_after rv0 (hookpart s) = vh s.
Proof.
  intros W. rewrite hookpart_ran, !proj_app, !rv_after_app.
  destruct (hooks_absent rv0 eq_refl (ran_pre s) 0%nat) as [A1 A2]. rewrite A1, A2.
  unfold vh. destruct (regran s).
  - change (rv_after rv0 [ERegInsert]) with (mkRv true []). change (proj rv0 [ERegInsert]) with (@nil hev).
    destruct (hooks_present (ran_rest s) (length (s_pre s)) (mkRv true []) eq_refl) as [B1 B2].
    { cbn [rv_keys app]. exact (nodup_ran_rest s W). }
    rewrite B1, B2. split; reflexivity.
  - change (rv_after rv0 []) with rv0. change (proj rv0 []) with (@nil hev).
    destruct (hooks_absent rv0 eq_refl (ran_rest s) (length (s_pre s))) as [B1 B2].
    rewrite B1, B2. split; reflexivity.
Qed.

Lemma proj_exit_part v s :
  proj v (exit_part s) = (if negb (panics s) && (is_POff (s_phase s) && token_cause (s_cause s)) then [HK] else []) /\
  rv_after v (exit_part s) = v.
Proof.
  unfold exit_part, panics. destruct (panic_idx (script s)); [split; reflexivity|]. cbn [negb andb]. apply proj_body.
Qed.

Lemma proj_drop v s :
  proj v (drop_evs s) =
    (if off_pending s then [HK] else []) ++
    map (fun j => HD j (rv_present v) (N.of_nat (length (rv_keys v)))) (seq 0 (s_dpre s)) ++
    map (fun j => HD j (rv_present (if s_reg s then mkRv false [] else v))
                       (N.of_nat (length (rv_keys (if s_reg s then mkRv false [] else v))))) (seq (s_dpre s) (s_dpost s)) /\
  rv_after v (drop_evs s) = (if s_reg s then mkRv false [] else v).
Proof.
  unfold drop_evs. change (ECancel :: ?l) with ([ECancel] ++ l).
  rewrite !proj_app, !rv_after_app. change (rv_after v [ECancel]) with v. change (proj v [ECancel]) with (@nil hev).
  assert (O : proj v (if off_pending s then [EOffSeesCancel] else []) = (if off_pending s then [HK] else []) /\
              rv_after v (if off_pending s then [EOffSeesCancel] else []) = v) by (destruct (off_pending s); split; reflexivity).
  destruct O as [O1 O2]. rewrite O1, O2.
  destruct (proj_disc v (s_dpre s) 0%nat) as [D1 D2]. rewrite D1, D2.
  assert (R : proj v (if s_reg s then [ERegRemove] else []) = [] /\
              rv_after v (if s_reg s then [ERegRemove] else []) = (if s_reg s then mkRv false [] else v))
    by (destruct (s_reg s); split; reflexivity).
  destruct R as [R1 R2]. rewrite R1, R2.
  destruct (proj_disc (if s_reg s then mkRv false [] else v) (s_dpost s) (s_dpre s)) as [E1 E2]. rewrite E1, E2.
  split; reflexivity.
Qed.

Definition hk (s : scenario) : list hev := if is_POff (s_phase s) && negb (panics s) then [HK] else [].
Definition akn (s : scenario) : N := N.of_nat (length (rv_keys (vh s))).

Definition model_trace (s : scenario) : list hev :=
  map (fun i => HC i false) (seq 0 (length (ran_pre s))) ++
  map (fun i => HC i (regran s)) (seq (length (s_pre s)) (length (ran_rest s))) ++
  hk s ++
  map (fun j => HD j (regran s) (akn s)) (seq 0 (s_dpre s)) ++
  map (fun j => HD j false 0) (seq (s_dpre s) (s_dpost s)).

Lemma proj_run s : c15_wf s = true -> s_hs s = true ->
  proj rv0 (run s) = model_trace s /\ rv_after rv0 (run s) = mkRv false [].
Proof.
  intros W H. rewrite (run_ok s H).
  change (EHandshake true :: EGuardBuilt :: pre_part s ++ drop_evs s) with ([EHandshake true; EGuardBuilt] ++ pre_part s ++ drop_evs s).
  unfold pre_part. rewrite !proj_app, !rv_after_app.
  change (rv_after rv0 [EHandshake true; EGuardBuilt]) with rv0.
  change (proj rv0 [EHandshake true; EGuardBuilt]) with (@nil hev).
  assert (A : proj rv0 (arrive_part s) = [] /\ rv_after rv0 (arrive_part s) = rv0)
    by (unfold arrive_part; destruct (is_PHooks (s_phase s)); split; reflexivity).
  destruct A as [A1 A2]. rewrite A1, A2.
  destruct (proj_hookpart s W) as [H1 H2]. rewrite H1, H2.
  destruct (proj_exit_part (vh s) s) as [X1 X2]. rewrite X1, X2.
  destruct (proj_drop (vh s) s) as [D1 D2]. rewrite D1, D2.
  assert (V : (if s_reg s then mkRv false [] else vh s) = mkRv false []).
  { destruct (s_reg s) eqn:R; [reflexivity|]. unfold vh, regran. rewrite R. reflexivity. }
  rewrite V. split; [|reflexivity].
  unfold model_trace, akn. cbn [app rv_present rv_keys length N.of_nat]. rewrite <- !app_assoc. do 2 f_equal.
  rewrite !app_assoc. do 2 f_equal.
  unfold hk, off_pending, panics. destruct (panic_idx (script s)); destruct (is_POff (s_phase s));
    destruct (token_cause (s_cause s)); reflexivity.
Qed.

(** * the oracle accepts the model *)

Lemma hc_map_HC p l : hc_indices (map (fun i => HC i p) l) = l.
Proof. induction l as [|x l IH]; [reflexivity|]. cbn [map hc_indices flat_map app] in *. unfold hc_indices in IH. rewrite IH. reflexivity. Qed.
Lemma hc_map_HD p a l : hc_indices (map (fun j => HD j p a) l) = [].
Proof. induction l as [|x l IH]; [reflexivity|]. cbn [map hc_indices flat_map app] in *. exact IH. Qed.
Lemma hd_map_HC p l : hd_indices (map (fun i => HC i p) l) = [].
Proof. induction l as [|x l IH]; [reflexivity|]. cbn [map hd_indices flat_map app] in *. exact IH. Qed.
Lemma hd_map_HD p a l : hd_indices (map (fun j => HD j p a) l) = l.
Proof. induction l as [|x l IH]; [reflexivity|]. cbn [map hd_indices flat_map app] in *. unfold hd_indices in IH. rewrite IH. reflexivity. Qed.
Lemma hc_app a b : hc_indices (a ++ b) = hc_indices a ++ hc_indices b.
Proof. apply flat_map_app. Qed.
Lemma hd_app a b : hd_indices (a ++ b) = hd_indices a ++ hd_indices b.
Proof. apply flat_map_app. Qed.
Lemma hc_hk s : hc_indices (hk s) = [].
Proof. unfold hk. destruct (is_POff (s_phase s) && negb (panics s)); reflexivity. Qed.
Lemma hd_hk s : hd_indices (hk s) = [].
Proof. unfold hk. destruct (is_POff (s_phase s) && negb (panics s)); reflexivity. Qed.

Lemma ran_seq s :
  seq 0 (length (ran_pre s)) ++ seq (length (s_pre s)) (length (ran_rest s)) = seq 0 (nran s).
Proof.
  unfold nran. rewrite seq_app. destruct (ran_cases s) as [[_ [E _]]|[_ [E _]]].
  - rewrite E. reflexivity.
  - rewrite E. reflexivity.
Qed.

Lemma hc_model s : hc_indices (model_trace s) = seq 0 (nran s).
Proof.
  unfold model_trace. rewrite !hc_app, !hc_map_HC, !hc_map_HD, hc_hk, !app_nil_r. apply ran_seq.
Qed.

Lemma hd_model s : hd_indices (model_trace s) = seq 0 (ndisc s).
Proof.
  unfold model_trace, ndisc. rewrite !hd_app, !hd_map_HC, !hd_map_HD, hd_hk. cbn [app].
  rewrite seq_app. reflexivity.
Qed.

Lemma nat_list_eqb_refl l : nat_list_eqb l l = true.
Proof. apply list_eqb_refl. apply Nat.eqb_refl. Qed.

Lemma order_ok_skip a b : forallb (fun e => negb (is_hd e)) a = true -> order_ok (a ++ b) = order_ok b.
Proof.
  induction a as [|e a IH]; intros H; [reflexivity|]. cbn [forallb] in H. apply andb_true_iff in H. destruct H as [H1 H2].
  destruct e; try discriminate H1; cbn [app order_ok]; exact (IH H2).
Qed.

Lemma order_ok_all_hd l : forallb is_hd l = true -> order_ok l = true.
Proof. destruct l as [|e l]; intros H; [reflexivity|]. cbn [forallb] in H. apply andb_true_iff in H. destruct H as [H1 H2]. destruct e; try discriminate H1. exact H2. Qed.

Lemma order_model s : order_ok (model_trace s) = true.
Proof.
  unfold model_trace.
  rewrite order_ok_skip by (apply forallb_map_const; reflexivity).
  rewrite order_ok_skip by (apply forallb_map_const; reflexivity).
  rewrite order_ok_skip by (unfold hk; destruct (is_POff (s_phase s) && negb (panics s)); reflexivity).
  apply order_ok_all_hd. rewrite forallb_app, !forallb_map_const by reflexivity. reflexivity.
Qed.

Lemma forallb_map {A B} (P : B -> bool) (f : A -> B) l : forallb P (map f l) = forallb (fun x => P (f x)) l.
Proof. induction l as [|x l IH]; [reflexivity|]. cbn [map forallb]. rewrite IH. reflexivity. Qed.

Lemma length_alias_keys l : length (alias_keys l) = length (filter is_alias l).
Proof. induction l as [|h l IH]; [reflexivity|]. rewrite alias_keys_cons. destruct h; cbn [filter is_alias length]; rewrite IH; reflexivity. Qed.

Lemma filter_alias_none l : existsb is_alias l = false -> filter is_alias l = [].
Proof.
  induction l as [|h l IH]; intros H; [reflexivity|]. cbn [existsb] in H. apply orb_false_iff in H. destruct H as [H1 H2].
  cbn [filter]. rewrite H1. exact (IH H2).
Qed.

Lemma inserted_regran s : inserted s (nran s) = regran s.
Proof.
  unfold inserted, regran, nran. fold (pre_panics s).
  destruct (ran_cases s) as [[E1 _]|[E1 [E2 _]]].
  - rewrite E1. cbn [negb]. rewrite !andb_false_r. reflexivity.
  - rewrite E1, E2. cbn [negb]. rewrite !andb_true_r.
    destruct (Nat.leb_spec (length (s_pre s)) (length (s_pre s) + length (ran_rest s))); [|lia]. rewrite andb_true_r. reflexivity.
Qed.

Lemma akn_spec s : c15_wf s = true -> regran s = true -> akn s = nalias (firstn (nran s) (oh s)).
Proof.
  intros W R. destruct (wf_parts s W) as [NA _]. unfold akn, vh, nalias. rewrite R. cbn [rv_keys].
  rewrite firstn_oh, filter_app, app_length, length_alias_keys.
  destruct (ran_cases s) as [[_ [_ E]]|[_ [E _]]]; [congruence|].
  rewrite E, (filter_alias_none _ NA). reflexivity.
Qed.

Lemma samples_model s : c15_wf s = true -> forallb (sample_ok s (nran s)) (model_trace s) = true.
Proof.
  intros W. unfold model_trace. rewrite !forallb_app, !forallb_map. repeat (apply andb_true_iff; split).
  - apply forallb_forall. intros i Hi. apply in_seq in Hi. cbn [sample_ok].
    pose proof (cut_length (s_pre s)) as L. unfold ran_pre in Hi.
    destruct (Nat.leb_spec (length (s_pre s)) i); [lia|]. rewrite andb_false_r. reflexivity.
  - apply forallb_forall. intros i Hi. apply in_seq in Hi. cbn [sample_ok].
    destruct (Nat.leb_spec (length (s_pre s)) i); [|lia]. rewrite andb_true_r.
    destruct (ran_cases s) as [[_ [E _]]|[_ [_ E]]].
    + rewrite E in Hi. cbn [length] in Hi. lia.
    + rewrite E. apply Bool.eqb_reflx.
  - unfold hk. destruct (is_POff (s_phase s) && negb (panics s)); reflexivity.
  - apply forallb_forall. intros j Hj. apply in_seq in Hj. cbn [sample_ok]. rewrite inserted_regran.
    destruct (Nat.ltb_spec j (s_dpre s)); [|lia]. rewrite andb_true_r, Bool.eqb_reflx. cbn [andb].
    destruct (regran s) eqn:R.
    + rewrite (akn_spec s W R). apply N.eqb_refl.
    + unfold akn, vh. rewrite R. reflexivity.
  - apply forallb_forall. intros j Hj. apply in_seq in Hj. cbn [sample_ok].
    destruct (Nat.ltb_spec j (s_dpre s)); [lia|]. rewrite andb_false_r. reflexivity.
Qed.

(** ** the wire *)

Definition is_WN (f : wframe) : bool := match f with WN _ _ => true | _ => false end.

Lemma expected_all_WN : forall hs i, forallb is_WN (expected_notifies i hs) = true.
Proof.
  induction hs as [|h r IH]; intros i; [reflexivity|]. cbn [expected_notifies]. rewrite forallb_app, IH, andb_true_r.
  destruct h; try reflexivity. apply forallb_map_const. reflexivity.
Qed.

Lemma expected_app : forall a i b, expected_notifies i (a ++ b) = expected_notifies i a ++ expected_notifies (i + length a) b.
Proof.
  induction a as [|h a IH]; intros i b; [cbn [app length expected_notifies]; rewrite Nat.add_0_r; reflexivity|].
  cbn [app expected_notifies length]. rewrite IH, <- app_assoc. do 2 f_equal. f_equal. lia.
Qed.

Lemma wire_of_number : forall hs i, map wframe_of (flat_map cstep_notifies (number i hs)) = expected_notifies i hs.
Proof.
  induction hs as [|h r IH]; intros i; [reflexivity|]. cbn [number flat_map expected_notifies].
  rewrite map_app, IH. f_equal. destruct h; try reflexivity. cbn [cstep_notifies]. rewrite map_map. reflexivity.
Qed.

Lemma wire_hook_notifies s : map wframe_of (hook_notifies s) = expected_notifies 0 (ran_pre s ++ ran_rest s).
Proof.
  unfold hook_notifies. rewrite script_ran, !flat_map_app, !map_app, !wire_of_number, expected_app.
  replace (flat_map cstep_notifies (if regran s then [CReg] else [])) with (@nil omsg) by (destruct (regran s); reflexivity).
  cbn [map app Nat.add]. destruct (ran_cases s) as [[_ [E _]]|[_ [E _]]]; rewrite E; reflexivity.
Qed.

Lemma upto_resp_WN l r : forallb is_WN l = true -> upto_resp (l ++ r) = l ++ upto_resp r.
Proof.
  induction l as [|f l IH]; intros H; [reflexivity|]. cbn [forallb] in H. apply andb_true_iff in H. destruct H as [H1 H2].
  destruct f; try discriminate H1. cbn [app upto_resp]. rewrite (IH H2). reflexivity.
Qed.

Lemma wframe_eqb_refl f : wframe_eqb f f = true.
Proof. destruct f; cbn [wframe_eqb]; [rewrite Nat.eqb_refl, N.eqb_refl|..]; reflexivity. Qed.

Lemma wire_ok_prefix exp : forallb is_WN exp = true -> wire_ok exp exp = true.
Proof.
  induction exp as [|f l IH]; intros H; [reflexivity|]. cbn [forallb] in H. apply andb_true_iff in H. destruct H as [H1 H2].
  destruct f; try discriminate H1. cbn [wire_ok]. rewrite (wframe_eqb_refl (WN hook q)), (IH H2). reflexivity.
Qed.

Lemma wire_ok_complete exp : forallb is_WN exp = true -> wire_ok exp (exp ++ [WR]) = true.
Proof.
  induction exp as [|f l IH]; intros H; [reflexivity|]. cbn [forallb] in H. apply andb_true_iff in H. destruct H as [H1 H2].
  destruct f; try discriminate H1. cbn [app wire_ok]. rewrite (wframe_eqb_refl (WN hook q)), (IH H2). reflexivity.
Qed.

Lemma pings_first n : 1 <= n -> exists r, pings n = ERequest 0 :: EQueue (OResponse 0) :: r.
Proof.
  intros H. unfold pings, nseq. destruct (N.to_nat n) as [|m] eqn:E; [lia|].
  cbn [seq map flat_map app N.of_nat]. eexists. reflexivity.
Qed.

Lemma outq_body_first s : is_PHooks (s_phase s) = false -> 1 <= s_reqs s ->
  exists r, outq (body s) = OResponse 0 :: r.
Proof.
  intros P H. destruct (pings_first _ H) as [r Hr]. unfold body.
  destruct (s_phase s); try discriminate P; rewrite Hr; cbn [app outq flat_map]; eexists; reflexivity.
Qed.

Lemma wire_model s : c15_wf s = true -> s_hs s = true ->
  wire_ok (expected_notifies 0 (firstn (nran s) (oh s))) (upto_resp (map wframe_of (outq (run s)))) = true.
Proof.
  intros W H. destruct (wf_parts s W) as [_ [_ PH]].
  rewrite (outq_run s H), map_app, wire_hook_notifies, firstn_oh.
  pose proof (expected_all_WN (ran_pre s ++ ran_rest s) 0%nat) as A.
  rewrite (upto_resp_WN _ _ A).
  unfold exit_part. destruct (panic_idx (script s)).
  - cbn [outq flat_map map upto_resp app]. rewrite app_nil_r. exact (wire_ok_prefix _ A).
  - destruct (is_PHooks (s_phase s)) eqn:P.
    + destruct PH as [T R]. unfold body. destruct (s_phase s); try discriminate P. rewrite T.
      cbn [outq flat_map map upto_resp app]. rewrite app_nil_r. exact (wire_ok_prefix _ A).
    + destruct (outq_body_first s P PH) as [r Hr]. rewrite Hr. cbn [map wframe_of upto_resp].
      exact (wire_ok_complete _ A).
Qed.

(** ** the parked handler *)

Definition is_HK (e : hev) : bool := match e with HK => true | _ => false end.

Lemma offsees_proj : forall l v, existsb is_offsees l = existsb is_HK (proj v l).
Proof.
  induction l as [|e l IH]; intros v; [reflexivity|]. cbn [existsb proj].
  destruct e; cbn [is_offsees existsb is_HK orb]; try reflexivity; apply IH.
Qed.

Lemma existsb_map_false {A B} (P : B -> bool) (f : A -> B) l : (forall x, P (f x) = false) -> existsb P (map f l) = false.
Proof. intros H. induction l as [|x l IH]; [reflexivity|]. cbn [map existsb]. rewrite H, IH. reflexivity. Qed.

Lemma offsees_model s : existsb is_HK (model_trace s) = is_POff (s_phase s) && negb (panics s).
Proof.
  unfold model_trace. rewrite !existsb_app', !existsb_map_false by reflexivity. cbn [orb]. rewrite orb_false_r.
  unfold hk. destruct (is_POff (s_phase s) && negb (panics s)); reflexivity.
Qed.

Definition not_offstart (e : ev) : bool := negb (is_offstart e).

Lemma no_offstart l : forallb not_offstart l = true -> existsb is_offstart l = false.
Proof.
  induction l as [|e l IH]; intros H; [reflexivity|]. cbn [forallb] in H. apply andb_true_iff in H. destruct H as [H1 H2].
  cbn [existsb]. rewrite (IH H2). unfold not_offstart in H1. destruct (is_offstart e); [discriminate H1|reflexivity].
Qed.

Lemma not_offstart_pings n : forallb not_offstart (pings n) = true.
Proof. unfold pings. rewrite forallb_flat_map. apply forallb_forall. intros x _. reflexivity. Qed.

Lemma not_offstart_hookpart s : forallb not_offstart (hookpart s) = true.
Proof.
  unfold hookpart. rewrite forallb_flat_map. apply forallb_forall. intros c _.
  destruct c as [i h|]; [|reflexivity]. cbn [cstep_evs forallb]. destruct h; try reflexivity.
  cbn [hact_evs not_offstart is_offstart negb andb]. apply forallb_map_const. reflexivity.
Qed.

Lemma not_offstart_disc k n : forallb not_offstart (disc_evs k n) = true.
Proof. revert k. induction n as [|n IH]; intros k; [reflexivity|]. cbn [disc_evs forallb]. rewrite IH. reflexivity. Qed.

Lemma not_offstart_drop s : forallb not_offstart (drop_evs s) = true.
Proof.
  unfold drop_evs. cbn [forallb]. rewrite !forallb_app, !not_offstart_disc.
  destruct (off_pending s); destruct (s_reg s); reflexivity.
Qed.

Lemma not_offstart_body s : is_POff (s_phase s) = false -> forallb not_offstart (body s) = true.
Proof.
  intros P. unfold body. rewrite forallb_app. apply andb_true_iff. split; [|reflexivity].
  destruct (s_phase s); try discriminate P.
  - cbn [forallb]. rewrite forallb_app, not_offstart_pings. reflexivity.
  - cbn [forallb]. rewrite !forallb_app, not_offstart_pings. destruct (s_cause s); reflexivity.
  - cbn [forallb]. rewrite !forallb_app, not_offstart_pings. cbn [forallb andb].
    rewrite forallb_map_const by reflexivity. reflexivity.
  - destruct (token_cause (s_cause s)); [reflexivity|]. cbn [forallb]. rewrite not_offstart_pings. reflexivity.
Qed.

Lemma offstart_run s : s_hs s = true -> existsb is_offstart (run s) = true ->
  is_POff (s_phase s) && negb (panics s) = true.
Proof.
  intros H E. destruct (is_POff (s_phase s) && negb (panics s)) eqn:X; [reflexivity|exfalso].
  rewrite (run_ok s H) in E. cbn [existsb is_offstart orb] in E. unfold pre_part in E.
  rewrite !existsb_app' in E.
  rewrite (no_offstart _ (not_offstart_hookpart s)), (no_offstart _ (not_offstart_drop s)) in E.
  assert (A : existsb is_offstart (arrive_part s) = false) by (unfold arrive_part; destruct (is_PHooks (s_phase s)); reflexivity).
  rewrite A in E. cbn [orb] in E. rewrite orb_false_r in E.
  unfold exit_part, panics in *. destruct (panic_idx (script s)); [discriminate E|].
  cbn [negb] in X. rewrite andb_true_r in X. rewrite (no_offstart _ (not_offstart_body s X)) in E. discriminate E.
Qed.

Lemma seen_model s : c15_wf s = true -> s_hs s = true ->
  match o_seen (model_C15 s) with Some false => false | _ => true end = true.
Proof.
  intros W H. unfold model_C15, observe_run. cbn [o_seen].
  destruct (existsb is_offstart (run s)) eqn:E; [|reflexivity].
  rewrite (offsees_proj (run s) rv0). destruct (proj_run s W H) as [T _]. rewrite T, offsees_model.
  rewrite (offstart_run s H E). reflexivity.
Qed.

(** ** assembly *)

Lemma ok_model_C15 s : c15_wf s = true -> ok_C15 s (model_C15 s) = true.
Proof.
  intros W. unfold ok_C15. destruct (s_hs s) eqn:H.
  - pose proof (seen_model s W H) as S. pose proof (wire_model s W H) as Wi.
    unfold model_C15, observe_run in *. cbn [o_trace o_after o_wire o_seen fst snd] in *.
    destruct (proj_run s W H) as [T V]. rewrite T, V.
    rewrite hc_model, seq_length, hd_model, !nat_list_eqb_refl, order_model, (samples_model s W).
    cbn [rv_present rv_keys length N.of_nat negb andb].
    destruct (Nat.leb_spec (nran s) (length (oh s))) as [_|L]; [|pose proof (nran_le s); lia].
    rewrite Wi, S. reflexivity.
  - unfold model_C15. rewrite (run_fail s H). reflexivity.
Qed.

(** the registry samples taken inside the callbacks and after the connection:
    present exactly from the insert hook to the remove hook, aliases too *)
Lemma registry_window s : c15_wf s = true -> s_hs s = true ->
  forallb (sample_ok s (length (hc_indices (o_trace (model_C15 s))))) (o_trace (model_C15 s)) = true /\
  o_after (model_C15 s) = (false, 0).
Proof.
  intros W H. unfold model_C15, observe_run. cbn [o_trace o_after].
  destruct (proj_run s W H) as [T V]. rewrite T, V, hc_model, seq_length. split; [exact (samples_model s W)|reflexivity].
Qed.

Lemma registry_view_sound id tr st : spec_inv st -> memN id (s_present st) = false ->
  (forall k, sp_lookup st k <> Some id) ->
  memN id (s_present (reg_after id st tr)) = rv_present (rv_after rv0 tr) /\
  (forall k, sp_lookup (reg_after id st tr) k = Some id <-> In k (rv_keys (rv_after rv0 tr))).
Proof.
  intros I P K. destruct (agrees_after id tr st rv0 (agrees_init id st I P K)) as [_ [A B]]. split; [exact A|exact B].
Qed.

Lemma disconnect_once s j : s_hs s = true ->
  length (filter (is_disc_j j) (run s)) = (if (j <? ndisc s)%nat then 1%nat else 0%nat) /\
  (forall pre post, run s = pre ++ EDisconnect j :: post -> forall e, In e post -> is_connect e = false).
Proof.
  intros H. split; [exact (disconnect_count s j H)|]. intros pre post E. exact (disconnect_after_connects s j pre post H E).
Qed.

(** * a connection that survives a sibling *)

Lemma sibling_independent s b :
  run (set_sibling b s) = run s /\ model_C15 (set_sibling b s) = model_C15 s /\ model_mid (set_sibling b s) = model_mid s.
Proof. destruct s. repeat split; reflexivity. Qed.

Lemma hookpart_forall (P : ev -> bool) s :
  (forall i, P (EConnect i) = true) -> P ERegInsert = true -> (forall k, P (ERegAlias k) = true) ->
  (forall m, P (EQueue m) = true) -> forallb P (hookpart s) = true.
Proof.
  intros H1 H2 H3 H4. unfold hookpart. rewrite forallb_flat_map. apply forallb_forall. intros c _.
  destruct c as [i h|]; cbn [cstep_evs forallb]; [|rewrite H2; reflexivity].
  rewrite H1. cbn [andb]. destruct h; cbn [hact_evs forallb]; try reflexivity.
  - apply forallb_map_const. intros q. apply H4.
  - rewrite H3. reflexivity.
Qed.

Lemma pings_forall (P : ev -> bool) n :
  (forall id, P (ERequest id) = true) -> (forall m, P (EQueue m) = true) -> forallb P (pings n) = true.
Proof.
  intros H1 H2. unfold pings. rewrite forallb_flat_map. apply forallb_forall. intros x _.
  cbn [forallb]. rewrite H1, H2. reflexivity.
Qed.

Lemma before_arrive_app a b :
  forallb (fun e => negb (is_arrive e)) a = true -> before_arrive (a ++ b) = a ++ before_arrive b.
Proof.
  induction a as [|e a IH]; intros H; [reflexivity|]. cbn [forallb] in H. apply andb_true_iff in H. destruct H as [H1 H2].
  cbn [app before_arrive]. destruct (is_arrive e); [discriminate H1|]. rewrite (IH H2). reflexivity.
Qed.

(** the events of a surviving connection up to the moment its own cause is raised *)
Definition mid_tail (s : scenario) : list ev :=
  EReaderStart :: pings (s_reqs s) ++ (if is_POff (s_phase s) then [ERequest (s_reqs s); EOffStart] else []).
Definition mid_prefix (s : scenario) : list ev := [EHandshake true; EGuardBuilt] ++ hookpart s ++ mid_tail s.

Lemma stag_parts s : c15_stag_wf s = true ->
  c15_wf s = true /\ s_hs s = true /\ existsb is_panic (s_pre s ++ s_post s ++ s_xh s) = false /\
  (s_phase s = PIdle \/ s_phase s = POffReader).
Proof.
  unfold c15_stag_wf. intros H. rewrite !andb_true_iff in H. destruct H as [[[H1 H2] H3] H4].
  split; [exact H1|]. split; [exact H2|]. split.
  - destruct (existsb is_panic (s_pre s ++ s_post s ++ s_xh s)); [discriminate H3|reflexivity].
  - destruct (s_phase s); try discriminate H4; [left|right]; reflexivity.
Qed.

Lemma stag_nopanic s : existsb is_panic (s_pre s ++ s_post s ++ s_xh s) = false ->
  pre_panics s = false /\ existsb is_panic (s_post s ++ eff_xh s) = false /\ panic_idx (script s) = None.
Proof.
  intros H. rewrite !existsb_app' in H. apply orb_false_iff in H. destruct H as [H1 H2].
  apply orb_false_iff in H2. destruct H2 as [H2 H3].
  assert (E : existsb is_panic (s_post s ++ eff_xh s) = false).
  { rewrite existsb_app', H2. unfold eff_xh. destruct (s_ctx s); [exact H3|reflexivity]. }
  split; [exact H1|]. split; [exact E|].
  apply panic_idx_none. unfold script. rewrite !existsb_app', !panic_number, H1, E.
  destruct (s_reg s); reflexivity.
Qed.

Lemma before_arrive_run s : c15_stag_wf s = true ->
  before_arrive (run s) = mid_prefix s /\ exists rest, run s = mid_prefix s ++ EArrive (s_cause s) :: rest.
Proof.
  intros W. destruct (stag_parts s W) as [_ [H [NP PH]]]. destruct (stag_nopanic s NP) as [_ [_ PI]].
  assert (A : arrive_part s = []) by (unfold arrive_part; destruct PH as [E|E]; rewrite E; reflexivity).
  assert (B : exists rest, body s = mid_tail s ++ EArrive (s_cause s) :: rest).
  { unfold body, mid_tail. destruct PH as [E|E]; rewrite E; cbn [is_POff app].
    - rewrite app_nil_r, <- !app_assoc. cbn [app]. eexists. reflexivity.
    - exists ((if token_cause (s_cause s) then [EOffSeesCancel] else []) ++ [EExit (XCause (s_cause s))]).
      rewrite <- !app_assoc. reflexivity. }
  destruct B as [rest B].
  assert (R : run s = mid_prefix s ++ EArrive (s_cause s) :: rest ++ drop_evs s).
  { rewrite (run_ok s H). unfold pre_part, exit_part, mid_prefix. rewrite A, PI, B. cbn [app]. rewrite <- !app_assoc. reflexivity. }
  split; [|eexists; exact R].
  rewrite R. rewrite before_arrive_app; [cbn [before_arrive is_arrive]; apply app_nil_r|].
  unfold mid_prefix, mid_tail. rewrite !forallb_app. cbn [forallb is_arrive negb andb].
  rewrite (hookpart_forall (fun e => negb (is_arrive e)) s) by reflexivity.
  rewrite forallb_app, (pings_forall (fun e => negb (is_arrive e))) by reflexivity.
  destruct (is_POff (s_phase s)); reflexivity.
Qed.

Lemma mid_prefix_head s : c15_stag_wf s = true -> forall e, In e (mid_prefix s) -> In e (head_part s).
Proof.
  intros W e He. destruct (stag_parts s W) as [_ [_ [NP PH]]]. destruct (stag_nopanic s NP) as [_ [_ PI]].
  unfold head_part, pre_part, exit_part. rewrite PI. unfold mid_prefix in He. cbn [app] in He.
  destruct He as [He|[He|He]]; [left; exact He|right; left; exact He|]. right. right.
  apply in_or_app. right. apply in_app_or in He. apply in_or_app. destruct He as [He|He]; [left; exact He|right].
  unfold mid_tail in He. unfold body. apply in_or_app. left.
  destruct PH as [E|E]; rewrite E in *; cbn [is_POff] in He.
  - rewrite app_nil_r in He. destruct He as [He|He]; [left; exact He|right]. apply in_or_app. left. exact He.
  - destruct He as [He|He]; [left; exact He|right]. apply in_app_or in He. apply in_or_app.
    destruct He as [He|He]; [left; exact He|right]. apply in_or_app. left.
    destruct He as [He|[He|[]]]; [left; exact He|right; left; exact He].
Qed.

(** nothing of the guard's drop, and no cancellation, has happened to a survivor *)
Lemma survivor_untouched s : c15_stag_wf s = true ->
  (exists rest, run s = before_arrive (run s) ++ EArrive (s_cause s) :: rest) /\
  (forall e, In e (before_arrive (run s)) -> guard_side e = false /\ is_offsees e = false).
Proof.
  intros W. destruct (before_arrive_run s W) as [E [rest R]]. rewrite E. split; [exists rest; exact R|].
  intros e He. split; [exact (head_part_In s e (mid_prefix_head s W e He))|].
  unfold mid_prefix in He. cbn [app] in He. destruct He as [He|[He|He]]; [subst e; reflexivity|subst e; reflexivity|].
  apply in_app_or in He. destruct He as [He|He].
  - pose proof (forallb_In _ _ _ (hookpart_forall (fun e => negb (is_offsees e)) s (fun _ => eq_refl) eq_refl (fun _ => eq_refl) (fun _ => eq_refl)) He) as X; cbv beta in X.
    destruct (is_offsees e); [discriminate X|reflexivity].
  - unfold mid_tail in He. destruct He as [He|He]; [subst e; reflexivity|]. apply in_app_or in He. destruct He as [He|He].
    + pose proof (forallb_In _ _ _ (pings_forall (fun e => negb (is_offsees e)) (s_reqs s) (fun _ => eq_refl) (fun _ => eq_refl)) He) as X; cbv beta in X.
      destruct (is_offsees e); [discriminate X|reflexivity].
    + destruct (is_POff (s_phase s)); [|destruct He]. destruct He as [He|[He|[]]]; subst e; reflexivity.
Qed.

Lemma existsb_none {A} (P : A -> bool) l : (forall x, In x l -> P x = false) -> existsb P l = false.
Proof.
  induction l as [|x l IH]; intros H; [reflexivity|]. cbn [existsb].
  rewrite (H x (or_introl eq_refl)), IH; [reflexivity|]. intros y Hy. apply H. right. exact Hy.
Qed.

Lemma rv_mid_prefix s : c15_wf s = true -> rv_after rv0 (mid_prefix s) = vh s.
Proof.
  intros W. unfold mid_prefix. rewrite !rv_after_app. change (rv_after rv0 [EHandshake true; EGuardBuilt]) with rv0.
  destruct (proj_hookpart s W) as [_ V]. rewrite V.
  apply (proj_inert (mid_tail s) (vh s)). unfold mid_tail. cbn [forallb inert andb]. rewrite forallb_app, inert_pings.
  destruct (is_POff (s_phase s)); reflexivity.
Qed.

Lemma ok_model_mid s : c15_stag_wf s = true -> ok_mid s (model_mid s) = true.
Proof.
  intros W. destruct (stag_parts s W) as [W0 [H [NP PH]]]. destruct (stag_nopanic s NP) as [PP [PR PI]].
  destruct (survivor_untouched s W) as [_ U]. destruct (before_arrive_run s W) as [E _].
  unfold model_mid, observe_mid, ok_mid. cbn [m_disc m_present m_aliases m_seen m_alive m_trigger m_new].
  rewrite (filter_none is_disc_ev (before_arrive (run s))).
  2:{ intros e He. destruct (U e He) as [G _]. unfold guard_side in G. destruct e; try reflexivity. discriminate G. }
  rewrite (existsb_none is_cancel_ev (before_arrive (run s))).
  2:{ intros e He. destruct (U e He) as [G _]. unfold guard_side in G. destruct e; try reflexivity. discriminate G. }
  rewrite (existsb_none is_offsees (before_arrive (run s))) by (intros e He; exact (proj2 (U e He))).
  rewrite E, (rv_mid_prefix s W0).
  assert (IN : inserted s (length (oh s)) = s_reg s).
  { unfold inserted. fold (pre_panics s). rewrite PP. unfold oh. rewrite app_length.
    destruct (Nat.leb_spec (length (s_pre s)) (length (s_pre s) + length (s_post s ++ eff_xh s))); [|lia].
    cbn [negb]. rewrite !andb_true_r. reflexivity. }
  assert (RG : regran s = s_reg s) by (unfold regran; rewrite PP, andb_true_r; reflexivity).
  assert (RR : ran_rest s = s_post s ++ eff_xh s) by (unfold ran_rest; rewrite PP; exact (cut_nopanic _ PR)).
  rewrite IN. unfold vh. rewrite RG. cbn [rv_present rv_keys length N.of_nat N.eqb]. rewrite Bool.eqb_reflx.
  assert (AL : N.of_nat (length (if s_reg s then alias_keys (ran_rest s) else [])) = (if s_reg s then nalias (oh s) else 0)).
  { destruct (s_reg s); [|reflexivity]. destruct (wf_parts s W0) as [NA _].
    unfold nalias, oh. rewrite RR, filter_app, (filter_alias_none _ NA), length_alias_keys. reflexivity. }
  rewrite AL, !N.eqb_refl.
  assert (EX : existsb is_exit_ev (mid_prefix s) = false).
  { unfold mid_prefix, mid_tail. rewrite !existsb_app'. cbn [existsb is_exit_ev orb].
    assert (X1 : existsb is_exit_ev (hookpart s) = false).
    { apply existsb_none. intros e He.
      pose proof (forallb_In _ _ _ (hookpart_forall (fun e => negb (is_exit_ev e)) s (fun _ => eq_refl) eq_refl (fun _ => eq_refl) (fun _ => eq_refl)) He) as X; cbv beta in X.
      destruct (is_exit_ev e); [discriminate X|reflexivity]. }
    assert (X2 : existsb is_exit_ev (pings (s_reqs s)) = false).
    { apply existsb_none. intros e He.
      pose proof (forallb_In _ _ _ (pings_forall (fun e => negb (is_exit_ev e)) (s_reqs s) (fun _ => eq_refl) (fun _ => eq_refl)) He) as X; cbv beta in X.
      destruct (is_exit_ev e); [discriminate X|reflexivity]. }
    rewrite ?existsb_app', X1, X2. destruct (is_POff (s_phase s)); reflexivity. }
  assert (RD : existsb is_reader_ev (mid_prefix s) = true).
  { unfold mid_prefix, mid_tail. rewrite !existsb_app'. cbn [existsb is_reader_ev orb]. rewrite orb_true_r. reflexivity. }
  rewrite EX, RD. cbn [negb andb].
  destruct (existsb is_offstart (mid_prefix s)); reflexivity.
Qed.
