(** Proofs about the BEVE numeric-array model (Model/Beve.v): the SIZE codec,
    bulk = generic, cross decoding, bit exactness, the streaming writers, the
    aligned form and the borrowing route, rejection of wrong types/formats. *)
From RepeV Require Import Model.Beve Proofs.HeaderProofs Proofs.MessageProofs.
From Coq Require Import ZifyBool ZifyN ZifyNat.
Ltac Zify.zify_post_hook ::= Z.div_mod_to_equations.

(** * generic list lemmas *)
Lemma firstn_app_exact {A} (a b : list A) n : length a = n -> firstn n (a ++ b) = a.
Proof.
  intros <-. rewrite firstn_app, Nat.sub_diag, firstn_O, app_nil_r. apply firstn_all.
Qed.

Lemma skipn_app_exact {A} (a b : list A) n : length a = n -> skipn n (a ++ b) = b.
Proof.
  intros <-. rewrite skipn_app, Nat.sub_diag, skipn_all. reflexivity.
Qed.

Lemma lenN_app {A} (a b : list A) : lenN (a ++ b) = lenN a + lenN b.
Proof. unfold lenN. rewrite app_length. lia. Qed.

Lemma lenN_cons {A} (x : A) (l : list A) : lenN (x :: l) = 1 + lenN l.
Proof. unfold lenN. cbn [length]. lia. Qed.

Lemma lenN_nil {A} : lenN (@nil A) = 0.
Proof. reflexivity. Qed.

Lemma lenN_le_enc w n : lenN (le_enc w n) = N.of_nat w.
Proof. unfold lenN. now rewrite le_enc_length. Qed.

Lemma lenN_repeat {A} (x : A) n : lenN (repeat x n) = N.of_nat n.
Proof. unfold lenN. now rewrite repeat_length. Qed.

(** * the SIZE codec *)
Lemma pow256_3 : pow256 3 = 16777216. Proof. reflexivity. Qed.
Lemma pow256_7 : pow256 7 = 72057594037927936. Proof. reflexivity. Qed.

Lemma size_enc_length n : lenN (size_enc n) = size_len n.
Proof.
  unfold size_enc, size_code, size_len.
  destruct (n <? 64); [|destruct (n <? 16384); [|destruct (n <? 1073741824)]];
    rewrite lenN_cons, lenN_le_enc; reflexivity.
Qed.

Lemma size_dec_cons b0 k (x : N) tl rest :
  b0 mod 4 = x -> size_tail x = k -> length tl = k ->
  size_dec (b0 :: tl ++ rest) = Some (b0 / 4 + 64 * le_dec tl, rest).
Proof.
  intros Hc Hk Hl. unfold size_dec, byte. rewrite Hc, Hk.
  assert (E : (length (tl ++ rest) <? k)%nat = false) by (rewrite app_length; apply Nat.ltb_ge; lia).
  rewrite E.
  now rewrite firstn_app_exact, skipn_app_exact.
Qed.

Lemma size_roundtrip n rest : n < SIZE_MAX -> size_dec (size_enc n ++ rest) = Some (n, rest).
Proof.
  unfold SIZE_MAX. intros Hn. unfold size_enc, size_code.
  destruct (n <? 64) eqn:E1; [|destruct (n <? 16384) eqn:E2; [|destruct (n <? 1073741824) eqn:E3]];
    cbn [app].
  - rewrite (size_dec_cons _ 0%nat 0); [|lia|reflexivity|apply le_enc_length].
    rewrite le_dec_enc_small by (rewrite pow256_0; lia). f_equal. f_equal. lia.
  - rewrite (size_dec_cons _ 1%nat 1); [|lia|reflexivity|apply le_enc_length].
    rewrite le_dec_enc_small by (rewrite pow256_1; lia). f_equal. f_equal. lia.
  - rewrite (size_dec_cons _ 3%nat 2); [|lia|reflexivity|apply le_enc_length].
    rewrite le_dec_enc_small by (rewrite pow256_3; lia). f_equal. f_equal. lia.
  - rewrite (size_dec_cons _ 7%nat 3); [|lia|reflexivity|apply le_enc_length].
    rewrite le_dec_enc_small by (rewrite pow256_7; lia). f_equal. f_equal. lia.
Qed.

(** the first byte is a byte, the tail are bytes *)
Lemma size_enc_ok n : bytes_ok (size_enc n) = true.
Proof.
  unfold size_enc, size_code.
  destruct (n <? 64); [|destruct (n <? 16384); [|destruct (n <? 1073741824)]];
    rewrite bytes_ok_cons, le_enc_ok, andb_true_r; lia.
Qed.

(** * descriptors *)
Lemma ety_ok_parts t : ety_ok t = true ->
  (0 < e_width t)%nat /\ (e_width t <= 16)%nat /\ e_class t < 3 /\ e_code t < 8 /\
  0 < e_align t /\ e_align t <= 16.
Proof. unfold ety_ok. intros H. lia. Qed.

Lemma ety_all_ok : forallb ety_ok ety_all = true.
Proof. reflexivity. Qed.

(** distinct descriptors of the table have distinct wire tags *)
Lemma ety_all_tags_distinct :
  forallb (fun t => forallb (fun u => implb (tag_eqb t u)
     ((e_width t =? e_width u)%nat && (e_align t =? e_align u))) ety_all) ety_all = true.
Proof. reflexivity. Qed.

Lemma hdr_byte_fields t : ety_ok t = true ->
  hdr_byte t mod 8 = 4 /\ (hdr_byte t / 8) mod 4 = e_class t /\ hdr_byte t / 32 = e_code t /\
  hdr_byte t < 256.
Proof. intros H. apply ety_ok_parts in H. unfold hdr_byte. lia. Qed.

Lemma check_hdr_self t : ety_ok t = true -> check_hdr t (hdr_byte t) = None.
Proof.
  intros H. destruct (hdr_byte_fields t H) as (H1 & H2 & H3 & _).
  unfold check_hdr. rewrite H1, H2, H3, !N.eqb_refl. reflexivity.
Qed.

Lemma check_hdr_other t u : ety_ok t = true -> tag_eqb t u = false ->
  check_hdr u (hdr_byte t) = Some BMismatch.
Proof.
  intros H Hne. destruct (hdr_byte_fields t H) as (H1 & H2 & H3 & _).
  unfold check_hdr. rewrite H1, H2, H3. cbn [negb]. rewrite N.eqb_refl. cbn [negb].
  unfold tag_eqb in Hne.
  replace (negb (e_class t =? e_class u) || negb (e_code t =? e_code u)) with true by lia.
  reflexivity.
Qed.

(** * the element block *)
Lemma payload_cons t x xs : payload t (x :: xs) = le_enc (e_width t) x ++ payload t xs.
Proof. reflexivity. Qed.

Lemma payload_app t xs ys : payload t (xs ++ ys) = payload t xs ++ payload t ys.
Proof. unfold payload. apply flat_map_app. Qed.

Lemma payload_length t xs : lenN (payload t xs) = N.of_nat (e_width t) * lenN xs.
Proof.
  induction xs as [|x xs IH]; [unfold lenN; cbn; lia|].
  rewrite payload_cons, lenN_app, lenN_le_enc, IH, lenN_cons. lia.
Qed.

Lemma payload_ok t xs : bytes_ok (payload t xs) = true.
Proof.
  induction xs as [|x xs IH]; [reflexivity|].
  now rewrite payload_cons, bytes_ok_app, le_enc_ok, IH.
Qed.

Lemma elems_ok_cons t x xs : elems_ok t (x :: xs) = true -> x < pow256 (e_width t) /\ elems_ok t xs = true.
Proof. unfold elems_ok. cbn [forallb]. intros H. apply andb_true_iff in H as [H1 H2]. split; [lia|exact H2]. Qed.

(** decoding the block returns the bit patterns: [le_dec] after [le_enc] *)
Lemma chunks_dec_payload t xs rest : elems_ok t xs = true ->
  chunks_dec (e_width t) (length xs) (payload t xs ++ rest) = xs.
Proof.
  induction xs as [|x xs IH]; intros H; [reflexivity|].
  apply elems_ok_cons in H as [Hx Hxs].
  cbn [length chunks_dec]. rewrite payload_cons, <- app_assoc.
  rewrite firstn_app_exact, skipn_app_exact by apply le_enc_length.
  rewrite le_dec_enc_small by exact Hx. now rewrite IH.
Qed.

Lemma read_payload_ok t per count xs rest :
  elems_ok t xs = true -> lenN xs = count * per ->
  count * (per * N.of_nat (e_width t)) < two64 ->
  read_payload (e_width t) per count (payload t xs ++ rest) = DOk xs.
Proof.
  intros He Hl Hb. unfold read_payload.
  replace (two64 <=? count * (per * N.of_nat (e_width t))) with false by lia.
  pose proof (payload_length t xs) as Hp.
  rewrite lenN_app.
  replace (lenN (payload t xs) + lenN rest <? count * (per * N.of_nat (e_width t))) with false by lia.
  replace (N.to_nat (count * per)) with (length xs) by (unfold lenN in Hl; lia).
  now rewrite chunks_dec_payload.
Qed.

Lemma slice_ok_parts t xs : slice_ok t xs = true ->
  ety_ok t = true /\ elems_ok t xs = true /\ lenN xs < SIZE_MAX /\
  lenN xs * N.of_nat (e_width t) < SIZE_MAX.
Proof.
  unfold slice_ok, len_ok. intros H.
  apply andb_true_iff in H as [H H3]. apply andb_true_iff in H as [H1 H2].
  repeat split; try assumption; lia.
Qed.

(** * bulk and generic encodings *)
Lemma beve_read_bulk t xs rest : slice_ok t xs = true ->
  beve_read_typed_slice t (enc_bulk t xs ++ rest) = DOk xs.
Proof.
  intros H. apply slice_ok_parts in H as (Ht & He & Hl & Hp).
  unfold enc_bulk. cbn [app]. unfold beve_read_typed_slice.
  rewrite check_hdr_self by exact Ht. rewrite <- app_assoc, size_roundtrip by exact Hl.
  apply read_payload_ok; [exact He|lia|unfold SIZE_MAX in Hp; unfold two64; lia].
Qed.

Lemma dec_generic_bulk t xs rest : slice_ok t xs = true ->
  dec_generic t (enc_bulk t xs ++ rest) = DOk xs.
Proof.
  intros H. apply slice_ok_parts in H as (Ht & He & Hl & Hp).
  destruct (hdr_byte_fields t Ht) as (H1 & H2 & H3 & _).
  unfold enc_bulk. cbn [app]. unfold dec_generic.
  rewrite H1, H2, H3, !N.eqb_refl. cbn [andb].
  replace (4 =? 4) with true by reflexivity.
  rewrite <- app_assoc, size_roundtrip by exact Hl.
  apply read_payload_ok; [exact He|lia|unfold SIZE_MAX in Hp; unfold two64; lia].
Qed.

Lemma is_generic_empty_bulk t xs rest : ety_ok t = true -> is_generic_empty (enc_bulk t xs ++ rest) = false.
Proof.
  intros Ht. destruct (hdr_byte_fields t Ht) as (H1 & _).
  unfold is_generic_empty, enc_bulk. cbn [app bytes_eqb].
  replace (hdr_byte t =? 5) with false by lia. reflexivity.
Qed.

Lemma fold_typed t n xs acc :
  fold_left (ser_elem t n) xs (STyped, acc) = (STyped, rev (map (le_enc (e_width t)) xs) ++ acc).
Proof.
  revert acc; induction xs as [|x xs IH]; intros acc; [reflexivity|].
  cbn [fold_left map rev]. unfold ser_elem at 2. cbn [fst snd]. rewrite IH, <- app_assoc. reflexivity.
Qed.

Lemma enc_generic_nil t : enc_generic t [] = [5; 0].
Proof. reflexivity. Qed.

Lemma ser_elem_first t n acc x :
  ser_elem t n (SUnknown, acc) x = (STyped, le_enc (e_width t) x :: (hdr_byte t :: size_enc n) :: acc).
Proof. reflexivity. Qed.

Lemma enc_generic_cons t x xs : enc_generic t (x :: xs) = enc_bulk t (x :: xs).
Proof.
  unfold enc_generic. cbn [fold_left]. rewrite ser_elem_first, fold_typed. cbn [fst snd].
  rewrite rev_app_distr, rev_involutive. cbn [rev app concat].
  unfold enc_bulk. rewrite payload_cons. unfold payload. rewrite flat_map_concat_map.
  cbn [app]. reflexivity.
Qed.

Lemma dec_generic_empty t : dec_generic t [5; 0] = DOk [].
Proof. reflexivity. Qed.

Lemma bulk_eq_generic t xs : xs <> [] -> enc_bulk t xs = enc_generic t xs.
Proof. destruct xs as [|x xs]; [congruence|]. intros _. now rewrite enc_generic_cons. Qed.

Lemma dec_bulk_bulk t xs : slice_ok t xs = true -> dec_bulk t (enc_bulk t xs) = DOk xs.
Proof.
  intros H. pose proof (slice_ok_parts t xs H) as (Ht & _).
  unfold dec_bulk, read_typed_slice_compat.
  rewrite <- (app_nil_r (enc_bulk t xs)), is_generic_empty_bulk by exact Ht.
  now apply beve_read_bulk.
Qed.

Lemma dec_bulk_generic t xs : slice_ok t xs = true -> dec_bulk t (enc_generic t xs) = DOk xs.
Proof.
  intros H. destruct xs as [|x xs]; [reflexivity|].
  rewrite enc_generic_cons. now apply dec_bulk_bulk.
Qed.

Lemma dec_generic_bulk0 t xs : slice_ok t xs = true -> dec_generic t (enc_bulk t xs) = DOk xs.
Proof. intros H. rewrite <- (app_nil_r (enc_bulk t xs)). now apply dec_generic_bulk. Qed.

Lemma dec_generic_generic t xs : slice_ok t xs = true -> dec_generic t (enc_generic t xs) = DOk xs.
Proof.
  intros H. destruct xs as [|x xs]; [reflexivity|].
  rewrite enc_generic_cons. now apply dec_generic_bulk0.
Qed.

(** * streaming writers *)
Lemma typed_slice_size_eq t xs : typed_slice_size t xs = lenN (enc_bulk t xs).
Proof.
  unfold typed_slice_size, enc_bulk.
  rewrite lenN_cons, lenN_app, size_enc_length, payload_length. lia.
Qed.

Lemma bulk_chunks_concat t xs : concat (bulk_chunks t xs) = enc_bulk t xs.
Proof.
  unfold bulk_chunks, enc_bulk.
  destruct xs as [|x xs]; cbn [app concat]; rewrite ?app_nil_r; reflexivity.
Qed.

Lemma streamed_typed h q t xs :
  concat (stream_typed_slice h q t xs)
  = to_vec (mkMessage (patch_lengths (set_bfmt h BODY_BEVE) (lenN q) (lenN (enc_bulk t xs))) q (enc_bulk t xs)).
Proof.
  unfold stream_typed_slice. rewrite typed_slice_size_eq.
  apply streaming_concat, bulk_chunks_concat.
Qed.

(** streaming with the header of any message of the same builder yields the
    frame of the buffered path *)
Lemma streamed_eq_buffered_typed b t xs :
  concat (stream_typed_slice (m_hdr (build b)) (b_query b) t xs)
  = concat (write_chunks (build (body_typed_slice b t xs))).
Proof. rewrite streamed_typed, write_chunks_concat. reflexivity. Qed.

(** * aligned form *)
Lemma padding_for_spec off a : 0 < a ->
  (off + 1 + padding_for off a) mod a = 0 /\ padding_for off a < a.
Proof.
  intros Ha. unfold padding_for.
  assert (Hr : (off + 1) mod a < a) by (apply N.mod_lt; lia).
  pose proof (N.div_mod' (off + 1) a) as Hd.
  destruct (N.eq_dec ((off + 1) mod a) 0) as [E|E].
  - rewrite E, N.sub_0_r, N.mod_same by lia. split; [|lia].
    now rewrite N.add_0_r.
  - rewrite (N.mod_small (a - (off + 1) mod a) a) by lia. split; [|lia].
    replace (off + 1 + (a - (off + 1) mod a)) with ((1 + (off + 1) / a) * a) by lia.
    apply N.mod_mul. lia.
Qed.

Lemma aligned_prefix_length t n : lenN (aligned_prefix t n) = 2 + size_len n.
Proof. unfold aligned_prefix. rewrite lenN_app, size_enc_length. reflexivity. Qed.

Lemma enc_aligned_eq t base xs :
  enc_aligned t base xs
  = aligned_prefix t (lenN xs) ++ [aligned_pad t base (lenN xs)] ++
    repeat 0 (N.to_nat (aligned_pad t base (lenN xs))) ++ payload t xs.
Proof. unfold enc_aligned, aligned_pad. now rewrite aligned_prefix_length. Qed.

Lemma aligned_size_eq t base xs :
  lenN (enc_aligned t base xs) = aligned_typed_slice_size t base xs.
Proof.
  rewrite enc_aligned_eq. unfold aligned_typed_slice_size.
  rewrite !lenN_app, aligned_prefix_length, lenN_cons, lenN_nil, lenN_repeat, payload_length. lia.
Qed.

Lemma aligned_pad_lt t base n : ety_ok t = true -> aligned_pad t base n < e_align t.
Proof. intros H. apply ety_ok_parts in H. unfold aligned_pad. apply padding_for_spec. lia. Qed.

(** the element block of the aligned form lands on a multiple of the
    alignment, counted from the frame start, for every base offset *)
Lemma aligned_data_aligned t base n : ety_ok t = true ->
  (base + aligned_data_off t base n) mod e_align t = 0.
Proof.
  intros H. apply ety_ok_parts in H. unfold aligned_data_off, aligned_pad.
  replace (base + (2 + size_len n + 1 + padding_for (base + (2 + size_len n)) (e_align t)))
    with (base + (2 + size_len n) + 1 + padding_for (base + (2 + size_len n)) (e_align t)) by lia.
  apply padding_for_spec. lia.
Qed.

Lemma marker_ok :
  (ALIGNED_MARKER mod 8 =? 4) && ((ALIGNED_MARKER / 8) mod 4 =? 3) && (ALIGNED_MARKER / 32 =? 2) = true.
Proof. reflexivity. Qed.

Lemma parse_aligned_enc t base xs rest : slice_ok t xs = true ->
  parse_aligned t (enc_aligned t base xs ++ rest)
  = DOk (aligned_data_off t base (lenN xs), lenN xs, payload t xs ++ rest).
Proof.
  intros H. apply slice_ok_parts in H as (Ht & He & Hl & Hp).
  pose proof (aligned_pad_lt t base (lenN xs) Ht) as Hpad.
  pose proof (ety_ok_parts t Ht) as (_ & _ & _ & _ & _ & Ha16).
  rewrite enc_aligned_eq. unfold aligned_prefix.
  set (pad := aligned_pad t base (lenN xs)) in *.
  rewrite <- !app_assoc. cbn [app]. unfold parse_aligned.
  rewrite marker_ok. cbn [negb]. rewrite check_hdr_self by exact Ht.
  rewrite size_roundtrip by exact Hl.
  pose proof (payload_length t xs) as Hpl.
  rewrite skipn_app_exact by apply repeat_length.
  repeat (rewrite lenN_cons || rewrite lenN_app).
  rewrite size_enc_length, lenN_repeat.
  match goal with |- (if ?c then _ else _) = _ => replace c with false by lia end.
  replace (two64 <=? lenN xs * N.of_nat (e_width t)) with false
    by (unfold SIZE_MAX in Hp; unfold two64; lia).
  match goal with |- (if ?c then _ else _) = _ => replace c with false by lia end.
  f_equal. f_equal. f_equal. unfold aligned_data_off. fold pad. lia.
Qed.

Lemma read_aligned_enc t base xs rest : slice_ok t xs = true ->
  beve_read_aligned t (enc_aligned t base xs ++ rest) = DOk xs.
Proof.
  intros H. unfold beve_read_aligned. rewrite parse_aligned_enc by exact H.
  apply slice_ok_parts in H as (_ & He & _).
  replace (N.to_nat (lenN xs)) with (length xs) by (unfold lenN; lia).
  now rewrite chunks_dec_payload.
Qed.

Lemma read_aligned_ref_enc t base addr xs rest : slice_ok t xs = true ->
  beve_read_aligned_ref t addr (enc_aligned t base xs ++ rest)
  = if (addr + aligned_data_off t base (lenN xs)) mod e_align t =? 0 then DOk xs else DErr BUnsupported.
Proof.
  intros H. unfold beve_read_aligned_ref. rewrite parse_aligned_enc by exact H.
  apply slice_ok_parts in H as (_ & He & _).
  replace (N.to_nat (lenN xs)) with (length xs) by (unfold lenN; lia).
  now rewrite chunks_dec_payload.
Qed.

Lemma enc_aligned_first t base xs :
  exists tl, enc_aligned t base xs = ALIGNED_MARKER :: tl.
Proof. rewrite enc_aligned_eq. unfold aligned_prefix. cbn [app]. eauto. Qed.

(** the borrowing decode of an aligned body: borrowed when the block is
    aligned in memory, copied otherwise, the same elements either way *)
Lemma decode_ref_aligned t base addr xs : slice_ok t xs = true ->
  decode_ref_body t addr (enc_aligned t base xs)
  = DOk (if (addr + aligned_data_off t base (lenN xs)) mod e_align t =? 0 then SBorrowed xs else SOwned xs).
Proof.
  intros H. destruct (enc_aligned_first t base xs) as [tl E].
  unfold decode_ref_body. rewrite E at 1. rewrite N.eqb_refl.
  rewrite <- (app_nil_r (enc_aligned t base xs)).
  rewrite read_aligned_ref_enc, read_aligned_enc by exact H.
  destruct ((addr + aligned_data_off t base (lenN xs)) mod e_align t =? 0); reflexivity.
Qed.

Lemma hdr_byte_not_marker t : ety_ok t = true -> (hdr_byte t =? ALIGNED_MARKER) = false.
Proof. intros H. apply ety_ok_parts in H. unfold hdr_byte, ALIGNED_MARKER. lia. Qed.

Lemma decode_ref_bulk t addr xs : slice_ok t xs = true ->
  decode_ref_body t addr (enc_bulk t xs) = DOk (SOwned xs).
Proof.
  intros H. pose proof (slice_ok_parts t xs H) as (Ht & _).
  unfold decode_ref_body. unfold enc_bulk at 1. rewrite hdr_byte_not_marker by exact Ht.
  fold (dec_bulk t (enc_bulk t xs)). now rewrite dec_bulk_bulk.
Qed.

Lemma decode_ref_generic t addr xs : slice_ok t xs = true ->
  decode_ref_body t addr (enc_generic t xs) = DOk (SOwned xs).
Proof.
  intros H. destruct xs as [|x xs]; [reflexivity|].
  rewrite enc_generic_cons. now apply decode_ref_bulk.
Qed.

(** * rejection of wrong element types and formats *)
Lemma beve_read_bulk_wrong t u xs rest : ety_ok t = true -> tag_eqb t u = false ->
  beve_read_typed_slice u (enc_bulk t xs ++ rest) = DErr BMismatch.
Proof.
  intros Ht Hne. unfold enc_bulk. cbn [app]. unfold beve_read_typed_slice.
  now rewrite check_hdr_other.
Qed.

Lemma dec_bulk_wrong t u xs : ety_ok t = true -> tag_eqb t u = false ->
  dec_bulk u (enc_bulk t xs) = DErr BMismatch.
Proof.
  intros Ht Hne. unfold dec_bulk, read_typed_slice_compat.
  rewrite <- (app_nil_r (enc_bulk t xs)), is_generic_empty_bulk by exact Ht.
  now apply beve_read_bulk_wrong.
Qed.

Lemma parse_aligned_wrong t u base xs rest : ety_ok t = true -> tag_eqb t u = false ->
  parse_aligned u (enc_aligned t base xs ++ rest) = DErr BMismatch.
Proof.
  intros Ht Hne. rewrite enc_aligned_eq. unfold aligned_prefix.
  rewrite <- !app_assoc. cbn [app]. unfold parse_aligned.
  rewrite marker_ok. cbn [negb]. now rewrite check_hdr_other.
Qed.

Lemma decode_ref_aligned_wrong t u base addr xs : ety_ok t = true -> tag_eqb t u = false ->
  decode_ref_body u addr (enc_aligned t base xs) = DErr BMismatch.
Proof.
  intros Ht Hne. destruct (enc_aligned_first t base xs) as [tl E].
  unfold decode_ref_body. rewrite E at 1. rewrite N.eqb_refl.
  unfold beve_read_aligned_ref, beve_read_aligned.
  rewrite <- (app_nil_r (enc_aligned t base xs)).
  now rewrite parse_aligned_wrong.
Qed.

Lemma decode_ref_bulk_wrong t u addr xs : ety_ok t = true -> tag_eqb t u = false ->
  decode_ref_body u addr (enc_bulk t xs) = DErr BMismatch.
Proof.
  intros Ht Hne. unfold decode_ref_body. unfold enc_bulk at 1.
  rewrite hdr_byte_not_marker by exact Ht.
  fold (dec_bulk u (enc_bulk t xs)). now rewrite dec_bulk_wrong.
Qed.

(** the aligned form is not a plain typed array of any element type *)
Lemma dec_bulk_aligned u t base xs : ety_ok u = true ->
  dec_bulk u (enc_aligned t base xs) = DErr BMismatch.
Proof.
  intros Hu. apply ety_ok_parts in Hu as (_ & _ & Hc & _).
  destruct (enc_aligned_first t base xs) as [tl E]. rewrite E.
  unfold dec_bulk, read_typed_slice_compat, is_generic_empty. cbn [bytes_eqb].
  replace (ALIGNED_MARKER =? 5) with false by reflexivity. cbn [andb].
  unfold beve_read_typed_slice, check_hdr.
  replace (ALIGNED_MARKER mod 8 =? 4) with true by reflexivity. cbn [negb].
  replace ((ALIGNED_MARKER / 8) mod 4) with 3 by reflexivity.
  replace (3 =? e_class u) with false by lia. reflexivity.
Qed.

(** * complex arrays *)
Lemma cplx_hdr_fields t : ety_ok t = true ->
  cplx_hdr t mod 2 = 1 /\ (cplx_hdr t / 8) mod 4 = e_class t /\ (cplx_hdr t / 32) mod 8 = e_code t.
Proof. intros H. apply ety_ok_parts in H. unfold cplx_hdr. lia. Qed.

Lemma ext_ok : (CPLX_EXT mod 8 =? 6) && (CPLX_EXT / 8 =? 3) = true.
Proof. reflexivity. Qed.

Lemma cplx_count_spec zs : lenN zs mod 2 = 0 -> lenN zs = cplx_count zs * 2.
Proof. unfold cplx_count. lia. Qed.

Lemma read_complex_enc t zs rest : slice_ok t zs = true -> lenN zs mod 2 = 0 ->
  beve_read_complex_slice t (enc_complex t zs ++ rest) = DOk zs.
Proof.
  intros H Hev. apply slice_ok_parts in H as (Ht & He & Hl & Hp).
  destruct (cplx_hdr_fields t Ht) as (H1 & H2 & H3).
  pose proof (cplx_count_spec zs Hev) as Hc.
  unfold enc_complex. cbn [app]. unfold beve_read_complex_slice.
  rewrite ext_ok. cbn [negb]. rewrite H1, H2, H3, !N.eqb_refl.
  replace (1 =? 0) with false by reflexivity. cbn [negb orb].
  rewrite <- app_assoc, size_roundtrip by lia.
  apply read_payload_ok; [exact He|exact Hc|unfold SIZE_MAX in Hp; unfold two64; lia].
Qed.

Lemma dec_generic_complex_enc t zs rest : slice_ok t zs = true -> lenN zs mod 2 = 0 ->
  dec_generic_complex t (enc_complex t zs ++ rest) = DOk zs.
Proof.
  intros H Hev. apply slice_ok_parts in H as (Ht & He & Hl & Hp).
  destruct (cplx_hdr_fields t Ht) as (H1 & H2 & H3).
  pose proof (cplx_count_spec zs Hev) as Hc.
  unfold enc_complex. cbn [app]. unfold dec_generic_complex.
  rewrite ext_ok, H1, H2, H3, !N.eqb_refl. cbn [andb].
  rewrite <- app_assoc, size_roundtrip by lia.
  apply read_payload_ok; [exact He|exact Hc|unfold SIZE_MAX in Hp; unfold two64; lia].
Qed.

Lemma read_complex_wrong t u zs rest : ety_ok t = true -> tag_eqb t u = false ->
  beve_read_complex_slice u (enc_complex t zs ++ rest) = DErr BMismatch.
Proof.
  intros Ht Hne. destruct (cplx_hdr_fields t Ht) as (H1 & H2 & H3).
  unfold enc_complex. cbn [app]. unfold beve_read_complex_slice.
  rewrite ext_ok. cbn [negb]. rewrite H1, H2, H3.
  replace (1 =? 0) with false by reflexivity.
  unfold tag_eqb in Hne.
  replace (negb (e_class t =? e_class u) || negb (e_code t =? e_code u)) with true by lia.
  reflexivity.
Qed.

Lemma is_generic_empty_complex t zs rest : is_generic_empty (enc_complex t zs ++ rest) = false.
Proof. reflexivity. Qed.

(** a complex body is not a plain typed array *)
Lemma dec_bulk_complex u t zs : dec_bulk u (enc_complex t zs) = DErr BInvalidType.
Proof. reflexivity. Qed.

Lemma pairs_chunks_concat w n : forall zs, length zs = (2 * n)%nat ->
  concat (pairs_chunks w zs) = flat_map (le_enc w) zs.
Proof.
  induction n as [|n IH]; intros zs H; destruct zs as [|re [|im zs]]; cbn [length] in H; try lia.
  - reflexivity.
  - cbn [pairs_chunks concat flat_map]. rewrite IH by lia. now rewrite <- app_assoc.
Qed.

Lemma fold_cplx_typed t n cs acc :
  fold_left (ser_cplx t n) cs (STyped, acc) = (STyped, rev cs ++ acc).
Proof.
  revert acc; induction cs as [|c cs IH]; intros acc; [reflexivity|].
  cbn [fold_left rev]. unfold ser_cplx at 2. cbn [fst snd]. rewrite IH, <- app_assoc. reflexivity.
Qed.

Lemma ser_cplx_first t n acc c :
  ser_cplx t n (SUnknown, acc) c = (STyped, c :: (CPLX_EXT :: cplx_hdr t :: size_enc n) :: acc).
Proof. reflexivity. Qed.

Lemma enc_generic_complex_nil t : enc_generic_complex t [] = [5; 0].
Proof. reflexivity. Qed.

Lemma enc_generic_complex_cons t re im zs : lenN (re :: im :: zs) mod 2 = 0 ->
  enc_generic_complex t (re :: im :: zs) = enc_complex t (re :: im :: zs).
Proof.
  intros Hev.
  assert (Hn : length zs = (2 * (length zs / 2))%nat).
  { unfold lenN in Hev. cbn [length] in Hev. lia. }
  unfold enc_generic_complex. cbn [pairs_chunks fold_left].
  rewrite ser_cplx_first, fold_cplx_typed. cbn [fst snd].
  rewrite rev_app_distr, rev_involutive. cbn [rev app concat].
  rewrite (pairs_chunks_concat _ _ _ Hn).
  unfold enc_complex. rewrite !payload_cons. unfold payload.
  cbn [app]. rewrite <- !app_assoc. reflexivity.
Qed.

Lemma complex_slice_size_eq t zs : complex_slice_size t zs = lenN (enc_complex t zs).
Proof.
  unfold complex_slice_size, enc_complex.
  rewrite !lenN_cons, lenN_app, size_enc_length, payload_length. lia.
Qed.

Lemma complex_chunks_concat t zs : concat (complex_chunks t zs) = enc_complex t zs.
Proof.
  unfold complex_chunks, enc_complex.
  destruct zs as [|z zs]; cbn [app concat]; rewrite ?app_nil_r; reflexivity.
Qed.

Lemma streamed_complex h q t zs :
  concat (stream_complex_slice h q t zs)
  = to_vec (mkMessage (patch_lengths (set_bfmt h BODY_BEVE) (lenN q) (lenN (enc_complex t zs))) q (enc_complex t zs)).
Proof.
  unfold stream_complex_slice. rewrite complex_slice_size_eq.
  apply streaming_concat, complex_chunks_concat.
Qed.

Lemma streamed_eq_buffered_complex b t zs :
  concat (stream_complex_slice (m_hdr (build b)) (b_query b) t zs)
  = concat (write_chunks (build (body_complex_slice b t zs))).
Proof. rewrite streamed_complex, write_chunks_concat. reflexivity. Qed.

(** * repe glue *)
Lemma is_ok_refl xs : is_ok xs (DOk xs) = true.
Proof. unfold is_ok, res_eqb. apply bytes_eqb_refl. Qed.

Lemma decode_typed_slice_wrong_format t m :
  h_bfmt (m_hdr m) <> BODY_BEVE -> decode_typed_slice t m = DErr BFormat.
Proof. intros H. unfold decode_typed_slice. now replace (h_bfmt (m_hdr m) =? BODY_BEVE) with false by lia. Qed.

Lemma decode_complex_slice_wrong_format t m :
  h_bfmt (m_hdr m) <> BODY_BEVE -> decode_complex_slice t m = DErr BFormat.
Proof. intros H. unfold decode_complex_slice. now replace (h_bfmt (m_hdr m) =? BODY_BEVE) with false by lia. Qed.

Lemma andb_split a b : a && b = true -> a = true /\ b = true.
Proof. apply andb_true_iff. Qed.

(** every live combination of client helper and echo route returns the
    original bit patterns, whatever the address of the receive buffer; the
    aligned form sent to the non-borrowing bulk route is an error *)
Lemma live_call_ok rk ck t qlen addr xs : slice_ok t xs = true ->
  live_call rk ck t qlen addr xs =
  match rk, ck with
  | RSlice, CAligned => DErr BRemote
  | RTyped, CAligned => live_call rk ck t qlen addr xs
  | _, _ => DOk xs
  end.
Proof.
  intros H. pose proof (slice_ok_parts t xs H) as (Ht & _).
  unfold live_call, client_body, route_slice, route_ref, route_typed.
  rewrite N.eqb_refl.
  destruct rk, ck; try reflexivity.
  - fold (dec_bulk t (enc_bulk t xs)). rewrite dec_bulk_bulk by exact H.
    fold (dec_bulk t (enc_bulk t xs)). now rewrite dec_bulk_bulk.
  - fold (dec_bulk t (enc_aligned t (HEADER_SIZE + qlen) xs)). now rewrite dec_bulk_aligned.
  - fold (dec_bulk t (enc_generic t xs)). rewrite dec_bulk_generic by exact H.
    now rewrite dec_generic_bulk0.
  - rewrite decode_ref_bulk by exact H. cbn [dmap si_elems].
    fold (dec_bulk t (enc_bulk t xs)). now rewrite dec_bulk_bulk.
  - rewrite decode_ref_aligned by exact H. cbn [dmap].
    replace (si_elems (if (addr + aligned_data_off t (HEADER_SIZE + qlen) (lenN xs)) mod e_align t =? 0
                       then SBorrowed xs else SOwned xs)) with xs
      by (destruct ((addr + aligned_data_off t (HEADER_SIZE + qlen) (lenN xs)) mod e_align t =? 0); reflexivity).
    fold (dec_bulk t (enc_bulk t xs)). now rewrite dec_bulk_bulk.
  - rewrite decode_ref_generic by exact H. cbn [dmap si_elems].
    now rewrite dec_generic_bulk0.
  - rewrite dec_generic_bulk0 by exact H.
    fold (dec_bulk t (enc_generic t xs)). now rewrite dec_bulk_generic.
  - rewrite dec_generic_generic by exact H. now rewrite dec_generic_generic.
Qed.

(** * the oracle accepts the model *)
Lemma build_req_typed id q t xs :
  build (body_typed_slice (req_builder id q) t xs)
  = mkMessage (patch_lengths (set_bfmt (hdr_new id) BODY_BEVE) (lenN q) (lenN (enc_bulk t xs))) q (enc_bulk t xs).
Proof. reflexivity. Qed.

Lemma build_req_complex id q t zs :
  build (body_complex_slice (req_builder id q) t zs)
  = mkMessage (patch_lengths (set_bfmt (hdr_new id) BODY_BEVE) (lenN q) (lenN (enc_complex t zs))) q (enc_complex t zs).
Proof. reflexivity. Qed.

Lemma holds_enc t xs q id : c08_wf (KEnc t xs q id) = true ->
  ok_C08 (KEnc t xs q id) (model_C08 (KEnc t xs q id)) = true.
Proof.
  cbn [c08_wf]. intros H.
  apply andb_split in H as [H _]. apply andb_split in H as [H _]. apply andb_split in H as [H _].
  cbn [model_C08 ok_C08 o_bytes o_res].
  rewrite write_chunks_concat, streamed_typed, <- build_req_typed.
  rewrite bytes_eqb_refl.
  unfold decode_typed_slice, beve_body_vec. cbn [build body_typed_slice body_beve_vec req_builder m_hdr m_body h_bfmt b_bfmt b_body].
  rewrite N.eqb_refl.
  fold (dec_bulk t (enc_bulk t xs)). fold (dec_bulk t (enc_generic t xs)).
  rewrite dec_bulk_bulk, dec_bulk_generic, dec_generic_bulk0, dec_generic_generic by exact H.
  rewrite !is_ok_refl.
  destruct xs as [|x xs]; [reflexivity|].
  rewrite enc_generic_cons, bytes_eqb_refl. reflexivity.
Qed.

Lemma holds_cplx t u zs q id : c08_wf (KCplx t u zs q id) = true ->
  ok_C08 (KCplx t u zs q id) (model_C08 (KCplx t u zs q id)) = true.
Proof.
  cbn [c08_wf]. intros H.
  apply andb_split in H as [H _]. apply andb_split in H as [H _]. apply andb_split in H as [H _].
  apply andb_split in H as [H Hev]. apply andb_split in H as [H Hne]. apply andb_split in H as [H Hu].
  assert (Hev' : lenN zs mod 2 = 0) by lia.
  assert (Hne' : tag_eqb t u = false) by (destruct (tag_eqb t u); [discriminate|reflexivity]).
  pose proof (slice_ok_parts t zs H) as (Ht & _).
  cbn [model_C08 ok_C08 o_bytes o_res].
  rewrite write_chunks_concat, streamed_complex, <- build_req_complex.
  rewrite bytes_eqb_refl.
  unfold decode_complex_slice, decode_typed_slice.
  cbn [build body_complex_slice req_builder m_hdr m_body h_bfmt b_bfmt b_body].
  rewrite !N.eqb_refl.
  fold (dec_bulk t (enc_complex t zs)). rewrite dec_bulk_complex.
  unfold read_complex_slice_compat.
  rewrite <- (app_nil_r (enc_complex t zs)), is_generic_empty_complex.
  rewrite read_complex_enc, dec_generic_complex_enc, read_complex_wrong by assumption.
  rewrite app_nil_r.
  cbn [is_err]. rewrite !is_ok_refl.
  destruct zs as [|re [|im zs]].
  - reflexivity.
  - unfold lenN in Hev'. cbn [length] in Hev'. lia.
  - rewrite enc_generic_complex_cons by exact Hev'.
    rewrite <- (app_nil_r (enc_complex t (re :: im :: zs))), is_generic_empty_complex.
    rewrite read_complex_enc, dec_generic_complex_enc by assumption.
    rewrite app_nil_r, bytes_eqb_refl, !is_ok_refl. reflexivity.
Qed.

Lemma add_mod_zero a x y : 0 < a -> x mod a = 0 -> y mod a = 0 -> (x + y) mod a = 0.
Proof. intros Ha Hx Hy. rewrite N.add_mod by lia. rewrite Hx, Hy. apply N.mod_0_l. lia. Qed.

(** a frame that starts on a multiple of the alignment has its aligned body's
    element block on a multiple of the alignment: the borrow is served *)
Lemma aligned_frame_block_aligned t qlen m n : ety_ok t = true -> m mod e_align t = 0 ->
  (frame_addr qlen m + aligned_data_off t (HEADER_SIZE + qlen) n) mod e_align t = 0.
Proof.
  intros Ht Hm. pose proof (ety_ok_parts t Ht) as (_ & _ & _ & _ & Ha & _).
  unfold frame_addr.
  replace (m + HEADER_SIZE + qlen + aligned_data_off t (HEADER_SIZE + qlen) n)
    with (m + (HEADER_SIZE + qlen + aligned_data_off t (HEADER_SIZE + qlen) n)) by lia.
  apply add_mod_zero; [exact Ha|exact Hm|now apply aligned_data_aligned].
Qed.

Lemma holds_ref t xs qlen m src : c08_wf (KRef t xs qlen m src) = true ->
  ok_C08 (KRef t xs qlen m src) (model_C08 (KRef t xs qlen m src)) = true.
Proof.
  cbn [c08_wf]. intros H.
  apply andb_split in H as [H _]. apply andb_split in H as [H _].
  pose proof (slice_ok_parts t xs H) as (Ht & _).
  cbn [model_C08 ok_C08 o_bytes o_res o_flags].
  unfold route_ref. rewrite N.eqb_refl.
  destruct src; unfold client_body.
  - rewrite decode_ref_bulk by exact H. cbn [dmap si_elems si_borrowed].
    fold (dec_bulk t (enc_bulk t xs)). rewrite dec_bulk_bulk by exact H.
    rewrite !is_ok_refl. reflexivity.
  - rewrite decode_ref_aligned by exact H.
    rewrite aligned_size_eq. unfold aligned_typed_slice_size.
    replace (2 + size_len (lenN xs) + 1 + aligned_pad t (HEADER_SIZE + qlen) (lenN xs) +
             N.of_nat (e_width t) * lenN xs - N.of_nat (e_width t) * lenN xs)
      with (aligned_data_off t (HEADER_SIZE + qlen) (lenN xs)) by (unfold aligned_data_off; lia).
    pose proof (aligned_frame_block_aligned t qlen m (lenN xs) Ht) as Hal.
    destruct ((frame_addr qlen m + aligned_data_off t (HEADER_SIZE + qlen) (lenN xs)) mod e_align t =? 0) eqn:E;
      cbn [dmap si_elems si_borrowed];
      fold (dec_bulk t (enc_bulk t xs)); rewrite dec_bulk_bulk by exact H; rewrite !is_ok_refl.
    + cbn [andb Bool.eqb]. now rewrite orb_true_r.
    + cbn [andb Bool.eqb orb].
      destruct (m mod e_align t =? 0) eqn:Em; [|reflexivity].
      assert (m mod e_align t = 0) as Hm by lia. specialize (Hal Hm). lia.
  - rewrite decode_ref_generic by exact H. cbn [dmap si_elems si_borrowed].
    fold (dec_bulk t (enc_bulk t xs)). rewrite dec_bulk_bulk by exact H.
    rewrite !is_ok_refl. reflexivity.
Qed.

Lemma holds_wrong_type t u xs qlen m : c08_wf (KWrongType t u xs qlen m) = true ->
  ok_C08 (KWrongType t u xs qlen m) (model_C08 (KWrongType t u xs qlen m)) = true.
Proof.
  cbn [c08_wf]. intros H.
  apply andb_split in H as [H _]. apply andb_split in H as [H _].
  apply andb_split in H as [H Hne]. apply andb_split in H as [H Hu].
  assert (Hne' : tag_eqb t u = false) by (destruct (tag_eqb t u); [discriminate|reflexivity]).
  pose proof (slice_ok_parts t xs H) as (Ht & _).
  cbn [model_C08 ok_C08 o_res].
  unfold route_slice, route_ref. rewrite N.eqb_refl.
  fold (dec_bulk u (enc_bulk t xs)). fold (dec_bulk u (enc_generic t xs)).
  rewrite dec_bulk_wrong, decode_ref_aligned_wrong, decode_ref_bulk_wrong by assumption.
  cbn [dmap is_err andb].
  destruct xs as [|x xs]; [reflexivity|].
  rewrite enc_generic_cons, dec_bulk_wrong by assumption. reflexivity.
Qed.

Lemma holds_wrong_fmt t xs bfmt gen : c08_wf (KWrongFmt t xs bfmt gen) = true ->
  ok_C08 (KWrongFmt t xs bfmt gen) (model_C08 (KWrongFmt t xs bfmt gen)) = true.
Proof.
  cbn [c08_wf]. intros H.
  apply andb_split in H as [H _]. apply andb_split in H as [H Hf].
  assert (Hf' : (bfmt =? BODY_BEVE) = false) by (destruct (bfmt =? BODY_BEVE); [discriminate|reflexivity]).
  cbn [model_C08 ok_C08 o_res].
  unfold decode_typed_slice, decode_complex_slice, route_slice, route_ref.
  cbn [build m_hdr h_bfmt b_bfmt]. rewrite Hf'. reflexivity.
Qed.

Lemma holds_net rk ck t xs qlen : c08_wf (KNet rk ck t xs qlen) = true ->
  ok_C08 (KNet rk ck t xs qlen) (model_C08 (KNet rk ck t xs qlen)) = true.
Proof.
  cbn [c08_wf]. intros H.
  apply andb_split in H as [H Hx]. apply andb_split in H as [H _].
  cbn [model_C08 ok_C08 o_res].
  rewrite (live_call_ok rk ck t qlen 0 xs H).
  destruct rk, ck; try discriminate; cbn [is_err andb]; rewrite ?is_ok_refl; reflexivity.
Qed.

Theorem ok_model_C08 c : c08_wf c = true -> ok_C08 c (model_C08 c) = true.
Proof.
  destruct c; [apply holds_enc|apply holds_cplx|apply holds_ref|apply holds_wrong_type
              |apply holds_wrong_fmt|apply holds_net].
Qed.

(** * statements in the form used by Props/C08.v *)
Lemma ety_all_tag_inj t u : In t ety_all -> In u ety_all -> tag_eqb t u = true -> t = u.
Proof.
  unfold ety_all. cbn [In]. intros Ht Hu.
  repeat (destruct Ht as [<-|Ht]; [|]); try contradiction;
    repeat (destruct Hu as [<-|Hu]; [|]); try contradiction;
    intros E; first [reflexivity | discriminate E].
Qed.

Lemma ety_all_In_ok t : In t ety_all -> ety_ok t = true.
Proof. intros H. exact (proj1 (forallb_forall ety_ok ety_all) ety_all_ok t H). Qed.

Lemma cross_decode t xs : slice_ok t xs = true ->
  dec_bulk t (enc_generic t xs) = DOk xs /\ dec_generic t (enc_bulk t xs) = DOk xs.
Proof. intros H. split; [now apply dec_bulk_generic|now apply dec_generic_bulk0]. Qed.

Lemma bit_exact t xs : slice_ok t xs = true ->
  dec_bulk t (enc_bulk t xs) = DOk xs /\ dec_generic t (enc_generic t xs) = DOk xs /\
  (forall rest, beve_read_typed_slice t (enc_bulk t xs ++ rest) = DOk xs) /\
  (forall base rest, dec_aligned t (enc_aligned t base xs ++ rest) = DOk xs).
Proof.
  intros H. repeat split.
  - now apply dec_bulk_bulk.
  - now apply dec_generic_generic.
  - intros rest. now apply beve_read_bulk.
  - intros base rest. now apply read_aligned_enc.
Qed.

Lemma complex_bit_exact t zs : slice_ok t zs = true -> lenN zs mod 2 = 0 ->
  (zs <> [] -> enc_complex t zs = enc_generic_complex t zs) /\
  read_complex_slice_compat t (enc_complex t zs) = DOk zs /\
  read_complex_slice_compat t (enc_generic_complex t zs) = DOk zs /\
  dec_generic_complex t (enc_complex t zs) = DOk zs /\
  dec_generic_complex t (enc_generic_complex t zs) = DOk zs.
Proof.
  intros H Hev.
  assert (R1 : read_complex_slice_compat t (enc_complex t zs) = DOk zs).
  { unfold read_complex_slice_compat.
    rewrite <- (app_nil_r (enc_complex t zs)), is_generic_empty_complex. now apply read_complex_enc. }
  assert (R2 : dec_generic_complex t (enc_complex t zs) = DOk zs).
  { rewrite <- (app_nil_r (enc_complex t zs)). now apply dec_generic_complex_enc. }
  destruct zs as [|re [|im zs]].
  - repeat split; try assumption; try reflexivity. intros E. congruence.
  - unfold lenN in Hev. cbn [length] in Hev. lia.
  - rewrite enc_generic_complex_cons by exact Hev. repeat split; assumption.
Qed.

Lemma aligned_offset b t xs : slice_ok t xs = true ->
  let body := m_body (build (body_aligned_typed_slice b t xs)) in
  exists off, parse_aligned t body = DOk (off, lenN xs, payload t xs) /\
              (HEADER_SIZE + lenN (b_query b) + off) mod e_align t = 0.
Proof.
  intros H. cbn [build body_aligned_typed_slice m_body b_body b_query].
  exists (aligned_data_off t (HEADER_SIZE + lenN (b_query b)) (lenN xs)). split.
  - rewrite <- (app_nil_r (enc_aligned _ _ _)), parse_aligned_enc by exact H. now rewrite app_nil_r.
  - apply aligned_data_aligned. now apply slice_ok_parts in H.
Qed.

Lemma ref_same_elements t base addr xs : slice_ok t xs = true ->
  dmap si_elems (dec_ref t addr (enc_aligned t base xs)) = dec_aligned t (enc_aligned t base xs) /\
  dec_ref t addr (enc_aligned t base xs)
  = DOk (if (addr + aligned_data_off t base (lenN xs)) mod e_align t =? 0 then SBorrowed xs else SOwned xs) /\
  dec_ref t addr (enc_bulk t xs) = DOk (SOwned xs) /\
  dec_ref t addr (enc_generic t xs) = DOk (SOwned xs).
Proof.
  intros H. unfold dec_ref, dec_aligned.
  rewrite decode_ref_aligned, decode_ref_bulk, decode_ref_generic by exact H.
  rewrite <- (app_nil_r (enc_aligned t base xs)). rewrite read_aligned_enc by exact H.
  repeat split. destruct (_ =? 0); reflexivity.
Qed.

Lemma aligned_frame_borrowed t (q : list byte) fa xs : slice_ok t xs = true -> fa mod e_align t = 0 ->
  dec_ref t (fa + HEADER_SIZE + lenN q) (enc_aligned t (HEADER_SIZE + lenN q) xs) = DOk (SBorrowed xs).
Proof.
  intros H Hfa. unfold dec_ref. rewrite decode_ref_aligned by exact H.
  pose proof (slice_ok_parts t xs H) as (Ht & _).
  pose proof (aligned_frame_block_aligned t (lenN q) fa (lenN xs) Ht Hfa) as Hal.
  unfold frame_addr in Hal. rewrite Hal. reflexivity.
Qed.

Lemma wrong_type_rejected t u xs base addr : ety_ok t = true -> tag_eqb t u = false ->
  dec_bulk u (enc_bulk t xs) = DErr BMismatch /\
  (xs <> [] -> dec_bulk u (enc_generic t xs) = DErr BMismatch) /\
  dec_aligned u (enc_aligned t base xs) = DErr BMismatch /\
  dec_ref u addr (enc_aligned t base xs) = DErr BMismatch /\
  dec_ref u addr (enc_bulk t xs) = DErr BMismatch.
Proof.
  intros Ht Hne. repeat split.
  - now apply dec_bulk_wrong.
  - destruct xs as [|x xs]; [congruence|]. intros _. rewrite enc_generic_cons. now apply dec_bulk_wrong.
  - unfold dec_aligned, beve_read_aligned.
    rewrite <- (app_nil_r (enc_aligned t base xs)). now rewrite parse_aligned_wrong.
  - now apply decode_ref_aligned_wrong.
  - now apply decode_ref_bulk_wrong.
Qed.

Lemma wrong_format_rejected t u m : h_bfmt (m_hdr m) <> BODY_BEVE ->
  decode_typed_slice t m = DErr BFormat /\ decode_complex_slice u m = DErr BFormat /\
  route_slice t (h_bfmt (m_hdr m)) (m_body m) = DErr BRemote /\
  (forall addr, route_ref t (h_bfmt (m_hdr m)) addr (m_body m) = DErr BRemote).
Proof.
  intros H. unfold route_slice, route_ref.
  rewrite decode_typed_slice_wrong_format, decode_complex_slice_wrong_format by exact H.
  replace (h_bfmt (m_hdr m) =? BODY_BEVE) with false by lia. repeat split.
Qed.

Lemma live_calls t qlen addr xs : slice_ok t xs = true ->
  live_call RSlice CBulk t qlen addr xs = DOk xs /\ live_call RSlice CSerde t qlen addr xs = DOk xs /\
  live_call RRef CBulk t qlen addr xs = DOk xs /\ live_call RRef CSerde t qlen addr xs = DOk xs /\
  live_call RRef CAligned t qlen addr xs = DOk xs /\
  live_call RTyped CBulk t qlen addr xs = DOk xs /\ live_call RTyped CSerde t qlen addr xs = DOk xs /\
  live_call RSlice CAligned t qlen addr xs = DErr BRemote.
Proof. intros H. repeat split; now rewrite live_call_ok by exact H. Qed.
