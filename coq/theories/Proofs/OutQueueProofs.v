(** Proofs about the bounded outbound channel ([Model/OutQueue.v]). *)
From RepeV Require Import Model.OutQueue.
From Coq Require Import Permutation.
From Coq Require Import ZifyBool ZifyN ZifyNat.

Section Proofs.
Context {A : Set}.
Notation qst := (qst A).

(** ** taking the next message of a producer *)
Lemma take_head_split : forall (progs : list (list A)) i x progs',
  take_head progs i = Some (x, progs') ->
  exists pre post, concat progs = pre ++ x :: post /\ concat progs' = pre ++ post.
Proof.
  induction progs as [|p rest IH]; intros i x progs' H; cbn [take_head] in H; [discriminate|].
  destruct i as [|i'].
  - destruct p as [|y p']; [discriminate|]. inversion H; subst. exists [], (p' ++ concat rest). split; reflexivity.
  - destruct (take_head rest i') as [[y rest']|] eqn:E; [|discriminate]. inversion H; subst.
    destruct (IH _ _ _ E) as (pre & post & H1 & H2).
    exists (p ++ pre), post. cbn [concat]. rewrite H1, H2, <- !app_assoc. split; reflexivity.
Qed.

Lemma take_head_some : forall (progs : list (list A)),
  concat progs <> [] -> exists i x progs', take_head progs i = Some (x, progs').
Proof.
  induction progs as [|p rest IH]; intros H; [contradiction H; reflexivity|].
  destruct p as [|y p'].
  - cbn [concat app] in H. destruct (IH H) as (i & x & progs' & E).
    exists (S i), x, ([] :: progs'). cbn [take_head]. rewrite E. reflexivity.
  - exists O, y, (p' :: rest). reflexivity.
Qed.

Lemma take_head_single : forall (p : list A) i x progs',
  take_head [p] i = Some (x, progs') -> i = O /\ exists p', p = x :: p' /\ progs' = [p'].
Proof.
  intros p i x progs' H. destruct i as [|i']; cbn [take_head] in H.
  - destruct p as [|y p']; [discriminate|]. inversion H; subst. split; [reflexivity|]. exists p'. split; reflexivity.
  - discriminate.
Qed.

(** ** nothing is lost, nothing is duplicated (waiting sends) *)
Lemma step_conserves : forall (s : qst) a, waiting_act a = true -> Permutation (all_of (qstep s a)) (all_of s).
Proof.
  intros s a Hw. destruct a as [i| |i]; [| |discriminate]; unfold qstep, all_of.
  - destruct (take_head (q_progs s) i) as [[x progs']|] eqn:E; [|apply Permutation_refl].
    destruct (has_room s); [|apply Permutation_refl]. cbn [q_wire q_items q_progs].
    destruct (take_head_split _ _ _ _ E) as (pre & post & H1 & H2). rewrite H1, H2.
    apply Permutation_app_head. rewrite <- app_assoc. apply Permutation_app_head.
    cbn [app]. apply Permutation_middle.
  - destruct (q_items s) as [|y rest] eqn:E; [rewrite E; apply Permutation_refl|].
    cbn [q_wire q_items q_progs]. rewrite <- app_assoc. apply Permutation_refl.
Qed.

Theorem run_conserves : forall acts (s : qst),
  forallb waiting_act acts = true -> Permutation (all_of (qrun s acts)) (all_of s).
Proof.
  induction acts as [|a acts IH]; intros s H; [apply Permutation_refl|].
  cbn [forallb] in H. apply andb_prop in H as [Ha Hr]. unfold qrun; cbn [fold_left].
  eapply Permutation_trans; [apply (IH (qstep s a) Hr)|apply step_conserves; exact Ha].
Qed.

(** ** the queue never holds more than its capacity *)
Lemma step_cap : forall (s : qst) a, q_cap (qstep s a) = q_cap s.
Proof.
  intros s a. destruct a as [i| |i]; unfold qstep.
  - destruct (take_head (q_progs s) i) as [[x progs']|]; [|reflexivity]. destruct (has_room s); reflexivity.
  - destruct (q_items s); reflexivity.
  - destruct (take_head (q_progs s) i) as [[x progs']|]; [|reflexivity]. destruct (has_room s); reflexivity.
Qed.

Lemma step_bounded : forall (s : qst) a,
  (length (q_items s) <= q_cap s)%nat -> (length (q_items (qstep s a)) <= q_cap (qstep s a))%nat.
Proof.
  intros s a H. rewrite step_cap. destruct a as [i| |i]; unfold qstep.
  - destruct (take_head (q_progs s) i) as [[x progs']|]; [|exact H].
    destruct (has_room s) eqn:R; [|exact H]. unfold has_room in R. cbn [q_items]. rewrite app_length; cbn [length]. lia.
  - destruct (q_items s) as [|y rest] eqn:E; [rewrite E; cbn [length]; lia|]. cbn [q_items]. cbn [length] in H. lia.
  - destruct (take_head (q_progs s) i) as [[x progs']|]; [|exact H].
    destruct (has_room s) eqn:R; [|exact H]. unfold has_room in R. cbn [q_items]. rewrite app_length; cbn [length]. lia.
Qed.

Theorem run_bounded : forall acts (s : qst),
  (length (q_items s) <= q_cap s)%nat ->
  (length (q_items (qrun s acts)) <= q_cap s)%nat /\ q_cap (qrun s acts) = q_cap s.
Proof.
  induction acts as [|a acts IH]; intros s H; [split; [exact H|reflexivity]|].
  unfold qrun; cbn [fold_left]. destruct (IH (qstep s a) (step_bounded s a H)) as [H1 H2].
  fold (qrun (qstep s a) acts). rewrite step_cap in H1, H2. split; assumption.
Qed.

(** ** no deadlock: with a capacity of at least one, while anything is left some waiting
    action is enabled (the writer when the queue is non-empty, a sender otherwise) *)
Theorem no_deadlock : forall (s : qst),
  (0 < q_cap s)%nat -> quiescent s = false ->
  exists a, waiting_act a = true /\ enabled s a = true.
Proof.
  intros s Hc Hq. unfold quiescent in Hq.
  destruct (q_items s) as [|y rest] eqn:E.
  - destruct (concat (q_progs s)) as [|z zs] eqn:C; [discriminate|].
    assert (Hne : concat (q_progs s) <> []) by (rewrite C; discriminate).
    destruct (take_head_some _ Hne) as (i & x & progs' & T).
    exists (Send i). split; [reflexivity|]. unfold enabled, has_room. rewrite T, E. cbn [length]. lia.
  - exists Drain. split; [reflexivity|]. unfold enabled. rewrite E. reflexivity.
Qed.

(** ** every enabled waiting action does one unit of the remaining work *)
Lemma step_measure : forall (s : qst) a,
  waiting_act a = true -> enabled s a = true -> S (measure (qstep s a)) = measure s.
Proof.
  intros s a Hw He. destruct a as [i| |i]; [| |discriminate]; unfold enabled in He; unfold qstep, measure.
  - destruct (take_head (q_progs s) i) as [[x progs']|] eqn:T; [|discriminate]. rewrite He.
    cbn [q_items q_progs]. destruct (take_head_split _ _ _ _ T) as (pre & post & H1 & H2).
    rewrite H1, H2, !app_length. cbn [length]. lia.
  - destruct (q_items s) as [|y rest] eqn:E; [discriminate|]. cbn [q_items q_progs length]. lia.
Qed.

Theorem run_measure : forall acts (s : qst),
  forallb waiting_act acts = true -> all_enabled s acts = true ->
  (measure (qrun s acts) + length acts = measure s)%nat.
Proof.
  induction acts as [|a acts IH]; intros s Hw He; [cbn; lia|].
  cbn [forallb] in Hw. apply andb_prop in Hw as [Hwa Hwr].
  cbn [all_enabled] in He. apply andb_prop in He as [Hea Her].
  unfold qrun; cbn [fold_left length]. fold (qrun (qstep s a) acts).
  pose proof (IH (qstep s a) Hwr Her) as H1. pose proof (step_measure s a Hwa Hea) as H2. lia.
Qed.

Lemma quiescent_measure : forall (s : qst), quiescent s = true <-> measure s = O.
Proof.
  intros s. unfold quiescent, measure. destruct (q_items s) as [|y r]; destruct (concat (q_progs s)) as [|z zs]; cbn [length]; split; intros H; try reflexivity; try discriminate; lia.
Qed.

Lemma quiescent_all_on_wire : forall (s : qst), quiescent s = true -> all_of s = q_wire s.
Proof.
  intros s H. unfold quiescent in H. unfold all_of.
  destruct (q_items s); [|discriminate]. destruct (concat (q_progs s)); [|discriminate]. rewrite !app_nil_r. reflexivity.
Qed.

(** ** delivery: a schedule of enabled waiting actions is never longer than the work left; a
    maximal one (nothing enabled after it) ends with every message on the wire, exactly once *)
Theorem delivery : forall acts (s : qst),
  (0 < q_cap s)%nat -> forallb waiting_act acts = true -> all_enabled s acts = true ->
  (length acts <= measure s)%nat /\
  ((forall a, waiting_act a = true -> enabled (qrun s acts) a = false) ->
   quiescent (qrun s acts) = true /\ Permutation (q_wire (qrun s acts)) (all_of s)).
Proof.
  intros acts s Hc Hw He. pose proof (run_measure acts s Hw He) as Hm. split; [lia|].
  intros Hmax.
  assert (Hq : quiescent (qrun s acts) = true).
  { destruct (quiescent (qrun s acts)) eqn:Q; [reflexivity|exfalso].
    assert (Hc' : (0 < q_cap (qrun s acts))%nat).
    { clear -Hc. revert s Hc. induction acts as [|a acts IH]; intros s Hc; [exact Hc|].
      unfold qrun; cbn [fold_left]. apply IH. rewrite step_cap. exact Hc. }
    destruct (no_deadlock _ Hc' Q) as (a & Ha & Hea). rewrite (Hmax a Ha) in Hea. discriminate. }
  split; [exact Hq|]. rewrite <- (quiescent_all_on_wire _ Hq). apply run_conserves. exact Hw.
Qed.

(** ** one producer (the reader): the order is kept as well *)
Lemma step_fifo_single : forall (s : qst) a p,
  waiting_act a = true -> q_progs s = [p] ->
  (exists p', q_progs (qstep s a) = [p']) /\ all_of (qstep s a) = all_of s.
Proof.
  intros s a p Hw Hp. destruct a as [i| |i]; [| |discriminate]; unfold qstep, all_of.
  - destruct (take_head (q_progs s) i) as [[x progs']|] eqn:T; [|split; [exists p; exact Hp|reflexivity]].
    destruct (has_room s); [|split; [exists p; exact Hp|reflexivity]].
    rewrite Hp in T. destruct (take_head_single _ _ _ _ T) as (_ & p' & E1 & E2). subst.
    cbn [q_wire q_items q_progs]. split; [exists p'; reflexivity|].
    rewrite Hp. cbn [concat]. rewrite !app_nil_r, <- app_assoc. reflexivity.
  - destruct (q_items s) as [|y rest] eqn:E; [split; [exists p; exact Hp|rewrite E; reflexivity]|].
    cbn [q_wire q_items q_progs]. split; [exists p; exact Hp|]. rewrite <- app_assoc. reflexivity.
Qed.

Theorem run_fifo_single : forall acts (s : qst) p,
  forallb waiting_act acts = true -> q_progs s = [p] -> all_of (qrun s acts) = all_of s.
Proof.
  induction acts as [|a acts IH]; intros s p Hw Hp; [reflexivity|].
  cbn [forallb] in Hw. apply andb_prop in Hw as [Hwa Hwr].
  destruct (step_fifo_single s a p Hwa Hp) as [[p' Hp'] Heq].
  unfold qrun; cbn [fold_left]. fold (qrun (qstep s a) acts). rewrite (IH _ p' Hwr Hp'). exact Heq.
Qed.

(** the reader as the only producer: whatever the capacity (at least one) and whatever the
    schedule, a maximal run puts exactly its messages on the wire, in its order *)
Theorem single_producer_delivery : forall (q : nat) (msgs : list A) acts,
  (0 < q)%nat -> forallb waiting_act acts = true ->
  all_enabled (mkQ q [msgs] [] []) acts = true ->
  (forall a, waiting_act a = true -> enabled (qrun (mkQ q [msgs] [] []) acts) a = false) ->
  q_wire (qrun (mkQ q [msgs] [] []) acts) = msgs.
Proof.
  intros q msgs acts Hq Hw He Hmax.
  destruct (delivery acts (mkQ q [msgs] [] []) Hq Hw He) as [_ H]. destruct (H Hmax) as [Hqui _].
  rewrite <- (quiescent_all_on_wire _ Hqui). rewrite (run_fifo_single acts (mkQ q [msgs] [] []) msgs Hw (eq_refl [msgs])).
  unfold all_of; cbn [q_wire q_items q_progs concat app]. apply app_nil_r.
Qed.

End Proofs.

(** ** the non-waiting send loses a message when the queue is full (capacity 1, two
    back-to-back sends, then the writer): the second message is nowhere *)
Lemma try_send_loses :
  exists (s : qst N) acts,
    (0 < q_cap s)%nat /\ quiescent (qrun s acts) = true /\ ~ Permutation (q_wire (qrun s acts)) (all_of s).
Proof.
  exists (mkQ 1%nat [[1; 2]] [] []), [TrySend 0; TrySend 0; Drain].
  split; [cbn; lia|]. split; [vm_compute; reflexivity|].
  intros H. apply Permutation_length in H. vm_compute in H. discriminate.
Qed.

(** the same schedule with waiting sends is not even possible: the second send is not enabled
    until the writer has run, and then both arrive, in order *)
Example send_waits :
  let s := mkQ 1%nat [[1; 2]] [] [] in
  enabled (qrun s [Send 0]) (Send 0) = false /\
  q_wire (qrun s [Send 0; Drain; Send 0; Drain]) = [1; 2].
Proof. vm_compute. split; reflexivity. Qed.
