(** Proofs about the client failure model (C06): an invariant of every run,
    its consequences (no hang, later calls fail, subscriber end-of-stream, no
    residue, late responses harmless), and the refinement of the scenario
    specification by the model. *)
From RepeV Require Import Model.ClientFail.
From Coq Require Import ZifyBool ZifyN ZifyNat.
Ltac Zify.zify_post_hook ::= Z.div_mod_to_equations.

(** ** association lists *)
Lemma cget_cset_same l c v : cget (cset l c v) c = v.
Proof.
  induction l as [|[c' v'] l IH]; cbn [cset cget].
  - now rewrite N.eqb_refl.
  - destruct (c' =? c) eqn:E; cbn [cget]; [now rewrite N.eqb_refl | now rewrite E].
Qed.

Lemma cget_cset_other l c v c' : c' <> c -> cget (cset l c v) c' = cget l c'.
Proof.
  intros Hne. induction l as [|[c0 v0] l IH]; cbn [cset cget].
  - destruct (c =? c') eqn:E; [apply N.eqb_eq in E; congruence | reflexivity].
  - destruct (c0 =? c) eqn:E; cbn [cget].
    + apply N.eqb_eq in E; subst c0.
      destruct (c =? c') eqn:E2; [apply N.eqb_eq in E2; congruence | reflexivity].
    + destruct (c0 =? c'); [reflexivity | exact IH].
Qed.

Lemma cget_cset l c v c' : cget (cset l c v) c' = if c' =? c then v else cget l c'.
Proof.
  destruct (c' =? c) eqn:E.
  - apply N.eqb_eq in E; subst; apply cget_cset_same.
  - apply N.eqb_neq in E; now apply cget_cset_other.
Qed.

Lemma in_pdel l id i c : In (i, c) (pdel l id) <-> In (i, c) l /\ i <> id.
Proof.
  induction l as [|[i0 c0] l IH]; cbn [pdel In]; [tauto|].
  destruct (i0 =? id) eqn:E.
  - apply N.eqb_eq in E; subst i0. rewrite IH. split; [tauto|].
    intros [[H|H] Hne]; [inversion H; congruence | tauto].
  - apply N.eqb_neq in E. cbn [In]. rewrite IH. split.
    + intros [H|H]; [inversion H; subst; tauto | tauto].
    + tauto.
Qed.

Lemma nodup_pdel l id : NoDup (map fst l) -> NoDup (map fst (pdel l id)).
Proof.
  induction l as [|[i0 c0] l IH]; cbn [pdel map fst]; intros H; [constructor|].
  inversion H as [|? ? Hn Hd]; subst.
  destruct (i0 =? id); [now apply IH|].
  cbn [map fst]. constructor; [|now apply IH].
  intros Hin. apply Hn. apply in_map_iff in Hin. destruct Hin as [[i c] [Hf Hi]]. cbn in Hf; subst i.
  apply in_pdel in Hi. apply in_map_iff. exists (i0, c). tauto.
Qed.

Lemma pfind_in l id c : pfind l id = Some c -> In (id, c) l.
Proof.
  induction l as [|[i0 c0] l IH]; cbn [pfind In]; [discriminate|].
  destruct (i0 =? id) eqn:E; intros H.
  - apply N.eqb_eq in E. inversion H; subst. now left.
  - right; now apply IH.
Qed.

Lemma pfind_none l id : pfind l id = None <-> forall c, ~ In (id, c) l.
Proof.
  induction l as [|[i0 c0] l IH]; cbn [pfind In]; [split; [intros _ c []| reflexivity]|].
  destruct (i0 =? id) eqn:E.
  - apply N.eqb_eq in E; subst. split; [discriminate|]. intros H. exfalso. apply (H c0). now left.
  - apply N.eqb_neq in E. rewrite IH. split.
    + intros H c [H1|H1]; [inversion H1; congruence | now apply (H c)].
    + intros H c H1. apply (H c). now right.
Qed.

Lemma in_pfind l id c : NoDup (map fst l) -> In (id, c) l -> pfind l id = Some c.
Proof.
  induction l as [|[i0 c0] l IH]; cbn [pfind In map fst]; intros Hd Hin; [contradiction|].
  inversion Hd as [|? ? Hn Hd']; subst.
  destruct Hin as [H|H].
  - inversion H; subst. now rewrite N.eqb_refl.
  - destruct (i0 =? id) eqn:E; [|now apply IH].
    apply N.eqb_eq in E; subst. exfalso. apply Hn. apply in_map_iff. now exists (id, c).
Qed.

Lemma pdel_none l id : (forall c, ~ In (id, c) l) -> pdel l id = l.
Proof.
  induction l as [|[i0 c0] l IH]; cbn [pdel]; intros H; [reflexivity|].
  destruct (i0 =? id) eqn:E.
  - apply N.eqb_eq in E; subst. exfalso. apply (H c0). now left.
  - f_equal. apply IH. intros c Hc. apply (H c). now right.
Qed.

(** ** delivery and drain *)
Lemma id_of_deliver v r : id_of (deliver_st v r) = id_of v.
Proof. destruct v as [|id [x|]|id [x|]|id|id|id x]; reflexivity. Qed.

Lemma deliver_none v r : deliver_st v r = CNone <-> v = CNone.
Proof. destruct v as [|id [x|]|id [x|]|id|id|id x]; cbn; split; congruence. Qed.

Lemma deliver_idem v r : deliver_st (deliver_st v r) r = deliver_st v r.
Proof. destruct v as [|id [x|]|id [x|]|id|id|id x]; reflexivity. Qed.

Definition needs_entry (v : cst) : Prop :=
  match v with CReg _ None | CStall _ None | CWait _ => True | _ => False end.

Definition open_st (v : cst) : Prop :=
  match v with CReg _ None | CStall _ None | CWait _ | CFired _ => True | _ => False end.

Lemma needs_open v : needs_entry v -> open_st v.
Proof. destruct v as [|id [x|]|id [x|]|id|id|id x]; cbn; tauto. Qed.

Lemma deliver_not_needs v r : ~ needs_entry (deliver_st v r) \/ (deliver_st v r = v /\ ~ needs_entry v).
Proof. destruct v as [|id [x|]|id [x|]|id|id|id x]; cbn; tauto. Qed.

Lemma deliver_needs v r : needs_entry (deliver_st v r) -> False.
Proof. destruct v as [|id [x|]|id [x|]|id|id|id x]; cbn; tauto. Qed.

Definition has_caller (p : list (N * N)) (c : N) : bool := existsb (fun e => snd e =? c) p.

Lemma has_caller_in p c : has_caller p c = true <-> exists id, In (id, c) p.
Proof.
  unfold has_caller. rewrite existsb_exists. split.
  - intros [[i c'] [Hi He]]. cbn in He. apply N.eqb_eq in He; subst. now exists i.
  - intros [id Hi]. exists (id, c). split; [assumption | cbn; apply N.eqb_refl].
Qed.

Lemma drain_get p : forall cs c,
  cget (drain_cs p cs) c = if has_caller p c then deliver_st (cget cs c) RConn else cget cs c.
Proof.
  unfold drain_cs, has_caller.
  induction p as [|[i c0] p IH]; intros cs c; cbn [fold_left existsb snd]; [reflexivity|].
  rewrite IH. unfold cdeliver. rewrite cget_cset. rewrite (N.eqb_sym c c0).
  destruct (c0 =? c) eqn:E; cbn [orb].
  - apply N.eqb_eq in E; subst c0.
    destruct (existsb (fun e : N * N => snd e =? c) p); [apply deliver_idem | reflexivity].
  - reflexivity.
Qed.

(** ** the invariant *)
Definition past_fail (r : rphase) : bool :=
  match r with ROwnShut | RShutDone | RDrained | RDead => true | _ => false end.
Definition before_subend (r : rphase) : bool :=
  match r with RAlive | RHold _ | RErr => true | _ => false end.

Record inv (s : st) : Prop := mkInv {
  i_nodup : NoDup (map fst (s_pending s));
  i_entry : forall id c, In (id, c) (s_pending s) -> id_of (stof s c) = id /\ open_st (stof s c);
  i_ids : forall c, stof s c <> CNone -> 1 <= id_of (stof s c) < s_next s;
  i_uniq : forall c1 c2, stof s c1 <> CNone -> id_of (stof s c1) = id_of (stof s c2) -> c1 = c2;
  i_hand : forall c, s_rd s = RHold (Some c) -> stof s c <> CNone /\ forall id, ~ In (id, c) (s_pending s);
  i_open : forall c, needs_entry (stof s c) -> s_rd s = RHold (Some c) \/ In (id_of (stof s c), c) (s_pending s);
  i_live : forall c id, stof s c = CWait id -> dead s = true -> s_rd s = RHold (Some c);
  i_shut : past_fail (s_rd s) = true \/ s_gstop s = true -> s_shut s = true;
  i_lock : forall c, s_lock s = Some c <-> exists id mb, stof s c = CStall id mb;
  i_sub : s_kind s = KWs -> s_sub s = SSub -> before_subend (s_rd s) = true;
  i_next : 1 <= s_next s
}.

Lemma inv_init k : inv (init k).
Proof.
  constructor; unfold stof; cbn.
  - constructor.
  - intros id c [].
  - intros c H; congruence.
  - intros c1 c2 H; congruence.
  - intros c H; discriminate.
  - intros c [].
  - intros c id H; discriminate.
  - intros [H|H]; discriminate.
  - intros c; split; [discriminate | intros [id [mb H]]; discriminate].
  - intros _ H; discriminate.
  - lia.
Qed.

Lemma dead_shut s : inv s -> dead s = true -> s_shut s = true.
Proof.
  intros I H. apply (i_shut s I). unfold dead in H.
  destruct (s_rd s); cbn; auto.
Qed.

(** entries of other callers survive the removal of caller [c]'s id *)
Lemma entry_other s c c' :
  inv s -> c' <> c -> stof s c <> CNone ->
  In (id_of (stof s c'), c') (s_pending s) -> id_of (stof s c') <> id_of (stof s c).
Proof.
  intros I Hne Hc Hin Heq. apply Hne. symmetry. apply (i_uniq s I c c' Hc). now symmetry.
Qed.

(** *** family A: caller [c] moves to [v'] with the same id; the pending map
    is unchanged; the writer lock becomes [l'] *)
Lemma inv_status_lock s c v' l' :
  inv s ->
  stof s c <> CNone -> v' <> CNone -> id_of v' = id_of (stof s c) ->
  (forall id, In (id, c) (s_pending s) -> open_st v') ->
  (needs_entry v' -> s_rd s = RHold (Some c) \/ In (id_of v', c) (s_pending s)) ->
  (forall id, v' = CWait id -> dead s = true -> s_rd s = RHold (Some c)) ->
  (forall c', l' = Some c' <-> exists id mb, cget (cset (s_cs s) c v') c' = CStall id mb) ->
  inv (set_lock (set_pc s (s_pending s) (cset (s_cs s) c v')) l').
Proof.
  intros I Hc Hv' Hid Hop Hne Hlv Hlk.
  constructor; unfold stof in *; cbn [set_lock set_pc s_pending s_cs s_rd s_next s_shut s_gstop s_lock s_sub s_kind dead].
  - apply (i_nodup s I).
  - intros id c' Hin. rewrite cget_cset. destruct (c' =? c) eqn:E.
    + apply N.eqb_eq in E; subst c'. split; [|now apply (Hop id)].
      rewrite Hid. now apply (i_entry s I).
    + now apply (i_entry s I).
  - intros c'. rewrite cget_cset. destruct (c' =? c) eqn:E.
    + intros _. rewrite Hid. now apply (i_ids s I).
    + apply (i_ids s I).
  - intros c1 c2. rewrite !cget_cset.
    destruct (c1 =? c) eqn:E1; destruct (c2 =? c) eqn:E2;
      try (apply N.eqb_eq in E1; subst c1); try (apply N.eqb_eq in E2; subst c2).
    + reflexivity.
    + intros _ H. rewrite Hid in H. now apply (i_uniq s I).
    + intros H1 H. rewrite Hid in H. now apply (i_uniq s I).
    + apply (i_uniq s I).
  - intros c' Hr. rewrite cget_cset. destruct (c' =? c) eqn:E.
    + apply N.eqb_eq in E; subst c'. split; [assumption | apply (i_hand s I c Hr)].
    + apply (i_hand s I c' Hr).
  - intros c'. rewrite cget_cset. destruct (c' =? c) eqn:E.
    + apply N.eqb_eq in E; subst c'. exact Hne.
    + apply (i_open s I).
  - intros c' id. rewrite cget_cset. destruct (c' =? c) eqn:E.
    + apply N.eqb_eq in E; subst c'. intros H Hd. exact (Hlv id H Hd).
    + apply (i_live s I).
  - apply (i_shut s I).
  - exact Hlk.
  - apply (i_sub s I).
  - apply (i_next s I).
Qed.

(** the lock condition when neither the old nor the new state of [c] is a stall *)
Lemma lock_same s c v' :
  inv s -> (forall id mb, stof s c <> CStall id mb) -> (forall id mb, v' <> CStall id mb) ->
  forall c', s_lock s = Some c' <-> exists id mb, cget (cset (s_cs s) c v') c' = CStall id mb.
Proof.
  intros I Hs1 Hs2 c'. rewrite (i_lock s I c'). unfold stof in *. rewrite cget_cset. destruct (c' =? c) eqn:E.
  - apply N.eqb_eq in E; subst c'. split; intros [id [mb H]]; exfalso; [eapply Hs1 | eapply Hs2]; eauto.
  - reflexivity.
Qed.

(** the lock condition when [c] was the stalled writer and stops being one *)
Lemma lock_released s c v' id0 mb0 :
  inv s -> stof s c = CStall id0 mb0 -> (forall id mb, v' <> CStall id mb) ->
  forall c', None = Some c' <-> exists id mb, cget (cset (s_cs s) c v') c' = CStall id mb.
Proof.
  intros I Hc Hs2 c'. split; [discriminate|]. intros [id [mb H]]. exfalso.
  rewrite cget_cset in H. destruct (c' =? c) eqn:E; [eapply Hs2; eauto|].
  apply N.eqb_neq in E. apply E.
  assert (H1 : s_lock s = Some c') by (apply (i_lock s I); unfold stof; eauto).
  assert (H2 : s_lock s = Some c) by (apply (i_lock s I); eauto).
  congruence.
Qed.

(** the lock condition when [c] becomes the stalled writer and the lock was free *)
Lemma lock_taken s c id0 mb0 :
  inv s -> s_lock s = None ->
  forall c', Some c = Some c' <-> exists id mb, cget (cset (s_cs s) c (CStall id0 mb0)) c' = CStall id mb.
Proof.
  intros I Hl c'. rewrite cget_cset. split.
  - intros H; inversion H; subst. rewrite N.eqb_refl. eauto.
  - destruct (c' =? c) eqn:E; [apply N.eqb_eq in E; now subst|].
    intros H. apply (i_lock s I c') in H. congruence.
Qed.

(** *** family B: caller [c] is closed: its id leaves the pending map and it
    returns; the writer lock becomes [l'] *)
Lemma inv_close_lock s c r l' :
  inv s -> stof s c <> CNone ->
  (forall c', l' = Some c' <-> exists id mb, cget (cset (s_cs s) c (CDone (id_of (stof s c)) r)) c' = CStall id mb) ->
  inv (set_lock (set_pc s (pdel (s_pending s) (id_of (stof s c))) (cset (s_cs s) c (CDone (id_of (stof s c)) r))) l').
Proof.
  intros I Hc Hlk.
  constructor; unfold stof in *; cbn [set_lock set_pc s_pending s_cs s_rd s_next s_shut s_gstop s_lock s_sub s_kind dead].
  - apply nodup_pdel, (i_nodup s I).
  - intros id c' Hin. apply in_pdel in Hin. destruct Hin as [Hin Hne].
    destruct (i_entry s I id c' Hin) as [H1 H2].
    rewrite cget_cset. destruct (c' =? c) eqn:E.
    + apply N.eqb_eq in E; subst c'. exfalso. apply Hne. symmetry. exact H1.
    + now split.
  - intros c'. rewrite cget_cset. destruct (c' =? c) eqn:E.
    + intros _. cbn [id_of]. now apply (i_ids s I).
    + apply (i_ids s I).
  - intros c1 c2. rewrite !cget_cset.
    destruct (c1 =? c) eqn:E1; destruct (c2 =? c) eqn:E2;
      try (apply N.eqb_eq in E1; subst c1); try (apply N.eqb_eq in E2; subst c2); cbn [id_of].
    + reflexivity.
    + intros _ H. now apply (i_uniq s I).
    + intros H1 H. now apply (i_uniq s I).
    + apply (i_uniq s I).
  - intros c' Hr. destruct (i_hand s I c' Hr) as [H1 H2]. rewrite cget_cset. split.
    + destruct (c' =? c); [discriminate | assumption].
    + intros id Hin. apply in_pdel in Hin. now apply (H2 id).
  - intros c'. rewrite cget_cset. destruct (c' =? c) eqn:E; [cbn; tauto|].
    apply N.eqb_neq in E. intros Hn. destruct (i_open s I c' Hn) as [H|H]; [now left|right].
    apply in_pdel. split; [assumption|].
    apply (entry_other s c c' I E Hc H).
  - intros c' id. rewrite cget_cset. destruct (c' =? c); [discriminate | apply (i_live s I)].
  - apply (i_shut s I).
  - exact Hlk.
  - apply (i_sub s I).
  - apply (i_next s I).
Qed.

(** *** flags *)
Lemma inv_set_shut s : inv s -> inv (set_shut s true).
Proof. intros I. destruct I. constructor; cbn; auto. Qed.

Lemma inv_set_nrecv s n : inv s -> inv (set_nrecv s n).
Proof. intros I. destruct I. constructor; cbn; auto. Qed.

(** *** family F: drain *)
Lemma stof_drain s c :
  stof (drain_all s) c = if has_caller (s_pending s) c then deliver_st (stof s c) RConn else stof s c.
Proof. unfold stof, drain_all. cbn [set_pc s_cs]. apply drain_get. Qed.

Lemma stof_drain_none s c : stof (drain_all s) c = CNone <-> stof s c = CNone.
Proof. rewrite stof_drain. destruct (has_caller (s_pending s) c); [apply deliver_none | reflexivity]. Qed.

Lemma id_of_drain s c : id_of (stof (drain_all s) c) = id_of (stof s c).
Proof. rewrite stof_drain. destruct (has_caller (s_pending s) c); [apply id_of_deliver | reflexivity]. Qed.

Lemma drain_needs s c : inv s -> needs_entry (stof (drain_all s) c) -> s_rd s = RHold (Some c).
Proof.
  intros I. rewrite stof_drain. destruct (has_caller (s_pending s) c) eqn:E.
  - intros H. exfalso. eapply deliver_needs; eauto.
  - intros H. destruct (i_open s I c H) as [H1|H1]; [assumption|].
    exfalso. assert (has_caller (s_pending s) c = true) by (apply has_caller_in; eauto). congruence.
Qed.

Lemma stall_deliver v r : (exists id mb, deliver_st v r = CStall id mb) <-> (exists id mb, v = CStall id mb).
Proof.
  destruct v as [|id [x|]|id [x|]|id|id|id x]; cbn; split; intros [i [m H]]; try discriminate; eauto.
Qed.

(** after a drain, with phase [r] and flags set *)
Lemma inv_drain s r g :
  inv s ->
  (forall c, r = RHold (Some c) -> s_rd s = RHold (Some c)) ->
  (forall c, s_rd s = RHold (Some c) -> r = RHold (Some c)) ->
  (s_kind s = KWs -> s_sub s = SSub -> before_subend r = true) ->
  inv (mkSt (s_kind s) true g r [] (drain_cs (s_pending s) (s_cs s)) (s_next s) (s_lock s) (s_sub s) (s_nrecv s)).
Proof.
  intros I Hr Hr0 Hsub.
  assert (E : forall c, cget (drain_cs (s_pending s) (s_cs s)) c = stof (drain_all s) c) by reflexivity.
  constructor; unfold stof; cbn [s_pending s_cs s_rd s_next s_shut s_gstop s_lock s_sub s_kind dead].
  - constructor.
  - intros id c [].
  - intros c. rewrite E, id_of_drain. intros H. apply (i_ids s I). intros H2. apply H. now apply stof_drain_none.
  - intros c1 c2. rewrite !E, !id_of_drain. intros H. apply (i_uniq s I). intros H2. apply H. now apply stof_drain_none.
  - intros c H. split; [|intros id []]. rewrite E. intros H2. apply (proj1 (stof_drain_none s c)) in H2.
    destruct (i_hand s I c (Hr c H)) as [Hn _].
    now apply Hn.
  - intros c. rewrite E. intros H. left. apply Hr0. now apply drain_needs.
  - intros c id. rewrite E. intros H _. apply Hr0. apply drain_needs; [assumption|]. rewrite H. exact Logic.I.
  - reflexivity.
  - intros c. rewrite (i_lock s I c). rewrite E, stof_drain.
    destruct (has_caller (s_pending s) c); [symmetry; apply stall_deliver | reflexivity].
  - exact Hsub.
  - apply (i_next s I).
Qed.

Lemma inv_set_sub s u :
  inv s -> (s_kind s = KWs -> u = SSub -> before_subend (s_rd s) = true) -> inv (set_sub s u).
Proof. intros I H. destruct I. constructor; cbn; auto. Qed.

Lemma inv_set_gstop s : inv s -> s_shut s = true -> dead s = true -> inv (set_gstop s true).
Proof.
  intros I Hs Hd. destruct I as [a b c d e f g h i j k]. constructor; cbn; auto.
  intros c0 id H _. apply (g c0 id H Hd).
Qed.

(** a phase change that is not a hand *)
Lemma inv_set_rd s r :
  inv s -> (forall o, s_rd s <> RHold o) -> (forall o, r <> RHold o) ->
  dead (set_rd s r) = dead s ->
  (past_fail r = true -> s_shut s = true) ->
  (s_kind s = KWs -> s_sub s = SSub -> before_subend r = true) ->
  inv (set_rd s r).
Proof.
  intros I H0 H1 Hd Hs Hsub. destruct I as [a b c d e f g h i j k].
  constructor; unfold stof in *; cbn [set_rd s_pending s_cs s_rd s_next s_shut s_gstop s_lock s_sub s_kind]; auto.
  - intros c0 H. exfalso. eapply H1; eauto.
  - intros c0 Hn. destruct (f c0 Hn) as [H|H]; [exfalso; eapply H0; eauto | now right].
  - intros c0 id H Hdd. rewrite Hd in Hdd. exfalso. eapply H0. apply (g c0 id H Hdd).
  - intros [H|H]; [now apply Hs | apply h; now right].
Qed.

(** every pending id is below the counter *)
Lemma entry_lt s id c : inv s -> In (id, c) (s_pending s) -> id < s_next s.
Proof.
  intros I Hin. destruct (i_entry s I id c Hin) as [H1 H2].
  assert (stof s c <> CNone) by (intros E; rewrite E in H2; exact H2).
  pose proof (i_ids s I c H). lia.
Qed.

Lemma nodup_snoc {A} (l : list A) x : NoDup l -> ~ In x l -> NoDup (l ++ [x]).
Proof.
  induction l as [|y l IH]; cbn [app]; intros Hd Hn.
  - constructor; [intros [] | constructor].
  - inversion Hd as [|? ? Hy Hd']; subst. constructor.
    + intros Hin. apply in_app_or in Hin. destruct Hin as [H|[H|[]]]; [contradiction|].
      subst. apply Hn. now left.
    + apply IH; [assumption|]. intros H. apply Hn. now right.
Qed.

Lemma inv_register s c :
  inv s -> stof s c = CNone ->
  inv (set_next (set_pc s (s_pending s ++ [(s_next s, c)]) (cset (s_cs s) c (CReg (s_next s) None))) (s_next s + 1)).
Proof.
  intros I Hc. pose proof (i_next s I) as Hn.
  assert (Hhand : s_rd s <> RHold (Some c)).
  { intros H. destruct (i_hand s I c H) as [H1 _]. now apply H1. }
  constructor; unfold stof in *; cbn [set_next set_pc s_pending s_cs s_rd s_next s_shut s_gstop s_lock s_sub s_kind dead].
  - rewrite map_app. cbn [map fst]. apply nodup_snoc; [apply (i_nodup s I)|].
    intros Hin. apply in_map_iff in Hin. destruct Hin as [[i c'] [Hf Hi]]. cbn in Hf; subst i.
    pose proof (entry_lt s _ _ I Hi). lia.
  - intros id c' Hin. apply in_app_or in Hin. rewrite cget_cset. destruct Hin as [Hin|[Hin|[]]].
    + destruct (i_entry s I id c' Hin) as [H1 H2]. destruct (c' =? c) eqn:E.
      * apply N.eqb_eq in E; subst c'. unfold stof in H2. rewrite Hc in H2. contradiction.
      * now split.
    + inversion Hin; subst. rewrite N.eqb_refl. cbn. split; [reflexivity | exact Logic.I].
  - intros c'. rewrite cget_cset. destruct (c' =? c) eqn:E.
    + intros _. cbn [id_of]. lia.
    + intros H. pose proof (i_ids s I c' H) as Hi. unfold stof in Hi. lia.
  - intros c1 c2. rewrite !cget_cset.
    destruct (c1 =? c) eqn:E1; destruct (c2 =? c) eqn:E2;
      try (apply N.eqb_eq in E1; subst c1); try (apply N.eqb_eq in E2; subst c2); cbn [id_of].
    + reflexivity.
    + intros _ H. destruct (cget (s_cs s) c2) eqn:E3; [cbn in H; lia | | | | |];
        (assert (Hx : stof s c2 <> CNone) by (unfold stof; congruence);
         pose proof (i_ids s I c2 Hx) as Hi; unfold stof in Hi; rewrite E3 in Hi; cbn in *; lia).
    + intros H1 H. pose proof (i_ids s I c1 H1) as Hi. unfold stof in Hi. lia.
    + apply (i_uniq s I).
  - intros c' Hr. rewrite cget_cset. destruct (c' =? c) eqn:E.
    + apply N.eqb_eq in E; subst c'. contradiction.
    + destruct (i_hand s I c' Hr) as [H1 H2]. split; [assumption|].
      intros id Hin. apply in_app_or in Hin. destruct Hin as [Hin|[Hin|[]]]; [now apply (H2 id)|].
      inversion Hin; subst. apply N.eqb_neq in E. congruence.
  - intros c'. rewrite cget_cset. destruct (c' =? c) eqn:E.
    + apply N.eqb_eq in E; subst c'. intros _. right. cbn [id_of]. apply in_or_app. right. now left.
    + intros H. destruct (i_open s I c' H) as [H1|H1]; [now left | right; apply in_or_app; now left].
  - intros c' id. rewrite cget_cset. destruct (c' =? c); [discriminate | apply (i_live s I)].
  - apply (i_shut s I).
  - intros c'. rewrite (i_lock s I c'). rewrite cget_cset. destruct (c' =? c) eqn:E; [|reflexivity].
    apply N.eqb_eq in E; subst c'. unfold stof. rewrite Hc. split; intros [id [mb H]]; discriminate.
  - apply (i_sub s I).
  - lia.
Qed.

Lemma inv_take s id c :
  inv s -> s_rd s = RAlive -> pfind (s_pending s) id = Some c ->
  inv (set_rd (set_pc s (pdel (s_pending s) id) (s_cs s)) (RHold (Some c))).
Proof.
  intros I Hr Hf. apply pfind_in in Hf.
  destruct (i_entry s I id c Hf) as [Hid Hop].
  assert (Hc : stof s c <> CNone) by (intros E; rewrite E in Hop; exact Hop).
  constructor; unfold stof in *; cbn [set_rd set_pc s_pending s_cs s_rd s_next s_shut s_gstop s_lock s_sub s_kind].
  - apply nodup_pdel, (i_nodup s I).
  - intros id' c' Hin. apply in_pdel in Hin. now apply (i_entry s I).
  - apply (i_ids s I).
  - apply (i_uniq s I).
  - intros c' H. inversion H; subst c'. split; [assumption|].
    intros id' Hin. apply in_pdel in Hin. destruct Hin as [Hin Hne].
    destruct (i_entry s I id' c Hin) as [H1 _]. unfold stof in H1. congruence.
  - intros c' Hn. destruct (N.eq_dec c' c) as [->|Hne]; [now left|].
    right. destruct (i_open s I c' Hn) as [H|H]; [rewrite Hr in H; discriminate|].
    apply in_pdel. split; [assumption|]. rewrite <- Hid. now apply (entry_other s c c' I Hne Hc H).
  - intros c' id' H Hd. exfalso.
    assert (Hd' : dead s = true) by (unfold dead in *; rewrite Hr; exact Hd).
    pose proof (i_live s I c' id' H Hd'). rewrite Hr in H0. discriminate.
  - intros [H|H]; [discriminate | apply (i_shut s I); now right].
  - apply (i_lock s I).
  - intros _ _. reflexivity.
  - apply (i_next s I).
Qed.

Lemma inv_take_none s : inv s -> s_rd s = RAlive -> inv (set_rd s (RHold None)).
Proof.
  intros I Hr. destruct I as [a b c d e f g h i j k].
  constructor; unfold stof in *; cbn [set_rd s_pending s_cs s_rd s_next s_shut s_gstop s_lock s_sub s_kind]; auto.
  - intros c0 H; discriminate.
  - intros c0 Hn. destruct (f c0 Hn) as [H|H]; [rewrite Hr in H; discriminate | now right].
  - intros c0 id H Hd. exfalso.
    assert (Hd' : dead (mkSt (s_kind s) (s_shut s) (s_gstop s) (s_rd s) (s_pending s) (s_cs s) (s_next s) (s_lock s) (s_sub s) (s_nrecv s)) = true)
      by (unfold dead in *; cbn in *; rewrite Hr; exact Hd).
    destruct s; cbn in *. pose proof (g c0 id H Hd'). congruence.
  - intros [H|H]; [discriminate | apply h; now right].
Qed.

Lemma inv_deliver s c :
  inv s -> s_rd s = RHold (Some c) ->
  inv (set_rd (set_pc s (s_pending s) (cdeliver (s_cs s) c ROk)) RAlive).
Proof.
  intros I Hr. destruct (i_hand s I c Hr) as [Hc Hno].
  constructor; unfold stof, cdeliver in *; cbn [set_rd set_pc s_pending s_cs s_rd s_next s_shut s_gstop s_lock s_sub s_kind].
  - apply (i_nodup s I).
  - intros id c' Hin. rewrite cget_cset. destruct (c' =? c) eqn:E.
    + apply N.eqb_eq in E; subst c'. exfalso. now apply (Hno id).
    + now apply (i_entry s I).
  - intros c'. rewrite cget_cset. destruct (c' =? c) eqn:E.
    + intros _. rewrite id_of_deliver. now apply (i_ids s I).
    + apply (i_ids s I).
  - intros c1 c2. rewrite !cget_cset.
    destruct (c1 =? c) eqn:E1; destruct (c2 =? c) eqn:E2;
      try (apply N.eqb_eq in E1; subst c1); try (apply N.eqb_eq in E2; subst c2); rewrite ?id_of_deliver.
    + reflexivity.
    + intros _ H. now apply (i_uniq s I).
    + intros H1 H. now apply (i_uniq s I).
    + apply (i_uniq s I).
  - intros c' H; discriminate.
  - intros c'. rewrite cget_cset. destruct (c' =? c) eqn:E.
    + intros H. exfalso. eapply deliver_needs; eauto.
    + apply N.eqb_neq in E. intros H. destruct (i_open s I c' H) as [H1|H1]; [|now right].
      rewrite Hr in H1. inversion H1. congruence.
  - intros c' id. rewrite cget_cset. destruct (c' =? c) eqn:E.
    + intros H. exfalso. apply (deliver_needs (cget (s_cs s) c) ROk). rewrite H. exact Logic.I.
    + apply N.eqb_neq in E. intros H Hd. exfalso.
      assert (Hd' : dead s = true) by (unfold dead in *; rewrite Hr; exact Hd).
      pose proof (i_live s I c' id H Hd'). rewrite Hr in H0. inversion H0. congruence.
  - intros [H|H]; [discriminate | apply (i_shut s I); now right].
  - intros c'. rewrite (i_lock s I c'). rewrite cget_cset. destruct (c' =? c) eqn:E; [|reflexivity].
    apply N.eqb_eq in E; subst c'. symmetry. apply stall_deliver.
  - intros _ _. reflexivity.
  - apply (i_next s I).
Qed.

(** *** what a failed write does beyond closing the caller *)
Definition after_fail (s1 : st) (g : bool) : st :=
  match s_kind s1 with
  | KTcp => set_shut s1 true
  | KAsync => if g then set_gstop (set_shut (drain_all s1) true) true else s1
  | KWs => s1
  end.

Lemma fail_write_eq s c id g : fail_write s c id g = after_fail (own_fail s c id) g.
Proof. reflexivity. Qed.

Lemma inv_after_fail s1 g : inv s1 -> inv (after_fail s1 g).
Proof.
  intros I. unfold after_fail. destruct (s_kind s1) eqn:K.
  - now apply inv_set_shut.
  - destruct g; [|assumption].
    pose proof (inv_drain s1 (s_rd s1) true I (fun c H => H) (fun c H => H) (i_sub s1 I)) as H.
    exact H.
  - assumption.
Qed.

Lemma stof_not_none_of s c id mb : stof s c = CReg id mb \/ stof s c = CStall id mb \/ stof s c = CWait id \/ stof s c = CFired id ->
  stof s c <> CNone /\ id_of (stof s c) = id.
Proof. intros [H|[H|[H|H]]]; rewrite H; split; cbn; congruence. Qed.

(** closing caller [c] without touching the lock *)
Lemma inv_own_fail s c id r :
  inv s -> stof s c <> CNone -> id_of (stof s c) = id -> (forall i mb, stof s c <> CStall i mb) ->
  inv (set_pc s (pdel (s_pending s) id) (cset (s_cs s) c (CDone id r))).
Proof.
  intros I Hc Hid Hs. subst id.
  pose proof (inv_close_lock s c r (s_lock s) I Hc) as H. apply H.
  apply lock_same; [assumption | assumption | intros i mb H0; discriminate].
Qed.

Lemma inv_status s c v' :
  inv s ->
  stof s c <> CNone -> v' <> CNone -> id_of v' = id_of (stof s c) ->
  (forall id, In (id, c) (s_pending s) -> open_st v') ->
  (needs_entry v' -> s_rd s = RHold (Some c) \/ In (id_of v', c) (s_pending s)) ->
  (forall id, v' = CWait id -> dead s = true -> s_rd s = RHold (Some c)) ->
  (forall id mb, stof s c <> CStall id mb) -> (forall id mb, v' <> CStall id mb) ->
  inv (set_pc s (s_pending s) (cset (s_cs s) c v')).
Proof.
  intros I Hc Hv' Hid Hop Hne Hlv Hs1 Hs2.
  exact (inv_status_lock s c v' (s_lock s) I Hc Hv' Hid Hop Hne Hlv (lock_same s c v' I Hs1 Hs2)).
Qed.

(** a completed write *)
Lemma inv_written_lock s c id mb l' :
  inv s -> (stof s c = CReg id mb \/ stof s c = CStall id mb) -> s_shut s = false ->
  (forall c', l' = Some c' <-> exists i m, cget (cset (s_cs s) c (match mb with Some r => CDone id r | None => CWait id end)) c' = CStall i m) ->
  inv (set_lock (set_pc s (s_pending s) (cset (s_cs s) c (match mb with Some r => CDone id r | None => CWait id end))) l').
Proof.
  intros I Hst Hsh Hlk.
  assert (Hc : stof s c <> CNone /\ id_of (stof s c) = id) by (destruct Hst as [H|H]; rewrite H; split; cbn; congruence).
  destruct Hc as [Hc Hid].
  apply inv_status_lock; try assumption.
  - destruct mb; discriminate.
  - destruct mb; cbn; congruence.
  - intros i Hin. destruct (i_entry s I i c Hin) as [_ Ho].
    destruct mb as [r|]; [|exact Logic.I].
    destruct Hst as [H|H]; rewrite H in Ho; exact Ho.
  - destruct mb as [r|]; [intros []|]. intros _. cbn [id_of]. rewrite <- Hid. apply (i_open s I).
    destruct Hst as [H|H]; rewrite H; exact Logic.I.
  - intros i _ Hd. pose proof (dead_shut s I Hd). congruence.
Qed.

Lemma inv_release_none s : inv s -> s_rd s = RHold None -> inv (set_rd s RAlive).
Proof.
  intros I Hr. pose proof I as I0. destruct I as [a b c d e f g h i j k].
  constructor; unfold stof in *; cbn [set_rd s_pending s_cs s_rd s_next s_shut s_gstop s_lock s_sub s_kind]; auto.
  - intros c0 H; discriminate.
  - intros c0 Hn. destruct (f c0 Hn) as [H|H]; [rewrite Hr in H; discriminate | now right].
  - intros c0 id H Hd. exfalso.
    assert (Hd' : dead s = true) by (unfold dead in *; cbn in Hd; rewrite Hr; exact Hd).
    pose proof (g c0 id H Hd') as H1. rewrite Hr in H1. discriminate.
  - intros [H|H]; [discriminate | apply h; now right].
Qed.

Lemma inv_drain_rd s r :
  inv s -> past_fail (s_rd s) = true -> (forall o, r <> RHold o) -> before_subend r = false ->
  (s_kind s = KWs -> s_sub s <> SSub) ->
  inv (set_rd (drain_all s) r).
Proof.
  intros I Hp Hr Hb Hsub.
  assert (Hsh : s_shut s = true) by (apply (i_shut s I); now left).
  unfold set_rd, drain_all, set_pc. cbn [s_kind s_shut s_gstop s_rd s_pending s_cs s_next s_lock s_sub s_nrecv].
  rewrite Hsh. apply inv_drain; try assumption.
  - intros c H. exfalso. eapply Hr; eauto.
  - intros c H. rewrite H in Hp. discriminate.
  - intros K U. exfalso. now apply Hsub.
Qed.

Lemma sub_not_live s : inv s -> before_subend (s_rd s) = false -> s_kind s = KWs -> s_sub s <> SSub.
Proof. intros I Hb K U. pose proof (i_sub s I K U). congruence. Qed.

Lemma inv_do_step s e : inv s -> inv (do_step s e).
Proof.
  intros I. destruct e as [c|c|c|c|c|c|c|c|c| |id| | | | | | | | ]; cbn [do_step].
  - (* Register *) destruct (stof s c) eqn:E; try assumption. now apply inv_register.
  - (* Write *)
    destruct (stof s c) as [|id mb|id mb|id|id|id r] eqn:E; try assumption.
    destruct (lock_free s) eqn:L; [|assumption].
    destruct (s_shut s) eqn:Sh.
    + rewrite fail_write_eq. apply inv_after_fail. unfold own_fail.
      apply inv_own_fail; try assumption; rewrite E; cbn; congruence.
    + unfold written.
      pose proof (inv_written_lock s c id mb (s_lock s) I (or_introl E) Sh) as H. apply H.
      apply lock_same; [assumption | rewrite E; congruence | destruct mb; congruence].
  - (* WriteEnvFail *)
    destruct (stof s c) as [|id mb|id mb|id|id|id r] eqn:E; try assumption.
    destruct (lock_free s) eqn:L; [|assumption].
    rewrite fail_write_eq. apply inv_after_fail. unfold own_fail.
    apply inv_own_fail; try assumption; rewrite E; cbn; congruence.
  - (* WStall *)
    destruct (stof s c) as [|id mb|id mb|id|id|id r] eqn:E; try assumption.
    destruct (lock_free s) eqn:L; [|assumption]. destruct (s_shut s) eqn:Sh; [assumption|]. cbn [negb andb].
    assert (Hl : s_lock s = None) by (unfold lock_free in L; destruct (s_lock s); [discriminate|reflexivity]).
    apply inv_status_lock; try assumption.
    + rewrite E; congruence.
    + congruence.
    + rewrite E; reflexivity.
    + intros i Hin. destruct (i_entry s I i c Hin) as [_ Ho]. rewrite E in Ho. exact Ho.
    + intros Hn. cbn [id_of]. replace id with (id_of (stof s c)) by (rewrite E; reflexivity). apply (i_open s I).
      rewrite E. exact Hn.
    + intros i H; discriminate.
    + now apply lock_taken.
  - (* WStallEnd *)
    destruct (stof s c) as [|id mb|id mb|id|id|id r] eqn:E; try assumption.
    destruct (s_shut s) eqn:Sh.
    + rewrite fail_write_eq. apply inv_after_fail.
      assert (Hc : stof s c <> CNone) by (rewrite E; congruence).
      pose proof (inv_close_lock s c RConn None I Hc) as H. rewrite E in H. cbn [id_of] in H.
      apply H. apply (lock_released s c _ id mb I E). congruence.
    + unfold written.
      pose proof (inv_written_lock s c id mb None I (or_intror E) Sh) as H. apply H.
      apply (lock_released s c _ id mb I E). destruct mb; congruence.
  - (* WStallEnvFail *)
    destruct (stof s c) as [|id mb|id mb|id|id|id r] eqn:E; try assumption.
    rewrite fail_write_eq. apply inv_after_fail.
    assert (Hc : stof s c <> CNone) by (rewrite E; congruence).
    pose proof (inv_close_lock s c RConn None I Hc) as H. rewrite E in H. cbn [id_of] in H.
    apply H. apply (lock_released s c _ id mb I E). congruence.
  - (* TFire *)
    destruct (stof s c) as [|id mb|id mb|id|id|id r] eqn:E; try assumption.
    apply inv_status; try assumption; try (rewrite E); try congruence.
    + reflexivity.
    + intros _ _; exact Logic.I.
    + intros [].
  - (* TRemove *)
    destruct (stof s c) as [|id mb|id mb|id|id|id r] eqn:E; try assumption.
    apply inv_own_fail; try assumption; rewrite E; cbn; congruence.
  - (* Cancel *)
    destruct (s_kind s); [assumption| |];
      (destruct (stof s c) as [|id mb|id mb|id|id|id r] eqn:E; try assumption;
       apply inv_own_fail; try assumption; rewrite E; cbn; congruence).
  - (* Subscribe *)
    destruct (s_sub s) eqn:U; try assumption.
    destruct (s_rd s) eqn:R; apply inv_set_sub; try assumption; intros _ H; try discriminate; rewrite R; reflexivity.
  - (* RTake *)
    destruct (s_rd s) eqn:R; try assumption.
    destruct (pfind (s_pending s) id) eqn:F; [now apply inv_take | now apply inv_take_none].
  - (* RDeliver *)
    destruct (s_rd s) as [|[c|]| | | | | | ] eqn:R; try assumption.
    + now apply inv_deliver.
    + now apply inv_release_none.
  - (* RNotify *)
    destruct (s_rd s); try assumption. destruct (s_sub s); try assumption. now apply inv_set_nrecv.
  - (* ReadErr *)
    destruct (s_rd s) eqn:R; try assumption.
    apply inv_set_rd; try assumption; try (intros; congruence); try (cbn; discriminate).
    + unfold dead; cbn; now rewrite R.
    + intros _ _; reflexivity.
  - (* SubEnd *)
    destruct (s_rd s) eqn:R; try assumption.
    assert (I2 : inv (match s_kind s, s_sub s with KWs, SSub => set_sub s SEnded | _, _ => s end)).
    { destruct (s_kind s); try assumption. destruct (s_sub s); try assumption.
      apply inv_set_sub; [assumption | intros _ H; discriminate]. }
    apply inv_set_rd; try assumption.
    + intros o. destruct (s_kind s); [|destruct (s_sub s)|destruct (s_sub s)]; cbn; rewrite R; discriminate.
    + discriminate.
    + unfold dead. destruct (s_kind s); [|destruct (s_sub s)|destruct (s_sub s)]; cbn; rewrite R; reflexivity.
    + discriminate.
    + destruct (s_kind s) eqn:K; [intros K2; congruence | intros K2; congruence |].
      destruct (s_sub s) eqn:U; cbn [set_sub s_sub s_kind]; intros _ U2; congruence.
  - (* OwnShut *)
    destruct (s_rd s) eqn:R; try assumption.
    apply inv_set_rd; try (now apply inv_set_shut); cbn [set_shut s_rd s_shut s_kind s_sub].
    + intros o; rewrite R; discriminate.
    + discriminate.
    + unfold dead; cbn; rewrite R; reflexivity.
    + reflexivity.
    + intros K U. pose proof (i_sub s I K U) as H. rewrite R in H. discriminate.
  - (* LockShut *)
    destruct (s_rd s) eqn:R; try assumption; destruct (s_kind s) eqn:K; try assumption;
      (destruct (lock_free s); [|assumption]);
      (apply inv_set_rd; try assumption;
       [ intros o; rewrite R; discriminate
       | discriminate
       | unfold dead; cbn; rewrite R; reflexivity
       | intros _; apply (i_shut s I); left; rewrite R; reflexivity
       | intros K' U; pose proof (i_sub s I K' U) as H; rewrite R in H; discriminate ]).
  - (* Drain *)
    destruct (s_rd s) eqn:R; try assumption; destruct (s_kind s) eqn:K; try assumption;
      (apply inv_drain_rd; try assumption;
       [ rewrite R; reflexivity | discriminate | reflexivity
       | apply sub_not_live; [assumption | rewrite R; reflexivity] ]).
  - (* RStop *)
    destruct (s_rd s) eqn:R; try assumption. destruct (s_kind s) eqn:K; try assumption.
    destruct (s_gstop s) eqn:G; [|assumption].
    apply inv_set_rd; try assumption.
    + intros o; rewrite R; discriminate.
    + discriminate.
    + unfold dead; cbn; rewrite R, G; reflexivity.
    + intros _. apply (i_shut s I). now right.
    + intros K2; congruence.
Qed.

Lemma inv_run s l : inv s -> inv (run s l).
Proof.
  revert s. induction l as [|e l IH]; intros s I; [exact I|]. cbn [run fold_left]. apply IH. now apply inv_do_step.
Qed.

Theorem reachable_inv k l : inv (run (init k) l).
Proof. apply inv_run, inv_init. Qed.

(** ** consequences of the invariant *)

(** a caller waiting for its response either has the response in the reader's
    hand, or still has its entry in the pending map of a response loop that
    has neither drained nor been told to stop *)
Lemma no_hang_inv s c id :
  inv s -> stof s c = CWait id ->
  s_rd s = RHold (Some c) \/ (In (id, c) (s_pending s) /\ dead s = false).
Proof.
  intros I H. destruct (dead s) eqn:D.
  - left. now apply (i_live s I c id).
  - assert (Hn : needs_entry (stof s c)) by (rewrite H; exact Logic.I).
    destruct (i_open s I c Hn) as [H1|H1]; [now left|]. rewrite H in H1. right. now split.
Qed.

Lemma dead_no_waiter s c id : inv s -> s_rd s = RDead \/ s_rd s = RDrained -> stof s c <> CWait id.
Proof.
  intros I Hr H. assert (D : dead s = true) by (unfold dead; destruct Hr as [R|R]; now rewrite R).
  pose proof (i_live s I c id H D) as H1. destruct Hr as [R|R]; congruence.
Qed.

(** after the reader made writes fail, the socket is marked shut *)
Lemma shut_after_fail s : inv s -> past_fail (s_rd s) = true -> s_shut s = true.
Proof. intros I H. apply (i_shut s I). now left. Qed.

Lemma stof_fail_write s c id g : stof (fail_write s c id g) c = CDone id RConn.
Proof.
  rewrite fail_write_eq. unfold after_fail, own_fail.
  cbn [set_pc s_kind]. destruct (s_kind s); [| destruct g |]; unfold stof; cbn [set_shut set_gstop drain_all set_pc s_cs s_pending].
  - apply cget_cset_same.
  - rewrite drain_get. rewrite cget_cset_same.
    destruct (has_caller (pdel (s_pending s) id) c); reflexivity.
  - apply cget_cset_same.
  - apply cget_cset_same.
Qed.

(** a call whose write comes after the socket was shut returns an error at
    that write *)
Lemma write_after_shut s c id mb :
  s_shut s = true -> lock_free s = true -> stof s c = CReg id mb ->
  stof (do_step s (Write c)) c = CDone id RConn.
Proof. intros Sh L E. cbn [do_step]. rewrite E, L, Sh. apply stof_fail_write. Qed.

Lemma later_call_errors s c :
  s_shut s = true -> lock_free s = true -> stof s c = CNone ->
  stof (run s [Register c; Write c]) c = CDone (s_next s) RConn.
Proof.
  intros Sh L E. cbn [run fold_left]. cbn [do_step]. rewrite E.
  apply (write_after_shut _ c (s_next s) None); unfold stof, lock_free; cbn [set_next set_pc s_shut s_lock s_cs]; try assumption.
  apply cget_cset_same.
Qed.

(** a stalled writer is released by the shutdown *)
Lemma stalled_writer_released s c :
  inv s -> s_shut s = true -> s_lock s = Some c ->
  lock_free (do_step s (WStallEnd c)) = true /\ exists id, stof (do_step s (WStallEnd c)) c = CDone id RConn.
Proof.
  intros I Sh L. destruct (proj1 (i_lock s I c) L) as [id [mb E]].
  cbn [do_step]. rewrite E, Sh. split; [|exists id; apply stof_fail_write].
  rewrite fail_write_eq. unfold after_fail, own_fail, lock_free. cbn [set_pc set_lock s_kind].
  destruct (s_kind s); reflexivity.
Qed.

(** a returned call has left nothing in the pending map *)
Lemma no_residue_inv s c id r : inv s -> stof s c = CDone id r -> pfind (s_pending s) id = None.
Proof.
  intros I H. apply pfind_none. intros c' Hin.
  destruct (i_entry s I id c' Hin) as [H1 H2].
  assert (Hc : stof s c <> CNone) by (rewrite H; congruence).
  assert (c = c') by (apply (i_uniq s I c c' Hc); rewrite H, H1; reflexivity). subst c'.
  rewrite H in H2. exact H2.
Qed.

(** a response whose id is not pending changes nothing *)
Lemma unknown_response_noop s id :
  s_rd s = RAlive -> pfind (s_pending s) id = None -> run s [RTake id; RDeliver] = s.
Proof.
  intros R F. cbn [run fold_left do_step]. rewrite R, F. cbn [set_rd s_rd].
  destruct s; cbn in *; subst; reflexivity.
Qed.

Lemma late_response_noop s c id r :
  inv s -> s_rd s = RAlive -> stof s c = CDone id r -> run s [RTake id; RDeliver] = s.
Proof. intros I R H. apply unknown_response_noop; [assumption|]. now apply (no_residue_inv s c id r). Qed.

(** a response is handed to the caller that registered its id *)
Lemma response_goes_to_owner s id c :
  inv s -> pfind (s_pending s) id = Some c -> id_of (stof s c) = id.
Proof. intros I F. apply pfind_in in F. now apply (i_entry s I id c). Qed.

(** the subscriber's stream is ended before writes are made to fail and before
    any waiter is failed *)
Lemma subscriber_ended s : inv s -> s_kind s = KWs -> before_subend (s_rd s) = false -> s_sub s <> SSub.
Proof. intros I K B. now apply sub_not_live. Qed.

Lemma subend_ends s : s_rd s = RErr -> s_kind s = KWs -> s_sub s = SSub -> s_sub (do_step s SubEnd) = SEnded.
Proof. intros R K U. cbn [do_step]. rewrite R, K, U. reflexivity. Qed.

(** ** the failing response loop always gets to the end: the steps it needs
    are its own and the end of a stalled write, never the peer's *)
Definition fail_seq (s : st) : list step :=
  [SubEnd; OwnShut] ++ (match s_lock s with Some c => [WStallEnd c] | None => [] end) ++ [LockShut; Drain; LockShut].

Lemma rd_after_fail s1 g : s_rd (after_fail s1 g) = s_rd s1.
Proof. unfold after_fail. destruct (s_kind s1); [reflexivity | destruct g; reflexivity | reflexivity]. Qed.
Lemma kind_after_fail s1 g : s_kind (after_fail s1 g) = s_kind s1.
Proof. unfold after_fail. destruct (s_kind s1) eqn:K; [|destruct g|]; cbn; congruence. Qed.
Lemma lock_after_fail s1 g : s_lock (after_fail s1 g) = s_lock s1.
Proof. unfold after_fail. destruct (s_kind s1); [reflexivity | destruct g; reflexivity | reflexivity]. Qed.

Lemma finish_from_ownshut s :
  s_rd s = ROwnShut -> s_lock s = None -> s_rd (run s [LockShut; Drain; LockShut]) = RDead.
Proof.
  intros R L. cbn [run fold_left do_step]. rewrite R. unfold lock_free. rewrite L.
  destruct (s_kind s) eqn:K; cbn [set_rd s_rd s_kind]; rewrite ?R, ?K; cbn [set_rd drain_all set_pc s_rd s_kind s_lock];
    rewrite ?K, ?L; reflexivity.
Qed.

Lemma reader_finishes s : inv s -> s_rd s = RErr -> s_rd (run s (fail_seq s)) = RDead.
Proof.
  intros I R. unfold fail_seq.
  set (s2 := run s [SubEnd; OwnShut]).
  assert (R2 : s_rd s2 = ROwnShut).
  { unfold s2. cbn [run fold_left do_step]. rewrite R. cbn [set_rd s_rd]. reflexivity. }
  assert (L2 : s_lock s2 = s_lock s).
  { unfold s2. cbn [run fold_left do_step]. rewrite R. cbn [set_rd s_rd].
    destruct (s_kind s); [|destruct (s_sub s)|destruct (s_sub s)]; reflexivity. }
  assert (Sh2 : s_shut s2 = true).
  { unfold s2. cbn [run fold_left do_step]. rewrite R. cbn [set_rd s_rd]. reflexivity. }
  assert (I2 : inv s2) by (apply inv_run; exact I).
  unfold run. rewrite !fold_left_app. fold (run s [SubEnd; OwnShut]). fold s2.
  destruct (s_lock s) as [c|] eqn:L.
  - cbn [fold_left]. fold (run (do_step s2 (WStallEnd c)) [LockShut; Drain; LockShut]).
    destruct (proj1 (i_lock s2 I2 c) L2) as [id [mb E]].
    apply finish_from_ownshut.
    + cbn [do_step]. rewrite E, Sh2. rewrite fail_write_eq, rd_after_fail. exact R2.
    + cbn [do_step]. rewrite E, Sh2. rewrite fail_write_eq, lock_after_fail. reflexivity.
  - cbn [fold_left]. fold (run s2 [LockShut; Drain; LockShut]). now apply finish_from_ownshut.
Qed.

(** ** single steps seen through the projections the scenarios observe *)
Definition glob_rd (s s' : st) (r : rphase) : Prop :=
  s_kind s' = s_kind s /\ s_rd s' = r /\ s_shut s' = s_shut s /\ s_gstop s' = s_gstop s /\
  s_lock s' = s_lock s /\ s_sub s' = s_sub s /\ s_nrecv s' = s_nrecv s.
Definition glob_eq (s s' : st) : Prop := glob_rd s s' (s_rd s).
Definition upd1 (s s' : st) (c : N) (v : cst) : Prop :=
  stof s' c = v /\ forall c', c' <> c -> stof s' c' = stof s c'.
Definition same_cs (s s' : st) : Prop := forall c, stof s' c = stof s c.

Lemma glob_eq_refl s : glob_eq s s.
Proof. unfold glob_eq, glob_rd. tauto. Qed.

Lemma glob_rd_trans s s1 s2 r1 r2 : glob_rd s s1 r1 -> glob_rd s1 s2 r2 -> glob_rd s s2 r2.
Proof. unfold glob_rd. intros (a&b&c&d&e&f&g) (a'&b'&c'&d'&e'&f'&g'). repeat split; congruence. Qed.

Lemma glob_eq_trans s s1 s2 : glob_eq s s1 -> glob_eq s1 s2 -> glob_eq s s2.
Proof. unfold glob_eq. intros H1 H2. destruct H1 as (a&b&c). rewrite <- b. eapply glob_rd_trans; [|exact H2].
  unfold glob_rd. tauto. Qed.

Lemma upd1_trans s s1 s2 c v1 v2 : upd1 s s1 c v1 -> upd1 s1 s2 c v2 -> upd1 s s2 c v2.
Proof. intros [a b] [a' b']. split; [assumption|]. intros c' H. rewrite (b' c' H). now apply b. Qed.

Lemma upd1_same s s1 s2 c v : upd1 s s1 c v -> same_cs s1 s2 -> upd1 s s2 c v.
Proof. intros [a b] H. split; [now rewrite H|]. intros c' Hc. rewrite H. now apply b. Qed.

Lemma same_upd1 s s1 s2 c v : same_cs s s1 -> upd1 s1 s2 c v -> upd1 s s2 c v.
Proof. intros H [a b]. split; [assumption|]. intros c' Hc. rewrite (b c' Hc). apply H. Qed.

Ltac globs := unfold glob_eq, glob_rd; cbn [set_next set_pc set_rd set_shut set_gstop set_lock set_sub set_nrecv
  s_kind s_rd s_shut s_gstop s_lock s_sub s_nrecv s_cs s_pending s_next]; repeat split; try reflexivity; try congruence.

Ltac upds := unfold upd1, stof; cbn [set_next set_pc set_rd set_shut set_gstop set_lock set_sub set_nrecv
  s_kind s_rd s_shut s_gstop s_lock s_sub s_nrecv s_cs s_pending s_next];
  split; [apply cget_cset_same | intros ? ?; now apply cget_cset_other].

Lemma p_register s c : stof s c = CNone ->
  glob_eq s (do_step s (Register c)) /\ upd1 s (do_step s (Register c)) c (CReg (s_next s) None).
Proof. intros E. cbn [do_step]. rewrite E. split; [globs | upds]. Qed.

Lemma p_write_ok s c id : stof s c = CReg id None -> s_lock s = None -> s_shut s = false ->
  glob_eq s (do_step s (Write c)) /\ upd1 s (do_step s (Write c)) c (CWait id).
Proof. intros E L Sh. cbn [do_step]. unfold lock_free. rewrite E, L, Sh. unfold written. split; [globs | upds]. Qed.

Lemma p_own_fail_cs s c id g : upd1 s (fail_write s c id g) c (CDone id RConn) \/ s_kind s = KAsync /\ g = true.
Proof.
  rewrite fail_write_eq. unfold after_fail, own_fail. cbn [set_pc s_kind].
  destruct (s_kind s) eqn:K; [left; upds | destruct g; [right; tauto | left; upds] | left; upds].
Qed.

Lemma p_write_fail s c id mb : stof s c = CReg id mb -> s_lock s = None -> s_shut s = true ->
  glob_eq s (do_step s (Write c)) /\ upd1 s (do_step s (Write c)) c (CDone id RConn).
Proof.
  intros E L Sh. cbn [do_step]. unfold lock_free. rewrite E, L, Sh. split.
  - rewrite fail_write_eq. unfold after_fail, own_fail. cbn [set_pc s_kind]. destruct (s_kind s) eqn:K; globs.
  - destruct (p_own_fail_cs s c id false) as [H|[_ H]]; [exact H | discriminate].
Qed.

Lemma p_tfire s c id : stof s c = CWait id ->
  glob_eq s (do_step s (TFire c)) /\ upd1 s (do_step s (TFire c)) c (CFired id).
Proof. intros E. cbn [do_step]. rewrite E. split; [globs | upds]. Qed.

Lemma p_tremove s c id : stof s c = CFired id ->
  glob_eq s (do_step s (TRemove c)) /\ upd1 s (do_step s (TRemove c)) c (CDone id RTimeout).
Proof. intros E. cbn [do_step]. rewrite E. split; [globs | upds]. Qed.

Lemma p_cancel s c id : s_kind s <> KTcp -> stof s c = CWait id ->
  glob_eq s (do_step s (Cancel c)) /\ upd1 s (do_step s (Cancel c)) c (CDone id RCancelled).
Proof. intros K E. cbn [do_step]. destruct (s_kind s) eqn:K2; [congruence| |]; rewrite E; (split; [globs | upds]). Qed.

Lemma p_noop_done s c id r e :
  stof s c = CDone id r ->
  match e with Register c' | Write c' | TFire c' | TRemove c' | Cancel c' | WStall c' | WStallEnd c' | WStallEnvFail c' | WriteEnvFail c' => c' = c | _ => False end ->
  do_step s e = s.
Proof.
  intros E H. destruct e; try contradiction; subst; cbn [do_step]; rewrite E; try reflexivity.
  destruct (s_kind s); reflexivity.
Qed.

Lemma p_take_some s id c : s_rd s = RAlive -> pfind (s_pending s) id = Some c ->
  glob_rd s (do_step s (RTake id)) (RHold (Some c)) /\ same_cs s (do_step s (RTake id)).
Proof. intros R F. cbn [do_step]. rewrite R, F. split; [globs | intros c'; reflexivity]. Qed.

Lemma p_take_none s id : s_rd s = RAlive -> pfind (s_pending s) id = None ->
  glob_rd s (do_step s (RTake id)) (RHold None) /\ same_cs s (do_step s (RTake id)).
Proof. intros R F. cbn [do_step]. rewrite R, F. split; [globs | intros c'; reflexivity]. Qed.

Lemma p_deliver_some s c : s_rd s = RHold (Some c) ->
  glob_rd s (do_step s RDeliver) RAlive /\ upd1 s (do_step s RDeliver) c (deliver_st (stof s c) ROk).
Proof. intros R. cbn [do_step]. rewrite R. unfold cdeliver. split; [globs | upds]. Qed.

Lemma p_deliver_none s : s_rd s = RHold None ->
  glob_rd s (do_step s RDeliver) RAlive /\ same_cs s (do_step s RDeliver).
Proof. intros R. cbn [do_step]. rewrite R. split; [globs | intros c'; reflexivity]. Qed.

(** where the entry of a caller is *)
Lemma pfind_waiting s c id : inv s -> (forall o, s_rd s <> RHold o) -> stof s c = CWait id -> pfind (s_pending s) id = Some c.
Proof.
  intros I R E. assert (Hn : needs_entry (stof s c)) by (rewrite E; exact Logic.I).
  destruct (i_open s I c Hn) as [H|H]; [exfalso; eapply R; eauto|].
  rewrite E in H. apply in_pfind; [apply (i_nodup s I) | exact H].
Qed.

Lemma pfind_owner s c id c' : inv s -> stof s c <> CNone -> id_of (stof s c) = id -> pfind (s_pending s) id = Some c' -> c' = c.
Proof.
  intros I Hc Hid F. apply pfind_in in F. destruct (i_entry s I id c' F) as [H1 _].
  symmetry. apply (i_uniq s I c c' Hc). congruence.
Qed.

Lemma pfind_zero s : inv s -> pfind (s_pending s) 0 = None.
Proof.
  intros I. apply pfind_none. intros c Hin. destruct (i_entry s I 0 c Hin) as [H1 H2].
  assert (Hc : stof s c <> CNone) by (intros E; rewrite E in H2; exact H2).
  pose proof (i_ids s I c Hc). lia.
Qed.

(** a response for caller [c] (whatever its state) while the reader is alive:
    taken and delivered; only [c] can change, and only by [deliver_st] *)
Lemma p_respond s c : inv s -> s_rd s = RAlive -> stof s c <> CNone ->
  let s' := run s [RTake (id_of (stof s c)); RDeliver] in
  glob_eq s s' /\ (upd1 s s' c (deliver_st (stof s c) ROk) \/ same_cs s s').
Proof.
  intros I R Hc. cbn zeta. cbn [run fold_left].
  destruct (pfind (s_pending s) (id_of (stof s c))) as [c'|] eqn:F.
  - assert (c' = c) by (eapply pfind_owner; eauto). subst c'.
    destruct (p_take_some s _ c R F) as [G1 S1].
    assert (R1 : s_rd (do_step s (RTake (id_of (stof s c)))) = RHold (Some c)) by apply G1.
    destruct (p_deliver_some _ c R1) as [G2 U2]. split.
    + unfold glob_eq. rewrite R. eapply glob_rd_trans; eauto.
    + left. rewrite (S1 c) in U2. eapply same_upd1; eauto.
  - destruct (p_take_none s _ R F) as [G1 S1].
    assert (R1 : s_rd (do_step s (RTake (id_of (stof s c)))) = RHold None) by apply G1.
    destruct (p_deliver_none _ R1) as [G2 S2]. split.
    + unfold glob_eq. rewrite R. eapply glob_rd_trans; eauto.
    + right. intros c0. rewrite S2. apply S1.
Qed.

(** ** the model refines the scenario specification *)
Definition cls (r : res) : oclass :=
  match r with ROk => OOk | RTimeout => OTimeout | RConn => OConn | RCancelled => OCancelled end.

Definition crel (stalled : bool) (ph : phase) (v : pst) (w : cst) : Prop :=
  match v with
  | PNone => w = CNone
  | PFlight kn =>
      (exists id, w = CWait id)
      \/ (stalled = true /\ ph = PhLive /\ kn = false /\ exists id, w = CStall id None)
      \/ (stalled = true /\ ph = PhWindow /\ exists id, w = CDone id RConn)
  | PFin _ l => exists id r, w = CDone id r /\ In (cls r) l
  end.

Definition sub_of (k : case) (ph : phase) : sstate :=
  if k_sub k then (match ph with PhLive => SSub | _ => SEnded end) else SNone.

Record sim (k : case) (p : spst) (x : xst) : Prop := mkSim {
  m_inv : inv (x_s x);
  m_kind : s_kind (x_s x) = k_kind k;
  m_faulted : x_faulted x = match p_phase p with PhDead => true | _ => false end;
  m_subq : x_subq x = p_subq p;
  m_resid : x_resid x = repeat false (p_nprobe p);
  m_nn : s_nrecv (x_s x) = p_nn p;
  m_sub : s_sub (x_s x) = sub_of k (p_phase p);
  m_phase : match p_phase p with
            | PhLive => s_rd (x_s x) = RAlive /\ s_shut (x_s x) = false /\ (p_stalled p = false -> s_lock (x_s x) = None)
            | PhWindow => s_rd (x_s x) = (if is_tcp (k_kind k) then RShutDone else ROwnShut) /\
                          s_shut (x_s x) = true /\ s_lock (x_s x) = None
            | PhDead => s_rd (x_s x) = RDead /\ s_shut (x_s x) = true /\ s_lock (x_s x) = None
            end;
  m_cs : forall c, crel (p_stalled p) (p_phase p) (pget (p_cs p) c) (stof (x_s x) c)
}.

Lemma pget_pset l c v c' : pget (pset l c v) c' = if c' =? c then v else pget l c'.
Proof.
  induction l as [|[c0 v0] l IH]; cbn [pset pget].
  - rewrite (N.eqb_sym c c'). reflexivity.
  - destruct (c0 =? c) eqn:E; cbn [pget].
    + apply N.eqb_eq in E; subst c0. rewrite (N.eqb_sym c c'). destruct (c' =? c); reflexivity.
    + destruct (c0 =? c') eqn:E2; [|exact IH].
      apply N.eqb_eq in E2; subst c0. rewrite E. reflexivity.
Qed.

Lemma pget_fail_flights l c :
  pget (fail_flights l) c = match pget l c with PFlight kn => PFin kn [OConn] | v => v end.
Proof.
  induction l as [|[c0 v0] l IH]; cbn [fail_flights map pget]; [reflexivity|].
  destruct v0; cbn [snd fst pget]; destruct (c0 =? c); auto.
Qed.

(** the specification state after an event differs from [p] only in the caller
    table (and in bookkeeping the relation does not look at) *)
Definition sp_like (p p' : spst) (cs' : list (N * pst)) : Prop :=
  p_phase p' = p_phase p /\ p_stalled p' = p_stalled p /\ p_cs p' = cs' /\
  p_subq p' = p_subq p /\ p_nn p' = p_nn p /\ p_nprobe p' = p_nprobe p.

Lemma sp_like_cs p cs' : sp_like p (sp_cs p cs') cs'.
Proof. unfold sp_like. cbn. tauto. Qed.

Lemma sim_upd k p p' x c v' s' w' :
  sim k p x -> sp_like p p' (pset (p_cs p) c v') ->
  inv s' -> glob_eq (x_s x) s' -> upd1 (x_s x) s' c w' ->
  crel (p_stalled p) (p_phase p) v' w' ->
  sim k p' (mkX s' (x_faulted x) (x_subq x) (x_resid x)).
Proof.
  intros M (L1&L2&L3&L4&L5&L6) I (G1&G2&G3&G4&G5&G6&G7) [U1 U2] C.
  destruct M as [a b c0 d e f g h i].
  constructor; cbn [x_s x_faulted x_subq x_resid]; rewrite ?L1, ?L2, ?L3, ?L4, ?L5, ?L6; try congruence.
  - destruct (p_phase p); rewrite ?G2, ?G3, ?G5; exact h.
  - intros c'. rewrite pget_pset. destruct (c' =? c) eqn:E.
    + apply N.eqb_eq in E; subst c'. rewrite U1. exact C.
    + apply N.eqb_neq in E. rewrite (U2 c' E). apply i.
Qed.

Lemma sim_same k p p' x s' :
  sim k p x -> sp_like p p' (p_cs p) -> inv s' -> glob_eq (x_s x) s' -> same_cs (x_s x) s' ->
  sim k p' (mkX s' (x_faulted x) (x_subq x) (x_resid x)).
Proof.
  intros M (L1&L2&L3&L4&L5&L6) I (G1&G2&G3&G4&G5&G6&G7) S.
  destruct M as [a b c0 d e f g h i].
  constructor; cbn [x_s x_faulted x_subq x_resid]; rewrite ?L1, ?L2, ?L3, ?L4, ?L5, ?L6; try congruence.
  - destruct (p_phase p); rewrite ?G2, ?G3, ?G5; exact h.
  - intros c'. rewrite S. apply i.
Qed.

Lemma sp_like_refl p : sp_like p p (p_cs p).
Proof. unfold sp_like. tauto. Qed.

(** *** starting a call *)
Lemma start_live s c :
  inv s -> stof s c = CNone -> s_lock s = None -> s_shut s = false ->
  let s' := run s [Register c; Write c] in
  glob_eq s s' /\ upd1 s s' c (CWait (s_next s)).
Proof.
  intros I E L Sh. cbn zeta. cbn [run fold_left].
  destruct (p_register s c E) as [G1 U1].
  set (s1 := do_step s (Register c)) in *.
  destruct G1 as (a&b&c0&d&e&f&g).
  assert (E1 : stof s1 c = CReg (s_next s) None) by apply U1.
  destruct (p_write_ok s1 c _ E1 ltac:(congruence) ltac:(congruence)) as [G2 U2].
  split; [eapply glob_eq_trans; [|exact G2]; unfold glob_eq, glob_rd; tauto | eapply upd1_trans; eauto].
Qed.

Lemma start_shut s c :
  inv s -> stof s c = CNone -> s_lock s = None -> s_shut s = true ->
  let s' := run s [Register c; Write c] in
  glob_eq s s' /\ upd1 s s' c (CDone (s_next s) RConn).
Proof.
  intros I E L Sh. cbn zeta. cbn [run fold_left].
  destruct (p_register s c E) as [G1 U1].
  set (s1 := do_step s (Register c)) in *.
  destruct G1 as (a&b&c0&d&e&f&g).
  assert (E1 : stof s1 c = CReg (s_next s) None) by apply U1.
  destruct (p_write_fail s1 c _ _ E1 ltac:(congruence) ltac:(congruence)) as [G2 U2].
  split; [eapply glob_eq_trans; [|exact G2]; unfold glob_eq, glob_rd; tauto | eapply upd1_trans; eauto].
Qed.

Lemma run_app s l1 l2 : run s (l1 ++ l2) = run (run s l1) l2.
Proof. unfold run. apply fold_left_app. Qed.

Lemma expire_tail s c id :
  stof s c = CWait id ->
  let s' := run s [TFire c; TRemove c] in glob_eq s s' /\ upd1 s s' c (CDone id RTimeout).
Proof.
  intros E. cbn zeta. cbn [run fold_left].
  destruct (p_tfire s c id E) as [G1 U1]. set (s1 := do_step s (TFire c)) in *.
  destruct (p_tremove s1 c id (proj1 U1)) as [G2 U2].
  split; [eapply glob_eq_trans; eauto | eapply upd1_trans; eauto].
Qed.

Lemma noop_tail s c id r : stof s c = CDone id r -> run s [TFire c; TRemove c] = s.
Proof.
  intros E. cbn [run fold_left].
  rewrite (p_noop_done s c id r (TFire c) E eq_refl). apply (p_noop_done s c id r (TRemove c) E eq_refl).
Qed.

Lemma respond_waiting s c id :
  inv s -> s_rd s = RAlive -> stof s c = CWait id ->
  let s' := run s [RTake id; RDeliver] in glob_eq s s' /\ upd1 s s' c (CDone id ROk).
Proof.
  intros I R E. cbn zeta. cbn [run fold_left].
  assert (F : pfind (s_pending s) id = Some c) by (apply pfind_waiting; [assumption | rewrite R; discriminate | assumption]).
  destruct (p_take_some s id c R F) as [G1 S1]. set (s1 := do_step s (RTake id)) in *.
  assert (R1 : s_rd s1 = RHold (Some c)) by apply G1.
  destruct (p_deliver_some s1 c R1) as [G2 U2]. rewrite (S1 c), E in U2. cbn [deliver_st] in U2.
  split; [unfold glob_eq; rewrite R; eapply glob_rd_trans; eauto | eapply same_upd1; eauto].
Qed.

(** a response for a caller that is not waiting any more (timeout fired or
    already returned) changes no caller *)
Lemma respond_idle s c :
  inv s -> s_rd s = RAlive -> (exists id, stof s c = CFired id) \/ (exists id r, stof s c = CDone id r) ->
  let s' := run s [RTake (id_of (stof s c)); RDeliver] in glob_eq s s' /\ same_cs s s'.
Proof.
  intros I R H.
  assert (Hc : stof s c <> CNone) by (destruct H as [[i H]|[i [r H]]]; rewrite H; congruence).
  destruct (p_respond s c I R Hc) as [G [U|S]]; split; try assumption.
  assert (D : deliver_st (stof s c) ROk = stof s c) by (destruct H as [[i H]|[i [r H]]]; rewrite H; reflexivity).
  rewrite D in U. intros c'. destruct (N.eq_dec c' c) as [->|Hne]; [exact (proj1 U) | exact (proj2 U c' Hne)].
Qed.

Lemma sp_start_inv n p c kn lf p' : sp_start n p c kn lf = Some p' ->
  pget (p_cs p) c = PNone /\
  ((p_phase p = PhLive /\ srv_reads p = true /\
    p' = sp_cs p (pset (p_cs p) c (match lf with Some l => PFin kn l | None => PFlight kn end)))
   \/ (p_phase p <> PhLive /\ p' = sp_cs p (pset (p_cs p) c (PFin false [OConn])))).
Proof.
  unfold sp_start. destruct (negb (c <? n)); [discriminate|].
  destruct (pget (p_cs p) c); try discriminate. split; [reflexivity|].
  destruct (p_phase p) eqn:Ph.
  - destruct (srv_reads p) eqn:Sr; cbn [negb] in *; [|discriminate]. inversion H; subst. left. tauto.
  - inversion H; subst. right. split; [discriminate | reflexivity].
  - inversion H; subst. right. split; [discriminate | reflexivity].
Qed.

Lemma sim_live k p x : sim k p x -> p_phase p = PhLive ->
  s_rd (x_s x) = RAlive /\ s_shut (x_s x) = false /\ (p_stalled p = false -> s_lock (x_s x) = None).
Proof. intros M Ph. pose proof (m_phase k p x M) as H. rewrite Ph in H. exact H. Qed.

Lemma sim_notlive k p x : sim k p x -> p_phase p <> PhLive -> s_shut (x_s x) = true /\ s_lock (x_s x) = None.
Proof. intros M Ph. pose proof (m_phase k p x M) as H. destruct (p_phase p); [congruence | tauto | tauto]. Qed.

Lemma srv_reads_unstalled p : srv_reads p = true -> p_stalled p = false.
Proof. unfold srv_reads. destruct (p_stalled p); [discriminate | reflexivity]. Qed.

Lemma sim_none k p x c : sim k p x -> pget (p_cs p) c = PNone -> stof (x_s x) c = CNone.
Proof. intros M H. pose proof (m_cs k p x M c) as C. rewrite H in C. exact C. Qed.

(** S / T / U *)
Lemma sim_start k p x c kn p' p'' :
  sim k p x -> sp_start (k_n k) p c kn None = Some p' -> sp_like p' p'' (p_cs p') ->
  sim k p'' (on_s x (fun s => run s [Register c; Write c])).
Proof.
  intros M Hs Hl. destruct (sp_start_inv _ _ _ _ _ _ Hs) as [Hn [(Ph&Sr&->)|(Ph&->)]].
  - destruct (sim_live k p x M Ph) as (R&Sh&L). specialize (L (srv_reads_unstalled p Sr)).
    destruct (start_live (x_s x) c (m_inv k p x M) (sim_none k p x c M Hn) L Sh) as [G U].
    apply (sim_upd k p p'' x c (PFlight kn) _ (CWait (s_next (x_s x))) M); try assumption.
    + apply inv_run, (m_inv k p x M).
    + left. eauto.
  - destruct (sim_notlive k p x M Ph) as (Sh&L).
    destruct (start_shut (x_s x) c (m_inv k p x M) (sim_none k p x c M Hn) L Sh) as [G U].
    apply (sim_upd k p p'' x c (PFin false [OConn]) _ (CDone (s_next (x_s x)) RConn) M); try assumption.
    + apply inv_run, (m_inv k p x M).
    + exists (s_next (x_s x)), RConn. split; [reflexivity | now left].
Qed.

(** X *)
Lemma sim_expire k p x c p' :
  sim k p x -> sp_start (k_n k) p c true (Some [OTimeout]) = Some p' ->
  sim k p' (on_s x (fun s => run s [Register c; Write c; TFire c; TRemove c])).
Proof.
  intros M Hs. destruct (sp_start_inv _ _ _ _ _ _ Hs) as [Hn [(Ph&Sr&->)|(Ph&->)]];
    change [Register c; Write c; TFire c; TRemove c] with ([Register c; Write c] ++ [TFire c; TRemove c]);
    unfold on_s; rewrite run_app.
  - destruct (sim_live k p x M Ph) as (R&Sh&L). specialize (L (srv_reads_unstalled p Sr)).
    destruct (start_live (x_s x) c (m_inv k p x M) (sim_none k p x c M Hn) L Sh) as [G U].
    destruct (expire_tail _ c _ (proj1 U)) as [G2 U2].
    eapply sim_upd; try eassumption.
    + apply sp_like_cs.
    + rewrite <- run_app. apply inv_run, (m_inv k p x M).
    + eapply glob_eq_trans; eauto.
    + eapply upd1_trans; eauto.
    + exists (s_next (x_s x)), RTimeout. split; [reflexivity | now left].
  - destruct (sim_notlive k p x M Ph) as (Sh&L).
    destruct (start_shut (x_s x) c (m_inv k p x M) (sim_none k p x c M Hn) L Sh) as [G U].
    rewrite (noop_tail _ c _ _ (proj1 U)).
    eapply sim_upd; try eassumption.
    + apply sp_like_cs.
    + apply inv_run, (m_inv k p x M).
    + exists (s_next (x_s x)), RConn. split; [reflexivity | now left].
Qed.

(** XA *)
Lemma sim_expire_a k p x c p' :
  sim k p x -> p_phase p = PhLive -> sp_start (k_n k) p c true (Some [OTimeout; OOk]) = Some p' ->
  sim k p' (exec_event x (EExpireA c)).
Proof.
  intros M Ph Hs. destruct (sp_start_inv _ _ _ _ _ _ Hs) as [Hn [(_&Sr&->)|(Ph'&_)]]; [|congruence].
  destruct (sim_live k p x M Ph) as (R&Sh&L). specialize (L (srv_reads_unstalled p Sr)).
  cbn [exec_event]. unfold on_s.
  change [Register c; Write c; TFire c] with ([Register c; Write c] ++ [TFire c]). rewrite run_app.
  destruct (start_live (x_s x) c (m_inv k p x M) (sim_none k p x c M Hn) L Sh) as [G U].
  set (s1 := run (x_s x) [Register c; Write c]) in *.
  assert (I1 : inv s1) by apply inv_run, (m_inv k p x M).
  destruct (p_tfire s1 c _ (proj1 U)) as [G2 U2]. change (run s1 [TFire c]) with (do_step s1 (TFire c)).
  set (s2 := do_step s1 (TFire c)) in *.
  assert (I2 : inv s2) by now apply inv_do_step.
  assert (E2 : stof s2 c = CFired (s_next (x_s x))) by apply U2.
  assert (R2 : s_rd s2 = RAlive).
  { destruct G as (_&g&_). destruct G2 as (_&g2&_). congruence. }
  rewrite E2. cbn [id_of].
  change [RTake (s_next (x_s x)); RDeliver; TRemove c] with ([RTake (s_next (x_s x)); RDeliver] ++ [TRemove c]).
  rewrite run_app.
  pose proof (respond_idle s2 c I2 R2 (or_introl (ex_intro _ _ E2))) as H3. rewrite E2 in H3. cbn [id_of] in H3.
  destruct H3 as [G3 S3]. set (s3 := run s2 [RTake (s_next (x_s x)); RDeliver]) in *.
  assert (E3 : stof s3 c = CFired (s_next (x_s x))) by (rewrite S3; exact E2).
  destruct (p_tremove s3 c _ E3) as [G4 U4]. change (run s3 [TRemove c]) with (do_step s3 (TRemove c)).
  eapply sim_upd; try eassumption.
  - apply sp_like_cs.
  - apply inv_do_step. unfold s3. now apply inv_run.
  - eapply glob_eq_trans; [exact G|]. eapply glob_eq_trans; [exact G2|]. eapply glob_eq_trans; eauto.
  - eapply upd1_trans; [exact U|]. eapply upd1_trans; [exact U2|]. eapply same_upd1; eauto.
  - exists (s_next (x_s x)), RTimeout. split; [reflexivity | now left].
Qed.

(** XB *)
Lemma sim_expire_b k p x c p' :
  sim k p x -> p_phase p = PhLive -> sp_start (k_n k) p c true (Some [OTimeout; OOk]) = Some p' ->
  sim k p' (exec_event x (EExpireB c)).
Proof.
  intros M Ph Hs. destruct (sp_start_inv _ _ _ _ _ _ Hs) as [Hn [(_&Sr&->)|(Ph'&_)]]; [|congruence].
  destruct (sim_live k p x M Ph) as (R&Sh&L). specialize (L (srv_reads_unstalled p Sr)).
  cbn [exec_event]. unfold on_s.
  destruct (start_live (x_s x) c (m_inv k p x M) (sim_none k p x c M Hn) L Sh) as [G U].
  set (s1 := run (x_s x) [Register c; Write c]) in *.
  assert (I1 : inv s1) by apply inv_run, (m_inv k p x M).
  assert (E1 : stof s1 c = CWait (s_next (x_s x))) by apply U.
  assert (R1 : s_rd s1 = RAlive) by (destruct G as (_&g&_); congruence).
  rewrite E1. cbn [id_of]. set (n := s_next (x_s x)) in *.
  assert (F : pfind (s_pending s1) n = Some c) by (apply pfind_waiting; [assumption | rewrite R1; discriminate | assumption]).
  cbn [run fold_left].
  destruct (p_take_some s1 n c R1 F) as [G2 S2]. set (s2 := do_step s1 (RTake n)) in *.
  assert (E2 : stof s2 c = CWait n) by (rewrite S2; exact E1).
  destruct (p_tfire s2 c n E2) as [G3 U3]. set (s3 := do_step s2 (TFire c)) in *.
  destruct (p_tremove s3 c n (proj1 U3)) as [G4 U4]. set (s4 := do_step s3 (TRemove c)) in *.
  assert (R4 : s_rd s4 = RHold (Some c)).
  { destruct G2 as (_&g2&_). destruct G3 as (_&g3&_). destruct G4 as (_&g4&_). congruence. }
  destruct (p_deliver_some s4 c R4) as [G5 U5]. rewrite (proj1 U4) in U5. cbn [deliver_st] in U5.
  apply (sim_upd k p _ x c (PFin true [OTimeout; OOk]) _ (CDone n RTimeout) M).
  - apply sp_like_cs.
  - apply inv_do_step. unfold s4. apply inv_do_step. unfold s3. apply inv_do_step. unfold s2. apply inv_do_step. exact I1.
  - eapply glob_eq_trans; [exact G|]. unfold glob_eq. rewrite R1.
    eapply glob_rd_trans; [exact G2|]. eapply glob_rd_trans; [exact G3|]. eapply glob_rd_trans; [exact G4|]. exact G5.
  - eapply upd1_trans; [exact U|]. eapply same_upd1; [exact S2|]. eapply upd1_trans; [exact U3|].
    eapply upd1_trans; [exact U4|]. exact U5.
  - exists n, RTimeout. split; [reflexivity | now left].
Qed.

(** XC *)
Lemma sim_expire_c k p x c p' :
  sim k p x -> p_phase p = PhLive -> sp_start (k_n k) p c true (Some [OTimeout; OOk]) = Some p' ->
  sim k p' (exec_event x (EExpireC c)).
Proof.
  intros M Ph Hs. destruct (sp_start_inv _ _ _ _ _ _ Hs) as [Hn [(_&Sr&->)|(Ph'&_)]]; [|congruence].
  destruct (sim_live k p x M Ph) as (R&Sh&L). specialize (L (srv_reads_unstalled p Sr)).
  cbn [exec_event]. unfold on_s.
  change [Register c; Write c; TFire c; TRemove c] with ([Register c; Write c] ++ [TFire c; TRemove c]).
  rewrite run_app.
  destruct (start_live (x_s x) c (m_inv k p x M) (sim_none k p x c M Hn) L Sh) as [G U].
  set (s1 := run (x_s x) [Register c; Write c]) in *.
  assert (I1 : inv s1) by apply inv_run, (m_inv k p x M).
  destruct (expire_tail s1 c _ (proj1 U)) as [G2 U2]. set (s2 := run s1 [TFire c; TRemove c]) in *.
  assert (I2 : inv s2) by now apply inv_run.
  assert (R2 : s_rd s2 = RAlive) by (destruct G as (_&g&_); destruct G2 as (_&g2&_); congruence).
  destruct (respond_idle s2 c I2 R2 (or_intror (ex_intro _ _ (ex_intro _ _ (proj1 U2))))) as [G3 S3].
  apply (sim_upd k p _ x c (PFin true [OTimeout; OOk]) _ (CDone (s_next (x_s x)) RTimeout) M).
  - apply sp_like_cs.
  - now apply inv_run.
  - eapply glob_eq_trans; [exact G|]. eapply glob_eq_trans; eauto.
  - eapply upd1_trans; [exact U|]. eapply upd1_same; eauto.
  - exists (s_next (x_s x)), RTimeout. split; [reflexivity | now left].
Qed.

(** what a call in flight looks like while the connection lives *)
Lemma flight_live k p x c :
  sim k p x -> p_phase p = PhLive -> pget (p_cs p) c = PFlight true -> exists id, stof (x_s x) c = CWait id.
Proof.
  intros M Ph H. pose proof (m_cs k p x M c) as C. rewrite H, Ph in C. cbn in C.
  destruct C as [C|[(_&_&C&_)|(_&C&_)]]; [assumption | discriminate | discriminate].
Qed.

Lemma fin_done k p x c kn l :
  sim k p x -> pget (p_cs p) c = PFin kn l -> exists id r, stof (x_s x) c = CDone id r /\ In (cls r) l.
Proof. intros M H. pose proof (m_cs k p x M c) as C. rewrite H in C. exact C. Qed.

(** R *)
Lemma sim_respond k p x c p' :
  sim k p x -> spec_step k p (ERespond c) = Some p' -> sim k p' (exec_event x (ERespond c)).
Proof.
  intros M Hs. cbn [spec_step] in Hs. destruct (live p) eqn:Lv; cbn [negb] in Hs; [|discriminate].
  assert (Ph : p_phase p = PhLive) by (unfold live in Lv; destruct (p_phase p); congruence).
  destruct (sim_live k p x M Ph) as (R&Sh&L).
  cbn [exec_event]. unfold on_s.
  destruct (pget (p_cs p) c) as [|[|]|[|] l] eqn:E; try discriminate; inversion Hs; subst p'.
  - destruct (flight_live k p x c M Ph E) as [id Ew]. rewrite Ew. cbn [id_of].
    destruct (respond_waiting (x_s x) c id (m_inv k p x M) R Ew) as [G U].
    apply (sim_upd k p _ x c (PFin true [OOk]) _ (CDone id ROk) M); try assumption.
    + apply sp_like_cs.
    + apply inv_run, (m_inv k p x M).
    + exists id, ROk. split; [reflexivity | now left].
  - destruct (fin_done k p x c _ _ M E) as (id&r&Ed&_). rewrite Ed. cbn [id_of].
    rewrite (late_response_noop (x_s x) c id r (m_inv k p x M) R Ed). destruct x; exact M.
Qed.

(** V *)
Lemma sim_unknown k p x : sim k p x -> p_phase p = PhLive -> sim k p (exec_event x EUnknown).
Proof.
  intros M Ph. destruct (sim_live k p x M Ph) as (R&_).
  cbn [exec_event]. unfold on_s.
  rewrite (unknown_response_noop (x_s x) 0 R (pfind_zero _ (m_inv k p x M))). destruct x; exact M.
Qed.

(** C *)
Lemma sim_cancel k p x c p' :
  sim k p x -> spec_step k p (ECancel c) = Some p' -> sim k p' (exec_event x (ECancel c)).
Proof.
  intros M Hs. cbn [spec_step] in Hs. destruct (is_tcp (k_kind k)) eqn:T; [discriminate|].
  assert (K : s_kind (x_s x) <> KTcp) by (rewrite (m_kind k p x M); destruct (k_kind k); [discriminate|congruence|congruence]).
  cbn [exec_event]. unfold on_s.
  destruct (pget (p_cs p) c) as [|kn|kn l] eqn:E; try discriminate.
  pose proof (m_cs k p x M c) as C. rewrite E in C. cbn in C.
  destruct (p_phase p) eqn:Ph; try discriminate; destruct (p_stalled p) eqn:St; try discriminate; inversion Hs; subst p';
    (destruct C as [[id C]|[(C&_)|(C&_)]]; [|discriminate|discriminate]);
    destruct (p_cancel (x_s x) c id K C) as [G U].
  - apply (sim_upd k p _ x c (PFin kn [OCancelled]) _ (CDone id RCancelled) M); try assumption.
    + apply sp_like_cs.
    + apply inv_do_step, (m_inv k p x M).
    + exists id, RCancelled. split; [reflexivity | now left].
  - apply (sim_upd k p _ x c (PFin kn [OCancelled; OConn]) _ (CDone id RCancelled) M); try assumption.
    + apply sp_like_cs.
    + apply inv_do_step, (m_inv k p x M).
    + exists id, RCancelled. split; [reflexivity | now left].
Qed.

(** CB / CC *)
Lemma sim_cancel_b k p x c p' :
  sim k p x -> spec_step k p (ECancelB c) = Some p' -> sim k p' (exec_event x (ECancelB c)).
Proof.
  intros M Hs. cbn [spec_step] in Hs. destruct (is_tcp (k_kind k)) eqn:T; [discriminate|].
  destruct (live p) eqn:Lv; cbn [negb orb] in Hs; [|discriminate].
  assert (Ph : p_phase p = PhLive) by (unfold live in Lv; destruct (p_phase p); congruence).
  assert (K : s_kind (x_s x) <> KTcp) by (rewrite (m_kind k p x M); destruct (k_kind k); [discriminate|congruence|congruence]).
  destruct (sim_live k p x M Ph) as (R&Sh&L).
  destruct (pget (p_cs p) c) as [|[|]|kn l] eqn:E; try discriminate. inversion Hs; subst p'.
  destruct (flight_live k p x c M Ph E) as [id Ew].
  cbn [exec_event]. unfold on_s. rewrite Ew. cbn [id_of].
  assert (F : pfind (s_pending (x_s x)) id = Some c)
    by (apply pfind_waiting; [apply (m_inv k p x M) | rewrite R; discriminate | assumption]).
  cbn [run fold_left].
  destruct (p_take_some (x_s x) id c R F) as [G1 S1]. set (s1 := do_step (x_s x) (RTake id)) in *.
  assert (K1 : s_kind s1 <> KTcp) by (destruct G1 as (g&_); congruence).
  assert (E1 : stof s1 c = CWait id) by (rewrite S1; exact Ew).
  destruct (p_cancel s1 c id K1 E1) as [G2 U2]. set (s2 := do_step s1 (Cancel c)) in *.
  assert (R2 : s_rd s2 = RHold (Some c)) by (destruct G1 as (_&g1&_); destruct G2 as (_&g2&_); congruence).
  destruct (p_deliver_some s2 c R2) as [G3 U3]. rewrite (proj1 U2) in U3. cbn [deliver_st] in U3.
  apply (sim_upd k p _ x c (PFin true [OCancelled]) _ (CDone id RCancelled) M).
  - apply sp_like_cs.
  - apply inv_do_step. unfold s2. apply inv_do_step. unfold s1. apply inv_do_step. apply (m_inv k p x M).
  - unfold glob_eq. rewrite R. eapply glob_rd_trans; [exact G1|]. eapply glob_rd_trans; [exact G2|]. exact G3.
  - eapply same_upd1; [exact S1|]. eapply upd1_trans; [exact U2|]. exact U3.
  - exists id, RCancelled. split; [reflexivity | now left].
Qed.

Lemma sim_cancel_c k p x c p' :
  sim k p x -> spec_step k p (ECancelC c) = Some p' -> sim k p' (exec_event x (ECancelC c)).
Proof.
  intros M Hs. cbn [spec_step] in Hs. destruct (is_tcp (k_kind k)) eqn:T; [discriminate|].
  destruct (live p) eqn:Lv; cbn [negb orb] in Hs; [|discriminate].
  assert (Ph : p_phase p = PhLive) by (unfold live in Lv; destruct (p_phase p); congruence).
  assert (K : s_kind (x_s x) <> KTcp) by (rewrite (m_kind k p x M); destruct (k_kind k); [discriminate|congruence|congruence]).
  destruct (sim_live k p x M Ph) as (R&Sh&L).
  destruct (pget (p_cs p) c) as [|[|]|kn l] eqn:E; try discriminate. inversion Hs; subst p'.
  destruct (flight_live k p x c M Ph E) as [id Ew].
  cbn [exec_event]. unfold on_s. rewrite Ew. cbn [id_of].
  change [Cancel c; RTake id; RDeliver] with ([Cancel c] ++ [RTake id; RDeliver]). rewrite run_app.
  change (run (x_s x) [Cancel c]) with (do_step (x_s x) (Cancel c)).
  destruct (p_cancel (x_s x) c id K Ew) as [G1 U1]. set (s1 := do_step (x_s x) (Cancel c)) in *.
  assert (I1 : inv s1) by apply inv_do_step, (m_inv k p x M).
  assert (R1 : s_rd s1 = RAlive) by (destruct G1 as (_&g&_); congruence).
  rewrite (late_response_noop s1 c id RCancelled I1 R1 (proj1 U1)).
  apply (sim_upd k p _ x c (PFin true [OCancelled]) _ (CDone id RCancelled) M); try assumption.
  - apply sp_like_cs.
  - exists id, RCancelled. split; [reflexivity | now left].
Qed.

(** N *)
Lemma sim_notify k p x p' :
  sim k p x -> spec_step k p ENotify = Some p' -> sim k p' (exec_event x ENotify).
Proof.
  intros M Hs. cbn [spec_step] in Hs.
  destruct (live p) eqn:Lv; [|discriminate]. destruct (is_ws (k_kind k)) eqn:W; [|discriminate].
  destruct (k_sub k) eqn:Ks; [|discriminate]. cbn [andb] in Hs. inversion Hs; subst p'.
  assert (Ph : p_phase p = PhLive) by (unfold live in Lv; destruct (p_phase p); congruence).
  destruct (sim_live k p x M Ph) as (R&Sh&L).
  assert (U : s_sub (x_s x) = SSub) by (rewrite (m_sub k p x M); unfold sub_of; now rewrite Ks, Ph).
  cbn [exec_event]. unfold on_s. cbn [do_step]. rewrite R, U.
  pose proof (inv_set_nrecv (x_s x) (s_nrecv (x_s x) + 1) (m_inv k p x M)) as I2.
  destruct M as [a b c0 d e f g h i].
  constructor; cbn [x_s x_faulted x_subq x_resid set_nrecv s_kind s_rd s_shut s_lock s_sub s_nrecv p_phase p_cs p_stalled p_subq p_nn p_nprobe]; try assumption.
  - congruence.
Qed.

(** Q *)
Lemma sim_query k p x p' :
  sim k p x -> spec_step k p EQuery = Some p' -> sim k p' (exec_event x EQuery).
Proof.
  intros M Hs. cbn [spec_step] in Hs. inversion Hs; subst p'. cbn [exec_event].
  pose proof (m_sub k p x M) as U.
  destruct M as [a b c0 d e f g h i].
  constructor; cbn [x_s x_faulted x_subq x_resid p_phase p_cs p_stalled p_subq p_nn p_nprobe]; try assumption.
  rewrite d. f_equal. rewrite U. unfold sub_of, live. destruct (k_sub k); [|reflexivity].
  destruct (p_phase p); reflexivity.
Qed.

(** W *)
Lemma crel_stall_mono ph v w : crel false ph v w -> crel true ph v w.
Proof. destruct v; cbn; intuition discriminate. Qed.

Lemma p_wstall s c id mb : stof s c = CReg id mb -> s_lock s = None -> s_shut s = false ->
  let s' := do_step s (WStall c) in
  s_kind s' = s_kind s /\ s_rd s' = s_rd s /\ s_shut s' = false /\ s_sub s' = s_sub s /\ s_nrecv s' = s_nrecv s /\
  upd1 s s' c (CStall id mb).
Proof.
  intros E L Sh. cbn zeta. cbn [do_step]. unfold lock_free. rewrite E, L, Sh. cbn [negb andb].
  repeat split; try reflexivity; try assumption.
  - unfold stof. cbn. apply cget_cset_same.
  - intros c' Hc. unfold stof. cbn. now apply cget_cset_other.
Qed.

Lemma sim_stall k p x c p' :
  sim k p x -> spec_step k p (EStallStart c) = Some p' -> sim k p' (exec_event x (EStallStart c)).
Proof.
  intros M Hs. cbn [spec_step] in Hs. destruct (live p) eqn:Lv; cbn [negb] in Hs; [|discriminate].
  assert (Ph : p_phase p = PhLive) by (unfold live in Lv; destruct (p_phase p); congruence).
  destruct (sp_start (k_n k) p c false None) as [p0|] eqn:Hs0; [|discriminate]. inversion Hs; subst p'.
  destruct (sp_start_inv _ _ _ _ _ _ Hs0) as [Hn [(_&Sr&->)|(Ph'&_)]]; [|congruence].
  destruct (sim_live k p x M Ph) as (R&Sh&L). specialize (L (srv_reads_unstalled p Sr)).
  cbn [exec_event]. unfold on_s. cbn [run fold_left].
  destruct (p_register (x_s x) c (sim_none k p x c M Hn)) as [G1 U1]. set (s1 := do_step (x_s x) (Register c)) in *.
  destruct G1 as (g1&g2&g3&g4&g5&g6&g7).
  destruct (p_wstall s1 c _ _ (proj1 U1) ltac:(congruence) ltac:(congruence)) as (h1&h2&h3&h4&h5&U2).
  set (s2 := do_step s1 (WStall c)) in *.
  assert (I2 : inv s2) by (apply inv_do_step, inv_do_step, (m_inv k p x M)).
  pose proof (upd1_trans _ _ _ _ _ _ U1 U2) as U.
  pose proof (srv_reads_unstalled p Sr) as St.
  destruct M as [a b c0 d e f g h i].
  constructor; cbn [x_s x_faulted x_subq x_resid sp_cs p_phase p_cs p_stalled p_subq p_nn p_nprobe]; try assumption; try congruence.
  - rewrite Ph. repeat split; [congruence | congruence | discriminate].
  - intros c'. rewrite pget_pset. destruct (c' =? c) eqn:E.
    + apply N.eqb_eq in E; subst c'. rewrite (proj1 U). right. left. rewrite Ph. repeat split. eauto.
    + apply N.eqb_neq in E. rewrite (proj2 U c' E). apply crel_stall_mono. rewrite <- St. apply i.
Qed.

(** G *)
Lemma repeat_snoc {A} (a : A) n : repeat a (S n) = repeat a n ++ [a].
Proof. induction n as [|n IH]; [reflexivity|]. cbn [repeat app] in *. now rewrite <- IH. Qed.

Lemma sim_probe k p x c p' :
  sim k p x -> spec_step k p (EProbe c) = Some p' -> sim k p' (exec_event x (EProbe c)).
Proof.
  intros M Hs. cbn [spec_step] in Hs.
  destruct (is_async (k_kind k) && live p && srv_reads p); [|discriminate].
  destruct (pget (p_cs p) c) as [|kn|[|] l] eqn:E; try discriminate. inversion Hs; subst p'.
  destruct (fin_done k p x c _ _ M E) as (id&r&Ed&_).
  cbn [exec_event]. rewrite Ed. cbn [id_of]. rewrite (no_residue_inv _ c id r (m_inv k p x M) Ed).
  destruct M as [a b c0 d e f g h i].
  constructor; cbn [x_s x_faulted x_subq x_resid p_phase p_cs p_stalled p_subq p_nn p_nprobe]; try assumption.
  rewrite e. symmetry. apply repeat_snoc.
Qed.

(** *** the fault: up to the probe point *)
Lemma p_fail3 s : s_rd s = RAlive ->
  let s' := run s [ReadErr; SubEnd; OwnShut] in
  s_kind s' = s_kind s /\ s_rd s' = ROwnShut /\ s_shut s' = true /\ s_gstop s' = s_gstop s /\ s_lock s' = s_lock s /\
  s_sub s' = (match s_kind s, s_sub s with KWs, SSub => SEnded | _, u => u end) /\ s_nrecv s' = s_nrecv s /\
  same_cs s s'.
Proof.
  intros R. cbn zeta. cbn [run fold_left do_step]. rewrite R.
  cbn [set_rd set_shut set_sub s_rd s_kind s_shut s_gstop s_lock s_sub s_nrecv].
  destruct (s_kind s) eqn:K; [|destruct (s_sub s) eqn:U|destruct (s_sub s) eqn:U];
    cbn [set_rd set_shut set_sub s_rd s_kind s_shut s_gstop s_lock s_sub s_nrecv];
    repeat split; auto.
Qed.

Lemma p_unstall_fail s b id mb : s_shut s = true -> stof s b = CStall id mb ->
  let s' := do_step s (WStallEnd b) in
  s_kind s' = s_kind s /\ s_rd s' = s_rd s /\ s_shut s' = true /\ s_lock s' = None /\ s_sub s' = s_sub s /\
  s_nrecv s' = s_nrecv s /\ stof s' b = CDone id RConn /\
  forall c', c' <> b -> stof s' c' = stof s c' \/ stof s' c' = deliver_st (stof s c') RConn.
Proof.
  intros Sh E. cbn zeta. cbn [do_step]. rewrite E, Sh. split; [|split; [|split; [|split; [|split; [|split; [|split]]]]]].
  - rewrite fail_write_eq, kind_after_fail. reflexivity.
  - rewrite fail_write_eq, rd_after_fail. reflexivity.
  - rewrite fail_write_eq. unfold after_fail, own_fail. cbn [set_pc set_lock s_kind]. destruct (s_kind s); [|cbn|]; cbn; assumption || reflexivity.
  - rewrite fail_write_eq, lock_after_fail. reflexivity.
  - rewrite fail_write_eq. unfold after_fail, own_fail. cbn [set_pc set_lock s_kind]. destruct (s_kind s); reflexivity.
  - rewrite fail_write_eq. unfold after_fail, own_fail. cbn [set_pc set_lock s_kind]. destruct (s_kind s); reflexivity.
  - apply stof_fail_write.
  - intros c' Hc. rewrite fail_write_eq. unfold after_fail, own_fail. cbn [set_pc set_lock s_kind].
    destruct (s_kind s); unfold stof; cbn [set_shut set_gstop drain_all set_pc s_cs s_pending].
    + left. now apply cget_cset_other.
    + rewrite drain_get. rewrite (cget_cset_other _ _ _ _ Hc).
      destruct (has_caller _ c'); [now right | now left].
    + left. now apply cget_cset_other.
Qed.

Lemma p_lockshut s : s_rd s = ROwnShut -> s_lock s = None ->
  let s4 := do_step s LockShut in
  s_kind s4 = s_kind s /\ s_rd s4 = (if is_tcp (s_kind s) then RShutDone else ROwnShut) /\
  s_shut s4 = s_shut s /\ s_lock s4 = None /\ s_sub s4 = s_sub s /\ s_nrecv s4 = s_nrecv s /\ same_cs s s4.
Proof.
  intros R L. cbn zeta. cbn [do_step]. rewrite R. unfold lock_free. rewrite L.
  destruct (s_kind s) eqn:K; cbn [is_tcp set_rd s_kind s_rd s_shut s_lock s_sub s_nrecv]; rewrite ?K;
    repeat split; auto.
Qed.

Lemma sub_of_fail k p x :
  sim k p x -> (k_sub k = true -> k_kind k = KWs) -> p_phase p = PhLive ->
  (match s_kind (x_s x), s_sub (x_s x) with KWs, SSub => SEnded | _, u => u end) = sub_of k PhWindow.
Proof.
  intros M Hk Ph. rewrite (m_kind k p x M), (m_sub k p x M), Ph. unfold sub_of.
  destruct (k_sub k) eqn:Ks; [rewrite (Hk eq_refl); reflexivity | destruct (k_kind k); reflexivity].
Qed.

Lemma sim_fault_park k p x :
  (k_sub k = true -> k_kind k = KWs) ->
  sim k p x -> p_phase p = PhLive -> sim k (sp_phase p PhWindow) (exec_event x EFaultPark).
Proof.
  intros Hk M Ph. destruct (sim_live k p x M Ph) as (R&Sh&L).
  cbn [exec_event]. unfold on_s, fault_to_shutdown.
  destruct (p_fail3 (x_s x) R) as (a1&a2&a3&a4&a5&a6&a7&S2).
  set (s2 := run (x_s x) [ReadErr; SubEnd; OwnShut]) in *.
  assert (I2 : inv s2) by apply inv_run, (m_inv k p x M).
  rewrite (sub_of_fail k p x M Hk Ph) in a6.
  assert (I4 : inv (do_step (unstall s2) LockShut)).
  { apply inv_do_step. unfold unstall. destruct (s_lock s2); [destruct (s_shut s2); [now apply inv_do_step | assumption] | assumption]. }
  unfold unstall in *. rewrite a5 in *. rewrite a3 in *.
  destruct (s_lock (x_s x)) as [b|] eqn:Lk.
  - (* a stalled writer: it is woken, fails and releases the lock *)
    assert (St : p_stalled p = true) by (destruct (p_stalled p); [reflexivity | specialize (L eq_refl); discriminate]).
    destruct (proj1 (i_lock _ (m_inv k p x M) b) Lk) as (id&mb&Eb).
    assert (Eb2 : stof s2 b = CStall id mb) by (rewrite S2; exact Eb).
    destruct (p_unstall_fail s2 b id mb a3 Eb2) as (b1&b2&b3&b4&b5&b6&b7&b8).
    set (s3 := do_step s2 (WStallEnd b)) in *.
    pose proof (p_lockshut s3 ltac:(congruence) b4) as Hfin. cbn zeta in Hfin.
    destruct Hfin as (c1&c2&c3&c4&c5&c6&S4). set (s4 := do_step s3 LockShut) in *.
    destruct M as [m1 m2 m3 m4 m5 m6 m7 m8 m9].
    constructor; cbn [x_s x_faulted x_subq x_resid sp_phase p_phase p_cs p_stalled p_subq p_nn p_nprobe]; try assumption; try congruence.
    + rewrite Ph in m3. exact m3.
    + rewrite c2. replace (s_kind s3) with (k_kind k) by congruence. repeat split; congruence.
    + intros c'. rewrite S4. specialize (m9 c'). rewrite Ph, St in m9. rewrite St.
      destruct (N.eq_dec c' b) as [->|Hne].
      * rewrite b7. rewrite Eb in m9. destruct (pget (p_cs p) b); cbn in m9 |- *.
        -- discriminate.
        -- right. right. repeat split. eauto.
        -- destruct m9 as (i0&r0&H0&_). discriminate.
      * assert (Hns : forall i m, stof (x_s x) c' <> CStall i m).
        { intros i m H. apply Hne. assert (s_lock (x_s x) = Some c') by (apply (i_lock _ m1); eauto). congruence. }
        rewrite <- (S2 c') in *.
        destruct (b8 c' Hne) as [H8|H8]; rewrite H8; clear H8;
          destruct (pget (p_cs p) c'); cbn in m9 |- *.
        -- exact m9.
        -- destruct m9 as [H|[(_&_&_&i0&H)|(_&H&_)]]; [now left | exfalso; eapply Hns; eauto | discriminate].
        -- exact m9.
        -- rewrite m9. reflexivity.
        -- destruct m9 as [[i0 H]|[(_&_&_&i0&H)|(_&H&_)]]; [| exfalso; eapply Hns; eauto | discriminate].
           rewrite H. cbn. right. right. repeat split. eauto.
        -- destruct m9 as (i0&r0&H0&Hin). rewrite H0. cbn. eauto.
  - (* nobody holds the writer lock *)
    pose proof (p_lockshut s2 a2 a5) as Hfin. cbn zeta in Hfin.
    destruct Hfin as (c1&c2&c3&c4&c5&c6&S4). set (s4 := do_step s2 LockShut) in *.
    destruct M as [m1 m2 m3 m4 m5 m6 m7 m8 m9].
    constructor; cbn [x_s x_faulted x_subq x_resid sp_phase p_phase p_cs p_stalled p_subq p_nn p_nprobe]; try assumption; try congruence.
    + rewrite Ph in m3. exact m3.
    + rewrite c2. replace (s_kind s2) with (k_kind k) by congruence. repeat split; congruence.
    + intros c'. rewrite S4, S2. specialize (m9 c'). rewrite Ph in m9.
      assert (Hns : forall i m, stof (x_s x) c' <> CStall i m).
      { intros i m H. assert (s_lock (x_s x) = Some c') by (apply (i_lock _ m1); eauto). congruence. }
      destruct (pget (p_cs p) c'); cbn in m9 |- *; try exact m9.
      destruct m9 as [H|[(_&_&_&i0&H)|(_&H&_)]]; [now left | exfalso; eapply Hns; eauto | discriminate].
Qed.

(** *** the drain and the end of the response loop *)
Lemma p_finish s : (s_rd s = RShutDone /\ s_kind s = KTcp) \/ (s_rd s = ROwnShut /\ s_kind s <> KTcp) -> s_lock s = None ->
  let s' := finish s in
  s_kind s' = s_kind s /\ s_rd s' = RDead /\ s_shut s' = s_shut s /\ s_lock s' = None /\ s_sub s' = s_sub s /\
  s_nrecv s' = s_nrecv s /\ forall c, stof s' c = stof (drain_all s) c.
Proof.
  intros H L. cbn zeta. unfold finish. cbn [run fold_left do_step].
  destruct H as [[R K]|[R K]]; rewrite R.
  - rewrite K. cbn [set_rd drain_all set_pc s_rd s_kind s_shut s_lock s_sub s_nrecv]. repeat split; auto.
  - destruct (s_kind s) eqn:K2; [congruence| |];
      cbn [set_rd drain_all set_pc s_rd s_kind s_shut s_lock s_sub s_nrecv lock_free]; rewrite ?K2;
      unfold lock_free; cbn [set_rd drain_all set_pc s_rd s_kind s_shut s_lock s_sub s_nrecv]; rewrite L;
      cbn [set_rd drain_all set_pc s_rd s_kind s_shut s_lock s_sub s_nrecv]; repeat split; auto.
Qed.

Lemma drain_cases s c :
  match stof s c with
  | CWait i => stof (drain_all s) c = CWait i \/ stof (drain_all s) c = CDone i RConn
  | CNone => stof (drain_all s) c = CNone
  | CDone i r => stof (drain_all s) c = CDone i r
  | _ => True
  end.
Proof.
  rewrite stof_drain. destruct (stof s c) as [|id [x|]|id [x|]|id|id|id x]; try exact Logic.I;
    destruct (has_caller (s_pending s) c); cbn; auto.
Qed.

Lemma sim_release k p x :
  sim k p x -> p_phase p = PhWindow ->
  sim k (sp_phase (sp_cs p (fail_flights (p_cs p))) PhDead) (exec_event x ERelease).
Proof.
  intros M Ph. pose proof (m_phase k p x M) as H. rewrite Ph in H. destruct H as (R&Sh&L).
  cbn [exec_event].
  assert (Hk : (s_rd (x_s x) = RShutDone /\ s_kind (x_s x) = KTcp) \/ (s_rd (x_s x) = ROwnShut /\ s_kind (x_s x) <> KTcp)).
  { rewrite (m_kind k p x M), R. destruct (k_kind k); cbn; [left | right | right]; split; congruence. }
  destruct (p_finish (x_s x) Hk L) as (a1&a2&a3&a4&a5&a6&S).
  set (s' := finish (x_s x)) in *.
  assert (I' : inv s') by (unfold s', finish; apply inv_run, (m_inv k p x M)).
  destruct M as [m1 m2 m3 m4 m5 m6 m7 m8 m9].
  constructor; cbn [x_s x_faulted x_subq x_resid sp_phase sp_cs p_phase p_cs p_stalled p_subq p_nn p_nprobe]; try assumption; try congruence.
  - rewrite a5, m7, Ph. reflexivity.
  - repeat split; congruence.
  - intros c. rewrite pget_fail_flights. specialize (m9 c). rewrite Ph in m9.
    pose proof (drain_cases (x_s x) c) as D. rewrite <- S in D.
    destruct (pget (p_cs p) c) as [|kn|kn l]; cbn in m9 |- *.
    + rewrite m9 in D. exact D.
    + destruct m9 as [[i H]|[(_&H&_)|(_&_&i&H)]]; [| discriminate |].
      * rewrite H in D. destruct D as [D|D].
        -- exfalso. apply (dead_no_waiter s' c i I' (or_introl a2) D).
        -- exists i, RConn. split; [assumption | now left].
      * rewrite H in D. exists i, RConn. split; [assumption | now left].
    + destruct m9 as (i&r&H&Hin). rewrite H in D. eauto.
Qed.

Lemma sim_fault k p x :
  (k_sub k = true -> k_kind k = KWs) ->
  sim k p x -> p_phase p = PhLive ->
  sim k (sp_phase (sp_cs p (fail_flights (p_cs p))) PhDead) (exec_event x EFault).
Proof.
  intros Hk M Ph.
  pose proof (sim_release k (sp_phase p PhWindow) (exec_event x EFaultPark) (sim_fault_park k p x Hk M Ph) eq_refl) as H.
  exact H.
Qed.

(** *** every event *)
Lemma live_phase p : live p = true -> p_phase p = PhLive.
Proof. unfold live. destruct (p_phase p); congruence. Qed.

Theorem sim_step k p x e p' :
  (k_sub k = true -> k_kind k = KWs) ->
  sim k p x -> spec_step k p e = Some p' -> sim k p' (exec_event x e).
Proof.
  intros Hk M Hs. destruct e as [c tmo|c|c|c|c|c|c| |c|c|c| | |c| | | |c].
  - cbn [spec_step] in Hs. cbn [exec_event]. exact (sim_start k p x c true p' p' M Hs (sp_like_refl p')).
  - cbn [spec_step] in Hs. destruct (sp_start (k_n k) p c false None) as [p0|] eqn:H0; [|discriminate].
    inversion Hs; subst p'. cbn [exec_event]. apply (sim_start k p x c false p0 _ M H0).
    destruct (live p); [|apply sp_like_refl]. unfold sp_like. cbn. tauto.
  - cbn [spec_step] in Hs. cbn [exec_event]. exact (sim_expire k p x c p' M Hs).
  - cbn [spec_step] in Hs. destruct (is_tcp (k_kind k) && live p) eqn:H; [|discriminate].
    apply andb_prop in H. apply (sim_expire_a k p x c p'); [assumption | apply live_phase; tauto | assumption].
  - cbn [spec_step] in Hs. destruct (live p) eqn:H; [|discriminate]. apply (sim_expire_b k p x c p'); [assumption | now apply live_phase | assumption].
  - cbn [spec_step] in Hs. destruct (live p) eqn:H; [|discriminate]. apply (sim_expire_c k p x c p'); [assumption | now apply live_phase | assumption].
  - exact (sim_respond k p x c p' M Hs).
  - cbn [spec_step] in Hs. destruct (live p) eqn:H; [|discriminate]. inversion Hs; subst p'. apply sim_unknown; [assumption | now apply live_phase].
  - exact (sim_cancel k p x c p' M Hs).
  - exact (sim_cancel_b k p x c p' M Hs).
  - exact (sim_cancel_c k p x c p' M Hs).
  - exact (sim_notify k p x p' M Hs).
  - exact (sim_query k p x p' M Hs).
  - exact (sim_stall k p x c p' M Hs).
  - cbn [spec_step] in Hs. destruct (live p) eqn:H; [|discriminate]. inversion Hs; subst p'. apply sim_fault; [assumption | assumption | now apply live_phase].
  - cbn [spec_step] in Hs. destruct (live p) eqn:H; [|discriminate]. inversion Hs; subst p'. apply sim_fault_park; [assumption | assumption | now apply live_phase].
  - cbn [spec_step] in Hs. destruct (p_phase p) eqn:Ph; try discriminate. inversion Hs; subst p'. now apply sim_release.
  - exact (sim_probe k p x c p' M Hs).
Qed.

Lemma sim_run k p x l p' :
  (k_sub k = true -> k_kind k = KWs) ->
  sim k p x -> spec_run k p l = Some p' -> sim k p' (fold_left exec_event l x).
Proof.
  intros Hk. revert p x. induction l as [|e l IH]; intros p x M Hs; cbn [spec_run fold_left] in *.
  - inversion Hs; subst. exact M.
  - destruct (spec_step k p e) as [p1|] eqn:E; [|discriminate]. apply (IH p1); [|assumption].
    now apply (sim_step k p x e p1).
Qed.

Lemma sim_init k : (k_sub k = true -> k_kind k = KWs) -> sim k sp0 (x0 k).
Proof.
  intros Hk. unfold x0. destruct (k_sub k) eqn:Ks.
  - constructor; cbn; try reflexivity.
    + apply (inv_do_step (init (k_kind k)) Subscribe), inv_init.
    + unfold sub_of. now rewrite Ks.
    + repeat split; auto.
  - constructor; cbn; try reflexivity.
    + apply inv_init.
    + unfold sub_of. now rewrite Ks.
    + repeat split; auto.
Qed.

(** ** the oracle accepts the model on every scenario of the specification *)
Lemma oclass_eqb_refl a : oclass_eqb a a = true.
Proof. destruct a; reflexivity. Qed.

Lemma existsb_in a l : In a l -> existsb (oclass_eqb a) l = true.
Proof. intros H. apply existsb_exists. exists a. split; [assumption | apply oclass_eqb_refl]. Qed.

Lemma osub_eqb_refl a : osub_eqb a a = true.
Proof. destruct a; reflexivity. Qed.

Lemma list_eqb_refl {A} (eqb : A -> A -> bool) (l : list A) : (forall a, eqb a a = true) -> list_eqb eqb l l = true.
Proof. intros H. induction l as [|a l IH]; [reflexivity|]. cbn [list_eqb]. now rewrite H, IH. Qed.

Lemma class_allowed k p x c :
  sim k p x -> p_phase p <> PhWindow ->
  existsb (oclass_eqb (class_of (x_faulted x) (stof (x_s x) c))) (allowed_of (pget (p_cs p) c)) = true.
Proof.
  intros M Ph. pose proof (m_cs k p x M c) as C. pose proof (m_faulted k p x M) as F.
  destruct (pget (p_cs p) c) as [|kn|kn l]; cbn in C |- *.
  - rewrite C. reflexivity.
  - destruct (p_phase p) eqn:E; [| congruence |].
    + rewrite F. destruct C as [[i H]|[(_&_&_&i&H)|(_&H&_)]]; [rewrite H; reflexivity | rewrite H; reflexivity | discriminate].
    + pose proof (m_phase k p x M) as H. rewrite E in H. destruct H as (R&_).
      destruct C as [[i H]|[(_&H&_)|(_&H&_)]]; [|discriminate|discriminate].
      exfalso. apply (dead_no_waiter (x_s x) c i (m_inv k p x M) (or_introl R) H).
  - destruct C as (i&r&H&Hin). rewrite H. apply existsb_in. destruct r; exact Hin.
Qed.

Lemma res_ok_map k p x cl :
  sim k p x -> p_phase p <> PhWindow ->
  res_ok (p_cs p) cl (map (fun c => class_of (x_faulted x) (stof (x_s x) c)) cl) = true.
Proof.
  intros M Ph. induction cl as [|c cl IH]; [reflexivity|]. cbn [map res_ok].
  now rewrite (class_allowed k p x c M Ph), IH.
Qed.

Theorem ok_model_C06 : forall k, c06_wf k = true -> ok_C06 k (model_C06 k) = true.
Proof.
  intros k W. unfold c06_wf, c06_valid in W. unfold ok_C06.
  destruct (spec_final k) as [p|] eqn:SF; [|reflexivity].
  unfold spec_final in SF.
  destruct (k_sub k && negb (is_ws (k_kind k))) eqn:Hk0; [discriminate|].
  assert (Hk : k_sub k = true -> k_kind k = KWs).
  { intros Ks. rewrite Ks in Hk0. destruct (k_kind k); cbn in Hk0; congruence. }
  destruct (spec_run k sp0 (k_script k)) as [p1|] eqn:SR; [|discriminate].
  assert (Ph : p_phase p1 <> PhWindow /\ p = p1).
  { destruct (p_phase p1) eqn:E; inversion SF; subst; split; congruence. }
  destruct Ph as [Ph ->].
  pose proof (sim_run k sp0 (x0 k) (k_script k) p1 Hk (sim_init k Hk) SR) as M.
  unfold model_C06. set (x := fold_left exec_event (k_script k) (x0 k)) in *.
  unfold obs_of. cbn [o_res o_sub o_subq o_nn o_resid].
  rewrite (res_ok_map k p1 x _ M Ph).
  rewrite (m_sub k p1 x M), (m_subq k p1 x M), (m_nn k p1 x M), (m_resid k p1 x M).
  rewrite N.eqb_refl, (list_eqb_refl osub_eqb _ osub_eqb_refl).
  rewrite (list_eqb_refl Bool.eqb _ (fun b => ltac:(destruct b; reflexivity))).
  cbn [andb]. rewrite !andb_true_r.
  unfold sub_of, live. destruct (k_sub k); [|reflexivity].
  destruct (p_phase p1); [reflexivity | congruence | reflexivity].
Qed.

(** the kind of client never changes *)
Lemma kind_do_step s e : s_kind (do_step s e) = s_kind s.
Proof.
  destruct e; cbn [do_step];
    repeat match goal with |- context [match ?x with _ => _ end] => destruct x eqn:? end;
    try reflexivity; try (rewrite fail_write_eq, kind_after_fail; reflexivity); cbn; congruence.
Qed.

Lemma kind_run s l : s_kind (run s l) = s_kind s.
Proof.
  revert s. induction l as [|e l IH]; intros s; [reflexivity|]. cbn [run fold_left].
  change (s_kind (run (do_step s e) l) = s_kind s). rewrite IH. apply kind_do_step.
Qed.
