(** Proofs about the client failure model (C06): an invariant of every run,
    its consequences (no hang, later calls fail, subscriber end-of-stream, no
    residue, late responses harmless), and the refinement of the scenario
    specification by the model. *)
From RepeV Require Import Model.ClientFail.
From Coq Require Import ZifyBool ZifyN ZifyNat.
Ltac Zify.zify_post_hook ::= Z.div_mod_to_equations.

(** ** association lists *)
Lemma cget_cset_same l c v : cget (cset l c v) c = v.
Proof.
  induction l as [|[c' v'] l IH]; cbn [cset cget].
  - now rewrite N.eqb_refl.
  - destruct (c' =? c) eqn:E; cbn [cget]; [now rewrite N.eqb_refl | now rewrite E].
Qed.

Lemma cget_cset_other l c v c' : c' <> c -> cget (cset l c v) c' = cget l c'.
Proof.
  intros Hne. induction l as [|[c0 v0] l IH]; cbn [cset cget].
  - destruct (c =? c') eqn:E; [apply N.eqb_eq in E; congruence | reflexivity].
  - destruct (c0 =? c) eqn:E; cbn [cget].
    + apply N.eqb_eq in E; subst c0.
      destruct (c =? c') eqn:E2; [apply N.eqb_eq in E2; congruence | reflexivity].
    + destruct (c0 =? c'); [reflexivity | exact IH].
Qed.

Lemma cget_cset l c v c' : cget (cset l c v) c' = if c' =? c then v else cget l c'.
Proof.
  destruct (c' =? c) eqn:E.
  - apply N.eqb_eq in E; subst; apply cget_cset_same.
  - apply N.eqb_neq in E; now apply cget_cset_other.
Qed.

Lemma in_pdel l id i c : In (i, c) (pdel l id) <-> In (i, c) l /\ i <> id.
Proof.
  induction l as [|[i0 c0] l IH]; cbn [pdel In]; [tauto|].
  destruct (i0 =? id) eqn:E.
  - apply N.eqb_eq in E; subst i0. rewrite IH. split; [tauto|].
    intros [[H|H] Hne]; [inversion H; congruence | tauto].
  - apply N.eqb_neq in E. cbn [In]. rewrite IH. split.
    + intros [H|H]; [inversion H; subst; tauto | tauto].
    + tauto.
Qed.

Lemma nodup_pdel l id : NoDup (map fst l) -> NoDup (map fst (pdel l id)).
Proof.
  induction l as [|[i0 c0] l IH]; cbn [pdel map fst]; intros H; [constructor|].
  inversion H as [|? ? Hn Hd]; subst.
  destruct (i0 =? id); [now apply IH|].
  cbn [map fst]. constructor; [|now apply IH].
  intros Hin. apply Hn. apply in_map_iff in Hin. destruct Hin as [[i c] [Hf Hi]]. cbn in Hf; subst i.
  apply in_pdel in Hi. apply in_map_iff. exists (i0, c). tauto.
Qed.

Lemma pfind_in l id c : pfind l id = Some c -> In (id, c) l.
Proof.
  induction l as [|[i0 c0] l IH]; cbn [pfind In]; [discriminate|].
  destruct (i0 =? id) eqn:E; intros H.
  - apply N.eqb_eq in E. inversion H; subst. now left.
  - right; now apply IH.
Qed.

Lemma pfind_none l id : pfind l id = None <-> forall c, ~ In (id, c) l.
Proof.
  induction l as [|[i0 c0] l IH]; cbn [pfind In]; [split; [intros _ c []| reflexivity]|].
  destruct (i0 =? id) eqn:E.
  - apply N.eqb_eq in E; subst. split; [discriminate|]. intros H. exfalso. apply (H c0). now left.
  - apply N.eqb_neq in E. rewrite IH. split.
    + intros H c [H1|H1]; [inversion H1; congruence | now apply (H c)].
    + intros H c H1. apply (H c). now right.
Qed.

Lemma in_pfind l id c : NoDup (map fst l) -> In (id, c) l -> pfind l id = Some c.
Proof.
  induction l as [|[i0 c0] l IH]; cbn [pfind In map fst]; intros Hd Hin; [contradiction|].
  inversion Hd as [|? ? Hn Hd']; subst.
  destruct Hin as [H|H].
  - inversion H; subst. now rewrite N.eqb_refl.
  - destruct (i0 =? id) eqn:E; [|now apply IH].
    apply N.eqb_eq in E; subst. exfalso. apply Hn. apply in_map_iff. now exists (id, c).
Qed.

Lemma pdel_none l id : (forall c, ~ In (id, c) l) -> pdel l id = l.
Proof.
  induction l as [|[i0 c0] l IH]; cbn [pdel]; intros H; [reflexivity|].
  destruct (i0 =? id) eqn:E.
  - apply N.eqb_eq in E; subst. exfalso. apply (H c0). now left.
  - f_equal. apply IH. intros c Hc. apply (H c). now right.
Qed.

(** ** delivery and drain *)
Lemma id_of_deliver v r : id_of (deliver_st v r) = id_of v.
Proof. destruct v as [|id [x|]|id [x|]|id|id|id x]; reflexivity. Qed.

Lemma deliver_none v r : deliver_st v r = CNone <-> v = CNone.
Proof. destruct v as [|id [x|]|id [x|]|id|id|id x]; cbn; split; congruence. Qed.

Lemma deliver_idem v r : deliver_st (deliver_st v r) r = deliver_st v r.
Proof. destruct v as [|id [x|]|id [x|]|id|id|id x]; reflexivity. Qed.

Definition needs_entry (v : cst) : Prop :=
  match v with CReg _ None | CStall _ None | CWait _ => True | _ => False end.

Definition open_st (v : cst) : Prop :=
  match v with CReg _ None | CStall _ None | CWait _ | CFired _ => True | _ => False end.

Lemma needs_open v : needs_entry v -> open_st v.
Proof. destruct v as [|id [x|]|id [x|]|id|id|id x]; cbn; tauto. Qed.

Lemma deliver_not_needs v r : ~ needs_entry (deliver_st v r) \/ (deliver_st v r = v /\ ~ needs_entry v).
Proof. destruct v as [|id [x|]|id [x|]|id|id|id x]; cbn; tauto. Qed.

Lemma deliver_needs v r : needs_entry (deliver_st v r) -> False.
Proof. destruct v as [|id [x|]|id [x|]|id|id|id x]; cbn; tauto. Qed.

Definition has_caller (p : list (N * N)) (c : N) : bool := existsb (fun e => snd e =? c) p.

Lemma has_caller_in p c : has_caller p c = true <-> exists id, In (id, c) p.
Proof.
  unfold has_caller. rewrite existsb_exists. split.
  - intros [[i c'] [Hi He]]. cbn in He. apply N.eqb_eq in He; subst. now exists i.
  - intros [id Hi]. exists (id, c). split; [assumption | cbn; apply N.eqb_refl].
Qed.

Lemma drain_get p : forall cs c,
  cget (drain_cs p cs) c = if has_caller p c then deliver_st (cget cs c) RConn else cget cs c.
Proof.
  unfold drain_cs, has_caller.
  induction p as [|[i c0] p IH]; intros cs c; cbn [fold_left existsb snd]; [reflexivity|].
  rewrite IH. unfold cdeliver. rewrite cget_cset. rewrite (N.eqb_sym c c0).
  destruct (c0 =? c) eqn:E; cbn [orb].
  - apply N.eqb_eq in E; subst c0.
    destruct (existsb (fun e : N * N => snd e =? c) p); [apply deliver_idem | reflexivity].
  - reflexivity.
Qed.

(** ** the invariant *)
Definition past_fail (r : rphase) : bool :=
  match r with ROwnShut | RShutDone | RDrained | RDead => true | _ => false end.
Definition before_subend (r : rphase) : bool :=
  match r with RAlive | RHold _ | RErr => true | _ => false end.

Record inv (s : st) : Prop := mkInv {
  i_nodup : NoDup (map fst (s_pending s));
  i_entry : forall id c, In (id, c) (s_pending s) -> id_of (stof s c) = id /\ open_st (stof s c);
  i_ids : forall c, stof s c <> CNone -> 1 <= id_of (stof s c) < s_next s;
  i_uniq : forall c1 c2, stof s c1 <> CNone -> id_of (stof s c1) = id_of (stof s c2) -> c1 = c2;
  i_hand : forall c, s_rd s = RHold (Some c) -> stof s c <> CNone /\ forall id, ~ In (id, c) (s_pending s);
  i_open : forall c, needs_entry (stof s c) -> s_rd s = RHold (Some c) \/ In (id_of (stof s c), c) (s_pending s);
  i_live : forall c id, stof s c = CWait id -> dead s = true -> s_rd s = RHold (Some c);
  i_shut : past_fail (s_rd s) = true \/ s_gstop s = true -> s_shut s = true;
  i_lock : forall c, s_lock s = Some c <-> exists id mb, stof s c = CStall id mb;
  i_sub : s_kind s = KWs -> s_sub s = SSub -> before_subend (s_rd s) = true;
  i_next : 1 <= s_next s
}.

Lemma inv_init k : inv (init k).
Proof.
  constructor; unfold stof; cbn.
  - constructor.
  - intros id c [].
  - intros c H; congruence.
  - intros c1 c2 H; congruence.
  - intros c H; discriminate.
  - intros c [].
  - intros c id H; discriminate.
  - intros [H|H]; discriminate.
  - intros c; split; [discriminate | intros [id [mb H]]; discriminate].
  - intros _ H; discriminate.
  - lia.
Qed.

Lemma dead_shut s : inv s -> dead s = true -> s_shut s = true.
Proof.
  intros I H. apply (i_shut s I). unfold dead in H.
  destruct (s_rd s); cbn; auto.
Qed.

(** entries of other callers survive the removal of caller [c]'s id *)
Lemma entry_other s c c' :
  inv s -> c' <> c -> stof s c <> CNone ->
  In (id_of (stof s c'), c') (s_pending s) -> id_of (stof s c') <> id_of (stof s c).
Proof.
  intros I Hne Hc Hin Heq. apply Hne. symmetry. apply (i_uniq s I c c' Hc). now symmetry.
Qed.

(** *** family A: caller [c] moves to [v'] with the same id; the pending map
    is unchanged; the writer lock becomes [l'] *)
Lemma inv_status_lock s c v' l' :
  inv s ->
  stof s c <> CNone -> v' <> CNone -> id_of v' = id_of (stof s c) ->
  (forall id, In (id, c) (s_pending s) -> open_st v') ->
  (needs_entry v' -> s_rd s = RHold (Some c) \/ In (id_of v', c) (s_pending s)) ->
  (forall id, v' = CWait id -> dead s = true -> s_rd s = RHold (Some c)) ->
  (forall c', l' = Some c' <-> exists id mb, cget (cset (s_cs s) c v') c' = CStall id mb) ->
  inv (set_lock (set_pc s (s_pending s) (cset (s_cs s) c v')) l').
Proof.
  intros I Hc Hv' Hid Hop Hne Hlv Hlk.
  constructor; unfold stof in *; cbn [set_lock set_pc s_pending s_cs s_rd s_next s_shut s_gstop s_lock s_sub s_kind dead].
  - apply (i_nodup s I).
  - intros id c' Hin. rewrite cget_cset. destruct (c' =? c) eqn:E.
    + apply N.eqb_eq in E; subst c'. split; [|now apply (Hop id)].
      rewrite Hid. now apply (i_entry s I).
    + now apply (i_entry s I).
  - intros c'. rewrite cget_cset. destruct (c' =? c) eqn:E.
    + intros _. rewrite Hid. now apply (i_ids s I).
    + apply (i_ids s I).
  - intros c1 c2. rewrite !cget_cset.
    destruct (c1 =? c) eqn:E1; destruct (c2 =? c) eqn:E2;
      try (apply N.eqb_eq in E1; subst c1); try (apply N.eqb_eq in E2; subst c2).
    + reflexivity.
    + intros _ H. rewrite Hid in H. now apply (i_uniq s I).
    + intros H1 H. rewrite Hid in H. now apply (i_uniq s I).
    + apply (i_uniq s I).
  - intros c' Hr. rewrite cget_cset. destruct (c' =? c) eqn:E.
    + apply N.eqb_eq in E; subst c'. split; [assumption | apply (i_hand s I c Hr)].
    + apply (i_hand s I c' Hr).
  - intros c'. rewrite cget_cset. destruct (c' =? c) eqn:E.
    + apply N.eqb_eq in E; subst c'. exact Hne.
    + apply (i_open s I).
  - intros c' id. rewrite cget_cset. destruct (c' =? c) eqn:E.
    + apply N.eqb_eq in E; subst c'. intros H Hd. exact (Hlv id H Hd).
    + apply (i_live s I).
  - apply (i_shut s I).
  - exact Hlk.
  - apply (i_sub s I).
  - apply (i_next s I).
Qed.

(** the lock condition when neither the old nor the new state of [c] is a stall *)
Lemma lock_same s c v' :
  inv s -> (forall id mb, stof s c <> CStall id mb) -> (forall id mb, v' <> CStall id mb) ->
  forall c', s_lock s = Some c' <-> exists id mb, cget (cset (s_cs s) c v') c' = CStall id mb.
Proof.
  intros I Hs1 Hs2 c'. rewrite (i_lock s I c'). unfold stof in *. rewrite cget_cset. destruct (c' =? c) eqn:E.
  - apply N.eqb_eq in E; subst c'. split; intros [id [mb H]]; exfalso; [eapply Hs1 | eapply Hs2]; eauto.
  - reflexivity.
Qed.

(** the lock condition when [c] was the stalled writer and stops being one *)
Lemma lock_released s c v' id0 mb0 :
  inv s -> stof s c = CStall id0 mb0 -> (forall id mb, v' <> CStall id mb) ->
  forall c', None = Some c' <-> exists id mb, cget (cset (s_cs s) c v') c' = CStall id mb.
Proof.
  intros I Hc Hs2 c'. split; [discriminate|]. intros [id [mb H]]. exfalso.
  rewrite cget_cset in H. destruct (c' =? c) eqn:E; [eapply Hs2; eauto|].
  apply N.eqb_neq in E. apply E.
  assert (H1 : s_lock s = Some c') by (apply (i_lock s I); unfold stof; eauto).
  assert (H2 : s_lock s = Some c) by (apply (i_lock s I); eauto).
  congruence.
Qed.

(** the lock condition when [c] becomes the stalled writer and the lock was free *)
Lemma lock_taken s c id0 mb0 :
  inv s -> s_lock s = None ->
  forall c', Some c = Some c' <-> exists id mb, cget (cset (s_cs s) c (CStall id0 mb0)) c' = CStall id mb.
Proof.
  intros I Hl c'. rewrite cget_cset. split.
  - intros H; inversion H; subst. rewrite N.eqb_refl. eauto.
  - destruct (c' =? c) eqn:E; [apply N.eqb_eq in E; now subst|].
    intros H. apply (i_lock s I c') in H. congruence.
Qed.

(** *** family B: caller [c] is closed: its id leaves the pending map and it
    returns; the writer lock becomes [l'] *)
Lemma inv_close_lock s c r l' :
  inv s -> stof s c <> CNone ->
  (forall c', l' = Some c' <-> exists id mb, cget (cset (s_cs s) c (CDone (id_of (stof s c)) r)) c' = CStall id mb) ->
  inv (set_lock (set_pc s (pdel (s_pending s) (id_of (stof s c))) (cset (s_cs s) c (CDone (id_of (stof s c)) r))) l').
Proof.
  intros I Hc Hlk.
  constructor; unfold stof in *; cbn [set_lock set_pc s_pending s_cs s_rd s_next s_shut s_gstop s_lock s_sub s_kind dead].
  - apply nodup_pdel, (i_nodup s I).
  - intros id c' Hin. apply in_pdel in Hin. destruct Hin as [Hin Hne].
    destruct (i_entry s I id c' Hin) as [H1 H2].
    rewrite cget_cset. destruct (c' =? c) eqn:E.
    + apply N.eqb_eq in E; subst c'. exfalso. apply Hne. symmetry. exact H1.
    + now split.
  - intros c'. rewrite cget_cset. destruct (c' =? c) eqn:E.
    + intros _. cbn [id_of]. now apply (i_ids s I).
    + apply (i_ids s I).
  - intros c1 c2. rewrite !cget_cset.
    destruct (c1 =? c) eqn:E1; destruct (c2 =? c) eqn:E2;
      try (apply N.eqb_eq in E1; subst c1); try (apply N.eqb_eq in E2; subst c2); cbn [id_of].
    + reflexivity.
    + intros _ H. now apply (i_uniq s I).
    + intros H1 H. now apply (i_uniq s I).
    + apply (i_uniq s I).
  - intros c' Hr. destruct (i_hand s I c' Hr) as [H1 H2]. rewrite cget_cset. split.
    + destruct (c' =? c); [discriminate | assumption].
    + intros id Hin. apply in_pdel in Hin. now apply (H2 id).
  - intros c'. rewrite cget_cset. destruct (c' =? c) eqn:E; [cbn; tauto|].
    apply N.eqb_neq in E. intros Hn. destruct (i_open s I c' Hn) as [H|H]; [now left|right].
    apply in_pdel. split; [assumption|].
    apply (entry_other s c c' I E Hc H).
  - intros c' id. rewrite cget_cset. destruct (c' =? c); [discriminate | apply (i_live s I)].
  - apply (i_shut s I).
  - exact Hlk.
  - apply (i_sub s I).
  - apply (i_next s I).
Qed.

(** *** flags *)
Lemma inv_set_shut s : inv s -> inv (set_shut s true).
Proof. intros I. destruct I. constructor; cbn; auto. Qed.

Lemma inv_set_nrecv s n : inv s -> inv (set_nrecv s n).
Proof. intros I. destruct I. constructor; cbn; auto. Qed.

(** *** family F: drain *)
Lemma stof_drain s c :
  stof (drain_all s) c = if has_caller (s_pending s) c then deliver_st (stof s c) RConn else stof s c.
Proof. unfold stof, drain_all. cbn [set_pc s_cs]. apply drain_get. Qed.

Lemma stof_drain_none s c : stof (drain_all s) c = CNone <-> stof s c = CNone.
Proof. rewrite stof_drain. destruct (has_caller (s_pending s) c); [apply deliver_none | reflexivity]. Qed.

Lemma id_of_drain s c : id_of (stof (drain_all s) c) = id_of (stof s c).
Proof. rewrite stof_drain. destruct (has_caller (s_pending s) c); [apply id_of_deliver | reflexivity]. Qed.

Lemma drain_needs s c : inv s -> needs_entry (stof (drain_all s) c) -> s_rd s = RHold (Some c).
Proof.
  intros I. rewrite stof_drain. destruct (has_caller (s_pending s) c) eqn:E.
  - intros H. exfalso. eapply deliver_needs; eauto.
  - intros H. destruct (i_open s I c H) as [H1|H1]; [assumption|].
    exfalso. assert (has_caller (s_pending s) c = true) by (apply has_caller_in; eauto). congruence.
Qed.

Lemma stall_deliver v r : (exists id mb, deliver_st v r = CStall id mb) <-> (exists id mb, v = CStall id mb).
Proof.
  destruct v as [|id [x|]|id [x|]|id|id|id x]; cbn; split; intros [i [m H]]; try discriminate; eauto.
Qed.

(** after a drain, with phase [r] and flags set *)
Lemma inv_drain s r g :
  inv s ->
  (forall c, r = RHold (Some c) -> s_rd s = RHold (Some c)) ->
  (forall c, s_rd s = RHold (Some c) -> r = RHold (Some c)) ->
  (s_kind s = KWs -> s_sub s = SSub -> before_subend r = true) ->
  inv (mkSt (s_kind s) true g r [] (drain_cs (s_pending s) (s_cs s)) (s_next s) (s_lock s) (s_sub s) (s_nrecv s)).
Proof.
  intros I Hr Hr0 Hsub.
  assert (E : forall c, cget (drain_cs (s_pending s) (s_cs s)) c = stof (drain_all s) c) by reflexivity.
  constructor; unfold stof; cbn [s_pending s_cs s_rd s_next s_shut s_gstop s_lock s_sub s_kind dead].
  - constructor.
  - intros id c [].
  - intros c. rewrite E, id_of_drain. intros H. apply (i_ids s I). intros H2. apply H. now apply stof_drain_none.
  - intros c1 c2. rewrite !E, !id_of_drain. intros H. apply (i_uniq s I). intros H2. apply H. now apply stof_drain_none.
  - intros c H. split; [|intros id []]. rewrite E. intros H2. apply (proj1 (stof_drain_none s c)) in H2.
    destruct (i_hand s I c (Hr c H)) as [Hn _].
    now apply Hn.
  - intros c. rewrite E. intros H. left. apply Hr0. now apply drain_needs.
  - intros c id. rewrite E. intros H _. apply Hr0. apply drain_needs; [assumption|]. rewrite H. exact Logic.I.
  - reflexivity.
  - intros c. rewrite (i_lock s I c). rewrite E, stof_drain.
    destruct (has_caller (s_pending s) c); [symmetry; apply stall_deliver | reflexivity].
  - exact Hsub.
  - apply (i_next s I).
Qed.

Lemma inv_set_sub s u :
  inv s -> (s_kind s = KWs -> u = SSub -> before_subend (s_rd s) = true) -> inv (set_sub s u).
Proof. intros I H. destruct I. constructor; cbn; auto. Qed.

Lemma inv_set_gstop s : inv s -> s_shut s = true -> dead s = true -> inv (set_gstop s true).
Proof.
  intros I Hs Hd. destruct I as [a b c d e f g h i j k]. constructor; cbn; auto.
  intros c0 id H _. apply (g c0 id H Hd).
Qed.

(** a phase change that is not a hand *)
Lemma inv_set_rd s r :
  inv s -> (forall o, s_rd s <> RHold o) -> (forall o, r <> RHold o) ->
  dead (set_rd s r) = dead s ->
  (past_fail r = true -> s_shut s = true) ->
  (s_kind s = KWs -> s_sub s = SSub -> before_subend r = true) ->
  inv (set_rd s r).
Proof.
  intros I H0 H1 Hd Hs Hsub. destruct I as [a b c d e f g h i j k].
  constructor; unfold stof in *; cbn [set_rd s_pending s_cs s_rd s_next s_shut s_gstop s_lock s_sub s_kind]; auto.
  - intros c0 H. exfalso. eapply H1; eauto.
  - intros c0 Hn. destruct (f c0 Hn) as [H|H]; [exfalso; eapply H0; eauto | now right].
  - intros c0 id H Hdd. rewrite Hd in Hdd. exfalso. eapply H0. apply (g c0 id H Hdd).
  - intros [H|H]; [now apply Hs | apply h; now right].
Qed.

(** every pending id is below the counter *)
Lemma entry_lt s id c : inv s -> In (id, c) (s_pending s) -> id < s_next s.
Proof.
  intros I Hin. destruct (i_entry s I id c Hin) as [H1 H2].
  assert (stof s c <> CNone) by (intros E; rewrite E in H2; exact H2).
  pose proof (i_ids s I c H). lia.
Qed.

Lemma nodup_snoc {A} (l : list A) x : NoDup l -> ~ In x l -> NoDup (l ++ [x]).
Proof.
  induction l as [|y l IH]; cbn [app]; intros Hd Hn.
  - constructor; [intros [] | constructor].
  - inversion Hd as [|? ? Hy Hd']; subst. constructor.
    + intros Hin. apply in_app_or in Hin. destruct Hin as [H|[H|[]]]; [contradiction|].
      subst. apply Hn. now left.
    + apply IH; [assumption|]. intros H. apply Hn. now right.
Qed.

Lemma inv_register s c :
  inv s -> stof s c = CNone ->
  inv (set_next (set_pc s (s_pending s ++ [(s_next s, c)]) (cset (s_cs s) c (CReg (s_next s) None))) (s_next s + 1)).
Proof.
  intros I Hc. pose proof (i_next s I) as Hn.
  assert (Hhand : s_rd s <> RHold (Some c)).
  { intros H. destruct (i_hand s I c H) as [H1 _]. now apply H1. }
  constructor; unfold stof in *; cbn [set_next set_pc s_pending s_cs s_rd s_next s_shut s_gstop s_lock s_sub s_kind dead].
  - rewrite map_app. cbn [map fst]. apply nodup_snoc; [apply (i_nodup s I)|].
    intros Hin. apply in_map_iff in Hin. destruct Hin as [[i c'] [Hf Hi]]. cbn in Hf; subst i.
    pose proof (entry_lt s _ _ I Hi). lia.
  - intros id c' Hin. apply in_app_or in Hin. rewrite cget_cset. destruct Hin as [Hin|[Hin|[]]].
    + destruct (i_entry s I id c' Hin) as [H1 H2]. destruct (c' =? c) eqn:E.
      * apply N.eqb_eq in E; subst c'. unfold stof in H2. rewrite Hc in H2. contradiction.
      * now split.
    + inversion Hin; subst. rewrite N.eqb_refl. cbn. split; [reflexivity | exact Logic.I].
  - intros c'. rewrite cget_cset. destruct (c' =? c) eqn:E.
    + intros _. cbn [id_of]. lia.
    + intros H. pose proof (i_ids s I c' H) as Hi. unfold stof in Hi. lia.
  - intros c1 c2. rewrite !cget_cset.
    destruct (c1 =? c) eqn:E1; destruct (c2 =? c) eqn:E2;
      try (apply N.eqb_eq in E1; subst c1); try (apply N.eqb_eq in E2; subst c2); cbn [id_of].
    + reflexivity.
    + intros _ H. destruct (cget (s_cs s) c2) eqn:E3; [cbn in H; lia | | | | |];
        (assert (Hx : stof s c2 <> CNone) by (unfold stof; congruence);
         pose proof (i_ids s I c2 Hx) as Hi; unfold stof in Hi; rewrite E3 in Hi; cbn in *; lia).
    + intros H1 H. pose proof (i_ids s I c1 H1) as Hi. unfold stof in Hi. lia.
    + apply (i_uniq s I).
  - intros c' Hr. rewrite cget_cset. destruct (c' =? c) eqn:E.
    + apply N.eqb_eq in E; subst c'. contradiction.
    + destruct (i_hand s I c' Hr) as [H1 H2]. split; [assumption|].
      intros id Hin. apply in_app_or in Hin. destruct Hin as [Hin|[Hin|[]]]; [now apply (H2 id)|].
      inversion Hin; subst. apply N.eqb_neq in E. congruence.
  - intros c'. rewrite cget_cset. destruct (c' =? c) eqn:E.
    + apply N.eqb_eq in E; subst c'. intros _. right. cbn [id_of]. apply in_or_app. right. now left.
    + intros H. destruct (i_open s I c' H) as [H1|H1]; [now left | right; apply in_or_app; now left].
  - intros c' id. rewrite cget_cset. destruct (c' =? c); [discriminate | apply (i_live s I)].
  - apply (i_shut s I).
  - intros c'. rewrite (i_lock s I c'). rewrite cget_cset. destruct (c' =? c) eqn:E; [|reflexivity].
    apply N.eqb_eq in E; subst c'. unfold stof. rewrite Hc. split; intros [id [mb H]]; discriminate.
  - apply (i_sub s I).
  - lia.
Qed.

Lemma inv_take s id c :
  inv s -> s_rd s = RAlive -> pfind (s_pending s) id = Some c ->
  inv (set_rd (set_pc s (pdel (s_pending s) id) (s_cs s)) (RHold (Some c))).
Proof.
  intros I Hr Hf. apply pfind_in in Hf.
  destruct (i_entry s I id c Hf) as [Hid Hop].
  assert (Hc : stof s c <> CNone) by (intros E; rewrite E in Hop; exact Hop).
  constructor; unfold stof in *; cbn [set_rd set_pc s_pending s_cs s_rd s_next s_shut s_gstop s_lock s_sub s_kind].
  - apply nodup_pdel, (i_nodup s I).
  - intros id' c' Hin. apply in_pdel in Hin. now apply (i_entry s I).
  - apply (i_ids s I).
  - apply (i_uniq s I).
  - intros c' H. inversion H; subst c'. split; [assumption|].
    intros id' Hin. apply in_pdel in Hin. destruct Hin as [Hin Hne].
    destruct (i_entry s I id' c Hin) as [H1 _]. unfold stof in H1. congruence.
  - intros c' Hn. destruct (N.eq_dec c' c) as [->|Hne]; [now left|].
    right. destruct (i_open s I c' Hn) as [H|H]; [rewrite Hr in H; discriminate|].
    apply in_pdel. split; [assumption|]. rewrite <- Hid. now apply (entry_other s c c' I Hne Hc H).
  - intros c' id' H Hd. exfalso.
    assert (Hd' : dead s = true) by (unfold dead in *; rewrite Hr; exact Hd).
    pose proof (i_live s I c' id' H Hd'). rewrite Hr in H0. discriminate.
  - intros [H|H]; [discriminate | apply (i_shut s I); now right].
  - apply (i_lock s I).
  - intros _ _. reflexivity.
  - apply (i_next s I).
Qed.

Lemma inv_take_none s : inv s -> s_rd s = RAlive -> inv (set_rd s (RHold None)).
Proof.
  intros I Hr. destruct I as [a b c d e f g h i j k].
  constructor; unfold stof in *; cbn [set_rd s_pending s_cs s_rd s_next s_shut s_gstop s_lock s_sub s_kind]; auto.
  - intros c0 H; discriminate.
  - intros c0 Hn. destruct (f c0 Hn) as [H|H]; [rewrite Hr in H; discriminate | now right].
  - intros c0 id H Hd. exfalso.
    assert (Hd' : dead (mkSt (s_kind s) (s_shut s) (s_gstop s) (s_rd s) (s_pending s) (s_cs s) (s_next s) (s_lock s) (s_sub s) (s_nrecv s)) = true)
      by (unfold dead in *; cbn in *; rewrite Hr; exact Hd).
    destruct s; cbn in *. pose proof (g c0 id H Hd'). congruence.
  - intros [H|H]; [discriminate | apply h; now right].
Qed.

Lemma inv_deliver s c :
  inv s -> s_rd s = RHold (Some c) ->
  inv (set_rd (set_pc s (s_pending s) (cdeliver (s_cs s) c ROk)) RAlive).
Proof.
  intros I Hr. destruct (i_hand s I c Hr) as [Hc Hno].
  constructor; unfold stof, cdeliver in *; cbn [set_rd set_pc s_pending s_cs s_rd s_next s_shut s_gstop s_lock s_sub s_kind].
  - apply (i_nodup s I).
  - intros id c' Hin. rewrite cget_cset. destruct (c' =? c) eqn:E.
    + apply N.eqb_eq in E; subst c'. exfalso. now apply (Hno id).
    + now apply (i_entry s I).
  - intros c'. rewrite cget_cset. destruct (c' =? c) eqn:E.
    + intros _. rewrite id_of_deliver. now apply (i_ids s I).
    + apply (i_ids s I).
  - intros c1 c2. rewrite !cget_cset.
    destruct (c1 =? c) eqn:E1; destruct (c2 =? c) eqn:E2;
      try (apply N.eqb_eq in E1; subst c1); try (apply N.eqb_eq in E2; subst c2); rewrite ?id_of_deliver.
    + reflexivity.
    + intros _ H. now apply (i_uniq s I).
    + intros H1 H. now apply (i_uniq s I).
    + apply (i_uniq s I).
  - intros c' H; discriminate.
  - intros c'. rewrite cget_cset. destruct (c' =? c) eqn:E.
    + intros H. exfalso. eapply deliver_needs; eauto.
    + apply N.eqb_neq in E. intros H. destruct (i_open s I c' H) as [H1|H1]; [|now right].
      rewrite Hr in H1. inversion H1. congruence.
  - intros c' id. rewrite cget_cset. destruct (c' =? c) eqn:E.
    + intros H. exfalso. apply (deliver_needs (cget (s_cs s) c) ROk). rewrite H. exact Logic.I.
    + apply N.eqb_neq in E. intros H Hd. exfalso.
      assert (Hd' : dead s = true) by (unfold dead in *; rewrite Hr; exact Hd).
      pose proof (i_live s I c' id H Hd'). rewrite Hr in H0. inversion H0. congruence.
  - intros [H|H]; [discriminate | apply (i_shut s I); now right].
  - intros c'. rewrite (i_lock s I c'). rewrite cget_cset. destruct (c' =? c) eqn:E; [|reflexivity].
    apply N.eqb_eq in E; subst c'. symmetry. apply stall_deliver.
  - intros _ _. reflexivity.
  - apply (i_next s I).
Qed.

(** *** what a failed write does beyond closing the caller *)
Definition after_fail (s1 : st) (g : bool) : st :=
  match s_kind s1 with
  | KTcp => set_shut s1 true
  | KAsync => if g then set_gstop (set_shut (drain_all s1) true) true else s1
  | KWs => s1
  end.

Lemma fail_write_eq s c id g : fail_write s c id g = after_fail (own_fail s c id) g.
Proof. reflexivity. Qed.

Lemma inv_after_fail s1 g : inv s1 -> inv (after_fail s1 g).
Proof.
  intros I. unfold after_fail. destruct (s_kind s1) eqn:K.
  - now apply inv_set_shut.
  - destruct g; [|assumption].
    pose proof (inv_drain s1 (s_rd s1) true I (fun c H => H) (fun c H => H) (i_sub s1 I)) as H.
    exact H.
  - assumption.
Qed.

Lemma stof_not_none_of s c id mb : stof s c = CReg id mb \/ stof s c = CStall id mb \/ stof s c = CWait id \/ stof s c = CFired id ->
  stof s c <> CNone /\ id_of (stof s c) = id.
Proof. intros [H|[H|[H|H]]]; rewrite H; split; cbn; congruence. Qed.

(** closing caller [c] without touching the lock *)
Lemma inv_own_fail s c id r :
  inv s -> stof s c <> CNone -> id_of (stof s c) = id -> (forall i mb, stof s c <> CStall i mb) ->
  inv (set_pc s (pdel (s_pending s) id) (cset (s_cs s) c (CDone id r))).
Proof.
  intros I Hc Hid Hs. subst id.
  pose proof (inv_close_lock s c r (s_lock s) I Hc) as H. apply H.
  apply lock_same; [assumption | assumption | intros i mb H0; discriminate].
Qed.

Lemma inv_status s c v' :
  inv s ->
  stof s c <> CNone -> v' <> CNone -> id_of v' = id_of (stof s c) ->
  (forall id, In (id, c) (s_pending s) -> open_st v') ->
  (needs_entry v' -> s_rd s = RHold (Some c) \/ In (id_of v', c) (s_pending s)) ->
  (forall id, v' = CWait id -> dead s = true -> s_rd s = RHold (Some c)) ->
  (forall id mb, stof s c <> CStall id mb) -> (forall id mb, v' <> CStall id mb) ->
  inv (set_pc s (s_pending s) (cset (s_cs s) c v')).
Proof.
  intros I Hc Hv' Hid Hop Hne Hlv Hs1 Hs2.
  exact (inv_status_lock s c v' (s_lock s) I Hc Hv' Hid Hop Hne Hlv (lock_same s c v' I Hs1 Hs2)).
Qed.

(** a completed write *)
Lemma inv_written_lock s c id mb l' :
  inv s -> (stof s c = CReg id mb \/ stof s c = CStall id mb) -> s_shut s = false ->
  (forall c', l' = Some c' <-> exists i m, cget (cset (s_cs s) c (match mb with Some r => CDone id r | None => CWait id end)) c' = CStall i m) ->
  inv (set_lock (set_pc s (s_pending s) (cset (s_cs s) c (match mb with Some r => CDone id r | None => CWait id end))) l').
Proof.
  intros I Hst Hsh Hlk.
  assert (Hc : stof s c <> CNone /\ id_of (stof s c) = id) by (destruct Hst as [H|H]; rewrite H; split; cbn; congruence).
  destruct Hc as [Hc Hid].
  apply inv_status_lock; try assumption.
  - destruct mb; discriminate.
  - destruct mb; cbn; congruence.
  - intros i Hin. destruct (i_entry s I i c Hin) as [_ Ho].
    destruct mb as [r|]; [|exact Logic.I].
    destruct Hst as [H|H]; rewrite H in Ho; exact Ho.
  - destruct mb as [r|]; [intros []|]. intros _. cbn [id_of]. rewrite <- Hid. apply (i_open s I).
    destruct Hst as [H|H]; rewrite H; exact Logic.I.
  - intros i _ Hd. pose proof (dead_shut s I Hd). congruence.
Qed.

Lemma inv_release_none s : inv s -> s_rd s = RHold None -> inv (set_rd s RAlive).
Proof.
  intros I Hr. pose proof I as I0. destruct I as [a b c d e f g h i j k].
  constructor; unfold stof in *; cbn [set_rd s_pending s_cs s_rd s_next s_shut s_gstop s_lock s_sub s_kind]; auto.
  - intros c0 H; discriminate.
  - intros c0 Hn. destruct (f c0 Hn) as [H|H]; [rewrite Hr in H; discriminate | now right].
  - intros c0 id H Hd. exfalso.
    assert (Hd' : dead s = true) by (unfold dead in *; cbn in Hd; rewrite Hr; exact Hd).
    pose proof (g c0 id H Hd') as H1. rewrite Hr in H1. discriminate.
  - intros [H|H]; [discriminate | apply h; now right].
Qed.

Lemma inv_drain_rd s r :
  inv s -> past_fail (s_rd s) = true -> (forall o, r <> RHold o) -> before_subend r = false ->
  (s_kind s = KWs -> s_sub s <> SSub) ->
  inv (set_rd (drain_all s) r).
Proof.
  intros I Hp Hr Hb Hsub.
  assert (Hsh : s_shut s = true) by (apply (i_shut s I); now left).
  unfold set_rd, drain_all, set_pc. cbn [s_kind s_shut s_gstop s_rd s_pending s_cs s_next s_lock s_sub s_nrecv].
  rewrite Hsh. apply inv_drain; try assumption.
  - intros c H. exfalso. eapply Hr; eauto.
  - intros c H. rewrite H in Hp. discriminate.
  - intros K U. exfalso. now apply Hsub.
Qed.

Lemma sub_not_live s : inv s -> before_subend (s_rd s) = false -> s_kind s = KWs -> s_sub s <> SSub.
Proof. intros I Hb K U. pose proof (i_sub s I K U). congruence. Qed.

Lemma inv_do_step s e : inv s -> inv (do_step s e).
Proof.
  intros I. destruct e as [c|c|c|c|c|c|c|c| |id| | | | | | | ]; cbn [do_step].
  - (* Register *) destruct (stof s c) eqn:E; try assumption. now apply inv_register.
  - (* Write *)
    destruct (stof s c) as [|id mb|id mb|id|id|id r] eqn:E; try assumption.
    destruct (lock_free s) eqn:L; [|assumption].
    destruct (s_shut s) eqn:Sh.
    + rewrite fail_write_eq. apply inv_after_fail. unfold own_fail.
      apply inv_own_fail; try assumption; rewrite E; cbn; congruence.
    + unfold written.
      pose proof (inv_written_lock s c id mb (s_lock s) I (or_introl E) Sh) as H. apply H.
      apply lock_same; [assumption | rewrite E; congruence | destruct mb; congruence].
  - (* WriteEnvFail *)
    destruct (stof s c) as [|id mb|id mb|id|id|id r] eqn:E; try assumption.
    destruct (lock_free s) eqn:L; [|assumption].
    rewrite fail_write_eq. apply inv_after_fail. unfold own_fail.
    apply inv_own_fail; try assumption; rewrite E; cbn; congruence.
  - (* WStall *)
    destruct (stof s c) as [|id mb|id mb|id|id|id r] eqn:E; try assumption.
    destruct (lock_free s) eqn:L; [|assumption]. destruct (s_shut s) eqn:Sh; [assumption|]. cbn [negb andb].
    assert (Hl : s_lock s = None) by (unfold lock_free in L; destruct (s_lock s); [discriminate|reflexivity]).
    apply inv_status_lock; try assumption.
    + rewrite E; congruence.
    + congruence.
    + rewrite E; reflexivity.
    + intros i Hin. destruct (i_entry s I i c Hin) as [_ Ho]. rewrite E in Ho. exact Ho.
    + intros Hn. cbn [id_of]. replace id with (id_of (stof s c)) by (rewrite E; reflexivity). apply (i_open s I).
      rewrite E. exact Hn.
    + intros i H; discriminate.
    + now apply lock_taken.
  - (* WStallEnd *)
    destruct (stof s c) as [|id mb|id mb|id|id|id r] eqn:E; try assumption.
    destruct (s_shut s) eqn:Sh.
    + rewrite fail_write_eq. apply inv_after_fail.
      assert (Hc : stof s c <> CNone) by (rewrite E; congruence).
      pose proof (inv_close_lock s c RConn None I Hc) as H. rewrite E in H. cbn [id_of] in H.
      apply H. apply (lock_released s c _ id mb I E). congruence.
    + unfold written.
      pose proof (inv_written_lock s c id mb None I (or_intror E) Sh) as H. apply H.
      apply (lock_released s c _ id mb I E). destruct mb; congruence.
  - (* TFire *)
    destruct (stof s c) as [|id mb|id mb|id|id|id r] eqn:E; try assumption.
    apply inv_status; try assumption; try (rewrite E); try congruence.
    + reflexivity.
    + intros _ _; exact Logic.I.
    + intros [].
  - (* TRemove *)
    destruct (stof s c) as [|id mb|id mb|id|id|id r] eqn:E; try assumption.
    apply inv_own_fail; try assumption; rewrite E; cbn; congruence.
  - (* Cancel *)
    destruct (s_kind s); [assumption| |];
      (destruct (stof s c) as [|id mb|id mb|id|id|id r] eqn:E; try assumption;
       apply inv_own_fail; try assumption; rewrite E; cbn; congruence).
  - (* Subscribe *)
    destruct (s_sub s) eqn:U; try assumption.
    destruct (s_rd s) eqn:R; apply inv_set_sub; try assumption; intros _ H; try discriminate; rewrite R; reflexivity.
  - (* RTake *)
    destruct (s_rd s) eqn:R; try assumption.
    destruct (pfind (s_pending s) id) eqn:F; [now apply inv_take | now apply inv_take_none].
  - (* RDeliver *)
    destruct (s_rd s) as [|[c|]| | | | | | ] eqn:R; try assumption.
    + now apply inv_deliver.
    + now apply inv_release_none.
  - (* RNotify *)
    destruct (s_rd s); try assumption. destruct (s_sub s); try assumption. now apply inv_set_nrecv.
  - (* ReadErr *)
    destruct (s_rd s) eqn:R; try assumption.
    apply inv_set_rd; try assumption; try (intros; congruence); try (cbn; discriminate).
    + unfold dead; cbn; now rewrite R.
    + intros _ _; reflexivity.
  - (* SubEnd *)
    destruct (s_rd s) eqn:R; try assumption.
    assert (I2 : inv (match s_kind s, s_sub s with KWs, SSub => set_sub s SEnded | _, _ => s end)).
    { destruct (s_kind s); try assumption. destruct (s_sub s); try assumption.
      apply inv_set_sub; [assumption | intros _ H; discriminate]. }
    apply inv_set_rd; try assumption.
    + intros o. destruct (s_kind s); [|destruct (s_sub s)|destruct (s_sub s)]; cbn; rewrite R; discriminate.
    + discriminate.
    + unfold dead. destruct (s_kind s); [|destruct (s_sub s)|destruct (s_sub s)]; cbn; rewrite R; reflexivity.
    + discriminate.
    + destruct (s_kind s) eqn:K; [intros K2; congruence | intros K2; congruence |].
      destruct (s_sub s) eqn:U; cbn [set_sub s_sub s_kind]; intros _ U2; congruence.
  - (* OwnShut *)
    destruct (s_rd s) eqn:R; try assumption.
    apply inv_set_rd; try (now apply inv_set_shut); cbn [set_shut s_rd s_shut s_kind s_sub].
    + intros o; rewrite R; discriminate.
    + discriminate.
    + unfold dead; cbn; rewrite R; reflexivity.
    + reflexivity.
    + intros K U. pose proof (i_sub s I K U) as H. rewrite R in H. discriminate.
  - (* LockShut *)
    destruct (s_rd s) eqn:R; try assumption; destruct (s_kind s) eqn:K; try assumption;
      (destruct (lock_free s); [|assumption]);
      (apply inv_set_rd; try assumption;
       [ intros o; rewrite R; discriminate
       | discriminate
       | unfold dead; cbn; rewrite R; reflexivity
       | intros _; apply (i_shut s I); left; rewrite R; reflexivity
       | intros K' U; pose proof (i_sub s I K' U) as H; rewrite R in H; discriminate ]).
  - (* Drain *)
    destruct (s_rd s) eqn:R; try assumption; destruct (s_kind s) eqn:K; try assumption;
      (apply inv_drain_rd; try assumption;
       [ rewrite R; reflexivity | discriminate | reflexivity
       | apply sub_not_live; [assumption | rewrite R; reflexivity] ]).
Qed.

Lemma inv_run s l : inv s -> inv (run s l).
Proof.
  revert s. induction l as [|e l IH]; intros s I; [exact I|]. cbn [run fold_left]. apply IH. now apply inv_do_step.
Qed.

Theorem reachable_inv k l : inv (run (init k) l).
Proof. apply inv_run, inv_init. Qed.

(** ** consequences of the invariant *)

(** a caller waiting for its response either has the response in the reader's
    hand, or still has its entry in the pending map of a response loop that
    has neither drained nor been told to stop *)
Lemma no_hang_inv s c id :
  inv s -> stof s c = CWait id ->
  s_rd s = RHold (Some c) \/ (In (id, c) (s_pending s) /\ dead s = false).
Proof.
  intros I H. destruct (dead s) eqn:D.
  - left. now apply (i_live s I c id).
  - assert (Hn : needs_entry (stof s c)) by (rewrite H; exact Logic.I).
    destruct (i_open s I c Hn) as [H1|H1]; [now left|]. rewrite H in H1. right. now split.
Qed.

Lemma dead_no_waiter s c id : inv s -> s_rd s = RDead \/ s_rd s = RDrained -> stof s c <> CWait id.
Proof.
  intros I Hr H. assert (D : dead s = true) by (unfold dead; destruct Hr as [R|R]; now rewrite R).
  pose proof (i_live s I c id H D) as H1. destruct Hr as [R|R]; congruence.
Qed.

(** after the reader made writes fail, the socket is marked shut *)
Lemma shut_after_fail s : inv s -> past_fail (s_rd s) = true -> s_shut s = true.
Proof. intros I H. apply (i_shut s I). now left. Qed.

Lemma stof_fail_write s c id g : stof (fail_write s c id g) c = CDone id RConn.
Proof.
  rewrite fail_write_eq. unfold after_fail, own_fail.
  cbn [set_pc s_kind]. destruct (s_kind s); [| destruct g |]; unfold stof; cbn [set_shut set_gstop drain_all set_pc s_cs s_pending].
  - apply cget_cset_same.
  - rewrite drain_get. rewrite cget_cset_same.
    destruct (has_caller (pdel (s_pending s) id) c); reflexivity.
  - apply cget_cset_same.
  - apply cget_cset_same.
Qed.

(** a call whose write comes after the socket was shut returns an error at
    that write *)
Lemma write_after_shut s c id mb :
  s_shut s = true -> lock_free s = true -> stof s c = CReg id mb ->
  stof (do_step s (Write c)) c = CDone id RConn.
Proof. intros Sh L E. cbn [do_step]. rewrite E, L, Sh. apply stof_fail_write. Qed.

Lemma later_call_errors s c :
  s_shut s = true -> lock_free s = true -> stof s c = CNone ->
  stof (run s [Register c; Write c]) c = CDone (s_next s) RConn.
Proof.
  intros Sh L E. cbn [run fold_left]. cbn [do_step]. rewrite E.
  apply (write_after_shut _ c (s_next s) None); unfold stof, lock_free; cbn [set_next set_pc s_shut s_lock s_cs]; try assumption.
  apply cget_cset_same.
Qed.

(** a stalled writer is released by the shutdown *)
Lemma stalled_writer_released s c :
  inv s -> s_shut s = true -> s_lock s = Some c ->
  lock_free (do_step s (WStallEnd c)) = true /\ exists id, stof (do_step s (WStallEnd c)) c = CDone id RConn.
Proof.
  intros I Sh L. destruct (proj1 (i_lock s I c) L) as [id [mb E]].
  cbn [do_step]. rewrite E, Sh. split; [|exists id; apply stof_fail_write].
  rewrite fail_write_eq. unfold after_fail, own_fail, lock_free. cbn [set_pc set_lock s_kind].
  destruct (s_kind s); reflexivity.
Qed.

(** a returned call has left nothing in the pending map *)
Lemma no_residue_inv s c id r : inv s -> stof s c = CDone id r -> pfind (s_pending s) id = None.
Proof.
  intros I H. apply pfind_none. intros c' Hin.
  destruct (i_entry s I id c' Hin) as [H1 H2].
  assert (Hc : stof s c <> CNone) by (rewrite H; congruence).
  assert (c = c') by (apply (i_uniq s I c c' Hc); rewrite H, H1; reflexivity). subst c'.
  rewrite H in H2. exact H2.
Qed.

(** a response whose id is not pending changes nothing *)
Lemma unknown_response_noop s id :
  s_rd s = RAlive -> pfind (s_pending s) id = None -> run s [RTake id; RDeliver] = s.
Proof.
  intros R F. cbn [run fold_left do_step]. rewrite R, F. cbn [set_rd s_rd].
  destruct s; cbn in *; subst; reflexivity.
Qed.

Lemma late_response_noop s c id r :
  inv s -> s_rd s = RAlive -> stof s c = CDone id r -> run s [RTake id; RDeliver] = s.
Proof. intros I R H. apply unknown_response_noop; [assumption|]. now apply (no_residue_inv s c id r). Qed.

(** a response is handed to the caller that registered its id *)
Lemma response_goes_to_owner s id c :
  inv s -> pfind (s_pending s) id = Some c -> id_of (stof s c) = id.
Proof. intros I F. apply pfind_in in F. now apply (i_entry s I id c). Qed.

(** the subscriber's stream is ended before writes are made to fail and before
    any waiter is failed *)
Lemma subscriber_ended s : inv s -> s_kind s = KWs -> before_subend (s_rd s) = false -> s_sub s <> SSub.
Proof. intros I K B. now apply sub_not_live. Qed.

Lemma subend_ends s : s_rd s = RErr -> s_kind s = KWs -> s_sub s = SSub -> s_sub (do_step s SubEnd) = SEnded.
Proof. intros R K U. cbn [do_step]. rewrite R, K, U. reflexivity. Qed.

(** ** the failing response loop always gets to the end: the steps it needs
    are its own and the end of a stalled write, never the peer's *)
Definition fail_seq (s : st) : list step :=
  [SubEnd; OwnShut] ++ (match s_lock s with Some c => [WStallEnd c] | None => [] end) ++ [LockShut; Drain; LockShut].

Lemma rd_after_fail s1 g : s_rd (after_fail s1 g) = s_rd s1.
Proof. unfold after_fail. destruct (s_kind s1); [reflexivity | destruct g; reflexivity | reflexivity]. Qed.
Lemma kind_after_fail s1 g : s_kind (after_fail s1 g) = s_kind s1.
Proof. unfold after_fail. destruct (s_kind s1) eqn:K; [|destruct g|]; cbn; congruence. Qed.
Lemma lock_after_fail s1 g : s_lock (after_fail s1 g) = s_lock s1.
Proof. unfold after_fail. destruct (s_kind s1); [reflexivity | destruct g; reflexivity | reflexivity]. Qed.

Lemma finish_from_ownshut s :
  s_rd s = ROwnShut -> s_lock s = None -> s_rd (run s [LockShut; Drain; LockShut]) = RDead.
Proof.
  intros R L. cbn [run fold_left do_step]. rewrite R. unfold lock_free. rewrite L.
  destruct (s_kind s) eqn:K; cbn [set_rd s_rd s_kind]; rewrite ?R, ?K; cbn [set_rd drain_all set_pc s_rd s_kind s_lock];
    rewrite ?K, ?L; reflexivity.
Qed.

Lemma reader_finishes s : inv s -> s_rd s = RErr -> s_rd (run s (fail_seq s)) = RDead.
Proof.
  intros I R. unfold fail_seq.
  set (s2 := run s [SubEnd; OwnShut]).
  assert (R2 : s_rd s2 = ROwnShut).
  { unfold s2. cbn [run fold_left do_step]. rewrite R. cbn [set_rd s_rd]. reflexivity. }
  assert (L2 : s_lock s2 = s_lock s).
  { unfold s2. cbn [run fold_left do_step]. rewrite R. cbn [set_rd s_rd].
    destruct (s_kind s); [|destruct (s_sub s)|destruct (s_sub s)]; reflexivity. }
  assert (Sh2 : s_shut s2 = true).
  { unfold s2. cbn [run fold_left do_step]. rewrite R. cbn [set_rd s_rd]. reflexivity. }
  assert (I2 : inv s2) by (apply inv_run; exact I).
  unfold run. rewrite !fold_left_app. fold (run s [SubEnd; OwnShut]). fold s2.
  destruct (s_lock s) as [c|] eqn:L.
  - cbn [fold_left]. fold (run (do_step s2 (WStallEnd c)) [LockShut; Drain; LockShut]).
    destruct (proj1 (i_lock s2 I2 c) L2) as [id [mb E]].
    apply finish_from_ownshut.
    + cbn [do_step]. rewrite E, Sh2. rewrite fail_write_eq, rd_after_fail. exact R2.
    + cbn [do_step]. rewrite E, Sh2. rewrite fail_write_eq, lock_after_fail. reflexivity.
  - cbn [fold_left]. fold (run s2 [LockShut; Drain; LockShut]). now apply finish_from_ownshut.
Qed.
