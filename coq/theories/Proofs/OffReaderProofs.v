(** Proofs about the off-reader dispatch model (Model/OffReader.v). *)
From RepeV Require Import Model.OffReader.
From Coq Require Import ZifyBool ZifyN ZifyNat.
Ltac Zify.zify_post_hook ::= Z.div_mod_to_equations.

(** * execution mode *)

Lemma execution_wrap nmw h : execution (wrap_with_middlewares nmw h) = execution h.
Proof. unfold wrap_with_middlewares. destruct (nmw =? 0); reflexivity. Qed.

Lemma execution_pipeline nmw h : execution (HPipeline nmw h) = execution h.
Proof. reflexivity. Qed.

Lemma execution_dispatched nmw r :
  execution (dispatched nmw r) = if is_blocking_route r then OffReader else Inline.
Proof. unfold dispatched. rewrite execution_wrap. destruct r; reflexivity. Qed.

(** * generic *)

Lemma count_app {A} (p : A -> bool) l1 l2 : count p (l1 ++ l2) = count p l1 + count p l2.
Proof.
  induction l1 as [|x l1 IH]; cbn [app count]; [lia|]. rewrite IH. lia.
Qed.

Lemma count_snoc {A} (p : A -> bool) l x : count p (l ++ [x]) = count p l + (if p x then 1 else 0).
Proof. rewrite count_app. cbn [count]. lia. Qed.

Lemma list_eqb_refl {A} (eqb : A -> A -> bool) :
  (forall x, eqb x x = true) -> forall l, list_eqb eqb l l = true.
Proof.
  intros H l. induction l as [|x l IH]; cbn [list_eqb]; [reflexivity|]. rewrite H, IH. reflexivity.
Qed.

Lemma outcome_eqb_refl o : outcome_eqb o o = true.
Proof. destruct o; cbn [outcome_eqb]; try reflexivity; apply N.eqb_refl. Qed.

Lemma resp_eqb_refl r : resp_eqb r r = true.
Proof. unfold resp_eqb. rewrite !N.eqb_refl. reflexivity. Qed.

Lemma mode_eqb_refl m : mode_eqb m m = true.
Proof. destruct m; reflexivity. Qed.

Lemma route_eqb_refl r : route_eqb r r = true.
Proof. destruct r; reflexivity. Qed.

Lemma req_eqb_refl r : req_eqb r r = true.
Proof. unfold req_eqb. rewrite N.eqb_refl, Bool.eqb_reflx, route_eqb_refl. reflexivity. Qed.

Lemma route_eqb_eq a b : route_eqb a b = true -> a = b.
Proof. destruct a, b; cbn [route_eqb]; congruence. Qed.

Lemma req_eqb_eq a b : req_eqb a b = true -> a = b.
Proof.
  unfold req_eqb. destruct a as [i n r], b as [i' n' r']; cbn [r_id r_notify r_route].
  intros H. apply andb_true_iff in H as [H H3]. apply andb_true_iff in H as [H1 H2].
  apply N.eqb_eq in H1. apply Bool.eqb_prop in H2. apply route_eqb_eq in H3. congruence.
Qed.

Lemma mem_req_In r l : mem_req r l = true <-> In r l.
Proof.
  induction l as [|x l IH]; cbn [mem_req In]; [split; [discriminate|tauto]|].
  rewrite orb_true_iff, IH. split.
  - intros [H|H]; [left; apply req_eqb_eq; exact H|right; exact H].
  - intros [H|H]; [left; subst x; apply req_eqb_refl|right; exact H].
Qed.

Lemma length_del_req r l : mem_req r l = true -> S (length (del_req r l)) = length l.
Proof.
  induction l as [|x l IH]; cbn [mem_req del_req length]; [discriminate|].
  destruct (req_eqb x r); cbn [orb length]; [reflexivity|]. intros H. rewrite (IH H). reflexivity.
Qed.

Lemma In_del_req r x l : In x (del_req r l) -> In x l.
Proof.
  induction l as [|y l IH]; cbn [del_req In]; [tauto|].
  destruct (req_eqb y r); cbn [In]; [tauto|]. intros [H|H]; [left; exact H|right; exact (IH H)].
Qed.

Lemma mem_id_In x l : mem_id x l = true <-> In x l.
Proof.
  induction l as [|y l IH]; cbn [mem_id In]; [split; [discriminate|tauto]|].
  rewrite orb_true_iff, N.eqb_eq, IH. tauto.
Qed.

(** * one step *)

Lemma cap_step nmw s e : cap (step nmw s e) = cap s.
Proof. reflexivity. Qed.

Lemma cap_run nmw evs : forall s, cap (run nmw s evs) = cap s.
Proof.
  induction evs as [|e evs IH]; intros s; cbn [run fold_left]; [reflexivity|].
  change (cap (run nmw (step nmw s e) evs) = cap s). rewrite IH. reflexivity.
Qed.

Lemma run_cons nmw s e evs : run nmw s (e :: evs) = run nmw (step nmw s e) evs.
Proof. reflexivity. Qed.

Lemma run_app nmw evs1 evs2 s : run nmw s (evs1 ++ evs2) = run nmw (run nmw s evs1) evs2.
Proof. unfold run. apply fold_left_app. Qed.

Lemma outs_from_app nmw evs1 : forall s evs2,
  outs_from nmw s (evs1 ++ evs2) = outs_from nmw s evs1 ++ outs_from nmw (run nmw s evs1) evs2.
Proof.
  induction evs1 as [|e evs1 IH]; intros s evs2; cbn [app outs_from]; [reflexivity|].
  rewrite IH, run_cons. reflexivity.
Qed.

(** the step of an inline request: answered in the step itself, whatever the
    number of running handlers *)
Lemma step_inline nmw s r :
  is_blocking_route (r_route r) = false ->
  step nmw s (Arrive r)
  = mkSt (running s) (cap s) (outbox s ++ (if r_notify r then [] else [(r_id r, EC_OK)])) /\
  outcome_of nmw s (Arrive r) = (if r_notify r then OInlineRan else OInlineOk).
Proof.
  intros Hb. unfold step, next_running, emit, outcome_of. rewrite execution_dispatched, Hb.
  split; reflexivity.
Qed.

(** the step of an off-reader request at the cap *)
Lemma step_saturated nmw s r :
  is_blocking_route (r_route r) = true -> saturated s = true ->
  step nmw s (Arrive r)
  = mkSt (running s) (cap s)
         (outbox s ++ (if r_notify r then [] else [(r_id r, EC_RESOURCE_EXHAUSTED)])) /\
  outcome_of nmw s (Arrive r) = (if r_notify r then ODrop else OReject).
Proof.
  intros Hb Hs. unfold step, next_running, emit, outcome_of. rewrite execution_dispatched, Hb, Hs.
  split; reflexivity.
Qed.

(** the step of an off-reader request below the cap *)
Lemma step_admitted nmw s r :
  is_blocking_route (r_route r) = true -> saturated s = false ->
  step nmw s (Arrive r) = mkSt (running s + 1) (cap s) (outbox s ++ []) /\
  outcome_of nmw s (Arrive r) = OAdmit.
Proof.
  intros Hb Hs. unfold step, next_running, emit, outcome_of. rewrite execution_dispatched, Hb, Hs.
  split; reflexivity.
Qed.

Lemma step_exit nmw s r h :
  step nmw s (Exit r h)
  = mkSt (running s - 1) (cap s) (outbox s ++ (if r_notify r then [] else [(r_id r, how_code h)])).
Proof. reflexivity. Qed.

Lemma saturated_iff s c : cap s = Some c -> saturated s = (c <=? running s).
Proof. intros H. unfold saturated. rewrite H. reflexivity. Qed.

Lemma saturated_unlimited s : cap s = None -> saturated s = false.
Proof. intros H. unfold saturated. rewrite H. reflexivity. Qed.

(** * the cap is an invariant *)

Lemma step_le_cap nmw s e c : cap s = Some c -> running s <= c -> running (step nmw s e) <= c.
Proof.
  intros Hc Hr. unfold step. cbn [running]. unfold next_running. destruct e as [r|r h].
  - destruct (execution (dispatched nmw (r_route r))); [exact Hr|].
    rewrite (saturated_iff s c Hc). destruct (c <=? running s) eqn:E; lia.
  - lia.
Qed.

Lemma run_le_cap nmw c evs : forall s,
  cap s = Some c -> running s <= c -> running (run nmw s evs) <= c.
Proof.
  induction evs as [|e evs IH]; intros s Hc Hr; [exact Hr|]. rewrite run_cons.
  apply IH; [rewrite cap_step; exact Hc|apply step_le_cap; assumption].
Qed.

Lemma maxrun_le_cap nmw c evs : forall s,
  cap s = Some c -> running s <= c -> maxrun_from nmw s evs <= c.
Proof.
  induction evs as [|e evs IH]; intros s Hc Hr; cbn [maxrun_from]; [exact Hr|].
  assert (H : maxrun_from nmw (step nmw s e) evs <= c).
  { apply IH; [rewrite cap_step; exact Hc|apply step_le_cap; assumption]. }
  lia.
Qed.

(** every reachable state is below the cap: all prefixes of all histories *)
Lemma reachable_le_cap nmw c evs : running (run nmw (init (Some c)) evs) <= c.
Proof. apply run_le_cap; [reflexivity|]. cbn [init running]. lia. Qed.

(** * the model meets the oracle *)

Lemma emit_implied nmw s e : emit nmw s e = implied e (outcome_of nmw s e).
Proof.
  destruct e as [r|r h]; cbn [emit outcome_of].
  - destruct (execution (dispatched nmw (r_route r))).
    + destruct (r_notify r); reflexivity.
    + destruct (saturated s); [destruct (r_notify r); reflexivity|reflexivity].
  - destruct (r_notify r); [reflexivity|]. destruct h; reflexivity.
Qed.

Lemma outbox_step nmw s e : outbox (step nmw s e) = outbox s ++ emit nmw s e.
Proof. reflexivity. Qed.

Lemma outbox_run nmw evs : forall s,
  outbox (run nmw s evs) = outbox s ++ implied_all evs (outs_from nmw s evs).
Proof.
  induction evs as [|e evs IH]; intros s; cbn [outs_from implied_all].
  - cbn [run fold_left]. rewrite app_nil_r. reflexivity.
  - rewrite run_cons, IH, outbox_step, emit_implied, app_assoc. reflexivity.
Qed.

Lemma refusal_is_sat nmw s e : is_refusal (outcome_of nmw s e) = is_sat_arrival nmw s e.
Proof.
  destruct e as [r|r h]; cbn [outcome_of is_sat_arrival].
  - destruct (execution (dispatched nmw (r_route r))).
    + destruct (r_notify r); reflexivity.
    + destruct (saturated s); [destruct (r_notify r); reflexivity|reflexivity].
  - destruct (r_notify r); [reflexivity|]. destruct h; reflexivity.
Qed.

Lemma count_refusals nmw evs : forall s,
  count is_refusal (outs_from nmw s evs) = sat_from nmw s evs.
Proof.
  induction evs as [|e evs IH]; intros s; cbn [outs_from count sat_from]; [reflexivity|].
  rewrite refusal_is_sat, IH. reflexivity.
Qed.

Lemma outcome_expected nmw s e n :
  running s = n -> outcome_of nmw s e = expected (cap s) n e.
Proof.
  intros Hn. destruct e as [r|r h]; cbn [outcome_of expected]; [|reflexivity].
  rewrite execution_dispatched. destruct (is_blocking_route (r_route r)); [|reflexivity].
  unfold saturated, at_cap. rewrite Hn. reflexivity.
Qed.

Lemma exit_not_admit nmw s r h : is_admit (outcome_of nmw s (Exit r h)) = false.
Proof. cbn [outcome_of]. destruct (r_notify r); [reflexivity|]. destruct h; reflexivity. Qed.

Lemma events_ok_model nmw c evs : forall s live seen pre_e pre_o,
  cap s = c -> running s = N.of_nat (length live) ->
  running s = count is_admit pre_o - count is_exit pre_e ->
  count is_exit pre_e <= count is_admit pre_o ->
  wf_from c live seen evs = true ->
  events_ok c pre_e pre_o evs (outs_from nmw s evs) = true.
Proof.
  induction evs as [|e evs IH]; intros s live seen pre_e pre_o Hc Hl Hn Hle Hwf;
    cbn [outs_from events_ok]; [reflexivity|].
  assert (Ho1 : outcome_eqb (outcome_of nmw s e)
                   (expected c (count is_admit pre_o - count is_exit pre_e) e) = true).
  { rewrite <- Hn, <- Hc, <- (outcome_expected nmw s e (running s) eq_refl). apply outcome_eqb_refl. }
  rewrite Ho1. cbn [andb]. clear Ho1.
  destruct e as [r|r h].
  - cbn [wf_from] in Hwf. apply andb_true_iff in Hwf as [_ Hwf].
    destruct (is_blocking_route (r_route r)) eqn:Hb.
    + assert (Hsat : saturated s = at_cap c (N.of_nat (length live))).
      { unfold saturated, at_cap. rewrite Hc, Hl. reflexivity. }
      destruct (saturated s) eqn:Es.
      * rewrite <- Hsat in Hwf. cbn [andb negb] in Hwf.
        destruct (step_saturated nmw s r Hb Es) as [Hst Ho]. rewrite Ho.
        apply (IH _ live (r_id r :: seen)).
        -- rewrite cap_step. exact Hc.
        -- rewrite Hst. cbn [running]. exact Hl.
        -- rewrite Hst. cbn [running]. rewrite !count_snoc. cbn [is_exit].
           destruct (r_notify r); cbn [is_admit]; lia.
        -- rewrite !count_snoc. cbn [is_exit]. destruct (r_notify r); cbn [is_admit]; lia.
        -- exact Hwf.
      * rewrite <- Hsat in Hwf. cbn [andb negb] in Hwf.
        destruct (step_admitted nmw s r Hb Es) as [Hst Ho]. rewrite Ho.
        apply (IH _ (live ++ [r]) (r_id r :: seen)).
        -- rewrite cap_step. exact Hc.
        -- rewrite Hst. cbn [running]. rewrite app_length. cbn [length]. lia.
        -- rewrite Hst. cbn [running]. rewrite !count_snoc. cbn [is_exit is_admit]. lia.
        -- rewrite !count_snoc. cbn [is_exit is_admit]. lia.
        -- exact Hwf.
    + cbn [andb] in Hwf.
      destruct (step_inline nmw s r Hb) as [Hst Ho]. rewrite Ho.
      apply (IH _ live (r_id r :: seen)).
      * rewrite cap_step. exact Hc.
      * rewrite Hst. cbn [running]. exact Hl.
      * rewrite Hst. cbn [running]. rewrite !count_snoc. cbn [is_exit].
        destruct (r_notify r); cbn [is_admit]; lia.
      * rewrite !count_snoc. cbn [is_exit]. destruct (r_notify r); cbn [is_admit]; lia.
      * exact Hwf.
  - cbn [wf_from] in Hwf. apply andb_true_iff in Hwf as [Hm Hwf].
    pose proof (length_del_req r live Hm) as Hlen.
    apply (IH _ (del_req r live) seen).
    + rewrite cap_step. exact Hc.
    + rewrite step_exit. cbn [running]. lia.
    + rewrite step_exit. cbn [running]. rewrite !count_snoc, exit_not_admit. cbn [is_exit]. lia.
    + rewrite !count_snoc, exit_not_admit. cbn [is_exit]. lia.
    + exact Hwf.
Qed.

Lemma modes_model nmw :
  map (fun r => execution (dispatched nmw r)) all_routes
  = map (fun r => if is_blocking_route r then OffReader else Inline) all_routes.
Proof. apply map_ext. intros r. apply execution_dispatched. Qed.

Lemma ok_model_C16 c : c16_wf c = true -> ok_C16 c (model_C16 c) = true.
Proof.
  unfold c16_wf. intros H. apply andb_true_iff in H as [Hcap Hwf].
  unfold ok_C16, model_C16.
  cbn [o_maxrun o_outs o_resp o_sat o_pan o_alive o_modes].
  assert (H1 : cap_respected (c_cap c) (maxrun_from (c_mw c) (init (c_cap c)) (c_evs c)) = true).
  { unfold cap_respected. destruct (c_cap c) as [k|] eqn:E; [|reflexivity].
    apply N.leb_le. apply maxrun_le_cap; [reflexivity|]. cbn [init running]. lia. }
  assert (H2 : events_ok (c_cap c) [] [] (c_evs c) (outs_from (c_mw c) (init (c_cap c)) (c_evs c)) = true).
  { apply (events_ok_model (c_mw c) (c_cap c) (c_evs c) (init (c_cap c)) [] []);
      [reflexivity|reflexivity|reflexivity|cbn [count]; lia|exact Hwf]. }
  rewrite H1, H2, outbox_run. cbn [init outbox app].
  rewrite (list_eqb_refl resp_eqb resp_eqb_refl), count_refusals, !N.eqb_refl, modes_model,
    (list_eqb_refl mode_eqb mode_eqb_refl).
  reflexivity.
Qed.

(** * exits free slots; the number of held permits is the number of live requests *)

Fixpoint live_after (c : option N) (live : list req) (evs : list event) : list req :=
  match evs with
  | [] => live
  | Arrive r :: evs' =>
      live_after c
        (if is_blocking_route (r_route r) && negb (at_cap c (N.of_nat (length live)))
         then live ++ [r] else live) evs'
  | Exit r _ :: evs' => live_after c (del_req r live) evs'
  end.

Lemma running_counts_live nmw c evs : forall s live seen,
  cap s = c -> running s = N.of_nat (length live) -> wf_from c live seen evs = true ->
  running (run nmw s evs) = N.of_nat (length (live_after c live evs)).
Proof.
  induction evs as [|e evs IH]; intros s live seen Hc Hl Hwf; [exact Hl|].
  rewrite run_cons. destruct e as [r|r h]; cbn [wf_from live_after] in *.
  - apply andb_true_iff in Hwf as [_ Hwf].
    assert (Hsat : saturated s = at_cap c (N.of_nat (length live))).
    { unfold saturated, at_cap. rewrite Hc, Hl. reflexivity. }
    rewrite <- Hsat in *.
    destruct (is_blocking_route (r_route r)) eqn:Hb; [destruct (saturated s) eqn:Es|]; cbn [andb negb] in *.
    + apply (IH _ live (r_id r :: seen)); [rewrite cap_step; exact Hc| |exact Hwf].
      rewrite (proj1 (step_saturated nmw s r Hb Es)). exact Hl.
    + apply (IH _ (live ++ [r]) (r_id r :: seen)); [rewrite cap_step; exact Hc| |exact Hwf].
      rewrite (proj1 (step_admitted nmw s r Hb Es)). cbn [running]. rewrite app_length. cbn [length]. lia.
    + apply (IH _ live (r_id r :: seen)); [rewrite cap_step; exact Hc| |exact Hwf].
      rewrite (proj1 (step_inline nmw s r Hb)). exact Hl.
  - apply andb_true_iff in Hwf as [Hm Hwf].
    pose proof (length_del_req r live Hm) as Hlen.
    apply (IH _ (del_req r live) seen); [rewrite cap_step; exact Hc| |exact Hwf].
    rewrite step_exit. cbn [running]. lia.
Qed.

(** a batch of off-reader requests that fits below the cap is admitted whole *)
Lemma batch_admitted nmw c rs : forall s,
  cap s = Some c -> running s + N.of_nat (length rs) <= c ->
  forallb (fun r => is_blocking_route (r_route r)) rs = true ->
  outs_from nmw s (map Arrive rs) = map (fun _ => OAdmit) rs /\
  running (run nmw s (map Arrive rs)) = running s + N.of_nat (length rs).
Proof.
  induction rs as [|r rs IH]; intros s Hc Hn Hb; cbn [map outs_from length forallb] in *.
  - split; [reflexivity|]. cbn [run fold_left]. lia.
  - apply andb_true_iff in Hb as [Hb Hbs].
    assert (Es : saturated s = false).
    { rewrite (saturated_iff s c Hc). lia. }
    destruct (step_admitted nmw s r Hb Es) as [Hst Ho]. rewrite Ho, run_cons.
    destruct (IH (step nmw s (Arrive r))) as [I1 I2].
    + rewrite cap_step. exact Hc.
    + rewrite Hst. cbn [running]. lia.
    + exact Hbs.
    + rewrite I1, I2, Hst. cbn [running]. split; [reflexivity|lia].
Qed.

(** without a cap every off-reader request is admitted *)
Lemma unlimited_admits nmw s r :
  cap s = None -> is_blocking_route (r_route r) = true -> outcome_of nmw s (Arrive r) = OAdmit.
Proof. intros Hc Hb. exact (proj2 (step_admitted nmw s r Hb (saturated_unlimited s Hc))). Qed.

(** * other requests are unaffected *)

Definition same_ctl (s s' : st) : Prop := running s = running s' /\ cap s = cap s'.

Lemma same_ctl_step nmw s s' e : same_ctl s s' -> same_ctl (step nmw s e) (step nmw s' e).
Proof.
  intros [Hr Hc]. unfold same_ctl, step. cbn [running cap]. split; [|exact Hc].
  unfold next_running, saturated. rewrite Hr, Hc. reflexivity.
Qed.

Lemma same_ctl_outcome nmw s s' e : same_ctl s s' -> outcome_of nmw s e = outcome_of nmw s' e.
Proof. intros [Hr Hc]. unfold outcome_of, saturated. rewrite Hr, Hc. reflexivity. Qed.

Lemma same_ctl_outs nmw evs : forall s s',
  same_ctl s s' -> outs_from nmw s evs = outs_from nmw s' evs /\ same_ctl (run nmw s evs) (run nmw s' evs).
Proof.
  induction evs as [|e evs IH]; intros s s' H; cbn [outs_from]; [split; [reflexivity|exact H]|].
  rewrite (same_ctl_outcome nmw s s' e H), !run_cons.
  destruct (IH _ _ (same_ctl_step nmw s s' e H)) as [I1 I2]. rewrite I1. split; [reflexivity|exact I2].
Qed.

(** a request refused at the cap: delete it from the history and every other
    event has the same outcome, the same replies are queued in the same order
    (only its own reply is missing) and the same number of handlers runs *)
Lemma others_unaffected_saturated nmw s evs1 r evs2 :
  is_blocking_route (r_route r) = true -> saturated (run nmw s evs1) = true ->
  let s1 := run nmw s evs1 in
  let mine := if r_notify r then [] else [(r_id r, EC_RESOURCE_EXHAUSTED)] in
  exists rest_outs rest_replies,
    outs_from nmw s (evs1 ++ Arrive r :: evs2)
      = outs_from nmw s evs1 ++ (if r_notify r then ODrop else OReject) :: rest_outs /\
    outs_from nmw s (evs1 ++ evs2) = outs_from nmw s evs1 ++ rest_outs /\
    outbox (run nmw s (evs1 ++ Arrive r :: evs2)) = outbox s1 ++ mine ++ rest_replies /\
    outbox (run nmw s (evs1 ++ evs2)) = outbox s1 ++ rest_replies /\
    running (run nmw s (evs1 ++ Arrive r :: evs2)) = running (run nmw s (evs1 ++ evs2)).
Proof.
  intros Hb Hs s1 mine. fold s1 in Hs.
  destruct (step_saturated nmw s1 r Hb Hs) as [Hst Ho].
  assert (Hsame : same_ctl (step nmw s1 (Arrive r)) s1).
  { rewrite Hst. split; reflexivity. }
  destruct (same_ctl_outs nmw evs2 _ _ Hsame) as [Houts [Hrun _]].
  exists (outs_from nmw s1 evs2), (implied_all evs2 (outs_from nmw s1 evs2)).
  rewrite !outs_from_app, !run_app. fold s1. cbn [outs_from]. rewrite Ho, Houts, !run_cons.
  repeat split; try reflexivity.
  - rewrite outbox_run, Houts, Hst. cbn [outbox]. rewrite <- app_assoc. reflexivity.
  - rewrite outbox_run. reflexivity.
  - exact Hrun.
Qed.

(** a handler that panics instead of leaving in any other way [h]: every
    other event has the same outcome and reply, the slot is freed alike *)
Lemma others_unaffected_panic nmw s evs1 r h evs2 :
  let s1 := run nmw s evs1 in
  exists rest_outs rest_replies,
    outs_from nmw s (evs1 ++ Exit r Panic :: evs2)
      = outs_from nmw s evs1 ++ outcome_of nmw s1 (Exit r Panic) :: rest_outs /\
    outs_from nmw s (evs1 ++ Exit r h :: evs2)
      = outs_from nmw s evs1 ++ outcome_of nmw s1 (Exit r h) :: rest_outs /\
    outbox (run nmw s (evs1 ++ Exit r Panic :: evs2))
      = outbox s1 ++ (if r_notify r then [] else [(r_id r, EC_INTERNAL_ERROR)]) ++ rest_replies /\
    outbox (run nmw s (evs1 ++ Exit r h :: evs2))
      = outbox s1 ++ (if r_notify r then [] else [(r_id r, how_code h)]) ++ rest_replies /\
    running (run nmw s (evs1 ++ Exit r Panic :: evs2)) = running (run nmw s (evs1 ++ Exit r h :: evs2)).
Proof.
  intros s1.
  assert (Hsame : same_ctl (step nmw s1 (Exit r Panic)) (step nmw s1 (Exit r h))).
  { rewrite !step_exit. split; reflexivity. }
  destruct (same_ctl_outs nmw evs2 _ _ Hsame) as [Houts [Hrun _]].
  exists (outs_from nmw (step nmw s1 (Exit r h)) evs2),
         (implied_all evs2 (outs_from nmw (step nmw s1 (Exit r h)) evs2)).
  rewrite !outs_from_app, !run_app. fold s1. cbn [outs_from]. rewrite Houts, !run_cons.
  repeat split; try reflexivity.
  - rewrite outbox_run, Houts, step_exit. cbn [outbox how_code]. rewrite <- app_assoc. reflexivity.
  - rewrite outbox_run, step_exit. cbn [outbox]. rewrite <- app_assoc. reflexivity.
  - exact Hrun.
Qed.

(** * at most one reply per request *)

Definition ev_id (e : event) : N := match e with Arrive r => r_id r | Exit r _ => r_id r end.

Lemma implied_ids e o x : In x (map fst (implied e o)) -> x = ev_id e.
Proof.
  unfold implied. fold (ev_id e).
  destruct o; cbn [map fst In]; intros H; try contradiction; destruct H as [H|[]]; symmetry; exact H.
Qed.

Lemma implied_short e o : (length (implied e o) <= 1)%nat.
Proof. unfold implied. destruct o; cbn [length]; lia. Qed.

Lemma NoDup_short {A} (l : list A) : (length l <= 1)%nat -> NoDup l.
Proof.
  destruct l as [|x [|y l]]; cbn [length]; intros H; [constructor| |lia].
  constructor; [intros []|constructor].
Qed.

Lemma NoDup_app_intro {A} (l1 l2 : list A) :
  NoDup l1 -> NoDup l2 -> (forall x, In x l1 -> In x l2 -> False) -> NoDup (l1 ++ l2).
Proof.
  induction l1 as [|a l1 IH]; cbn [app]; intros N1 N2 D; [exact N2|].
  inversion N1 as [|a' l' Ha N1']; subst a' l'. constructor.
  - rewrite in_app_iff. intros [H|H]; [exact (Ha H)|]. exact (D a (or_introl eq_refl) H).
  - apply IH; [exact N1'|exact N2|]. intros x H1 H2. exact (D x (or_intror H1) H2).
Qed.

Lemma NoDup_del_req r l : NoDup (map r_id l) -> NoDup (map r_id (del_req r l)).
Proof.
  induction l as [|x l IH]; cbn [del_req map]; intros ND; [exact ND|].
  inversion ND as [|a l' Ha ND']; subst a l'.
  destruct (req_eqb x r); [exact ND'|]. cbn [map]. constructor; [|exact (IH ND')].
  intros H. apply Ha. apply in_map_iff in H as [y [Hy Hin]]. apply in_map_iff.
  exists y. split; [exact Hy|]. exact (In_del_req r y l Hin).
Qed.

Lemma del_req_drops_id r l :
  NoDup (map r_id l) -> mem_req r l = true -> ~ In (r_id r) (map r_id (del_req r l)).
Proof.
  induction l as [|x l IH]; cbn [del_req map mem_req]; intros ND Hm; [discriminate|].
  inversion ND as [|a l' Ha ND']; subst a l'.
  destruct (req_eqb x r) eqn:E.
  - apply req_eqb_eq in E. subst x. exact Ha.
  - cbn [orb] in Hm. cbn [map In]. intros [H|H].
    + apply Ha. rewrite H. apply mem_req_In in Hm. apply in_map. exact Hm.
    + exact (IH ND' Hm H).
Qed.

(** invariant: replies queued so far and live requests carry ids seen so far,
    no id twice, and no live request has a reply yet *)
Record ids_inv (ob : list resp) (live : list req) (seen : list N) : Prop := mkIdsInv {
  ii_ob_seen : forall x, In x (map fst ob) -> In x seen;
  ii_live_seen : forall x, In x (map r_id live) -> In x seen;
  ii_ob_nodup : NoDup (map fst ob);
  ii_live_nodup : NoDup (map r_id live);
  ii_disjoint : forall x, In x (map fst ob) -> In x (map r_id live) -> False
}.

Lemma one_reply_gen nmw c evs : forall s live seen,
  cap s = c -> running s = N.of_nat (length live) -> ids_inv (outbox s) live seen ->
  wf_from c live seen evs = true ->
  NoDup (map fst (outbox (run nmw s evs))).
Proof.
  induction evs as [|e evs IH]; intros s live seen Hc Hl Hinv Hwf; [exact (ii_ob_nodup _ _ _ Hinv)|].
  rewrite run_cons. destruct Hinv as [I1 I2 I3 I4 I5].
  destruct e as [r|r h]; cbn [wf_from] in Hwf.
  - apply andb_true_iff in Hwf as [Hfresh Hwf]. apply negb_true_iff in Hfresh.
    assert (Hnew : ~ In (r_id r) seen).
    { intros H. apply mem_id_In in H. congruence. }
    assert (Hsat : saturated s = at_cap c (N.of_nat (length live))).
    { unfold saturated, at_cap. rewrite Hc, Hl. reflexivity. }
    rewrite <- Hsat in Hwf.
    (* whatever is emitted carries the fresh id *)
    assert (Hob : ids_inv (outbox (step nmw s (Arrive r))) live (r_id r :: seen) /\
                  (forall x, In x (map fst (outbox (step nmw s (Arrive r)))) -> In x (map r_id live) -> False)).
    { unfold step. cbn [outbox]. rewrite emit_implied.
      assert (Hid : forall x, In x (map fst (implied (Arrive r) (outcome_of nmw s (Arrive r)))) -> x = r_id r).
      { intros x H. apply implied_ids in H. exact H. }
      assert (Hd : forall x, In x (map fst (outbox s ++ implied (Arrive r) (outcome_of nmw s (Arrive r)))) ->
                             In x (map r_id live) -> False).
      { intros x H Hx. rewrite map_app, in_app_iff in H. destruct H as [H|H]; [exact (I5 x H Hx)|].
        apply Hid in H. subst x. exact (Hnew (I2 _ Hx)). }
      split; [|exact Hd]. constructor.
      - intros x H. rewrite map_app, in_app_iff in H. destruct H as [H|H]; [right; exact (I1 x H)|].
        left. symmetry. exact (Hid x H).
      - intros x H. right. exact (I2 x H).
      - rewrite map_app. apply NoDup_app_intro; [exact I3| |].
        + apply NoDup_short. rewrite map_length. apply implied_short.
        + intros x H1 H2. apply Hid in H2. subst x. exact (Hnew (I1 _ H1)).
      - exact I4.
      - exact Hd. }
    destruct Hob as [Hinv' Hd'].
    destruct (is_blocking_route (r_route r)) eqn:Hb; [destruct (saturated s) eqn:Es|]; cbn [andb negb] in Hwf.
    + apply (IH _ live (r_id r :: seen)); [rewrite cap_step; exact Hc| |exact Hinv'|exact Hwf].
      rewrite (proj1 (step_saturated nmw s r Hb Es)). exact Hl.
    + apply (IH _ (live ++ [r]) (r_id r :: seen)); [rewrite cap_step; exact Hc| | |exact Hwf].
      * rewrite (proj1 (step_admitted nmw s r Hb Es)). cbn [running]. rewrite app_length. cbn [length]. lia.
      * destruct Hinv' as [J1 J2 J3 J4 J5].
        assert (Hempty : outbox (step nmw s (Arrive r)) = outbox s ++ []).
        { rewrite (proj1 (step_admitted nmw s r Hb Es)). reflexivity. }
        constructor.
        -- exact J1.
        -- intros x H. rewrite map_app, in_app_iff in H. destruct H as [H|H]; [exact (J2 x H)|].
           cbn [map In] in H. destruct H as [H|[]]. left. exact H.
        -- exact J3.
        -- rewrite map_app. apply NoDup_app_intro; [exact J4| |].
           ++ cbn [map]. constructor; [intros []|constructor].
           ++ intros x H1 H2. cbn [map In] in H2. destruct H2 as [H2|[]]. subst x. exact (Hnew (I2 _ H1)).
        -- intros x H1 H2. rewrite map_app, in_app_iff in H2. destruct H2 as [H2|H2]; [exact (J5 x H1 H2)|].
           cbn [map In] in H2. destruct H2 as [H2|[]]. subst x.
           rewrite Hempty, app_nil_r in H1. exact (Hnew (I1 _ H1)).
    + apply (IH _ live (r_id r :: seen)); [rewrite cap_step; exact Hc| |exact Hinv'|exact Hwf].
      rewrite (proj1 (step_inline nmw s r Hb)). exact Hl.
  - apply andb_true_iff in Hwf as [Hm Hwf].
    pose proof (length_del_req r live Hm) as Hlen.
    assert (Hin : In (r_id r) (map r_id live)).
    { apply in_map. apply mem_req_In. exact Hm. }
    apply (IH _ (del_req r live) seen); [rewrite cap_step; exact Hc| | |exact Hwf].
    + rewrite step_exit. cbn [running]. lia.
    + rewrite step_exit. cbn [outbox].
      assert (Hid : forall x, In x (map fst (if r_notify r then [] else [(r_id r, how_code h)])) -> x = r_id r).
      { intros x H. destruct (r_notify r); cbn [map fst In] in H; [contradiction|].
        destruct H as [H|[]]. symmetry. exact H. }
      assert (Hsub : forall x, In x (map r_id (del_req r live)) -> In x (map r_id live)).
      { intros x H. apply in_map_iff in H as [y [Hy Hy']]. apply in_map_iff. exists y.
        split; [exact Hy|exact (In_del_req r y live Hy')]. }
      constructor.
      * intros x H. rewrite map_app, in_app_iff in H. destruct H as [H|H]; [exact (I1 x H)|].
        apply Hid in H. subst x. exact (I2 _ Hin).
      * intros x H. exact (I2 x (Hsub x H)).
      * rewrite map_app. apply NoDup_app_intro; [exact I3| |].
        -- apply NoDup_short. rewrite map_length. destruct (r_notify r); cbn [length]; lia.
        -- intros x H1 H2. apply Hid in H2. subst x. exact (I5 _ H1 Hin).
      * apply NoDup_del_req. exact I4.
      * intros x H1 H2. rewrite map_app, in_app_iff in H1. destruct H1 as [H1|H1].
        -- exact (I5 x H1 (Hsub x H2)).
        -- apply Hid in H1. subst x. exact (del_req_drops_id r live I4 Hm H2).
Qed.

Lemma one_reply_per_request c :
  c16_wf c = true -> NoDup (map fst (o_resp (model_C16 c))).
Proof.
  unfold c16_wf. intros H. apply andb_true_iff in H as [_ Hwf].
  unfold model_C16. cbn [o_resp].
  apply (one_reply_gen (c_mw c) (c_cap c) (c_evs c) (init (c_cap c)) [] []);
    [reflexivity|reflexivity| |exact Hwf].
  cbn [init outbox]. constructor; cbn [map]; try (intros x []); constructor.
Qed.
