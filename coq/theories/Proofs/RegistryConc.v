(** Concurrent requests on a fixed function table are serialised: in the
    interleaving model every schedule yields the answers and the final state of
    the sequential execution of the requests in the order of their completing
    sections, and that order respects every thread's program order. *)
From RepeV Require Import Model.Json Model.Registry Proofs.JsonProofs Proofs.PointerProofs
  Proofs.RegistryProofs Proofs.RegistryLaws.
From Coq Require Import ZifyBool ZifyN ZifyNat.
Ltac Zify.zify_post_hook ::= Z.div_mod_to_equations.

Definition ev_tid (e : event) : nat := fst (fst (fst e)).
Definition ev_op (e : event) : rop := snd (fst (fst e)).
Definition ev_out (e : event) : rout * calllog := (snd (fst e), snd e).

(** what a thread holds between its two sections is the lookup in the (fixed) table *)
Definition tinv (funs : ftab) (t : cthread) : Prop :=
  match ct_dec t with
  | None => True
  | Some d => exists p payload rest key,
      ct_todo t = Dispatch p (Some payload) :: rest /\ canonical_key p = Ok key /\ d = fget funs key
  end.

Definition requests_only (t : cthread) : Prop := forallb is_request (ct_todo t) = true.

Lemma request_funs st o : is_request o = true -> r_funs (fst (fst (rstep None st o))) = r_funs st.
Proof.
  destruct o; try discriminate; intros _; cbn [rstep fst].
  - reflexivity.
  - apply dispatch_funs.
Qed.

Lemma dispatch_decided_funs st p payload d : r_funs (fst (fst (dispatch_decided st p payload d))) = r_funs st.
Proof.
  unfold dispatch_decided. destruct d; [reflexivity|]. unfold dispatch_write.
  destruct (parse_pointer p) as [[|s segs]|]; try reflexivity.
  - destruct payload; reflexivity.
  - destruct (set_ptr _ _ _); reflexivity.
Qed.

(** one section: no event and the same work left, or the head request completes
    with the answer of the sequential step *)
Lemma csection_step st t :
  tinv (r_funs st) t -> requests_only t ->
  let '(st', t', ev) := csection st t in
  r_funs st' = r_funs st /\ tinv (r_funs st) t' /\ requests_only t' /\
  match ev with
  | None => st' = st /\ ct_todo t' = ct_todo t
  | Some (op, r, lg) => ct_todo t = op :: ct_todo t' /\ rstep None st op = (st', r, lg)
  end.
Proof.
  intros I Rq. unfold csection. destruct t as [dec todo]. cbn [ct_todo ct_dec] in *.
  destruct todo as [|op rest]; [repeat split; assumption|].
  unfold requests_only in Rq. cbn [ct_todo forallb] in Rq. apply andb_true_iff in Rq as [Rop Rrest].
  destruct op as [p v|p fid|v|ob|p ob|p|p b|path b]; try discriminate.
  - pose proof (request_funs st (ReadValue p) eq_refl) as F.
    destruct dec; (destruct (rstep None st (ReadValue p)) as [[st' r] lg] eqn:Q; cbn [fst] in F;
      repeat split; assumption).
  - destruct b as [payload|].
    2:{ pose proof (request_funs st (Dispatch p None) eq_refl) as F.
        destruct dec; (destruct (rstep None st (Dispatch p None)) as [[st' r] lg] eqn:Q; cbn [fst] in F;
          repeat split; assumption). }
    destruct dec as [d|].
    + (* second section *)
      unfold tinv in I. cbn [ct_dec ct_todo] in I. destruct I as [p' [pl' [rest' [key [E [K D]]]]]].
      injection E as <- <- <-.
      pose proof (dispatch_decided_funs st p payload d) as F.
      assert (Q : rstep None st (Dispatch p (Some payload)) = dispatch_decided st p payload d).
      { cbn [rstep]. unfold dispatch. rewrite K, D. reflexivity. }
      destruct (dispatch_decided st p payload d) as [[st' r] lg]. cbn [fst] in F.
      repeat split; assumption.
    + (* first section: the lookup *)
      destruct (canonical_key p) as [key|e] eqn:K.
      * split; [reflexivity|]. split.
        { unfold tinv. cbn [ct_dec ct_todo]. exists p, payload, rest, key. repeat split. exact K. }
        split.
        { unfold requests_only. cbn [ct_todo forallb is_request]. exact Rrest. }
        split; reflexivity.
      * split; [reflexivity|]. split; [exact Logic.I|]. split; [exact Rrest|]. split; [reflexivity|].
        cbn [rstep]. unfold dispatch. now rewrite K.
Qed.

Lemma nth_error_set_nth_same {A} (l : list A) : forall i x y, nth_error l i = Some x -> nth_error (set_nth l i y) i = Some y.
Proof.
  induction l as [|z l IH]; intros [|i] x y H; cbn in *; try discriminate; [reflexivity|]. eapply IH; eauto.
Qed.

Lemma nth_error_set_nth_other {A} (l : list A) : forall i j y, i <> j -> nth_error (set_nth l i y) j = nth_error l j.
Proof.
  induction l as [|z l IH]; intros [|i] [|j] y H; cbn; try reflexivity; try congruence. apply IH. congruence.
Qed.

Lemma Forall_set_nth {A} (P : A -> Prop) (l : list A) : forall i y, Forall P l -> P y -> Forall P (set_nth l i y).
Proof.
  induction l as [|z l IH]; intros [|i] y F Py; cbn; try assumption; inversion F; subst; constructor; auto.
Qed.

Lemma Forall_nth_error {A} (P : A -> Prop) (l : list A) i x : Forall P l -> nth_error l i = Some x -> P x.
Proof. intros F H. rewrite Forall_forall in F. apply F. eapply nth_error_In; eauto. Qed.

(** every schedule is a sequential execution in completion order *)
Lemma crun_sequential sched : forall st ths st' ths' evs,
  Forall (tinv (r_funs st)) ths -> Forall requests_only ths ->
  crun st ths sched = (st', ths', evs) ->
  seq_run st (map ev_op evs) = (st', map ev_out evs).
Proof.
  induction sched as [|i sched IH]; intros st ths st' ths' evs I Rq H; cbn [crun] in H.
  - injection H as <- <- <-. reflexivity.
  - destruct (nth_error ths i) as [t|] eqn:Nt; [|exact (IH st ths st' ths' evs I Rq H)].
    pose proof (csection_step st t (Forall_nth_error _ _ _ _ I Nt) (Forall_nth_error _ _ _ _ Rq Nt)) as C.
    destruct (csection st t) as [[st1 t1] ev].
    destruct C as [F [I1 [R1 C]]].
    destruct (crun st1 (set_nth ths i t1) sched) as [[st2 ths2] evs2] eqn:Run.
    injection H as <- <- <-.
    assert (IH' : seq_run st1 (map ev_op evs2) = (st2, map ev_out evs2)).
    { apply (IH st1 (set_nth ths i t1) st2 ths2 evs2); [| |exact Run].
      - rewrite F. now apply Forall_set_nth.
      - now apply Forall_set_nth. }
    destruct ev as [[[op r] lg]|].
    + destruct C as [_ C]. cbn [map ev_op ev_out seq_run fst snd]. rewrite C, IH'. reflexivity.
    + destruct C as [-> _]. exact IH'.
Qed.

(** ... and the completion order respects each thread's program order *)
Lemma crun_program_order sched : forall st ths st' ths' evs,
  Forall (tinv (r_funs st)) ths -> Forall requests_only ths ->
  crun st ths sched = (st', ths', evs) ->
  forall k t, nth_error ths k = Some t ->
  exists t', nth_error ths' k = Some t' /\
             ct_todo t = map ev_op (filter (fun e => Nat.eqb (ev_tid e) k) evs) ++ ct_todo t'.
Proof.
  induction sched as [|i sched IH]; intros st ths st' ths' evs I Rq H k t Nk; cbn [crun] in H.
  - injection H as <- <- <-. exists t. split; [exact Nk|reflexivity].
  - destruct (nth_error ths i) as [ti|] eqn:Nt; [|exact (IH st ths st' ths' evs I Rq H k t Nk)].
    pose proof (csection_step st ti (Forall_nth_error _ _ _ _ I Nt) (Forall_nth_error _ _ _ _ Rq Nt)) as C.
    destruct (csection st ti) as [[st1 t1] ev].
    destruct C as [F [I1 [R1 C]]].
    destruct (crun st1 (set_nth ths i t1) sched) as [[st2 ths2] evs2] eqn:Run.
    injection H as <- <- <-.
    assert (I2 : Forall (tinv (r_funs st1)) (set_nth ths i t1)) by (rewrite F; now apply Forall_set_nth).
    assert (R2 : Forall requests_only (set_nth ths i t1)) by now apply Forall_set_nth.
    destruct (Nat.eq_dec i k) as [->|Hne].
    + rewrite Nt in Nk. injection Nk as <-.
      destruct (IH st1 _ st2 ths2 evs2 I2 R2 Run k t1 (nth_error_set_nth_same ths k ti t1 Nt)) as [t' [N' E']].
      exists t'. split; [exact N'|].
      destruct ev as [[[op r] lg]|].
      * destruct C as [C _]. cbn [filter ev_tid fst]. rewrite Nat.eqb_refl. cbn [map ev_op fst snd app].
        rewrite C, E'. reflexivity.
      * destruct C as [_ C]. now rewrite <- C.
    + assert (Nk' : nth_error (set_nth ths i t1) k = Some t) by now rewrite nth_error_set_nth_other.
      destruct (IH st1 _ st2 ths2 evs2 I2 R2 Run k t Nk') as [t' [N' E']].
      exists t'. split; [exact N'|].
      destruct ev as [[[op r] lg]|]; [|exact E'].
      cbn [filter ev_tid fst]. replace (Nat.eqb i k) with false by (symmetry; now apply Nat.eqb_neq). exact E'.
Qed.

Definition fresh_requests (ths : list cthread) : Prop :=
  Forall (fun t => ct_dec t = None /\ forallb is_request (ct_todo t) = true) ths.

Lemma requests_linearizable_proof st ths sched st' ths' evs :
  fresh_requests ths ->
  crun st ths sched = (st', ths', evs) ->
  seq_run st (map ev_op evs) = (st', map ev_out evs) /\
  (forall k t, nth_error ths k = Some t ->
     exists t', nth_error ths' k = Some t' /\
                ct_todo t = map ev_op (filter (fun e => Nat.eqb (ev_tid e) k) evs) ++ ct_todo t').
Proof.
  intros Fr H.
  assert (I : Forall (tinv (r_funs st)) ths).
  { eapply Forall_impl; [|exact Fr]. intros t [D _]. unfold tinv. now rewrite D. }
  assert (Rq : Forall requests_only ths).
  { eapply Forall_impl; [|exact Fr]. intros t [_ R]. exact R. }
  split; [now apply (crun_sequential sched st ths st' ths' evs)|now apply (crun_program_order sched st ths st' ths' evs)].
Qed.
