(** The pointer functions of src/registry.rs: escaping round trips, the one-pass
    unescape is RFC 6901 decoding, the borrowed fast path of [canonical_key]
    agrees with parse + re-escape, and [canonical_pointer] is injective on what
    [parse_pointer] can return. *)
From RepeV Require Import Model.Json Model.Registry Proofs.JsonProofs.
From Coq Require Import ZifyBool ZifyN ZifyNat.
Ltac Zify.zify_post_hook ::= Z.div_mod_to_equations.

Ltac consts := unfold TILDE, SLASH, ZERO, ONE, PLUS in *.

(** ** escaping *)
Lemma escape_token_entoken t : escape_token t = sp_entoken t.
Proof.
  unfold escape_token, sp_entoken.
  induction t as [|b t IH]; cbn [replace1 flat_map]; [reflexivity|].
  destruct (b =? TILDE) eqn:E.
  - cbn [app replace1].
    replace (TILDE =? SLASH) with false by reflexivity. replace (ZERO =? SLASH) with false by reflexivity.
    now rewrite IH.
  - cbn [replace1]. destruct (b =? SLASH) eqn:F; cbn [app]; now rewrite IH.
Qed.

Lemma unescape_go_free t : contains TILDE t = false -> unescape_go t = Some t.
Proof.
  induction t as [|b t IH]; intros H; cbn [unescape_go]; [reflexivity|].
  rewrite contains_cons in H. apply orb_false_iff in H as [H1 H2]. rewrite H1, (IH H2). reflexivity.
Qed.

Lemma unescape_token_go t : unescape_token t = unescape_go t.
Proof.
  unfold unescape_token. destruct (contains TILDE t) eqn:E; [reflexivity|]. symmetry. now apply unescape_go_free.
Qed.

Lemma unescape_go_entoken t : unescape_go (sp_entoken t) = Some t.
Proof.
  unfold sp_entoken. induction t as [|b t IH]; cbn [flat_map]; [reflexivity|].
  destruct (b =? TILDE) eqn:E.
  - apply N.eqb_eq in E. subst. cbn [app unescape_go].
    rewrite N.eqb_refl. replace (ZERO =? ZERO) with true by reflexivity. rewrite IH. reflexivity.
  - destruct (b =? SLASH) eqn:F.
    + apply N.eqb_eq in F. subst. cbn [app unescape_go].
      rewrite N.eqb_refl. replace (ONE =? ZERO) with false by reflexivity.
      replace (ONE =? ONE) with true by reflexivity. rewrite IH. reflexivity.
    + cbn [app unescape_go]. rewrite E, IH. reflexivity.
Qed.

(** tokens round-trip through escaping *)
Lemma escape_unescape t : unescape_token (escape_token t) = Some t.
Proof. rewrite unescape_token_go, escape_token_entoken. apply unescape_go_entoken. Qed.

Lemma entoken_slash_free t : contains SLASH (sp_entoken t) = false.
Proof.
  unfold sp_entoken. induction t as [|b t IH]; cbn [flat_map]; [reflexivity|].
  rewrite contains_app, IH, orb_false_r.
  destruct (b =? TILDE) eqn:E; [reflexivity|]. destruct (b =? SLASH) eqn:F; [reflexivity|].
  cbn. now rewrite F.
Qed.

(** length-bounded induction for the two-characters-at-a-time functions *)
Lemma unescape_go_entoken_inv : forall n e t,
  (length e <= n)%nat -> contains SLASH e = false -> unescape_go e = Some t -> sp_entoken t = e.
Proof.
  induction n as [|n IH]; intros e t Hl Hs H.
  - destruct e; [|cbn in Hl; lia]. cbn in H. injection H as <-. reflexivity.
  - destruct e as [|c e]; [cbn in H; injection H as <-; reflexivity|].
    rewrite contains_cons in Hs. apply orb_false_iff in Hs as [Hc Hs].
    cbn [unescape_go] in H. destruct (c =? TILDE) eqn:E.
    + apply N.eqb_eq in E. subst c.
      destruct e as [|x e]; [discriminate|].
      rewrite contains_cons in Hs. apply orb_false_iff in Hs as [Hx Hs].
      cbn [length] in Hl.
      destruct (x =? ZERO) eqn:F.
      * apply N.eqb_eq in F. subst x. destruct (unescape_go e) as [t'|] eqn:U; [|discriminate].
        cbn in H. injection H as <-. unfold sp_entoken. cbn [flat_map].
        rewrite N.eqb_refl. cbn [app]. f_equal. f_equal. apply (IH e t'); [lia|assumption|assumption].
      * destruct (x =? ONE) eqn:G; [|discriminate].
        apply N.eqb_eq in G. subst x. destruct (unescape_go e) as [t'|] eqn:U; [|discriminate].
        cbn in H. injection H as <-. unfold sp_entoken. cbn [flat_map].
        replace (SLASH =? TILDE) with false by reflexivity. rewrite N.eqb_refl. cbn [app].
        f_equal. f_equal. apply (IH e t'); [lia|assumption|assumption].
    + destruct (unescape_go e) as [t'|] eqn:U; [|discriminate].
      cbn in H. injection H as <-. unfold sp_entoken. cbn [flat_map]. rewrite E, Hc. cbn [app].
      f_equal. cbn [length] in Hl. apply (IH e t'); [lia|assumption|assumption].
Qed.

(** a well-formed escaped token (no '/', every '~' followed by '0' or '1') is
    the escaping of what it decodes to *)
Lemma unescape_escape e t : contains SLASH e = false -> unescape_token e = Some t -> escape_token t = e.
Proof.
  intros Hs H. rewrite unescape_token_go in H. rewrite escape_token_entoken.
  now apply (unescape_go_entoken_inv (length e) e t).
Qed.

Lemma escape_free t : contains TILDE t = false -> contains SLASH t = false -> escape_token t = t.
Proof. intros H1 H2. unfold escape_token. rewrite (replace1_free _ _ _ H1). now apply replace1_free. Qed.

(** ** the one-pass unescape is RFC 6901 decoding ("~1" to "/", then "~0" to "~") *)
Lemma unescape_go_rfc : forall n t, (length t <= n)%nat ->
  unescape_go t = sp_untoken t.
Proof.
  unfold sp_untoken.
  induction n as [|n IH]; intros t Hl.
  - destruct t; [reflexivity|cbn in Hl; lia].
  - destruct t as [|c t]; [reflexivity|]. cbn [length] in Hl.
    cbn [unescape_go esc_wf]. destruct (c =? TILDE) eqn:E.
    + apply N.eqb_eq in E. subst c. destruct t as [|x t]; [reflexivity|]. cbn [length] in Hl.
      destruct (x =? ZERO) eqn:F.
      * apply N.eqb_eq in F. subst x. cbn [orb andb]. rewrite (IH t) by lia.
        destruct (esc_wf t); [|reflexivity]. cbn [option_map].
        rewrite (replace2_cons_other2 TILDE ONE SLASH ZERO) by (consts; lia).
        rewrite (replace2_cons_other TILDE ONE SLASH ZERO) by (consts; lia).
        rewrite replace2_hit. reflexivity.
      * destruct (x =? ONE) eqn:G.
        -- apply N.eqb_eq in G. subst x. cbn [orb andb]. rewrite (IH t) by lia.
           destruct (esc_wf t); [|reflexivity]. cbn [option_map].
           rewrite replace2_hit. rewrite (replace2_cons_other TILDE ZERO TILDE SLASH) by (consts; lia).
           reflexivity.
        -- reflexivity.
    + rewrite (IH t) by lia. destruct (esc_wf t); [|reflexivity]. cbn [option_map].
      assert (Hc : c <> TILDE) by now apply N.eqb_neq.
      rewrite (replace2_cons_other TILDE ONE SLASH c) by assumption.
      rewrite (replace2_cons_other TILDE ZERO TILDE c) by assumption. reflexivity.
Qed.

Lemma unescape_token_rfc t : unescape_token t = sp_untoken t.
Proof. rewrite unescape_token_go. apply (unescape_go_rfc (length t)). lia. Qed.

Lemma unescape_go_nonempty t u : unescape_go t = Some u -> u = [] -> t = [].
Proof.
  intros H ->. destruct t as [|c t]; [reflexivity|]. cbn [unescape_go] in H.
  destruct (c =? TILDE).
  - destruct t as [|x t]; [discriminate|].
    destruct (x =? ZERO); [destruct (unescape_go t); discriminate|].
    destruct (x =? ONE); [destruct (unescape_go t); discriminate|discriminate].
  - destruct (unescape_go t); discriminate.
Qed.

(** ** [parse_pointer] is the specification's decoding *)
Lemma map_unescape_rfc l : map unescape_token l = map sp_untoken l.
Proof. apply map_ext. exact unescape_token_rfc. Qed.

Lemma parse_pointer_spec p :
  parse_pointer p = match sp_decode p with Some path => Ok path | None => Err EInvalidPointer end.
Proof.
  unfold parse_pointer, sp_decode. destruct p as [|c rest]; [reflexivity|].
  cbn [is_root_ptr]. destruct rest as [|x rest].
  - destruct (c =? SLASH); reflexivity.
  - destruct (c =? SLASH); [|reflexivity]. rewrite map_unescape_rfc.
    destruct (collect_opt _); reflexivity.
Qed.

Lemma parse_registration_path_spec p :
  parse_registration_path p = match sp_decode_reg p with Some path => Ok path | None => Err EInvalidPointer end.
Proof.
  unfold parse_registration_path, sp_decode_reg. destruct p as [|c rest]; [reflexivity|].
  cbn [starts_with]. destruct (c =? SLASH); apply parse_pointer_spec.
Qed.

(** ** [canonical_pointer] *)
Lemma flat_map_join l :
  l <> [] -> flat_map (fun s => SLASH :: escape_token s) l = SLASH :: join SLASH (map escape_token l).
Proof.
  induction l as [|t l IH]; intros Hne; [contradiction|].
  cbn [flat_map map join]. destruct l as [|t' l'].
  - cbn. now rewrite app_nil_r.
  - cbn [map]. rewrite IH by discriminate. cbn [app map]. reflexivity.
Qed.

Lemma canonical_pointer_join segs :
  segs <> [] -> canonical_pointer segs = SLASH :: join SLASH (map escape_token segs).
Proof.
  destruct segs as [|s segs]; [contradiction|]. intros _.
  unfold canonical_pointer. apply flat_map_join. discriminate.
Qed.

Lemma canonical_pointer_encode segs : canonical_pointer segs = sp_encode segs.
Proof.
  unfold canonical_pointer, sp_encode. destruct segs as [|s segs]; [reflexivity|].
  generalize (s :: segs). intros l. rewrite flat_map_concat_map. f_equal.
  apply map_ext. intros t. now rewrite escape_token_entoken.
Qed.

Lemma collect_opt_map_some {A B} (f : A -> option B) (g : A -> B) l :
  (forall x, In x l -> f x = Some (g x)) -> collect_opt (map f l) = Some (map g l).
Proof.
  induction l as [|x l IH]; intros H; cbn [map collect_opt]; [reflexivity|].
  rewrite (H x (or_introl eq_refl)), IH; [reflexivity|]. intros y Hy. apply H. now right.
Qed.

(** the fast path of [canonical_key] (borrow the pointer when it has no '~')
    computes exactly what the slow path (parse + re-escape) computes, errors included *)
Lemma canonical_key_agrees p :
  canonical_key p = match parse_pointer p with Ok segs => Ok (canonical_pointer segs) | Err e => Err e end.
Proof.
  unfold canonical_key. destruct (is_root_ptr p) eqn:R.
  - unfold parse_pointer. rewrite R. reflexivity.
  - destruct (starts_with SLASH p) eqn:S; cbn [negb].
    + destruct (contains TILDE p) eqn:T; cbn [negb]; [reflexivity|].
      unfold parse_pointer. rewrite R. destruct p as [|c rest]; [discriminate|].
      cbn [starts_with] in S. rewrite S. apply N.eqb_eq in S. subst c.
      rewrite contains_cons in T. apply orb_false_iff in T as [_ T].
      rewrite (collect_opt_map_some unescape_token (fun t => t)).
      * rewrite map_id. rewrite canonical_pointer_join by apply split_on_nonempty.
        assert (M : map escape_token (split_on SLASH rest) = split_on SLASH rest);
          [|rewrite M, join_split; reflexivity].
        rewrite <- (map_id (split_on SLASH rest)) at 2. apply map_ext_in. intros t Ht.
        apply escape_free.
        -- destruct (contains TILDE t) eqn:C; [|reflexivity].
           rewrite (contains_split_piece _ _ _ Ht _ C) in T. discriminate.
        -- pose proof (split_pieces_free SLASH rest) as F. rewrite Forall_forall in F. now apply F.
      * intros t Ht. unfold unescape_token.
        destruct (contains TILDE t) eqn:C; [|reflexivity].
        rewrite (contains_split_piece _ _ _ Ht _ C) in T. discriminate.
    + unfold parse_pointer. rewrite R. destruct p as [|c rest]; [discriminate|].
      cbn [starts_with] in S. rewrite S. reflexivity.
Qed.

(** what [parse_pointer] returns is never the one empty token *)
Lemma collect_opt_length {A} (l : list (option A)) r : collect_opt l = Some r -> length r = length l.
Proof.
  revert r; induction l as [|[x|] l IH]; intros r H; cbn [collect_opt] in H; try discriminate.
  - injection H as <-. reflexivity.
  - destruct (collect_opt l) eqn:E; [|discriminate]. cbn in H. injection H as <-. cbn. f_equal. now apply IH.
Qed.

Lemma parse_pointer_not_single_empty p segs : parse_pointer p = Ok segs -> segs <> [[]].
Proof.
  unfold parse_pointer. destruct (is_root_ptr p) eqn:R; [intros [= <-]; discriminate|].
  destruct p as [|c rest]; [discriminate|]. destruct (c =? SLASH) eqn:S; [|discriminate].
  destruct (collect_opt _) as [l|] eqn:C; [|discriminate]. intros [= <-] ->.
  pose proof (collect_opt_length _ _ C) as L. rewrite map_length in L.
  destruct (split_on SLASH rest) as [|t [|t' ts]] eqn:Sp; cbn in L; try lia.
  cbn [map collect_opt] in C. destruct (unescape_token t) eqn:U; [|discriminate].
  cbn in C. injection C as ->. rewrite unescape_token_go in U.
  pose proof (unescape_go_nonempty _ _ U eq_refl) as ->.
  pose proof (join_split SLASH rest) as J. rewrite Sp in J. cbn in J. subst rest.
  apply N.eqb_eq in S. subst c. discriminate.
Qed.

Lemma escape_token_nonempty t : t <> [] -> escape_token t <> [].
Proof.
  rewrite escape_token_entoken. destruct t as [|b t]; [contradiction|]. intros _.
  unfold sp_entoken. cbn [flat_map]. destruct (b =? TILDE); [discriminate|]. destruct (b =? SLASH); discriminate.
Qed.

(** parsing the canonical pointer gives the tokens back *)
Lemma parse_canonical segs : segs <> [[]] -> parse_pointer (canonical_pointer segs) = Ok segs.
Proof.
  intros Hne. destruct segs as [|s segs]; [reflexivity|].
  rewrite canonical_pointer_join by discriminate.
  unfold parse_pointer.
  assert (Hj : join SLASH (map escape_token (s :: segs)) <> []).
  { cbn [map join]. destruct segs as [|s' segs'].
    - cbn [map]. apply escape_token_nonempty. intros ->. now apply Hne.
    - cbn [map]. intros H. apply app_eq_nil in H as [_ H]. discriminate. }
  destruct (join SLASH (map escape_token (s :: segs))) as [|x r] eqn:J; [contradiction|].
  cbn [is_root_ptr]. rewrite N.eqb_refl. rewrite <- J.
  rewrite split_join.
  - rewrite map_map. rewrite (collect_opt_map_some _ (fun t => t)); [now rewrite map_id|].
    intros t _. apply escape_unescape.
  - discriminate.
  - apply Forall_forall. intros t Ht. apply in_map_iff in Ht as [u [<- _]].
    rewrite escape_token_entoken. apply entoken_slash_free.
Qed.

Lemma canonical_pointer_inj a b :
  a <> [[]] -> b <> [[]] -> canonical_pointer a = canonical_pointer b -> a = b.
Proof.
  intros Ha Hb H. pose proof (parse_canonical a Ha) as Pa. rewrite H, (parse_canonical b Hb) in Pa. congruence.
Qed.

Lemma path_eqb_eq a b : path_eqb a b = true <-> a = b.
Proof.
  revert b; induction a as [|x a IH]; intros [|y b]; cbn [path_eqb]; try (split; [discriminate|discriminate]).
  - split; reflexivity.
  - rewrite andb_true_iff, str_eqb_eq, IH. split; [intros [-> ->]; reflexivity|intros E; inversion E; auto].
Qed.

Lemma canonical_pointer_eqb a b :
  a <> [[]] -> b <> [[]] -> str_eqb (canonical_pointer a) (canonical_pointer b) = path_eqb a b.
Proof.
  intros Ha Hb. destruct (path_eqb a b) eqn:E.
  - apply path_eqb_eq in E. subst. apply str_eqb_refl.
  - apply str_eqb_neq. intros H. apply canonical_pointer_inj in H; try assumption.
    subst. assert (path_eqb b b = true) by now apply path_eqb_eq. congruence.
Qed.
