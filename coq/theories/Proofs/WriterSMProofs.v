(** Proofs about the writer state machine (Model/WriterSM.v). *)
From RepeV Require Import Model.WriterSM Proofs.HeaderProofs Proofs.MessageProofs.
From Coq Require Import ZifyBool ZifyN ZifyNat.
Ltac Zify.zify_post_hook ::= Z.div_mod_to_equations.

(** * generic list lemmas *)

Inductive subseq {A} : list A -> list A -> Prop :=
| sub_nil l : subseq [] l
| sub_skip a x l : subseq a l -> subseq a (x :: l)
| sub_take a x l : subseq a l -> subseq (x :: a) (x :: l).

Lemma subseq_refl {A} (l : list A) : subseq l l.
Proof. induction l as [|x l IH]; [apply sub_nil|apply sub_take; exact IH]. Qed.

Lemma subseq_app_l {A} (p a l : list A) : subseq a l -> subseq (p ++ a) (p ++ l).
Proof. intros H. induction p as [|x p IH]; cbn [app]; [exact H|]. apply sub_take. exact IH. Qed.

Lemma subseq_trans {A} (a b c : list A) : subseq a b -> subseq b c -> subseq a c.
Proof.
  intros Hab Hbc. revert a Hab.
  induction Hbc as [l|b x l Hbc IH|b x l Hbc IH]; intros a Hab.
  - inversion Hab; subst. apply sub_nil.
  - apply sub_skip. apply IH. exact Hab.
  - inversion Hab as [l'|a' x' l' Hab'|a' x' l' Hab']; subst.
    + apply sub_nil.
    + apply sub_skip. apply IH. exact Hab'.
    + apply sub_take. apply IH. exact Hab'.
Qed.

Lemma subseq_drop_mid {A} (p : list A) x l : subseq (p ++ l) (p ++ x :: l).
Proof. apply subseq_app_l. apply sub_skip. apply subseq_refl. Qed.

Lemma forallb_subseq {A} (P : A -> bool) (a l : list A) :
  subseq a l -> forallb P l = true -> forallb P a = true.
Proof.
  intros H. induction H as [l|a x l H IH|a x l H IH]; cbn [forallb]; intros HP.
  - reflexivity.
  - apply andb_true_iff in HP as [_ HP]. exact (IH HP).
  - apply andb_true_iff in HP as [Hx HP]. rewrite Hx, (IH HP). reflexivity.
Qed.

Lemma forallb_snoc {A} (P : A -> bool) l x : forallb P (l ++ [x]) = forallb P l && P x.
Proof. rewrite forallb_app. cbn [forallb]. rewrite andb_true_r. reflexivity. Qed.

Lemma forallb_map {A B} (f : A -> B) (P : B -> bool) l :
  forallb P (map f l) = forallb (fun x => P (f x)) l.
Proof. induction l as [|x l IH]; cbn [map forallb]; [reflexivity|]. rewrite IH. reflexivity. Qed.

(** * keys and the per-writer order *)

Definition key : Set := (N * N)%type.
Definition seg_key (s : seg) : key := (sg_w s, sg_seq s).
Definition item_key (it : item) : key := (it_w it, it_seq it).

Fixpoint kordered (l : list key) : bool :=
  match l with
  | [] => true
  | k :: rest =>
      forallb (fun t => negb (fst t =? fst k) || (snd k <? snd t)) rest && kordered rest
  end.

Lemma ordered_keys wire : ordered wire = kordered (map seg_key wire).
Proof.
  induction wire as [|s wire IH]; cbn [ordered kordered map]; [reflexivity|].
  rewrite IH. f_equal. rewrite forallb_map. reflexivity.
Qed.

Lemma kordered_subseq a l : subseq a l -> kordered l = true -> kordered a = true.
Proof.
  intros H. induction H as [l|a x l H IH|a x l H IH]; cbn [kordered]; intros HK.
  - reflexivity.
  - apply andb_true_iff in HK as [_ HK]. exact (IH HK).
  - apply andb_true_iff in HK as [Hx HK]. rewrite (IH HK), andb_true_r.
    exact (forallb_subseq _ _ _ H Hx).
Qed.

(** * the cursor *)

Lemma cget_cset c w v w' : cget (cset c w v) w' = if w =? w' then v else cget c w'.
Proof.
  induction c as [|[w0 v0] c IH]; cbn [cset cget].
  - reflexivity.
  - destruct (N.eqb_spec w0 w) as [E|E].
    + subst w0. cbn [cget]. destruct (N.eqb_spec w w'); reflexivity.
    + cbn [cget]. rewrite IH. destruct (N.eqb_spec w0 w') as [E1|E1]; [|reflexivity].
      subst w0. destruct (N.eqb_spec w w'); [congruence|reflexivity].
Qed.

(** * the schedule resolved into turns *)

Definition item_intended (lens : list (list N)) (it : item) : Prop :=
  nth_error (nth (N.to_nat (it_w it)) lens []) (N.to_nat (it_seq it)) = Some (it_len it).

Lemma picks_intended lens sched : forall cur, Forall (item_intended lens) (picks lens cur sched).
Proof.
  induction sched as [|[w ev] sched IH]; intros cur; cbn [picks]; [constructor|].
  destruct (nth_error _ _) as [len|] eqn:E; [|apply IH].
  constructor; [|apply IH]. unfold item_intended. cbn [it_w it_seq it_len]. exact E.
Qed.

Lemma picks_ordered lens sched : forall cur,
  kordered (map item_key (picks lens cur sched)) = true /\
  Forall (fun it => cget cur (it_w it) <= it_seq it) (picks lens cur sched).
Proof.
  induction sched as [|[w ev] sched IH]; intros cur; cbn [picks]; [split; [reflexivity|constructor]|].
  destruct (nth_error _ _) as [len|] eqn:E; [|apply IH].
  destruct (IH (cset cur w (cget cur w + 1))) as [IH1 IH2].
  cbn [map kordered]. split.
  - rewrite IH1, andb_true_r. rewrite forallb_map. apply forallb_forall.
    intros it Hin. rewrite Forall_forall in IH2. specialize (IH2 it Hin).
    unfold item_key. cbn [fst snd it_w it_seq].
    rewrite cget_cset in IH2. destruct (N.eqb_spec w (it_w it)) as [E1|E1].
    + subst w. rewrite N.eqb_refl. cbn [negb orb]. lia.
    + destruct (N.eqb_spec (it_w it) w); [congruence|reflexivity].
  - constructor; [cbn [it_w it_seq]; lia|].
    rewrite Forall_forall in *. intros it Hin. specialize (IH2 it Hin).
    rewrite cget_cset in IH2. destruct (N.eqb_spec w (it_w it)) as [E1|E1]; [subst w|]; lia.
Qed.

(** * turns *)

Lemma turn_broken pol e s it : w_broken s = true -> turn pol e s it = (s, false).
Proof. intros H. unfold turn. rewrite H. reflexivity. Qed.

Lemma run_broken pol e s its :
  w_broken s = true -> run pol e s its = (s, repeat false (length its)).
Proof.
  intros H. induction its as [|it its IH]; cbn [run length repeat]; [reflexivity|].
  rewrite (turn_broken _ _ _ _ H), IH. reflexivity.
Qed.

Lemma run_cons pol e s it its :
  run pol e s (it :: its)
  = (fst (run pol e (fst (turn pol e s it)) its),
     snd (turn pol e s it) :: snd (run pol e (fst (turn pol e s it)) its)).
Proof.
  cbn [run]. destruct (turn pol e s it) as [s1 r]. cbn [fst snd].
  destruct (run pol e s1 its) as [s2 rs]. reflexivity.
Qed.

Lemma run_app pol e s a b :
  run pol e s (a ++ b)
  = (fst (run pol e (fst (run pol e s a)) b),
     snd (run pol e s a) ++ snd (run pol e (fst (run pol e s a)) b)).
Proof.
  revert s. induction a as [|it a IH]; intros s; cbn [app].
  - cbn [run fst snd app]. destruct (run pol e s b); reflexivity.
  - rewrite !run_cons. cbn [fst snd]. rewrite IH. cbn [fst snd app]. reflexivity.
Qed.

(** what one turn appends *)
Definition turn_ext (pol : endpoint -> policy) (e : endpoint) (s : wstate) (it : item) : list seg :=
  if w_broken s then [] else
  match it_ev it with
  | Whole => [mkSeg (it_w it) (it_seq it) (it_len it) (it_len it)]
  | Cut k =>
      if atomic_send e then
        (if k =? 0 then [] else [mkSeg (it_w it) (it_seq it) (it_len it) (it_len it)])
      else (if N.min k (it_len it) =? 0 then []
            else [mkSeg (it_w it) (it_seq it) (it_len it) (N.min k (it_len it))])
  end.

Lemma turn_wire pol e s it :
  w_wire (fst (turn pol e s it)) = w_wire s ++ turn_ext pol e s it.
Proof.
  unfold turn, turn_ext. destruct (w_broken s); cbn [fst]; [rewrite app_nil_r; reflexivity|].
  destruct (it_ev it) as [|k]; cbn [fst w_wire]; [reflexivity|].
  destruct (atomic_send e); cbn [fst w_wire]; reflexivity.
Qed.

Lemma turn_ext_cases pol e s it :
  turn_ext pol e s it = [] \/
  exists k, turn_ext pol e s it = [mkSeg (it_w it) (it_seq it) (it_len it) k] /\
            k <= it_len it /\ (it_len it <> 0 -> k <> 0).
Proof.
  unfold turn_ext. destruct (w_broken s); [left; reflexivity|].
  destruct (it_ev it) as [|k].
  - right. exists (it_len it). split; [reflexivity|]. lia.
  - destruct (atomic_send e).
    + destruct (k =? 0); [left; reflexivity|]. right. exists (it_len it). split; [reflexivity|]. lia.
    + destruct (N.min k (it_len it) =? 0) eqn:E; [left; reflexivity|].
      right. exists (N.min k (it_len it)). split; [reflexivity|]. lia.
Qed.

(** * lock-acquisition order: the wire's frames are a subsequence of the turns *)

Lemma run_keys pol e its : forall s,
  subseq (map seg_key (w_wire (fst (run pol e s its))))
         (map seg_key (w_wire s) ++ map item_key its).
Proof.
  induction its as [|it its IH]; intros s.
  - cbn [run fst map]. rewrite app_nil_r. apply subseq_refl.
  - rewrite run_cons. cbn [fst map].
    eapply subseq_trans; [apply IH|].
    rewrite turn_wire, map_app, <- app_assoc. apply subseq_app_l.
    destruct (turn_ext_cases pol e s it) as [E|[k [E _]]]; rewrite E; cbn [map app].
    + apply sub_skip. apply subseq_refl.
    + apply subseq_refl.
Qed.

Lemma run_prefix pol e its : forall s,
  exists ext, w_wire (fst (run pol e s its)) = w_wire s ++ ext.
Proof.
  induction its as [|it its IH]; intros s.
  - exists []. cbn [run fst]. rewrite app_nil_r. reflexivity.
  - rewrite run_cons. cbn [fst]. destruct (IH (fst (turn pol e s it))) as [ext H].
    rewrite H, turn_wire, <- app_assoc. eexists. reflexivity.
Qed.

(** * shape of the wire under the policy [Close] *)

Lemma seg_whole_mk w sq len : seg_whole (mkSeg w sq len len) = true.
Proof. unfold seg_whole. cbn [sg_k sg_len]. apply N.eqb_refl. Qed.

Lemma wtt_snoc l x : forallb seg_whole l = true -> whole_then_torn (l ++ [x]) = true.
Proof.
  induction l as [|y l IH]; cbn [app forallb]; intros H; [reflexivity|].
  apply andb_true_iff in H as [Hy H]. specialize (IH H).
  cbn [whole_then_torn]. destruct (l ++ [x]) eqn:E.
  - destruct l; discriminate.
  - rewrite Hy. exact IH.
Qed.

Lemma wtt_all l : forallb seg_whole l = true -> whole_then_torn l = true.
Proof.
  induction l as [|y l IH]; cbn [forallb]; intros H; [reflexivity|].
  apply andb_true_iff in H as [Hy H]. specialize (IH H).
  cbn [whole_then_torn]. destruct l; [reflexivity|]. rewrite Hy. exact IH.
Qed.

Lemma has_torn_all l : has_torn l = negb (forallb seg_whole l).
Proof.
  unfold has_torn. induction l as [|y l IH]; cbn [existsb forallb]; [reflexivity|].
  rewrite IH. destruct (seg_whole y), (forallb seg_whole l); reflexivity.
Qed.

Lemma wtt_shape l :
  whole_then_torn l = true ->
  exists whole torn, l = whole ++ torn /\ forallb seg_whole whole = true /\
    (torn = [] \/ exists t, torn = [t] /\ seg_whole t = false).
Proof.
  induction l as [|x l IH]; intros H.
  - exists [], []. repeat split. left. reflexivity.
  - destruct l as [|y l].
    + destruct (seg_whole x) eqn:E.
      * exists [x], []. cbn [forallb]. rewrite E. repeat split. left. reflexivity.
      * exists [], [x]. repeat split. right. exists x. split; [reflexivity|exact E].
    + cbn [whole_then_torn] in H. apply andb_true_iff in H as [Hx H].
      destruct (IH H) as (whole & torn & E & Hw & Ht).
      exists (x :: whole), torn. rewrite E. cbn [forallb app]. rewrite Hx, Hw. repeat split. exact Ht.
Qed.

(** the invariant: no torn frame so far, or the connection is failed *)
Definition J (s : wstate) : Prop :=
  forallb seg_whole (w_wire s) = true \/
  (w_broken s = true /\ whole_then_torn (w_wire s) = true).

Lemma J_w0 : J w0.
Proof. left. reflexivity. Qed.

Lemma J_turn e s it : J s -> J (fst (turn after_interrupt e s it)).
Proof.
  intros HJ. unfold turn. destruct (w_broken s) eqn:B; [exact HJ|].
  destruct HJ as [HJ|[HJ _]]; [|congruence].
  destruct (it_ev it) as [|k]; cbn [fst].
  - left. cbn [w_wire]. rewrite forallb_snoc, HJ, seg_whole_mk. reflexivity.
  - destruct (atomic_send e); cbn [fst].
    + left. cbn [w_wire]. destruct (k =? 0); [rewrite app_nil_r; exact HJ|].
      rewrite forallb_snoc, HJ, seg_whole_mk. reflexivity.
    + destruct (N.min k (it_len it) =? 0).
      * left. cbn [w_wire]. rewrite app_nil_r. exact HJ.
      * right. cbn [w_wire w_broken]. split; [destruct e; reflexivity|]. apply wtt_snoc. exact HJ.
Qed.

Lemma J_run e its : forall s, J s -> J (fst (run after_interrupt e s its)).
Proof.
  induction its as [|it its IH]; intros s HJ; [exact HJ|].
  rewrite run_cons. cbn [fst]. apply IH. apply J_turn. exact HJ.
Qed.

Lemma J_wtt s : J s -> whole_then_torn (w_wire s) = true.
Proof. intros [H|[_ H]]; [apply wtt_all; exact H|exact H]. Qed.

Lemma J_torn_broken s : J s -> has_torn (w_wire s) = true -> w_broken s = true.
Proof.
  intros [H|[H _]] Ht; [|exact H]. rewrite has_torn_all, H in Ht. discriminate.
Qed.

(** * a torn frame is the last thing on the connection *)

Lemma cut_breaks e s w sq len k :
  atomic_send e = false -> w_broken s = false ->
  w_broken (fst (turn after_interrupt e s (mkItem w sq len (Cut k)))) = true.
Proof.
  intros Ha Hb. unfold turn. rewrite Hb. cbn [it_ev]. rewrite Ha. cbn [fst w_broken].
  destruct e; reflexivity.
Qed.

Lemma torn_is_last e s w sq len k its :
  atomic_send e = false -> w_broken s = false ->
  let s1 := fst (turn after_interrupt e s (mkItem w sq len (Cut k))) in
  run after_interrupt e s1 its = (s1, repeat false (length its)).
Proof.
  intros Ha Hb s1. apply run_broken. apply cut_breaks; assumption.
Qed.

(** * the oracle accepts the model *)

Lemma intended_of_item lens it k :
  item_intended lens it -> intended lens (mkSeg (it_w it) (it_seq it) (it_len it) k) = true.
Proof.
  unfold item_intended, intended. cbn [sg_w sg_seq sg_len]. intros ->. apply N.eqb_refl.
Qed.

Definition seg_fine (lens : list (list N)) (s : seg) : bool :=
  intended lens s && ((0 <? sg_k s) && (sg_k s <=? sg_len s)).

Lemma run_segs_fine lens pol e its : forall s,
  Forall (item_intended lens) its -> Forall (fun it => 48 <= it_len it) its ->
  forallb (seg_fine lens) (w_wire s) = true ->
  forallb (seg_fine lens) (w_wire (fst (run pol e s its))) = true.
Proof.
  induction its as [|it its IH]; intros s Hi Hl Hs; [exact Hs|].
  rewrite run_cons. cbn [fst]. inversion Hi as [|x xs Hi1 Hi2]; subst x xs.
  inversion Hl as [|x xs Hl1 Hl2]; subst x xs.
  apply IH; [exact Hi2|exact Hl2|].
  rewrite turn_wire, forallb_app, Hs. cbn [andb].
  destruct (turn_ext_cases pol e s it) as [E|[k [E [Hk1 Hk2]]]]; rewrite E; [reflexivity|].
  cbn [forallb]. rewrite andb_true_r. unfold seg_fine.
  rewrite (intended_of_item lens it k Hi1). cbn [sg_k sg_len andb]. lia.
Qed.

Lemma wf_lens_items lens its :
  forallb (forallb (fun l => 48 <=? l)) lens = true ->
  Forall (item_intended lens) its -> Forall (fun it => 48 <= it_len it) its.
Proof.
  intros Hw Hi. rewrite Forall_forall in *. intros it Hin. specialize (Hi it Hin).
  unfold item_intended in Hi. apply nth_error_In in Hi.
  rewrite forallb_forall in Hw.
  destruct (Nat.lt_ge_cases (N.to_nat (it_w it)) (length lens)) as [Hlt|Hge].
  - specialize (Hw _ (nth_In lens [] Hlt)). rewrite forallb_forall in Hw.
    specialize (Hw _ Hi). lia.
  - rewrite nth_overflow in Hi by exact Hge. contradiction.
Qed.

(** results: a successful turn put its whole frame on the wire *)
Lemma on_wire_whole_app wire ext w sq :
  on_wire_whole wire w sq = true -> on_wire_whole (wire ++ ext) w sq = true.
Proof. unfold on_wire_whole. rewrite existsb_app. intros ->. reflexivity. Qed.

Lemma turn_ok_on_wire pol e s it :
  snd (turn pol e s it) = true ->
  on_wire_whole (w_wire (fst (turn pol e s it))) (it_w it) (it_seq it) = true.
Proof.
  unfold turn. destruct (w_broken s); cbn [snd]; [discriminate|].
  destruct (it_ev it) as [|k]; cbn [fst snd].
  - intros _. cbn [w_wire]. unfold on_wire_whole. rewrite existsb_app. cbn [existsb sg_w sg_seq].
    rewrite !N.eqb_refl, seg_whole_mk. cbn [andb orb]. apply orb_true_r.
  - destruct (atomic_send e); cbn [snd]; discriminate.
Qed.

Definition res_ok (wire : list seg) (r : N * N * bool) : bool :=
  match r with (w, sq, ok) => negb ok || on_wire_whole wire w sq end.

Lemma res_ok_app wire ext r : res_ok wire r = true -> res_ok (wire ++ ext) r = true.
Proof.
  destruct r as [[w sq] ok]. cbn [res_ok]. destruct ok; cbn [negb orb]; [|reflexivity].
  apply on_wire_whole_app.
Qed.

Lemma run_results_ok pol e its : forall s,
  forallb (res_ok (w_wire (fst (run pol e s its)))) (results its (snd (run pol e s its))) = true.
Proof.
  induction its as [|it its IH]; intros s; [reflexivity|].
  rewrite run_cons. cbn [fst snd]. unfold results. cbn [combine map forallb fst snd].
  fold (results its (snd (run pol e (fst (turn pol e s it)) its))).
  rewrite IH, andb_true_r.
  destruct (snd (turn pol e s it)) eqn:E; cbn [res_ok negb orb]; [|reflexivity].
  destruct (run_prefix pol e its (fst (turn pol e s it))) as [ext ->].
  apply on_wire_whole_app. apply turn_ok_on_wire. exact E.
Qed.

(** probes *)
Fixpoint items_wf (pf : N) (seen : bool) (its : list item) : bool :=
  match its with
  | [] => true
  | it :: its' =>
      if pf <=? it_w it then
        (match it_ev it with Whole => true | Cut _ => false end) && items_wf pf true its'
      else negb seen && items_wf pf seen its'
  end.

Lemma items_wf_weaken pf its : items_wf pf true its = true -> items_wf pf false its = true.
Proof.
  induction its as [|it its IH]; cbn [items_wf]; [reflexivity|].
  destruct (pf <=? it_w it); [intros H; exact H|cbn [negb andb]; discriminate].
Qed.

Lemma picks_wf lens pf sched : forall seen cur,
  sched_wf pf seen sched = true -> items_wf pf seen (picks lens cur sched) = true.
Proof.
  induction sched as [|[w ev] sched IH]; intros seen cur; cbn [sched_wf picks]; [reflexivity|].
  destruct (nth_error _ _) as [len|].
  - cbn [items_wf it_w it_ev]. destruct (pf <=? w).
    + intros H. apply andb_true_iff in H as [H1 H2]. rewrite H1. cbn [andb]. apply IH. exact H2.
    + intros H. apply andb_true_iff in H as [H1 H2]. rewrite H1. cbn [andb]. apply IH. exact H2.
  - destruct (pf <=? w).
    + intros H. apply andb_true_iff in H as [_ H2]. specialize (IH true cur H2).
      destruct seen; [exact IH|apply items_wf_weaken; exact IH].
    + intros H. apply andb_true_iff in H as [_ H2]. apply IH. exact H2.
Qed.

(** probe turns only (all [Whole]) on a sound connection leave it sound *)
Lemma run_probes_sound pf pol e its : forall s,
  items_wf pf true its = true -> w_broken s = false ->
  forallb seg_whole (w_wire s) = true ->
  forallb seg_whole (w_wire (fst (run pol e s its))) = true.
Proof.
  induction its as [|it its IH]; intros s Hwf Hb Hs; [exact Hs|].
  rewrite run_cons. cbn [fst]. cbn [items_wf] in Hwf.
  destruct (pf <=? it_w it); [|discriminate].
  apply andb_true_iff in Hwf as [Hev Hwf]. destruct (it_ev it) eqn:Ev; [|discriminate].
  apply IH; [exact Hwf| |]; unfold turn; rewrite Hb, Ev; cbn [fst w_broken w_wire]; [reflexivity|].
  rewrite forallb_snoc, Hs, seg_whole_mk. reflexivity.
Qed.

Definition probe_res_ok (pf : N) (r : N * N * bool) : bool :=
  match r with (w, _, ok) => negb (pf <=? w) || negb ok end.

Lemma results_repeat_false pf its :
  forallb (probe_res_ok pf) (results its (repeat false (length its))) = true.
Proof.
  induction its as [|it its IH]; [reflexivity|].
  unfold results. cbn [length repeat combine map forallb fst snd probe_res_ok negb].
  fold (results its (repeat false (length its))). rewrite IH, orb_true_r. reflexivity.
Qed.

Lemma run_probes_fail pf e its : forall s,
  items_wf pf false its = true -> J s ->
  forallb (fun sg => negb (pf <=? sg_w sg)) (w_wire s) = true ->
  has_torn (w_wire (fst (run after_interrupt e s its))) = true ->
  forallb (probe_res_ok pf) (results its (snd (run after_interrupt e s its))) = true /\
  forallb (fun sg => negb (pf <=? sg_w sg)) (w_wire (fst (run after_interrupt e s its))) = true.
Proof.
  induction its as [|it its IH]; intros s Hwf HJ Hnp Ht.
  - split; [reflexivity|exact Hnp].
  - cbn [items_wf] in Hwf. destruct (pf <=? it_w it) eqn:Ep.
    + (* first probe turn *)
      apply andb_true_iff in Hwf as [Hev Hwf]. destruct (it_ev it) eqn:Ev; [|discriminate].
      destruct (w_broken s) eqn:B.
      * rewrite (run_broken after_interrupt e s (it :: its) B) in *. cbn [fst snd] in *.
        split; [apply results_repeat_false|exact Hnp].
      * exfalso. destruct HJ as [HJ|[HJ _]]; [|congruence].
        rewrite run_cons in Ht. cbn [fst] in Ht. rewrite has_torn_all in Ht.
        rewrite (run_probes_sound pf after_interrupt e its) in Ht; [discriminate|exact Hwf| |].
        -- unfold turn. rewrite B, Ev. reflexivity.
        -- unfold turn. rewrite B, Ev. cbn [fst w_wire].
           rewrite forallb_snoc, HJ, seg_whole_mk. reflexivity.
    + cbn [negb andb] in Hwf.
      rewrite run_cons in *. cbn [fst snd] in *.
      destruct (IH (fst (turn after_interrupt e s it)) Hwf (J_turn e s it HJ)) as [R1 R2].
      * rewrite turn_wire, forallb_app, Hnp. cbn [andb].
        destruct (turn_ext_cases after_interrupt e s it) as [E|[k [E _]]]; rewrite E; [reflexivity|].
        cbn [forallb sg_w]. rewrite Ep. reflexivity.
      * exact Ht.
      * split; [|exact R2]. unfold results. cbn [combine map forallb fst snd probe_res_ok].
        rewrite Ep. cbn [negb orb andb]. exact R1.
Qed.

Lemma is_server_signals e : is_server e = true -> signals_eof e = true.
Proof. destruct e; cbn; congruence. Qed.

Lemma forallb_ext_in {A} (P Q : A -> bool) l :
  (forall x, P x = Q x) -> forallb P l = forallb Q l.
Proof. intros H. induction l as [|x l IH]; cbn [forallb]; [reflexivity|]. rewrite H, IH. reflexivity. Qed.

Theorem ok_model_C05 c : c05_wf c = true -> ok_C05 c (model_C05 c) = true.
Proof.
  intros Hwf. unfold c05_wf in Hwf. apply andb_true_iff in Hwf as [Hlens Hsched].
  unfold model_C05, model_with.
  set (its := picks (c_lens c) [] (c_sched c)).
  pose proof (picks_intended (c_lens c) (c_sched c) []) as Hint. fold its in Hint.
  pose proof (wf_lens_items _ _ Hlens Hint) as Hlen48.
  pose proof (picks_ordered (c_lens c) (c_sched c) []) as [Hord _]. fold its in Hord.
  pose proof (picks_wf (c_lens c) (c_probe_from c) (c_sched c) false [] Hsched) as Hiwf. fold its in Hiwf.
  pose proof (J_run (c_ep c) its w0 J_w0) as HJ.
  pose proof (run_segs_fine (c_lens c) after_interrupt (c_ep c) its w0 Hint Hlen48 eq_refl) as Hfine.
  pose proof (run_keys after_interrupt (c_ep c) its w0) as Hsub. cbn [w0 w_wire map app] in Hsub.
  pose proof (run_results_ok after_interrupt (c_ep c) its w0) as Hres.
  pose proof (run_probes_fail (c_probe_from c) (c_ep c) its w0 Hiwf J_w0 eq_refl) as Hprobe.
  destruct (run after_interrupt (c_ep c) w0 its) as [s rs] eqn:R. cbn [fst snd] in *.
  unfold ok_C05. cbn [o_wire o_garbage o_res o_eof].
  assert (F1 : forallb (intended (c_lens c)) (w_wire s) = true).
  { apply forallb_forall. intros x Hx. rewrite forallb_forall in Hfine. specialize (Hfine x Hx).
    unfold seg_fine in Hfine. apply andb_true_iff in Hfine as [H _]. exact H. }
  assert (F2 : forallb (fun x => (0 <? sg_k x) && (sg_k x <=? sg_len x)) (w_wire s) = true).
  { apply forallb_forall. intros x Hx. rewrite forallb_forall in Hfine. specialize (Hfine x Hx).
    unfold seg_fine in Hfine. apply andb_true_iff in Hfine as [_ H]. exact H. }
  rewrite F1, F2, (J_wtt s HJ). cbn [andb]. rewrite N.eqb_refl. cbn [andb].
  rewrite ordered_keys, (kordered_subseq _ _ Hsub Hord). cbn [andb].
  replace (forallb _ (results its rs)) with (forallb (res_ok (w_wire s)) (results its rs))
    by (apply forallb_ext_in; intros [[w sq] ok]; reflexivity).
  rewrite Hres. cbn [andb].
  destruct (has_torn (w_wire s)) eqn:Ht; cbn [negb orb]; [|reflexivity].
  destruct (Hprobe eq_refl) as [P1 P2].
  replace (forallb _ (results its rs)) with (forallb (probe_res_ok (c_probe_from c)) (results its rs))
    by (apply forallb_ext_in; intros [[w sq] ok]; reflexivity).
  rewrite P1. cbn [andb].
  replace (forallb _ (w_wire s)) with (forallb (fun sg => negb (c_probe_from c <=? sg_w sg)) (w_wire s))
    by (apply forallb_ext_in; intros x; reflexivity).
  rewrite P2. cbn [andb].
  rewrite (J_torn_broken s HJ Ht). cbn [andb].
  destruct (is_server (c_ep c)) eqn:Es; cbn [negb orb]; [|reflexivity].
  apply is_server_signals. exact Es.
Qed.

(** * re-synchronisation from the declared lengths *)

(** a whole well-formed frame, as the reader sees it: at least the header, and
    as long as its header says *)
Definition wf_frame (f : list byte) : Prop :=
  (48 <= length f)%nat /\ lenN f = 48 + field f 24 8 + field f 32 8.

(** a tail on which the reader stops *)
Definition tail_stops (t : list byte) : Prop :=
  lenN t < 48 \/ lenN t < 48 + field t 24 8 + field t 32 8.

Lemma tail_stops_nil : tail_stops [].
Proof. left. unfold lenN. cbn. lia. Qed.

Lemma tail_stops_prefix f k :
  wf_frame f -> (k < length f)%nat -> tail_stops (firstn k f).
Proof.
  intros [H48 Hlen] Hk. unfold tail_stops, lenN in *. rewrite firstn_length.
  destruct (Nat.lt_ge_cases k 48) as [Hlt|Hge]; [left; lia|right].
  rewrite !field_firstn by lia. lia.
Qed.

Lemma parse_stops fuel t : tail_stops t -> parse_frames_fuel fuel t = ([], t).
Proof.
  intros Ht. destruct fuel as [|fuel]; [reflexivity|]. cbn [parse_frames_fuel].
  destruct (lenN t <? 48) eqn:E1; [reflexivity|].
  destruct Ht as [Ht|Ht]; [lia|].
  replace (lenN t <? 48 + field t 24 8 + field t 32 8) with true by lia. reflexivity.
Qed.

Lemma parse_whole frames : forall fuel tail,
  Forall wf_frame frames -> (length frames <= fuel)%nat -> tail_stops tail ->
  parse_frames_fuel fuel (concat frames ++ tail) = (frames, tail).
Proof.
  induction frames as [|f frames IH]; intros fuel tail Hwf Hfuel Ht.
  - cbn [concat app]. apply parse_stops. exact Ht.
  - inversion Hwf as [|x xs [H48 Hlen] Hwf']; subst x xs.
    destruct fuel as [|fuel]; [cbn [length] in Hfuel; lia|].
    cbn [concat parse_frames_fuel]. rewrite <- app_assoc.
    set (rest := concat frames ++ tail).
    assert (L : lenN (f ++ rest) = lenN f + lenN rest) by (unfold lenN; rewrite app_length; lia).
    replace (lenN (f ++ rest) <? 48) with false by (unfold lenN in *; lia).
    rewrite !field_app_l by lia. rewrite <- Hlen.
    replace (lenN (f ++ rest) <? lenN f) with false by lia.
    unfold lenN at 1 2. rewrite Nat2N.id.
    rewrite skipn_app, skipn_all, Nat.sub_diag. cbn [skipn app].
    rewrite firstn_app, firstn_all, Nat.sub_diag, firstn_O, app_nil_r.
    unfold rest. rewrite IH; [reflexivity|exact Hwf'|cbn [length] in Hfuel; lia|exact Ht].
Qed.

Lemma concat_length_ge frames :
  Forall wf_frame frames -> (length frames <= length (concat frames))%nat.
Proof.
  induction 1 as [|f frames [H48 _] _ IH]; cbn [concat length]; [lia|].
  rewrite app_length. lia.
Qed.

Lemma parse_frames_whole frames tail :
  Forall wf_frame frames -> tail_stops tail ->
  parse_frames (concat frames ++ tail) = (frames, tail).
Proof.
  intros Hwf Ht. unfold parse_frames. apply parse_whole; [exact Hwf| |exact Ht].
  rewrite app_length. pose proof (concat_length_ge frames Hwf). lia.
Qed.

(** the frames of the C01 message model are well-formed in this sense *)
Lemma frame_bytes_wf m : msg_ok m = true -> wf_frame (frame_bytes m).
Proof.
  intros Hok. destruct (msg_ok_parts m Hok) as (Hh & _ & _ & _ & Hq & Hb & _).
  unfold frame_bytes. rewrite write_chunks_concat. unfold wf_frame.
  pose proof (to_vec_length m) as L. split; [lia|].
  unfold to_vec. rewrite !field_app_l by (rewrite encode_length; lia).
  rewrite (f_qlen _ Hh), (f_blen _ Hh), Hq, Hb.
  unfold lenN. unfold to_vec in L. rewrite L. lia.
Qed.

(** the frames agree with the lengths the schedule was built from *)
Definition frames_match (lens : list (list N)) (fr : N -> N -> list byte) : Prop :=
  forall w i len, nth_error (nth (N.to_nat w) lens []) (N.to_nat i) = Some len ->
                  wf_frame (fr w i) /\ lenN (fr w i) = len.

Definition seg_frame (fr : N -> N -> list byte) (s : seg) : list byte := fr (sg_w s) (sg_seq s).

Lemma render_app fr a b : render fr (a ++ b) = render fr a ++ render fr b.
Proof. unfold render. rewrite map_app, concat_app. reflexivity. Qed.

Lemma render_whole lens fr whole :
  frames_match lens fr ->
  forallb (seg_fine lens) whole = true -> forallb seg_whole whole = true ->
  render fr whole = concat (map (seg_frame fr) whole) /\ Forall wf_frame (map (seg_frame fr) whole).
Proof.
  intros Hm. induction whole as [|s whole IH]; cbn [forallb map]; intros Hf Hw.
  - split; [reflexivity|constructor].
  - apply andb_true_iff in Hf as [Hf1 Hf]. apply andb_true_iff in Hw as [Hw1 Hw].
    destruct (IH Hf Hw) as [IH1 IH2].
    unfold seg_fine in Hf1. apply andb_true_iff in Hf1 as [Hi _].
    unfold intended in Hi. destruct (nth_error _ _) as [l|] eqn:E; [|discriminate].
    destruct (Hm _ _ _ E) as [Hwf Hl].
    unfold seg_whole in Hw1.
    unfold render in *. cbn [map concat]. rewrite IH1. split.
    + f_equal. unfold seg_bytes, seg_frame. apply firstn_all2.
      unfold lenN in Hl. lia.
    + constructor; [exact Hwf|exact IH2].
Qed.

Theorem resync_wire lens fr wire :
  frames_match lens fr ->
  forallb (seg_fine lens) wire = true -> whole_then_torn wire = true ->
  exists whole torn,
    wire = whole ++ torn /\ forallb seg_whole whole = true /\
    (torn = [] \/ exists t, torn = [t] /\ sg_k t < sg_len t) /\
    parse_frames (render fr wire) = (map (seg_frame fr) whole, render fr torn).
Proof.
  intros Hm Hf Hw. destruct (wtt_shape wire Hw) as (whole & torn & -> & Hwh & Ht).
  rewrite forallb_app in Hf. apply andb_true_iff in Hf as [Hf1 Hf2].
  exists whole, torn. split; [reflexivity|]. split; [exact Hwh|].
  destruct (render_whole lens fr whole Hm Hf1 Hwh) as [R1 R2].
  destruct Ht as [->|[t [-> Htw]]].
  - split; [left; reflexivity|]. rewrite render_app, R1. apply parse_frames_whole; [exact R2|].
    apply tail_stops_nil.
  - cbn [forallb] in Hf2. rewrite andb_true_r in Hf2. unfold seg_fine in Hf2.
    apply andb_true_iff in Hf2 as [Hi Hk]. unfold seg_whole in Htw.
    assert (Hlt : sg_k t < sg_len t) by lia.
    split; [right; exists t; split; [reflexivity|exact Hlt]|].
    rewrite render_app, R1. apply parse_frames_whole; [exact R2|].
    unfold render. cbn [map concat]. rewrite app_nil_r. unfold seg_bytes.
    unfold intended in Hi. destruct (nth_error _ _) as [l|] eqn:E; [|discriminate].
    destruct (Hm _ _ _ E) as [Hwf Hl]. apply tail_stops_prefix; [exact Hwf|].
    unfold lenN in Hl. lia.
Qed.

(** for every schedule of locked writers *)
Theorem resync_run e lens sched fr :
  forallb (forallb (fun l => 48 <=? l)) lens = true -> frames_match lens fr ->
  let wire := w_wire (fst (run after_interrupt e w0 (picks lens [] sched))) in
  exists whole torn,
    wire = whole ++ torn /\ forallb seg_whole whole = true /\
    (torn = [] \/ exists t, torn = [t] /\ sg_k t < sg_len t) /\
    parse_frames (render fr wire) = (map (seg_frame fr) whole, render fr torn).
Proof.
  intros Hlens Hm wire. apply (resync_wire lens fr wire Hm).
  - pose proof (picks_intended lens sched []) as Hint.
    apply run_segs_fine; [exact Hint|exact (wf_lens_items _ _ Hlens Hint)|reflexivity].
  - apply J_wtt. apply J_run. exact J_w0.
Qed.

(** no interleaving, in one statement *)
Theorem no_interleave_run e lens sched :
  let its := picks lens [] sched in
  let wire := w_wire (fst (run after_interrupt e w0 its)) in
  subseq (map seg_key wire) (map item_key its) /\
  exists whole torn,
    wire = whole ++ torn /\ forallb seg_whole whole = true /\
    (torn = [] \/ exists t, torn = [t] /\ seg_whole t = false).
Proof.
  intros its wire. split.
  - exact (run_keys after_interrupt e its w0).
  - apply wtt_shape. apply J_wtt. apply J_run. exact J_w0.
Qed.

Lemma render_whole_then_torn fr whole torn :
  render fr (whole ++ torn) = concat (map (seg_bytes fr) whole) ++ render fr torn.
Proof. rewrite render_app. reflexivity. Qed.

(** * the mutex: single steps of concurrent writers refine whole turns *)

Lemma lget_lset {V} (d : V) l w v w' :
  lget d (lset l w v) w' = if w =? w' then v else lget d l w'.
Proof.
  induction l as [|[w0 v0] l IH]; cbn [lset lget].
  - reflexivity.
  - destruct (N.eqb_spec w0 w) as [E|E].
    + subst w0. cbn [lget]. destruct (N.eqb_spec w w'); reflexivity.
    + cbn [lget]. rewrite IH. destruct (N.eqb_spec w0 w') as [E1|E1]; [|reflexivity].
      subst w0. destruct (N.eqb_spec w w'); [congruence|reflexivity].
Qed.

Lemma frender_app fr a b : frender fr (a ++ b) = frender fr a ++ frender fr b.
Proof. unfold frender. rewrite map_app, concat_app. reflexivity. Qed.

Lemma frender_emit fr wire w j off n :
  frender fr (emit wire w j off n)
  = frender fr wire ++ firstn (N.to_nat n) (skipn (N.to_nat off) (fr w (j_seq j))).
Proof.
  unfold emit. destruct (N.eqb_spec n 0) as [->|Hn].
  - cbn [N.to_nat firstn]. rewrite app_nil_r. reflexivity.
  - rewrite frender_app. f_equal. unfold frender. cbn [map concat]. rewrite app_nil_r.
    unfold brun_bytes. cbn [r_n r_off r_w r_seq]. reflexivity.
Qed.

Lemma firstn_extend {A} (l : list A) a b :
  firstn (N.to_nat a) l ++ firstn (N.to_nat b) (skipn (N.to_nat a) l) = firstn (N.to_nat (a + b)) l.
Proof. rewrite N2Nat.inj_add. symmetry. apply firstn_plus. Qed.

Lemma render_snoc fr wire s : render fr (wire ++ [s]) = render fr wire ++ seg_bytes fr s.
Proof. rewrite render_app. unfold render at 2. cbn [map concat]. rewrite app_nil_r. reflexivity. Qed.

Lemma run_snoc pol e s a it :
  fst (run pol e s (a ++ [it])) = fst (turn pol e (fst (run pol e s a)) it).
Proof. rewrite run_app. cbn [fst]. rewrite run_cons. cbn [run fst]. reflexivity. Qed.

Lemma turn_whole pol e s it :
  w_broken s = false -> it_ev it = Whole ->
  fst (turn pol e s it)
  = mkW (w_wire s ++ [mkSeg (it_w it) (it_seq it) (it_len it) (it_len it)]) false.
Proof. intros Hb Ev. unfold turn. rewrite Hb, Ev. reflexivity. Qed.

Lemma turn_cut pol e s it k :
  w_broken s = false -> atomic_send e = false -> it_ev it = Cut k ->
  fst (turn pol e s it)
  = mkW (w_wire s ++ (if N.min k (it_len it) =? 0 then []
                      else [mkSeg (it_w it) (it_seq it) (it_len it) (N.min k (it_len it))]))
        (closes (pol e)).
Proof. intros Hb Ha Ev. unfold turn. rewrite Hb, Ev, Ha. reflexivity. Qed.

Definition job_item (w : N) (j : job) : item := mkItem w (j_seq j) (job_len j) (j_ev j).

Definition open_ok (fr : N -> N -> list byte) (s : fstate) (closed : list item) (cs : wstate) : Prop :=
  match f_holder s with
  | None =>
      f_log s = closed /\ (forall w, lget Idle (f_locs s) w = Idle) /\
      f_broken s = w_broken cs /\
      frender fr (f_wire s) = render fr (w_wire cs)
  | Some h =>
      exists j rem done,
        lget Idle (f_locs s) h = Writing j rem done /\
        (forall w, w <> h -> lget Idle (f_locs s) w = Idle) /\
        f_log s = closed ++ [job_item h j] /\
        done + sumN rem = job_len j /\
        (match j_ev j with Whole => True | Cut k => done <= k end) /\
        f_broken s = false /\ w_broken cs = false /\
        frender fr (f_wire s)
        = render fr (w_wire cs) ++ firstn (N.to_nat done) (fr h (j_seq j))
  end.

Definition FInv pol e fr (s : fstate) : Prop :=
  exists closed, open_ok fr s closed (fst (run pol e w0 closed)).

Lemma FInv_f0 pol e fr queues : FInv pol e fr (f0 queues).
Proof.
  exists []. unfold open_ok, f0. cbn [f_holder f_log f_locs f_broken f_wire run fst w0 w_broken w_wire].
  repeat split.
Qed.

Lemma sumN_cons c l : sumN (c :: l) = c + sumN l.
Proof. reflexivity. Qed.

Lemma fstep_inv pol e fr s w :
  atomic_send e = false -> FInv pol e fr s -> FInv pol e fr (fstep true pol e s w).
Proof.
  intros Ha [closed H]. unfold open_ok in H. unfold fstep.
  set (cs := fst (run pol e w0 closed)) in *.
  destruct (f_holder s) as [h|] eqn:Eh.
  - destruct H as (j & rem & done & Hloc & Hidle & Hlog & Hsum & Hcut & Hfb & Hcb & Hbytes).
    destruct (N.eqb_spec w h) as [->|Hne].
    + rewrite Hloc, N.eqb_refl.
      assert (Hturn : fst (run pol e w0 (closed ++ [job_item h j]))
                      = fst (turn pol e cs (job_item h j))) by apply run_snoc.
      destruct rem as [|c rem'].
      * (* flush and unlock *)
        cbn [sumN fold_right] in Hsum.
        exists (closed ++ [job_item h j]). rewrite Hturn. unfold open_ok. cbn [f_holder f_log f_locs f_broken f_wire].
        split; [exact Hlog|]. split.
        { intros w'. rewrite lget_lset. destruct (N.eqb_spec h w'); [reflexivity|]. apply Hidle. congruence. }
        rewrite Hfb. cbn [orb].
        destruct (j_ev j) as [|k] eqn:Ev.
        { rewrite (turn_whole pol e cs (job_item h j) Hcb Ev). cbn [w_broken w_wire].
          split; [reflexivity|]. rewrite Hbytes, render_snoc. f_equal.
          unfold seg_bytes, job_item. cbn [sg_k sg_w sg_seq it_w it_seq it_len]. f_equal. f_equal. lia. }
        { rewrite (turn_cut pol e cs (job_item h j) k Hcb Ha Ev). cbn [w_broken w_wire].
          split; [reflexivity|].
          unfold job_item. cbn [it_len it_w it_seq].
          replace (N.min k (job_len j)) with (job_len j) by lia.
          destruct (N.eqb_spec (job_len j) 0) as [E0|E0].
          - rewrite app_nil_r, Hbytes. replace done with 0 by lia. cbn [N.to_nat firstn].
            rewrite app_nil_r. reflexivity.
          - rewrite Hbytes, render_snoc. f_equal. unfold seg_bytes. cbn [sg_k sg_w sg_seq].
            f_equal. f_equal. lia. }
      * rewrite sumN_cons in Hsum.
        assert (Hcont : (match j_ev j with Whole => True | Cut k => done + c <= k end) ->
                  FInv pol e fr
                  (mkF (emit (f_wire s) h j done c) (Some h) (f_broken s)
                       (lset (f_locs s) h (Writing j rem' (done + c))) (f_queues s) (f_log s))).
        { intros Hk. exists closed. fold cs. unfold open_ok. cbn [f_holder f_log f_locs f_broken f_wire].
          exists j, rem', (done + c). rewrite lget_lset, N.eqb_refl.
          split; [reflexivity|]. split.
          { intros w' Hw'. rewrite lget_lset. destruct (N.eqb_spec h w'); [congruence|]. apply Hidle. exact Hw'. }
          split; [exact Hlog|]. split; [lia|]. split; [exact Hk|]. split; [exact Hfb|]. split; [exact Hcb|].
          rewrite frender_emit, Hbytes, <- app_assoc, firstn_extend. reflexivity. }
        unfold budget. destruct (j_ev j) as [|k] eqn:Ev.
        { apply Hcont. exact I. }
        destruct (c <=? k - done) eqn:Ec.
        { apply Hcont. lia. }
        (* interrupted inside this chunk *)
        exists (closed ++ [job_item h j]). rewrite Hturn. unfold open_ok. cbn [f_holder f_log f_locs f_broken f_wire].
        split; [exact Hlog|]. split.
        { intros w'. rewrite lget_lset. destruct (N.eqb_spec h w'); [reflexivity|]. apply Hidle. congruence. }
        rewrite Hfb. cbn [orb].
        rewrite (turn_cut pol e cs (job_item h j) k Hcb Ha Ev). cbn [w_broken w_wire].
        split; [reflexivity|].
        unfold job_item. cbn [it_len it_w it_seq].
        replace (N.min k (job_len j)) with k by lia.
        rewrite frender_emit, Hbytes, <- app_assoc, firstn_extend.
        replace (done + (k - done)) with k by lia.
        destruct (N.eqb_spec k 0) as [E0|E0].
        { subst k. cbn [N.to_nat firstn]. rewrite !app_nil_r. reflexivity. }
        { rewrite render_snoc. reflexivity. }
    + (* another writer holds the mutex: this one is idle and blocked *)
      rewrite (Hidle w Hne). destruct (lget [] (f_queues s) w) as [|j' q]; cbn [negb];
        (exists closed; unfold open_ok; rewrite Eh; exists j, rem, done; repeat split; assumption).
  - destruct H as (Hlog & Hidle & Hb & Hbytes).
    rewrite Hidle. destruct (lget [] (f_queues s) w) as [|j q].
    + exists closed. unfold open_ok. rewrite Eh. repeat split; assumption.
    + cbn [negb]. destruct (f_broken s) eqn:Efb.
      * exists closed. unfold open_ok. cbn [f_holder f_log f_locs f_broken f_wire].
        repeat split; assumption.
      * exists closed. fold cs. unfold open_ok. cbn [f_holder f_log f_locs f_broken f_wire].
        exists j, (j_chunks j), 0. rewrite lget_lset, N.eqb_refl.
        split; [reflexivity|]. split.
        { intros w' Hw'. rewrite lget_lset. destruct (N.eqb_spec w w'); [congruence|]. apply Hidle. }
        split; [rewrite Hlog; reflexivity|]. split; [unfold job_len; lia|].
        split; [destruct (j_ev j); [exact I|lia]|]. split; [reflexivity|]. split; [congruence|].
        cbn [N.to_nat firstn]. rewrite app_nil_r. exact Hbytes.
Qed.

Lemma frun_inv pol e fr sched : forall s,
  atomic_send e = false -> FInv pol e fr s -> FInv pol e fr (frun true pol e s sched).
Proof.
  induction sched as [|w sched IH]; intros s Ha H; [exact H|].
  unfold frun. cbn [fold_left]. apply IH; [exact Ha|]. apply fstep_inv; assumption.
Qed.

(** whenever the mutex is free, the bytes on the connection are those of the
    whole turns, in the order in which the critical sections were entered *)
Theorem mutex_serialises pol e queues sched fr :
  atomic_send e = false ->
  let s := frun true pol e (f0 queues) sched in
  f_holder s = None ->
  frender fr (f_wire s) = render fr (w_wire (fst (run pol e w0 (f_log s)))) /\
  f_broken s = w_broken (fst (run pol e w0 (f_log s))).
Proof.
  intros Ha s Hh. destruct (frun_inv pol e fr sched (f0 queues) Ha (FInv_f0 pol e fr queues)) as [closed H].
  fold s in H. unfold open_ok in H. rewrite Hh in H. destruct H as (Hlog & _ & Hb & Hbytes).
  rewrite Hlog. split; [exact Hbytes|exact Hb].
Qed.

(** and while a writer is inside its critical section, they are those of the
    whole turns before it followed by a prefix of its own frame *)
Theorem mutex_serialises_open pol e queues sched fr :
  atomic_send e = false ->
  let s := frun true pol e (f0 queues) sched in
  forall h, f_holder s = Some h ->
  exists closed it done,
    f_log s = closed ++ [it] /\ it_w it = h /\ done <= it_len it /\
    frender fr (f_wire s)
    = render fr (w_wire (fst (run pol e w0 closed))) ++ firstn (N.to_nat done) (fr h (it_seq it)).
Proof.
  intros Ha s h Hh. destruct (frun_inv pol e fr sched (f0 queues) Ha (FInv_f0 pol e fr queues)) as [closed H].
  fold s in H. unfold open_ok in H. rewrite Hh in H.
  destruct H as (j & rem & done & _ & _ & Hlog & Hsum & _ & _ & _ & Hbytes).
  exists closed, (job_item h j), done. split; [exact Hlog|]. split; [reflexivity|].
  split; [unfold job_item; cbn [it_len]; lia|exact Hbytes].
Qed.

(** * the witness frames of the refutations *)

Definition c05_m (id : N) : message := build (mkBuilder id [] [1; 2] 0 0 false 0).
Definition c05_fr (w i : N) : list byte := frame_bytes (c05_m (7 + i)).

Lemma c05_m_ok i : i < 1000 -> msg_ok (c05_m (7 + i)) = true.
Proof.
  intros Hi. unfold c05_m. apply build_ok; cbn [b_query b_body b_id b_qfmt b_bfmt b_ec]; try reflexivity.
  - unfold two64. lia.
Qed.

Lemma c05_fr_match : frames_match [[50; 50]] c05_fr.
Proof.
  intros w i len H.
  assert (Hi : i < 1000 /\ len = 50).
  { destruct (N.to_nat w) as [|[|n]] eqn:Ew; cbn [nth] in H;
      [|destruct (N.to_nat i); discriminate|destruct (N.to_nat i); discriminate].
    destruct (N.to_nat i) as [|[|n]] eqn:Ei; cbn [nth_error] in H; [| |destruct n; discriminate];
      (split; [lia|congruence]). }
  destruct Hi as [Hi ->]. split.
  - apply frame_bytes_wf. apply c05_m_ok. exact Hi.
  - unfold c05_fr, frame_bytes. rewrite write_chunks_concat. unfold lenN. rewrite to_vec_length.
    reflexivity.
Qed.
