(** Agreement of the hand-written retry-loop model (Model/Fleet.v [retry_loop])
    with the Gallina renderings of the four retry functions that bin/rs2v
    regenerates from /repo/src/fleet.rs and src/async_fleet.rs on every run
    (Gen/FleetGen.v).  All four must equal the ONE model loop.  A function that
    could not be translated is [None] and its lemma degrades to [True]. *)
From RepeV Require Import Model.Fleet Base.GenFleetPrelude Gen.FleetGen.
From RepeV Require Export Proofs.GenAgreeBase.
From Coq Require Import ZifyBool ZifyN ZifyNat.

(** the variables the rendered loop carries: script, cached client, sleeps, attempts made, last_error *)
Definition lstate : Type := (list behaviour * cache * N * N * option ekind)%type.

(** one iteration of the loop, as the model has it (plus the sleep rule:
    sleep after a retryable failure unless it was the last allowed attempt) *)
Definition iter_spec (tbl : list bool) (max i : N) (st : lstate) : flow lstate fleet_out :=
  let '(script, c, sl, made, last) := st in
  let '(b, script') := next_b script in
  let '(r, c1) := attempt b c in
  match r with
  | RValue => Return (mkFleetOut (made + 1) RRValue c1 script' sl)
  | RErr k =>
      if retryable_with tbl k
      then Next (script', CNone, (if i + 1 <? max then sl + 1 else sl), made + 1, Some k)
      else Stop (script', c1, sl, made + 1, Some k)
  end.

Lemma iter_spec_eq tbl max i script c sl made last :
  iter_spec tbl max i (script, c, sl, made, last) =
  let '(b, script') := next_b script in
  let '(r, c1) := attempt b c in
  match r with
  | RValue => Return (mkFleetOut (made + 1) RRValue c1 script' sl)
  | RErr k =>
      if retryable_with tbl k
      then Next (script', CNone, (if i + 1 <? max then sl + 1 else sl), made + 1, Some k)
      else Stop (script', c1, sl, made + 1, Some k)
  end.
Proof. reflexivity. Qed.

(** the statement after the loop: [RemoteResult { value: None, error: last_error, .. }] *)
Definition finish (e : loop_end lstate fleet_out) : fleet_out :=
  match e with
  | Returned r => r
  | Fell (script, c, sl, made, last) => mkFleetOut made (RRError last) c script sl
  end.

(** sleeps of the model loop: one after every retryable failure that was not
    the last allowed attempt *)
Fixpoint retry_sleeps (tbl : list bool) (fuel : nat) (script : list behaviour) (c : cache) : N :=
  match fuel with
  | O => 0
  | S fuel' =>
      let '(b, script') := next_b script in
      let '(r, _) := attempt b c in
      match r with
      | RValue => 0
      | RErr k =>
          if retryable_with tbl k
          then (match fuel' with O => 0 | S _ => 1 end) + retry_sleeps tbl fuel' script' CNone
          else 0
      end
  end.

(** RemoteResult <-> the model's result.  [error: None] with [value: None] is
    what the code returns when the loop body never ran (max_attempts = 0, which
    validate_fleet_options rejects); the model's placeholder for it is
    [RErr KNotConnected]. *)
Definition rr_of (r : result) : remote_result :=
  match r with RValue => RRValue | RErr k => RRError (Some k) end.
Definition model_result (r : remote_result) : result :=
  match r with RRValue => RValue | RRError (Some k) => RErr k | RRError None => RErr KNotConnected end.

Lemma rr_of_model_result r : r <> RRError None -> rr_of (model_result r) = r.
Proof. destruct r as [|[k|]]; intros H; try reflexivity. congruence. Qed.

Lemma for_range_ext {S R} (f g : N -> S -> flow S R) idx :
  (forall i s, f i s = g i s) -> forall s, for_range f idx s = for_range g idx s.
Proof. intros H. induction idx as [|i idx IH]; intros s; cbn [for_range]; [reflexivity|]. rewrite H. destruct (g i s); auto. Qed.

(** the canonical loop is the model's [retry_loop] *)
Lemma for_retry tbl n : forall lo script c sl made last,
  let e := finish (for_range (iter_spec tbl (N.of_nat (lo + n))) (map N.of_nat (seq lo n)) (script, c, sl, made, last)) in
  let o := retry_loop tbl n script c made (model_result (RRError last)) in
  fo_made e = co_attempts o /\ model_result (fo_result e) = co_result o /\ fo_cache e = co_cache o /\
  fo_script e = co_script o /\ fo_sleeps e = sl + retry_sleeps tbl n script c /\
  ((1 <= n)%nat \/ last <> None -> fo_result e <> RRError None).
Proof.
  induction n as [|n IH]; intros lo script c sl made last; cbv zeta.
  - cbn [seq map for_range finish retry_loop retry_sleeps fo_made fo_result fo_cache fo_script fo_sleeps
         co_attempts co_result co_cache co_script].
    repeat split; try lia. intros [H|H]; [lia|]. intros E. apply H. congruence.
  - cbn [seq map for_range retry_loop retry_sleeps]. rewrite iter_spec_eq.
    destruct (next_b script) as [b script']. destruct (attempt b c) as [r c1]. destruct r as [|k].
    + cbn [finish fo_made fo_result fo_cache fo_script fo_sleeps co_attempts co_result co_cache co_script model_result].
      repeat split; try lia. discriminate.
    + destruct (retryable_with tbl k).
      * replace (lo + S n)%nat with (S lo + n)%nat by lia.
        specialize (IH (S lo) script' CNone (if N.of_nat lo + 1 <? N.of_nat (S lo + n) then sl + 1 else sl) (made + 1) (Some k)).
        cbv zeta in IH. destruct IH as (H1 & H2 & H3 & H4 & H5 & H6).
        repeat split; try assumption.
        -- rewrite H5. destruct n; [replace (N.of_nat lo + 1 <? N.of_nat (S lo + 0)) with false by lia
                                   | replace (N.of_nat lo + 1 <? N.of_nat (S lo + S n)) with true by lia]; lia.
        -- intros _. apply H6. right. discriminate.
      * cbn [finish fo_made fo_result fo_cache fo_script fo_sleeps co_attempts co_result co_cache co_script model_result].
        repeat split; try lia. discriminate.
Qed.

(** what "the rendered retry function is the model loop" means: attempts made,
    cached client, remaining script and sleeps agree for every [max]; the
    reported result agrees whenever the loop body runs at all ([1 <= max], which
    validate_fleet_options enforces); for [max = 0] the code reports neither a
    value nor an error, where the model has its placeholder [RErr KNotConnected] *)
Definition fleet_agrees (g : option (list bool -> N -> list behaviour -> cache -> fleet_out)) : Prop :=
  match g with
  | Some f => forall tbl max script c,
      let o := f tbl (N.of_nat max) script c in
      let m := retry_loop tbl max script c 0 (RErr KNotConnected) in
      fo_made o = co_attempts m /\ fo_cache o = co_cache m /\ fo_script o = co_script m /\
      fo_sleeps o = retry_sleeps tbl max script c /\
      ((1 <= max)%nat -> fo_result o = rr_of (co_result m)) /\
      (max = 0%nat -> fo_result o = RRError None)
  | None => True
  end.

Ltac split_ifs :=
  repeat match goal with |- context [if ?b then _ else _] => destruct b eqn:? end.
(** the rendered loop body is [iter_spec] *)
Ltac body_is_spec :=
  intros i [[[[script0 c0] sl0] made0] last0]; unfold iter_spec; cbv beta iota zeta;
  destruct (next_b script0) as [b0 script1]; destruct (attempt b0 c0) as [r0 c1]; destruct r0 as [|k0];
  cbv beta iota zeta; split_ifs; try reflexivity; try discriminate; try (exfalso; lia).
Ltac fleet_tac :=
  unfold fleet_agrees; gen_start.
Ltac fleet_finish tbl max script c :=
  lazymatch goal with
  | |- fo_made ?X = _ /\ _ =>
      let o := fresh "o" in
      set (o := X);
      assert (Ho : o = finish (for_range (iter_spec tbl (N.of_nat max)) (map N.of_nat (seq 0 max)) (script, c, 0, 0, None)));
      [ subst o; rewrite (for_range_ext _ (iter_spec tbl (N.of_nat max))) by body_is_spec;
        unfold range_N; change (N.to_nat 0%N) with 0%nat; rewrite Nat2N.id, Nat.sub_0_r;
        destruct (for_range _ _ _) as [[[[[? ?] ?] ?] ?]|?]; reflexivity
      | clearbody o; subst o;
        pose proof (for_retry tbl max 0 script c 0 0 None) as Hm; cbv zeta in Hm; cbn [Nat.add model_result] in Hm;
        destruct Hm as (H1 & H2 & H3 & H4 & H5 & H6);
        split; [exact H1|]; split; [exact H3|]; split; [exact H4|]; split; [rewrite H5; lia|]; split;
        [ intros Hmax; rewrite <- H2; symmetry; apply rr_of_model_result; apply H6; left; exact Hmax
        | intros ->; reflexivity ] ]
  end.

Lemma fleet_call_json_agrees : fleet_agrees gen_fleet_call_json.
Proof. fleet_tac. all: intros tbl max script c; fleet_finish tbl max script c. Qed.

Lemma fleet_call_message_agrees : fleet_agrees gen_fleet_call_message.
Proof. fleet_tac. all: intros tbl max script c; fleet_finish tbl max script c. Qed.

Lemma afleet_call_json_agrees : fleet_agrees gen_afleet_call_json.
Proof. fleet_tac. all: intros tbl max script c; fleet_finish tbl max script c. Qed.

Lemma afleet_call_message_agrees : fleet_agrees gen_afleet_call_message.
Proof. fleet_tac. all: intros tbl max script c; fleet_finish tbl max script c. Qed.

(** the bundle quoted by Props/C19.v *)
Lemma c19_source_translation :
  fleet_agrees gen_fleet_call_json /\ fleet_agrees gen_fleet_call_message /\
  fleet_agrees gen_afleet_call_json /\ fleet_agrees gen_afleet_call_message.
Proof.
  exact (conj fleet_call_json_agrees (conj fleet_call_message_agrees (conj afleet_call_json_agrees afleet_call_message_agrees))).
Qed.

(** the same, with [fleet_agrees] spelled out (the form pinned in Props/C19.v) *)
Lemma c19_source_translation_explicit : forall g,
  In g [gen_fleet_call_json; gen_fleet_call_message; gen_afleet_call_json; gen_afleet_call_message] ->
  match g with
  | Some f => forall tbl max script c,
      let o := f tbl (N.of_nat max) script c in
      let m := retry_loop tbl max script c 0 (RErr KNotConnected) in
      fo_made o = co_attempts m /\ fo_cache o = co_cache m /\ fo_script o = co_script m /\
      fo_sleeps o = retry_sleeps tbl max script c /\
      ((1 <= max)%nat -> fo_result o = rr_of (co_result m)) /\
      (max = 0%nat -> fo_result o = RRError None)
  | None => True
  end.
Proof.
  intros g [<-|[<-|[<-|[<-|[]]]]].
  - exact fleet_call_json_agrees.
  - exact fleet_call_message_agrees.
  - exact afleet_call_json_agrees.
  - exact afleet_call_message_agrees.
Qed.
