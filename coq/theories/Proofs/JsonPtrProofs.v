(** Proofs about the tokenisation model (Model/JsonPtr.v): the segments a
    mounted struct sees are exactly the RFC 6901 reference tokens of the
    relative path, for every depth. *)
From RepeV Require Import Model.JsonPtr.
From Coq Require Import ZifyBool ZifyN ZifyNat.

(** * string equality *)

Lemma str_eqb_refl a : str_eqb a a = true.
Proof. induction a as [|x a IH]; cbn [str_eqb]; [reflexivity|]. rewrite N.eqb_refl, IH. reflexivity. Qed.

Lemma str_eqb_eq a : forall b, str_eqb a b = true <-> a = b.
Proof.
  induction a as [|x a IH]; intros [|y b]; cbn [str_eqb]; try (split; [discriminate|discriminate]).
  - split; reflexivity.
  - rewrite andb_true_iff, N.eqb_eq, IH. split.
    + intros [H1 H2]. subst. reflexivity.
    + intros H. inversion H. split; reflexivity.
Qed.

Lemma str_eqb_neq a b : str_eqb a b = false <-> a <> b.
Proof. rewrite <- str_eqb_eq. destruct (str_eqb a b); split; congruence. Qed.

Lemma strs_eqb_eq a : forall b, strs_eqb a b = true <-> a = b.
Proof.
  induction a as [|x a IH]; intros [|y b]; cbn [strs_eqb]; try (split; [discriminate|discriminate]).
  - split; reflexivity.
  - rewrite andb_true_iff, str_eqb_eq, IH. split.
    + intros [H1 H2]. subst. reflexivity.
    + intros H. inversion H. split; reflexivity.
Qed.

(** * [render] is injective: a pointer has one token list *)

Lemma render_cons t ts : render (t :: ts) = 47 :: rfc_escape t ++ render ts.
Proof. reflexivity. Qed.

Lemma render_nil : render [] = [].
Proof. reflexivity. Qed.

Lemma pointer_shaped_render ts : pointer_shaped (render ts) = true.
Proof. destruct ts as [|t ts]; [reflexivity|]. rewrite render_cons. reflexivity. Qed.

Lemma rfc_escape_cons c t :
  rfc_escape (c :: t)
  = if c =? 126 then 126 :: 48 :: rfc_escape t
    else if c =? 47 then 126 :: 49 :: rfc_escape t else c :: rfc_escape t.
Proof. reflexivity. Qed.

(** the first byte of an escaped non-empty token is not '/' *)
Lemma rfc_escape_head c t : exists d r, rfc_escape (c :: t) = d :: r /\ d <> 47.
Proof.
  rewrite rfc_escape_cons.
  destruct (N.eqb_spec c 126) as [E|E]; [exists 126; eexists; split; [reflexivity|discriminate]|].
  destruct (N.eqb_spec c 47) as [E1|E1]; [exists 126; eexists; split; [reflexivity|discriminate]|].
  exists c. eexists. split; [reflexivity|exact E1].
Qed.

Lemma shaped_not_escape_head x c t y : pointer_shaped x = true -> x = rfc_escape (c :: t) ++ y -> False.
Proof.
  intros Hs H. destruct (rfc_escape_head c t) as [d [r [E Hd]]]. rewrite E in H.
  subst x. cbn [app pointer_shaped] in Hs. apply N.eqb_eq in Hs. contradiction.
Qed.

Lemma rfc_escape_app_inj t : forall t' x x',
  pointer_shaped x = true -> pointer_shaped x' = true ->
  rfc_escape t ++ x = rfc_escape t' ++ x' -> t = t' /\ x = x'.
Proof.
  induction t as [|c t IH]; intros [|c' t'] x x' Hx Hx' H.
  - split; [reflexivity|exact H].
  - exfalso. cbn [rfc_escape app] in H. exact (shaped_not_escape_head x c' t' x' Hx H).
  - exfalso. cbn [rfc_escape app] in H. symmetry in H. exact (shaped_not_escape_head x' c t x Hx' H).
  - rewrite !rfc_escape_cons in H.
    destruct (N.eqb_spec c 126) as [E1|E1]; destruct (N.eqb_spec c' 126) as [E2|E2];
      [ | destruct (N.eqb_spec c' 47) as [E3|E3] | destruct (N.eqb_spec c 47) as [E3|E3]
        | destruct (N.eqb_spec c 47) as [E3|E3]; destruct (N.eqb_spec c' 47) as [E4|E4] ];
      cbn [app] in H; injection H; intros; subst; try congruence;
      match goal with
      | Hq : rfc_escape t ++ x = rfc_escape t' ++ x' |- _ =>
          destruct (IH t' x x' Hx Hx' Hq) as [Ht Hxx]; subst; split; reflexivity
      end.
Qed.

Lemma render_inj ts : forall ts', render ts = render ts' -> ts = ts'.
Proof.
  induction ts as [|t ts IH]; intros [|t' ts'] H.
  - reflexivity.
  - rewrite render_cons, render_nil in H. discriminate.
  - rewrite render_cons, render_nil in H. discriminate.
  - rewrite !render_cons in H. injection H as H.
    destruct (rfc_escape_app_inj t t' (render ts) (render ts')
                (pointer_shaped_render ts) (pointer_shaped_render ts') H) as [Ht Hr].
    subst t'. f_equal. exact (IH ts' Hr).
Qed.

(** * well-escaped strings *)

Lemma well_escaped_cons c s :
  well_escaped (c :: s)
  = (if c =? 126 then match s with d :: _ => (d =? 48) || (d =? 49) | [] => false end else true)
    && well_escaped s.
Proof. reflexivity. Qed.

Lemma well_escaped_cons_ne c s : c <> 126 -> well_escaped (c :: s) = well_escaped s.
Proof. intros H. rewrite well_escaped_cons. destruct (N.eqb_spec c 126); [contradiction|reflexivity]. Qed.

Lemma well_escaped_tilde d s :
  well_escaped (126 :: d :: s) = ((d =? 48) || (d =? 49)) && well_escaped s.
Proof.
  rewrite well_escaped_cons. change (126 =? 126) with true. cbv iota.
  destruct (N.eqb_spec d 48) as [E|E]; [subst d; rewrite well_escaped_cons_ne by discriminate; reflexivity|].
  destruct (N.eqb_spec d 49) as [E1|E1]; [subst d; rewrite well_escaped_cons_ne by discriminate; reflexivity|].
  reflexivity.
Qed.

(** induction over the shape of a well-escaped string: an ordinary byte, or
    one of the two escape pairs *)
Lemma well_escaped_ind (P : str -> Prop) :
  P [] ->
  (forall c s, c <> 126 -> well_escaped s = true -> P s -> P (c :: s)) ->
  (forall d s, d = 48 \/ d = 49 -> well_escaped s = true -> P s -> P (126 :: d :: s)) ->
  forall s, well_escaped s = true -> P s.
Proof.
  intros H0 H1 H2.
  assert (Hn : forall n s, (length s <= n)%nat -> well_escaped s = true -> P s).
  { induction n as [|n IH]; intros s Hl Hw.
    - destruct s; [exact H0|cbn [length] in Hl; lia].
    - destruct s as [|c s]; [exact H0|]. cbn [length] in Hl.
      destruct (N.eqb_spec c 126) as [E|E].
      + subst c. destruct s as [|d s]; [rewrite well_escaped_cons in Hw; discriminate|].
        rewrite well_escaped_tilde in Hw. apply andb_true_iff in Hw as [Hd Hw].
        cbn [length] in Hl. apply H2; [lia|exact Hw|apply IH; [lia|exact Hw]].
      + rewrite well_escaped_cons_ne in Hw by exact E.
        apply H1; [exact E|exact Hw|apply IH; [lia|exact Hw]]. }
  intros s. apply (Hn (length s)). lia.
Qed.

Lemma well_escaped_escape_app t x : well_escaped x = true -> well_escaped (rfc_escape t ++ x) = true.
Proof.
  intros Hx. induction t as [|c t IH]; [exact Hx|].
  rewrite rfc_escape_cons.
  destruct (N.eqb_spec c 126) as [E|E].
  - cbn [app]. rewrite well_escaped_tilde, IH. reflexivity.
  - destruct (N.eqb_spec c 47) as [E1|E1].
    + cbn [app]. rewrite well_escaped_tilde, IH. reflexivity.
    + cbn [app]. rewrite well_escaped_cons_ne by exact E. exact IH.
Qed.

Lemma well_escaped_render ts : well_escaped (render ts) = true.
Proof.
  induction ts as [|t ts IH]; [reflexivity|].
  rewrite render_cons, well_escaped_cons_ne by discriminate.
  apply well_escaped_escape_app. exact IH.
Qed.

(** * the two-pass unescape of the code *)

Lemma replace2_eq a b r c d s :
  replace2 a b r (c :: d :: s)
  = if (c =? a) && (d =? b) then r ++ replace2 a b r s else c :: replace2 a b r (d :: s).
Proof. reflexivity. Qed.

Lemma replace2_cons_ne a b r c s : c <> a -> replace2 a b r (c :: s) = c :: replace2 a b r s.
Proof.
  intros H. destruct s as [|d s]; [reflexivity|].
  rewrite replace2_eq. destruct (N.eqb_spec c a); [contradiction|reflexivity].
Qed.

Lemma replace2_hit a b r s : replace2 a b r (a :: b :: s) = r ++ replace2 a b r s.
Proof. rewrite replace2_eq, !N.eqb_refl. reflexivity. Qed.

Lemma replace2_miss a b r d s : d <> b -> replace2 a b r (a :: d :: s) = a :: replace2 a b r (d :: s).
Proof.
  intros H. rewrite replace2_eq. destruct (N.eqb_spec d b); [contradiction|].
  rewrite andb_false_r. reflexivity.
Qed.

Lemma unescape_code_nil : unescape_code [] = [].
Proof. reflexivity. Qed.

Lemma unescape_code_plain c t : c <> 126 -> unescape_code (c :: t) = c :: unescape_code t.
Proof.
  intros H. unfold unescape_code.
  rewrite (replace2_cons_ne 126 49) by exact H. rewrite (replace2_cons_ne 126 48) by exact H. reflexivity.
Qed.

Lemma unescape_code_tilde0 t : unescape_code (126 :: 48 :: t) = 126 :: unescape_code t.
Proof.
  unfold unescape_code.
  rewrite (replace2_miss 126 49) by discriminate.
  rewrite (replace2_cons_ne 126 49 _ 48) by discriminate.
  rewrite replace2_hit. reflexivity.
Qed.

Lemma unescape_code_tilde1 t : unescape_code (126 :: 49 :: t) = 47 :: unescape_code t.
Proof.
  unfold unescape_code. rewrite replace2_hit. cbn [app].
  rewrite (replace2_cons_ne 126 48) by discriminate. reflexivity.
Qed.

(** * splitting *)

Lemma split_slash_cons c s :
  split_slash (c :: s)
  = if c =? 47 then [] :: split_slash s
    else match split_slash s with t :: ts => (c :: t) :: ts | [] => [[c]] end.
Proof. reflexivity. Qed.

Lemma split_slash_nonempty s : split_slash s <> [].
Proof.
  induction s as [|c s IH]; [discriminate|]. rewrite split_slash_cons.
  destruct (c =? 47); [discriminate|]. destruct (split_slash s); discriminate.
Qed.

Lemma split_slash_plain c s : c <> 47 ->
  exists t ts, split_slash s = t :: ts /\ split_slash (c :: s) = (c :: t) :: ts.
Proof.
  intros H. rewrite split_slash_cons. destruct (N.eqb_spec c 47); [contradiction|].
  destruct (split_slash s) as [|t ts] eqn:E; [exfalso; exact (split_slash_nonempty s E)|].
  exists t, ts. split; reflexivity.
Qed.

(** * [parse] yields the RFC 6901 tokens *)

Lemma render_parse_body s :
  well_escaped s = true -> render (map unescape_code (split_slash s)) = 47 :: s.
Proof.
  revert s. apply well_escaped_ind.
  - reflexivity.
  - intros c s Hc Hw IH.
    destruct (N.eqb_spec c 47) as [E|E].
    + subst c. rewrite split_slash_cons. change (47 =? 47) with true. cbv iota.
      cbn [map]. rewrite render_cons, unescape_code_nil, IH. reflexivity.
    + destruct (split_slash_plain c s E) as [t [ts [E1 E2]]].
      rewrite E1 in IH. rewrite E2. cbn [map] in IH |- *. rewrite render_cons in IH |- *.
      injection IH as IH.
      rewrite unescape_code_plain by exact Hc. rewrite rfc_escape_cons.
      destruct (N.eqb_spec c 126); [contradiction|]. destruct (N.eqb_spec c 47); [contradiction|].
      cbn [app]. rewrite IH. reflexivity.
  - intros d s Hd Hw IH.
    assert (Hd47 : d <> 47) by (destruct Hd; subst d; discriminate).
    destruct (split_slash_plain d s Hd47) as [t [ts [E1 E2]]].
    destruct (split_slash_plain 126 (d :: s)) as [t' [ts' [E3 E4]]]; [discriminate|].
    rewrite E2 in E3. injection E3 as E3a E3b. subst t' ts'.
    rewrite E1 in IH. rewrite E4. cbn [map] in IH |- *. rewrite render_cons in IH |- *.
    injection IH as IH.
    destruct Hd as [Hd|Hd]; subst d.
    + rewrite unescape_code_tilde0, rfc_escape_cons. change (126 =? 126) with true. cbv iota.
      cbn [app]. rewrite IH. reflexivity.
    + rewrite unescape_code_tilde1, rfc_escape_cons. change (47 =? 126) with false.
      change (47 =? 47) with true. cbv iota. cbn [app]. rewrite IH. reflexivity.
Qed.

Lemma render_parse rel :
  well_escaped rel = true -> pointer_shaped rel = true -> render (parse rel) = rel.
Proof.
  intros Hw Hs. destruct rel as [|c s]; [reflexivity|].
  cbn [pointer_shaped] in Hs. apply N.eqb_eq in Hs. subst c.
  rewrite well_escaped_cons_ne in Hw by discriminate.
  change (parse (47 :: s)) with (map unescape_code (split_slash s)).
  apply render_parse_body. exact Hw.
Qed.

(** * the stack buffer with overflow is transparent *)

Lemma set_nth_length {A} n (x : A) l : length (set_nth n x l) = length l.
Proof.
  revert n; induction l as [|y l IH]; intros n; cbn [set_nth length]; [reflexivity|].
  destruct n; cbn [length]; [reflexivity|]. rewrite IH. reflexivity.
Qed.

Lemma firstn_set_nth {A} n (x : A) : forall l,
  (n < length l)%nat -> firstn (S n) (set_nth n x l) = firstn n l ++ [x].
Proof.
  induction n as [|n IH]; intros [|y l] H; cbn [length] in H; try lia.
  - reflexivity.
  - cbn [set_nth]. rewrite !firstn_cons. cbn [app]. f_equal. apply IH. lia.
Qed.

Definition ss_inv (st : segstate) (done : list str) : Prop :=
  match ss_overflow st with
  | Some v => v = done
  | None =>
      length (ss_stack st) = STACK_SEGS /\ (ss_count st <= STACK_SEGS)%nat /\
      firstn (ss_count st) (ss_stack st) = done
  end.

Lemma ss_inv_init : ss_inv ss_init [].
Proof.
  unfold ss_inv, ss_init. cbn [ss_overflow ss_stack ss_count].
  split; [apply repeat_length|]. split; [lia|apply firstn_O].
Qed.

Lemma ss_inv_push st done seg : ss_inv st done -> ss_inv (ss_push st seg) (done ++ [seg]).
Proof.
  unfold ss_inv, ss_push. destruct (ss_overflow st) as [v|].
  - intros H. cbn [ss_overflow]. rewrite H. reflexivity.
  - intros [Hl [Hc Hf]]. destruct (Nat.ltb_spec (ss_count st) STACK_SEGS) as [Hlt|Hge].
    + cbn [ss_overflow ss_stack ss_count]. split; [rewrite set_nth_length; exact Hl|].
      split; [lia|]. rewrite firstn_set_nth by lia. rewrite Hf. reflexivity.
    + cbn [ss_overflow]. assert (Hc' : ss_count st = length (ss_stack st)) by lia.
      rewrite Hc', firstn_all in Hf. rewrite Hf. reflexivity.
Qed.

Lemma ss_inv_fold segs : forall st done,
  ss_inv st done -> ss_inv (fold_left ss_push segs st) (done ++ segs).
Proof.
  induction segs as [|seg segs IH]; intros st done H; cbn [fold_left].
  - rewrite app_nil_r. exact H.
  - change (seg :: segs) with ([seg] ++ segs). rewrite app_assoc. apply IH. apply ss_inv_push. exact H.
Qed.

Lemma ss_result_inv st done : ss_inv st done -> ss_result st = done.
Proof.
  unfold ss_inv, ss_result. destruct (ss_overflow st); [intros H; exact H|intros [_ [_ H]]; exact H].
Qed.

(** whatever the number of segments (below, at, or beyond the 16 slots) the
    slice handed to the struct is the list of segments pushed *)
Lemma stack_buffer_transparent segs : ss_result (fold_left ss_push segs ss_init) = segs.
Proof. apply ss_result_inv. apply (ss_inv_fold segs ss_init [] ss_inv_init). Qed.

(** the overflow vector exists exactly from the 17th segment on *)
Lemma ss_overflow_iff segs :
  ss_overflow (fold_left ss_push segs ss_init) <> None <-> (STACK_SEGS < length segs)%nat.
Proof.
  assert (H : forall segs st,
    (ss_overflow st = None -> length (ss_stack st) = STACK_SEGS /\ (ss_count st <= STACK_SEGS)%nat) ->
    (ss_overflow (fold_left ss_push segs st) <> None <->
     ss_overflow st <> None \/ (STACK_SEGS < ss_count st + length segs)%nat)).
  { clear segs. induction segs as [|seg segs IH]; intros st Hst; cbn [fold_left length].
    - split; [intros H; left; exact H|]. intros [H|H]; [exact H|].
      destruct (ss_overflow st); [discriminate|]. destruct (Hst eq_refl). lia.
    - rewrite IH.
      + unfold ss_push. destruct (ss_overflow st) as [v|] eqn:E.
        * cbn [ss_overflow]. split; intros _; left; discriminate.
        * destruct (Hst eq_refl) as [Hl Hc].
          destruct (Nat.ltb_spec (ss_count st) STACK_SEGS) as [Hlt|Hge]; cbn [ss_overflow ss_count].
          -- split; (intros [H|H]; [congruence|right; lia]).
          -- split; intros _; [right; lia|left; discriminate].
      + unfold ss_push. destruct (ss_overflow st) as [v|] eqn:E; [cbn [ss_overflow]; discriminate|].
        destruct (Hst eq_refl) as [Hl Hc].
        destruct (Nat.ltb_spec (ss_count st) STACK_SEGS) as [Hlt|Hge]; cbn [ss_overflow ss_stack ss_count].
        * intros _. rewrite set_nth_length. split; [exact Hl|lia].
        * discriminate. }
  rewrite (H segs ss_init).
  - cbn [ss_init ss_overflow ss_count]. split; [intros [H0|H0]; [congruence|exact H0]|intros H0; right; exact H0].
  - intros _. cbn [ss_init ss_stack ss_count]. split; [apply repeat_length|lia].
Qed.

(** * the fast path agrees with [parse] *)

Lemma contains_tilde_cons c s : contains_tilde (c :: s) = (c =? 126) || contains_tilde s.
Proof. reflexivity. Qed.

Lemma map_unescape_tilde_free s :
  contains_tilde s = false -> map unescape_code (split_slash s) = split_slash s.
Proof.
  induction s as [|c s IH]; intros H; [reflexivity|].
  rewrite contains_tilde_cons in H. apply orb_false_iff in H as [Hc Hs]. apply N.eqb_neq in Hc.
  specialize (IH Hs).
  destruct (N.eqb_spec c 47) as [E|E].
  - subst c. rewrite split_slash_cons. change (47 =? 47) with true. cbv iota.
    cbn [map]. rewrite unescape_code_nil, IH. reflexivity.
  - destruct (split_slash_plain c s E) as [t [ts [E1 E2]]]. rewrite E2. rewrite E1 in IH.
    cbn [map] in IH |- *. injection IH as IH1 IH2.
    rewrite unescape_code_plain by exact Hc. rewrite IH1, IH2. reflexivity.
Qed.

Lemma contains_tilde_strip s : contains_tilde s = false -> contains_tilde (strip_slash s) = false.
Proof.
  destruct s as [|c s]; [intros H; exact H|]. intros H. unfold strip_slash.
  destruct (c =? 47); [|exact H]. rewrite contains_tilde_cons in H. apply orb_false_iff in H. tauto.
Qed.

Lemma fast_segments_parse rel : contains_tilde rel = false -> fast_segments rel = parse rel.
Proof.
  intros H. destruct rel as [|c s]; [reflexivity|].
  unfold fast_segments. destruct (str_eqb (c :: s) [47]) eqn:E.
  - apply str_eqb_eq in E. rewrite E. reflexivity.
  - rewrite stack_buffer_transparent. unfold parse.
    rewrite map_unescape_tilde_free; [reflexivity|]. apply contains_tilde_strip. exact H.
Qed.

Lemma struct_segments_parse rel : struct_segments rel = parse rel.
Proof.
  unfold struct_segments. destruct (contains_tilde rel) eqn:E; cbn [negb]; [reflexivity|].
  apply fast_segments_parse. exact E.
Qed.

(** * the main statements *)

Lemma render_struct_segments rel :
  well_escaped rel = true -> pointer_shaped rel = true -> render (struct_segments rel) = rel.
Proof. intros Hw Hs. rewrite struct_segments_parse. apply render_parse; assumption. Qed.

Lemma struct_segments_render ts : struct_segments (render ts) = ts.
Proof.
  apply render_inj. apply render_struct_segments;
    [apply well_escaped_render|apply pointer_shaped_render].
Qed.

Lemma struct_segments_unique rel ts :
  well_escaped rel = true -> pointer_shaped rel = true -> render ts = rel -> struct_segments rel = ts.
Proof. intros Hw Hs H. apply render_inj. rewrite render_struct_segments by assumption. symmetry. exact H. Qed.

Lemma length_render_segments ts : length (struct_segments (render ts)) = length ts.
Proof. rewrite struct_segments_render. reflexivity. Qed.
