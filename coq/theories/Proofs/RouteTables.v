(** The query-format discriminants that the rendered [QueryFormat::try_from]
    (Base/GenRoutePrelude.v [qf_try_from]) classifies by are the ones re-read
    from /repo/src/constants.rs by bin/extract-tables (degrades to True when the
    source could not be parsed). *)
From RepeV Require Import Gen.Tables Proofs.TablesC01 Base.GenRoutePrelude.

Lemma c03_query_formats_agree :
  agrees src_QueryFormat_RawBinary QF_RAW_BINARY /\ agrees src_QueryFormat_JsonPointer QF_JSON_POINTER.
Proof. split; vm_compute; first [reflexivity | exact I]. Qed.
