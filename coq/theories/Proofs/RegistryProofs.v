(** The registry model refines the specification "a plain JSON document and a
    set of callables"; the laws of that document (read-your-write, frame,
    merge); requests with an empty body never mutate; calls; the mount. *)
From RepeV Require Import Model.Json Model.Registry Proofs.JsonProofs Proofs.PointerProofs.
From Coq Require Import ZifyBool ZifyN ZifyNat.
Ltac Zify.zify_post_hook ::= Z.div_mod_to_equations.

(** ** the tree walks of the code are the specification's get / put *)
Definition nf_class (e : rerr) : Prop := err_code e = METHOD_NOT_FOUND.

Lemma child_spec d s :
  match child d s with
  | Ok c => sp_get d [s] = Some c
  | Err e => sp_get d [s] = None /\ nf_class e
  end.
Proof.
  unfold child, nf_class. destruct d as [| | | |a|m]; cbn [sp_get]; try (split; reflexivity).
  - destruct (parse_usize s) as [i|]; [|split; reflexivity].
    destruct (nthN a i); [reflexivity|split; reflexivity].
  - destruct (oget m s); [reflexivity|split; reflexivity].
Qed.

Lemma sp_get_cons d s rest :
  sp_get d (s :: rest) = match sp_get d [s] with Some c => sp_get c rest | None => None end.
Proof.
  cbn [sp_get]. destruct d as [| | | |a|m]; try reflexivity.
  - destruct (parse_usize s) as [i|]; [|reflexivity]. destruct (nthN a i); reflexivity.
  - destruct (oget m s); reflexivity.
Qed.

Lemma resolve_spec segs : forall d,
  match resolve d segs with
  | Ok v => sp_get d segs = Some v
  | Err e => sp_get d segs = None /\ nf_class e
  end.
Proof.
  induction segs as [|s rest IH]; intros d; [reflexivity|].
  cbn [resolve]. rewrite sp_get_cons. pose proof (child_spec d s) as C.
  destruct (child d s) as [c|e].
  - rewrite C. apply IH.
  - destruct C as [-> C]. split; [reflexivity|exact C].
Qed.

(** [sp_put] one level down, when the child exists *)
Lemma sp_put_cons d s rest v c :
  rest <> [] -> sp_get d [s] = Some c ->
  sp_put d (s :: rest) v = match sp_put c rest v with Some c' => Some (put_child d s c') | None => None end.
Proof.
  intros Hne Hc. destruct rest as [|r rest]; [contradiction|].
  destruct d as [| | | |a|m]; cbn [sp_put sp_get put_child] in *; try discriminate.
  - destruct (parse_usize s) as [i|]; [|discriminate]. destruct (nthN a i); [|discriminate].
    injection Hc as ->. reflexivity.
  - destruct (oget m s); [|discriminate]. injection Hc as ->. reflexivity.
Qed.

Lemma sp_put_cons_none d s rest v :
  rest <> [] -> sp_get d [s] = None -> sp_put d (s :: rest) v = None.
Proof.
  intros Hne Hc. destruct rest as [|r rest]; [contradiction|].
  cbn [sp_put sp_get] in *. destruct d as [| | | |a|m]; try reflexivity.
  - destruct (parse_usize s) as [i|]; [|reflexivity]. destruct (nthN a i); [discriminate|reflexivity].
  - destruct (oget m s); [discriminate|reflexivity].
Qed.

Lemma set_last_spec d s v :
  match set_last d s v with
  | Ok d' => sp_put d [s] v = Some d'
  | Err e => sp_put d [s] v = None /\ nf_class e
  end.
Proof.
  unfold set_last, nf_class. destruct d as [| | | |a|m]; cbn [sp_put]; try (split; reflexivity).
  - destruct (parse_usize s) as [i|]; [|split; reflexivity].
    destruct (nthN a i); [reflexivity|split; reflexivity].
Qed.

Lemma set_ptr_spec segs : forall d v,
  match set_ptr d segs v with
  | Ok d' => sp_put d segs v = Some d'
  | Err e => sp_put d segs v = None /\ nf_class e
  end.
Proof.
  induction segs as [|s rest IH]; intros d v; [reflexivity|].
  cbn [set_ptr]. destruct rest as [|r rest']; [apply set_last_spec|].
  pose proof (child_spec d s) as C. destruct (child d s) as [c|e].
  - rewrite (sp_put_cons d s (r :: rest') v c) by (discriminate || assumption).
    specialize (IH c v). destruct (set_ptr c (r :: rest') v) as [c'|e].
    + now rewrite IH.
    + destruct IH as [-> IH]. split; [reflexivity|exact IH].
  - destruct C as [C1 C2]. split; [|exact C2]. apply sp_put_cons_none; [discriminate|exact C1].
Qed.

(** [merge_at] below the root = read the object, merge, store back *)
Lemma merge_ptr_spec segs : forall d o,
  match merge_ptr d segs o with
  | Ok d' => exists m, sp_get d segs = Some (JObj m) /\ sp_put d segs (JObj (omerge m o)) = Some d'
  | Err e => nf_class e /\ (forall m, sp_get d segs <> Some (JObj m))
  end.
Proof.
  induction segs as [|s rest IH]; intros d o.
  - cbn [merge_ptr sp_get sp_put]. destruct d; try (split; [reflexivity|intros m; discriminate]).
    exists l. split; reflexivity.
  - cbn [merge_ptr]. rewrite sp_get_cons. pose proof (child_spec d s) as C. destruct (child d s) as [c|e].
    + rewrite C. specialize (IH c o). destruct (merge_ptr c rest o) as [c'|e].
      * destruct IH as [m [G P]]. exists m. split; [exact G|].
        destruct rest as [|r rest'].
        -- cbn [sp_put] in P. injection P as <-.
           clear G. destruct d as [| | | |a|mm]; cbn [sp_get sp_put put_child] in *; try discriminate.
           ++ destruct (parse_usize s) as [i|]; [|discriminate]. destruct (nthN a i); [|discriminate]. reflexivity.
           ++ reflexivity.
        -- rewrite (sp_put_cons d s (r :: rest') _ c) by (discriminate || assumption). now rewrite P.
      * exact IH.
    + destruct C as [-> C]. split; [exact C|intros m; discriminate].
Qed.

(** registration creates object parents *)
Lemma reg_at_spec segs : forall d ins,
  segs <> [] -> JObj (reg_at (obj_of d) segs ins) = sp_force d segs ins.
Proof.
  induction segs as [|s rest IH]; intros d ins Hne; [contradiction|].
  cbn [reg_at sp_force]. destruct rest as [|r rest'].
  - destruct ins; reflexivity.
  - f_equal. f_equal. rewrite <- IH by discriminate. f_equal. f_equal.
    destruct (oget (obj_of d) s) as [[| | | | |cm]|]; reflexivity.
Qed.

(** ** the laws of the document *)

(** read-your-write *)
Lemma sp_get_put_same path : forall d v d',
  path <> [] -> sp_put d path v = Some d' -> sp_get d' path = Some v.
Proof.
  induction path as [|t path IH]; intros d v d' Hne H; [contradiction|].
  cbn [sp_put] in H. destruct d as [| | | |a|m]; try discriminate.
  - destruct (parse_usize t) as [i|] eqn:Pi; [|discriminate].
    destruct (nthN a i) as [c|] eqn:Ni; [|discriminate].
    destruct (sp_put c path v) as [c'|] eqn:Pc; [|discriminate]. injection H as <-.
    cbn [sp_get]. rewrite Pi, (nthN_setN_same a i c' c Ni).
    destruct path as [|u path'].
    + cbn [sp_put] in Pc. injection Pc as <-. reflexivity.
    + apply (IH c v c'); [discriminate|assumption].
  - destruct path as [|u path'].
    + injection H as <-. cbn [sp_get]. now rewrite oget_oset_same.
    + destruct (oget m t) as [c|]; [|discriminate].
      destruct (sp_put c (u :: path') v) as [c'|] eqn:Pc; [|discriminate]. injection H as <-.
      cbn [sp_get]. rewrite oget_oset_same. apply (IH c v c'); [discriminate|assumption].
Qed.

(** two token paths diverge in a document when, walking both from the root,
    they reach a node where they select different members: different keys of an
    object, or different (numeric) slots of an array -- "1" and "01" select the
    same slot *)
Fixpoint diverge (d : json) (p q : list str) : Prop :=
  match p, q with
  | t :: p', u :: q' =>
      match d with
      | JObj m => t <> u \/ (t = u /\ exists c, oget m t = Some c /\ diverge c p' q')
      | JArr a => exists i j, parse_usize t = Some i /\ parse_usize u = Some j /\
                              (i <> j \/ (i = j /\ exists c, nthN a i = Some c /\ diverge c p' q'))
      | _ => False
      end
  | _, _ => False
  end.

(** frame: a store leaves every diverging path alone *)
Lemma sp_get_put_frame p : forall d q v d',
  sp_put d p v = Some d' -> diverge d p q -> sp_get d' q = sp_get d q.
Proof.
  induction p as [|t p IH]; intros d q v d' H D; [destruct D|].
  destruct q as [|u q]; [destruct d; destruct D|].
  cbn [diverge] in D. cbn [sp_put] in H. destruct d as [| | | |a|m]; try contradiction.
  - destruct D as [i [j [Pi [Pj D]]]]. rewrite Pi in H.
    destruct (nthN a i) as [c|] eqn:Ni; [|discriminate].
    destruct (sp_put c p v) as [c'|] eqn:Pc; [|discriminate]. injection H as <-.
    cbn [sp_get]. rewrite Pj. destruct D as [Hne|[<- [c0 [Nc D]]]].
    + now rewrite nthN_setN_other.
    + assert (c0 = c) by congruence. subst c0.
      rewrite (nthN_setN_same a i c' c Ni), Ni.
      apply (IH c q v c' Pc D).
  - destruct D as [Hne|[<- [c [Oc D]]]].
    + destruct p as [|p1 p'].
      * injection H as <-. cbn [sp_get]. now rewrite oget_oset_other.
      * destruct (oget m t) as [c|]; [|discriminate].
        destruct (sp_put c (p1 :: p') v) as [c'|]; [|discriminate]. injection H as <-.
        cbn [sp_get]. now rewrite oget_oset_other.
    + destruct p as [|p1 p']; [destruct D|].
      rewrite Oc in H. destruct (sp_put c (p1 :: p') v) as [c'|] eqn:Pc; [|discriminate]. injection H as <-.
      cbn [sp_get]. rewrite oget_oset_same, Oc. apply (IH c q v c' Pc D).
Qed.

(** ** refinement *)
Definition ckey (kv : list str * N) : str * N := (canonical_pointer (fst kv), snd kv).

Definition path_ok (p : list str) : Prop := p <> [[]].

Definition refines (st : rstate) (s : sstate) : Prop :=
  r_root st = s_doc s /\ r_funs st = map ckey (s_calls s) /\ Forall (fun kv => path_ok (fst kv)) (s_calls s).

Lemma fget_map_ckey calls path :
  Forall (fun kv => path_ok (fst kv)) calls -> path_ok path ->
  fget (map ckey calls) (canonical_pointer path) = cget calls path.
Proof.
  intros F Hp. induction calls as [|[k v] calls IH]; [reflexivity|].
  inversion F as [|? ? Hk Hc]; subst. cbn [map ckey fget cget fst snd].
  rewrite canonical_pointer_eqb by assumption. destruct (path_eqb k path); [reflexivity|now apply IH].
Qed.

Lemma fset_map_ckey calls path fid :
  Forall (fun kv => path_ok (fst kv)) calls -> path_ok path ->
  fset (map ckey calls) (canonical_pointer path) fid = map ckey (cset calls path fid).
Proof.
  intros F Hp. induction calls as [|[k v] calls IH]; [reflexivity|].
  inversion F as [|? ? Hk Hc]; subst. cbn [map ckey fset cset fst snd].
  rewrite canonical_pointer_eqb by assumption. destruct (path_eqb k path); [reflexivity|].
  cbn [map ckey fst snd]. now rewrite IH.
Qed.

Lemma cset_ok calls path fid :
  Forall (fun kv => path_ok (fst kv)) calls -> path_ok path ->
  Forall (fun kv => path_ok (fst kv)) (cset calls path fid).
Proof.
  intros F Hp. induction calls as [|[k v] calls IH]; cbn [cset]; [repeat constructor; exact Hp|].
  inversion F; subst. destruct (path_eqb k path); constructor; auto.
Qed.

Lemma sp_decode_ok p path : sp_decode p = Some path -> path_ok path.
Proof.
  intros H. apply (parse_pointer_not_single_empty p). rewrite parse_pointer_spec, H. reflexivity.
Qed.

Lemma sp_decode_reg_ok p path : sp_decode_reg p = Some path -> path_ok path.
Proof.
  unfold sp_decode_reg. destruct p as [|c rest]; [intros [= <-]; discriminate|].
  destruct (c =? SLASH); apply sp_decode_ok.
Qed.

Lemma obs_of_res_get (r : res json) g :
  match r with Ok v => g = Some v | Err e => g = None /\ nf_class e end ->
  obs_out (of_res r) = match g with Some v => OOk v | None => OErr METHOD_NOT_FOUND end.
Proof.
  destruct r as [v|e]; cbn [of_res obs_out].
  - intros ->. reflexivity.
  - intros [-> E]. now rewrite E.
Qed.

(** a request *)
Lemma dispatch_refines st s p body :
  refines st s ->
  let '(st', r, lg) := dispatch st p body in
  let '(s', o, lg') := sp_request s p body in
  refines st' s' /\ obs_out r = o /\ lg = lg'.
Proof.
  intros [Hroot [Hfuns Hok]].
  unfold dispatch, sp_request. rewrite canonical_key_agrees, parse_pointer_spec.
  destruct (sp_decode p) as [path|] eqn:Dp.
  2:{ repeat split; assumption. }
  pose proof (sp_decode_ok p path Dp) as Pok.
  rewrite Hfuns, (fget_map_ckey _ _ Hok Pok).
  destruct body as [payload|].
  - unfold dispatch_decided. destruct (cget (s_calls s) path) as [fid|].
    + repeat split; assumption.
    + unfold dispatch_write. rewrite parse_pointer_spec, Dp.
      destruct path as [|t path'].
      * destruct payload; try (repeat split; assumption).
        rewrite Hroot. repeat split; assumption.
      * pose proof (set_ptr_spec (t :: path') (r_root st) payload) as S. rewrite Hroot in *.
        destruct (set_ptr (s_doc s) (t :: path') payload) as [d'|e].
        -- rewrite S. rewrite canonical_pointer_encode. repeat split; assumption.
        -- destruct S as [-> E]. cbn [obs_out]. rewrite E. repeat split; assumption.
  - destruct (cget (s_calls s) path) as [fid|].
    + rewrite canonical_pointer_encode. repeat split; assumption.
    + pose proof (resolve_spec path (r_root st)) as S. rewrite Hroot in S.
      rewrite Hroot. rewrite (obs_of_res_get _ _ S).
      destruct (sp_get (s_doc s) path); repeat split; assumption.
Qed.

(** the mount *)
Lemma strip_pre_self_iff np path : str_eqb path np = true <-> strip_pre np path = Some [].
Proof.
  revert path; induction np as [|a np IH]; intros path.
  - cbn [strip_pre]. destruct path; cbn [str_eqb]; split; intros H; try reflexivity; discriminate.
  - destruct path as [|b path]; cbn [strip_pre str_eqb]; [split; discriminate|].
    rewrite (N.eqb_sym b a). destruct (a =? b); cbn [andb]; [apply IH|split; discriminate].
Qed.

Lemma strip_pre_app np path rest : strip_pre np path = Some rest <-> path = np ++ rest.
Proof.
  revert path; induction np as [|a np IH]; intros path; cbn [strip_pre app].
  - split; congruence.
  - destruct path as [|b path]; [split; discriminate|].
    destruct (a =? b) eqn:E.
    + apply N.eqb_eq in E. subst. rewrite IH. split; congruence.
    + split; [discriminate|]. intros H. injection H as -> _. rewrite N.eqb_refl in E. discriminate.
Qed.

Lemma dispatch_root_forms st b : dispatch st [SLASH] b = dispatch st [] b.
Proof. reflexivity. Qed.

Lemma sp_request_root_forms s b : sp_request s [SLASH] b = sp_request s [] b.
Proof. reflexivity. Qed.

(** through a mount: no route unless the path is the prefix or continues it
    with '/', otherwise exactly the request for what follows the prefix *)
Lemma route_mount pre st path b :
  route (Some pre) st path b =
  match sp_mount_rest (normalize_prefix pre) path with
  | None => (st, RNoRoute, [])
  | Some rest => match decode_body b with
                 | Err e => (st, RErr e, [])
                 | Ok body => dispatch st rest body
                 end
  end.
Proof.
  unfold route, sp_mount_rest, mount_matches, pointer_for.
  destruct (normalize_prefix pre) as [|a np] eqn:N.
  - cbn [negb]. destruct path; [|reflexivity]. destruct (decode_body b); [|reflexivity].
    apply dispatch_root_forms.
  - set (npp := a :: np) in *. destruct (str_eqb path npp) eqn:E.
    + cbn [orb negb]. apply strip_pre_self_iff in E. rewrite E. cbn [is_root_ptr orb].
      destruct (decode_body b); [|reflexivity]. apply dispatch_root_forms.
    + cbn [orb]. destruct (strip_pre npp path) as [rest|] eqn:S; [|reflexivity].
      destruct rest as [|c rest].
      * apply strip_pre_self_iff in S. congruence.
      * cbn [starts_with is_root_ptr]. destruct (c =? SLASH) eqn:C.
        -- cbn [negb]. rewrite orb_true_r. reflexivity.
        -- cbn [negb]. destruct rest; cbn [orb]; reflexivity.
Qed.

Lemma decode_body_class b e : decode_body b = Err e -> err_code e = INVALID_BODY.
Proof. destruct b as [| |[|]|[|]|]; cbn; try discriminate. intros [= <-]. reflexivity. Qed.

Lemma nolog_eq x : nolog x = (fst x, snd x, []). Proof. reflexivity. Qed.

(** every operation *)
Lemma rstep_refines prefix st s o :
  refines st s ->
  let '(st', r, lg) := rstep prefix st o in
  let '(s', ob, lg') := sstep prefix s o in
  refines st' s' /\ obs_out r = ob /\ lg = lg'.
Proof.
  intros R. pose proof R as [Hroot [Hfuns Hok]].
  destruct o as [p v|p fid|v|ob|p ob|p|p b|path b]; cbn [rstep sstep].
  - (* register_value *)
    unfold register_value. rewrite parse_registration_path_spec.
    destruct (sp_decode_reg p) as [path|]; cbn [nolog fst snd]; [|repeat split; assumption].
    destruct path as [|t path']; cbn [fst snd]; [repeat split; assumption|].
    rewrite reg_at_spec by discriminate. rewrite Hroot. repeat split; assumption.
  - (* register_function *)
    unfold register_function. rewrite parse_registration_path_spec.
    destruct (sp_decode_reg p) as [path|] eqn:Dp; cbn [nolog fst snd]; [|repeat split; assumption].
    destruct path as [|t path']; cbn [fst snd]; [repeat split; assumption|].
    pose proof (sp_decode_reg_ok p _ Dp) as Pok.
    rewrite reg_at_spec by discriminate. rewrite Hroot, Hfuns.
    rewrite (fset_map_ckey _ _ fid Hok Pok).
    repeat split. now apply cset_ok.
  - repeat split; assumption.
  - unfold merge_root. cbn [nolog fst snd]. rewrite Hroot. repeat split; assumption.
  - (* merge_at *)
    unfold merge_at. rewrite parse_registration_path_spec.
    destruct (sp_decode_reg p) as [path|]; cbn [nolog fst snd]; [|repeat split; assumption].
    destruct path as [|t path'].
    + unfold merge_root. cbn [fst snd]. rewrite Hroot. repeat split; assumption.
    + pose proof (merge_ptr_spec (t :: path') (r_root st) ob) as M. rewrite Hroot in *.
      destruct (merge_ptr (s_doc s) (t :: path') ob) as [d'|e]; cbn [fst snd].
      * destruct M as [m [G P]]. rewrite G, P. repeat split; assumption.
      * destruct M as [E M]. cbn [obs_out]. rewrite E.
        destruct (sp_get (s_doc s) (t :: path')) as [[| | | | |m]|] eqn:G;
          try (repeat split; assumption). exfalso. now apply (M m).
  - (* read_value *)
    unfold read_value. rewrite parse_pointer_spec.
    destruct (sp_decode p) as [path|]; [|repeat split; assumption].
    pose proof (resolve_spec path (r_root st)) as S. rewrite Hroot in S.
    rewrite Hroot. rewrite (obs_of_res_get _ _ S).
    destruct (sp_get (s_doc s) path); repeat split; assumption.
  - apply (dispatch_refines st s p b R).
  - (* route *)
    destruct prefix as [pre|]; [|repeat split; assumption].
    rewrite route_mount. destruct (sp_mount_rest (normalize_prefix pre) path) as [rest|]; [|repeat split; assumption].
    destruct (decode_body b) as [body|e] eqn:Db.
    + apply (dispatch_refines st s rest body R).
    + cbn [obs_out]. rewrite (decode_body_class b e Db). repeat split; assumption.
Qed.

Lemma refines0 : refines rstate0 sstate0.
Proof. repeat split. constructor. Qed.

Lemma trace_refines prefix ops : forall st s,
  refines st s -> map observe (rtrace prefix st ops) = strace prefix s ops.
Proof.
  induction ops as [|o ops IH]; intros st s R; [reflexivity|].
  cbn [rtrace strace]. pose proof (rstep_refines prefix st s o R) as H.
  destruct (rstep prefix st o) as [[st' r] lg]. destruct (sstep prefix s o) as [[s' ob] lg'].
  destruct H as [R' [E1 E2]]. cbn [map observe]. rewrite (IH st' s' R'), E1, E2.
  destruct R' as [-> _]. reflexivity.
Qed.

Lemma model_refines_spec c : model_C14 c = spec_C14 c.
Proof. unfold model_C14, spec_C14, model_full. apply trace_refines. exact refines0. Qed.

(** ** the oracle *)
Lemma oout_eqb_eq a b : oout_eqb a b = true <-> a = b.
Proof.
  destruct a, b; cbn [oout_eqb]; try (split; [discriminate|discriminate]); try (split; reflexivity).
  - rewrite json_eqb_eq. split; congruence.
  - rewrite N.eqb_eq. split; congruence.
Qed.

Lemma call_eqb_eq a b : call_eqb a b = true <-> a = b.
Proof.
  destruct a as [f x], b as [g y]. unfold call_eqb. cbn [fst snd].
  rewrite andb_true_iff, N.eqb_eq, json_eqb_eq. split; [intros [-> ->]; reflexivity|intros E; inversion E; auto].
Qed.

Lemma ostep_eqb_eq a b : ostep_eqb a b = true <-> a = b.
Proof.
  destruct a as [o1 r1 l1], b as [o2 r2 l2]. unfold ostep_eqb. cbn [o_out o_root o_log].
  rewrite !andb_true_iff, oout_eqb_eq, json_eqb_eq, (leqb_eq call_eqb call_eqb_eq).
  split; [intros [[-> ->] ->]; reflexivity|intros E; inversion E; auto].
Qed.

Lemma ok_C14_iff c tr : ok_C14 c tr = true <-> tr = spec_C14 c.
Proof. unfold ok_C14. apply (leqb_eq ostep_eqb ostep_eqb_eq). Qed.

Lemma ok_model_C14 c : ok_C14 c (model_C14 c) = true.
Proof. apply ok_C14_iff. apply model_refines_spec. Qed.
