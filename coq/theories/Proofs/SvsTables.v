(** The ErrorCode discriminants that the renderings of the sinks-and-sessions mode use
    (Base/GenSinkCommon.v) are the ones re-read from /repo/src/constants.rs by bin/extract-tables
    (each clause degrades to True when the source could not be parsed), and they are the codes of
    the model's responses (Model/Svs.v). *)
From RepeV Require Import Gen.Tables Proofs.TablesC01 Model.Svs Base.GenSinkCommon.

Lemma svs_error_codes_agree :
  agrees src_ErrorCode_InvalidQuery ERRC_InvalidQuery /\ agrees src_ErrorCode_InvalidBody ERRC_InvalidBody /\
  agrees src_ErrorCode_MethodNotFound ERRC_MethodNotFound /\ agrees src_ErrorCode_ResourceExhausted ERRC_ResourceExhausted /\
  agrees src_ErrorCode_InternalError ERRC_InternalError.
Proof. repeat split; vm_compute; first [reflexivity | exact I]. Qed.

Lemma svs_model_codes : ERRC_InvalidQuery = EC_INVALID_QUERY /\ ERRC_InternalError = EC_INTERNAL.
Proof. split; reflexivity. Qed.
