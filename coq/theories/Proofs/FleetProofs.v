(** Proofs about the fleet retry loop (Model/Fleet.v): the table-driven loop is
    the specification loop, attempt bounds, the shape of the attempts, the
    cache is never left wedged, the repaired defect, and the oracle [ok_C19]
    accepts the model. *)
From RepeV Require Import Model.Fleet Gen.Tables Proofs.TablesC01.
From Coq Require Import ZifyBool ZifyN ZifyNat.

(** ** the tables re-read from the sources *)
Lemma fleet_table_agrees : agrees src_fleet_retryable retry_table.
Proof. vm_compute. first [reflexivity | exact I]. Qed.
Lemma async_fleet_table_agrees : agrees src_async_fleet_retryable retry_table.
Proof. vm_compute. first [reflexivity | exact I]. Qed.
Lemma source_tables_agree :
  agrees src_fleet_retryable retry_table /\ agrees src_async_fleet_retryable retry_table.
Proof. split; [exact fleet_table_agrees | exact async_fleet_table_agrees]. Qed.

(** ** the loop is the specification *)
Lemma retryable_classify k :
  retryable_with retry_table k = match classify (RErr k) with Transport => true | _ => false end.
Proof. destruct k; reflexivity. Qed.

Lemma retryable_iff_transport k : retryable k = true <-> classify (RErr k) = Transport.
Proof. destruct k; cbv; split; intros H; try reflexivity; discriminate H. Qed.

Lemma loop_is_spec f : forall s c made l,
  retry_loop retry_table f s c made l = spec_loop f s c made l.
Proof.
  induction f as [|f IH]; intros s c made l; cbn [retry_loop spec_loop]; [reflexivity|].
  destruct (next_b s) as [b s']. destruct (attempt b c) as [r c1].
  destruct r as [|k]; [reflexivity|].
  rewrite retryable_classify.
  destruct (classify (RErr k)); [apply IH | reflexivity | reflexivity].
Qed.

Lemma call_is_spec max script c : call max script c = spec_call max script c.
Proof. unfold call, spec_call. apply loop_is_spec. Qed.

(** ** counting attempts, consuming the script (any table) *)
Lemma next_b_length s b s' :
  next_b s = (b, s') -> N.of_nat (length s') = N.of_nat (length s) - 1.
Proof.
  destruct s as [|x s]; cbn [next_b]; intros H; inversion H; subst; cbn [length]; lia.
Qed.

Lemma loop_facts tbl f : forall s c made l,
  made <= co_attempts (retry_loop tbl f s c made l) /\
  co_attempts (retry_loop tbl f s c made l) <= made + N.of_nat f /\
  ((1 <= f)%nat -> made + 1 <= co_attempts (retry_loop tbl f s c made l)) /\
  N.of_nat (length (co_script (retry_loop tbl f s c made l)))
  = N.of_nat (length s) - (co_attempts (retry_loop tbl f s c made l) - made).
Proof.
  induction f as [|f IH]; intros s c made l; cbn [retry_loop].
  - cbn [co_attempts co_script]. lia.
  - destruct (next_b s) as [b s'] eqn:Hn. pose proof (next_b_length s b s' Hn) as Hl.
    destruct (attempt b c) as [r c1]. destruct r as [|k].
    + cbn [co_attempts co_script]. lia.
    + destruct (retryable_with tbl k).
      * specialize (IH s' CNone (made + 1) (RErr k)). lia.
      * cbn [co_attempts co_script]. lia.
Qed.

Lemma loop_script_nil tbl f : forall c made l, co_script (retry_loop tbl f [] c made l) = [].
Proof.
  intros c made l. pose proof (loop_facts tbl f [] c made l) as (_ & _ & _ & H).
  destruct (co_script (retry_loop tbl f [] c made l)); [reflexivity|]. cbn [length] in H. lia.
Qed.

Lemma attempts_le_max max script c : co_attempts (call max script c) <= N.of_nat max.
Proof. unfold call. pose proof (loop_facts retry_table max script c 0 (RErr KNotConnected)). lia. Qed.

Lemma at_least_one_attempt max script c :
  (1 <= max)%nat -> 1 <= co_attempts (call max script c).
Proof.
  intros H. unfold call.
  pose proof (loop_facts retry_table max script c 0 (RErr KNotConnected)). lia.
Qed.

(** ** the attempts the specification makes *)
Fixpoint attempt_results (fuel : nat) (script : list behaviour) (c : cache) : list result :=
  match fuel with
  | O => []
  | S fuel' =>
      let '(b, script') := next_b script in
      let '(r, _) := attempt b c in
      match classify r with
      | Transport => r :: attempt_results fuel' script' CNone
      | Reply | MalformedReply => [r]
      end
  end.

Lemma last_cons {A} (a : A) l d : last (a :: l) d = last l a.
Proof. revert a; induction l as [|x l IH]; intros a; [reflexivity|]. cbn [last] in *. destruct l; [reflexivity|]. apply IH. Qed.

Lemma spec_attempts_count f : forall s c made l,
  co_attempts (spec_loop f s c made l) = made + N.of_nat (length (attempt_results f s c)).
Proof.
  induction f as [|f IH]; intros s c made l; cbn [spec_loop attempt_results].
  - cbn [co_attempts length]. lia.
  - destruct (next_b s) as [b s']. destruct (attempt b c) as [r c1].
    destruct (classify r).
    + rewrite IH. cbn [length]. lia.
    + cbn [co_attempts length]. lia.
    + cbn [co_attempts length]. lia.
Qed.

Lemma spec_retries_transport f : forall s c,
  Forall (fun r => classify r = Transport) (removelast (attempt_results f s c)).
Proof.
  induction f as [|f IH]; intros s c; cbn [attempt_results].
  - constructor.
  - destruct (next_b s) as [b s']. destruct (attempt b c) as [r c1].
    destruct (classify r) eqn:E.
    + specialize (IH s' CNone). cbn [removelast].
      destruct (attempt_results f s' CNone) as [|x xs]; [constructor|].
      constructor; [exact E | exact IH].
    + constructor.
    + constructor.
Qed.

Lemma spec_result_last f : forall s c made l,
  co_result (spec_loop f s c made l) = last (attempt_results f s c) l.
Proof.
  induction f as [|f IH]; intros s c made l; cbn [spec_loop attempt_results].
  - reflexivity.
  - destruct (next_b s) as [b s']. destruct (attempt b c) as [r c1].
    destruct (classify r).
    + rewrite last_cons. apply IH.
    + reflexivity.
    + reflexivity.
Qed.

Lemma spec_stops f : forall s c l,
  classify (last (attempt_results f s c) l) <> Transport \/ length (attempt_results f s c) = f.
Proof.
  induction f as [|f IH]; intros s c l; cbn [attempt_results].
  - right. reflexivity.
  - destruct (next_b s) as [b s']. destruct (attempt b c) as [r c1].
    destruct (classify r) eqn:E.
    + rewrite last_cons. destruct (IH s' CNone r) as [H|H]; [left; exact H|right; cbn [length]; now rewrite H].
    + left. cbn [last]. rewrite E. discriminate.
    + left. cbn [last]. rewrite E. discriminate.
Qed.

Lemma retries_only_after_transport max script c :
  let rs := attempt_results max script c in
  N.of_nat (length rs) = co_attempts (spec_call max script c) /\
  Forall (fun r => classify r = Transport) (removelast rs).
Proof.
  cbv zeta. split; [|apply spec_retries_transport].
  unfold spec_call. rewrite spec_attempts_count. lia.
Qed.

Lemma stops_at_first_reply max script c :
  let rs := attempt_results max script c in
  co_result (spec_call max script c) = last rs (RErr KNotConnected) /\
  (classify (last rs (RErr KNotConnected)) <> Transport \/ length rs = max).
Proof.
  cbv zeta. split; [unfold spec_call; apply spec_result_last | apply spec_stops].
Qed.

(** ** never wedged *)
Lemma never_wedged max c : (1 <= max)%nat ->
  let o1 := call max [] c in
  is_value (co_result o1) = true \/ is_value (co_result (call max [] (co_cache o1))) = true.
Proof.
  intros H. destruct max as [|[|f]]; [lia| |]; destruct c; cbv zeta; unfold call; cbn; auto.
Qed.

Lemma never_wedged_after_any_script max script c : (1 <= max)%nat ->
  let o := call max script c in
  let o1 := call max [] (co_cache o) in
  is_value (co_result o1) = true \/ is_value (co_result (call max [] (co_cache o1))) = true.
Proof. intros H. cbv zeta. exact (never_wedged max _ H). Qed.

(** ** the repaired defect *)
Definition old_table : list bool := [true; true; true; true; true; true; false; true; true].

Lemma old_table_wedges max n : (1 <= max)%nat ->
  Forall (fun '(a, r) => r = RErr KBrokenPipe) (follow_ups old_table max n [] CDead).
Proof.
  intros H. destruct max as [|f]; [lia|]. clear H.
  induction n as [|n IH]; cbn [follow_ups]; [constructor|].
  cbn [retry_loop next_b attempt retryable_with kind_index old_table nth co_attempts co_result co_script co_cache].
  constructor; [reflexivity | exact IH].
Qed.

(** ** tag filtering *)
Lemma broadcast_targets node_tags want i t :
  nth_error node_tags i = Some t ->
  nth_error (addressed node_tags want) i = Some (N.land t want =? want).
Proof. intros H. unfold addressed. exact (map_nth_error (fun t => N.land t want =? want) i node_tags H). Qed.

Lemma broadcast_one_per_node node_tags want : length (addressed node_tags want) = length node_tags.
Proof. unfold addressed. apply map_length. Qed.

(** ** the oracle accepts the model *)
Lemma result_class_eqb_refl r : result_class_eqb r r = true.
Proof. destruct r as [|k]; [reflexivity|]. destruct k; reflexivity. Qed.

Lemma follow_ups_bounds tbl max : (1 <= max)%nat -> forall n s c,
  forallb (fun '(a, _) => (a <=? N.of_nat max) && (1 <=? a)) (follow_ups tbl max n s c) = true.
Proof.
  intros H. induction n as [|n IH]; intros s c; cbn [follow_ups forallb]; [reflexivity|].
  rewrite IH. pose proof (loop_facts tbl max s c 0 (RErr KNotConnected)). lia.
Qed.

Definition two_ok (rs : list result) : bool :=
  match rs with r1 :: r2 :: _ => is_value r1 || is_value r2 | _ => true end.

Lemma healthy_results_0 fl : healthy_results 0 fl = map snd fl.
Proof.
  induction fl as [|[a r] fl IH]; cbn [healthy_results map snd]; [reflexivity|].
  rewrite N.eqb_refl, IH. reflexivity.
Qed.

Lemma follow_ups_healthy_two max : (1 <= max)%nat -> forall n c,
  two_ok (map snd (follow_ups retry_table max n [] c)) = true.
Proof.
  intros H n c. destruct n as [|[|n]]; cbn [follow_ups map snd two_ok]; try reflexivity.
  rewrite loop_script_nil. fold (call max [] c). fold (call max [] (co_cache (call max [] c))).
  destruct (never_wedged max c H) as [E|E]; rewrite E; [reflexivity | apply orb_true_r].
Qed.

Lemma follow_ups_not_wedged max : (1 <= max)%nat -> forall n s c,
  two_ok (healthy_results (N.of_nat (length s)) (follow_ups retry_table max n s c)) = true.
Proof.
  intros H. induction n as [|n IH]; intros s c; [reflexivity|].
  destruct s as [|b s].
  - change (N.of_nat (length (@nil behaviour))) with 0. rewrite healthy_results_0.
    apply follow_ups_healthy_two. exact H.
  - cbn [follow_ups healthy_results].
    pose proof (loop_facts retry_table max (b :: s) c 0 (RErr KNotConnected)) as (_ & _ & _ & Hl).
    destruct (N.eqb_spec (N.of_nat (length (b :: s))) 0) as [E|_]; [cbn [length] in E; lia|].
    rewrite N.sub_0_r in Hl. rewrite <- Hl. apply IH.
Qed.

Lemma ok_model_C19 max script n : (1 <= max)%nat -> ok_C19 max script (model_C19 max script n) = true.
Proof.
  intros H. unfold ok_C19, model_C19. cbn [f_attempts f_result f_follow].
  rewrite <- call_is_spec. rewrite N.eqb_refl, result_class_eqb_refl.
  rewrite (follow_ups_bounds retry_table max H).
  pose proof (attempts_le_max max script CNone) as Hle.
  destruct (N.leb_spec (co_attempts (call max script CNone)) (N.of_nat max)) as [_|Hc]; [|lia].
  cbn [andb].
  pose proof (loop_facts retry_table max script CNone 0 (RErr KNotConnected)) as (_ & _ & _ & Hl).
  fold (call max script CNone) in Hl. rewrite N.sub_0_r in Hl. rewrite <- Hl.
  exact (follow_ups_not_wedged max H n _ _).
Qed.
