(** Agreement of the hand-written models of the stream readers (Model/Message.v,
    Section Readers: [read_message], [read_message_into], [alloc]) with the Gallina
    rendering that bin/rs2v regenerates from /repo/src/io.rs on every run
    (Gen/ReadersGen.v).  Oracles: the remaining byte stream ([read_exact] of the
    model is ONE [read_exact(r, ..)] of the code) and the allocator ([can_alloc]:
    [try_reserve_exact] asks it for the new total length; spare capacity is not
    modelled).  The statements are equalities of outcomes for every stream and
    every allocator, [Panic] branches included.  A function that could not be
    translated is [None] and its lemma degrades to [True]. *)
From RepeV Require Import Model.Message Proofs.HeaderProofs Proofs.MessageProofs Base.GenVecPrelude Gen.FrameGen Gen.ReadersGen.
From RepeV Require Import Proofs.FrameGenAgree.
From RepeV Require Export Proofs.GenAgreeBase.
From Coq Require Import ZifyBool ZifyN ZifyNat.
Ltac Zify.zify_post_hook ::= Z.div_mod_to_equations.

Ltac len_lia := unfold lenN, HEADER_SIZE, byte in *; lia.

(** ** list facts *)
Lemma lenN_repeat {A} (x : A) n : lenN (repeat x n) = N.of_nat n.
Proof. unfold lenN. now rewrite repeat_length. Qed.

Lemma vec_resize_nil n x : vec_resize [] n x = repeat x (N.to_nat n).
Proof.
  unfold vec_resize, lenN. cbn [length]. destruct (n <=? N.of_nat 0) eqn:E.
  - replace (N.to_nat n) with 0%nat by lia. reflexivity.
  - now rewrite Nat.sub_0_r.
Qed.

Lemma vec_resize_grow (v : list byte) n x :
  lenN v <= n -> vec_resize v n x = v ++ repeat x (N.to_nat n - length v).
Proof.
  intros H. unfold vec_resize. destruct (n <=? lenN v) eqn:E; [|reflexivity].
  assert (Hn : N.to_nat n = length v) by (unfold lenN in *; lia).
  rewrite Hn, firstn_all, Nat.sub_diag. cbn [repeat]. now rewrite app_nil_r.
Qed.

Lemma read_exact_ok src n a rest : read_exact src n = Ok (a, rest) -> lenN a = n /\ a ++ rest = src.
Proof.
  unfold read_exact. destruct (lenN src <? n) eqn:E; intros H; inversion H; subst. split.
  - unfold lenN in *. rewrite firstn_length. lia.
  - apply firstn_skipn.
Qed.

Lemma slice_all_chk (v : list byte) n : n = lenN v -> slice_chk v 0 n = Ok v.
Proof.
  intros ->. rewrite slice_chk_ok by (unfold lenN; lia). f_equal. apply slice_all. unfold lenN. lia.
Qed.

Lemma slice_tail_chk (x y : list byte) a b : a = lenN x -> b = lenN x + lenN y -> slice_chk (x ++ y) a b = Ok y.
Proof.
  intros -> ->. rewrite slice_chk_ok by (unfold lenN; rewrite ?app_length; lia). f_equal.
  unfold slice, lenN. replace (N.to_nat (N.of_nat (length x))) with (length x) by lia.
  rewrite skipn_app, skipn_all, Nat.sub_diag. cbn [app skipn].
  replace (N.to_nat (N.of_nat (length x) + N.of_nat (length y)) - length x)%nat with (length y) by lia.
  apply firstn_all.
Qed.

Lemma copy_chk_all (v src : list byte) n : n = lenN v -> lenN src = lenN v -> copy_chk v 0 n src = Ok src.
Proof.
  intros -> Hs. unfold copy_chk. replace ((0 <=? lenN v) && (lenN v <=? lenN v) && (lenN v - 0 =? lenN src)) with true by lia.
  f_equal. unfold overwrite. replace (N.to_nat 0) with 0%nat by reflexivity. cbn [firstn app Nat.add].
  rewrite skipn_all2 by (unfold lenN in *; lia). apply app_nil_r.
Qed.

Lemma copy_chk_tail (x y src : list byte) a b :
  a = lenN x -> b = lenN x + lenN y -> lenN src = lenN y -> copy_chk (x ++ y) a b src = Ok (x ++ src).
Proof.
  intros -> -> Hs. unfold copy_chk.
  replace ((lenN x <=? lenN x + lenN y) && (lenN x + lenN y <=? lenN (x ++ y)) && (lenN x + lenN y - lenN x =? lenN src)) with true
    by (unfold lenN in *; rewrite app_length; lia).
  f_equal. replace (x ++ y) with (x ++ y ++ []) by now rewrite app_nil_r.
  rewrite overwrite_mid by (unfold lenN in *; lia). now rewrite app_nil_r.
Qed.

(** ** grow_zeroed, zeroed_payload *)
(** the allocator is asked for the new total length ([max] because [try_reserve_exact] is given the
    saturating difference to the current length), then the buffer is resized with zeros *)
Lemma grow_zeroed_agrees :
  match gen_grow_zeroed with
  | Some f => forall can_alloc buf n, lenN buf < two64 -> n < two64 ->
      f can_alloc buf n = (do _ <- alloc can_alloc (N.max (lenN buf) n); Ok (vec_resize buf n 0))
  | None => True
  end.
Proof.
  gen_start. all: intros can_alloc buf n Hb Hn; unfold try_reserve_or, alloc; cbv zeta.
  all: replace (lenN buf + (n - lenN buf)) with (N.max (lenN buf) n) by lia.
  all: replace (N.max (lenN buf) n <? two64) with true by lia; cbn [andb].
  all: destruct (can_alloc (N.max (lenN buf) n)); reflexivity.
Qed.

Lemma zeroed_payload_agrees :
  match gen_zeroed_payload with
  | Some f => forall can_alloc n, n < two64 ->
      f can_alloc n = (do _ <- alloc can_alloc n; Ok (repeat 0 (N.to_nat n)))
  | None => True
  end.
Proof.
  pose proof grow_zeroed_agrees as Hg.
  gen_start. all: intros can_alloc n Hn; callee Hg; cbv zeta.
  all: rewrite Hg by (try exact Hn; unfold lenN; cbn [length]; lia).
  all: replace (N.max (lenN (@nil byte)) n) with n by (unfold lenN; cbn [length]; lia).
  all: rewrite vec_resize_nil; destruct (alloc can_alloc n) as [[]| | |]; reflexivity.
Qed.

(** ** read_message *)
Lemma negb_eqb0 x : negb (x =? 0) = (0 <? x).
Proof. lia. Qed.
Ltac split_ifs :=
  repeat (match goal with
          | |- context [if ?b then _ else _] => destruct b eqn:?
          end; cbv beta iota in *; try discriminate).

Lemma read_message_agrees : agrees2 gen_read_message read_message.
Proof.
  pose proof decode_agrees as Hd. pose proof msg_new_agrees as Hn. pose proof zeroed_payload_agrees as Hz.
  gen_start. all: intros can_alloc src; callee Hd; callee Hn; callee Hz; unfold read_message, read_exact_fill; cbv zeta.
  all: rewrite lenN_repeat, N2Nat.id.
  all: destruct (read_exact src HEADER_SIZE) as [[hb s1]| | |] eqn:H0; cbn [bind]; try reflexivity.
  all: rewrite Hd; destruct (decode hb) as [h| | |] eqn:Hh; cbn [bind]; try reflexivity.
  all: apply decode_ok_spec in Hh as (_ & _ & _ & Hlen & Hlt).
  all: rewrite !Hz by (unfold HEADER_SIZE in *; lia).
  all: destruct (alloc can_alloc (h_qlen h)) as [[]| | |]; cbn [bind]; try reflexivity.
  all: rewrite !lenN_repeat, !N2Nat.id.
  all: rewrite ?negb_eqb0.
  all: replace (h_qlen h =? 0) with (negb (0 <? h_qlen h)) by lia; replace (h_blen h =? 0) with (negb (0 <? h_blen h)) by lia.
  all: destruct (0 <? h_qlen h) eqn:Eq; cbn [negb]; cbv beta iota;
       [ destruct (read_exact s1 (h_qlen h)) as [[q s2]| | |] eqn:H1; cbn [bind]; try reflexivity;
         apply read_exact_ok in H1 as (Lq & _)
       | replace (h_qlen h) with 0 in * by lia; change (N.to_nat 0) with 0%nat; cbn [repeat bind] ].
  all: destruct (alloc can_alloc (h_blen h)) as [[]| | |]; cbn [bind]; try reflexivity.
  all: rewrite ?lenN_repeat, ?N2Nat.id, ?negb_eqb0.
  all: destruct (0 <? h_blen h) eqn:Eb; cbn [negb]; cbv beta iota;
       [ match goal with |- context [read_exact ?s ?n] =>
           destruct (read_exact s n) as [[b s3]| | |] eqn:H2; cbn [bind]; try reflexivity;
           apply read_exact_ok in H2 as (Lb & _) end
       | replace (h_blen h) with 0 in * by lia; change (N.to_nat 0) with 0%nat; cbn [repeat bind] ].
  all: rewrite Hn; match goal with |- context [if ?c then _ else _] => replace c with true by (unfold lenN in *; cbn [length] in *; len_lia) end.
  all: reflexivity.
Qed.

(** ** read_message_into: the buffer passed in is cleared first, so its contents do not matter *)
Lemma read_message_into_agrees :
  match gen_read_message_into with
  | Some f => forall can_alloc buf src, f can_alloc buf src = read_message_into can_alloc src
  | None => True
  end.
Proof.
  pose proof decode_agrees as Hd. pose proof grow_zeroed_agrees as Hg.
  gen_start. all: intros can_alloc buf0 src; callee Hd; callee Hg; unfold read_message_into, read_exact_fill; cbv zeta.
  (* the cleared buffer is filled by `resize(HEADER_SIZE, 0)` or by appending a zeroed array: both are 48 zeros *)
  all: rewrite ?vec_resize_nil; cbn [app]; change (N.to_nat HEADER_SIZE) with 48%nat.
  all: rewrite slice_all_chk by (now rewrite lenN_repeat); cbn [bind]; rewrite lenN_repeat; change (N.of_nat 48) with HEADER_SIZE.
  all: destruct (read_exact src HEADER_SIZE) as [[hb s1]| | |] eqn:H0; cbn [bind]; try reflexivity.
  all: apply read_exact_ok in H0 as (Lh & _).
  all: rewrite copy_chk_all by (rewrite ?lenN_repeat; len_lia); cbn [bind].
  all: rewrite slice_all_chk by len_lia; cbn [bind].
  all: rewrite Hd; destruct (decode hb) as [h| | |] eqn:Hh; cbn [bind]; try reflexivity.
  all: apply decode_ok_spec in Hh as (_ & _ & _ & Hlen & Hlt).
  all: rewrite Hg by len_lia.
  all: replace (N.max (lenN hb) (h_length h)) with (h_length h) by len_lia.
  all: destruct (alloc can_alloc (h_length h)) as [[]| | |]; cbn [bind]; try reflexivity.
  all: rewrite vec_resize_grow by len_lia.
  all: unfold byte in *; set (z := repeat 0 (N.to_nat (h_length h) - length hb)).
  all: assert (Lz : lenN z = h_length h - HEADER_SIZE) by (subst z; rewrite lenN_repeat; len_lia).
  all: clearbody z.
  all: assert (Lt : lenN (hb ++ z) = lenN hb + lenN z) by (unfold lenN; rewrite app_length; lia).
  all: rewrite slice_tail_chk by len_lia; cbn [bind]; rewrite Lz.
  all: match goal with |- context [read_exact ?s ?n] =>
         destruct (read_exact s n) as [[rest s2]| | |] eqn:H1; cbn [bind]; try reflexivity;
         apply read_exact_ok in H1 as (Lr & _) end.
  all: rewrite copy_chk_tail by len_lia; reflexivity.
Qed.

(** ** the bundle quoted by Props/C02.v: the clauses of Proofs/FrameGenAgree.v, then the stream readers *)
Lemma c02_source_translation_readers :
  agrees1 gen_decode decode /\
  agrees1 gen_from_slice from_slice /\
  agrees1 gen_from_slice_exact from_slice_exact /\
  agrees1 gen_view_from_slice view_from_slice /\
  agrees1 gen_view_from_slice_exact view_from_slice_exact /\
  match gen_grow_zeroed with
  | Some f => forall can_alloc buf n, lenN buf < two64 -> n < two64 ->
      f can_alloc buf n = (do _ <- alloc can_alloc (N.max (lenN buf) n); Ok (vec_resize buf n 0))
  | None => True
  end /\
  match gen_zeroed_payload with
  | Some f => forall can_alloc n, n < two64 ->
      f can_alloc n = (do _ <- alloc can_alloc n; Ok (repeat 0 (N.to_nat n)))
  | None => True
  end /\
  agrees2 gen_read_message read_message /\
  match gen_read_message_into with
  | Some f => forall can_alloc buf src, f can_alloc buf src = read_message_into can_alloc src
  | None => True
  end.
Proof.
  exact (conj decode_agrees (conj from_slice_agrees (conj from_slice_exact_agrees (conj view_from_slice_agrees
        (conj view_from_slice_exact_agrees (conj grow_zeroed_agrees (conj zeroed_payload_agrees
        (conj read_message_agrees read_message_into_agrees)))))))).
Qed.
