(** The C02 oracle accepts the model's observation for every byte string. *)
From RepeV Require Import Model.C02 Proofs.HeaderProofs Proofs.MessageProofs Proofs.C01Proofs.
From Coq Require Import ZifyBool ZifyN ZifyNat.
Ltac Zify.zify_post_hook ::= Z.div_mod_to_equations.

Lemma header_matches_of_spec bs h :
  decode_spec (firstn 48 bs) h -> header_matches bs h = true.
Proof.
  intros (H48 & Hf & Hs & Hl & _). rewrite firstn_length in H48.
  unfold header_matches.
  rewrite Hs, N.eqb_refl, Hl, N.eqb_refl, !andb_true_r.
  apply andb_true_iff. split; [unfold lenN; lia|].
  rewrite Hf. cbn [layout forallb h_length h_spec h_version h_notify h_reserved h_id h_qlen
                   h_blen h_qfmt h_bfmt h_ec].
  rewrite !field_firstn by lia. now rewrite !N.eqb_refl.
Qed.

Lemma decode_firstn bs : (48 <= length bs)%nat -> decode (firstn 48 bs) = decode bs.
Proof.
  intros H. unfold decode. rewrite firstn_length.
  replace (Nat.min 48 (length bs)) with 48%nat by lia.
  replace (N.of_nat (length bs) <? HEADER_SIZE) with false by (unfold HEADER_SIZE; lia).
  replace (N.of_nat 48 <? HEADER_SIZE) with false by reflexivity.
  now rewrite !field_firstn by lia.
Qed.

Lemma decode_app hb r : length hb = 48%nat -> decode (hb ++ r) = decode hb.
Proof.
  intros L. rewrite <- (decode_firstn (hb ++ r)) by (rewrite app_length; lia).
  rewrite firstn_app, L, Nat.sub_diag, firstn_O, app_nil_r.
  rewrite firstn_all2 by lia. reflexivity.
Qed.

Lemma decode_good bs h : decode bs = Ok h -> header_matches bs h = true.
Proof.
  intros D. apply header_matches_of_spec.
  assert (48 <= length bs)%nat as H48 by (apply decode_ok_spec in D; apply D).
  apply decode_ok_spec. now rewrite decode_firstn.
Qed.

Lemma parse_okb_of bs m : parse_ok bs m -> parse_okb false bs m = true.
Proof.
  intros (D & Hlen & Hq & Hb). unfold parse_okb.
  rewrite (header_matches_of_spec _ _ D). rewrite <- Hq, <- Hb, !bytes_eqb_refl.
  cbn [andb]. rewrite andb_true_r. lia.
Qed.

Lemma parse_okb_exact_of bs m :
  parse_ok bs m -> lenN bs = h_length (m_hdr m) -> parse_okb true bs m = true.
Proof.
  intros (D & Hlen & Hq & Hb) He. unfold parse_okb.
  rewrite (header_matches_of_spec _ _ D). rewrite <- Hq, <- Hb, !bytes_eqb_refl.
  cbn [andb]. rewrite andb_true_r. lia.
Qed.

Lemma res_ok_total {A} (r : outcome A) good :
  crashes r = false -> (forall a, r = Ok a -> good a = true) -> res_ok r good = true.
Proof. destruct r; cbn; intros C H; try discriminate; auto. Qed.

Lemma to_vec_length_N m : lens_ok m -> lenN (to_vec m) = h_length (m_hdr m).
Proof.
  intros (L1 & L2 & L3). unfold lenN in *. rewrite to_vec_length. unfold HEADER_SIZE in *. lia.
Qed.

Theorem ok_model_C02 bs : bytes_ok bs = true -> ok_C02 bs (model_C02 bs) = true.
Proof.
  intros Hb. unfold ok_C02, model_C02.
  cbn [p_decode p_from_slice p_from_slice_exact p_view p_view_exact p_read p_read_into].
  rewrite view_eq_owned, view_exact_eq.
  repeat match goal with |- (_ && _) = true => apply andb_intro end.
  - apply res_ok_total; [apply decode_total|]. intros h. apply decode_good.
  - apply res_ok_total; [apply from_slice_total|]. intros m F. apply parse_okb_of. now apply from_slice_ok.
  - apply res_ok_total; [apply from_slice_exact_total|]. intros m F.
    apply from_slice_exact_ok in F as [P L]. now apply parse_okb_exact_of.
  - apply res_ok_total; [apply from_slice_total|]. intros m F. apply parse_okb_of. now apply from_slice_ok.
  - apply res_ok_total; [apply from_slice_exact_total|]. intros m F.
    apply from_slice_exact_ok in F as [P L]. now apply parse_okb_exact_of.
  - apply res_ok_total; [apply read_message_total|]. intros [m rest] F.
    apply read_message_ok in F as [E Hok]; [|assumption].
    pose proof (msg_ok_lens m Hok) as Hl.
    assert (bytes_ok rest = true) as Hr.
    { rewrite E, bytes_ok_app in Hb. now apply andb_true_iff in Hb as [_ ?]. }
    apply andb_intro.
    + apply parse_okb_of. apply from_slice_ok. rewrite E. now apply from_slice_round_trip.
    + rewrite <- (to_vec_length_N m Hl). unfold lenN. rewrite Nat2N.id.
      rewrite E, skipn_app, skipn_all, Nat.sub_diag. apply bytes_eqb_refl.
  - apply res_ok_total; [apply read_message_into_total|]. intros [f rest] F.
    unfold read_message_into in F.
    apply bind_ok in F as ([hb s1] & R0 & F).
    apply (read_exact_ok can_alloc_R4) in R0 as [E0 Lhb].
    apply bind_ok in F as (h & D & F).
    apply bind_ok in F as (_ & _ & F).
    apply bind_ok in F as ([r s2] & R1 & F).
    apply (read_exact_ok can_alloc_R4) in R1 as [E1 Lr]. injection F as <- <-.
    assert (length hb = 48%nat) as L48 by (unfold lenN, HEADER_SIZE in Lhb; lia).
    pose proof (decode_ok_spec _ _ D) as (_ & _ & _ & HL & HLt).
    assert (decode (hb ++ r) = Ok h) as D'.
    { rewrite <- D. now apply decode_app. }
    rewrite D'.
    assert (lenN (hb ++ r) = h_length h) as LF.
    { unfold lenN in *. rewrite app_length. unfold HEADER_SIZE in *. lia. }
    assert (bs = (hb ++ r) ++ s2) as EB by (rewrite E0, E1; now rewrite app_assoc).
    repeat match goal with |- (_ && _) = true => apply andb_intro end.
    + apply decode_good. rewrite EB, <- app_assoc, decode_app by assumption. exact D.
    + rewrite <- LF. unfold lenN. rewrite Nat2N.id. rewrite EB.
      rewrite firstn_app, Nat.sub_diag, firstn_O, app_nil_r, firstn_all. apply bytes_eqb_refl.
    + rewrite LF. apply N.eqb_refl.
    + rewrite <- LF. unfold lenN. rewrite Nat2N.id. rewrite EB.
      rewrite skipn_app, skipn_all, Nat.sub_diag. apply bytes_eqb_refl.
Qed.
