(** Proofs about the peer registry model (Model/Peers.v): the concrete
    registry [preg]/[pstep] refines the specification [pspec]/[sstep]. *)
From RepeV Require Import Model.Peers.
From Coq Require Import ZifyBool ZifyN ZifyNat.

(** * generic lemmas on association lists and N lists *)

Lemma aget_aset {V} (l : list (N * V)) k v k' :
  aget (aset l k v) k' = if k =? k' then Some v else aget l k'.
Proof.
  induction l as [|[k0 v0] l IH]; cbn [aset aget].
  - reflexivity.
  - destruct (N.eqb_spec k0 k) as [E|E].
    + subst k0. cbn [aget]. destruct (N.eqb_spec k k'); reflexivity.
    + cbn [aget]. rewrite IH. destruct (N.eqb_spec k0 k') as [E1|E1]; [|reflexivity].
      subst k0. destruct (N.eqb_spec k k'); [congruence|reflexivity].
Qed.

Lemma aget_adel {V} (l : list (N * V)) k k' :
  aget (adel l k) k' = if k =? k' then None else aget l k'.
Proof.
  induction l as [|[k0 v0] l IH]; cbn [adel aget].
  - destruct (k =? k'); reflexivity.
  - destruct (N.eqb_spec k0 k) as [E|E].
    + subst k0. rewrite IH. destruct (N.eqb_spec k k'); reflexivity.
    + cbn [aget]. rewrite IH. destruct (N.eqb_spec k0 k') as [E1|E1]; [|reflexivity].
      subst k0. destruct (N.eqb_spec k k'); [congruence|reflexivity].
Qed.

Lemma aget_app {V} (l1 l2 : list (N * V)) k :
  aget (l1 ++ l2) k = match aget l1 k with Some v => Some v | None => aget l2 k end.
Proof.
  induction l1 as [|[k0 v0] l1 IH]; cbn [app aget]; [reflexivity|].
  destruct (k0 =? k); [reflexivity|exact IH].
Qed.

Lemma aget_None {V} (l : list (N * V)) k : aget l k = None <-> ~ In k (map fst l).
Proof.
  induction l as [|[k0 v0] l IH]; cbn [aget map fst In].
  - tauto.
  - destruct (N.eqb_spec k0 k) as [E|E].
    + split; [discriminate|]. intros H. exfalso. apply H. left. exact E.
    + rewrite IH. tauto.
Qed.

Lemma aget_Some_In {V} (l : list (N * V)) k v : aget l k = Some v -> In (k, v) l.
Proof.
  induction l as [|[k0 v0] l IH]; cbn [aget In]; [discriminate|].
  destruct (N.eqb_spec k0 k) as [E|E]; intros H.
  - left. congruence.
  - right. exact (IH H).
Qed.

Lemma In_aget {V} (l : list (N * V)) k v :
  NoDup (map fst l) -> In (k, v) l -> aget l k = Some v.
Proof.
  induction l as [|[k0 v0] l IH]; cbn [aget In map fst]; intros ND H; [contradiction|].
  inversion ND as [|x xs Hnot ND']; subst x xs.
  destruct H as [H|H].
  - inversion H; subst k0 v0. rewrite N.eqb_refl. reflexivity.
  - destruct (N.eqb_spec k0 k) as [E|E].
    + subst k0. exfalso. apply Hnot. apply (in_map fst) in H. exact H.
    + exact (IH ND' H).
Qed.

Lemma aget_In_iff {V} (l : list (N * V)) k v :
  NoDup (map fst l) -> (aget l k = Some v <-> In (k, v) l).
Proof. intros ND. split; [apply aget_Some_In|apply In_aget; exact ND]. Qed.

Lemma In_adel_fst {V} (l : list (N * V)) k k' :
  In k' (map fst (adel l k)) -> k' <> k /\ In k' (map fst l).
Proof.
  induction l as [|[k0 v0] l IH]; cbn [adel map fst In]; [tauto|].
  destruct (N.eqb_spec k0 k) as [E|E]; cbn [map fst In].
  - intros H. destruct (IH H). tauto.
  - intros [H|H]; [subst k0; tauto|]. destruct (IH H). tauto.
Qed.

Lemma NoDup_adel {V} (l : list (N * V)) k :
  NoDup (map fst l) -> NoDup (map fst (adel l k)).
Proof.
  induction l as [|[k0 v0] l IH]; cbn [adel map fst]; intros ND; [exact ND|].
  inversion ND as [|x xs Hnot ND']; subst x xs.
  destruct (k0 =? k); [exact (IH ND')|].
  cbn [map fst]. constructor; [|exact (IH ND')].
  intros H. apply In_adel_fst in H. tauto.
Qed.

Lemma In_filter_fst {V} (P : N * V -> bool) (l : list (N * V)) k :
  In k (map fst (filter P l)) -> In k (map fst l).
Proof.
  rewrite !in_map_iff. intros [x [H1 H2]]. apply filter_In in H2. exists x. tauto.
Qed.

Lemma NoDup_filter_fst {V} (P : N * V -> bool) (l : list (N * V)) :
  NoDup (map fst l) -> NoDup (map fst (filter P l)).
Proof.
  induction l as [|[k0 v0] l IH]; cbn [filter map fst]; intros ND; [exact ND|].
  inversion ND as [|x xs Hnot ND']; subst x xs.
  destruct (P (k0, v0)); [|exact (IH ND')].
  cbn [map fst]. constructor; [|exact (IH ND')].
  intros H. apply In_filter_fst in H. tauto.
Qed.

Lemma aget_filter {V} (P : N * V -> bool) (l : list (N * V)) k :
  NoDup (map fst l) ->
  aget (filter P l) k
  = match aget l k with Some v => if P (k, v) then Some v else None | None => None end.
Proof.
  induction l as [|[k0 v0] l IH]; cbn [filter aget map fst]; intros ND; [reflexivity|].
  inversion ND as [|x xs Hnot ND']; subst x xs. specialize (IH ND').
  destruct (N.eqb_spec k0 k) as [E|E].
  - subst k0. destruct (P (k, v0)) eqn:HP.
    + cbn [aget]. rewrite N.eqb_refl. reflexivity.
    + rewrite IH. apply aget_None in Hnot. rewrite Hnot. reflexivity.
  - destruct (P (k0, v0)); [|exact IH].
    cbn [aget]. destruct (N.eqb_spec k0 k); [contradiction|exact IH].
Qed.

Lemma memN_In x l : memN x l = true <-> In x l.
Proof.
  induction l as [|y l IH]; cbn [memN In].
  - split; [discriminate|tauto].
  - rewrite orb_true_iff, N.eqb_eq, IH. tauto.
Qed.

Lemma memN_false x l : memN x l = false <-> ~ In x l.
Proof. rewrite <- memN_In. destruct (memN x l); split; congruence. Qed.

Lemma memN_insN x y l : memN x (insN y l) = (x =? y) || memN x l.
Proof.
  induction l as [|z l IH]; cbn [insN memN].
  - rewrite (N.eqb_sym y x). reflexivity.
  - destruct (y <? z) eqn:E1.
    + cbn [memN]. rewrite (N.eqb_sym y x). reflexivity.
    + destruct (N.eqb_spec y z) as [E2|E2].
      * subst z. cbn [memN]. rewrite (N.eqb_sym y x). destruct (x =? y); reflexivity.
      * cbn [memN]. rewrite IH. destruct (z =? x), (x =? y); reflexivity.
Qed.

Lemma memN_delN x y l : memN x (delN y l) = negb (x =? y) && memN x l.
Proof.
  induction l as [|z l IH]; cbn [delN memN].
  - rewrite andb_false_r. reflexivity.
  - destruct (N.eqb_spec z y) as [E|E].
    + subst z. rewrite IH. rewrite (N.eqb_sym y x). destruct (x =? y); reflexivity.
    + cbn [memN]. rewrite IH. destruct (N.eqb_spec z x) as [E1|E1]; [|reflexivity].
      subst z. destruct (N.eqb_spec x y); [congruence|reflexivity].
Qed.

Lemma In_delN x y l : In x (delN y l) <-> x <> y /\ In x l.
Proof.
  rewrite <- !memN_In, memN_delN, andb_true_iff, negb_true_iff, N.eqb_neq. tauto.
Qed.

Lemma delN_notin k l : ~ In k l -> delN k l = l.
Proof.
  induction l as [|y l IH]; cbn [delN In]; intros H; [reflexivity|].
  destruct (N.eqb_spec y k) as [E|E]; [tauto|]. f_equal. apply IH. tauto.
Qed.

Lemma NoDup_snoc {A} (l : list A) x : NoDup l -> ~ In x l -> NoDup (l ++ [x]).
Proof.
  induction l as [|y l IH]; cbn [app]; intros ND H.
  - constructor; [tauto|constructor].
  - inversion ND as [|z zs Hnot ND']; subst z zs. cbn [In] in H.
    constructor; [|apply IH; tauto].
    rewrite in_app_iff. cbn [In]. intros [H1|[H1|[]]]; [tauto|]. subst y. tauto.
Qed.

(** * per-id key lists of an assignment list *)

Definition afor (l : list (N * N)) (id : N) : list N :=
  map fst (filter (fun kv => snd kv =? id) l).

Lemma sp_aliases_for_afor s id : sp_aliases_for s id = afor (s_assign s) id.
Proof. reflexivity. Qed.

Lemma In_afor_iff l id k : In k (afor l id) <-> In (k, id) l.
Proof.
  unfold afor. rewrite in_map_iff. split.
  - intros [[k0 v0] [H1 H2]]. apply filter_In in H2 as [H2 H3].
    cbn [fst snd] in *. apply N.eqb_eq in H3. subst. exact H2.
  - intros H. exists (k, id). split; [reflexivity|]. apply filter_In. split; [exact H|].
    cbn [snd]. apply N.eqb_refl.
Qed.

Lemma In_afor l id k : NoDup (map fst l) -> (In k (afor l id) <-> aget l k = Some id).
Proof. intros ND. rewrite In_afor_iff. symmetry. apply aget_In_iff. exact ND. Qed.

Lemma afor_app l1 l2 id : afor (l1 ++ l2) id = afor l1 id ++ afor l2 id.
Proof. unfold afor. rewrite filter_app, map_app. reflexivity. Qed.

Lemma afor_single k v id : afor [(k, v)] id = if v =? id then [k] else [].
Proof. unfold afor. cbn [filter snd]. destruct (v =? id); reflexivity. Qed.

Lemma afor_adel l k id : afor (adel l k) id = delN k (afor l id).
Proof.
  unfold afor. induction l as [|[k0 v0] l IH]; cbn [adel filter map snd]; [reflexivity|].
  destruct (N.eqb_spec k0 k) as [E|E].
  - subst k0. destruct (v0 =? id); cbn [map fst delN].
    + rewrite N.eqb_refl. exact IH.
    + exact IH.
  - cbn [filter snd]. destruct (v0 =? id); cbn [map fst delN].
    + destruct (N.eqb_spec k0 k); [contradiction|]. f_equal. exact IH.
    + exact IH.
Qed.

Lemma afor_filter_neg l id id' :
  afor (filter (fun kv => negb (snd kv =? id)) l) id' = if id =? id' then [] else afor l id'.
Proof.
  unfold afor. induction l as [|[k0 v0] l IH]; cbn [filter map snd].
  - destruct (id =? id'); reflexivity.
  - destruct (N.eqb_spec v0 id) as [E|E]; cbn [negb filter snd].
    + subst v0. rewrite IH. destruct (N.eqb_spec id id') as [E1|E1]; reflexivity.
    + destruct (N.eqb_spec v0 id') as [E1|E1]; cbn [map fst].
      * subst v0. rewrite IH. destruct (N.eqb_spec id id'); [congruence|reflexivity].
      * exact IH.
Qed.

(** * the reverse index *)

Definition qfor (idx : list (N * list N)) (id : N) : list N :=
  match aget idx id with Some ks => ks | None => [] end.

Lemma q_aliases_for_mk a b i x : q_aliases_for (mkPreg a b i) x = qfor i x.
Proof. reflexivity. Qed.

Lemma q_aliases_for_qfor c x : q_aliases_for c x = qfor (p_index c) x.
Proof. reflexivity. Qed.

Lemma qfor_aset idx i v x : qfor (aset idx i v) x = if i =? x then v else qfor idx x.
Proof. unfold qfor. rewrite aget_aset. destruct (i =? x); reflexivity. Qed.

Lemma qfor_adel idx i x : qfor (adel idx i) x = if i =? x then [] else qfor idx x.
Proof. unfold qfor. rewrite aget_adel. destruct (i =? x); reflexivity. Qed.

Definition idx_unlink (idx : list (N * list N)) (prev key : N) : list (N * list N) :=
  match aget idx prev with
  | Some keys => aset idx prev (delN key keys)
  | None => idx
  end.

Lemma qfor_unlink idx prev key x :
  qfor (idx_unlink idx prev key) x = if prev =? x then delN key (qfor idx prev) else qfor idx x.
Proof.
  unfold idx_unlink. destruct (aget idx prev) as [ks|] eqn:E.
  - rewrite qfor_aset. unfold qfor at 2. rewrite E. reflexivity.
  - destruct (N.eqb_spec prev x) as [E1|E1]; [|reflexivity].
    subst x. unfold qfor. rewrite E. reflexivity.
Qed.

(** * the removal fold *)

Definition rm_step (id : N) (al : list (N * N)) (key : N) : list (N * N) :=
  match aget al key with
  | Some owner => if owner =? id then adel al key else al
  | None => al
  end.

Definition owned (al : list (N * N)) (id k : N) : bool :=
  match aget al k with Some o => o =? id | None => false end.

Lemma aget_rm_fold id keys : forall al k,
  aget (fold_left (rm_step id) keys al) k
  = if memN k keys && owned al id k then None else aget al k.
Proof.
  induction keys as [|k0 ks IH]; intros al k; cbn [fold_left memN].
  - reflexivity.
  - rewrite IH. unfold rm_step, owned.
    destruct (aget al k0) as [o|] eqn:E0.
    + destruct (N.eqb_spec o id) as [Eo|Eo].
      * subst o. rewrite aget_adel.
        destruct (N.eqb_spec k0 k) as [E1|E1].
        -- subst k0. rewrite E0, N.eqb_refl, andb_false_r. reflexivity.
        -- reflexivity.
      * destruct (N.eqb_spec k0 k) as [E1|E1]; [|reflexivity].
        subst k0. rewrite E0. destruct (N.eqb_spec o id); [contradiction|].
        rewrite !andb_false_r. reflexivity.
    + destruct (N.eqb_spec k0 k) as [E1|E1]; [|reflexivity].
      subst k0. rewrite E0, !andb_false_r. reflexivity.
Qed.

(** * the simulation relation *)

Definition spec_inv (s : pspec) : Prop := NoDup (map fst (s_assign s)).

Record R (c : preg) (s : pspec) : Prop := mkR {
  R_peers : p_peers c = s_present s;
  R_fwd : forall k, aget (p_aliases c) k = sp_lookup s k;
  R_idx : forall id, q_aliases_for c id = sp_aliases_for s id;
  R_inv : spec_inv s
}.

Lemma R_empty : R preg_empty pspec_empty.
Proof. constructor; try reflexivity. constructor. Qed.

Lemma spec_inv_empty : spec_inv pspec_empty.
Proof. constructor. Qed.

(** ** specification-side facts *)

Lemma spec_alias_list_exact s id k :
  spec_inv s -> (In k (sp_aliases_for s id) <-> sp_lookup s k = Some id).
Proof. intros I. apply In_afor. exact I. Qed.

Lemma spec_inv_step s o : spec_inv s -> spec_inv (fst (sstep s o)).
Proof.
  unfold spec_inv. intros I. destruct o as [id|id|id key|]; cbn [sstep fst s_assign].
  - exact I.
  - apply NoDup_filter_fst. exact I.
  - destruct (negb (memN id (s_present s))); [exact I|].
    unfold sp_lookup. destruct (aget (s_assign s) key) as [owner|] eqn:E.
    + destruct (owner =? id); [exact I|]. cbn [fst s_assign].
      rewrite map_app. cbn [map fst].
      apply NoDup_snoc; [apply NoDup_adel; exact I|].
      intros H. apply In_adel_fst in H. tauto.
    + cbn [fst s_assign]. rewrite map_app. cbn [map fst].
      apply NoDup_snoc; [exact I|]. apply aget_None. exact E.
  - exact I.
Qed.

Lemma spec_inv_reachable ops : forall s,
  spec_inv s -> spec_inv (fold_left (fun s o => fst (sstep s o)) ops s).
Proof.
  induction ops as [|o ops IH]; intros s I; cbn [fold_left]; [exact I|].
  apply IH. apply spec_inv_step. exact I.
Qed.

Lemma spec_lookup_after_alias s id k :
  memN id (s_present s) = true ->
  sp_lookup (fst (sstep s (PAlias id k))) k = Some id /\
  (forall k', k' <> k -> sp_lookup (fst (sstep s (PAlias id k))) k' = sp_lookup s k').
Proof.
  intros Hp. cbn [sstep]. rewrite Hp. cbn [negb].
  unfold sp_lookup. destruct (aget (s_assign s) k) as [owner|] eqn:E.
  - destruct (N.eqb_spec owner id) as [Eo|Eo]; cbn [fst s_assign].
    + subst owner. split; [exact E|reflexivity].
    + split.
      * rewrite aget_app, aget_adel, N.eqb_refl. cbn [aget]. rewrite N.eqb_refl. reflexivity.
      * intros k' Hk. rewrite aget_app, aget_adel.
        destruct (N.eqb_spec k k'); [congruence|]. cbn [aget].
        destruct (N.eqb_spec k k'); [congruence|]. destruct (aget (s_assign s) k'); reflexivity.
  - cbn [fst s_assign]. split.
    + rewrite aget_app, E. cbn [aget]. rewrite N.eqb_refl. reflexivity.
    + intros k' Hk. rewrite aget_app. cbn [aget].
      destruct (N.eqb_spec k k'); [congruence|]. destruct (aget (s_assign s) k'); reflexivity.
Qed.

Lemma spec_alias_absent s id k :
  memN id (s_present s) = false -> sstep s (PAlias id k) = (s, PBool false).
Proof. intros H. cbn [sstep]. rewrite H. reflexivity. Qed.

Lemma spec_remove_lookup s id k :
  spec_inv s ->
  sp_lookup (fst (sstep s (PRemove id))) k
  = match sp_lookup s k with
    | Some owner => if owner =? id then None else Some owner
    | None => None
    end.
Proof.
  intros I. cbn [sstep fst]. unfold sp_lookup. cbn [s_assign].
  rewrite aget_filter by exact I.
  destruct (aget (s_assign s) k) as [owner|]; [|reflexivity].
  cbn [snd]. destruct (owner =? id); reflexivity.
Qed.

Lemma spec_repoint s id id' k :
  spec_inv s -> sp_lookup s k = Some id -> id' <> id -> memN id' (s_present s) = true ->
  ~ In k (sp_aliases_for (fst (sstep s (PAlias id' k))) id) /\
  sp_aliases_for (fst (sstep s (PAlias id' k))) id'
  = sp_aliases_for s id' ++ [k].
Proof.
  intros I L Hne Hp. cbn [sstep]. rewrite Hp, L. cbn [negb].
  destruct (N.eqb_spec id id') as [E|E]; [congruence|]. cbn [fst].
  rewrite !sp_aliases_for_afor. cbn [s_assign].
  rewrite !afor_app, !afor_adel, !afor_single, N.eqb_refl.
  destruct (N.eqb_spec id' id) as [E1|E1]; [congruence|]. split.
  - rewrite app_nil_r. rewrite In_delN. tauto.
  - f_equal. apply delN_notin. rewrite In_afor by exact I.
    unfold sp_lookup in L. rewrite L. congruence.
Qed.

(** ** one step of the simulation *)

Lemma step_insert c s id : R c s -> R (fst (pstep c (PInsert id))) (fst (sstep s (PInsert id))).
Proof.
  intros [Hp Hf Hi I]. cbn [pstep sstep fst]. constructor.
  - cbn [p_peers s_present]. rewrite Hp. reflexivity.
  - exact Hf.
  - exact Hi.
  - exact I.
Qed.

Lemma p_remove_eq c id :
  p_remove c id
  = match aget (p_index c) id with
    | Some keys => (mkPreg (delN id (p_peers c)) (fold_left (rm_step id) keys (p_aliases c))
                           (adel (p_index c) id), PBool (memN id (p_peers c)))
    | None => (mkPreg (delN id (p_peers c)) (p_aliases c) (p_index c), PBool (memN id (p_peers c)))
    end.
Proof. reflexivity. Qed.

Lemma step_remove c s id :
  R c s -> snd (pstep c (PRemove id)) = snd (sstep s (PRemove id)) /\
           R (fst (pstep c (PRemove id))) (fst (sstep s (PRemove id))).
Proof.
  intros [Hp Hf Hi I]. cbn [pstep sstep fst snd]. rewrite p_remove_eq.
  pose proof (Hi id) as Hid. rewrite q_aliases_for_qfor in Hid. unfold qfor in Hid.
  destruct (aget (p_index c) id) as [keys|] eqn:E; cbn [fst snd]; (split; [rewrite Hp; reflexivity|]).
  - constructor; cbn [p_peers s_present].
    + rewrite Hp. reflexivity.
    + intros k. cbn [p_aliases]. rewrite aget_rm_fold.
      unfold sp_lookup. cbn [s_assign]. rewrite aget_filter by exact I.
      unfold owned. rewrite Hf. unfold sp_lookup.
      destruct (aget (s_assign s) k) as [o|] eqn:Ek.
      * cbn [snd]. destruct (N.eqb_spec o id) as [Eo|Eo]; cbn [negb].
        -- subst o. assert (Hm : memN k keys = true).
           { apply memN_In. rewrite Hid. apply spec_alias_list_exact; [exact I|exact Ek]. }
           rewrite Hm. reflexivity.
        -- rewrite andb_false_r. reflexivity.
      * rewrite andb_false_r. reflexivity.
    + intros x. rewrite q_aliases_for_mk, qfor_adel, sp_aliases_for_afor. cbn [s_assign].
      rewrite afor_filter_neg. destruct (id =? x); [reflexivity|]. apply Hi.
    + unfold spec_inv. cbn [s_assign]. apply NoDup_filter_fst. exact I.
  - constructor; cbn [p_peers s_present].
    + rewrite Hp. reflexivity.
    + intros k. cbn [p_aliases]. rewrite Hf.
      unfold sp_lookup. cbn [s_assign]. rewrite aget_filter by exact I.
      destruct (aget (s_assign s) k) as [o|] eqn:Ek; [|reflexivity].
      cbn [snd]. destruct (N.eqb_spec o id) as [Eo|Eo]; cbn [negb]; [|reflexivity].
      subst o. exfalso. apply (spec_alias_list_exact s id k I) in Ek. rewrite <- Hid in Ek. exact Ek.
    + intros x. rewrite q_aliases_for_mk, sp_aliases_for_afor. cbn [s_assign].
      rewrite afor_filter_neg. destruct (N.eqb_spec id x) as [Ex|Ex].
      * subst x. unfold qfor. rewrite E. reflexivity.
      * rewrite <- sp_aliases_for_afor, <- Hi. reflexivity.
    + unfold spec_inv. cbn [s_assign]. apply NoDup_filter_fst. exact I.
Qed.

Lemma p_alias_eq c id key :
  p_alias c id key
  = if negb (memN id (p_peers c)) then (c, PBool false) else
    match aget (p_aliases c) key with
    | Some prev =>
        if prev =? id then (c, PBool true)
        else (mkPreg (p_peers c) (aset (p_aliases c) key id)
                (aset (idx_unlink (p_index c) prev key) id
                      (qfor (idx_unlink (p_index c) prev key) id ++ [key])), PBool true)
    | None =>
        (mkPreg (p_peers c) (aset (p_aliases c) key id)
                (aset (p_index c) id (qfor (p_index c) id ++ [key])), PBool true)
    end.
Proof. reflexivity. Qed.

Lemma nodup_repoint (l : list (N * N)) key id :
  NoDup (map fst l) -> NoDup (map fst (adel l key ++ [(key, id)])).
Proof.
  intros I. rewrite map_app. cbn [map fst].
  apply NoDup_snoc; [apply NoDup_adel; exact I|].
  intros H. apply In_adel_fst in H. tauto.
Qed.

Lemma nodup_fresh (l : list (N * N)) key id :
  NoDup (map fst l) -> aget l key = None -> NoDup (map fst (l ++ [(key, id)])).
Proof.
  intros I E. rewrite map_app. cbn [map fst].
  apply NoDup_snoc; [exact I|]. apply aget_None. exact E.
Qed.

Lemma step_alias c s id key :
  R c s -> snd (pstep c (PAlias id key)) = snd (sstep s (PAlias id key)) /\
           R (fst (pstep c (PAlias id key))) (fst (sstep s (PAlias id key))).
Proof.
  intros HR. pose proof HR as [Hp Hf Hi I]. cbn [pstep sstep]. rewrite p_alias_eq.
  rewrite Hp, Hf. destruct (negb (memN id (s_present s))); [split; [reflexivity|exact HR]|].
  destruct (sp_lookup s key) as [prev|] eqn:L.
  - destruct (N.eqb_spec prev id) as [Eo|Eo]; [split; [reflexivity|exact HR]|].
    cbn [fst snd]. split; [reflexivity|]. constructor; cbn [p_peers s_present].
    + reflexivity.
    + intros k. cbn [p_aliases]. unfold sp_lookup. cbn [s_assign].
      rewrite aget_aset, aget_app, aget_adel, Hf. unfold sp_lookup. cbn [aget].
      destruct (key =? k); [reflexivity|]. destruct (aget (s_assign s) k); reflexivity.
    + intros x. rewrite q_aliases_for_mk, qfor_aset, !qfor_unlink, sp_aliases_for_afor.
      cbn [s_assign]. rewrite afor_app, afor_adel, afor_single.
      destruct (N.eqb_spec prev id) as [E1|E1]; [contradiction|].
      rewrite <- !q_aliases_for_qfor, !Hi, !sp_aliases_for_afor.
      destruct (N.eqb_spec id x) as [Ex|Ex].
      * subst x. f_equal. symmetry. apply delN_notin. rewrite In_afor by exact I.
        unfold sp_lookup in L. rewrite L. congruence.
      * rewrite app_nil_r. destruct (N.eqb_spec prev x) as [E2|E2].
        -- subst x. reflexivity.
        -- symmetry. apply delN_notin. rewrite In_afor by exact I.
           unfold sp_lookup in L. rewrite L. congruence.
    + unfold spec_inv. cbn [s_assign]. apply nodup_repoint. exact I.
  - cbn [fst snd]. split; [reflexivity|]. constructor; cbn [p_peers s_present].
    + reflexivity.
    + intros k. cbn [p_aliases]. unfold sp_lookup. cbn [s_assign].
      rewrite aget_aset, aget_app, Hf. unfold sp_lookup. cbn [aget].
      destruct (N.eqb_spec key k) as [Ek|Ek].
      * subst k. unfold sp_lookup in L. rewrite L. reflexivity.
      * destruct (aget (s_assign s) k); reflexivity.
    + intros x. rewrite q_aliases_for_mk, qfor_aset, sp_aliases_for_afor.
      cbn [s_assign]. rewrite afor_app, afor_single.
      rewrite <- !q_aliases_for_qfor, !Hi, !sp_aliases_for_afor.
      destruct (N.eqb_spec id x) as [Ex|Ex].
      * subst x. reflexivity.
      * rewrite app_nil_r. reflexivity.
    + unfold spec_inv. cbn [s_assign]. apply nodup_fresh; [exact I|exact L].
Qed.

Lemma step_sim c s o :
  R c s -> snd (pstep c o) = snd (sstep s o) /\ R (fst (pstep c o)) (fst (sstep s o)).
Proof.
  intros HR. destruct o as [id|id|id key|].
  - split; [reflexivity|apply step_insert; exact HR].
  - apply step_remove; exact HR.
  - apply step_alias; exact HR.
  - cbn [pstep sstep fst snd]. split; [|exact HR]. rewrite (R_peers _ _ HR). reflexivity.
Qed.

Lemma observe_sim ids keys r c s : R c s -> observe ids keys r c = sobserve ids keys r s.
Proof.
  intros [Hp Hf Hi I]. unfold observe, sobserve. f_equal.
  - unfold q_len. rewrite Hp. reflexivity.
  - apply map_ext. intros id. unfold q_get. rewrite Hp. reflexivity.
  - apply map_ext. intros k. unfold q_get_by. rewrite Hf, Hp. reflexivity.
  - apply map_ext. exact Hi.
  - apply map_ext. intros id. unfold q_key_for. rewrite Hi. reflexivity.
Qed.

Lemma trace_sim ids keys ops : forall c s,
  R c s -> ptrace ids keys c ops = strace ids keys s ops.
Proof.
  induction ops as [|o ops IH]; intros c s HR; cbn [ptrace strace]; [reflexivity|].
  destruct (step_sim c s o HR) as [Ho HR'].
  destruct (pstep c o) as [c' r]. destruct (sstep s o) as [s' r'].
  cbn [fst snd] in Ho, HR'. subst r'.
  rewrite (observe_sim ids keys r c' s' HR'), (IH c' s' HR'). reflexivity.
Qed.

Lemma model_refines_spec ids keys ops : model_C18 ids keys ops = spec_C18 ids keys ops.
Proof. unfold model_C18, spec_C18. apply trace_sim. exact R_empty. Qed.

(** * reflexivity of the executable equalities *)

Lemma listN_eqb_refl l : listN_eqb l l = true.
Proof. induction l as [|x l IH]; cbn [listN_eqb]; [reflexivity|]. rewrite N.eqb_refl, IH. reflexivity. Qed.

Lemma list_eqb_refl {A} (eqb : A -> A -> bool) :
  (forall x, eqb x x = true) -> forall l, list_eqb eqb l l = true.
Proof. intros H l. induction l as [|x l IH]; cbn [list_eqb]; [reflexivity|]. rewrite H, IH. reflexivity. Qed.

Lemma optN_eqb'_refl a : optN_eqb' a a = true.
Proof. destruct a; cbn [optN_eqb']; [apply N.eqb_refl|reflexivity]. Qed.

Lemma pout_eqb_refl a : pout_eqb a a = true.
Proof. destruct a; cbn [pout_eqb]; [reflexivity|apply Bool.eqb_reflx|apply listN_eqb_refl]. Qed.

Lemma pobs_eqb_refl a : pobs_eqb a a = true.
Proof.
  unfold pobs_eqb.
  rewrite pout_eqb_refl, N.eqb_refl, (list_eqb_refl Bool.eqb Bool.eqb_reflx),
    !(list_eqb_refl optN_eqb' optN_eqb'_refl), (list_eqb_refl listN_eqb listN_eqb_refl).
  reflexivity.
Qed.

Lemma ok_model_C18 ids keys ops : ok_C18 ids keys ops (model_C18 ids keys ops) = true.
Proof.
  unfold ok_C18. rewrite model_refines_spec. apply list_eqb_refl. exact pobs_eqb_refl.
Qed.
