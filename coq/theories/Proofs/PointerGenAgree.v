(** Agreement of the hand-written JSON-pointer models (Model/Json.v, Model/Registry.v: properties
    C14; Model/JsonPtr.v, Model/Router.v: property C07) with the Gallina renderings of
    json_pointer::parse, unescape_token, escape_token, canonical_pointer, parse_pointer,
    canonical_key, parse_registration_path, Registry::register_function_arc,
    RegistryEntry::matches, StructEntry::matches, RegisteredRegistry::pointer_for and
    dispatch_struct_segments that bin/rs2v regenerates from /repo/src/json_pointer.rs,
    src/registry.rs and src/server.rs on every run (Gen/PointerGen.v).  Every statement says that
    the rendering returns [Ok] of the model's value: the code cannot panic there (slicing,
    the 16-slot stack array, [count += 1]) and computes what the model computes, on every byte
    string.  The one hypothesis, [utf8_cont_ok], is a necessary condition of UTF-8 validity (a
    continuation byte neither starts the string nor follows an ASCII byte); it is what
    [&pointer[1..]] needs in order not to hit Rust's char-boundary panic, and every [&str]
    satisfies it.  A function that could not be translated is [None] and its lemma degrades to
    [True]. *)
From RepeV Require Model.Registry Model.Router.
From RepeV Require Import Base.GenStrPrelude Gen.PointerGen.
From RepeV Require Export Proofs.GenAgreeBase.
From Coq Require Import ZifyBool ZifyN ZifyNat.
Ltac Zify.zify_post_hook ::= Z.div_mod_to_equations.

(** ** what the statements are about *)
(** a necessary condition of UTF-8 validity: no continuation byte (10xxxxxx) at the start of the
    string or right after an ASCII byte *)
Fixpoint cont_ok_after (prev : byte) (s : str) : bool :=
  match s with
  | [] => true
  | b :: s' => negb ((prev <? 128) && (128 <=? b) && (b <? 192)) && cont_ok_after b s'
  end.
Definition utf8_cont_ok (s : str) : bool := cont_ok_after 0 s.

(** the rendering's [Result] / error as the model's *)
Definition model_res {A} (r : result A reg_error) : Registry.res A :=
  match r with ROk a => Registry.Ok a | RErr GE_InvalidPointer => Registry.Err Registry.EInvalidPointer end.
Definition omap {A B} (g : A -> B) (o : outcome A) : outcome B :=
  match o with Ok a => Ok (g a) | Err e => Err e | Panic => Panic | Abort => Abort end.
Definition opt_res {A} (o : option A) : result A unit := match o with Some a => ROk a | None => RErr tt end.

(** what [register_function_arc] is compared with: the path is parsed as a registration path; the
    root is refused; the parents of exactly these segments are ensured; the callable is stored
    under [canonical_pointer] of exactly these segments (Model/Registry.v [register_function]:
    [reg_at (obj_of root) segs None] and [fset funs (canonical_pointer segs) fid]) *)
Definition register_spec (ens : list str -> result unit reg_error) (path : str) : result reg_step reg_error :=
  match Registry.parse_registration_path path with
  | Registry.Err _ => RErr GE_InvalidPointer
  | Registry.Ok [] => RErr GE_InvalidPointer
  | Registry.Ok segs =>
      match ens segs with
      | RErr e => RErr e
      | ROk _ => ROk (RegFn (Some segs) (Some (Registry.canonical_pointer segs)))
      end
  end.

(** ** the fixed meanings of Base/GenStrPrelude.v are the models' string functions *)
Lemma s_eqb_json a b : s_eqb a b = Json.str_eqb a b.
Proof. reflexivity. Qed.
Lemma s_eqb_jsonptr a b : s_eqb a b = JsonPtr.str_eqb a b.
Proof. reflexivity. Qed.
Lemma s_split_json c s : s_split_c c s = Json.split_on c s.
Proof. reflexivity. Qed.
Lemma s_split_jsonptr s : s_split_c 47 s = JsonPtr.split_slash s.
Proof. induction s as [|b s IH]; cbn; [reflexivity|]. now rewrite IH. Qed.
Lemma s_replace_c_json c r s : s_replace_c c r s = Json.replace1 c r s.
Proof. reflexivity. Qed.
Lemma s_replace_cc_json a b r s : s_replace_cc a b [r] s = Json.replace2 a b r s.
Proof.
  assert (H : forall n s, (length s <= n)%nat -> s_replace_cc a b [r] s = Json.replace2 a b r s).
  { induction n as [|n IH]; intros [|x [|y t]] Hl; try reflexivity; cbn [length] in Hl; try lia.
    change (s_replace_cc a b [r] (x :: y :: t)) with
      (if (x =? a) && (y =? b) then [r] ++ s_replace_cc a b [r] t else x :: s_replace_cc a b [r] (y :: t)).
    change (Json.replace2 a b r (x :: y :: t)) with
      (if (x =? a) && (y =? b) then r :: Json.replace2 a b r t else x :: Json.replace2 a b r (y :: t)).
    rewrite (IH t), (IH (y :: t)) by (cbn [length]; lia). reflexivity. }
  exact (H (length s) s (le_n _)).
Qed.
Lemma s_replace_cc_jsonptr a b r s : s_replace_cc a b r s = JsonPtr.replace2 a b r s.
Proof. reflexivity. Qed.
Lemma s_strip_prefix_registry p s : s_strip_prefix p s = Registry.strip_pre p s.
Proof. reflexivity. Qed.
Lemma s_strip_prefix_router p s : s_strip_prefix p s = Router.strip_prefix p s.
Proof. reflexivity. Qed.
Lemma s_trim_end_registry c s : s_trim_end_c c s = Registry.trim_end c s.
Proof. reflexivity. Qed.
Lemma root_test p : list_is_empty p || s_eqb p [47] = Registry.is_root_ptr p.
Proof. destruct p as [|c [|d r]]; cbn; rewrite ?andb_true_r, ?andb_false_r; reflexivity. Qed.

(** ** tactics: case analysis on every test the two sides make; arithmetic by [lia] *)
Ltac split_tests :=
  repeat (match goal with
          | |- context [if ?b then _ else _] => destruct b eqn:?
          | |- context [match ?o with Some _ => _ | None => _ end] => destruct o eqn:?
          | |- context [match ?o with ROk _ => _ | RErr _ => _ end] => destruct o eqn:?
          | |- context [match ?l with [] => _ | _ :: _ => _ end] => destruct l eqn:?
          end; cbn [negb andb orb bind try_res try_opt opt_is_some_and o_unwrap_or res_map_err] in *; try discriminate).
Ltac done :=
  try reflexivity; try discriminate; try congruence; try (exfalso; lia);
  try (repeat match goal with H : Some _ = Some _ |- _ => inversion H; clear H; subst
                           | H : _ :: _ = _ :: _ |- _ => inversion H; clear H; subst end;
       try reflexivity; try congruence; try (exfalso; lia)).

(** ** loops *)
Lemma loop_chk_ext {S R} (f g : S -> outcome (lflow S R)) :
  (forall s, f s = g s) -> forall n s, loop_chk n f s = loop_chk n g s.
Proof.
  intros H. induction n as [|n IH]; intros s; cbn [loop_chk]; [reflexivity|].
  rewrite H. destruct (g s) as [[s'|s'|r]| | |]; cbn [bind]; auto.
Qed.
Lemma for_each_chk_ext {A S R} (f g : A -> S -> outcome (lflow S R)) :
  (forall x s, f x s = g x s) -> forall l s, for_each_chk f l s = for_each_chk g l s.
Proof.
  intros H. induction l as [|x l IH]; intros s; cbn [for_each_chk]; [reflexivity|].
  rewrite H. destruct (g x s) as [[s'|s'|r]| | |]; cbn [bind]; auto.
Qed.

(** the canonical iteration of the [while let Some(c) = chars.next()] loop of [unescape_token] *)
Definition unesc_step (st : str * str) : outcome (lflow (str * str) (result str unit)) :=
  let '(out, chars) := st in
  match chars with
  | [] => Ok (LStop (out, chars))
  | c :: chars' =>
      if c =? 126 then
        match chars' with
        | [] => Ok (LReturn (RErr tt))
        | n :: chars'' =>
            if n =? 48 then Ok (LNext (out ++ [126], chars''))
            else if n =? 49 then Ok (LNext (out ++ [47], chars''))
            else Ok (LReturn (RErr tt))
        end
      else Ok (LNext (out ++ [c], chars'))
  end.

(** ... run with enough fuel is the model's [unescape_go] *)
Lemma unesc_loop : forall fuel chars out, (length chars < fuel)%nat ->
  loop_chk fuel unesc_step (out, chars) =
  Ok (match Registry.unescape_go chars with
      | Some r => LFell (out ++ r, [])
      | None => LReturned (RErr tt)
      end).
Proof.
  induction fuel as [|fuel IH]; intros chars out Hl; [lia|].
  cbn [loop_chk]. destruct chars as [|c chars]; cbn [unesc_step bind Registry.unescape_go].
  - rewrite app_nil_r. reflexivity.
  - unfold Json.TILDE, Json.ZERO, Json.ONE, Json.SLASH. cbn [length] in Hl. destruct (c =? 126) eqn:Ec.
    + destruct chars as [|n chars]; cbn [bind]; [reflexivity|]. cbn [length] in Hl.
      destruct (n =? 48) eqn:E0; [|destruct (n =? 49) eqn:E1]; cbn [bind]; try reflexivity.
      * rewrite IH by lia. destruct (Registry.unescape_go chars); cbn [option_map]; [|reflexivity].
        rewrite <- app_assoc. reflexivity.
      * rewrite IH by lia. destruct (Registry.unescape_go chars); cbn [option_map]; [|reflexivity].
        rewrite <- app_assoc. reflexivity.
    + cbn [bind]. rewrite IH by lia. destruct (Registry.unescape_go chars); cbn [option_map]; [|reflexivity].
      rewrite <- app_assoc. reflexivity.
Qed.

(** ** json_pointer::parse *)
Lemma jp_parse_agrees : agrees1 gen_jp_parse (fun p => Ok (Registry.jp_parse p)).
Proof.
  gen_start. all: intros p; destruct p as [|c rest]; [reflexivity|].
  all: cbn [list_is_empty]; cbv zeta; unfold Registry.jp_parse, s_strip_prefix_c, o_unwrap_or, Json.SLASH, Json.TILDE, Json.ZERO, Json.ONE.
  all: destruct (c =? 47); f_equal; rewrite s_split_json; apply map_ext; intros t; rewrite !s_replace_cc_json; reflexivity.
Qed.

Lemma jp_parse_models p : Registry.jp_parse p = JsonPtr.parse p.
Proof.
  destruct p as [|c rest]; [reflexivity|]. unfold Registry.jp_parse, JsonPtr.parse, JsonPtr.strip_slash, JsonPtr.unescape_code.
  unfold Json.SLASH, Json.TILDE, Json.ZERO, Json.ONE.
  rewrite <- !s_split_json, !s_split_jsonptr.
  destruct (c =? 47); apply map_ext; intros t; rewrite <- !s_replace_cc_json; reflexivity.
Qed.

Lemma jp_parse_agrees_c07 : agrees1 gen_jp_parse (fun p => Ok (JsonPtr.parse p)).
Proof. pose proof jp_parse_agrees as H. unfold agrees1 in *. by_agree H. all: rewrite H, jp_parse_models; reflexivity. Qed.

(** ** json_pointer::evaluate *)
(** one token: the member / element it names, if any *)
Definition eval_step (tok : str) (cur : Json.json) : outcome (lflow Json.json (option Json.json)) :=
  Ok (match Registry.sp_get cur [tok] with Some c => LNext c | None => LReturn None end).

Lemma eval_loop toks : forall cur,
  for_each_chk eval_step toks cur =
  Ok (match Registry.sp_get cur toks with Some v => LFell v | None => LReturned None end).
Proof.
  induction toks as [|t toks IH]; intros cur; cbn [for_each_chk]; [reflexivity|].
  unfold eval_step. cbn [bind].
  destruct cur as [| | | |a|m]; cbn [Registry.sp_get]; try reflexivity.
  - destruct (Json.parse_usize t) as [i|]; [|reflexivity]. destruct (Json.nthN a i) as [c|]; [apply IH|reflexivity].
  - destruct (Json.oget m t) as [c|]; [apply IH|reflexivity].
Qed.

Lemma jp_evaluate_agrees : agrees2 gen_jp_evaluate (fun d p => Ok (Registry.jp_eval d p)).
Proof.
  pose proof jp_parse_agrees as Hp.
  gen_start. all: intros d p; callee Hp; cbv zeta; rewrite Hp; cbn [bind]; unfold Registry.jp_eval.
  all: match goal with |- context [for_each_chk ?f ?l ?s] =>
         rewrite (for_each_chk_ext f eval_step)
           by (intros tok cur; unfold eval_step, try_opt_loop; destruct cur as [| | | |a|m]; cbn [Registry.sp_get]; try reflexivity;
               [ destruct (Json.parse_usize tok) as [i|]; [|reflexivity]; destruct (Json.nthN a i); reflexivity
               | destruct (Json.oget m tok); reflexivity ]) end.
  all: rewrite eval_loop; cbn [bind]; destruct (Registry.sp_get d (Registry.jp_parse p)); reflexivity.
Qed.

(** ** unescape_token *)
Ltac step_eq :=
  repeat (match goal with
          | |- context [if ?b then _ else _] => destruct b eqn:?
          | |- context [match ?l with [] => _ | _ :: _ => _ end] => destruct l eqn:?
          end; cbn [negb bind] in *; try discriminate);
  try reflexivity; try (exfalso; lia).

Lemma unescape_token_agrees : agrees1 gen_unescape_token (fun t => Ok (opt_res (Registry.unescape_token t))).
Proof.
  gen_start. all: intros t; unfold Registry.unescape_token; change (s_contains_c 126 t) with (Json.contains Json.TILDE t).
  all: destruct (Json.contains Json.TILDE t); cbn [negb]; [|reflexivity].
  all: cbv zeta.
  all: match goal with |- context [loop_chk ?n ?f ?s] => rewrite (loop_chk_ext f unesc_step) by (intros [o c]; unfold unesc_step; step_eq) end.
  all: rewrite unesc_loop by lia; cbn [bind]; destruct (Registry.unescape_go t); cbn [opt_res app]; reflexivity.
Qed.

(** ** escape_token, canonical_pointer *)
Lemma escape_token_agrees : agrees1 gen_escape_token (fun t => Ok (Registry.escape_token t)).
Proof. gen_start. all: intros t; reflexivity. Qed.

Lemma canon_loop segs : forall out,
  for_each_chk (R := str) (fun seg out => Ok (LNext (out ++ 47 :: Registry.escape_token seg))) segs out =
  Ok (LFell (out ++ flat_map (fun s => Json.SLASH :: Registry.escape_token s) segs)).
Proof.
  induction segs as [|s segs IH]; intros out; cbn [for_each_chk flat_map bind].
  - rewrite app_nil_r. reflexivity.
  - rewrite IH. rewrite <- app_assoc. reflexivity.
Qed.

Lemma canonical_pointer_agrees : agrees1 gen_canonical_pointer (fun segs => Ok (Registry.canonical_pointer segs)).
Proof.
  pose proof escape_token_agrees as He.
  gen_start. all: intros segs; callee He.
  all: destruct segs as [|s0 segs]; [reflexivity|]; cbn [list_is_empty negb]; cbv zeta.
  all: match goal with |- context [for_each_chk ?f ?l ?s] =>
         rewrite (for_each_chk_ext f (fun seg out => Ok (LNext (out ++ 47 :: Registry.escape_token seg))))
           by (intros x o; rewrite ?He; cbn [bind]; rewrite <- ?app_assoc; reflexivity) end.
  all: rewrite canon_loop; reflexivity.
Qed.

(** ** parse_pointer, canonical_key, parse_registration_path *)
Definition gen_res {A} (r : Registry.res A) : result A reg_error :=
  match r with Registry.Ok a => ROk a | Registry.Err _ => RErr GE_InvalidPointer end.

Lemma cont_ok_after_ascii a b s : a < 128 -> b < 128 -> cont_ok_after a s = cont_ok_after b s.
Proof. intros Ha Hb. destruct s as [|c s]; [reflexivity|]. cbn [cont_ok_after]. replace (a <? 128) with true by lia. replace (b <? 128) with true by lia. reflexivity. Qed.

Lemma utf8_cont_ok_slash s : utf8_cont_ok (47 :: s) = utf8_cont_ok s.
Proof.
  unfold utf8_cont_ok. cbn [cont_ok_after]. rewrite (cont_ok_after_ascii 47 0) by lia.
  replace ((0 <? 128) && (128 <=? 47) && (47 <? 192)) with false by lia. reflexivity.
Qed.

Lemma boundary_end s : is_char_boundary s (len_n s) = true.
Proof.
  unfold is_char_boundary, len_n. rewrite Nat2N.id.
  replace (nth_error s (length s)) with (@None byte); [apply N.eqb_refl|].
  symmetry. apply nth_error_None. lia.
Qed.

Lemma slice_from_1 (c : byte) (rest : str) : c < 128 -> utf8_cont_ok (c :: rest) = true ->
  s_slice_chk (c :: rest) 1 (len_n (c :: rest)) = Ok rest.
Proof.
  intros Hc H. unfold s_slice_chk. rewrite boundary_end.
  assert (Hb : is_char_boundary (c :: rest) 1 = true).
  { unfold is_char_boundary. change (N.to_nat 1) with 1%nat. cbn [nth_error].
    unfold utf8_cont_ok in H. cbn [cont_ok_after] in H. destruct rest as [|b rest]; cbn [nth_error]; [reflexivity|].
    cbn [cont_ok_after] in H. lia. }
  assert (Hl : (1 <=? len_n (c :: rest)) && (len_n (c :: rest) <=? len_n (c :: rest)) = true) by (unfold len_n; cbn [length]; lia).
  rewrite Hl, Hb. cbn [andb]. unfold slice, len_n. rewrite Nat2N.id. change (N.to_nat 1) with 1%nat. cbn [skipn length].
  replace (S (length rest) - 1)%nat with (length rest) by lia. rewrite firstn_all. reflexivity.
Qed.

Lemma map_collect_pure {A B} (f : A -> outcome (result B unit)) (g : A -> option B) l :
  (forall x, f x = Ok (opt_res (g x))) ->
  map_collect_chk f l = Ok (opt_res (Registry.collect_opt (map g l))).
Proof.
  intros H. induction l as [|x l IH]; cbn [map_collect_chk map Registry.collect_opt]; [reflexivity|].
  rewrite H. destruct (g x) as [b|]; cbn [opt_res bind]; [|reflexivity].
  rewrite IH. destruct (Registry.collect_opt (map g l)); reflexivity.
Qed.

Lemma parse_pointer_agrees :
  match gen_parse_pointer with
  | Some f => forall p, utf8_cont_ok p = true -> f p = Ok (gen_res (Registry.parse_pointer p))
  | None => True
  end.
Proof.
  pose proof unescape_token_agrees as Hu.
  gen_start. all: intros p Hp; callee Hu; unfold Registry.parse_pointer; rewrite root_test.
  all: destruct (Registry.is_root_ptr p) eqn:Hr; [reflexivity|].
  all: destruct p as [|c rest]; [discriminate|]; unfold s_starts_with_c, Json.SLASH.
  all: destruct (c =? 47) eqn:Ec; cbn [negb]; [|reflexivity].
  all: rewrite slice_from_1 by (try assumption; lia); cbn [bind].
  all: rewrite (map_collect_pure _ Registry.unescape_token) by (intros x; apply Hu); cbn [bind].
  all: rewrite s_split_json; destruct (Registry.collect_opt _); reflexivity.
Qed.

(** the model's [parse_pointer] / [parse_registration_path] / [canonical_key] fail with [InvalidPointer] only, so [gen_res] loses nothing *)
Lemma parse_pointer_err p e : Registry.parse_pointer p = Registry.Err e -> e = Registry.EInvalidPointer.
Proof.
  unfold Registry.parse_pointer. destruct (Registry.is_root_ptr p); [discriminate|].
  destruct p as [|c rest]; [discriminate|]. destruct (c =? Json.SLASH); [|congruence].
  destruct (Registry.collect_opt _); congruence.
Qed.
Lemma parse_registration_path_err p e : Registry.parse_registration_path p = Registry.Err e -> e = Registry.EInvalidPointer.
Proof. unfold Registry.parse_registration_path. destruct p; [discriminate|]. apply parse_pointer_err. Qed.
Lemma canonical_key_err p e : Registry.canonical_key p = Registry.Err e -> e = Registry.EInvalidPointer.
Proof.
  unfold Registry.canonical_key. destruct (Registry.is_root_ptr p); [discriminate|].
  destruct (negb _); [congruence|]. destruct (negb _); [discriminate|].
  destruct (Registry.parse_pointer p) eqn:E; [discriminate|]. intros H. inversion H; subst. exact (parse_pointer_err _ _ E).
Qed.

Lemma canonical_key_agrees :
  match gen_canonical_key with
  | Some f => forall p, utf8_cont_ok p = true -> f p = Ok (gen_res (Registry.canonical_key p))
  | None => True
  end.
Proof.
  pose proof parse_pointer_agrees as Hp. pose proof canonical_pointer_agrees as Hc.
  gen_start. all: intros p Hu; callee Hp; callee Hc; unfold Registry.canonical_key; rewrite root_test.
  all: destruct (Registry.is_root_ptr p); [reflexivity|].
  all: change (s_starts_with_c 47 p) with (Json.starts_with Json.SLASH p); destruct (Json.starts_with Json.SLASH p); cbn [negb]; [|reflexivity].
  all: change (s_contains_c 126 p) with (Json.contains Json.TILDE p); destruct (Json.contains Json.TILDE p); cbn [negb]; [|reflexivity].
  all: rewrite (Hp p Hu); cbn [bind]; destruct (Registry.parse_pointer p); cbn [gen_res try_res]; [|reflexivity].
  all: rewrite Hc; reflexivity.
Qed.

Lemma try_res_id {A} (r : Registry.res A) : (tryr t <- gen_res r; Ok (ROk t)) = Ok (gen_res r).
Proof. destruct r; reflexivity. Qed.

Lemma parse_registration_path_agrees :
  match gen_parse_registration_path with
  | Some f => forall p, utf8_cont_ok p = true -> f p = Ok (gen_res (Registry.parse_registration_path p))
  | None => True
  end.
Proof.
  pose proof parse_pointer_agrees as Hp.
  gen_start. all: intros p Hu; callee Hp; unfold Registry.parse_registration_path.
  all: destruct p as [|c rest] eqn:E; [reflexivity|]; rewrite <- E in *; cbn [list_is_empty].
  all: replace (list_is_empty p) with false by (subst p; reflexivity).
  all: change (s_starts_with_c 47 p) with (Json.starts_with Json.SLASH p); destruct (Json.starts_with Json.SLASH p); cbv zeta; cbn [app].
  all: rewrite ?(Hp p Hu), ?(Hp (47 :: p)) by (rewrite utf8_cont_ok_slash; exact Hu); cbn [bind]; unfold Json.SLASH.
  all: apply try_res_id.
Qed.

(** ** Registry::register_function_arc: which parents are ensured and under which key the callable is stored *)
Lemma register_function_key_agrees :
  match gen_register_function_key with
  | Some f => forall ens p, utf8_cont_ok p = true -> f ens p = Ok (register_spec ens p)
  | None => True
  end.
Proof.
  pose proof parse_registration_path_agrees as Hp. pose proof canonical_pointer_agrees as Hc.
  gen_start. all: intros ens p Hu; callee Hp; callee Hc; unfold register_spec; cbv zeta.
  all: rewrite (Hp p Hu); cbn [bind]; destruct (Registry.parse_registration_path p) as [segs|e]; cbn [gen_res try_res]; [|reflexivity].
  all: destruct segs as [|s0 segs]; [reflexivity|]; cbn [list_is_empty].
  all: destruct (ens (s0 :: segs)) as [[]|e]; cbn [try_res]; [|reflexivity].
  all: rewrite Hc; reflexivity.
Qed.

(** ** RegistryEntry::matches, StructEntry::matches, RegisteredRegistry::pointer_for *)
Lemma s_eqb_sym a : forall b, s_eqb a b = s_eqb b a.
Proof. induction a as [|x a IH]; intros [|y b]; cbn [s_eqb]; try reflexivity. rewrite IH, N.eqb_sym. reflexivity. Qed.

Ltac mount_tac :=
  intros pre path; destruct pre as [|a pre']; [destruct path; reflexivity|];
  cbn [list_is_empty negb]; rewrite ?(s_eqb_sym (a :: pre') path);
  change (s_eqb path (a :: pre')) with (Json.str_eqb path (a :: pre'));
  change (s_strip_prefix (a :: pre') path) with (Registry.strip_pre (a :: pre') path);
  destruct (Json.str_eqb path (a :: pre')); cbn [orb]; try reflexivity;
  destruct (Registry.strip_pre (a :: pre') path) as [rest|]; cbn [opt_is_some_and try_opt]; try reflexivity;
  cbv zeta; change (s_starts_with_c 47 rest) with (Json.starts_with Json.SLASH rest);
  destruct (Json.starts_with Json.SLASH rest); reflexivity.

Lemma registry_matches_agrees : agrees2 gen_registry_matches (fun pre path => Ok (Registry.mount_matches pre path)).
Proof. gen_start. all: unfold Registry.mount_matches; mount_tac. Qed.

Lemma mount_matches_router pre path : Registry.mount_matches pre path = Router.matches pre path.
Proof.
  unfold Registry.mount_matches, Router.matches. destruct pre as [|a pre']; [reflexivity|].
  change (JsonPtr.str_eqb path (a :: pre')) with (Json.str_eqb path (a :: pre')).
  destruct (Json.str_eqb path (a :: pre')); reflexivity.
Qed.

Lemma registry_matches_agrees_c07 : agrees2 gen_registry_matches (fun pre path => Ok (Router.matches pre path)).
Proof. pose proof registry_matches_agrees as H. unfold agrees2 in *. by_agree H. all: rewrite H, mount_matches_router; reflexivity. Qed.

Lemma struct_matches_agrees : agrees2 gen_struct_matches (fun root path => Ok (Router.matches root path)).
Proof.
  gen_start. all: intros pre path; rewrite <- mount_matches_router; revert pre path.
  all: unfold Registry.mount_matches; mount_tac.
Qed.

Lemma pointer_for_agrees : agrees2 gen_pointer_for (fun pre path => Ok (Registry.pointer_for pre path)).
Proof. gen_start. all: unfold Registry.pointer_for; mount_tac. Qed.

Lemma pointer_for_router pre path : Registry.pointer_for pre path = Router.registry_pointer pre path.
Proof.
  unfold Registry.pointer_for, Router.registry_pointer. destruct pre as [|a pre']; [reflexivity|].
  change (JsonPtr.str_eqb path (a :: pre')) with (Json.str_eqb path (a :: pre')).
  destruct (Json.str_eqb path (a :: pre')); reflexivity.
Qed.

Lemma pointer_for_agrees_c07 : agrees2 gen_pointer_for (fun pre path => Ok (Router.registry_pointer pre path)).
Proof. pose proof pointer_for_agrees as H. unfold agrees2 in *. by_agree H. all: rewrite H, pointer_for_router; reflexivity. Qed.

(** ** RegisteredRegistry::new, RegisteredStruct::new: the normalised mount point *)
Lemma s_trim_end_router s : s_trim_end_c 47 s = Router.trim_end_slashes s.
Proof. induction s as [|c s IH]; cbn [s_trim_end_c Router.trim_end_slashes]; [reflexivity|]. now rewrite IH. Qed.

Lemma norm_root_cases (p : str) :
  Router.norm_root p = if list_is_empty p || s_eqb p [47] then [] else if s_starts_with_c 47 p then p else 47 :: p.
Proof.
  destruct p as [|c [|d r]]; cbn [Router.norm_root list_is_empty s_eqb s_starts_with_c orb]; try reflexivity.
  - rewrite andb_true_r. destruct (c =? 47); reflexivity.
  - rewrite andb_false_r. destruct (c =? 47); reflexivity.
Qed.

Lemma struct_root_agrees : agrees1 gen_struct_root (fun root => Ok (Router.norm_root root)).
Proof.
  gen_start. all: intros p; rewrite norm_root_cases.
  all: destruct (list_is_empty p || s_eqb p [47]); [reflexivity|]; destruct (s_starts_with_c 47 p); reflexivity.
Qed.

Lemma norm_prefix_cases (p : str) :
  Router.norm_prefix p = let n : str := Router.norm_root p in if 1 <? @len_n byte n then s_trim_end_c 47 n else n.
Proof.
  unfold Router.norm_prefix. cbv zeta. destruct (Router.norm_root p) as [|a [|b r]]; try reflexivity.
  assert (E : 1 <? @len_n byte (a :: b :: r) = true) by (unfold len_n; cbn [length]; lia).
  rewrite E. now rewrite s_trim_end_router.
Qed.

Lemma ok_if {A} (c : bool) (a b : A) : (if c then Ok a else Ok b) = Ok (if c then a else b).
Proof. destruct c; reflexivity. Qed.

Lemma registry_prefix_agrees : agrees1 gen_registry_prefix (fun prefix => Ok (Router.norm_prefix prefix)).
Proof.
  gen_start. all: intros p; rewrite norm_prefix_cases, norm_root_cases; cbv zeta.
  all: destruct (list_is_empty p || s_eqb p [47]); [reflexivity|]; destruct (s_starts_with_c 47 p); cbn [app];
       rewrite ?ok_if; reflexivity.
Qed.

Lemma norm_prefix_registry p : Router.norm_prefix p = Registry.normalize_prefix p.
Proof.
  unfold Router.norm_prefix, Registry.normalize_prefix. cbv zeta.
  destruct p as [|c [|d r]]; cbn [Router.norm_root Registry.is_root_ptr Json.starts_with]; unfold Json.SLASH; try reflexivity.
  - destruct (c =? 47) eqn:E; [reflexivity|]. cbn [Router.trim_end_slashes Registry.trim_end]. rewrite E. reflexivity.
  - destruct (c =? 47).
    + transitivity (s_trim_end_c 47 (c :: d :: r)); [symmetry; apply s_trim_end_router|reflexivity].
    + transitivity (s_trim_end_c 47 (47 :: c :: d :: r)); [symmetry; apply s_trim_end_router|reflexivity].
Qed.

Lemma registry_prefix_agrees_c14 : agrees1 gen_registry_prefix (fun prefix => Ok (Registry.normalize_prefix prefix)).
Proof. pose proof registry_prefix_agrees as H. unfold agrees1 in *. by_agree H. all: rewrite H, norm_prefix_registry; reflexivity. Qed.

(** ** RegisteredStruct::relative_pointer *)
Lemma strip_prefix_app (p : str) : forall s r, s_strip_prefix p s = Some r -> s = p ++ r.
Proof.
  induction p as [|a p IH]; intros s r; cbn [s_strip_prefix app]; [congruence|].
  destruct s as [|b s]; [discriminate|]. destruct (N.eqb_spec a b) as [->|]; [|discriminate]. intros H. now rewrite (IH _ _ H).
Qed.

(** [&path[self.root.len()..]] is taken when [path] starts with [root]: between two [&str] that
    cut is a char boundary, which is the hypothesis *)
Lemma relative_pointer_agrees :
  match gen_relative_pointer with
  | Some f => forall root path,
      (s_starts_with root path = true -> is_char_boundary path (len_n root) = true) ->
      f root path = Ok (Router.struct_relative root path)
  | None => True
  end.
Proof.
  gen_start. all: intros root path Hb; unfold Router.struct_relative.
  all: destruct root as [|a root'] eqn:Er; [reflexivity|]; rewrite <- Er in *; replace (list_is_empty root) with false by (subst root; reflexivity).
  all: change (JsonPtr.str_eqb path root) with (s_eqb path root); destruct (s_eqb path root); [reflexivity|].
  all: rewrite <- s_strip_prefix_router; unfold s_starts_with in *.
  all: destruct (s_strip_prefix root path) as [rest|] eqn:Es; [|reflexivity].
  all: pose proof (strip_prefix_app _ _ _ Es) as Hp; specialize (Hb eq_refl).
  all: unfold s_slice_chk; rewrite Hb, boundary_end.
  all: replace ((len_n root <=? len_n path) && (len_n path <=? len_n path)) with true by (subst path; unfold len_n; rewrite app_length; lia).
  all: cbn [andb bind]; cbv zeta.
  all: replace (slice path (N.to_nat (len_n root)) (N.to_nat (len_n path))) with rest
         by (subst path; unfold slice, len_n; rewrite !Nat2N.id, skipn_app, skipn_all, Nat.sub_diag, app_length; cbn [skipn app];
             replace (length root + length rest - length root)%nat with (length rest) by lia; now rewrite firstn_all).
  all: change (s_starts_with_c 47 rest) with (Router.starts_with_slash rest); destruct (Router.starts_with_slash rest); reflexivity.
Qed.

(** ** dispatch_struct_segments: the segments handed to [repe_handle] *)
(** a loop whose every iteration falls through, simulated by a model step under a relation *)
Lemma for_each_sim {A S M R} (f : A -> S -> outcome (lflow S R)) (push : M -> A -> M) (Rel : S -> M -> Prop) :
  (forall x s m, Rel s m -> exists s', f x s = Ok (LNext s') /\ Rel s' (push m x)) ->
  forall l s m, Rel s m -> exists s', for_each_chk f l s = Ok (LFell s') /\ Rel s' (fold_left push l m).
Proof.
  intros H. induction l as [|x l IH]; intros s m Hr; cbn [for_each_chk fold_left].
  - exists s. split; [reflexivity|exact Hr].
  - destruct (H x s m Hr) as (s1 & -> & Hr1). cbn [bind]. exact (IH s1 _ Hr1).
Qed.

(** the 16-slot array, the counter and the spill vector of the code are the model's [segstate] *)
Definition seg_rel (s : list str * N * option (list str)) (m : JsonPtr.segstate) : Prop :=
  let '(stack, count, overflow) := s in
  stack = JsonPtr.ss_stack m /\ count = N.of_nat (JsonPtr.ss_count m) /\ overflow = JsonPtr.ss_overflow m /\
  @length str (JsonPtr.ss_stack m) = 16%nat /\ (JsonPtr.ss_count m <= 16)%nat.

Lemma store_set_nth {A} (x : A) : forall l i, (i < length l)%nat ->
  firstn i l ++ x :: skipn (S i) l = JsonPtr.set_nth i x l.
Proof.
  induction l as [|y l IH]; intros i Hi; cbn [length] in Hi; [lia|].
  destruct i as [|i]; cbn [firstn skipn app JsonPtr.set_nth]; [reflexivity|].
  f_equal. apply IH. lia.
Qed.
Lemma set_nth_len {A} (x : A) : forall l i, length (JsonPtr.set_nth i x l) = length l.
Proof. induction l as [|y l IH]; intros [|i]; cbn [JsonPtr.set_nth length]; try reflexivity. now rewrite IH. Qed.

Ltac seg_step :=
  let x := fresh "x" in let m := fresh "m" in let stack := fresh "stack" in let count := fresh "count" in
  let overflow := fresh "overflow" in let Hlen := fresh "Hlen" in let Hcnt := fresh "Hcnt" in
  intros x [[stack count] overflow] m (-> & -> & -> & Hlen & Hcnt);
  unfold JsonPtr.ss_push, JsonPtr.STACK_SEGS, seg_rel;
  destruct (JsonPtr.ss_overflow m) as [v|];
  [ eexists; split; [reflexivity|]; cbn [JsonPtr.ss_stack JsonPtr.ss_count JsonPtr.ss_overflow]; repeat split; assumption
  | destruct (Nat.ltb_spec (JsonPtr.ss_count m) 16) as [Hlt|Hge];
    [ replace (N.of_nat (JsonPtr.ss_count m) <? 16) with true by lia;
      unfold l_store_chk, add64, len_n; rewrite Hlen;
      replace (N.of_nat (JsonPtr.ss_count m) <? N.of_nat 16) with true by lia;
      replace (N.of_nat (JsonPtr.ss_count m) + 1 <? two64) with true by (unfold two64; lia);
      cbn [bind]; eexists; split; [reflexivity|];
      cbn [JsonPtr.ss_stack JsonPtr.ss_count JsonPtr.ss_overflow]; rewrite Nat2N.id, set_nth_len;
      repeat split; try assumption; try lia; apply store_set_nth; lia
    | replace (N.of_nat (JsonPtr.ss_count m) <? 16) with false by lia;
      unfold add64; replace (16 + 4 <? two64) with true by reflexivity;
      cbn [bind app]; eexists; split; [reflexivity|];
      cbn [JsonPtr.ss_stack JsonPtr.ss_count JsonPtr.ss_overflow]; repeat split; assumption ] ].

Lemma slice_firstn {A} (l : list A) n : (n <= length l)%nat -> slice_chk l 0 (N.of_nat n) = Ok (firstn n l).
Proof.
  intros H. unfold slice_chk. replace ((0 <=? N.of_nat n) && (N.of_nat n <=? N.of_nat (length l))) with true by lia.
  unfold slice. rewrite Nat2N.id. change (N.to_nat 0) with 0%nat. cbn [skipn]. rewrite Nat.sub_0_r. reflexivity.
Qed.

Lemma struct_segments_agrees : agrees1 gen_struct_segments (fun rel => Ok (SHandled (JsonPtr.struct_segments rel))).
Proof.
  pose proof jp_parse_agrees_c07 as Hp.
  gen_start. all: intros rel; callee Hp; unfold JsonPtr.struct_segments; change (s_contains_c 126 rel) with (JsonPtr.contains_tilde rel).
  all: destruct (JsonPtr.contains_tilde rel); cbn [negb]; [rewrite Hp; reflexivity|].
  all: unfold JsonPtr.fast_segments; destruct rel as [|c r] eqn:E; [reflexivity|]; rewrite <- E; replace (list_is_empty rel) with false by (subst rel; reflexivity).
  all: change (s_eqb rel [47]) with (JsonPtr.str_eqb rel [47]); destruct (JsonPtr.str_eqb rel [47]); [reflexivity|]; cbv zeta.
  all: replace (o_unwrap_or (s_strip_prefix_c 47 rel) rel) with (JsonPtr.strip_slash rel) by (subst rel; unfold JsonPtr.strip_slash, s_strip_prefix_c, o_unwrap_or; destruct (c =? 47); reflexivity).
  all: rewrite s_split_jsonptr.
  all: match goal with |- context [for_each_chk ?f ?l ?s] =>
         destruct (for_each_sim f JsonPtr.ss_push seg_rel ltac:(seg_step) l s JsonPtr.ss_init) as (s' & Hrun & Hrel);
         [ unfold seg_rel, JsonPtr.ss_init, JsonPtr.STACK_SEGS; cbn [JsonPtr.ss_stack JsonPtr.ss_count JsonPtr.ss_overflow];
           repeat split; try reflexivity; lia
         | rewrite Hrun; cbn [bind]; destruct s' as [[stack count] overflow]; destruct Hrel as (-> & -> & -> & Hlen & Hcnt) ]
       end.
  all: unfold JsonPtr.ss_result; destruct (JsonPtr.ss_overflow _); [reflexivity|].
  all: rewrite slice_firstn by lia; reflexivity.
Qed.

(** ** the hypothesis [utf8_cont_ok] *)
(** it holds of every string without continuation bytes (in particular of ASCII strings) ... *)
Lemma utf8_cont_ok_no_cont s : forallb (fun b => negb ((128 <=? b) && (b <? 192))) s = true -> utf8_cont_ok s = true.
Proof.
  unfold utf8_cont_ok. generalize 0 at 1. induction s as [|b s IH]; intros prev H; [reflexivity|].
  cbn [forallb cont_ok_after] in *. apply andb_true_iff in H as [Hb Hs]. rewrite (IH b Hs).
  destruct (prev <? 128); cbn [andb]; [|reflexivity]. rewrite andb_true_r.
  destruct ((128 <=? b) && (b <? 192)); [discriminate|reflexivity].
Qed.
(** ... and it is needed: on the byte string "/" 0x80 (not UTF-8, so not a [&str]) the rendering of
    [&pointer[1..]] hits the char-boundary panic *)
Lemma parse_pointer_boundary_panic :
  match gen_parse_pointer with Some f => f [47; 128] = Panic | None => True end.
Proof. gen_start. all: vm_compute; reflexivity. Qed.

(** ** the bundles quoted by Props/C14.v and Props/C07.v *)
Lemma c14_source_translation :
  agrees1 gen_jp_parse (fun p => Ok (Registry.jp_parse p)) /\
  agrees2 gen_jp_evaluate (fun d p => Ok (Registry.jp_eval d p)) /\
  agrees1 gen_unescape_token (fun t => Ok (opt_res (Registry.unescape_token t))) /\
  agrees1 gen_escape_token (fun t => Ok (Registry.escape_token t)) /\
  agrees1 gen_canonical_pointer (fun segs => Ok (Registry.canonical_pointer segs)) /\
  match gen_parse_pointer with
  | Some f => forall p, utf8_cont_ok p = true -> f p = Ok (gen_res (Registry.parse_pointer p))
  | None => True
  end /\
  match gen_canonical_key with
  | Some f => forall p, utf8_cont_ok p = true -> f p = Ok (gen_res (Registry.canonical_key p))
  | None => True
  end /\
  match gen_parse_registration_path with
  | Some f => forall p, utf8_cont_ok p = true -> f p = Ok (gen_res (Registry.parse_registration_path p))
  | None => True
  end /\
  match gen_register_function_key with
  | Some f => forall ens p, utf8_cont_ok p = true -> f ens p = Ok (register_spec ens p)
  | None => True
  end /\
  agrees2 gen_registry_matches (fun pre path => Ok (Registry.mount_matches pre path)) /\
  agrees2 gen_pointer_for (fun pre path => Ok (Registry.pointer_for pre path)) /\
  agrees1 gen_registry_prefix (fun prefix => Ok (Registry.normalize_prefix prefix)).
Proof.
  exact (conj jp_parse_agrees (conj jp_evaluate_agrees (conj unescape_token_agrees (conj escape_token_agrees (conj canonical_pointer_agrees
        (conj parse_pointer_agrees (conj canonical_key_agrees (conj parse_registration_path_agrees
        (conj register_function_key_agrees (conj registry_matches_agrees (conj pointer_for_agrees registry_prefix_agrees_c14))))))))))).
Qed.

(** [gen_res] forgets nothing: these model functions fail with [InvalidPointer] only *)
Lemma c14_source_translation_errors :
  (forall p e, Registry.parse_pointer p = Registry.Err e -> e = Registry.EInvalidPointer) /\
  (forall p e, Registry.canonical_key p = Registry.Err e -> e = Registry.EInvalidPointer) /\
  (forall p e, Registry.parse_registration_path p = Registry.Err e -> e = Registry.EInvalidPointer).
Proof. exact (conj parse_pointer_err (conj canonical_key_err parse_registration_path_err)). Qed.

Lemma c07_source_translation :
  agrees1 gen_jp_parse (fun p => Ok (JsonPtr.parse p)) /\
  agrees1 gen_struct_segments (fun rel => Ok (SHandled (JsonPtr.struct_segments rel))) /\
  agrees2 gen_registry_matches (fun pre path => Ok (Router.matches pre path)) /\
  agrees2 gen_struct_matches (fun root path => Ok (Router.matches root path)) /\
  agrees2 gen_pointer_for (fun pre path => Ok (Router.registry_pointer pre path)) /\
  agrees1 gen_registry_prefix (fun prefix => Ok (Router.norm_prefix prefix)) /\
  agrees1 gen_struct_root (fun root => Ok (Router.norm_root root)) /\
  match gen_relative_pointer with
  | Some f => forall root path,
      (s_starts_with root path = true -> is_char_boundary path (len_n root) = true) ->
      f root path = Ok (Router.struct_relative root path)
  | None => True
  end.
Proof.
  exact (conj jp_parse_agrees_c07 (conj struct_segments_agrees (conj registry_matches_agrees_c07
        (conj struct_matches_agrees (conj pointer_for_agrees_c07 (conj registry_prefix_agrees (conj struct_root_agrees relative_pointer_agrees))))))).
Qed.
