(** Agreement of the model of the outbound size guard (Model/Limits.v) with the
    Gallina rendering of WebSocketLimits::check_outbound that bin/rs2v
    regenerates from /repo/src/websocket_limits.rs on every run
    (Gen/LimitsGen.v).  [None] (not translated) degrades to [True]. *)
From RepeV Require Import Model.Limits Base.GenLimitsPrelude Gen.LimitsGen.
From RepeV Require Export Proofs.GenAgreeBase.
From Coq Require Import ZifyBool ZifyN ZifyNat.

(** [Ok(())] exactly when the model's [check_outbound] says the message may be
    sent, [Err(MessageTooLarge)] otherwise *)
Lemma check_outbound_agrees :
  match gen_check_outbound with
  | Some f => forall l size, f l size = if check_outbound (l_peer l) size then Ok tt else Err EOther
  | None => True
  end.
Proof.
  gen_start. all: intros l size; unfold check_outbound; destruct (l_peer l) as [lim|]; [|reflexivity].
  all: repeat match goal with |- context [if ?b then _ else _] => destruct b eqn:? end.
  all: try reflexivity; try discriminate; exfalso; lia.
Qed.
