(** The C01 oracle accepts the model's observation for every well-formed case. *)
From RepeV Require Import Model.C01 Proofs.HeaderProofs Proofs.MessageProofs.
From Coq Require Import ZifyBool ZifyN ZifyNat.
Ltac Zify.zify_post_hook ::= Z.div_mod_to_equations.

Lemma split_chunks_concat sizes b : concat (split_chunks sizes b) = b.
Proof.
  revert b; induction sizes as [|s sizes IH]; intros b; cbn [split_chunks].
  - destruct b; [reflexivity|]. cbn [concat]. apply app_nil_r.
  - destruct b as [|x b]; [reflexivity|].
    destruct (s =? 0); [cbn [concat]; apply app_nil_r|].
    cbn [concat]. rewrite IH. apply firstn_skipn.
Qed.

Lemma msg_new_ok h q b m :
  msg_new h q b = Ok m ->
  m = mkMessage h q b /\ h_qlen h = lenN q /\ h_blen h = lenN b /\
  h_length h = HEADER_SIZE + lenN q + lenN b.
Proof.
  unfold msg_new.
  destruct (h_qlen h =? lenN q) eqn:E1; cbn [negb orb]; [|discriminate].
  destruct (h_blen h =? lenN b) eqn:E2; cbn [negb orb]; [|discriminate].
  destruct (h_length h =? HEADER_SIZE + lenN q + lenN b) eqn:E3; cbn [negb]; [|discriminate].
  intros H. injection H as <-. repeat split; lia.
Qed.

Lemma msg_new_cases h q b :
  (exists m, msg_new h q b = Ok m) \/ msg_new h q b = Err ELenMismatch.
Proof.
  unfold msg_new. destruct (_ || _); [now right|]. destruct (negb _); [now right|]. left; eauto.
Qed.

Lemma message_eqb_refl m : message_eqb m m = true.
Proof. now apply message_eqb_eq. Qed.

Lemma skipn_48_to_vec m : skipn 48 (to_vec m) = m_query m ++ m_body m.
Proof.
  unfold to_vec. rewrite skipn_app, encode_length, Nat.sub_diag.
  rewrite skipn_all2 by (rewrite encode_length; lia). reflexivity.
Qed.

Lemma view_exact_eq bs : view_from_slice_exact bs = from_slice_exact bs.
Proof. unfold view_from_slice_exact, from_slice_exact. now rewrite view_eq_owned. Qed.

Lemma decode_bad_spec bs h :
  hdr_ok h = true -> h_spec h <> REPE_SPEC -> decode (encode h ++ bs) = Err ESpec.
Proof.
  intros Hok Hs. unfold decode.
  rewrite app_length, encode_length.
  replace (N.of_nat (48 + length bs) <? HEADER_SIZE) with false by (unfold HEADER_SIZE; lia).
  rewrite (field_app_l (encode h) bs 8 2) by (rewrite encode_length; lia).
  rewrite f_spec by assumption.
  replace (h_spec h =? REPE_SPEC) with false by lia. reflexivity.
Qed.

Lemma from_slice_bad_spec m rest :
  hdr_ok (m_hdr m) = true -> h_spec (m_hdr m) <> REPE_SPEC ->
  from_slice (to_vec m ++ rest) = Err ESpec.
Proof.
  intros Hok Hs. unfold from_slice.
  unfold lenN. rewrite app_length, to_vec_length.
  replace (N.of_nat _ <? HEADER_SIZE) with false by (unfold HEADER_SIZE; lia).
  unfold to_vec. rewrite <- app_assoc, firstn_48_encode_app.
  rewrite <- (app_nil_r (encode (m_hdr m))). now rewrite decode_bad_spec.
Qed.

(** *** the pieces of the oracle, for an arbitrary consistent message *)
Definition pieces_hyp (m : message) : Prop :=
  hdr_ok (m_hdr m) = true /\ bytes_ok (m_query m) = true /\ bytes_ok (m_body m) = true /\
  lens_ok m /\ lenN (m_query m) + lenN (m_body m) + 1024 < two64.

  Lemma patch_self m (HP : pieces_hyp m) : patch_lengths (m_hdr m) (lenN (m_query m)) (lenN (m_body m)) = m_hdr m.
  Proof.
    destruct HP as (Hh & Hq & Hb & Hlens & Hsz).
    destruct Hlens as (L1 & L2 & L3).
    rewrite <- L1, <- L2. apply patch_lengths_id. now rewrite L3, L1, L2.
  Qed.

  Lemma piece_tv m (HP : pieces_hyp m) :
    layout_ok (m_hdr m) (to_vec m) = true /\
    bytes_eqb (skipn 48 (to_vec m)) (m_query m ++ m_body m) = true /\
    (lenN (to_vec m) =? h_length (m_hdr m)) = true.
  Proof.
    destruct HP as (Hh & Hq & Hb & Hlens & Hsz).
    split; [|split].
    - unfold to_vec. now apply encode_layout.
    - rewrite skipn_48_to_vec. apply bytes_eqb_refl.
    - unfold lenN. rewrite to_vec_length. destruct Hlens as (L1 & L2 & L3).
      unfold lenN, HEADER_SIZE in *. lia.
  Qed.

  Lemma piece_routes m cap chunks (HP : pieces_hyp m) :
    forallb (bytes_eqb (to_vec m))
      [concat (write_chunks m); into_wire_bytes cap m; concat (write_chunks m);
       concat (write_chunks m);
       concat (write_streaming_chunks (m_hdr m) (m_query m) (lenN (m_body m))
                 (split_chunks chunks (m_body m)))] = true.
  Proof.
    destruct HP as (Hh & Hq & Hb & Hlens & Hsz).
    cbn [forallb]. rewrite write_chunks_concat, into_wire_bytes_eq.
    rewrite streaming_concat by apply split_chunks_concat.
    rewrite (patch_self m) by (unfold pieces_hyp; auto).
    replace (mkMessage (m_hdr m) (m_query m) (m_body m)) with m by now destruct m.
    now rewrite !bytes_eqb_refl.
  Qed.

  Lemma framed_echo m (HP : pieces_hyp m) :
    framed (mkMessage (patch_lengths (m_hdr m) 0 (lenN (m_body m))) [] (m_body m)) (m_query m) = m.
  Proof.
    destruct HP as (Hh & Hq & Hb & Hlens & Hsz).
    unfold framed, echo_query. cbn [m_query m_body m_hdr].
    assert (patch_lengths (patch_lengths (m_hdr m) 0 (lenN (m_body m))) (lenN (m_query m)) (lenN (m_body m))
            = patch_lengths (m_hdr m) (lenN (m_query m)) (lenN (m_body m))) as -> by reflexivity.
    rewrite (patch_self m) by (unfold pieces_hyp; auto). destruct m as [h q b]. cbn [m_query m_body m_hdr]. now destruct q.
  Qed.

  Lemma framed_own m x qq (HP : pieces_hyp m) : m_query m = x :: qq -> framed m mirror_path = m.
  Proof.
    destruct HP as (Hh & Hq & Hb & Hlens & Hsz).
    intros Eq. unfold framed, echo_query. rewrite Eq. rewrite <- Eq, (patch_self m) by (unfold pieces_hyp; auto). now destruct m.
  Qed.

  Lemma piece_srv_echo m (HP : pieces_hyp m) :
    let resp := mkMessage (patch_lengths (m_hdr m) 0 (lenN (m_body m))) [] (m_body m) in
    concat (server_frame resp (m_query m)) = to_vec m /\
    into_wire_bytes (lenN (m_body resp)) (stamp resp (m_query m)) = to_vec m.
  Proof.
    destruct HP as (Hh & Hq & Hb & Hlens & Hsz).
    intros resp.
    assert (lens_ok resp) as Lr by (unfold lens_ok, resp; cbn; repeat split; reflexivity).
    rewrite server_frame_concat, into_wire_bytes_eq, (stamp_eq_framed _ _ Lr).
    unfold resp. rewrite (framed_echo m); [split; reflexivity|unfold pieces_hyp; auto].
  Qed.

  Lemma piece_srv_own m (HP : pieces_hyp m) :
    concat (server_frame m mirror_path) = to_vec (framed m mirror_path) /\
    into_wire_bytes (lenN (m_body m)) (stamp m mirror_path) = to_vec (framed m mirror_path).
  Proof. destruct HP as (Hh & Hq & Hb & Hlens & Hsz). now rewrite server_frame_concat, into_wire_bytes_eq, (stamp_eq_framed _ _ Hlens). Qed.

  Lemma hdr_ok_mirror m (HP : pieces_hyp m) :
    m_query m = [] -> hdr_ok (patch_lengths (m_hdr m) 7 (lenN (m_body m))) = true.
  Proof.
    destruct HP as (Hh & Hq & Hb & Hlens & Hsz).
    intros Eq.
    pose proof (hok_parts (m_hdr m) Hh) as P.
    assert (lenN (m_body m) + 1024 < two64) as B.
    { pose proof Hsz as S. rewrite Eq in S. change (lenN (@nil byte)) with 0 in S. lia. }
    unfold hdr_ok, patch_lengths.
    cbn [h_length h_spec h_version h_notify h_reserved h_id h_qlen h_blen h_qfmt h_bfmt h_ec].
    unfold HEADER_SIZE. unfold two64 in B, P |- * at 1 2 3. lia.
  Qed.

  Lemma to_vec_mirror m (HP : pieces_hyp m) :
    m_query m = [] ->
    to_vec (framed m mirror_path)
    = encode (patch_lengths (m_hdr m) 7 (lenN (m_body m))) ++ mirror_path ++ m_body m.
  Proof. destruct HP as (Hh & Hq & Hb & Hlens & Hsz). intros Eq. unfold framed, echo_query, to_vec. rewrite Eq. reflexivity. Qed.

  Lemma piece_mirror m (HP : pieces_hyp m) :
    m_query m = [] ->
    layout_ok (patch_lengths (m_hdr m) 7 (lenN (m_body m))) (to_vec (framed m mirror_path)) = true /\
    bytes_eqb (skipn 48 (to_vec (framed m mirror_path))) (mirror_path ++ m_body m) = true.
  Proof.
    destruct HP as (Hh & Hq & Hb & Hlens & Hsz).
    intros Eq. rewrite (to_vec_mirror m) by (unfold pieces_hyp; auto). split.
    - apply encode_layout. apply hdr_ok_mirror; [unfold pieces_hyp; auto|exact Eq].
    - rewrite skipn_app, encode_length, Nat.sub_diag.
      rewrite skipn_all2 by (rewrite encode_length; lia). apply bytes_eqb_refl.
  Qed.

  Lemma piece_parse_ok m rest (HP : pieces_hyp m) :
    h_spec (m_hdr m) = REPE_SPEC -> bytes_ok rest = true ->
    msg_ok m = true /\
    decode (to_vec m) = Ok (m_hdr m) /\
    from_slice (to_vec m ++ rest) = Ok m /\
    from_slice_exact (to_vec m) = Ok m /\
    (rest <> [] -> from_slice_exact (to_vec m ++ rest) = Err ELenMismatch).
  Proof.
    destruct HP as (Hh & Hq & Hb & Hlens & Hsz).
    intros Es Hr. destruct Hlens as (L1 & L2 & L3).
    assert (msg_ok m = true) as Hok.
    { unfold msg_ok. rewrite Hh, Hq, Hb, Es, L1, L2, L3, !N.eqb_refl. reflexivity. }
    split; [exact Hok|]. split; [|split; [|split]].
    - unfold to_vec. apply decode_encode; [exact Hh|exact Es|]. now rewrite L3, L1, L2.
    - now apply from_slice_round_trip.
    - now apply from_slice_exact_round_trip.
    - intros Hne. now apply from_slice_exact_trailing.
  Qed.

  Lemma piece_read m rest (HP : pieces_hyp m) :
    msg_ok m = true -> can_alloc_R4 (h_length (m_hdr m)) = true ->
    read_message can_alloc_R4 (to_vec m ++ rest) = Ok (m, rest) /\
    read_message_into can_alloc_R4 (to_vec m ++ rest) = Ok (to_vec m, rest).
  Proof.
    destruct HP as (Hh & Hq & Hb & Hlens & Hsz).
    intros Hok Ea.
    assert (can_alloc_R4 (lenN (m_query m)) = true /\ can_alloc_R4 (lenN (m_body m)) = true) as [A1 A2].
    { unfold can_alloc_R4 in *. destruct Hlens as (L1 & L2 & L3). unfold HEADER_SIZE in *. lia. }
    split; [now apply read_message_round_trip|now apply read_message_into_round_trip].
  Qed.

  Lemma piece_bad_spec m rest (HP : pieces_hyp m) :
    h_spec (m_hdr m) <> REPE_SPEC ->
    decode (to_vec m) = Err ESpec /\ from_slice (to_vec m ++ rest) = Err ESpec /\
    from_slice_exact (to_vec m) = Err ESpec.
  Proof.
    destruct HP as (Hh & Hq & Hb & Hlens & Hsz).
    intros Hs. split; [|split].
    - unfold to_vec. now apply decode_bad_spec.
    - now apply from_slice_bad_spec.
    - unfold from_slice_exact. rewrite <- (app_nil_r (to_vec m)) at 1.
      now rewrite from_slice_bad_spec.
  Qed.

Lemma andb_intro a b : a = true -> b = true -> a && b = true.
Proof. now intros -> ->. Qed.

Section Holds.
  Variable c : c01_case.
  Hypothesis Hwf : c01_wf c = true.

  Lemma wf_parts : hdr_ok (c_hdr c) = true /\ bytes_ok (c_query c) = true /\
                   bytes_ok (c_body c) = true /\ bytes_ok (c_rest c) = true /\
                   lenN (c_query c) + lenN (c_body c) + 1024 < two64.
  Proof.
    unfold c01_wf in Hwf.
    apply andb_true_iff in Hwf as [H H5]. apply andb_true_iff in H as [H H4].
    apply andb_true_iff in H as [H H3]. apply andb_true_iff in H as [H1 H2].
    apply N.ltb_lt in H5. auto.
  Qed.

  Lemma ok_model_C01_err :
    msg_new (c_hdr c) (c_query c) (c_body c) = Err ELenMismatch ->
    ok_C01 c (empty_obs (Err ELenMismatch)) = true.
  Proof.
    intros He. unfold ok_C01, empty_obs. cbn [o_new].
    unfold msg_new in He.
    destruct (h_qlen (c_hdr c) =? lenN (c_query c)); [|reflexivity].
    destruct (h_blen (c_hdr c) =? lenN (c_body c)); [|reflexivity].
    cbn [negb orb andb] in *.
    destruct (h_length (c_hdr c) =? HEADER_SIZE + lenN (c_query c) + lenN (c_body c));
      [discriminate|reflexivity].
  Qed.

  Lemma ok_model_C01_ok m :
    m = mkMessage (c_hdr c) (c_query c) (c_body c) -> lens_ok m ->
    ok_C01 c
      (mkC01Obs (Ok m) (model_routes c m) (model_srv c m) (decode (to_vec m))
         [from_slice (to_vec m ++ c_rest c); view_from_slice (to_vec m ++ c_rest c)]
         [from_slice_exact (to_vec m); view_from_slice_exact (to_vec m)]
         [from_slice_exact (to_vec m ++ c_rest c); view_from_slice_exact (to_vec m ++ c_rest c)]
         (read_message can_alloc_R4 (to_vec m ++ c_rest c))
         (read_message_into can_alloc_R4 (to_vec m ++ c_rest c))) = true.
  Proof.
    intros Em Hlens.
    destruct wf_parts as (Hh & Hq & Hb & Hr & Hsz).
    assert (hdr_ok (m_hdr m) = true) as Hh' by now rewrite Em.
    assert (bytes_ok (m_query m) = true) as Hq' by now rewrite Em.
    assert (bytes_ok (m_body m) = true) as Hb' by now rewrite Em.
    assert (lenN (m_query m) + lenN (m_body m) + 1024 < two64) as Hsz' by now rewrite Em.
    assert (pieces_hyp m) as HP by (unfold pieces_hyp; auto).
    unfold ok_C01.
    cbn [o_new o_routes o_srv o_decode o_parse_more o_parse_exact o_parse_trail o_read o_read_into].
    rewrite <- Em, message_eqb_refl. cbn [andb].
    unfold model_routes.
    destruct (piece_tv m HP) as (T1 & T2 & T3).
    rewrite T1, T2, T3. cbn [andb].
    rewrite (piece_routes m _ _ HP). rewrite andb_true_r.
    apply andb_intro.
    - (* length bookkeeping and the three servers *)
      unfold model_srv, srv_resp.
      destruct (c_echo c).
      + destruct (piece_srv_echo m HP) as (S1 & S2). cbn zeta in S1, S2.
        rewrite S1, S2. cbn [forallb]. rewrite !bytes_eqb_refl. reflexivity.
      + destruct (piece_srv_own m HP) as (S1 & S2). rewrite S1, S2.
        cbn [forallb]. rewrite !bytes_eqb_refl.
        apply andb_intro; [reflexivity|]. cbn [andb].
        destruct (m_query m) as [|x qq] eqn:Eq.
        * destruct (piece_mirror m HP Eq) as (M1 & M2).
          change (lenN mirror_path) with 7. now rewrite M1, M2.
        * rewrite (framed_own m x qq HP Eq). apply bytes_eqb_refl.
    - rewrite view_eq_owned, !view_exact_eq.
      destruct (h_spec (m_hdr m) =? REPE_SPEC) eqn:Es.
      + apply N.eqb_eq in Es.
        destruct (piece_parse_ok m (c_rest c) HP Es Hr) as (Hok & P1 & P2 & P3 & P4).
        rewrite P1, P2, P3. rewrite (proj2 (header_eqb_eq _ _) eq_refl).
        cbn [forallb is_ok_msg andb]. rewrite message_eqb_refl. cbn [andb].
        apply andb_intro; [apply andb_intro; [apply andb_intro; [apply andb_intro; [reflexivity|reflexivity]|reflexivity]|]|].
        * destruct (c_rest c) as [|r0 rr] eqn:Er.
          -- rewrite app_nil_r, P3. cbn [is_ok_msg]. now rewrite message_eqb_refl.
          -- rewrite P4 by discriminate. reflexivity.
        * destruct (can_alloc_R4 (h_length (m_hdr m))) eqn:Ea; [|reflexivity].
          destruct (piece_read m (c_rest c) HP Hok Ea) as (R1 & R2). rewrite R1, R2.
          now rewrite message_eqb_refl, !bytes_eqb_refl.
      + assert (h_spec (m_hdr m) <> REPE_SPEC) as Hs by lia.
        destruct (piece_bad_spec m (c_rest c) HP Hs) as (B1 & B2 & B3).
        rewrite B1, B2, B3. reflexivity.
  Qed.

  Theorem ok_model_C01 : ok_C01 c (model_C01 c) = true.
  Proof.
    unfold model_C01.
    destruct (msg_new_cases (c_hdr c) (c_query c) (c_body c)) as [[m Hm]|He].
    - rewrite Hm. apply msg_new_ok in Hm as (Em & Hql & Hbl & Hl).
      apply ok_model_C01_ok; [exact Em|]. rewrite Em. unfold lens_ok. cbn [m_hdr m_query m_body]. auto.
    - rewrite He. now apply ok_model_C01_err.
  Qed.
End Holds.
