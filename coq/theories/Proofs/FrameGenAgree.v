(** Agreement of the hand-written models of the frame parsers (Model/Header.v,
    Model/Message.v) with the Gallina rendering that bin/rs2v regenerates from
    /repo/src/header.rs and src/message.rs on every run (Gen/FrameGen.v).  The
    rendering keeps every panicking operation of the Rust text (overflow-checked
    [+], bounds-checked slicing and indexing); the statements are equalities of
    outcomes on ALL byte strings, including the [Panic] branches.  A function
    that could not be translated is [None] and its lemma degrades to [True]. *)
From RepeV Require Import Model.Message Proofs.HeaderProofs Proofs.MessageProofs Base.GenFramePrelude Gen.FrameGen.
From RepeV Require Export Proofs.GenAgreeBase.
From Coq Require Import ZifyBool ZifyN ZifyNat.
Ltac Zify.zify_post_hook ::= Z.div_mod_to_equations.

(** ** the checked operations succeed inside their bounds *)
Lemma index_chk_ok bs i : i < lenN bs -> index_chk bs i = Ok (nth (N.to_nat i) bs 0).
Proof.
  intros H. unfold index_chk. destruct (nth_error bs (N.to_nat i)) eqn:E.
  - now rewrite (nth_error_nth _ _ _ E).
  - apply nth_error_None in E. unfold lenN in H. lia.
Qed.

Lemma field_byte bs off : (off < length bs)%nat -> field bs off 1 = nth off bs 0.
Proof.
  intros H. unfold field, slice. replace (off + 1 - off)%nat with 1%nat by lia.
  rewrite <- (firstn_skipn off bs) at 2. rewrite app_nth2; rewrite firstn_length; [|lia].
  replace (off - Nat.min off (length bs))%nat with 0%nat by lia.
  assert (Hs : (0 < length (skipn off bs))%nat) by (rewrite skipn_length; lia).
  destruct (skipn off bs) as [|b r]; [cbn [length] in Hs; lia|].
  cbn [firstn nth le_dec]. lia.
Qed.

Lemma add64_inv a b c : add64 a b = Ok c -> c = a + b /\ a + b < two64.
Proof. unfold add64. destruct (a + b <? two64) eqn:E; intros H; inversion H. lia. Qed.

Lemma add64_not_err a b e : add64 a b <> Err e.
Proof. unfold add64. destruct (a + b <? two64); discriminate. Qed.

Lemma slice_chk_inv {A} (bs : list A) a b l :
  slice_chk bs a b = Ok l -> a <= b /\ b <= lenN bs /\ l = slice bs (N.to_nat a) (N.to_nat b) /\ lenN l = b - a.
Proof.
  unfold slice_chk. destruct ((a <=? b) && (b <=? N.of_nat (length bs))) eqn:E; intros H; inversion H.
  unfold lenN. repeat split; try reflexivity; try lia. rewrite slice_length by lia. lia.
Qed.

(** ** tactics *)
(** evaluate the straight-line prefix of a rendered body: closed overflow-checked
    additions, in-bounds slices and indexings ([lia] from the length hypothesis) *)
Ltac closed_nums :=
  repeat match goal with
         | |- context [N.to_nat ?n] =>
             let v := eval vm_compute in (N.to_nat n) in
             progress change (N.to_nat n) with v
         end;
  repeat match goal with
         | |- context [(?a + ?b)%nat] =>
             let v := eval vm_compute in (a + b)%nat in
             progress change (a + b)%nat with v
         end.
Ltac chain :=
  repeat first
    [ progress cbn [bind]
    | match goal with
      | |- context [add64 ?a ?b] =>
          let v := eval vm_compute in (add64 a b) in
          lazymatch v with Ok _ => change (add64 a b) with v end
      end
    | rewrite slice_chk_ok by (unfold HEADER_SIZE in *; lia)
    | rewrite index_chk_ok by (unfold HEADER_SIZE in *; lia) ].
Ltac split_all :=
  repeat (match goal with
          | |- context [if ?b then _ else _] => destruct b eqn:?
          | |- context [match ?o with Some _ => _ | None => _ end] => destruct o eqn:?
          | H : context [if ?b then _ else _] |- _ => destruct b eqn:?
          | H : context [match ?o with Some _ => _ | None => _ end] |- _ => destruct o eqn:?
          end; cbv beta iota in *; try discriminate).
Ltac done :=
  try reflexivity; try discriminate; try congruence; try (exfalso; lia); try (repeat f_equal; lia).

(** ** Header::decode *)
Lemma decode_agrees : agrees1 gen_decode decode.
Proof.
  gen_start. all: intros bs; unfold decode; fold (lenN bs).
  all: destruct (lenN bs <? HEADER_SIZE) eqn:Hlen; [reflexivity|].
  all: assert (H48 : 48 <= lenN bs) by (unfold HEADER_SIZE in Hlen; lia).
  all: cbv zeta; chain.
  all: rewrite !field_byte by (unfold lenN in H48; lia).
  all: unfold field; closed_nums.
  all: unfold opt_bind, opt_eqb; split_all; done.
Qed.

(** ** Message::new: the code computes [48 + |q| + |b|] with overflow-checked
    [u64] additions; the hand model uses unbounded addition (two Vec lengths
    and 48 cannot exceed 2^64).  Exactly: *)
Lemma msg_new_agrees :
  match gen_msg_new with
  | Some f => forall h q b,
      f h q b = if HEADER_SIZE + lenN q + lenN b <? two64 then msg_new h q b else Panic
  | None => True
  end.
Proof.
  gen_start. all: intros h q b.
  all: unfold msg_new, add64, bind, HEADER_SIZE in *; cbv zeta; split_all; done.
Qed.

(** ... hence, in the only situation that exists at run time: *)
Lemma msg_new_agrees_small :
  match gen_msg_new with
  | Some f => forall h q b, HEADER_SIZE + lenN q + lenN b < two64 -> f h q b = msg_new h q b
  | None => True
  end.
Proof.
  pose proof msg_new_agrees as Ha. by_agree Ha.
  all: rewrite Ha; replace (HEADER_SIZE + lenN q + lenN b <? two64) with true by lia; reflexivity.
Qed.

(** ** the slice parsers *)
Ltac bind_split :=
  repeat (match goal with |- context [bind ?x _] => destruct x eqn:? end; cbn [bind]; try reflexivity).
Ltac invert_checks :=
  repeat match goal with
         | H : add64 _ _ = Ok _ |- _ => apply add64_inv in H; destruct H
         | H : slice_chk _ _ _ = Ok _ |- _ => apply slice_chk_inv in H; destruct H as (? & ? & ? & ?)
         end.
Ltac open_header :=
  lazymatch goal with
  | |- context [lenN ?bs <? HEADER_SIZE] =>
      destruct (lenN bs <? HEADER_SIZE) eqn:Hlen; [reflexivity|];
      rewrite (slice_chk_ok bs 0 HEADER_SIZE) by (unfold HEADER_SIZE in *; lia); cbn [bind];
      closed_nums; rewrite slice_0_firstn
  end.

Lemma from_slice_agrees : agrees1 gen_from_slice from_slice.
Proof.
  pose proof decode_agrees as Hd. pose proof msg_new_agrees as Hn.
  gen_start. all: intros bs; callee Hd; callee Hn; unfold from_slice.
  all: open_header; rewrite ?Hd; cbv zeta; bind_split.
  all: match goal with |- context [lenN ?b <? ?e] => destruct (lenN b <? e) eqn:Hsmall end; [reflexivity|]; bind_split.
  all: rewrite ?Hn; invert_checks.
  all: match goal with |- (if ?c then _ else _) = _ => replace c with true by (unfold HEADER_SIZE in *; lia) end; reflexivity.
Qed.

Lemma view_from_slice_agrees : agrees1 gen_view_from_slice view_from_slice.
Proof.
  pose proof decode_agrees as Hd.
  gen_start. all: intros bs; callee Hd; unfold view_from_slice.
  all: open_header; rewrite ?Hd; cbv zeta; bind_split.
  all: match goal with |- context [lenN ?b <? ?e] => destruct (lenN b <? e) eqn:Hsmall end; [reflexivity|]; bind_split.
Qed.

(** a frame that parsed has lengths that add up below 2^64 *)
Lemma from_slice_lens bs m :
  from_slice bs = Ok m -> HEADER_SIZE + lenN (m_query m) + lenN (m_body m) < two64.
Proof.
  intros H. apply from_slice_ok in H as ((H48 & _ & _ & Hl & Hlt) & Hle & Hq & Hb).
  rewrite Hq, Hb. unfold lenN in *. rewrite !slice_length by (unfold HEADER_SIZE in *; lia).
  unfold HEADER_SIZE in *. lia.
Qed.

Lemma from_slice_exact_agrees : agrees1 gen_from_slice_exact from_slice_exact.
Proof.
  pose proof from_slice_agrees as Hf.
  gen_start. all: intros bs; callee Hf; unfold from_slice_exact; rewrite ?Hf.
  all: destruct (from_slice bs) as [m|e| |] eqn:Hm; cbn [bind]; try reflexivity.
  all: pose proof (from_slice_lens _ _ Hm) as Hlens.
  all: unfold add64, bind, HEADER_SIZE in *; cbv zeta; split_all; done.
Qed.

Lemma view_from_slice_exact_agrees : agrees1 gen_view_from_slice_exact view_from_slice_exact.
Proof.
  pose proof view_from_slice_agrees as Hf.
  gen_start. all: intros bs; callee Hf; unfold view_from_slice_exact; rewrite ?Hf.
  all: destruct (view_from_slice bs) as [m|e| |] eqn:Hm; cbn [bind]; try reflexivity.
  all: rewrite view_eq_owned in Hm; pose proof (from_slice_lens _ _ Hm) as Hlens.
  all: unfold add64, bind, HEADER_SIZE in *; cbv zeta; split_all; done.
Qed.

(** ** Header::encode: the code fills a zeroed 48-byte array field by field;
    [buf[o] = self.version] stores the u8 itself, the model writes [le_enc 1]. *)
Lemma copy_chk_at (pre rest src : list byte) a b :
  a = lenN pre -> b = a + lenN src -> lenN src <= lenN rest ->
  copy_chk (pre ++ rest) a b src = Ok ((pre ++ src) ++ skipn (length src) rest).
Proof.
  intros Ha Hb Hr. unfold copy_chk, lenN in *. rewrite app_length.
  replace ((a <=? b) && (b <=? N.of_nat (length pre + length rest)) && (b - a =? N.of_nat (length src))) with true by lia.
  f_equal. unfold overwrite. replace (N.to_nat a) with (length pre) by lia.
  rewrite firstn_app, firstn_all, Nat.sub_diag, firstn_O, app_nil_r.
  rewrite skipn_app, skipn_all2 by lia. replace (length pre + length src - length pre)%nat with (length src) by lia.
  now rewrite app_nil_l, app_assoc.
Qed.

Lemma store_chk_at (pre rest : list byte) i v :
  i = lenN pre -> 1 <= lenN rest ->
  store_chk (pre ++ rest) i v = Ok ((pre ++ [v]) ++ skipn 1 rest).
Proof.
  intros Hi Hr. unfold store_chk, lenN in *. rewrite app_length.
  replace (i <? N.of_nat (length pre + length rest)) with true by lia.
  f_equal. unfold overwrite. replace (N.to_nat i) with (length pre) by lia.
  rewrite firstn_app, firstn_all, Nat.sub_diag, firstn_O, app_nil_r.
  rewrite skipn_app, skipn_all2 by (cbn [length]; lia). cbn [length].
  replace (length pre + 1 - length pre)%nat with 1%nat by lia.
  now rewrite app_nil_l, app_assoc.
Qed.

Ltac enc_side :=
  unfold lenN; rewrite ?app_length, ?skipn_length, ?repeat_length, ?le_enc_length; cbn [length]; lia.
Ltac enc_chain :=
  repeat first
    [ progress cbn [bind]
    | match goal with
      | |- context [add64 ?a ?b] =>
          let v := eval vm_compute in (add64 a b) in
          lazymatch v with Ok _ => change (add64 a b) with v end
      end
    | rewrite copy_chk_at by enc_side
    | rewrite store_chk_at by enc_side ].

Lemma encode_agrees :
  match gen_encode with
  | Some f => forall h, h_version h < 256 -> h_notify h < 256 -> f h = Ok (encode h)
  | None => True
  end.
Proof.
  gen_start. all: intros h Hv Hn; cbv zeta; closed_nums.
  all: change (repeat 0 48) with ([] ++ repeat 0 48); enc_chain.
  all: f_equal; unfold encode.
  all: match goal with |- ?l ++ ?r = _ => assert (Hr : r = []) by (apply length_zero_iff_nil; rewrite ?skipn_length, ?repeat_length, ?le_enc_length; cbn [length]; lia); rewrite Hr end.
  all: rewrite app_nil_r, app_nil_l, <- !app_assoc.
  all: replace (le_enc 1 (h_version h)) with [h_version h] by (cbn [le_enc]; f_equal; lia).
  all: replace (le_enc 1 (h_notify h)) with [h_notify h] by (cbn [le_enc]; f_equal; lia).
  all: reflexivity.
Qed.

(** ** bundles quoted by Props/C01.v and Props/C02.v *)
Lemma c01_source_translation :
  agrees1 gen_decode decode /\
  match gen_encode with
  | Some f => forall h, h_version h < 256 -> h_notify h < 256 -> f h = Ok (encode h)
  | None => True
  end /\
  match gen_msg_new with
  | Some f => forall h q b,
      f h q b = if HEADER_SIZE + lenN q + lenN b <? two64 then msg_new h q b else Panic
  | None => True
  end /\
  agrees1 gen_from_slice from_slice /\
  agrees1 gen_from_slice_exact from_slice_exact.
Proof.
  exact (conj decode_agrees (conj encode_agrees (conj msg_new_agrees (conj from_slice_agrees from_slice_exact_agrees)))).
Qed.

Lemma c02_source_translation :
  agrees1 gen_decode decode /\
  agrees1 gen_from_slice from_slice /\
  agrees1 gen_from_slice_exact from_slice_exact /\
  agrees1 gen_view_from_slice view_from_slice /\
  agrees1 gen_view_from_slice_exact view_from_slice_exact.
Proof.
  exact (conj decode_agrees (conj from_slice_agrees (conj from_slice_exact_agrees
        (conj view_from_slice_agrees view_from_slice_exact_agrees)))).
Qed.
