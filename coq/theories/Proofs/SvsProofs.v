(** proofs about the Svs model (C09) *)
From RepeV Require Import Model.Svs.
