(** Proofs about the value-stream model (C09): the sink cuts every write
    segmentation of a byte stream into [chunks_of]; the lookahead session
    delivers every chunk once, in order, marks exactly the final one, and turns
    a producer failure into an error; reassembly returns the stream. *)
From RepeV Require Import Model.Svs.
From Coq Require Import ZifyBool ZifyN ZifyNat.
Ltac Zify.zify_post_hook ::= Z.div_mod_to_equations.

Local Open Scope nat_scope.

(** * generic list facts *)
Lemma firstn_app_exact {A} (a l : list A) : firstn (length a) (a ++ l) = a.
Proof. induction a as [|x a IH]; cbn [length firstn app]; [now destruct l|now rewrite IH]. Qed.

Lemma skipn_app_exact {A} (a l : list A) : skipn (length a) (a ++ l) = l.
Proof. induction a as [|x a IH]; cbn [length skipn app]; [reflexivity|exact IH]. Qed.

Lemma bytes_eqb_refl l : bytes_eqb l l = true.
Proof. induction l as [|x l IH]; cbn [bytes_eqb]; [reflexivity|]. rewrite IH, N.eqb_refl. reflexivity. Qed.

Lemma bytes_eqb_eq a b : bytes_eqb a b = true -> a = b.
Proof.
  revert b; induction a as [|x a IH]; intros [|y b] H; cbn [bytes_eqb] in H; try discriminate; [reflexivity|].
  apply andb_true_iff in H. destruct H as [H1 H2]. apply N.eqb_eq in H1. f_equal; [exact H1|exact (IH _ H2)].
Qed.

Lemma starts_with_app p l : starts_with p (p ++ l) = true.
Proof. induction p as [|x p IH]; cbn [starts_with app]; [reflexivity|]. rewrite IH, N.eqb_refl. reflexivity. Qed.

Lemma starts_with_prefix p l : starts_with p l = true -> exists r, l = p ++ r.
Proof.
  revert l; induction p as [|x p IH]; intros l H; [exists l; reflexivity|].
  destruct l as [|y l]; cbn [starts_with] in H; [discriminate|].
  apply andb_true_iff in H. destruct H as [H1 H2]. apply N.eqb_eq in H1. subst y.
  destruct (IH _ H2) as [r ->]. exists r. reflexivity.
Qed.

(** * chunks_of *)

(** the shape "every chunk has exactly [n] bytes, except a non-empty last one
    of at most [n]" *)
Fixpoint chunking (n : nat) (cs : list chunk) : Prop :=
  match cs with
  | [] => True
  | c :: cs' => match cs' with
                | [] => 0 < length c <= n
                | _ :: _ => length c = n /\ chunking n cs'
                end
  end.

Lemma chunks_of_fuel_enough n : 0 < n -> forall f1 f2 l, length l <= f1 -> length l <= f2 ->
  chunks_of_fuel f1 n l = chunks_of_fuel f2 n l.
Proof.
  intros Hn f1; induction f1 as [|f1 IH]; intros f2 l H1 H2.
  - destruct l; [|cbn [length] in H1; lia]. destruct f2; reflexivity.
  - destruct f2 as [|f2]; [destruct l; [reflexivity|cbn [length] in H2; lia]|].
    destruct l as [|x l]; [reflexivity|]. cbn [chunks_of_fuel]. f_equal.
    apply IH; rewrite skipn_length; cbn [length] in *; lia.
Qed.

Lemma chunks_of_nil n : chunks_of n [] = [].
Proof. reflexivity. Qed.

Lemma chunks_of_step n x l : 0 < n ->
  chunks_of n (x :: l) = firstn n (x :: l) :: chunks_of n (skipn n (x :: l)).
Proof.
  intros Hn. unfold chunks_of at 1. cbn [length chunks_of_fuel]. f_equal.
  apply chunks_of_fuel_enough; [exact Hn| |lia].
  rewrite skipn_length. cbn [length]. lia.
Qed.

Lemma chunks_of_full n a l : 0 < n -> length a = n -> chunks_of n (a ++ l) = a :: chunks_of n l.
Proof.
  intros Hn Ha. destruct a as [|x a]; [cbn [length] in Ha; lia|].
  change ((x :: a) ++ l) with (x :: (a ++ l)). rewrite chunks_of_step by exact Hn.
  change (x :: (a ++ l)) with ((x :: a) ++ l). rewrite <- Ha.
  rewrite firstn_app_exact, skipn_app_exact. reflexivity.
Qed.

Lemma chunks_of_short n l : 0 < length l <= n -> chunks_of n l = [l].
Proof.
  intros H. destruct l as [|x l]; [cbn [length] in H; lia|].
  rewrite chunks_of_step by lia. rewrite firstn_all2, skipn_all2 by lia. reflexivity.
Qed.

Lemma chunks_of_concat n : 0 < n -> forall k l, length l <= k -> concat (chunks_of n l) = l.
Proof.
  intros Hn k; induction k as [|k IH]; intros l Hl.
  - destruct l; [reflexivity|cbn [length] in Hl; lia].
  - destruct l as [|x l]; [reflexivity|]. rewrite chunks_of_step by exact Hn. cbn [concat].
    rewrite IH; [apply firstn_skipn|]. rewrite skipn_length. cbn [length] in *. lia.
Qed.

Lemma chunks_of_chunking n : 0 < n -> forall k l, length l <= k -> chunking n (chunks_of n l).
Proof.
  intros Hn k; induction k as [|k IH]; intros l Hl.
  - destruct l; [exact I|cbn [length] in Hl; lia].
  - destruct l as [|x l]; [exact I|]. rewrite chunks_of_step by exact Hn.
    assert (Hs : length (skipn n (x :: l)) <= k) by (rewrite skipn_length; cbn [length] in *; lia).
    specialize (IH _ Hs).
    destruct (skipn n (x :: l)) as [|y r] eqn:E.
    + rewrite chunks_of_nil. cbn [chunking]. rewrite firstn_length. cbn [length]. lia.
    + assert (Hlen : n < length (x :: l)).
      { assert (H0 : length (skipn n (x :: l)) = length (y :: r)) by now rewrite E.
        rewrite skipn_length in H0. cbn [length] in *. lia. }
      rewrite chunks_of_step in * by exact Hn. cbn [chunking]. split; [|exact IH].
      rewrite firstn_length. lia.
Qed.

(** the shape determines the chunks: [chunks_of] is the only such cutting *)
Lemma chunking_unique n : 0 < n -> forall cs, chunking n cs -> cs = chunks_of n (concat cs).
Proof.
  intros Hn cs; induction cs as [|c cs IH]; intros H; [reflexivity|].
  cbn [chunking] in H. destruct cs as [|c2 cs].
  - cbn [concat]. rewrite app_nil_r. symmetry. apply chunks_of_short. exact H.
  - destruct H as [Hc H]. cbn [concat]. rewrite chunks_of_full by assumption. f_equal. exact (IH H).
Qed.

(** * the sink *)
Definition tailc (r : list byte) : list chunk := match r with [] => [] | _ :: _ => [r] end.

Lemma sink_bytes_spec n : 0 < n -> forall data buf, length buf < n ->
  length (snd (sink_bytes n buf data)) < n /\
  chunks_of n (buf ++ data) = fst (sink_bytes n buf data) ++ tailc (snd (sink_bytes n buf data)).
Proof.
  intros Hn data; induction data as [|b data IH]; intros buf Hb.
  - cbn [sink_bytes fst snd]. rewrite app_nil_r. split; [exact Hb|].
    destruct buf as [|x buf]; [reflexivity|]. cbn [tailc app]. apply chunks_of_short. cbn [length] in *. lia.
  - cbn [sink_bytes].
    assert (Hl : length (buf ++ [b]) = S (length buf)) by (rewrite app_length; cbn [length]; lia).
    replace (buf ++ b :: data) with ((buf ++ [b]) ++ data) by (rewrite <- app_assoc; reflexivity).
    destruct (n <=? length (buf ++ [b])) eqn:E.
    + apply Nat.leb_le in E.
      specialize (IH [] Hn). cbn [app] in IH.
      destruct (sink_bytes n [] data) as [cs r]. cbn [fst snd] in *.
      split; [exact (proj1 IH)|]. rewrite chunks_of_full by lia. rewrite (proj2 IH). reflexivity.
    + apply Nat.leb_gt in E. apply IH. exact E.
Qed.

Lemma sink_bytes_app n a : forall b buf,
  sink_bytes n buf (a ++ b) =
  (fst (sink_bytes n buf a) ++ fst (sink_bytes n (snd (sink_bytes n buf a)) b),
   snd (sink_bytes n (snd (sink_bytes n buf a)) b)).
Proof.
  induction a as [|x a IH]; intros b buf.
  - cbn [app sink_bytes fst snd]. now destruct (sink_bytes n buf b).
  - cbn [app sink_bytes]. destruct (n <=? length (buf ++ [x])).
    + rewrite IH. destruct (sink_bytes n [] a) as [cs r]. cbn [fst snd]. reflexivity.
    + apply IH.
Qed.

Lemma sink_bytes_writes_concat n ws : forall buf,
  sink_bytes_writes n buf ws = sink_bytes n buf (concat ws).
Proof.
  induction ws as [|w ws IH]; intros buf; [reflexivity|].
  cbn [sink_bytes_writes concat]. rewrite sink_bytes_app.
  destruct (sink_bytes n buf w) as [cs b]. cbn [fst snd]. rewrite IH.
  now destruct (sink_bytes n b (concat ws)).
Qed.

(** a write that does not fill the buffer only appends *)
Lemma sink_bytes_fill n x : forall buf, length buf + length x < n -> sink_bytes n buf x = ([], buf ++ x).
Proof.
  induction x as [|b x IH]; intros buf H; cbn [sink_bytes]; [now rewrite app_nil_r|].
  assert (Hl : length (buf ++ [b]) = S (length buf)) by (rewrite app_length; cbn [length]; lia).
  cbn [length] in H.
  destruct (n <=? length (buf ++ [b])) eqn:E; [apply Nat.leb_le in E; lia|].
  rewrite IH by lia. rewrite <- app_assoc. reflexivity.
Qed.

(** a write that fills the buffer exactly sends it *)
Lemma sink_bytes_fill_exact n x : forall buf, x <> [] -> length buf + length x = n ->
  sink_bytes n buf x = ([buf ++ x], []).
Proof.
  induction x as [|b x IH]; intros buf Hx H; [congruence|]. cbn [sink_bytes].
  assert (Hl : length (buf ++ [b]) = S (length buf)) by (rewrite app_length; cbn [length]; lia).
  cbn [length] in H.
  destruct x as [|b2 x].
  - cbn [length] in H. destruct (n <=? length (buf ++ [b])) eqn:E; [reflexivity|apply Nat.leb_gt in E; lia].
  - destruct (n <=? length (buf ++ [b])) eqn:E; [apply Nat.leb_le in E; cbn [length] in H; lia|].
    rewrite IH; [|discriminate|cbn [length] in *; lia]. rewrite <- app_assoc. reflexivity.
Qed.

(** the bulk loop of [ChunkSink::write] is the byte-at-a-time sink *)
Lemma sink_write_bytes n : 0 < n -> forall fuel data buf, length buf < n -> length data < fuel ->
  sink_write fuel n buf data = sink_bytes n buf data.
Proof.
  intros Hn fuel; induction fuel as [|f IH]; intros data buf Hb Hf; [lia|].
  destruct data as [|d ds]; [reflexivity|].
  cbn [sink_write].
  set (data := d :: ds) in *.
  set (take := Nat.min (n - length buf) (length data)).
  assert (Ht : 0 < take) by (subst take data; cbn [length]; lia).
  replace (sink_bytes n buf data) with (sink_bytes n buf (firstn take data ++ skipn take data))
    by (now rewrite firstn_skipn).
  rewrite sink_bytes_app.
  assert (Hfl : length (firstn take data) = take) by (rewrite firstn_length; subst take; lia).
  assert (Hbl : length (buf ++ firstn take data) = length buf + take) by (rewrite app_length; lia).
  destruct (n <=? length (buf ++ firstn take data)) eqn:E.
  - apply Nat.leb_le in E.
    rewrite sink_bytes_fill_exact; [| |lia].
    + cbn [fst snd]. rewrite IH; [|exact Hn|rewrite skipn_length; lia].
      destruct (sink_bytes n [] (skipn take data)) as [cs r]. reflexivity.
    + intros Hnil. rewrite Hnil in Hfl. cbn [length] in Hfl. lia.
  - apply Nat.leb_gt in E.
    assert (Hall : take = length data) by lia.
    rewrite sink_bytes_fill by lia. cbn [fst snd].
    rewrite skipn_all2 by lia. cbn [sink_bytes app].
    destruct f; reflexivity.
Qed.

Lemma sink_writes_bytes n : 0 < n -> forall ws buf, length buf < n ->
  sink_writes n buf ws = sink_bytes n buf (concat ws).
Proof.
  intros Hn ws; induction ws as [|w ws IH]; intros buf Hb; [reflexivity|].
  cbn [sink_writes concat]. rewrite sink_write_bytes by (try assumption; lia).
  rewrite sink_bytes_app.
  pose proof (sink_bytes_spec n Hn w buf Hb) as [Hr _].
  destruct (sink_bytes n buf w) as [cs b]. cbn [fst snd] in *. rewrite IH by exact Hr.
  now destruct (sink_bytes n b (concat ws)).
Qed.

(** both sink models, every segmentation: full chunks followed by the flushed tail *)
Theorem sink_writes_chunks n ws : 0 < n ->
  fst (sink_writes n [] ws) ++ tailc (snd (sink_writes n [] ws)) = chunks_of n (concat ws) /\
  length (snd (sink_writes n [] ws)) < n.
Proof.
  intros Hn. rewrite sink_writes_bytes by (cbn [length]; lia).
  pose proof (sink_bytes_spec n Hn (concat ws) [] Hn) as [H1 H2]. cbn [app] in H2. split; [now rewrite H2|exact H1].
Qed.

Theorem sink_bytes_writes_chunks n ws : 0 < n ->
  fst (sink_bytes_writes n [] ws) ++ tailc (snd (sink_bytes_writes n [] ws)) = chunks_of n (concat ws).
Proof.
  intros Hn. rewrite sink_bytes_writes_concat.
  pose proof (sink_bytes_spec n Hn (concat ws) [] Hn) as [_ H2]. cbn [app] in H2. now rewrite H2.
Qed.

(** the full chunks alone are a prefix of the stream *)
Lemma sink_full_chunks_prefix n ws : 0 < n ->
  concat ws = concat (fst (sink_writes n [] ws)) ++ snd (sink_writes n [] ws).
Proof.
  intros Hn. pose proof (sink_writes_chunks n ws Hn) as [H _].
  rewrite <- (chunks_of_concat n Hn (length (concat ws)) (concat ws) (le_n _)), <- H, concat_app.
  f_equal. destruct (snd (sink_writes n [] ws)); cbn [tailc concat]; [reflexivity|now rewrite app_nil_r].
Qed.

(** * produce *)
Lemma produce_ok n ws : 0 < n -> produce n ws false = map MChunk (chunks_of n (concat ws)) ++ [MEnd].
Proof.
  intros Hn. pose proof (sink_writes_chunks n ws Hn) as [H _]. rewrite <- H. unfold produce.
  destruct (sink_writes n [] ws) as [cs tail]. cbn [fst snd].
  destruct tail; cbn [tailc]; rewrite map_app, <- app_assoc; reflexivity.
Qed.

Lemma produce_fail n ws : produce n ws true = map MChunk (fst (sink_writes n [] ws)) ++ [MFail].
Proof. unfold produce. destruct (sink_writes n [] ws) as [cs tail]. reflexivity. Qed.

(** * the session behind [next]: what a consumer sees for a list of chunks *)

(** clean end after the chunks [cs] *)
Fixpoint pulls_ok (cs : list chunk) : list resp :=
  match cs with
  | [] => [RChunk [] true]
  | c :: cs' => match cs' with
                | [] => [RChunk c true]
                | _ :: _ => RChunk c false :: pulls_ok cs'
                end
  end.

(** failure (or a channel closed without a terminal message) after the chunks [cs] *)
Fixpoint pulls_fail (cs : list chunk) : list resp :=
  match cs with
  | [] => [RErr EC_INTERNAL]
  | c :: cs' => match cs' with
                | [] => [RErr EC_INTERNAL]
                | _ :: _ => RChunk c false :: pulls_fail cs'
                end
  end.

Definition st (rx : list msg) (look : option chunk) : table := Some (mkSession rx look false).

Lemma next_first_chunk c rx : next_handler (st (MChunk c :: rx) None) = next_handler (st rx (Some c)).
Proof. reflexivity. Qed.

(** the terminal message that follows the chunks *)
Inductive term_ok : list msg -> Prop := term_end rest : term_ok (MEnd :: rest).
Inductive term_fail : list msg -> Prop :=
| term_f rest : term_fail (MFail :: rest)
| term_closed : term_fail [].

Lemma raw_pulls_ok_look tl : term_ok tl -> forall cs c fuel, length cs < fuel ->
  raw_pulls fuel (st (map MChunk cs ++ tl) (Some c)) = (pulls_ok (c :: cs), None).
Proof.
  intros [rest] cs; induction cs as [|c2 cs IH]; intros c fuel Hf; (destruct fuel as [|f]; [cbn [length] in Hf; lia|]).
  - reflexivity.
  - cbn [raw_pulls map app]. unfold st at 1. cbn [next_handler s_done session_pull s_look s_rx pull_second recv].
    fold (st (map MChunk cs ++ MEnd :: rest) (Some c2)).
    rewrite IH by (cbn [length] in Hf; lia). reflexivity.
Qed.

Lemma raw_pulls_ok tl : term_ok tl -> forall cs fuel, length cs < fuel ->
  raw_pulls fuel (st (map MChunk cs ++ tl) None) = (pulls_ok cs, None).
Proof.
  intros Ht cs fuel Hf. destruct cs as [|c cs].
  - destruct Ht as [rest]. destruct fuel; [lia|]. reflexivity.
  - destruct fuel as [|f]; [lia|]. cbn [map app]. cbn [raw_pulls]. rewrite next_first_chunk.
    pose proof (raw_pulls_ok_look tl Ht cs c (S f)) as H. cbn [raw_pulls] in H. apply H. cbn [length] in Hf. lia.
Qed.

Lemma raw_pulls_fail_look tl : term_fail tl -> forall cs c fuel, length cs < fuel ->
  raw_pulls fuel (st (map MChunk cs ++ tl) (Some c)) = (pulls_fail (c :: cs), None).
Proof.
  intros Ht cs; induction cs as [|c2 cs IH]; intros c fuel Hf; (destruct fuel as [|f]; [cbn [length] in Hf; lia|]).
  - destruct Ht; reflexivity.
  - cbn [raw_pulls map app]. unfold st at 1. cbn [next_handler s_done session_pull s_look s_rx pull_second recv].
    fold (st (map MChunk cs ++ tl) (Some c2)).
    rewrite IH by (cbn [length] in Hf; lia). reflexivity.
Qed.

Lemma raw_pulls_fail tl : term_fail tl -> forall cs fuel, length cs < fuel ->
  raw_pulls fuel (st (map MChunk cs ++ tl) None) = (pulls_fail cs, None).
Proof.
  intros Ht cs fuel Hf. destruct cs as [|c cs].
  - destruct fuel; [lia|]. destruct Ht; reflexivity.
  - destruct fuel as [|f]; [lia|]. cbn [map app]. cbn [raw_pulls]. rewrite next_first_chunk.
    pose proof (raw_pulls_fail_look tl Ht cs c (S f)) as H. cbn [raw_pulls] in H. apply H. cbn [length] in Hf. lia.
Qed.

(** with less fuel (a consumer that stops early) the responses are a prefix *)
Lemma raw_pulls_prefix_look tl full : (term_ok tl /\ full = pulls_ok) \/ (term_fail tl /\ full = pulls_fail) ->
  forall cs c j, fst (raw_pulls j (st (map MChunk cs ++ tl) (Some c))) = firstn j (full (c :: cs)).
Proof.
  intros Ht cs; induction cs as [|c2 cs IH]; intros c j; (destruct j as [|j]; [reflexivity|]).
  - destruct Ht as [[[rest] ->]|[Ht ->]]; [|destruct Ht]; cbn [pulls_ok pulls_fail firstn];
      rewrite firstn_nil; reflexivity.
  - cbn [raw_pulls map app]. unfold st at 1. cbn [next_handler s_done session_pull s_look s_rx pull_second recv].
    fold (st (map MChunk cs ++ tl) (Some c2)).
    specialize (IH c2 j). destruct (raw_pulls j (st (map MChunk cs ++ tl) (Some c2))) as [rs t'].
    cbn [fst] in *. rewrite IH.
    destruct Ht as [[_ ->]|[_ ->]]; reflexivity.
Qed.

Lemma raw_pulls_prefix tl full : (term_ok tl /\ full = pulls_ok) \/ (term_fail tl /\ full = pulls_fail) ->
  forall cs j, fst (raw_pulls j (st (map MChunk cs ++ tl) None)) = firstn j (full cs).
Proof.
  intros Ht cs j. destruct cs as [|c cs].
  - destruct j; [reflexivity|]. destruct Ht as [[[rest] ->]|[Ht ->]]; [|destruct Ht]; cbn [pulls_ok pulls_fail firstn];
      rewrite firstn_nil; reflexivity.
  - destruct j as [|j]; [reflexivity|]. cbn [map app]. cbn [raw_pulls]. rewrite next_first_chunk.
    pose proof (raw_pulls_prefix_look tl full Ht cs c (S j)) as H. cbn [raw_pulls] in H. exact H.
Qed.

(** * reassembly *)
Lemma chunk_reader_ok_look tl : term_ok tl -> forall cs c fuel, length cs < fuel ->
  chunk_reader fuel (st (map MChunk cs ++ tl) (Some c)) = HBytes (concat (c :: cs)).
Proof.
  intros [rest] cs; induction cs as [|c2 cs IH]; intros c fuel Hf; (destruct fuel as [|f]; [cbn [length] in Hf; lia|]).
  - cbn [concat]. rewrite app_nil_r. reflexivity.
  - cbn [chunk_reader map app]. unfold st at 1. cbn [next_handler s_done session_pull s_look s_rx pull_second recv].
    fold (st (map MChunk cs ++ MEnd :: rest) (Some c2)).
    rewrite IH by (cbn [length] in Hf; lia). reflexivity.
Qed.

Lemma chunk_reader_ok tl : term_ok tl -> forall cs fuel, length cs < fuel ->
  chunk_reader fuel (st (map MChunk cs ++ tl) None) = HBytes (concat cs).
Proof.
  intros Ht cs fuel Hf. destruct cs as [|c cs].
  - destruct Ht as [rest]. destruct fuel; [lia|]. reflexivity.
  - destruct fuel as [|f]; [lia|]. cbn [map app]. cbn [chunk_reader]. rewrite next_first_chunk.
    pose proof (chunk_reader_ok_look tl Ht cs c (S f)) as H. cbn [chunk_reader] in H. apply H. cbn [length] in Hf. lia.
Qed.

Lemma chunk_reader_fail_look tl : term_fail tl -> forall cs c fuel,
  chunk_reader fuel (st (map MChunk cs ++ tl) (Some c)) = HErr.
Proof.
  intros Ht cs; induction cs as [|c2 cs IH]; intros c fuel; (destruct fuel as [|f]; [reflexivity|]).
  - destruct Ht; reflexivity.
  - cbn [chunk_reader map app]. unfold st at 1. cbn [next_handler s_done session_pull s_look s_rx pull_second recv].
    fold (st (map MChunk cs ++ tl) (Some c2)).
    rewrite IH. reflexivity.
Qed.

Lemma chunk_reader_fail tl : term_fail tl -> forall cs fuel,
  chunk_reader fuel (st (map MChunk cs ++ tl) None) = HErr.
Proof.
  intros Ht cs fuel. destruct cs as [|c cs].
  - destruct fuel; [reflexivity|]. destruct Ht; reflexivity.
  - destruct fuel as [|f]; [reflexivity|]. cbn [map app]. cbn [chunk_reader]. rewrite next_first_chunk.
    pose proof (chunk_reader_fail_look tl Ht cs c (S f)) as H. cbn [chunk_reader] in H. exact H.
Qed.

(** * what the response lists look like *)
Lemma bodies_pulls_ok cs : bodies (pulls_ok cs) = concat cs.
Proof.
  unfold bodies. induction cs as [|c cs IH]; [reflexivity|].
  destruct cs as [|c2 cs]; [reflexivity|].
  change (pulls_ok (c :: c2 :: cs)) with (RChunk c false :: pulls_ok (c2 :: cs)).
  cbn [map concat resp_body]. cbn [concat] in IH. rewrite IH. reflexivity.
Qed.

Lemma one_last_final_pulls_ok cs : one_last_final (pulls_ok cs) = true.
Proof.
  induction cs as [|c cs IH]; [reflexivity|]. destruct cs as [|c2 cs]; [reflexivity|].
  change (pulls_ok (c :: c2 :: cs)) with (RChunk c false :: pulls_ok (c2 :: cs)). exact IH.
Qed.

Lemma ends_in_error_pulls_fail cs : ends_in_error (pulls_fail cs) = true.
Proof.
  induction cs as [|c cs IH]; [reflexivity|]. destruct cs as [|c2 cs]; [reflexivity|].
  change (pulls_fail (c :: c2 :: cs)) with (RChunk c false :: pulls_fail (c2 :: cs)). exact IH.
Qed.

(** what a failed stream delivered: all full chunks but the last one *)
Lemma bodies_pulls_fail cs : bodies (pulls_fail cs) = concat (removelast cs).
Proof.
  unfold bodies. induction cs as [|c cs IH]; [reflexivity|].
  destruct cs as [|c2 cs]; [reflexivity|].
  change (pulls_fail (c :: c2 :: cs)) with (RChunk c false :: pulls_fail (c2 :: cs)).
  change (removelast (c :: c2 :: cs)) with (c :: removelast (c2 :: cs)).
  cbn [map concat resp_body]. rewrite IH. reflexivity.
Qed.

Lemma concat_removelast_prefix (cs : list chunk) : exists r, concat cs = concat (removelast cs) ++ r.
Proof.
  induction cs as [|c cs IH]; [exists []; reflexivity|].
  destruct cs as [|c2 cs]; [exists c; cbn [concat removelast app]; now rewrite app_nil_r|].
  destruct IH as [r IH]. exists r.
  change (removelast (c :: c2 :: cs)) with (c :: removelast (c2 :: cs)).
  cbn [concat] in *. rewrite IH, app_assoc. reflexivity.
Qed.

(** the readable form of [one_last_final] and [ends_in_error] *)
Definition not_last (r : resp) : Prop := exists b, r = RChunk b false.

Lemma one_last_final_iff rs : one_last_final rs = true <->
  exists init b, rs = init ++ [RChunk b true] /\ Forall not_last init.
Proof.
  split.
  - induction rs as [|r rs IH]; intros H; [discriminate|].
    destruct r as [b [|]|ec]; cbn [one_last_final] in H; [|destruct (IH H) as (init & b' & -> & Hf)|discriminate].
    + destruct rs; [|discriminate]. exists [], b. split; [reflexivity|constructor].
    + exists (RChunk b false :: init), b'. split; [reflexivity|]. constructor; [now exists b|exact Hf].
  - intros (init & b & -> & Hf). induction Hf as [|r init [b' ->] _ IH]; [reflexivity|exact IH].
Qed.

Lemma ends_in_error_iff rs : ends_in_error rs = true <->
  exists init ec, rs = init ++ [RErr ec] /\ Forall not_last init.
Proof.
  split.
  - induction rs as [|r rs IH]; intros H; [discriminate|].
    destruct r as [b [|]|ec]; cbn [ends_in_error] in H; [discriminate|destruct (IH H) as (init & ec & -> & Hf)|].
    + exists (RChunk b false :: init), ec. split; [reflexivity|]. constructor; [now exists b|exact Hf].
    + destruct rs; [|discriminate]. exists [], ec. split; [reflexivity|constructor].
  - intros (init & ec & -> & Hf). induction Hf as [|r init [b' ->] _ IH]; [reflexivity|exact IH].
Qed.

Lemma partial_ok_pulls_ok chk cs : forall j, partial_ok chk false (firstn j (pulls_ok cs)) (concat cs) = true.
Proof.
  induction cs as [|c cs IH]; intros j.
  - destruct j as [|j]; [reflexivity|]. cbn [pulls_ok firstn partial_ok concat starts_with length is_nil negb].
    rewrite firstn_nil. destruct chk; reflexivity.
  - destruct j as [|j]; [reflexivity|]. destruct cs as [|c2 cs].
    + cbn [pulls_ok firstn partial_ok concat is_nil negb]. rewrite firstn_nil, app_nil_r. cbn [is_nil].
      rewrite <- (app_nil_r c) at 2. rewrite starts_with_app, Nat.eqb_refl. destruct chk; reflexivity.
    + change (pulls_ok (c :: c2 :: cs)) with (RChunk c false :: pulls_ok (c2 :: cs)).
      cbn [firstn partial_ok]. change (concat (c :: c2 :: cs)) with (c ++ concat (c2 :: cs)).
      rewrite starts_with_app, skipn_app_exact, IH. destruct chk; reflexivity.
Qed.

Lemma partial_ok_pulls_fail chk cs : forall j extra,
  partial_ok chk true (firstn j (pulls_fail cs)) (concat cs ++ extra) = true.
Proof.
  induction cs as [|c cs IH]; intros j extra.
  - destruct j as [|j]; [reflexivity|]. cbn [pulls_fail firstn partial_ok]. rewrite firstn_nil. reflexivity.
  - destruct j as [|j]; [reflexivity|]. destruct cs as [|c2 cs].
    + cbn [pulls_fail firstn partial_ok]. rewrite firstn_nil. reflexivity.
    + change (pulls_fail (c :: c2 :: cs)) with (RChunk c false :: pulls_fail (c2 :: cs)).
      cbn [firstn partial_ok]. change (concat (c :: c2 :: cs)) with (c ++ concat (c2 :: cs)).
      rewrite <- app_assoc, starts_with_app, skipn_app_exact, IH. destruct chk; reflexivity.
Qed.

(** * the whole exchange of a stream *)
Lemma lenw_bound n ws : 0 < n -> length (chunks_of n (concat ws)) <= lenw ws.
Proof.
  intros Hn. unfold lenw.
  assert (G : forall k l, length l <= k -> length (chunks_of n l) <= length l).
  { induction k as [|k IH]; intros l Hl.
    - destruct l; [cbn; lia|cbn [length] in Hl; lia].
    - destruct l as [|x l]; [cbn; lia|]. rewrite chunks_of_step by exact Hn. cbn [length].
      assert (Hs : length (skipn n (x :: l)) <= k) by (rewrite skipn_length; cbn [length] in *; lia).
      specialize (IH _ Hs). rewrite skipn_length in *. cbn [length] in *. lia. }
  exact (G _ _ (le_n _)).
Qed.

Lemma full_chunks_bound n ws : 0 < n -> length (fst (sink_writes n [] ws)) <= lenw ws.
Proof.
  intros Hn. pose proof (sink_writes_chunks n ws Hn) as [H _]. pose proof (lenw_bound n ws Hn) as B.
  rewrite <- H, app_length in B. lia.
Qed.

Theorem raw_exchange_ok n ws fuel : 0 < n -> lenw ws < fuel ->
  raw_pulls fuel (open_handler n ws false) = (pulls_ok (chunks_of n (concat ws)), None).
Proof.
  intros Hn Hf. unfold open_handler. rewrite produce_ok by exact Hn.
  apply (raw_pulls_ok [MEnd] (term_end [])). pose proof (lenw_bound n ws Hn). lia.
Qed.

Theorem raw_exchange_fail n ws fuel : 0 < n -> lenw ws < fuel ->
  raw_pulls fuel (open_handler n ws true) = (pulls_fail (fst (sink_writes n [] ws)), None).
Proof.
  intros Hn Hf. unfold open_handler. rewrite produce_fail.
  apply (raw_pulls_fail [MFail] (term_f [])). pose proof (full_chunks_bound n ws Hn). lia.
Qed.

Theorem reader_ok n ws fuel : 0 < n -> lenw ws < fuel ->
  chunk_reader fuel (open_handler n ws false) = HBytes (concat ws).
Proof.
  intros Hn Hf. unfold open_handler. rewrite produce_ok by exact Hn.
  pose proof (lenw_bound n ws Hn) as B.
  pose proof (chunk_reader_ok [MEnd] (term_end []) (chunks_of n (concat ws)) fuel ltac:(lia)) as R.
  unfold st in R. rewrite R, (chunks_of_concat n Hn _ _ (le_n _)). reflexivity.
Qed.

Theorem reader_fail n ws fuel : chunk_reader fuel (open_handler n ws true) = HErr.
Proof. unfold open_handler. rewrite produce_fail. apply (chunk_reader_fail [MFail] (term_f [])). Qed.

(** a panicking body writer: the channel closes after the full chunks, which the
    session treats as a failure; the consumer sees exactly what it sees when the
    body writer returns an error at the same point *)
Lemma produce_panic_closed n ws : produce_panic n ws = map MChunk (fst (sink_writes n [] ws)) ++ [].
Proof. unfold produce_panic. now rewrite app_nil_r. Qed.

Theorem raw_exchange_panic n ws fuel : 0 < n -> lenw ws < fuel ->
  raw_pulls fuel (open_panic n ws) = (pulls_fail (fst (sink_writes n [] ws)), None).
Proof.
  intros Hn Hf. unfold open_panic. rewrite produce_panic_closed.
  apply (raw_pulls_fail [] term_closed). pose proof (full_chunks_bound n ws Hn). lia.
Qed.

Theorem reader_panic n ws fuel : chunk_reader fuel (open_panic n ws) = HErr.
Proof. unfold open_panic. rewrite produce_panic_closed. apply (chunk_reader_fail [] term_closed). Qed.

Theorem panic_same_as_error n ws fuel : 0 < n -> lenw ws < fuel ->
  raw_pulls fuel (open_panic n ws) = raw_pulls fuel (open_handler n ws true) /\
  chunk_reader fuel (open_panic n ws) = chunk_reader fuel (open_handler n ws true).
Proof.
  intros Hn Hf. rewrite raw_exchange_panic, raw_exchange_fail, reader_panic, reader_fail by assumption.
  split; reflexivity.
Qed.

(** * segmentation of the case *)
Lemma segment_concat sizes : forall data, concat (segment sizes data) = data.
Proof.
  induction sizes as [|k sizes IH]; intros data; cbn [segment].
  - destruct data; [reflexivity|]. cbn [concat]. now rewrite app_nil_r.
  - cbn [concat]. rewrite IH. apply firstn_skipn.
Qed.

(** * the bounded channel: whatever the depth and the schedule, the consumer
    receives the producer's messages in the order they were sent *)
Record chan : Set := mkChan { ch_pending : list msg; ch_queue : list msg; ch_got : list msg }.

Inductive chan_step (d : nat) : chan -> chan -> Prop :=
| ch_send m p q g : length q < d -> chan_step d (mkChan (m :: p) q g) (mkChan p (q ++ [m]) g)
| ch_recv m p q g : chan_step d (mkChan p (m :: q) g) (mkChan p q (g ++ [m]))
| ch_rendezvous m p g : chan_step d (mkChan (m :: p) [] g) (mkChan p [] (g ++ [m])).

Inductive chan_reach (d : nat) : chan -> chan -> Prop :=
| reach_refl c : chan_reach d c c
| reach_step c1 c2 c3 : chan_reach d c1 c2 -> chan_step d c2 c3 -> chan_reach d c1 c3.

Lemma chan_fifo d msgs c : chan_reach d (mkChan msgs [] []) c ->
  ch_got c ++ ch_queue c ++ ch_pending c = msgs.
Proof.
  intros H. remember (mkChan msgs [] []) as c0 eqn:E. induction H as [c|c1 c2 c3 H IH S].
  - subst c. reflexivity.
  - specialize (IH E). destruct S; cbn [ch_got ch_queue ch_pending] in *; rewrite <- IH;
      repeat rewrite <- app_assoc; reflexivity.
Qed.

(** * the oracle accepts the model *)
Local Open Scope N_scope.

Lemma wf_n c : c09_wf c = true -> (0 < N.to_nat (c_n c))%nat.
Proof. unfold c09_wf. intros H. lia. Qed.

Lemma hl_is_refl b : hl_is (HBytes b) (Some b) = true.
Proof. cbn [hl_is]. apply bytes_eqb_refl. Qed.

Lemma model_with_ok c ws plain : (0 < N.to_nat (c_n c))%nat -> c_fail c = None ->
  model_C09_with c ws plain =
  let cs := chunks_of (N.to_nat (c_n c)) (concat ws) in
  let vec := HBytes (if c_zstd c then plain else concat ws) in
  mkO09 (pulls_ok cs) (RErr EC_INVALID_QUERY)
        (firstn (N.to_nat (c_cancel_after c)) (pulls_ok cs)) (RErr EC_INVALID_QUERY)
        (if c_zstd c then plain else []) vec (if c_kind c <? 3 then Some vec else None).
Proof.
  intros Hn Hf. unfold model_C09_with, c09_open, c09_failed. rewrite Hf. cbn [andb].
  rewrite raw_exchange_ok by (try exact Hn; lia).
  rewrite reader_ok by (try exact Hn; lia).
  pose proof (raw_pulls_prefix [MEnd] pulls_ok (or_introl (conj (term_end []) eq_refl))
                (chunks_of (N.to_nat (c_n c)) (concat ws)) (N.to_nat (c_cancel_after c))) as P.
  unfold open_handler. rewrite produce_ok by exact Hn. unfold st in P.
  destruct (raw_pulls (N.to_nat (c_cancel_after c)) _) as [cp t2]. cbn [fst] in P. subst cp.
  reflexivity.
Qed.

Lemma model_with_fail c ws plain k : (0 < N.to_nat (c_n c))%nat -> c_fail c = Some k ->
  model_C09_with c ws plain =
  let cs := fst (sink_writes (N.to_nat (c_n c)) [] ws) in
  mkO09 (pulls_fail cs) (RErr EC_INVALID_QUERY)
        (firstn (N.to_nat (c_cancel_after c)) (pulls_fail cs)) (RErr EC_INVALID_QUERY)
        (if c_zstd c then plain else []) HErr (if c_kind c <? 3 then Some HErr else None).
Proof.
  intros Hn Hf. unfold model_C09_with, c09_open, c09_failed. rewrite Hf. cbn [andb].
  destruct (c_panic c).
  - rewrite raw_exchange_panic by (try exact Hn; lia).
    rewrite reader_panic.
    pose proof (raw_pulls_prefix [] pulls_fail (or_intror (conj term_closed eq_refl))
                  (fst (sink_writes (N.to_nat (c_n c)) [] ws)) (N.to_nat (c_cancel_after c))) as P.
    unfold open_panic. rewrite produce_panic_closed. unfold st in P.
    destruct (raw_pulls (N.to_nat (c_cancel_after c)) _) as [cp t2]. cbn [fst] in P. subst cp.
    reflexivity.
  - rewrite raw_exchange_fail by (try exact Hn; lia).
    rewrite reader_fail.
    pose proof (raw_pulls_prefix [MFail] pulls_fail (or_intror (conj (term_f []) eq_refl))
                  (fst (sink_writes (N.to_nat (c_n c)) [] ws)) (N.to_nat (c_cancel_after c))) as P.
    unfold open_handler. rewrite produce_fail. unfold st in P.
    destruct (raw_pulls (N.to_nat (c_cancel_after c)) _) as [cp t2]. cbn [fst] in P. subst cp.
    reflexivity.
Qed.

Lemma pulls_ok_nil_only cs : cs = [] -> pulls_ok cs = [RChunk [] true].
Proof. intros ->. reflexivity. Qed.

Theorem ok_model_C09 c : c09_wf c = true -> ok_C09 c (model_C09 c) = true.
Proof.
  intros W. pose proof (wf_n c W) as Hn.
  assert (Hz : c_zstd c = false) by (unfold c09_wf in W; destruct (c_zstd c); [lia|reflexivity]).
  unfold model_C09.
  assert (Hcat : concat (c09_writes c) = c09_written c) by apply segment_concat.
  destruct (c_fail c) as [k|] eqn:Hf.
  - rewrite (model_with_fail c _ _ k Hn Hf). cbn zeta. unfold ok_C09. rewrite Hf, Hz.
    cbn [o_pulls o_after_end o_cancel_pulls o_after_cancel o_plain o_vec o_typed is_err negb andb hl_is].
    rewrite ends_in_error_pulls_fail, bodies_pulls_fail.
    pose proof (sink_full_chunks_prefix (N.to_nat (c_n c)) (c09_writes c) Hn) as Hp.
    rewrite Hcat in Hp. unfold c09_written in Hp. rewrite Hf in Hp.
    destruct (concat_removelast_prefix (fst (sink_writes (N.to_nat (c_n c)) [] (c09_writes c)))) as [r Hr].
    rewrite Hp, partial_ok_pulls_fail, Hr, <- app_assoc, starts_with_app.
    destruct (c_kind c <? 3); reflexivity.
  - rewrite (model_with_ok c _ _ Hn Hf). cbn zeta. unfold ok_C09. rewrite Hf, Hz.
    cbn [o_pulls o_after_end o_cancel_pulls o_after_cancel o_plain o_vec o_typed is_err negb andb].
    rewrite Hcat. unfold c09_written. rewrite Hf.
    rewrite bodies_pulls_ok, (chunks_of_concat _ Hn _ _ (le_n _)), bytes_eqb_refl, one_last_final_pulls_ok.
    rewrite <- (chunks_of_concat _ Hn _ (c_data c) (le_n _)) at 4.
    rewrite partial_ok_pulls_ok, hl_is_refl.
    assert (He : (if is_nil (c_data c) && true
                  then match pulls_ok (chunks_of (N.to_nat (c_n c)) (c_data c)) with
                       | [RChunk [] true] => true | _ => false end else true) = true).
    { destruct (c_data c); [reflexivity|reflexivity]. }
    rewrite He. destruct (c_kind c <? 3); [rewrite hl_is_refl|]; reflexivity.
Qed.

(** * further consequences, stated for the property file *)
Local Open Scope nat_scope.

(** the two sink models agree on every segmentation *)
Theorem sink_models_agree n ws : 0 < n -> sink_writes n [] ws = sink_bytes_writes n [] ws.
Proof. intros Hn. rewrite sink_writes_bytes by (cbn [length]; lia). now rewrite sink_bytes_writes_concat. Qed.

(** only the byte stream matters, not how the body writer cut it into writes *)
Theorem produce_segmentation_irrelevant n ws1 ws2 failed : 0 < n -> concat ws1 = concat ws2 ->
  produce n ws1 failed = produce n ws2 failed.
Proof.
  intros Hn E. unfold produce. rewrite !sink_writes_bytes by (cbn [length]; lia). now rewrite E.
Qed.

Theorem chunks_of_spec n l : 0 < n -> concat (chunks_of n l) = l /\ chunking n (chunks_of n l).
Proof. intros Hn. split; [exact (chunks_of_concat n Hn _ l (le_n _))|exact (chunks_of_chunking n Hn _ l (le_n _))]. Qed.

Theorem pull_concat n ws fuel : 0 < n -> lenw ws < fuel ->
  bodies (fst (raw_pulls fuel (open_handler n ws false))) = concat ws.
Proof.
  intros Hn Hf. rewrite raw_exchange_ok by assumption. cbn [fst].
  rewrite bodies_pulls_ok. exact (chunks_of_concat n Hn _ _ (le_n _)).
Qed.

Theorem exactly_one_last n ws fuel : 0 < n -> lenw ws < fuel ->
  exists init b, fst (raw_pulls fuel (open_handler n ws false)) = init ++ [RChunk b true] /\ Forall not_last init.
Proof.
  intros Hn Hf. rewrite raw_exchange_ok by assumption. cbn [fst].
  apply one_last_final_iff. apply one_last_final_pulls_ok.
Qed.

Theorem empty_payload_single_empty_last n ws fuel : 0 < n -> 0 < fuel -> concat ws = [] ->
  raw_pulls fuel (open_handler n ws false) = ([RChunk [] true], None).
Proof.
  intros Hn Hf E. rewrite raw_exchange_ok; [now rewrite E| exact Hn|]. unfold lenw. rewrite E. exact Hf.
Qed.

Theorem pull_after_end_errors n ws failed fuel : 0 < n -> lenw ws < fuel ->
  next_handler (snd (raw_pulls fuel (open_handler n ws failed))) = (RErr EC_INVALID_QUERY, None).
Proof.
  intros Hn Hf. destruct failed; [rewrite raw_exchange_fail|rewrite raw_exchange_ok]; try assumption; reflexivity.
Qed.

Theorem pull_after_cancel_errors t : next_handler (cancel_handler t) = (RErr EC_INVALID_QUERY, None).
Proof. reflexivity. Qed.

Theorem fail_never_last n ws fuel : 0 < n -> lenw ws < fuel ->
  exists init, fst (raw_pulls fuel (open_handler n ws true)) = init ++ [RErr EC_INTERNAL] /\
               Forall not_last init /\ exists r, concat ws = bodies init ++ r.
Proof.
  intros Hn Hf. rewrite raw_exchange_fail by assumption. cbn [fst].
  set (cs := fst (sink_writes n [] ws)).
  assert (G : forall cs, exists init, pulls_fail cs = init ++ [RErr EC_INTERNAL] /\ Forall not_last init /\
                                      bodies init = concat (removelast cs)).
  { clear. induction cs as [|c cs IH]; [exists []; repeat split; constructor|].
    destruct cs as [|c2 cs]; [exists []; repeat split; constructor|].
    destruct IH as (init & E & F & B). exists (RChunk c false :: init).
    change (pulls_fail (c :: c2 :: cs)) with (RChunk c false :: pulls_fail (c2 :: cs)).
    change (removelast (c :: c2 :: cs)) with (c :: removelast (c2 :: cs)).
    rewrite E. split; [reflexivity|]. split; [constructor; [now exists c|exact F]|].
    unfold bodies in *. cbn [map concat resp_body]. now rewrite B. }
  destruct (G cs) as (init & E & F & B). exists init. split; [exact E|]. split; [exact F|].
  rewrite B. destruct (concat_removelast_prefix cs) as [r Hr].
  exists (r ++ snd (sink_writes n [] ws)). rewrite (sink_full_chunks_prefix n ws Hn). fold cs. rewrite Hr.
  now rewrite app_assoc.
Qed.

Theorem panic_never_last n ws fuel : 0 < n -> lenw ws < fuel ->
  exists init, fst (raw_pulls fuel (open_panic n ws)) = init ++ [RErr EC_INTERNAL] /\
               Forall not_last init /\ exists r, concat ws = bodies init ++ r.
Proof.
  intros Hn Hf. rewrite (proj1 (panic_same_as_error n ws fuel Hn Hf)). exact (fail_never_last n ws fuel Hn Hf).
Qed.

(** without any check of the bytes, [partial_ok] does not look at the stream *)
Lemma partial_ok_nochk mf rs : forall r1 r2, partial_ok false mf rs r1 = partial_ok false mf rs r2.
Proof.
  induction rs as [|r rs IH]; intros r1 r2; [reflexivity|].
  destruct r as [b [|]|ec]; cbn [partial_ok]; [reflexivity| |reflexivity]. cbn [andb]. apply IH.
Qed.

(** the compressed path, for any compressor with a left inverse, and whatever
    writes the encoder performs on the sink *)
Theorem ok_model_zstd (compress decompress : list byte -> list byte) :
  (forall d, decompress (compress d) = d) ->
  forall c ws, c_zstd c = true -> c_fail c = None -> (0 < N.to_nat (c_n c)) ->
    concat ws = compress (c_data c) ->
    ok_C09 c (model_C09_with c ws (decompress (concat ws))) = true.
Proof.
  intros Inv c ws Hz Hf Hn E. rewrite (model_with_ok c _ _ Hn Hf). cbn zeta. unfold ok_C09. rewrite Hf, Hz.
  cbn [o_pulls o_after_end o_cancel_pulls o_after_cancel o_plain o_vec o_typed is_err negb andb].
  rewrite E, Inv, bytes_eqb_refl, one_last_final_pulls_ok, andb_false_r, hl_is_refl.
  rewrite (partial_ok_nochk false _ (c_data c) (concat (chunks_of (N.to_nat (c_n c)) (compress (c_data c))))).
  rewrite partial_ok_pulls_ok.
  destruct (N.ltb (c_kind c) 3); [rewrite hl_is_refl|]; reflexivity.
Qed.
