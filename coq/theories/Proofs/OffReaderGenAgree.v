(** Agreement of the model of the off-reader dispatch (Model/OffReader.v: property C16) with the
    Gallina rendering of the synchronous part of spawn_off_reader -- the admission decision --
    that bin/rs2v regenerates from /repo/src/websocket_server.rs on every run
    (Gen/OffReaderGen.v).  The closure handed to tokio::task::spawn_blocking is not translated
    (that is where the rendering is cut: it only counts the spawn).  [None] (not translated)
    degrades to [True].

    The rendering threads [reports] (what was handed to the error hooks), [held] (permits of the
    per-connection semaphore that are out), [outbox] (the outbound channel) and [spawned] (blocking
    tasks started); [sem] is [Some cap] / [None] ([with_offreader_limit(0)]: no semaphore). *)
From RepeV Require Import Model.OffReader.
From RepeV Require Import Base.GenOutboundPrelude Gen.ErrMsgGen Gen.OffReaderGen.
From RepeV Require Export Proofs.ErrMsgGenAgree.
From RepeV Require Export Proofs.GenAgreeBase.
From Coq Require Import ZifyBool ZifyN ZifyNat Lia.
Ltac Zify.zify_post_hook ::= Z.div_mod_to_equations.

Local Open Scope N_scope.

(** "off-reader dispatch limit reached; retry" *)
Definition saturated_text : list byte :=
  [111; 102; 102; 45; 114; 101; 97; 100; 101; 114; 32; 100; 105; 115; 112; 97; 116; 99; 104; 32; 108; 105; 109; 105; 116; 32;
   114; 101; 97; 99; 104; 101; 100; 59; 32; 114; 101; 116; 114; 121].
(** the reply to a request that found the cap saturated *)
Definition rejection (request : message) : message := error_response_like request ERRC_ResourceExhausted saturated_text.
(** what the model records of a queued message: its id and error code *)
Definition reply_of (m : message) : OffReader.resp := (h_id (m_hdr m), h_ec (m_hdr m)).

(** the decision: with the cap saturated ([held] permits out of [cap]) ONE saturation report; a
    notify is dropped (keep reading), a request gets the ResourceExhausted reply (built by the rendering of
    create_error_response_like: Gen/ErrMsgGen.v) queued and the reader goes on iff the outbound channel took it; nothing is spawned and no permit moves.
    Otherwise a permit is taken (when there is a semaphore), ONE blocking task is spawned, nothing
    is reported or queued, keep reading. *)
Lemma spawn_off_reader_agrees :
  match gen_spawn_off_reader with
  | Some f => forall reports held outbox spawned sem request notify,
      HEADER_SIZE + lenN (m_query request) + lenN saturated_text < two64 ->
      f reports held outbox spawned sem request notify =
      if saturated (mkSt held sem []) then
        if notify then Ok (true, reports ++ [R_Saturation], held, outbox, spawned)
        else Ok (res_is_ok (fst (oc_send outbox (rejection request))), reports ++ [R_Saturation], held,
                 snd (oc_send outbox (rejection request)), spawned)
      else Ok (true, reports, match sem with Some _ => held + 1 | None => held end, outbox, spawned + 1)
  | None => True
  end.
Proof.
  pose proof create_error_response_like_agrees as Hm. gen_start.
  all: intros reports held outbox spawned sem request notify Hlen; callee Hm; unfold saturated, sem_try_acquire; cbn [cap running].
  all: destruct sem as [c|]; [|reflexivity].
  all: replace (c <=? held) with (negb (held <? c)) by lia; destruct (held <? c); cbn [negb]; [reflexivity|].
  all: destruct notify; [reflexivity|]. all: fold saturated_text; rewrite Hm by exact Hlen; cbn [bind].
  all: fold (rejection request); destruct (oc_send outbox (rejection request)); reflexivity.
Qed.

(** the model's step on the arrival of an off-reader request, spelled out for comparison: the
    reply (if any) is the rejection's id and code, a permit is taken iff not saturated *)
Lemma arrive_offreader_model nmw s r : execution (dispatched nmw (r_route r)) = OffReader ->
  emit nmw s (Arrive r) = (if saturated s then if r_notify r then [] else [(r_id r, EC_RESOURCE_EXHAUSTED)] else []) /\
  next_running nmw s (Arrive r) = (if saturated s then running s else running s + 1).
Proof. intros H. unfold emit, next_running. rewrite H. split; reflexivity. Qed.

Lemma reply_of_rejection request : reply_of (rejection request) = (h_id (m_hdr request), EC_RESOURCE_EXHAUSTED).
Proof. reflexivity. Qed.

(** ** the bundle quoted by Props/C16.v *)
Lemma c16_source_translation :
  match gen_spawn_off_reader with
  | Some f => forall reports held outbox spawned sem request notify,
      HEADER_SIZE + lenN (m_query request) + lenN saturated_text < two64 ->
      f reports held outbox spawned sem request notify =
      if saturated (mkSt held sem []) then
        if notify then Ok (true, reports ++ [R_Saturation], held, outbox, spawned)
        else Ok (res_is_ok (fst (oc_send outbox (rejection request))), reports ++ [R_Saturation], held,
                 snd (oc_send outbox (rejection request)), spawned)
      else Ok (true, reports, match sem with Some _ => held + 1 | None => held end, outbox, spawned + 1)
  | None => True
  end.
Proof. exact spawn_off_reader_agrees. Qed.

Lemma c16_source_translation_model :
  (forall nmw s r, execution (dispatched nmw (r_route r)) = OffReader ->
     emit nmw s (Arrive r) = (if saturated s then if r_notify r then [] else [(r_id r, EC_RESOURCE_EXHAUSTED)] else []) /\
     next_running nmw s (Arrive r) = (if saturated s then running s else running s + 1)) /\
  (forall request, reply_of (rejection request) = (h_id (m_hdr request), EC_RESOURCE_EXHAUSTED)) /\
  (forall c m, oc_left c = None -> oc_send c m = (ROk tt, mkOut (oc_sent c ++ [m]) None)).
Proof.
  split; [exact arrive_offreader_model|split; [exact reply_of_rejection|]].
  intros c m H. unfold oc_send. rewrite H. reflexivity.
Qed.
