(** Proofs about the routing / dispatch model (Model/Route.v): every path
    writes the same canonical frame; that frame meets the decision table of
    C03; invocation counts; pipelines; the oracle accepts the model. *)
From RepeV Require Import Model.Route.
From Coq Require Import ZifyBool ZifyN ZifyNat.
Ltac Zify.zify_post_hook ::= Z.div_mod_to_equations.

(** ** bytes and lists *)
Lemma beqb_refl a : beqb a a = true.
Proof. induction a as [|x a IH]; cbn [beqb]; [reflexivity|]. now rewrite N.eqb_refl, IH. Qed.

Lemma beqb_eq a b : beqb a b = true -> a = b.
Proof.
  revert b; induction a as [|x a IH]; intros [|y b] H; cbn [beqb] in H; try discriminate; [reflexivity|].
  apply andb_true_iff in H as [H1 H2]. apply N.eqb_eq in H1. subst. f_equal. now apply IH.
Qed.

Lemma beqb_nil_r a : beqb a [] = match a with [] => true | _ => false end.
Proof. now destruct a. Qed.

Lemma resp_eqb_refl p : resp_eqb p p = true.
Proof. unfold resp_eqb. now rewrite !N.eqb_refl, !beqb_refl. Qed.

Lemma forall2b_refl {A} (f : A -> A -> bool) (Hf : forall x, f x x = true) l : forall2b f l l = true.
Proof. induction l as [|x l IH]; cbn [forall2b]; [reflexivity|]. now rewrite Hf, IH. Qed.

Lemma perm_eqb_refl l : perm_eqb l l = true.
Proof.
  induction l as [|p l IH]; cbn [perm_eqb take_id]; [reflexivity|].
  now rewrite N.eqb_refl, resp_eqb_refl, IH.
Qed.

Lemma listN_eqb_refl l : listN_eqb l l = true.
Proof. induction l as [|x l IH]; cbn [listN_eqb]; [reflexivity|]. now rewrite N.eqb_refl, IH. Qed.

Lemma memN_In x l : memN x l = true <-> In x l.
Proof.
  induction l as [|y l IH]; cbn [memN In]; [split; [discriminate|tauto]|].
  rewrite orb_true_iff, IH, N.eqb_eq. tauto.
Qed.

Lemma nodupN_NoDup l : nodupN l = true -> NoDup l.
Proof.
  induction l as [|x l IH]; cbn [nodupN]; intros H; [constructor|].
  apply andb_true_iff in H as [H1 H2]. constructor; [|now apply IH].
  intros Hin. apply memN_In in Hin. now rewrite Hin in H1.
Qed.

(** ** the two ways of echoing the request query coincide *)
Lemma finish_stamp_echo r p : finish_stamp r p = finish_echo r p.
Proof.
  unfold finish_stamp, finish_echo. destruct p as [i e qf bf q b]; cbn.
  destruct (q_query r) as [|x rq], q as [|y q]; reflexivity.
Qed.

(** the error frame every path ends up writing *)
Definition eresp (r : request) (c : N) (msg : list byte) : resp := mkResp (q_id r) c 0 3 (q_query r) msg.

Lemma finish_echo_err m r c msg : finish_echo r (err_resp m r c msg) = eresp r c msg.
Proof.
  destruct m; unfold err_resp, err_view, err_like, finish_echo, eresp; cbn; [reflexivity|].
  destruct (q_query r); reflexivity.
Qed.

Lemma finish_echo_err_view r c msg : finish_echo r (err_view r c msg) = eresp r c msg.
Proof. exact (finish_echo_err View r c msg). Qed.
Lemma finish_echo_err_like r c msg : finish_echo r (err_like r c msg) = eresp r c msg.
Proof. exact (finish_echo_err Owned r c msg). Qed.

Lemma finish_echo_ok r bf b :
  finish_echo r (ok_resp r bf b) = mkResp (q_id r) 0 (echo_qfmt (q_qfmt r)) bf (q_query r) b.
Proof. reflexivity. Qed.

(** ** the canonical frame of a dispatched request *)
(** what the writer puts on the wire for a handler result *)
Definition fin_res (r : request) (res : hres) : option resp :=
  match res with
  | HOk p => Some (finish_echo r p)
  | HErr c m => Some (eresp r c m)
  | HPanic => None
  end.

Definition fin_user (r : request) : option resp :=
  match o_user r with
  | UVal bf b => Some (mkResp (q_id r) 0 (echo_qfmt (q_qfmt r)) bf (q_query r) b)
  | UMsg ec qf bf q b => Some (mkResp (q_id r) ec qf bf (match q with [] => q_query r | _ => q end) b)
  | UErr c msg => Some (eresp r c msg)
  | UPanic => None
  end.

Lemma fin_user_res m r : fin_res r (user_res m r) = fin_user r.
Proof.
  unfold user_res, fin_user. destruct (o_user r) as [bf b|ec qf bf q b|c msg|]; cbn [fin_res]; try reflexivity.
  - unfold finish_echo; cbn. now destruct q.
  - now rewrite finish_echo_err.
Qed.

Lemma fin_user_res_erased r : fin_res r (user_res_erased r) = fin_user r.
Proof.
  unfold user_res_erased, fin_user. destruct (o_user r) as [bf b|ec qf bf q b|c msg|]; cbn [fin_res]; try reflexivity.
  unfold finish_echo; cbn. now destruct q.
Qed.

(** the text of a "wrong body format" answer *)
Definition badfmt_text (h : handler) (r : request) : list byte :=
  match h_kind h with
  | KSlice | KSliceRef => msg_expected_beve
  | KStruct => msg_struct_pre ++ q_query r ++ msg_struct_mid ++ dec (q_bfmt r)
  | KRegistry => msg_reg_pre ++ dec (q_bfmt r) ++ msg_reg_post
  | _ => msg_expected_json
  end.

Definition decfail_text (r : request) : list byte := match o_decfail r with Some t => t | None => [] end.

Definition canon_body (h : handler) (r : request) : option resp :=
  match body_class h r with
  | BBadFormat => Some (eresp r EC_BODY (badfmt_text h r))
  | BUndecodable => Some (eresp r (undecodable_code (h_kind h)) (decfail_text r))
  | BOk => fin_user r
  end.

Definition kind_invocations (mount : list byte) (h : handler) (r : request) : nat :=
  match body_class h r with
  | BOk => match h_kind h with
           | KRegistry => if negb (beqb (q_body r) []) && bmem (reg_pointer mount (q_query r)) (h_fns h) then 1%nat else O
           | _ => 1%nat
           end
  | _ => O
  end.

Lemma run_json_like_fin m r h :
  (h_kind h = KJson \/ h_kind h = KTyped \/ h_kind h = KJsonCtx \/ h_kind h = KTypedCtx \/ h_kind h = KAdapter) ->
  fin_res r (fst (run_json_like m r)) = canon_body h r /\
  snd (run_json_like m r) = match body_class h r with BOk => 1%nat | _ => O end.
Proof.
  intros Hk. unfold run_json_like, canon_body, body_class, badfmt_text, decfail_text, fmt_json_like.
  assert (Hd : decodes_body (h_kind h) = true) by (destruct Hk as [K|[K|[K|[K|K]]]]; now rewrite K).
  assert (He : empty_is_read (h_kind h) = false) by (destruct Hk as [K|[K|[K|[K|K]]]]; now rewrite K).
  assert (Ha : accepts (h_kind h) (q_bfmt r) = ((q_bfmt r =? 1) || (q_bfmt r =? 2) || (q_bfmt r =? 3)))
    by (destruct Hk as [K|[K|[K|[K|K]]]]; now rewrite K).
  assert (Ht : match h_kind h with KSlice | KSliceRef => msg_expected_beve
               | KStruct => msg_struct_pre ++ q_query r ++ msg_struct_mid ++ dec (q_bfmt r)
               | KRegistry => msg_reg_pre ++ dec (q_bfmt r) ++ msg_reg_post | _ => msg_expected_json end = msg_expected_json)
    by (destruct Hk as [K|[K|[K|[K|K]]]]; now rewrite K).
  rewrite Hd, He, Ha, Ht. cbn [negb andb].
  destruct ((q_bfmt r =? 1) || (q_bfmt r =? 2) || (q_bfmt r =? 3)); cbn [negb fst snd fin_res].
  - destruct (o_decfail r) as [t|]; cbn [fst snd fin_res].
    + assert (Hu : undecodable_code (h_kind h) = EC_PARSE) by (destruct Hk as [K|[K|[K|[K|K]]]]; now rewrite K).
      now rewrite Hu.
    + now rewrite fin_user_res.
  - now rewrite finish_echo_err.
Qed.

Lemma run_slice_fin m r h :
  (h_kind h = KSlice \/ h_kind h = KSliceRef) ->
  fin_res r (fst (run_slice m r)) = canon_body h r /\
  snd (run_slice m r) = match body_class h r with BOk => 1%nat | _ => O end.
Proof.
  intros Hk. unfold run_slice, canon_body, body_class, badfmt_text, decfail_text.
  destruct Hk as [K|K]; rewrite K; cbn [decodes_body empty_is_read accepts negb andb undecodable_code];
    (destruct (q_bfmt r =? 1); cbn [negb fst snd fin_res];
     [destruct (o_decfail r) as [t|]; cbn [fst snd fin_res]; [easy|now rewrite fin_user_res]
     |now rewrite finish_echo_err]).
Qed.

Lemma run_struct_fin r h :
  h_kind h = KStruct ->
  fin_res r (fst (run_struct r)) = canon_body h r /\
  snd (run_struct r) = match body_class h r with BOk => 1%nat | _ => O end.
Proof.
  intros K. unfold run_struct, canon_body, body_class, badfmt_text, decfail_text, fmt_json_like.
  rewrite K; cbn [decodes_body empty_is_read accepts negb andb undecodable_code].
  destruct (q_body r) as [|x b]; cbn [beqb fst snd fin_res].
  - now rewrite fin_user_res.
  - destruct ((q_bfmt r =? 1) || (q_bfmt r =? 2) || (q_bfmt r =? 3)); cbn [negb fst snd fin_res].
    + destruct (o_decfail r) as [t|]; cbn [fst snd fin_res]; [easy|now rewrite fin_user_res].
    + now rewrite finish_echo_err_like.
Qed.

Lemma run_registry_fin mount r h :
  h_kind h = KRegistry ->
  fin_res r (fst (run_registry mount h r)) = canon_body h r /\
  snd (run_registry mount h r) = kind_invocations mount h r.
Proof.
  intros K. unfold run_registry, canon_body, kind_invocations, body_class, badfmt_text, decfail_text.
  rewrite K; cbn [decodes_body empty_is_read accepts negb andb undecodable_code].
  destruct (q_body r) as [|x b]; cbn [beqb negb andb fst snd fin_res].
  - now rewrite fin_user_res.
  - destruct (q_bfmt r <? 4); cbn [negb fst snd fin_res].
    + destruct (o_decfail r) as [t|]; cbn [fst snd fin_res].
      * now rewrite finish_echo_err_like.
      * now rewrite fin_user_res.
    + now rewrite finish_echo_err_like.
Qed.

Lemma run_erased_fin r h :
  h_kind h = KErased ->
  fin_res r (user_res_erased r) = canon_body h r /\ 1%nat = match body_class h r with BOk => 1%nat | _ => O end.
Proof.
  intros K. unfold canon_body, body_class. rewrite K; cbn [decodes_body negb]. now rewrite fin_user_res_erased.
Qed.

(** every kind, in either flavour of its body, ends in the canonical frame *)
Lemma run_kind_fin m mount h r :
  fin_res r (fst (run_kind m mount h r)) = canon_body h r /\
  snd (run_kind m mount h r) = kind_invocations mount h r.
Proof.
  unfold run_kind, kind_invocations.
  destruct (h_kind h) eqn:K.
  - destruct (run_json_like_fin m r h) as [A B]; [tauto|]. now rewrite A, B.
  - destruct (run_json_like_fin m r h) as [A B]; [tauto|]. now rewrite A, B.
  - destruct (run_json_like_fin Owned r h) as [A B]; [tauto|]. now rewrite A, B.
  - destruct (run_json_like_fin Owned r h) as [A B]; [tauto|]. now rewrite A, B.
  - destruct (run_json_like_fin Owned r h) as [A B]; [tauto|]. now rewrite A, B.
  - destruct (run_slice_fin m r h) as [A B]; [tauto|]. now rewrite A, B.
  - destruct (run_slice_fin m r h) as [A B]; [tauto|]. now rewrite A, B.
  - destruct (run_struct_fin r h K) as [A B]. now rewrite A, B.
  - destruct (run_registry_fin mount r h K) as [A B]. rewrite A, B. unfold kind_invocations. now rewrite K.
  - cbn [fst snd]. destruct (run_erased_fin r h K) as [A B]. rewrite A. split; [reflexivity|]. exact B.
Qed.

(** with the middleware in front *)
Definition canon_dispatch (rt : router) (h : handler) (r : request) : option resp :=
  match mw_refusal rt r with
  | Some (c, msg) => Some (eresp r c msg)
  | None => canon_body h r
  end.

Definition dispatch_invocations (rt : router) (mount : list byte) (h : handler) (r : request) : nat :=
  match mw_refusal rt r with Some _ => O | None => kind_invocations mount h r end.

Lemma run_handler_fin dm rt mount h r :
  fin_res r (fst (fst (run_handler dm rt mount h r))) = canon_dispatch rt h r /\
  snd (fst (run_handler dm rt mount h r)) = dispatch_invocations rt mount h r /\
  snd (run_handler dm rt mount h r) = if rt_mw rt then 1%nat else O.
Proof.
  unfold run_handler, canon_dispatch, dispatch_invocations, mw_refusal.
  destruct (rt_mw rt).
  - destruct (o_mw r) as [[c msg]|]; cbn [fst snd fin_res]; [easy|].
    destruct (run_kind_fin Owned mount h r) as [A B].
    destruct (run_kind Owned mount h r) as [res n]; cbn [fst snd] in *. now rewrite A, B.
  - destruct (run_kind_fin (inner_mode dm rt h) mount h r) as [A B].
    destruct (run_kind (inner_mode dm rt h) mount h r) as [res n]; cbn [fst snd] in *. now rewrite A, B.
Qed.

(** ** [route] and the "dispatched" predicate of the decision table *)
Definition reject_code (r : request) : N :=
  if negb (q_version r =? 1) then EC_VERSION
  else if negb (q_qfmt r =? 1) || negb (o_utf8 r) then EC_QUERY else EC_NOTFOUND.

Lemma route_cases rt r :
  match dispatched rt r with
  | Some (m, h) => route rt r = RDispatch m h
  | None => exists msg, route rt r = RReject (reject_code r) msg
  end.
Proof.
  unfold dispatched, route, reject_code.
  destruct (q_version r =? 1); cbn [negb andb]; [|eexists; reflexivity].
  destruct (q_qfmt r =? 1); cbn [negb andb orb]; [|eexists; reflexivity].
  destruct (o_utf8 r); cbn [negb]; [|eexists; reflexivity].
  destruct (router_get rt (q_query r)) as [[m h]|]; [reflexivity|eexists; reflexivity].
Qed.

(** the frame every path writes for a non-notify request whose user function returns *)
Definition canon (rt : router) (r : request) : option resp :=
  match route rt r with
  | RReject c msg => Some (eresp r c msg)
  | RDispatch mount h => canon_dispatch rt h r
  end.

Definition step_invocations (rt : router) (r : request) : list N :=
  match route rt r with
  | RReject _ _ => []
  | RDispatch mount h => inv_of h (dispatch_invocations rt mount h r)
  end.

Definition step_mw (rt : router) (r : request) : nat :=
  match route rt r with RReject _ _ => O | RDispatch _ _ => if rt_mw rt then 1%nat else O end.

Lemma inline_step_char fin rt r :
  (forall p, fin r p = finish_echo r p) ->
  s_resp (inline_step fin rt r) = (if is_notify r then None else canon rt r) /\
  s_inv (inline_step fin rt r) = step_invocations rt r /\
  s_mw (inline_step fin rt r) = step_mw rt r.
Proof.
  intros Hfin. unfold inline_step, canon, step_invocations, step_mw.
  destruct (route rt r) as [c msg|mount h]; cbn [s_resp s_inv s_mw].
  - rewrite Hfin, finish_echo_err_view. auto.
  - destruct (run_handler_fin View rt mount h r) as (A & B & C).
    destruct (run_handler View rt mount h r) as [[res n] k]; cbn [fst snd s_resp s_inv s_mw] in *.
    rewrite <- A, B, C. repeat split.
    destruct (is_notify r); [reflexivity|].
    destruct res as [p|c msg|]; cbn [fin_res]; rewrite ?Hfin, ?finish_echo_err_view; reflexivity.
Qed.

Lemma tcp_step_char rt r :
  s_resp (tcp_step rt r) = (if is_notify r then None else canon rt r) /\
  s_inv (tcp_step rt r) = step_invocations rt r /\ s_mw (tcp_step rt r) = step_mw rt r.
Proof. apply inline_step_char. reflexivity. Qed.

Lemma async_step_char rt r :
  s_resp (async_step rt r) = (if is_notify r then None else canon rt r) /\
  s_inv (async_step rt r) = step_invocations rt r /\ s_mw (async_step rt r) = step_mw rt r.
Proof. apply inline_step_char. reflexivity. Qed.

Lemma wsi_step_char rt r :
  s_resp (wsi_step rt r) = (if is_notify r then None else canon rt r) /\
  s_inv (wsi_step rt r) = step_invocations rt r /\ s_mw (wsi_step rt r) = step_mw rt r.
Proof. apply inline_step_char. intros p. apply finish_stamp_echo. Qed.

(** the off-reader arm: a caught panic becomes InternalError, an exhausted
    permit pool ResourceExhausted without running anything *)
Lemma offreader_dispatch_char rt mount h r :
  s_resp (offreader_dispatch rt mount h r) =
    (if is_notify r then None
     else if o_sat r then Some (eresp r EC_EXHAUSTED msg_saturated)
     else match canon_dispatch rt h r with
          | Some p => Some p
          | None => Some (eresp r EC_INTERNAL msg_panicked)
          end) /\
  s_inv (offreader_dispatch rt mount h r) = (if o_sat r then [] else inv_of h (dispatch_invocations rt mount h r)) /\
  s_mw (offreader_dispatch rt mount h r) = (if o_sat r then O else if rt_mw rt then 1%nat else O).
Proof.
  unfold offreader_dispatch. destruct (o_sat r); cbn [s_resp s_inv s_mw].
  - repeat split.
  - destruct (run_handler_fin Owned rt mount h r) as (A & B & C).
    destruct (run_handler Owned rt mount h r) as [[res n] k]; cbn [fst snd s_resp s_inv s_mw] in *.
    rewrite <- A, B, C. repeat split.
    destruct (is_notify r); [reflexivity|].
    destruct res as [p|c msg|]; cbn [fin_res]; rewrite finish_stamp_echo, ?finish_echo_err_like; reflexivity.
Qed.

Lemma wso_step_char rt r :
  s_resp (wso_step rt r) =
    (if is_notify r then None
     else match route rt r with
          | RReject c msg => Some (eresp r c msg)
          | RDispatch mount h =>
              if o_sat r then Some (eresp r EC_EXHAUSTED msg_saturated)
              else match canon_dispatch rt h r with
                   | Some p => Some p
                   | None => Some (eresp r EC_INTERNAL msg_panicked)
                   end
          end) /\
  s_inv (wso_step rt r) =
    match route rt r with
    | RReject _ _ => []
    | RDispatch mount h => if o_sat r then [] else inv_of h (dispatch_invocations rt mount h r)
    end /\
  s_mw (wso_step rt r) =
    match route rt r with
    | RReject _ _ => O
    | RDispatch _ _ => if o_sat r then O else if rt_mw rt then 1%nat else O
    end.
Proof.
  unfold wso_step. destruct (route rt r) as [c msg|mount h]; cbn [s_resp s_inv s_mw].
  - rewrite finish_stamp_echo, finish_echo_err_view. repeat split.
  - destruct (offreader_dispatch_char rt mount h r) as (A & B & C). rewrite A, B, C.
    repeat split.
Qed.

(** ** the canonical frame meets the decision table *)
Lemma meets_err r c msg : resp_meets (mkExp (q_id r) c 0 3 (q_query r) None) (eresp r c msg) = true.
Proof. unfold resp_meets, eresp; cbn. now rewrite !N.eqb_refl, beqb_refl. Qed.

Lemma meets_self i e qf bf q b : resp_meets (mkExp i e qf bf q (Some b)) (mkResp i e qf bf q b) = true.
Proof. unfold resp_meets; cbn. now rewrite !N.eqb_refl, !beqb_refl. Qed.

Lemma spec_expect_id shed rt r : x_id (spec_expect shed rt r) = q_id r.
Proof.
  unfold spec_expect.
  destruct (negb (q_version r =? 1)); [reflexivity|].
  destruct (negb (q_qfmt r =? 1) || negb (o_utf8 r)); [reflexivity|].
  destruct (router_get rt (q_query r)) as [[m h]|]; [|reflexivity].
  destruct shed; [reflexivity|].
  destruct (mw_refusal rt r) as [[c msg]|]; [reflexivity|].
  destruct (body_class h r); try reflexivity.
  destruct (o_user r); reflexivity.
Qed.

Lemma resp_meets_id x p : resp_meets x p = true -> p_id p = x_id x.
Proof.
  unfold resp_meets. intros H. repeat (apply andb_true_iff in H as [H ?]). apply N.eqb_eq in H. now symmetry.
Qed.

Lemma canon_meets rt r p : canon rt r = Some p -> resp_meets (spec_expect false rt r) p = true.
Proof.
  unfold canon, route, spec_expect.
  destruct (q_version r =? 1) eqn:V; cbn [negb].
  2:{ intros H; injection H as <-. apply meets_err. }
  destruct (q_qfmt r =? 1) eqn:Q; cbn [negb orb].
  2:{ intros H; injection H as <-. apply meets_err. }
  destruct (o_utf8 r); cbn [negb].
  2:{ intros H; injection H as <-. apply meets_err. }
  destruct (router_get rt (q_query r)) as [[m h]|].
  2:{ intros H; injection H as <-. apply meets_err. }
  unfold canon_dispatch. destruct (mw_refusal rt r) as [[c msg]|].
  { intros H; injection H as <-. apply meets_err. }
  unfold canon_body. destruct (body_class h r).
  - unfold fin_user. destruct (o_user r) as [bf b|ec qf bf q b|c msg|]; intros H; try discriminate; injection H as <-.
    + apply N.eqb_eq in Q. unfold echo_qfmt. rewrite Q. cbn. apply meets_self.
    + apply meets_self.
    + apply meets_err.
  - intros H; injection H as <-. apply meets_err.
  - intros H; injection H as <-. apply meets_err.
Qed.

(** the canonical frame is missing exactly when the user function is reached and panics *)
Lemma canon_none rt r :
  canon rt r = None -> panics r = true /\ exists m h, dispatched rt r = Some (m, h).
Proof.
  unfold canon. pose proof (route_cases rt r) as RC.
  destruct (dispatched rt r) as [[m h]|].
  - rewrite RC. unfold canon_dispatch, canon_body.
    destruct (mw_refusal rt r) as [[c msg]|]; [discriminate|].
    destruct (body_class h r); try discriminate.
    unfold fin_user, panics. destruct (o_user r); try discriminate. intros _. eauto.
  - destruct RC as [msg ->]. discriminate.
Qed.

Lemma panic_meets rt r :
  canon rt r = None -> resp_meets (spec_expect false rt r) (eresp r EC_INTERNAL msg_panicked) = true.
Proof.
  unfold canon, route, spec_expect.
  destruct (q_version r =? 1); cbn [negb]; [|discriminate].
  destruct (q_qfmt r =? 1); cbn [negb orb]; [|discriminate].
  destruct (o_utf8 r); cbn [negb]; [|discriminate].
  destruct (router_get rt (q_query r)) as [[m h]|]; [|discriminate].
  unfold canon_dispatch. destruct (mw_refusal rt r) as [[c msg]|]; [discriminate|].
  unfold canon_body. destruct (body_class h r); try discriminate.
  unfold fin_user. destruct (o_user r); try discriminate. intros _. apply meets_err.
Qed.

Lemma shed_meets rt r m h :
  dispatched rt r = Some (m, h) ->
  resp_meets (spec_expect true rt r) (eresp r EC_EXHAUSTED msg_saturated) = true.
Proof.
  unfold dispatched, spec_expect.
  destruct (q_version r =? 1); cbn [negb andb]; [|discriminate].
  destruct (q_qfmt r =? 1); cbn [negb andb orb]; [|discriminate].
  destruct (o_utf8 r); cbn [negb]; [|discriminate].
  intros ->. apply meets_err.
Qed.

(** ** invocations *)
Lemma inv_of_0 h : inv_of h 0 = []. Proof. reflexivity. Qed.
Lemma inv_of_1 h : inv_of h 1 = [h_rid h]. Proof. reflexivity. Qed.

Lemma step_invocations_spec rt r :
  step_invocations rt r = match spec_invoked false rt r with Some x => [x] | None => [] end.
Proof.
  unfold step_invocations, spec_invoked. pose proof (route_cases rt r) as RC.
  destruct (dispatched rt r) as [[m h]|].
  - rewrite RC. unfold dispatch_invocations, kind_invocations.
    destruct (mw_refusal rt r) as [[c msg]|]; [reflexivity|].
    destruct (body_class h r); try reflexivity.
    destruct (h_kind h); try reflexivity.
    destruct (negb (beqb (q_body r) []) && bmem (reg_pointer m (q_query r)) (h_fns h)); reflexivity.
  - destruct RC as [msg ->]. reflexivity.
Qed.

Lemma step_mw_spec rt r : step_mw rt r = if spec_mw false rt r then 1%nat else O.
Proof.
  unfold step_mw, spec_mw. pose proof (route_cases rt r) as RC.
  destruct (dispatched rt r) as [[m h]|].
  - rewrite RC. cbn [negb]. rewrite andb_true_r. reflexivity.
  - destruct RC as [msg ->]. reflexivity.
Qed.

(** ** the WebSocket reader as a whole *)
Definition ws_resp (rt : router) (r : request) : option resp :=
  if is_notify r then None
  else if shed_ws rt r then Some (eresp r EC_EXHAUSTED msg_saturated)
  else match canon rt r with
       | Some p => Some p
       | None => if spec_off rt r then Some (eresp r EC_INTERNAL msg_panicked) else None
       end.

Lemma ws_step_char rt r :
  s_resp (ws_step rt r) = ws_resp rt r /\
  s_inv (ws_step rt r) = match spec_invoked (shed_ws rt r) rt r with Some x => [x] | None => [] end /\
  s_mw (ws_step rt r) = if spec_mw (shed_ws rt r) rt r then 1%nat else O.
Proof.
  unfold ws_step, ws_resp, shed_ws, spec_off.
  pose proof (step_invocations_spec rt r) as SI. pose proof (step_mw_spec rt r) as SM.
  pose proof (route_cases rt r) as RC.
  destruct (wsi_step_char rt r) as (A & B & C).
  unfold spec_invoked, spec_mw, step_invocations, step_mw, canon in *.
  destruct (dispatched rt r) as [[m h]|].
  - rewrite RC in *. destruct (h_off h); cbn [andb].
    + destruct (offreader_dispatch_char rt m h r) as (A' & B' & C'). rewrite A', B', C'.
      destruct (o_sat r); cbn [negb andb].
      * rewrite andb_false_r. split; [reflexivity|split; reflexivity].
      * split; [|split; [exact SI|exact SM]].
        destruct (is_notify r); [reflexivity|]. destruct (canon_dispatch rt h r); reflexivity.
    + rewrite A, B, C. split; [|split; [exact SI|exact SM]].
      destruct (is_notify r); [reflexivity|]. destruct (canon_dispatch rt h r); reflexivity.
  - destruct RC as [msg RC]. rewrite RC in *. cbn [andb]. rewrite A, B, C.
    split; [reflexivity|split; reflexivity].
Qed.

(** ** pipelines *)
Definition non_notify (r : request) : bool := negb (is_notify r).

Lemma run_resps_cons (step : router -> request -> stepres) (rt : router) r rs :
  run_resps step rt (r :: rs) =
  match s_resp (step rt r) with Some p => p :: run_resps step rt rs | None => run_resps step rt rs end.
Proof. unfold run_resps. cbn [map opt_list]. destruct (s_resp (step rt r)); reflexivity. Qed.

(** exactly one frame per non-notify request, in arrival order *)
Lemma run_resps_forall2 (step : router -> request -> stepres) (rt : router) rs :
  (forall r, In r rs -> is_notify r = true -> s_resp (step rt r) = None) ->
  (forall r, In r rs -> is_notify r = false -> s_resp (step rt r) <> None) ->
  Forall2 (fun r p => s_resp (step rt r) = Some p) (filter non_notify rs) (run_resps step rt rs).
Proof.
  induction rs as [|r rs IH]; intros Hn Hs; [constructor|].
  rewrite run_resps_cons. cbn [filter]. unfold non_notify at 1.
  assert (IH' : Forall2 (fun r p => s_resp (step rt r) = Some p) (filter non_notify rs) (run_resps step rt rs)).
  { apply IH; intros r' Hin; [apply Hn|apply Hs]; now right. }
  destruct (is_notify r) eqn:N; cbn [negb].
  - rewrite (Hn r (or_introl eq_refl) N). exact IH'.
  - specialize (Hs r (or_introl eq_refl) N). destruct (s_resp (step rt r)) as [p|] eqn:E; [|congruence].
    constructor; [exact E|exact IH'].
Qed.

Lemma forall2_meets {X : request -> expect} (step : router -> request -> stepres) (rt : router) l ps :
  Forall2 (fun r p => s_resp (step rt r) = Some p) l ps ->
  (forall r p, In r l -> s_resp (step rt r) = Some p -> resp_meets (X r) p = true) ->
  forall2b resp_meets (map X l) ps = true.
Proof.
  induction 1 as [|r p l ps E F IH]; intros HM; cbn [map forall2b]; [reflexivity|].
  rewrite (HM r p (or_introl eq_refl) E), IH; [reflexivity|]. intros r' p' Hin. apply HM. now right.
Qed.

Lemma forall2b_match_all xs ps : forall2b resp_meets xs ps = true -> match_all xs ps = true.
Proof.
  revert ps; induction xs as [|x xs IH]; intros [|p ps] H; cbn [forall2b] in H; try discriminate; [reflexivity|].
  apply andb_true_iff in H as [H1 H2]. cbn [match_all take_id].
  rewrite (resp_meets_id _ _ H1), N.eqb_refl, H1. now apply IH.
Qed.

Lemma nodup_map_inj {A} (f : A -> N) l x y :
  NoDup (map f l) -> In x l -> In y l -> f x = f y -> x = y.
Proof.
  induction l as [|a l IH]; cbn [map In]; intros ND Hx Hy E; [contradiction|].
  inversion ND as [|? ? Hnin ND']; subst.
  destruct Hx as [->|Hx], Hy as [->|Hy]; try reflexivity.
  - exfalso. apply Hnin. rewrite E. now apply in_map.
  - exfalso. apply Hnin. rewrite <- E. now apply in_map.
  - now apply IH.
Qed.

(** the frames of a sub-family of the requests, picked out by their ids *)
Lemma filter_by_ids {X : request -> expect} (step : router -> request -> stepres) (rt : router) (P : request -> bool) (S : list N) l ps :
  Forall2 (fun r p => s_resp (step rt r) = Some p) l ps ->
  (forall r p, In r l -> s_resp (step rt r) = Some p -> resp_meets (X r) p = true /\ p_id p = q_id r) ->
  (forall r, In r l -> memN (q_id r) S = P r) ->
  forall2b resp_meets (map X (filter P l)) (filter (fun p => memN (p_id p) S) ps) = true.
Proof.
  induction 1 as [|r p l ps E F IH]; intros HM HS; cbn [filter map forall2b]; [reflexivity|].
  destruct (HM r p (or_introl eq_refl) E) as [M I]. rewrite I, (HS r (or_introl eq_refl)).
  assert (IH' : forall2b resp_meets (map X (filter P l)) (filter (fun p => memN (p_id p) S) ps) = true).
  { apply IH; [intros r' p' Hin; apply HM; now right|intros r' Hin; apply HS; now right]. }
  destruct (P r); cbn [map forall2b]; [now rewrite M, IH'|exact IH'].
Qed.

Lemma ids_of_filter (P : request -> bool) l :
  NoDup (map q_id l) ->
  forall r, In r l -> memN (q_id r) (map q_id (filter P l)) = P r.
Proof.
  intros ND r Hin. destruct (P r) eqn:Pr.
  - apply memN_In, in_map, filter_In. now split.
  - destruct (memN (q_id r) (map q_id (filter P l))) eqn:M; [|reflexivity].
    apply memN_In, in_map_iff in M as (r' & E & Hin'). apply filter_In in Hin' as [Hin' Pr'].
    assert (r' = r) by (eapply nodup_map_inj; eauto). subst. congruence.
Qed.

Lemma run_invs_ext (step : router -> request -> stepres) (rt : router) (g : request -> list N) rs :
  (forall r, s_inv (step rt r) = g r) -> run_invs step rt rs = flat_map g rs.
Proof. intros H. unfold run_invs. apply flat_map_ext. exact H. Qed.

Lemma run_mws_count (step : router -> request -> stepres) (rt : router) (g : request -> bool) rs :
  (forall r, s_mw (step rt r) = if g r then 1%nat else O) ->
  run_mws step rt rs = length (filter g rs).
Proof.
  intros H. unfold run_mws. induction rs as [|r rs IH]; cbn [fold_right filter length]; [reflexivity|].
  rewrite H, IH. destruct (g r); reflexivity.
Qed.

Lemma run_resps_ext (step1 step2 : router -> request -> stepres) (rt : router) rs :
  (forall r, In r rs -> s_resp (step1 rt r) = s_resp (step2 rt r)) ->
  run_resps step1 rt rs = run_resps step2 rt rs.
Proof. intros H. unfold run_resps. f_equal. apply map_ext_in. exact H. Qed.

(** ** the oracle accepts the model *)
Definition inline_char (step : router -> request -> stepres) : Prop :=
  forall rt r,
    s_resp (step rt r) = (if is_notify r then None else canon rt r) /\
    s_inv (step rt r) = step_invocations rt r /\ s_mw (step rt r) = step_mw rt r.

Lemma ok_inline_model step rt rs :
  inline_char step ->
  (forall r, In r rs -> is_notify r = false -> canon rt r <> None) ->
  ok_inline rt rs (run_tobs step rt rs) = true.
Proof.
  intros HC HS. unfold ok_inline, run_tobs; cbn [t_alive t_resps t_counts t_mw andb].
  assert (F : Forall2 (fun r p => s_resp (step rt r) = Some p) (filter non_notify rs) (run_resps step rt rs)).
  { apply run_resps_forall2.
    - intros r _ N. destruct (HC rt r) as (A & _). now rewrite A, N.
    - intros r Hin N. destruct (HC rt r) as (A & _). rewrite A, N. now apply HS. }
  change (filter (fun r => negb (is_notify r)) rs) with (filter non_notify rs).
  rewrite (forall2_meets step rt _ _ F).
  2:{ intros r p Hin E. apply filter_In in Hin as [Hin N]. unfold non_notify in N. apply negb_true_iff in N.
      destruct (HC rt r) as (A & _). rewrite A, N in E. now apply canon_meets. }
  unfold expected_counts, expected_mw.
  rewrite (run_invs_ext step rt (fun r => match spec_invoked (no_shed rt r) rt r with Some x => [x] | None => [] end) rs).
  2:{ intros r. destruct (HC rt r) as (_ & B & _). rewrite B. apply step_invocations_spec. }
  rewrite (run_mws_count step rt (fun r => spec_mw (no_shed rt r) rt r) rs).
  2:{ intros r. destruct (HC rt r) as (_ & _ & C). rewrite C. apply step_mw_spec. }
  now rewrite listN_eqb_refl, N.eqb_refl.
Qed.

Lemma wf_req c r : c03_wf c = true -> In r (c_reqs c) -> req_wf c r = true.
Proof.
  unfold c03_wf. intros H Hin. apply andb_true_iff in H as [_ H].
  rewrite forallb_forall in H. now apply H.
Qed.

Lemma wf_nodup c : c03_wf c = true -> NoDup (map q_id (filter non_notify (c_reqs c))).
Proof. unfold c03_wf. intros H. apply andb_true_iff in H as [H _]. now apply nodupN_NoDup. Qed.

(** with a TCP server in the case no request is shed and no user function that is reached panics *)
Lemma wf_inline_fact c r :
  req_wf c r = true -> (c_tcp c = true \/ c_async c = true) ->
  o_sat r = false /\ canon (c_rt c) r <> None.
Proof.
  unfold req_wf. intros H T. apply andb_true_iff in H as [H1 H2].
  assert (NT : negb (c_tcp c) && negb (c_async c) = false) by (destruct T as [-> | ->]; cbn; [reflexivity|apply andb_false_r]).
  split.
  - rewrite NT, orb_false_r in H2. now apply negb_true_iff in H2.
  - intros CN. apply canon_none in CN as (P & m & h & D). rewrite P, D in H1. cbn [negb orb] in H1.
    rewrite <- andb_assoc, NT, andb_false_r in H1. discriminate.
Qed.

Lemma wf_ws_fact c r :
  req_wf c r = true -> canon (c_rt c) r = None -> spec_off (c_rt c) r = true.
Proof.
  unfold req_wf. intros H CN. apply andb_true_iff in H as [H1 _].
  apply canon_none in CN as (P & m & h & D). rewrite P, D in H1. cbn [negb orb] in H1.
  unfold spec_off. rewrite D. now apply andb_true_iff in H1 as [H1 _]; apply andb_true_iff in H1 as [H1 _].
Qed.

Lemma ws_resp_some c r :
  req_wf c r = true -> is_notify r = false -> ws_resp (c_rt c) r <> None.
Proof.
  intros W N. unfold ws_resp. rewrite N. destruct (shed_ws (c_rt c) r); [discriminate|].
  destruct (canon (c_rt c) r) eqn:CN; [discriminate|]. now rewrite (wf_ws_fact c r W CN).
Qed.

Lemma ws_resp_meets rt r p :
  ws_resp rt r = Some p -> resp_meets (spec_expect (shed_ws rt r) rt r) p = true.
Proof.
  unfold ws_resp. destruct (is_notify r); [discriminate|].
  destruct (shed_ws rt r) eqn:Sh.
  - intros H; injection H as <-. unfold shed_ws, spec_off in Sh.
    destruct (dispatched rt r) as [[m h]|] eqn:D; [|discriminate]. now apply (shed_meets rt r m h).
  - destruct (canon rt r) as [q|] eqn:CN.
    + intros H; injection H as <-. now apply canon_meets.
    + destruct (spec_off rt r); [|discriminate]. intros H; injection H as <-. now apply panic_meets.
Qed.

Lemma ok_ws_model c :
  c03_wf c = true -> ok_ws (c_rt c) (c_reqs c) (run_tobs ws_step (c_rt c) (c_reqs c)) = true.
Proof.
  intros W.
  unfold ok_ws, run_tobs; cbn [t_alive t_resps t_counts t_mw andb].
  assert (F : Forall2 (fun r p => s_resp (ws_step (c_rt c) r) = Some p) (filter non_notify (c_reqs c)) (run_resps ws_step (c_rt c) (c_reqs c))).
  { apply run_resps_forall2.
    - intros r _ N. destruct (ws_step_char (c_rt c) r) as (A & _). rewrite A. unfold ws_resp. now rewrite N.
    - intros r Hin N. destruct (ws_step_char (c_rt c) r) as (A & _). rewrite A.
      apply (ws_resp_some c r); [now apply wf_req|exact N]. }
  assert (M : forall r p, In r (filter non_notify (c_reqs c)) -> s_resp (ws_step (c_rt c) r) = Some p ->
              resp_meets (spec_expect (shed_ws (c_rt c) r) (c_rt c) r) p = true /\ p_id p = q_id r).
  { intros r p _ E. destruct (ws_step_char (c_rt c) r) as (A & _). rewrite A in E.
    pose proof (ws_resp_meets (c_rt c) r p E) as Mt. split; [exact Mt|].
    rewrite (resp_meets_id _ _ Mt). apply spec_expect_id. }
  change (filter (fun r => negb (is_notify r)) (c_reqs c)) with (filter non_notify (c_reqs c)).
  rewrite (forall2b_match_all _ _ (forall2_meets (X := fun r => spec_expect (shed_ws (c_rt c) r) (c_rt c) r) ws_step (c_rt c) _ _ F
             (fun r p Hin E => proj1 (M r p Hin E)))).
  rewrite (filter_by_ids (X := fun r => spec_expect (shed_ws (c_rt c) r) (c_rt c) r) ws_step (c_rt c)
             (fun r => negb (spec_off (c_rt c) r) || o_sat r) _ _ _ F M
             (ids_of_filter _ _ (wf_nodup c W))).
  unfold expected_counts, expected_mw.
  rewrite (run_invs_ext ws_step (c_rt c) (fun r => match spec_invoked (shed_ws (c_rt c) r) (c_rt c) r with Some x => [x] | None => [] end) (c_reqs c)).
  2:{ intros r. now destruct (ws_step_char (c_rt c) r) as (_ & B & _). }
  rewrite (run_mws_count ws_step (c_rt c) (fun r => spec_mw (shed_ws (c_rt c) r) (c_rt c) r) (c_reqs c)).
  2:{ intros r. now destruct (ws_step_char (c_rt c) r) as (_ & _ & C). }
  now rewrite listN_eqb_refl, N.eqb_refl.
Qed.

(** under the conditions of a case that also runs a TCP server, the WebSocket
    reader writes what the TCP loops write *)
Lemma ws_equals_tcp c :
  c03_wf c = true -> (c_tcp c = true \/ c_async c = true) ->
  run_resps ws_step (c_rt c) (c_reqs c) = run_resps tcp_step (c_rt c) (c_reqs c).
Proof.
  intros W T. apply run_resps_ext. intros r Hin.
  destruct (wf_inline_fact c r (wf_req c r W Hin) T) as [S CN].
  destruct (ws_step_char (c_rt c) r) as (A & _). destruct (tcp_step_char (c_rt c) r) as (B & _).
  rewrite A, B. unfold ws_resp, shed_ws. rewrite S, andb_false_r.
  destruct (is_notify r); [reflexivity|]. destruct (canon (c_rt c) r); [reflexivity|congruence].
Qed.

Lemma ok_model_C03 c : c03_wf c = true -> ok_C03 c (model_C03 c) = true.
Proof.
  intros W. unfold ok_C03, model_C03; cbn [b_tcp b_async b_ws].
  assert (I : forall step, inline_char step -> (c_tcp c = true \/ c_async c = true) ->
              ok_inline (c_rt c) (c_reqs c) (run_tobs step (c_rt c) (c_reqs c)) = true).
  { intros step HC T. apply ok_inline_model; [exact HC|].
    intros r Hin _. exact (proj2 (wf_inline_fact c r (wf_req c r W Hin) T)). }
  assert (E1 : ok_opt (ok_inline (c_rt c) (c_reqs c))
                 (if c_tcp c then Some (run_tobs tcp_step (c_rt c) (c_reqs c)) else None) (c_tcp c) = true).
  { destruct (c_tcp c) eqn:T; cbn [ok_opt negb andb]; [|reflexivity]. apply I; [exact tcp_step_char|now left]. }
  assert (E2 : ok_opt (ok_inline (c_rt c) (c_reqs c))
                 (if c_async c then Some (run_tobs async_step (c_rt c) (c_reqs c)) else None) (c_async c) = true).
  { destruct (c_async c) eqn:T; cbn [ok_opt negb andb]; [|reflexivity]. apply I; [exact async_step_char|now right]. }
  assert (E3 : ok_opt (ok_ws (c_rt c) (c_reqs c))
                 (if c_ws c then Some (run_tobs ws_step (c_rt c) (c_reqs c)) else None) (c_ws c) = true).
  { destruct (c_ws c); cbn [ok_opt negb andb]; [|reflexivity]. now apply ok_ws_model. }
  rewrite E1, E2, E3. cbn [andb].
  unfold agree; cbn [b_tcp b_async b_ws].
  destruct (c_tcp c) eqn:T1, (c_async c) eqn:T2, (c_ws c) eqn:T3; cbn [run_tobs t_resps andb]; try reflexivity.
  - rewrite (ws_equals_tcp c W) by (left; exact T1).
    change (run_resps async_step) with (run_resps tcp_step).
    now rewrite (forall2b_refl resp_eqb resp_eqb_refl), perm_eqb_refl.
  - change (run_resps async_step) with (run_resps tcp_step).
    now rewrite (forall2b_refl resp_eqb resp_eqb_refl).
  - rewrite (ws_equals_tcp c W) by (left; exact T1). now rewrite perm_eqb_refl.
  - rewrite (ws_equals_tcp c W) by (right; exact T2).
    change (run_resps async_step) with (run_resps tcp_step). now rewrite perm_eqb_refl.
Qed.

Lemma path_eq_dec (a b : path) : {a = b} + {a <> b}.
Proof. decide equality. Qed.

(** ** the statements of C03 *)
(** the response query is the request's, unless the handler set its own *)
Definition query_rule (r : request) (p : resp) : Prop :=
  p_query p = q_query r \/
  exists ec qf bf q b, o_user r = UMsg ec qf bf q b /\ q <> [] /\ p_query p = q.

Lemma canon_id_query rt r p : canon rt r = Some p -> p_id p = q_id r /\ query_rule r p.
Proof.
  unfold canon, query_rule. destruct (route rt r) as [c msg|m h].
  { intros H; injection H as <-. split; [reflexivity|now left]. }
  unfold canon_dispatch. destruct (mw_refusal rt r) as [[c msg]|].
  { intros H; injection H as <-. split; [reflexivity|now left]. }
  unfold canon_body. destruct (body_class h r);
    try (intros H; injection H as <-; split; [reflexivity|now left]).
  unfold fin_user. destruct (o_user r) as [bf b|ec qf bf q b|c msg|] eqn:U; intros H; try discriminate;
    injection H as <-; (split; [reflexivity|]); try (now left).
  destruct q as [|x q]; [now left|]. right. exists ec, qf, bf, (x :: q), b. repeat split. discriminate.
Qed.

Lemma canon_some rt r : panics r = false -> canon rt r <> None.
Proof. intros P CN. apply canon_none in CN as [P' _]. congruence. Qed.

(** each path in terms of the canonical frame *)
Lemma step_of_char p rt r :
  (p = PWsOff -> o_sat r = false /\ panics r = false) ->
  s_resp (step_of p rt r) = (if is_notify r then None else canon rt r) /\
  s_inv (step_of p rt r) = step_invocations rt r /\ s_mw (step_of p rt r) = step_mw rt r.
Proof.
  destruct p; cbn [step_of]; intros H.
  - apply tcp_step_char.
  - apply async_step_char.
  - apply wsi_step_char.
  - destruct (H eq_refl) as [S P]. destruct (wso_step_char rt r) as (A & B & C). rewrite A, B, C.
    unfold canon, step_invocations, step_mw. pose proof (canon_some rt r P) as CS. unfold canon in CS.
    destruct (route rt r) as [c msg|m h]; [auto|]. rewrite S. repeat split.
    destruct (is_notify r); [reflexivity|]. destruct (canon_dispatch rt h r); [reflexivity|congruence].
Qed.

Lemma wso_resp_some rt r : is_notify r = false -> s_resp (wso_step rt r) <> None.
Proof.
  intros N. destruct (wso_step_char rt r) as (A & _). rewrite A, N.
  destruct (route rt r) as [c msg|m h]; [discriminate|].
  destruct (o_sat r); [discriminate|]. destruct (canon_dispatch rt h r); discriminate.
Qed.

Lemma wso_id_query rt r p : s_resp (wso_step rt r) = Some p -> p_id p = q_id r /\ query_rule r p.
Proof.
  destruct (wso_step_char rt r) as (A & _). rewrite A. destruct (is_notify r); [discriminate|].
  pose proof (canon_id_query rt r) as CQ. unfold canon in CQ.
  destruct (route rt r) as [c msg|m h]; [apply CQ|].
  destruct (o_sat r).
  { intros H; injection H as <-. split; [reflexivity|now left]. }
  destruct (canon_dispatch rt h r) as [q|]; [apply CQ|].
  intros H; injection H as <-. split; [reflexivity|now left].
Qed.

Lemma step_of_inline p rt r :
  p <> PWsOff -> s_resp (step_of p rt r) = (if is_notify r then None else canon rt r).
Proof. intros Hp. apply step_of_char. intros E. contradiction. Qed.

Lemma one_response p rt r :
  is_notify r = false -> (panics r = false \/ p = PWsOff) ->
  exists resp, s_resp (step_of p rt r) = Some resp /\ p_id resp = q_id r /\ query_rule r resp.
Proof.
  intros N H.
  destruct (path_eq_dec p PWsOff) as [->|Hp].
  - cbn [step_of]. destruct (s_resp (wso_step rt r)) as [q|] eqn:E.
    + exists q. split; [reflexivity|]. exact (wso_id_query rt r q E).
    + exfalso. exact (wso_resp_some rt r N E).
  - destruct H as [P|]; [|contradiction].
    rewrite (step_of_inline p rt r Hp), N.
    destruct (canon rt r) as [q|] eqn:CN.
    + exists q. split; [reflexivity|]. exact (canon_id_query rt r q CN).
    + exfalso. exact (canon_some rt r P CN).
Qed.

Lemma Forall2_weaken_in {A B} (P Q : A -> B -> Prop) l l' :
  Forall2 P l l' -> (forall a b, In a l -> P a b -> Q a b) -> Forall2 Q l l'.
Proof.
  induction 1 as [|a b l l' H F IH]; intros W; constructor.
  - apply W; [now left|exact H].
  - apply IH. intros a' b' Hin. apply W. now right.
Qed.

Lemma notify_silent p rt r : q_notify r = 1 -> s_resp (step_of p rt r) = None.
Proof.
  intros Hn. assert (N : is_notify r = true) by (unfold is_notify; now rewrite Hn).
  destruct p; cbn [step_of].
  - destruct (tcp_step_char rt r) as (A & _). now rewrite A, N.
  - destruct (async_step_char rt r) as (A & _). now rewrite A, N.
  - destruct (wsi_step_char rt r) as (A & _). now rewrite A, N.
  - destruct (wso_step_char rt r) as (A & _). now rewrite A, N.
Qed.

(** exactly one frame per non-notify request and none per notify, on every path *)
Lemma one_response_each p rt rs :
  (forall r, In r rs -> panics r = false \/ p = PWsOff) ->
  Forall2 (fun r resp => p_id resp = q_id r /\ query_rule r resp)
          (filter non_notify rs) (run_resps (step_of p) rt rs).
Proof.
  intros H.
  apply (Forall2_weaken_in (fun r q => s_resp (step_of p rt r) = Some q)).
  - apply run_resps_forall2.
    + intros r _ N. apply notify_silent. unfold is_notify in N. now apply N.eqb_eq in N.
    + intros r Hin N. destruct (one_response p rt r N (H r Hin)) as (q & E & _). congruence.
  - intros r q Hin E. apply filter_In in Hin as [Hin N]. unfold non_notify in N. apply negb_true_iff in N.
    destruct (one_response p rt r N (H r Hin)) as (q' & E' & I & Q).
    assert (q' = q) by congruence. subst. now split.
Qed.

Lemma invoked_spec p rt r :
  (p = PWsOff -> o_sat r = false) ->
  s_inv (step_of p rt r) = match spec_invoked false rt r with Some x => [x] | None => [] end.
Proof.
  intros H. rewrite <- step_invocations_spec. destruct p; cbn [step_of].
  - now destruct (tcp_step_char rt r) as (_ & B & _).
  - now destruct (async_step_char rt r) as (_ & B & _).
  - now destruct (wsi_step_char rt r) as (_ & B & _).
  - destruct (wso_step_char rt r) as (_ & B & _). rewrite B. unfold step_invocations.
    destruct (route rt r); [reflexivity|]. now rewrite (H eq_refl).
Qed.

(** the user function runs exactly once if the request is dispatched, let
    through by the middleware, and its body acceptable and decodable (for a
    registry mount: a call of a registered function), and not at all otherwise *)
Definition reaches_user (rt : router) (r : request) : Prop :=
  exists m h, dispatched rt r = Some (m, h) /\ mw_refusal rt r = None /\ body_class h r = BOk /\
              (h_kind h = KRegistry -> q_body r <> [] /\ bmem (reg_pointer m (q_query r)) (h_fns h) = true).

Lemma spec_invoked_reaches rt r :
  (exists rid, spec_invoked false rt r = Some rid) <-> reaches_user rt r.
Proof.
  unfold spec_invoked, reaches_user. destruct (dispatched rt r) as [[m h]|].
  2:{ split; [intros [? ?]; discriminate|intros (? & ? & ? & _); discriminate]. }
  destruct (mw_refusal rt r) as [x|].
  { split; [intros [? ?]; discriminate|intros (? & ? & ? & ? & _); discriminate]. }
  destruct (body_class h r) eqn:BC.
  2,3: split; [intros [? ?]; discriminate|intros (m' & h' & E & _ & BC' & _); injection E as <- <-; congruence].
  destruct (h_kind h) eqn:K.
  1-8,10: split; [intros _; exists m, h; split; [reflexivity|split; [reflexivity|split; [exact BC|intros K'; congruence]]]
                 |intros _; eexists; reflexivity].
  rewrite beqb_nil_r.
  destruct (q_body r) as [|x b]; cbn [negb andb].
  - split; [intros [? ?]; discriminate|]. intros (m' & h' & E & _ & _ & R). injection E as <- <-.
    destruct (R K) as [X _]. now contradiction X.
  - destruct (bmem (reg_pointer m (q_query r)) (h_fns h)) eqn:B.
    + split; [|intros _; eexists; reflexivity]. intros _. exists m, h.
      split; [reflexivity|split; [reflexivity|split; [exact BC|intros _; split; [discriminate|exact B]]]].
    + split; [intros [? ?]; discriminate|]. intros (m' & h' & E & _ & _ & R). injection E as <- <-.
      destruct (R K) as [_ X]. congruence.
Qed.

Lemma invoked_once_iff p rt r :
  (p = PWsOff -> o_sat r = false) ->
  (s_inv (step_of p rt r) = [] \/ exists rid, s_inv (step_of p rt r) = [rid]) /\
  ((exists rid, s_inv (step_of p rt r) = [rid]) <-> reaches_user rt r).
Proof.
  intros H. rewrite (invoked_spec p rt r H). rewrite <- spec_invoked_reaches.
  destruct (spec_invoked false rt r) as [x|].
  - split; [right; eauto|]. split; eauto.
  - split; [now left|]. split; intros [? E]; discriminate.
Qed.

Lemma step_meets p rt r resp :
  is_notify r = false -> (p = PWsOff -> o_sat r = false) ->
  s_resp (step_of p rt r) = Some resp -> resp_meets (spec_expect false rt r) resp = true.
Proof.
  intros N H E.
  assert (I : (if is_notify r then None else canon rt r) = Some resp -> resp_meets (spec_expect false rt r) resp = true).
  { rewrite N. apply canon_meets. }
  destruct p; cbn [step_of] in E.
  - apply I. now destruct (tcp_step_char rt r) as (A & _); rewrite <- A.
  - apply I. now destruct (async_step_char rt r) as (A & _); rewrite <- A.
  - apply I. now destruct (wsi_step_char rt r) as (A & _); rewrite <- A.
  - destruct (wso_step_char rt r) as (A & _). rewrite A, N, (H eq_refl) in E.
    pose proof (canon_meets rt r resp) as CM. pose proof (panic_meets rt r) as PM. unfold canon in CM, PM.
    destruct (route rt r) as [c msg|m h]; [now apply CM|].
    destruct (canon_dispatch rt h r) as [q|]; [now apply CM|]. injection E as <-. now apply PM.
Qed.

Lemma resp_meets_fields x p :
  resp_meets x p = true ->
  p_id p = x_id x /\ p_ec p = x_ec x /\ p_qfmt p = x_qfmt x /\ p_bfmt p = x_bfmt x /\ p_query p = x_query x /\
  (forall b, x_body x = Some b -> p_body p = b).
Proof.
  unfold resp_meets. intros H.
  apply andb_true_iff in H as [H H6]. apply andb_true_iff in H as [H H5]. apply andb_true_iff in H as [H H4].
  apply andb_true_iff in H as [H H3]. apply andb_true_iff in H as [H1 H2].
  apply N.eqb_eq in H1, H2, H3, H4. apply beqb_eq in H5.
  repeat split; try congruence.
  intros b Hb. rewrite Hb in H6. cbn in H6. symmetry. now apply beqb_eq.
Qed.

Lemma spec_expect_dispatched rt r m h :
  dispatched rt r = Some (m, h) ->
  q_qfmt r = 1 /\
  spec_expect false rt r =
    match mw_refusal rt r with
    | Some (c, _) => mkExp (q_id r) c 0 3 (q_query r) None
    | None =>
        match body_class h r with
        | BBadFormat => mkExp (q_id r) EC_BODY 0 3 (q_query r) None
        | BUndecodable => mkExp (q_id r) (undecodable_code (h_kind h)) 0 3 (q_query r) None
        | BOk =>
            match o_user r with
            | UVal bf b => mkExp (q_id r) 0 (q_qfmt r) bf (q_query r) (Some b)
            | UMsg ec qf bf q b => mkExp (q_id r) ec qf bf (match q with [] => q_query r | _ => q end) (Some b)
            | UErr c _ => mkExp (q_id r) c 0 3 (q_query r) None
            | UPanic => mkExp (q_id r) EC_INTERNAL 0 3 (q_query r) None
            end
        end
    end.
Proof.
  unfold dispatched, spec_expect.
  destruct (q_version r =? 1); cbn [negb andb]; [|discriminate].
  destruct (q_qfmt r =? 1) eqn:Q; cbn [negb andb orb]; [|discriminate].
  destruct (o_utf8 r); cbn [negb]; [|discriminate].
  intros ->. split; [now apply N.eqb_eq|reflexivity].
Qed.

Lemma error_code_table p rt r resp :
  is_notify r = false -> (p = PWsOff -> o_sat r = false) -> s_resp (step_of p rt r) = Some resp ->
  (q_version r <> 1 -> p_ec resp = EC_VERSION /\ p_qfmt resp = 0) /\
  (q_version r = 1 -> q_qfmt r <> 1 \/ o_utf8 r = false -> p_ec resp = EC_QUERY /\ p_qfmt resp = 0) /\
  (q_version r = 1 -> q_qfmt r = 1 -> o_utf8 r = true -> router_get rt (q_query r) = None ->
     p_ec resp = EC_NOTFOUND /\ p_qfmt resp = 0) /\
  (forall m h, dispatched rt r = Some (m, h) ->
     (forall c msg, mw_refusal rt r = Some (c, msg) -> p_ec resp = c /\ p_qfmt resp = 0) /\
     (mw_refusal rt r = None ->
        (body_class h r = BBadFormat -> p_ec resp = EC_BODY /\ p_qfmt resp = 0) /\
        (body_class h r = BUndecodable -> p_ec resp = undecodable_code (h_kind h) /\ p_qfmt resp = 0) /\
        (body_class h r = BOk ->
           (forall c msg, o_user r = UErr c msg -> p_ec resp = c /\ p_qfmt resp = 0) /\
           (forall bf b, o_user r = UVal bf b ->
              p_ec resp = 0 /\ p_qfmt resp = q_qfmt r /\ p_bfmt resp = bf /\ p_body resp = b) /\
           (o_user r = UPanic -> p_ec resp = EC_INTERNAL)))).
Proof.
  intros N H E. pose proof (step_meets p rt r resp N H E) as M.
  apply resp_meets_fields in M as (_ & Mec & Mqf & Mbf & _ & Mb).
  split; [|split; [|split]].
  - intros V. apply N.eqb_neq in V. rewrite Mec, Mqf. unfold spec_expect. rewrite V. split; reflexivity.
  - intros V QU. apply N.eqb_eq in V. rewrite Mec, Mqf. unfold spec_expect. rewrite V. cbn [negb].
    assert (X : negb (q_qfmt r =? 1) || negb (o_utf8 r) = true).
    { destruct QU as [Q|U]; [apply N.eqb_neq in Q; now rewrite Q|rewrite U; apply orb_true_r]. }
    rewrite X. split; reflexivity.
  - intros V Q U G. apply N.eqb_eq in V, Q. rewrite Mec, Mqf. unfold spec_expect. rewrite V, Q, U, G. split; reflexivity.
  - intros m h D. destruct (spec_expect_dispatched rt r m h D) as [_ SE].
    rewrite SE in Mec, Mqf, Mbf, Mb. clear SE. split.
    + intros c msg MW. rewrite MW in Mec, Mqf. split; [exact Mec|exact Mqf].
    + intros MW. rewrite MW in Mec, Mqf, Mbf, Mb. split; [|split].
      * intros BC. rewrite BC in Mec, Mqf. split; [exact Mec|exact Mqf].
      * intros BC. rewrite BC in Mec, Mqf. split; [exact Mec|exact Mqf].
      * intros BC. rewrite BC in Mec, Mqf, Mbf, Mb. split; [|split].
        -- intros c msg U. rewrite U in Mec, Mqf. split; [exact Mec|exact Mqf].
        -- intros bf b U. rewrite U in Mec, Mqf, Mbf, Mb.
           split; [exact Mec|split; [exact Mqf|split; [exact Mbf|apply Mb; reflexivity]]].
        -- intros U. rewrite U in Mec. exact Mec.
Qed.

(** the same request, the same frame, the same invocations on every path *)
Lemma transports_agree rt r p1 p2 :
  panics r = false -> o_sat r = false ->
  s_resp (step_of p1 rt r) = s_resp (step_of p2 rt r) /\
  s_inv (step_of p1 rt r) = s_inv (step_of p2 rt r) /\
  s_mw (step_of p1 rt r) = s_mw (step_of p2 rt r).
Proof.
  intros P S.
  destruct (step_of_char p1 rt r (fun _ => conj S P)) as (A1 & B1 & C1).
  destruct (step_of_char p2 rt r (fun _ => conj S P)) as (A2 & B2 & C2).
  now rewrite A1, A2, B1, B2, C1, C2.
Qed.

(** the mixed WebSocket reader likewise *)
Lemma ws_agrees rt r :
  panics r = false -> o_sat r = false -> s_resp (ws_step rt r) = s_resp (tcp_step rt r).
Proof.
  intros P S. destruct (ws_step_char rt r) as (A & _). destruct (tcp_step_char rt r) as (B & _).
  rewrite A, B. unfold ws_resp, shed_ws. rewrite S, andb_false_r.
  destruct (is_notify r); [reflexivity|]. pose proof (canon_some rt r P). now destruct (canon rt r).
Qed.

Lemma inline_lists_equal rt rs : tcp rt rs = async_tcp rt rs /\ tcp rt rs = ws_inline rt rs.
Proof.
  split; [reflexivity|]. unfold tcp, ws_inline. apply run_resps_ext. intros r _.
  destruct (tcp_step_char rt r) as (A & _). destruct (wsi_step_char rt r) as (B & _). now rewrite A, B.
Qed.

Lemma offreader_list_equal rt rs :
  (forall r, In r rs -> panics r = false /\ o_sat r = false) -> ws_offreader rt rs = tcp rt rs.
Proof.
  intros H. unfold tcp, ws_offreader. apply run_resps_ext. intros r Hin. destruct (H r Hin) as [P S].
  exact (proj1 (transports_agree rt r PWsOff PTcp P S)).
Qed.

(** inline paths answer in arrival order: the list of frames is, element by
    element, what the decision table says of the non-notify requests *)
Lemma inline_order p rt rs :
  p <> PWsOff -> (forall r, In r rs -> panics r = false) ->
  Forall2 (fun r resp => resp_meets (spec_expect false rt r) resp = true)
          (filter non_notify rs) (run_resps (step_of p) rt rs).
Proof.
  intros Hp H.
  apply (Forall2_weaken_in (fun r q => s_resp (step_of p rt r) = Some q)).
  - apply run_resps_forall2.
    + intros r _ N. apply notify_silent. unfold is_notify in N. now apply N.eqb_eq in N.
    + intros r Hin N. destruct (one_response p rt r N (or_introl (H r Hin))) as (q & E & _). congruence.
  - intros r q Hin E. apply filter_In in Hin as [Hin N]. unfold non_notify in N. apply negb_true_iff in N.
    apply (step_meets p rt r q N); [intros ->; congruence|exact E].
Qed.

(** the off-reader arm under pressure and under a panicking handler *)
Lemma saturation_sheds rt r m h :
  dispatched rt r = Some (m, h) -> o_sat r = true ->
  s_resp (wso_step rt r) = (if is_notify r then None else Some (mkResp (q_id r) EC_EXHAUSTED 0 3 (q_query r) msg_saturated)) /\
  s_inv (wso_step rt r) = [] /\ s_mw (wso_step rt r) = O.
Proof.
  intros D S. destruct (wso_step_char rt r) as (A & B & C). rewrite A, B, C.
  pose proof (route_cases rt r) as RC. rewrite D in RC. rewrite RC, S. repeat split.
Qed.

Lemma offreader_panic_contained rt r m h :
  dispatched rt r = Some (m, h) -> o_sat r = false -> mw_refusal rt r = None -> body_class h r = BOk ->
  o_user r = UPanic -> is_notify r = false ->
  s_resp (wso_step rt r) = Some (mkResp (q_id r) EC_INTERNAL 0 3 (q_query r) msg_panicked).
Proof.
  intros D S MW BC U N. destruct (wso_step_char rt r) as (A & _). rewrite A, N.
  pose proof (route_cases rt r) as RC. rewrite D in RC. rewrite RC, S.
  unfold canon_dispatch, canon_body, fin_user. now rewrite MW, BC, U.
Qed.
