(** Agreement of the hand-written registry model (Model/Registry.v: property C14, its thread model
    [cthread] / [csection]) with the LOCK STRUCTURE of Registry::{set_root, register_value, merge_root,
    merge_at, register_function_arc, read_value, dispatch_with_ctx} that bin/rs2v regenerates from
    /repo/src/registry.rs on every run (Gen/RegLocksGen.v).  Each method is an [lplan]
    (Base/GenRegLocksPrelude.v); [exec] runs it from a shared state while other threads change that
    state wherever this thread holds no guard ([env]): the statements say which lock each section
    takes, that every mutator is ONE write section whose effect is the model's step on the state it
    finds, that the user callable is invoked with NO guard held, and that [dispatch_with_ctx] with a
    body is the model's pair "decision under the read lock, then the call or the write section on the
    state found THEN".  A method that could not be translated is [None] and its lemma degrades to
    [True]. *)
From RepeV Require Import Model.Json Model.Registry Proofs.JsonProofs Base.GenRegLocksPrelude Gen.RegLocksGen.
From RepeV Require Export Proofs.GenAgreeBase.

(** ** what the renderings are compared with *)
(** the plan run by one thread, the callables being the model's *)
Definition exec (env : nat -> rstate -> rstate) (busy : nat -> bool) (p : lplan) (s : rstate) : rstate * list tev * rout :=
  run model_user env busy 0 false p s.

(** ONE section under lock [m] whose effect and answer are the model's step [op] on the state the
    thread finds when it gets the lock *)
Definition section_of (m : lmode) (op : rop) (env : nat -> rstate -> rstate) (s : rstate) : rstate * list tev * rout :=
  let s1 := env 0%nat s in
  let '(s2, r, _) := rstep None s1 op in (s2, [TAcq m; TRel], r).

(** [dispatch_with_ctx] with a body: nothing is locked when the pointer is malformed; else the
    DECISION [d] is the lookup under the read lock in the state [s1] found then; a callable is
    invoked after the guard is gone and nothing else is locked; without a callable the pointer is
    parsed (no lock) and the WRITE section runs the model's [dispatch_decided] on the state [s2]
    found when the write lock is granted *)
Definition dispatch_pair (p : str) (payload : json) (env : nat -> rstate -> rstate) (s : rstate) : rstate * list tev * rout :=
  match canonical_key p with
  | Err e => (s, [], RErr e)
  | Ok key =>
      let s1 := env 0%nat s in
      let d := fget (r_funs s1) key in
      match d with
      | Some fid =>
          let '(s3, r, _) := dispatch_decided s1 p payload d in (s3, [TAcq LRd; TRel; TCall fid payload], r)
      | None =>
          match parse_pointer p with
          | Err e => (s1, [TAcq LRd; TRel], RErr e)
          | Ok _ =>
              let s2 := env 1%nat s1 in
              let '(s3, r, _) := dispatch_decided s2 p payload d in (s3, [TAcq LRd; TRel; TAcq LWr; TRel], r)
          end
      end
  end.

(** ** the value tree *)
Lemma oset_oset m k a b : oset (oset m k a) k b = oset m k b.
Proof.
  induction m as [|[k' v'] m IH]; cbn [oset].
  - now rewrite str_eqb_refl.
  - destruct (str_eqb k' k) eqn:E.
    + cbn [oset]. now rewrite str_eqb_refl.
    + destruct (str_ltb k k') eqn:L; cbn [oset].
      * now rewrite str_eqb_refl.
      * now rewrite E, L, IH.
Qed.

(** [resolve_mut], then [as_object_mut().ok_or_else(..)?], then the insert loop: the model's [merge_ptr] *)
Lemma merge_ptr_upd segs : forall cur o,
  merge_ptr cur segs o =
  match resolve cur segs with
  | Err e => Err e
  | Ok (JObj _) => Ok (upd_at cur segs (merge_into o))
  | Ok _ => Err EPathNotFound
  end.
Proof.
  induction segs as [|s rest IH]; intros cur o; cbn [merge_ptr resolve upd_at].
  - destruct cur; reflexivity.
  - destruct (child cur s) as [c|e]; [|reflexivity].
    rewrite IH. destruct (resolve c rest) as [[]|]; reflexivity.
Qed.

(** [ensure_object_parent] (the model's [reg_at .. None]), then the insert of the last segment into the
    map it returned: the model's [reg_at .. (Some v)] *)
Lemma reg_at_insert rest : forall s m v,
  match l_last (s :: rest) with
  | Some l => upd_at (JObj (reg_at m (s :: rest) None)) (removelast (s :: rest)) (insert_into l v) = JObj (reg_at m (s :: rest) (Some v))
  | None => False
  end.
Proof.
  induction rest as [|s2 rest IH]; intros s m v.
  - reflexivity.
  - specialize (IH s2 (match oget m s with Some (JObj cm) => cm | _ => [] end) v).
    change (l_last (s :: s2 :: rest)) with (l_last (s2 :: rest)).
    destruct (l_last (s2 :: rest)) as [l|]; [|exact IH].
    change (removelast (s :: s2 :: rest)) with (s :: removelast (s2 :: rest)).
    assert (E : forall ins, reg_at m (s :: s2 :: rest) ins =
                            oset m s (JObj (reg_at (match oget m s with Some (JObj cm) => cm | _ => [] end) (s2 :: rest) ins))) by reflexivity.
    rewrite !E. set (X := reg_at _ (s2 :: rest) None) in *. set (Y := reg_at _ (s2 :: rest) (Some v)) in *.
    set (R := removelast (s2 :: rest)) in *.
    cbn [upd_at child]. rewrite oget_oset_same. cbn [put_child]. rewrite IH, oset_oset. reflexivity.
Qed.

Lemma of_cres_model fid arg : of_cres (model_user fid arg) = fun_out fid arg.
Proof. unfold model_user, fun_out. destruct (fid mod 4 =? 3)%N; reflexivity. Qed.

(** ** the one-section methods *)
Lemma reg_set_root_agrees :
  match gen_reg_set_root with Some f => forall env busy s v, exec env busy (f v) s = section_of LWr (SetRoot v) env s | None => True end.
Proof. gen_start. all: intros env busy s v; reflexivity. Qed.

Lemma reg_merge_root_agrees :
  match gen_reg_merge_root with Some f => forall env busy s o, exec env busy (f o) s = section_of LWr (MergeRoot o) env s | None => True end.
Proof. gen_start. all: intros env busy s o; reflexivity. Qed.

Lemma reg_read_value_agrees :
  match gen_reg_read_value with Some f => forall env busy s p, exec env busy (f p) s = section_of LRd (ReadValue p) env s | None => True end.
Proof.
  gen_start. all: intros env busy s p; unfold exec, section_of; cbn [run rstep]; cbv zeta; unfold read_value.
  all: destruct (parse_pointer p) as [segs|e]; reflexivity.
Qed.

Lemma reg_merge_at_agrees :
  match gen_reg_merge_at with Some f => forall env busy s p o, exec env busy (f p o) s = section_of LWr (MergeAt p o) env s | None => True end.
Proof.
  gen_start. all: intros env busy s p o; unfold exec, section_of; cbn [run rstep]; cbv zeta; unfold merge_at, nolog.
  all: destruct (parse_registration_path p) as [[|s0 segs]|e]; try reflexivity.
  all: cbn [l_is_empty r_root r_funs set_r_root]; rewrite merge_ptr_upd.
  all: destruct (resolve (r_root (env 0%nat s)) (s0 :: segs)) as [[]|e]; reflexivity.
Qed.

Lemma reg_register_value_agrees :
  match gen_reg_register_value with Some f => forall env busy s p v, exec env busy (f p v) s = section_of LWr (RegValue p v) env s | None => True end.
Proof.
  gen_start. all: intros env busy s p v; unfold exec, section_of; cbn [run rstep]; cbv zeta; unfold register_value, nolog.
  all: destruct (parse_registration_path p) as [[|s0 segs]|e]; try reflexivity.
  all: cbn [l_is_empty r_root r_funs set_r_root].
  all: pose proof (reg_at_insert segs s0 (obj_of (r_root (env 0%nat s))) v) as H.
  all: destruct (l_last (s0 :: segs)) as [l|]; [|contradiction]; rewrite H; reflexivity.
Qed.

Lemma reg_register_function_arc_agrees :
  match gen_reg_register_function_arc with
  | Some f => forall env busy s p fid, exec env busy (f p fid) s = section_of LWr (RegFun p fid) env s
  | None => True
  end.
Proof.
  gen_start. all: intros env busy s p fid; unfold exec, section_of; cbn [run rstep]; cbv zeta; unfold register_function, nolog.
  all: destruct (parse_registration_path p) as [[|s0 segs]|e]; reflexivity.
Qed.

(** ** dispatch_with_ctx *)
(** without a body: ONE read section, the model's [dispatch .. None] (no section when the pointer is malformed) *)
Lemma reg_dispatch_read_agrees :
  match gen_reg_dispatch_with_ctx with
  | Some f => forall env busy s p,
      exec env busy (f p None) s =
      match canonical_key p with
      | Err e => (s, [], RErr e)
      | Ok _ => section_of LRd (Dispatch p None) env s
      end
  | None => True
  end.
Proof.
  gen_start. all: intros env busy s p; unfold exec, section_of; cbn [rstep]; unfold dispatch.
  all: destruct (canonical_key p) as [key|e]; [|reflexivity].
  all: cbn [run o_is_none]; cbv zeta.
  all: destruct (fget (r_funs (env 0%nat s)) key) as [fid|]; cbn [o_is_some]; [reflexivity|].
  all: destruct (parse_pointer p) as [segs|e]; reflexivity.
Qed.

(** with a body: the decision-then-act pair *)
Lemma reg_dispatch_write_agrees :
  match gen_reg_dispatch_with_ctx with
  | Some f => forall env busy s p payload, exec env busy (f p (Some payload)) s = dispatch_pair p payload env s
  | None => True
  end.
Proof.
  gen_start. all: intros env busy s p payload; unfold exec, dispatch_pair.
  all: destruct (canonical_key p) as [key|e]; [|reflexivity].
  all: cbn [run o_is_none]; cbv zeta.
  all: destruct (fget (r_funs (env 0%nat s)) key) as [fid|]; cbn [run dispatch_decided]; cbv zeta.
  all: try (rewrite of_cres_model; reflexivity).
  all: unfold dispatch_write; destruct (parse_pointer p) as [[|s0 segs]|e]; cbn [run l_is_empty]; cbv zeta; try reflexivity.
  all: try (destruct payload; reflexivity).
  all: cbn [r_root r_funs set_r_root]; destruct (set_ptr _ _ _); reflexivity.
Qed.

(** ** the model side: [dispatch_pair] is the two sections of the thread model *)
(** the first section of a thread whose next request carries a body is the decision (no event, the same
    work left), its second section -- on whatever state it finds -- is [dispatch_decided] with that decision *)
Lemma dispatch_pair_csection p payload rest key :
  canonical_key p = Ok key ->
  (forall s1, csection s1 (mkT None (Dispatch p (Some payload) :: rest)) =
              (s1, mkT (Some (fget (r_funs s1) key)) (Dispatch p (Some payload) :: rest), None)) /\
  (forall s2 d, csection s2 (mkT (Some d) (Dispatch p (Some payload) :: rest)) =
                let '(s3, r, lg) := dispatch_decided s2 p payload d in (s3, mkT None rest, Some (Dispatch p (Some payload), r, lg))).
Proof.
  intros Hk. split; [intros s1|intros s2 d]; unfold csection; cbn [ct_todo ct_dec]; [rewrite Hk|]; reflexivity.
Qed.

(** the calls the model logs are the invocations in the trace *)
Lemma dispatch_pair_calls p payload env s :
  calls_of (snd (fst (dispatch_pair p payload env s))) =
  match canonical_key p with
  | Err _ => []
  | Ok key => match fget (r_funs (env 0%nat s)) key with Some fid => [(fid, payload)] | None => [] end
  end.
Proof.
  unfold dispatch_pair. destruct (canonical_key p) as [key|e]; [|reflexivity]. cbv zeta.
  destruct (fget _ key) as [fid|]; [reflexivity|].
  destruct (parse_pointer p); [|reflexivity]. destruct (dispatch_decided _ _ _ _) as [[s3 r] lg]. reflexivity.
Qed.

(** ** the bundle quoted by Props/C14.v *)
Lemma c14_source_translation_locks :
  match gen_reg_set_root with Some f => forall env busy s v, exec env busy (f v) s = section_of LWr (SetRoot v) env s | None => True end /\
  match gen_reg_register_value with Some f => forall env busy s p v, exec env busy (f p v) s = section_of LWr (RegValue p v) env s | None => True end /\
  match gen_reg_merge_root with Some f => forall env busy s o, exec env busy (f o) s = section_of LWr (MergeRoot o) env s | None => True end /\
  match gen_reg_merge_at with Some f => forall env busy s p o, exec env busy (f p o) s = section_of LWr (MergeAt p o) env s | None => True end /\
  match gen_reg_register_function_arc with
  | Some f => forall env busy s p fid, exec env busy (f p fid) s = section_of LWr (RegFun p fid) env s
  | None => True
  end /\
  match gen_reg_read_value with Some f => forall env busy s p, exec env busy (f p) s = section_of LRd (ReadValue p) env s | None => True end /\
  match gen_reg_dispatch_with_ctx with
  | Some f => forall env busy s p,
      exec env busy (f p None) s =
      match canonical_key p with
      | Err e => (s, [], RErr e)
      | Ok _ => section_of LRd (Dispatch p None) env s
      end
  | None => True
  end /\
  match gen_reg_dispatch_with_ctx with
  | Some f => forall env busy s p payload, exec env busy (f p (Some payload)) s = dispatch_pair p payload env s
  | None => True
  end.
Proof.
  exact (conj reg_set_root_agrees (conj reg_register_value_agrees (conj reg_merge_root_agrees (conj reg_merge_at_agrees
        (conj reg_register_function_arc_agrees (conj reg_read_value_agrees (conj reg_dispatch_read_agrees reg_dispatch_write_agrees))))))).
Qed.
