(** Agreement of the hand-written model (Model/Stream.v, Model/Condvar.v) with
    the Gallina rendering that bin/rs2v regenerates from /repo/src/stream.rs on
    every run (Gen/StreamGen.v).  A function that could not be translated is
    [None] and its lemma degrades to [True]; a function whose translation
    changed meaning breaks its lemma. *)
From RepeV Require Import Model.Condvar Proofs.StreamProofs Base.GenPrelude Gen.StreamGen.
From RepeV Require Export Proofs.GenAgreeBase.
From Coq Require Import ZifyBool ZifyN ZifyNat.
Ltac Zify.zify_post_hook ::= Z.div_mod_to_equations.

(** how the Rust return values are named in the hand model *)
Definition out_of_resume (r : result N resume_rejection) : out :=
  match r with
  | ROk o => OResumeOk o
  | RErr RR_Cancelled => ORejCancelled
  | RErr (RR_WrongFileIndex a b) => ORejWrongFile a b
  | RErr RR_OutOfWindow => ORejOutOfWindow
  end.
Definition out_of_credit (r : result unit credit_error) : out :=
  match r with
  | ROk _ => OGranted
  | RErr (CE_Cancelled r) => OCreditCancelled r
  | RErr CE_Timeout => OCreditTimeout
  end.
Definition out_of_reconnect (r : reconnect_outcome) : out :=
  match r with
  | RO_ResumeReady o => OResumeReady o
  | RO_Cancelled r => OReconnCancelled r
  | RO_Timeout => OReconnTimeout
  end.
Definition wres_of_credit (r : result unit credit_error) : wresult :=
  match r with
  | ROk _ => WGranted
  | RErr (CE_Cancelled r) => WCancelled r
  | RErr CE_Timeout => WTimeout
  end.
Definition wres_of_reconnect (r : reconnect_outcome) : wresult :=
  match r with
  | RO_ResumeReady o => WResumeReady o
  | RO_Cancelled r => WCancelled r
  | RO_Timeout => WTimeout
  end.
Definition returned {A} (i : iter A) : bool := match i with Ret _ => true | Park => false end.
Definition iter_map {A B} (f : A -> B) (i : iter A) : option B :=
  match i with Ret a => Some (f a) | Park => None end.

(** ** tactics: unfold the generated bodies and the setters, split on every
    test, compare field by field *)
Ltac setters :=
  unfold set_t_window, set_t_sent, set_t_acked, set_t_file, set_t_cancelled, set_t_ring,
         set_t_held, set_t_cap, set_t_peer, set_t_pending in *;
  cbn [t_window t_sent t_acked t_file t_cancelled t_ring t_held t_cap t_peer t_pending fst snd] in *.
Ltac helpers := unfold opt_is_some, opt_is_none, opt_is_some_and, checked_add64, opt_eqb in *.
Ltac split_ifs :=
  repeat match goal with
         | |- context [if ?b then _ else _] => destruct b eqn:?
         | |- context [match ?o with Some _ => _ | None => _ end] => destruct o eqn:?
         end.
Ltac done :=
  try reflexivity; try discriminate; try congruence;
  try (exfalso; lia); try (repeat f_equal; lia).
Lemma last_opt_last {A} (l : list A) a d : last_opt (l ++ [a]) = Some a /\ last (l ++ [a]) d = a.
Proof.
  induction l as [|x l IH]; [split; reflexivity|].
  destruct IH as [IH1 IH2]. cbn [app]. destruct (l ++ [a]) eqn:E; [destruct l; discriminate|].
  split; [exact IH1 | exact IH2].
Qed.

Lemma last_opt_spec {A} (l : list A) d : l <> [] -> last_opt l = Some (last l d).
Proof.
  intros H. destruct (exists_last H) as [l' [a ->]].
  destruct (last_opt_last l' a d) as [-> ->]. reflexivity.
Qed.

(** ** ReplayRing *)
Lemma ring_clear_agrees :
  agrees1 gen_ring_clear (fun s => mkTc (t_window s) (t_sent s) (t_acked s) (t_file s) (t_cancelled s) [] 0
                                        (t_cap s) (t_peer s) (t_pending s)).
Proof. gen_start. all: intros s; setters; done. Qed.

Lemma ring_highest_end_offset_agrees :
  agrees1 gen_ring_highest_end_offset
          (fun s => match t_ring s with [] => None | r => Some (ck_end (last r (mkChunk 0 0 false []))) end).
Proof.
  gen_start. all: intros s.
  all: destruct (t_ring s) as [|c r] eqn:E; [reflexivity|].
  all: rewrite (last_opt_spec (c :: r) (mkChunk 0 0 false [])) by discriminate; reflexivity.
Qed.

Lemma ring_covers_agrees : agrees2 gen_ring_covers (fun s o => covers (t_ring s) o).
Proof.
  pose proof ring_highest_end_offset_agrees as Hh. gen_start. all: intros s o; callee Hh.
  all: unfold covers; rewrite ?Hh.
  all: destruct (t_ring s) as [|c r]; cbn [list_is_empty]; [reflexivity|].
  all: destruct (existsb _ (c :: r)); cbn [orb opt_eqb]; reflexivity.
Qed.

Lemma ring_replay_from_agrees : agrees2 gen_ring_replay_from (fun s o => replay_from (t_ring s) o).
Proof. gen_start. all: intros s o; reflexivity. Qed.

(** the state with another ring / bytes_held *)
Definition with_ring (s : tc) (r : list chunk) (h : N) : tc :=
  mkTc (t_window s) (t_sent s) (t_acked s) (t_file s) (t_cancelled s) r h (t_cap s) (t_peer s) (t_pending s).

(** a fuelled [while] whose test is "over budget and more than one chunk" and
    whose body drops the oldest chunk and its wire bytes is the model's [evict] *)
Lemma while_evict (c : tc -> bool) (b : tc -> tc) :
  (forall s, c s = (t_cap s <? t_held s) && (1 <? N.of_nat (length (t_ring s)))) ->
  (forall s x r, t_ring s = x :: r -> b s = with_ring s r (t_held s - wire x)) ->
  forall n s, (length (t_ring s) <= n)%nat ->
  while_fuel n c b s = with_ring s (fst (evict (t_ring s) (t_held s) (t_cap s)))
                                   (snd (evict (t_ring s) (t_held s) (t_cap s))).
Proof.
  intros Hc Hb. induction n as [|n IH]; intros s Hlen; cbn [while_fuel].
  - destruct s as [w se ac fi ca ri he cp pe pd]. cbn [t_ring length] in Hlen.
    destruct ri; [reflexivity | cbn [length] in Hlen; lia].
  - rewrite Hc. destruct (t_ring s) as [|x [|y r]] eqn:E.
    + rewrite andb_false_r. cbn [evict fst snd]. unfold with_ring. rewrite <- E. apply eq_sym, tc_eta.
    + replace (1 <? N.of_nat (length [x])) with false by (cbn [length]; lia).
      rewrite andb_false_r. cbn [evict fst snd]. unfold with_ring. rewrite <- E. apply eq_sym, tc_eta.
    + replace (1 <? N.of_nat (length (x :: y :: r))) with true by (cbn [length]; lia).
      rewrite andb_true_r. rewrite evict_cons2.
      destruct (t_cap s <? t_held s) eqn:Ec.
      * rewrite (Hb s x (y :: r) E). rewrite IH.
        -- unfold with_ring. cbn [t_window t_sent t_acked t_file t_cancelled t_ring t_held t_cap t_peer t_pending]. reflexivity.
        -- unfold with_ring. cbn [t_ring]. cbn [length] in *. lia.
      * cbn [fst snd]. unfold with_ring. rewrite <- E. apply eq_sym, tc_eta.
Qed.

Lemma ring_push_agrees :
  agrees5 gen_ring_push (fun s off len lst body => ring_push s (mkChunk off len lst body)).
Proof.
  gen_start. all: intros s off len lst body; cbv zeta; rewrite ring_push_eq.
  all: erewrite while_evict;
    [ unfold with_ring, wire; setters; reflexivity
    | intros s0; helpers; setters; done
    | intros s0 x r E; unfold with_ring, wire; setters; rewrite ?E; cbn [hd_error tl]; setters; split_ifs; setters; done
    | setters; lia ].
Qed.

(** the fuel given to the loop was enough: on exit the loop test is false *)
Lemma ring_push_fuel_enough :
  match gen_ring_push with
  | Some f => forall s off len lst body,
      let s' := f s off len lst body in
      (t_cap s' <? t_held s') && (1 <? N.of_nat (length (t_ring s'))) = false
  | None => True
  end.
Proof.
  assert (He : forall ring held cap, (cap <? snd (evict ring held cap)) &&
                 (1 <? N.of_nat (length (fst (evict ring held cap)))) = false).
  { induction ring as [|x [|y r] IH]; intros held cap;
      [cbn [evict fst snd length]; lia | cbn [evict fst snd length]; lia |].
    rewrite evict_cons2. destruct (cap <? held) eqn:E; [apply IH|]. cbn [fst snd length]. lia. }
  pose proof ring_push_agrees as Ha. unfold agrees5 in Ha. by_agree Ha.
  all: subst s'; rewrite Ha, ring_push_eq.
  all: cbn [t_cap t_held t_ring]; apply He.
Qed.

(** ** TransferControl: the accounting methods *)
Ltac crush s :=
  cbv zeta; unfold step, notifies; helpers; destruct s as [w se ac fi ca ri he cp pe pd]; setters;
  split_ifs; setters; done.

Lemma record_sent_agrees : agrees2 gen_record_sent (fun s n => (fst (step s (Sent n)), false)).
Proof. gen_start. all: intros s n; crush s. Qed.

Lemma record_ack_agrees :
  agrees3 gen_record_ack (fun s f n => (fst (step s (Ack f n)), notifies s (Ack f n))).
Proof. gen_start. all: intros s f n; crush s. Qed.

Lemma cancel_agrees : agrees2 gen_cancel (fun s r => (fst (step s (Cancel r)), notifies s (Cancel r))).
Proof. gen_start. all: intros s r; crush s. Qed.

Lemma advance_to_file_agrees : agrees2 gen_advance_to_file (fun s f => (fst (step s (Advance f)), true)).
Proof.
  pose proof ring_clear_agrees as Hc. gen_start. all: intros s f; callee Hc.
  all: cbv zeta; rewrite ?Hc; crush s.
Qed.

Lemma set_peer_agrees : agrees2 gen_set_peer (fun s p => (fst (step s (SetPeer p)), false)).
Proof. gen_start. all: intros s p; crush s. Qed.

Lemma push_replay_agrees :
  agrees5 gen_push_replay (fun s off len lst body => (fst (step s (Push off len lst body)), false)).
Proof.
  pose proof ring_push_agrees as Hp. gen_start. all: intros s off len lst body; callee Hp.
  all: cbv zeta; rewrite ?Hp; reflexivity.
Qed.

Lemma replay_chunks_from_agrees :
  agrees2 gen_replay_chunks_from (fun s n => (s, replay_from (t_ring s) n, false)).
Proof.
  pose proof ring_replay_from_agrees as Hr. gen_start. all: intros s n; callee Hr.
  all: cbv zeta; rewrite ?Hr; reflexivity.
Qed.

(** ... which is the model's [Replay] step *)
Lemma replay_chunks_from_step :
  match gen_replay_chunks_from with
  | Some f => forall s n, let '(s', cs, nt) := f s n in (s', OChunks cs, nt) = (step s (Replay n), false)
  | None => True
  end.
Proof.
  pose proof replay_chunks_from_agrees as Ha. unfold agrees2 in Ha. by_agree Ha.
Qed.

Lemma request_resume_agrees :
  match gen_request_resume with
  | Some f => forall s p fi n,
      let '(s', r, nt) := f s p fi n in
      (s', out_of_resume r, nt) = (step s (Resume p fi n), notifies s (Resume p fi n))
  | None => True
  end.
Proof.
  pose proof ring_covers_agrees as Hc. gen_start. all: intros s p fi n; callee Hc.
  all: cbv zeta; rewrite ?Hc; unfold step, notifies; helpers.
  all: destruct s as [w se ac f0 ca ri he cp pe pd]; setters.
  all: destruct ca; destruct (N.eqb fi f0) eqn:Ef; destruct (covers ri n) eqn:Ecov; cbn [negb andb orb].
  all: split_ifs; setters; done.
Qed.

(** ** the two waiting methods: one iteration of the loop, [expired] = "now >= deadline" *)
Ltac split_all :=
  repeat (match goal with
          | |- context [if ?b then _ else _] => destruct b eqn:?
          | |- context [match ?o with Some _ => _ | None => _ end] => destruct o eqn:?
          | H : context [if ?b then _ else _] |- _ => destruct b eqn:?
          | H : context [match ?o with Some _ => _ | None => _ end] |- _ => destruct o eqn:?
          end; cbv beta iota in *; try discriminate).
Ltac finish :=
  cbn [returned iter_map out_of_credit out_of_reconnect wres_of_credit wres_of_reconnect orb andb negb fst snd];
  repeat split; intros; try reflexivity; try discriminate; try congruence; try lia.

Lemma wait_for_credit_expired :
  match gen_wait_for_credit with
  | Some f => forall s len, t_window s < two64 ->
      let '(s', i, nt) := f s len true in
      (s', iter_map out_of_credit i, nt) = (fst (step s (TryCredit len)), Some (snd (step s (TryCredit len))), false)
  | None => True
  end.
Proof.
  gen_start. all: intros s len Hw.
  all: cbv zeta; unfold step, credit_ok; helpers; destruct s as [w se ac fi ca ri he cp pe pd]; setters.
  all: cbn [t_window] in Hw; split_all; finish.
Qed.

Lemma wait_for_credit_iteration :
  match gen_wait_for_credit with
  | Some f => forall s len expired, t_window s < two64 ->
      let '(s', i, nt) := f s len expired in
      s' = s /\ nt = false /\ returned i = ready (WCredit len) s || expired /\
      (ready (WCredit len) s = true -> iter_map wres_of_credit i = Some (snd (waiter_return (WCredit len) s))) /\
      (ready (WCredit len) s = false -> i = if expired then Ret (RErr CE_Timeout) else Park)
  | None => True
  end.
Proof.
  gen_start. all: intros s len expired Hw.
  all: cbv zeta; unfold ready, waiter_return, credit_ok; helpers.
  all: destruct s as [w se ac fi ca ri he cp pe pd]; setters.
  all: cbn [t_window] in Hw; destruct expired; split_all; finish.
Qed.

Lemma wait_for_reconnect_expired :
  match gen_wait_for_reconnect with
  | Some f => forall s,
      let '(s', i, nt) := f s true in
      (s', iter_map out_of_reconnect i, nt) = (fst (step s TryReconnect), Some (snd (step s TryReconnect)), false)
  | None => True
  end.
Proof.
  gen_start. all: intros s.
  all: cbv zeta; unfold step; helpers; destruct s as [w se ac fi ca ri he cp pe pd]; setters.
  all: split_all; finish.
Qed.

Lemma wait_for_reconnect_iteration :
  match gen_wait_for_reconnect with
  | Some f => forall s expired,
      let '(s', i, nt) := f s expired in
      nt = false /\ returned i = ready WReconnect s || expired /\
      (ready WReconnect s = true ->
       exists v, i = Ret v /\ (s', wres_of_reconnect v) = waiter_return WReconnect s) /\
      (ready WReconnect s = false -> s' = s /\ i = if expired then Ret RO_Timeout else Park)
  | None => True
  end.
Proof.
  gen_start. all: intros s expired.
  all: cbv zeta; unfold ready, waiter_return, step; helpers.
  all: destruct s as [w se ac fi ca ri he cp pe pd]; setters.
  all: destruct expired; split_all; finish; eexists; split; reflexivity.
Qed.

(** ** the [notified] flag of every signalling method is the model's [notifies] *)
Lemma notified_agrees :
  match gen_record_sent with Some f => forall s n, snd (f s n) = notifies s (Sent n) | None => True end /\
  match gen_record_ack with Some f => forall s fi n, snd (f s fi n) = notifies s (Ack fi n) | None => True end /\
  match gen_cancel with Some f => forall s r, snd (f s r) = notifies s (Cancel r) | None => True end /\
  match gen_advance_to_file with Some f => forall s fi, snd (f s fi) = notifies s (Advance fi) | None => True end /\
  match gen_request_resume with Some f => forall s p fi n, snd (f s p fi n) = notifies s (Resume p fi n) | None => True end /\
  match gen_push_replay with Some f => forall s off len lst body, snd (f s off len lst body) = notifies s (Push off len lst body) | None => True end /\
  match gen_set_peer with Some f => forall s p, snd (f s p) = notifies s (SetPeer p) | None => True end /\
  match gen_replay_chunks_from with Some f => forall s n, snd (f s n) = notifies s (Replay n) | None => True end.
Proof.
  pose proof record_sent_agrees as H1. pose proof record_ack_agrees as H2. pose proof cancel_agrees as H3.
  pose proof advance_to_file_agrees as H4. pose proof request_resume_agrees as H5.
  pose proof push_replay_agrees as H6. pose proof set_peer_agrees as H7. pose proof replay_chunks_from_agrees as H8.
  unfold agrees2, agrees3, agrees5 in *.
  split; [|split; [|split; [|split; [|split; [|split; [|split]]]]]].
  - by_agree H1.
  - by_agree H2.
  - by_agree H3.
  - by_agree H4.
  - by_agree H5. all: specialize (H5 s p fi n).
    all: match goal with |- snd ?x = _ => destruct x as [[s' r] nt] end; cbn [snd]; congruence.
  - by_agree H6.
  - by_agree H7.
  - by_agree H8.
Qed.

(** ** bundles quoted by Props/C11.v, C12.v, C13.v *)
Lemma c11_source_translation :
  agrees2 gen_record_sent (fun s n => (fst (step s (Sent n)), false)) /\
  agrees3 gen_record_ack (fun s f n => (fst (step s (Ack f n)), notifies s (Ack f n))) /\
  agrees2 gen_cancel (fun s r => (fst (step s (Cancel r)), notifies s (Cancel r))) /\
  agrees2 gen_advance_to_file (fun s f => (fst (step s (Advance f)), true)) /\
  agrees2 gen_set_peer (fun s p => (fst (step s (SetPeer p)), false)) /\
  match gen_wait_for_credit with
  | Some f => forall s len, t_window s < two64 ->
      let '(s', i, nt) := f s len true in
      (s', iter_map out_of_credit i, nt) = (fst (step s (TryCredit len)), Some (snd (step s (TryCredit len))), false)
  | None => True
  end.
Proof.
  exact (conj record_sent_agrees (conj record_ack_agrees (conj cancel_agrees (conj advance_to_file_agrees
        (conj set_peer_agrees wait_for_credit_expired))))).
Qed.

Lemma c13_source_translation :
  match gen_request_resume with
  | Some f => forall s p fi n,
      let '(s', r, nt) := f s p fi n in
      (s', out_of_resume r, nt) = (step s (Resume p fi n), notifies s (Resume p fi n))
  | None => True
  end /\
  agrees5 gen_push_replay (fun s off len lst body => (fst (step s (Push off len lst body)), false)) /\
  match gen_replay_chunks_from with
  | Some f => forall s n, let '(s', cs, nt) := f s n in (s', OChunks cs, nt) = (step s (Replay n), false)
  | None => True
  end /\
  agrees2 gen_ring_covers (fun s o => covers (t_ring s) o) /\
  agrees5 gen_ring_push (fun s off len lst body => ring_push s (mkChunk off len lst body)) /\
  match gen_ring_push with
  | Some f => forall s off len lst body,
      let s' := f s off len lst body in
      (t_cap s' <? t_held s') && (1 <? N.of_nat (length (t_ring s'))) = false
  | None => True
  end /\
  agrees2 gen_ring_replay_from (fun s o => replay_from (t_ring s) o) /\
  agrees1 gen_ring_clear (fun s => mkTc (t_window s) (t_sent s) (t_acked s) (t_file s) (t_cancelled s) [] 0
                                        (t_cap s) (t_peer s) (t_pending s)) /\
  agrees1 gen_ring_highest_end_offset
          (fun s => match t_ring s with [] => None | r => Some (ck_end (last r (mkChunk 0 0 false []))) end).
Proof.
  exact (conj request_resume_agrees (conj push_replay_agrees (conj replay_chunks_from_step (conj ring_covers_agrees
        (conj ring_push_agrees (conj ring_push_fuel_enough (conj ring_replay_from_agrees
        (conj ring_clear_agrees ring_highest_end_offset_agrees)))))))).
Qed.
