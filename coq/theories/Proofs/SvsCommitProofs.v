(** Proofs about the SVS commit model (Model/SvsCommit.v). *)
From RepeV Require Import Model.SvsCommit.
From Coq Require Import ZifyBool ZifyN ZifyNat.
Ltac Zify.zify_post_hook ::= Z.div_mod_to_equations.
Local Open Scope nat_scope.

(** * generic list lemmas *)

Lemma app_eq_firstn {A} (a b l : list A) : a ++ b = l -> a = firstn (length a) l.
Proof.
  intros <-. rewrite firstn_app, Nat.sub_diag, firstn_O, app_nil_r, firstn_all. reflexivity.
Qed.

Lemma prefix_through {A} (x : A) (l1 l2 : list A) : forall pre suf,
  ~ In x l1 -> l1 ++ x :: l2 = pre ++ suf -> In x pre ->
  exists y, pre = l1 ++ x :: y /\ l2 = y ++ suf.
Proof.
  induction l1 as [|a l1 IH]; intros pre suf Hn E Hin.
  - destruct pre as [|b pre]; [destruct Hin|].
    cbn [app] in E. injection E as E1 E2. subst b. exists pre. split; [reflexivity|exact E2].
  - destruct pre as [|b pre]; [destruct Hin|].
    cbn [app] in E. injection E as E1 E2. subst b.
    destruct Hin as [Hx|Hin].
    + exfalso. apply Hn. left. exact Hx.
    + destruct (IH pre suf) as [y [Hy1 Hy2]]; [intros H; apply Hn; right; exact H|exact E2|exact Hin|].
      exists y. split; [cbn [app]; now rewrite Hy1|exact Hy2].
Qed.

Lemma concat_repeat_nil {A} (k : nat) (s : list A) : concat (repeat [] k ++ [s]) = s.
Proof.
  induction k as [|k IH]; cbn [repeat app concat]; [apply app_nil_r|exact IH].
Qed.

Lemma bytes_eqb_eq a : forall b, bytes_eqb a b = true <-> a = b.
Proof.
  induction a as [|x a IH]; intros [|y b]; cbn [bytes_eqb]; split; intros H; try reflexivity; try discriminate.
  - apply andb_true_iff in H as [H1 H2]. apply N.eqb_eq in H1. apply IH in H2. now subst.
  - injection H as -> ->. rewrite N.eqb_refl. cbn [andb]. now apply IH.
Qed.

Lemma optb_eqb_eq a b : optb_eqb a b = true <-> a = b.
Proof.
  destruct a as [a|], b as [b|]; cbn [optb_eqb]; split; intros H; try reflexivity; try discriminate.
  - apply bytes_eqb_eq in H. now subst.
  - injection H as ->. now apply bytes_eqb_eq.
Qed.

Lemma optb_eqb_refl a : optb_eqb a a = true.
Proof. now apply optb_eqb_eq. Qed.

(** * the file system *)

Lemma apply_steps_app l1 l2 s : apply_steps (l1 ++ l2) s = apply_steps l2 (apply_steps l1 s).
Proof. unfold apply_steps. apply fold_left_app. Qed.

Lemma apply_steps_cons st l s : apply_steps (st :: l) s = apply_steps l (apply_step s st).
Proof. reflexivity. Qed.

Lemma dst_step s st : st <> SRename -> f_dst (apply_step s st) = f_dst s.
Proof. destruct st; cbn [apply_step f_dst]; intros H; try reflexivity. congruence. Qed.

(** only a rename changes the destination *)
Lemma dst_preserved l : forall s, ~ In SRename l -> f_dst (apply_steps l s) = f_dst s.
Proof.
  induction l as [|st l IH]; intros s H; [reflexivity|].
  rewrite apply_steps_cons, IH.
  - apply dst_step. intros E. apply H. left. exact E.
  - intros E. apply H. right. exact E.
Qed.

Definition quiet (st : step) : bool :=
  match st with SWrite _ | SFlush | SSync | SProbe _ => true | _ => false end.

Fixpoint writes_of (l : list step) : bytes :=
  match l with
  | [] => []
  | SWrite b :: r => b ++ writes_of r
  | _ :: r => writes_of r
  end.

Definition norn (l : list step) : bool :=
  forallb (fun st => match st with SRename => false | _ => true end) l.

Lemma norn_In l : norn l = true -> ~ In SRename l.
Proof.
  unfold norn. intros H Hin. rewrite forallb_forall in H. specialize (H _ Hin). discriminate.
Qed.

Lemma quiet_norn l : forallb quiet l = true -> norn l = true.
Proof.
  unfold norn. rewrite !forallb_forall. intros H st Hin. specialize (H st Hin). destruct st; try reflexivity; discriminate.
Qed.

Lemma norn_app a b : norn (a ++ b) = norn a && norn b.
Proof. unfold norn. apply forallb_app. Qed.

Lemma writes_of_app a b : writes_of (a ++ b) = writes_of a ++ writes_of b.
Proof.
  induction a as [|st a IH]; [reflexivity|].
  destruct st; cbn [app writes_of]; try exact IH. rewrite IH. apply app_assoc.
Qed.

Lemma writes_of_map ws : writes_of (map SWrite ws) = concat ws.
Proof. induction ws as [|w ws IH]; cbn [map writes_of concat]; [reflexivity|now rewrite IH]. Qed.

Lemma quiet_map ws : forallb quiet (map SWrite ws) = true.
Proof. induction ws as [|w ws IH]; cbn [map forallb quiet andb]; [reflexivity|exact IH]. Qed.

(** steps that only write, flush, sync or probe append their writes to the temp file *)
Lemma quiet_run l : forall d t, forallb quiet l = true ->
  apply_steps l (mkFs d (Some t)) = mkFs d (Some (t ++ writes_of l)).
Proof.
  induction l as [|st l IH]; intros d t H.
  - cbn [writes_of]. rewrite app_nil_r. reflexivity.
  - cbn [forallb] in H. apply andb_true_iff in H as [Hq Hl].
    rewrite apply_steps_cons.
    destruct st; cbn [quiet] in Hq; try discriminate; cbn [apply_step f_dst f_tmp writes_of].
    + rewrite IH by exact Hl. now rewrite app_assoc.
    + now apply IH.
    + now apply IH.
    + now apply IH.
Qed.

(** * TrailerHold *)

Lemma hold_write_spec n hold buf : length hold <= n ->
  concat (fst (hold_write n hold buf)) ++ snd (hold_write n hold buf) = hold ++ buf /\
  length (snd (hold_write n hold buf)) = Nat.min n (length hold + length buf).
Proof.
  intros Hh. unfold hold_write.
  destruct (Nat.leb_spec n (length buf)) as [Hn|Hn].
  - cbn [fst snd]. rewrite concat_app. cbn [concat]. rewrite app_nil_r. split.
    + destruct hold as [|x hold]; cbn [concat]; [|rewrite app_nil_r]; rewrite <- app_assoc, firstn_skipn; reflexivity.
    + rewrite skipn_length. lia.
  - destruct (Nat.ltb_spec n (length (hold ++ buf))) as [Hl|Hl]; cbn [fst snd concat].
    + rewrite app_nil_r, firstn_skipn. split; [reflexivity|].
      rewrite skipn_length. rewrite app_length in *. lia.
    + split; [reflexivity|]. rewrite app_length in *. lia.
Qed.

Lemma hold_run_spec n writes : forall hold, length hold <= n ->
  concat (fst (hold_run n hold writes)) ++ snd (hold_run n hold writes) = hold ++ concat writes /\
  length (snd (hold_run n hold writes)) = Nat.min n (length hold + length (concat writes)).
Proof.
  induction writes as [|w r IH]; intros hold Hh.
  - cbn [hold_run fst snd concat]. rewrite app_nil_r. cbn [length app]. split; [reflexivity|lia].
  - cbn [hold_run].
    pose proof (hold_write_spec n hold w Hh) as [W1 W2].
    destruct (hold_write n hold w) as [o h]. cbn [fst snd] in W1, W2.
    assert (Hh' : length h <= n) by lia.
    pose proof (IH h Hh') as [R1 R2].
    destruct (hold_run n h r) as [o' h']. cbn [fst snd] in *.
    split.
    + rewrite concat_app, <- app_assoc, R1, app_assoc, W1, <- app_assoc. reflexivity.
    + rewrite R2, W2. cbn [concat]. rewrite app_length. lia.
Qed.

(** * the fill phase *)

Lemma deliver_some_spec n hold c : length hold <= n ->
  concat (fst (deliver (Some n) hold c)) ++ snd (deliver (Some n) hold c) = hold ++ c /\
  length (snd (deliver (Some n) hold c)) = Nat.min n (length hold + length c).
Proof.
  intros Hh. destruct c as [|x c].
  - cbn [deliver fst snd concat app length]. rewrite app_nil_r. split; [reflexivity|lia].
  - unfold deliver. now apply hold_write_spec.
Qed.

Lemma fill_some_spec n ps : forall hold, length hold <= n ->
  writes_of (fst (fill (Some n) hold ps)) ++ snd (fill (Some n) hold ps) = hold ++ concat ps /\
  length (snd (fill (Some n) hold ps)) = Nat.min n (length hold + length (concat ps)) /\
  forallb quiet (fst (fill (Some n) hold ps)) = true.
Proof.
  induction ps as [|c r IH]; intros hold Hh.
  - cbn [fill fst snd concat writes_of forallb length app]. rewrite app_nil_r. repeat split. lia.
  - cbn [fill].
    pose proof (deliver_some_spec n hold c Hh) as [D1 D2].
    destruct (deliver (Some n) hold c) as [ws h]. cbn [fst snd] in D1, D2.
    assert (Hh' : length h <= n) by lia.
    pose proof (IH h Hh') as [R1 [R2 R3]].
    destruct (fill (Some n) h r) as [st h']. cbn [fst snd] in *.
    repeat split.
    + cbn [writes_of]. rewrite writes_of_app, writes_of_map, <- app_assoc, R1, app_assoc, D1, <- app_assoc.
      reflexivity.
    + rewrite R2, D2. cbn [concat]. rewrite app_length. lia.
    + cbn [forallb quiet andb]. rewrite forallb_app, quiet_map, R3. reflexivity.
Qed.

Lemma fill_none_spec ps : forall hold,
  writes_of (fst (fill None hold ps)) = concat ps /\
  snd (fill None hold ps) = hold /\
  forallb quiet (fst (fill None hold ps)) = true.
Proof.
  induction ps as [|c r IH]; intros hold.
  - cbn [fill fst snd concat writes_of forallb]. repeat split.
  - cbn [fill].
    assert (D : deliver None hold c = ((match c with [] => [] | _ => [c] end), hold)) by (destruct c; reflexivity).
    rewrite D.
    pose proof (IH hold) as [R1 [R2 R3]].
    destruct (fill None hold r) as [st h']. cbn [fst snd] in *.
    repeat split.
    + cbn [writes_of]. rewrite writes_of_app, writes_of_map, R1. cbn [concat].
      destruct c; cbn [concat]; [reflexivity|now rewrite app_nil_r].
    + exact R2.
    + cbn [forallb quiet andb]. rewrite forallb_app, quiet_map, R3. reflexivity.
Qed.

(** the fill phase and [hold_run] agree: what the model writes to the temp file
    is what TrailerHold forwards for the same sequence of writes *)
Lemma fill_hold_run n ps : forall hold, length hold <= n ->
  writes_of (fst (fill (Some n) hold ps)) = concat (fst (hold_run n hold ps)) /\
  snd (fill (Some n) hold ps) = snd (hold_run n hold ps).
Proof.
  intros hold Hh.
  pose proof (fill_some_spec n ps hold Hh) as [F1 [F2 _]].
  pose proof (hold_run_spec n ps hold Hh) as [H1 H2].
  assert (L : length (writes_of (fst (fill (Some n) hold ps))) = length (concat (fst (hold_run n hold ps)))).
  { apply (f_equal (@length _)) in F1. apply (f_equal (@length _)) in H1.
    rewrite !app_length in *. lia. }
  rewrite <- H1 in F1.
  pose proof (app_eq_firstn _ _ _ F1) as E1.
  rewrite L, firstn_app, Nat.sub_diag, firstn_O, app_nil_r, firstn_all in E1.
  split; [exact E1|].
  rewrite E1 in F1. now apply app_inv_head in F1.
Qed.

(** the content a committed temp file holds *)
Definition stripped (tr : option nat) (l : bytes) : bytes :=
  match tr with Some n => firstn (length l - n) l | None => l end.

Definition short_for (tr : option nat) (l : bytes) : bool :=
  match tr with Some n => length l <? n | None => false end.

Lemma fill_summary tr ps :
  let r := fill tr [] ps in
  forallb quiet (fst r) = true /\
  (match tr with Some n => into_trailer_errors n (snd r) | None => false end) = short_for tr (concat ps) /\
  (short_for tr (concat ps) = false -> writes_of (fst r) = stripped tr (concat ps)).
Proof.
  destruct tr as [n|]; cbn zeta.
  - pose proof (fill_some_spec n ps [] (Nat.le_0_l n)) as [F1 [F2 F3]].
    cbn [app length] in F1, F2. rewrite Nat.add_0_l in F2.
    split; [exact F3|]. unfold into_trailer_errors, short_for, stripped. split.
    + rewrite F2. destruct (Nat.ltb_spec (Nat.min n (length (concat ps))) n), (Nat.ltb_spec (length (concat ps)) n); try reflexivity; lia.
    + intros Hs. apply Nat.ltb_ge in Hs.
      pose proof (app_eq_firstn _ _ _ F1) as E. rewrite E at 1. f_equal.
      apply (f_equal (@length _)) in F1. rewrite app_length in F1. lia.
  - pose proof (fill_none_spec ps []) as [F1 [F2 F3]].
    split; [exact F3|]. split; [reflexivity|]. intros _. exact F1.
Qed.

(** * the protocol *)

Definition content (p : proto) : bytes := concat (pr_pieces p).

Lemma run_head X s0 :
  apply_steps (SCreate :: SProbe PAfterCreate :: X) s0 = apply_steps X (mkFs (f_dst s0) (Some [])).
Proof. reflexivity. Qed.

(** every pull is: create, then steps that only write / flush / sync / probe,
    then either the removal of the temp file (result: error) or the commit
    (result: ok, and then the stream was clean, long enough and accepted, and
    the temp file holds the stripped content) *)
Lemma protocol_cases p :
  exists Q, forallb quiet Q = true /\
    ((snd (protocol p) = RErr /\
      fst (protocol p) = SCreate :: SProbe PAfterCreate :: Q ++ [SRemove]) \/
     (snd (protocol p) = ROk /\ pr_clean p = true /\ pr_reject p = false /\
      short_for (pr_trailer p) (content p) = false /\
      writes_of Q = stripped (pr_trailer p) (content p) /\
      fst (protocol p) = SCreate :: SProbe PAfterCreate :: Q ++ commit_steps)).
Proof.
  unfold protocol, content.
  pose proof (fill_summary (pr_trailer p) (pr_pieces p)) as [Fq [Fs Fw]]. cbn zeta in *.
  destruct (fill (pr_trailer p) [] (pr_pieces p)) as [fsteps held]. cbn [fst snd] in *.
  rewrite Fs. clear Fs.
  assert (Qfin : forallb quiet fin_steps = true) by reflexivity.
  destruct (pr_clean p); cbn [negb].
  - destruct (short_for (pr_trailer p) (concat (pr_pieces p))) eqn:Hs.
    + exists fsteps. split; [exact Fq|]. left. split; reflexivity.
    + destruct (pr_reject p).
      * exists (fsteps ++ fin_steps). split; [rewrite forallb_app, Fq; reflexivity|].
        left. cbn [fst snd]. split; [reflexivity|]. cbn [app]. now rewrite <- app_assoc.
      * exists (fsteps ++ fin_steps). split; [rewrite forallb_app, Fq; reflexivity|].
        right. cbn [fst snd]. repeat split.
        -- rewrite writes_of_app. cbn [fin_steps writes_of]. rewrite app_nil_r. now apply Fw.
        -- cbn [app]. now rewrite <- app_assoc.
  - exists (fsteps ++ [SProbe PFetch] ++
            (if pr_async p && pr_eof_clean p && negb (short_for (pr_trailer p) (concat (pr_pieces p))) then fin_steps else [])).
    split.
    + rewrite !forallb_app, Fq. destruct (pr_async p && pr_eof_clean p && negb _); reflexivity.
    + left. cbn [fst snd]. split; [reflexivity|]. cbn [app]. rewrite <- !app_assoc. reflexivity.
Qed.

Lemma protocol_result p : snd (protocol p) = ROk \/ snd (protocol p) = RErr.
Proof. destruct (protocol_cases p) as [Q [_ [[H _]|[H _]]]]; auto. Qed.

(** an in-process failure: destination unchanged, temp file absent *)
Lemma protocol_failure p s0 :
  snd (protocol p) = RErr -> apply_steps (fst (protocol p)) s0 = mkFs (f_dst s0) None.
Proof.
  intros Hr. destruct (protocol_cases p) as [Q [Hq [[_ E]|[H _]]]]; [|congruence].
  rewrite E, run_head, apply_steps_app, quiet_run by exact Hq. reflexivity.
Qed.

(** success: the destination holds the stripped content, no temp file; and it
    happens only for a clean, long enough, accepted stream *)
Lemma protocol_success p s0 :
  snd (protocol p) = ROk ->
  apply_steps (fst (protocol p)) s0 = mkFs (Some (stripped (pr_trailer p) (content p))) None /\
  pr_clean p = true /\ pr_reject p = false /\ short_for (pr_trailer p) (content p) = false.
Proof.
  intros Hr. destruct (protocol_cases p) as [Q [Hq [[H _]|[_ [Hc [Hj [Hs [Hw E]]]]]]]]; [congruence|].
  repeat split; try assumption.
  rewrite E, run_head, apply_steps_app, quiet_run by exact Hq. cbn [app]. rewrite Hw. reflexivity.
Qed.

(** crash anywhere: after any prefix of the steps the destination is the old
    content if the rename is not in the prefix, and the complete content if it is
    (which only a successful pull ever reaches) *)
Lemma protocol_crash_safe p pre suf s0 :
  fst (protocol p) = pre ++ suf ->
  (~ In SRename pre -> f_dst (apply_steps pre s0) = f_dst s0) /\
  (In SRename pre ->
     f_dst (apply_steps pre s0) = Some (stripped (pr_trailer p) (content p)) /\
     snd (protocol p) = ROk).
Proof.
  intros E. split; [apply dst_preserved|]. intros Hin.
  destruct (protocol_cases p) as [Q [Hq [[_ E1]|[Hr [_ [_ [_ [Hw E1]]]]]]]].
  - exfalso. assert (N : norn (fst (protocol p)) = true).
    { rewrite E1. cbn [norn forallb andb]. fold (norn (Q ++ [SRemove])). rewrite norn_app, (quiet_norn Q Hq). reflexivity. }
    apply norn_In in N. apply N. rewrite E. apply in_or_app. left. exact Hin.
  - split; [|exact Hr].
    assert (E2 : (SCreate :: SProbe PAfterCreate :: Q ++ [SProbe PBeforeRename]) ++ SRename :: [SProbe PAfterRename] = pre ++ suf).
    { rewrite <- E, E1. cbn [app commit_steps]. rewrite <- app_assoc. reflexivity. }
    apply prefix_through in E2; [|clear E2|exact Hin].
    + destruct E2 as [y [-> Hy]].
      rewrite apply_steps_app, run_head, apply_steps_app, quiet_run by exact Hq.
      rewrite apply_steps_cons. cbn [app apply_steps fold_left apply_step f_dst f_tmp].
      rewrite Hw.
      destruct y as [|a y]; [reflexivity|].
      cbn [app] in Hy. injection Hy as <- Hy. symmetry in Hy. apply app_eq_nil in Hy as [-> _]. reflexivity.
    + intros [H|[H|H]]; try discriminate. apply in_app_or in H as [H|[H|[]]]; [|discriminate].
      apply (norn_In Q (quiet_norn Q Hq)). exact H.
Qed.

(** ** kills *)

Lemma probe_eqb_eq a b : probe_eqb a b = true -> a = b.
Proof. destruct a, b; cbn [probe_eqb]; intros H; try reflexivity; discriminate. Qed.

Lemma cut_at_prefix p l : forall n pre, cut_at p n l = Some pre -> exists suf, l = pre ++ SProbe p :: suf.
Proof.
  induction l as [|st l IH]; intros n pre H; [discriminate|].
  cbn [cut_at] in H. destruct (is_hit p st) eqn:Hh.
  - destruct n as [|[|n']]; [discriminate| |].
    + injection H as <-. exists l. destruct st; cbn [is_hit] in Hh; try discriminate.
      apply probe_eqb_eq in Hh. now subst.
    + destruct (cut_at p (S n') l) as [pre'|] eqn:C; [|discriminate]. cbn [option_map] in H. injection H as <-.
      destruct (IH _ _ C) as [suf ->]. exists suf. reflexivity.
  - destruct (cut_at p n l) as [pre'|] eqn:C; [|discriminate]. cbn [option_map] in H. injection H as <-.
    destruct (IH _ _ C) as [suf ->]. exists suf. reflexivity.
Qed.

(** a kill at any probe point other than [svs.after_rename] happens before the rename *)
Lemma kill_before_rename pr p n pre :
  cut_at p n (fst (protocol pr)) = Some pre -> p <> PAfterRename -> ~ In SRename pre.
Proof.
  intros C Hp Hin. destruct (cut_at_prefix _ _ _ _ C) as [suf E].
  destruct (protocol_cases pr) as [Q [Hq [[_ E1]|[_ [_ [_ [_ [_ E1]]]]]]]].
  - assert (N : norn (fst (protocol pr)) = true).
    { rewrite E1. cbn [norn forallb andb]. fold (norn (Q ++ [SRemove])). rewrite norn_app, (quiet_norn Q Hq). reflexivity. }
    apply norn_In in N. apply N. rewrite E. apply in_or_app. left. exact Hin.
  - assert (E2 : (SCreate :: SProbe PAfterCreate :: Q ++ [SProbe PBeforeRename]) ++ SRename :: [SProbe PAfterRename] = pre ++ SProbe p :: suf).
    { rewrite <- E, E1. cbn [app commit_steps]. rewrite <- app_assoc. reflexivity. }
    apply prefix_through in E2; [|clear E2|exact Hin].
    + destruct E2 as [y [_ Hy]]. destruct y as [|a y].
      * cbn [app] in Hy. injection Hy as Hy _. congruence.
      * cbn [app] in Hy. injection Hy as _ Hy. destruct y; discriminate.
    + intros [H|[H|H]]; try discriminate. apply in_app_or in H as [H|[H|[]]]; [|discriminate].
      apply (norn_In Q (quiet_norn Q Hq)). exact H.
Qed.

(** * cases *)

Lemma chunks_fuel_concat n : 1 <= n -> forall fuel l, length l <= fuel -> concat (chunks_fuel fuel n l) = l.
Proof.
  intros Hn. induction fuel as [|f IH]; intros l Hl.
  - destruct l; [reflexivity|cbn [length] in Hl; lia].
  - destruct l as [|x l]; [reflexivity|].
    cbn [chunks_fuel concat]. rewrite IH.
    + apply firstn_skipn.
    + rewrite skipn_length. cbn [length] in *. lia.
Qed.

Lemma wf_chunk c : c10_wf c = true -> 1 <= N.to_nat (c_chunk c).
Proof. unfold c10_wf. intros H. rewrite !andb_true_iff in H. lia. Qed.

Lemma wire_chunks_concat c : c10_wf c = true -> concat (wire_chunks c) = c_wire c.
Proof.
  intros W. unfold wire_chunks.
  pose proof (chunks_fuel_concat _ (wf_chunk c W) (length (c_wire c)) (c_wire c) (Nat.le_refl _)) as E.
  fold (chunks_of (N.to_nat (c_chunk c)) (c_wire c)) in E.
  destruct (chunks_of (N.to_nat (c_chunk c)) (c_wire c)); [|exact E].
  cbn [concat] in *. rewrite app_nil_r. exact E.
Qed.

Lemma nresp_pos c : 1 <= nresp c.
Proof.
  unfold nresp, wire_chunks. destruct (chunks_of _ _); cbn [length]; lia.
Qed.

Lemma pieces_length c : length (pieces c) = nresp c.
Proof.
  unfold pieces. destruct (c_comp c && decompresses (c_puller c)); [|reflexivity].
  rewrite app_length, repeat_length. cbn [length]. pose proof (nresp_pos c). lia.
Qed.

Lemma wf_wire c : c10_wf c = true -> c_comp c = false -> c_wire c = c_stream c.
Proof.
  unfold c10_wf. intros H Hc. rewrite !andb_true_iff in H. rewrite Hc in H. cbn [orb] in H.
  apply bytes_eqb_eq. tauto.
Qed.

Lemma wf_zst c : c10_wf c = true -> c_puller c = PuZstFile -> c_comp c = true.
Proof. unfold c10_wf. intros H Hp. rewrite !andb_true_iff in H. rewrite Hp in H. tauto. Qed.

Lemma wf_trailer0 c : c10_wf c = true -> has_trailer (c_puller c) = false -> c_trailer c = 0%N.
Proof. unfold c10_wf. intros H Hp. rewrite !andb_true_iff in H. rewrite Hp in H. cbn [orb] in H. lia. Qed.

Lemma wf_value c : c10_wf c = true -> is_value (c_puller c) = true -> c_dst c = None.
Proof.
  unfold c10_wf. intros H Hp. rewrite !andb_true_iff in H. rewrite Hp in H. cbn [negb orb] in H.
  destruct (c_dst c); [|reflexivity]. cbn [is_some negb andb] in H. destruct H as [_ H]. discriminate.
Qed.

(** all the pieces together are the complete content before trailer stripping *)
Lemma pieces_concat c : c10_wf c = true ->
  concat (pieces c) = match c_puller c with PuZstFile => c_wire c | _ => c_stream c end.
Proof.
  intros W. unfold pieces.
  destruct (c_comp c) eqn:Hc; cbn [andb].
  - destruct (c_puller c) eqn:Hp; cbn [decompresses]; try apply concat_repeat_nil.
    now apply wire_chunks_concat.
  - rewrite (wire_chunks_concat c W), (wf_wire c W Hc).
    destruct (c_puller c); reflexivity.
Qed.

(** a clean end means every response arrived and no transport fault struck *)
Lemma recv_clean c : snd (recv c) = true ->
  fst (recv c) = nresp c /\
  match c_fault c with FProducer _ => False | FCut j => nresp c <= N.to_nat j | _ => True end.
Proof.
  unfold recv. destruct (c_fault c) as [|k|j| |p n]; cbn [fst snd]; try (intros _; split; [reflexivity|exact I]).
  - discriminate.
  - destruct (Nat.leb_spec (nresp c) (N.to_nat j)); cbn [fst snd]; [intros _; split; [reflexivity|assumption]|discriminate].
Qed.

Lemma proto_of_fields c :
  pr_pieces (proto_of c) = firstn (fst (recv c)) (pieces c) /\
  pr_clean (proto_of c) = snd (recv c) /\
  pr_trailer (proto_of c) = (if has_trailer (c_puller c) then Some (N.to_nat (c_trailer c)) else None) /\
  pr_reject (proto_of c) = (has_verify (c_puller c) && match c_fault c with FReject => true | _ => false end).
Proof. unfold proto_of. destruct (recv c). repeat split. Qed.

Lemma stripped_expected c : c10_wf c = true -> is_value (c_puller c) = false ->
  stripped (if has_trailer (c_puller c) then Some (N.to_nat (c_trailer c)) else None) (concat (pieces c)) = expected c.
Proof.
  intros W V. rewrite (pieces_concat c W). unfold expected, stripped.
  destruct (c_puller c); cbn [has_trailer]; reflexivity.
Qed.

(** what a successful in-process pull implies for the oracle's "must fail" *)
Lemma success_not_must_fail c : c10_wf c = true ->
  snd (recv c) = true ->
  pr_reject (proto_of c) = false ->
  short_for (pr_trailer (proto_of c)) (concat (pieces c)) = false ->
  must_fail c = false.
Proof.
  intros W Hc Hj Hs.
  destruct (proto_of_fields c) as [_ [_ [Ft Fr]]]. rewrite Ft in Hs. rewrite Fr in Hj. clear Ft Fr.
  destruct (recv_clean c Hc) as [_ Hf].
  unfold must_fail. apply orb_false_iff. split.
  - destruct (c_fault c) as [|k|j| |p n]; try reflexivity.
    + destruct Hf.
    + pose proof (nresp_pos c). lia.
    + rewrite andb_true_r in Hj. exact Hj.
  - destruct (has_trailer (c_puller c)) eqn:Ht; [|reflexivity]. cbn [andb].
    unfold short_for in Hs. rewrite (pieces_concat c W) in Hs.
    assert (c_puller c <> PuZstFile) by (intros E; rewrite E in Ht; discriminate).
    destruct (c_puller c); try congruence; lia.
Qed.

(** ** the in-process part of C10_holds *)
Lemma file_inprocess_ok c steps res :
  c10_wf c = true -> is_value (c_puller c) = false ->
  protocol (proto_of c) = (steps, res) ->
  let s := apply_steps steps (mkFs (c_dst c) (c_tmp c)) in
  ok_C10 c (mkObs res (f_dst s) (is_some (f_tmp s))) = true.
Proof.
  intros W V P s. subst s.
  assert (Es : steps = fst (protocol (proto_of c))) by now rewrite P.
  assert (Er : res = snd (protocol (proto_of c))) by now rewrite P.
  destruct (protocol_result (proto_of c)) as [Hr|Hr].
  - destruct (protocol_success (proto_of c) (mkFs (c_dst c) (c_tmp c)) Hr) as [Hfs [Hc [Hj Hs]]].
    rewrite Er, Hr, Es, Hfs. unfold ok_C10. cbn [o_res o_dst o_tmp f_dst f_tmp is_some negb].
    destruct (proto_of_fields c) as [Fp [Fc [Ft _]]].
    rewrite Fc in Hc. destruct (recv_clean c Hc) as [Hn _].
    assert (Ep : pr_pieces (proto_of c) = pieces c).
    { rewrite Fp, Hn. apply firstn_all2. rewrite pieces_length. lia. }
    unfold content in *. rewrite Ep in *.
    rewrite (success_not_must_fail c W Hc Hj Hs). rewrite Ft, (stripped_expected c W V).
    cbn [negb andb]. rewrite andb_true_r. cbn [optb_eqb]. now apply bytes_eqb_eq.
  - rewrite Er, Hr, Es, (protocol_failure _ _ Hr). unfold ok_C10. cbn [o_res o_dst o_tmp f_dst f_tmp is_some negb].
    rewrite optb_eqb_refl. reflexivity.
Qed.

(** ** the kill part *)
Lemma file_killed_ok c p n pre :
  c10_wf c = true -> is_value (c_puller c) = false ->
  c_fault c = FKill p n ->
  cut_at p (N.to_nat n) (fst (protocol (proto_of c))) = Some pre ->
  let s := apply_steps pre (mkFs (c_dst c) (c_tmp c)) in
  ok_C10 c (mkObs RKilled (f_dst s) (is_some (f_tmp s))) = true.
Proof.
  intros W V F C s. subst s. unfold ok_C10. cbn [o_res o_dst o_tmp]. rewrite F.
  destruct (cut_at_prefix _ _ _ _ C) as [suf E].
  destruct (protocol_crash_safe (proto_of c) pre (SProbe p :: suf) (mkFs (c_dst c) (c_tmp c)) E) as [Hno Hyes].
  cbn [f_dst] in Hno.
  destruct (in_dec (fun a b : step => ltac:(decide equality; try apply list_eq_dec; try apply N.eq_dec; decide equality)) SRename pre) as [Hin|Hnin].
  - destruct (Hyes Hin) as [Hd Hr]. rewrite Hd.
    destruct (protocol_success (proto_of c) (mkFs (c_dst c) (c_tmp c)) Hr) as [_ [Hc _]].
    destruct (proto_of_fields c) as [Fp [Fc [Ft _]]].
    rewrite Fc in Hc. destruct (recv_clean c Hc) as [Hn _].
    assert (Ep : pr_pieces (proto_of c) = pieces c).
    { rewrite Fp, Hn. apply firstn_all2. rewrite pieces_length. lia. }
    unfold content. rewrite Ep, Ft, (stripped_expected c W V).
    rewrite (optb_eqb_refl (Some (expected c))), orb_true_r. cbn [andb].
    destruct p; try reflexivity; exfalso; apply (kill_before_rename _ _ _ _ C); try discriminate; exact Hin.
  - rewrite (Hno Hnin), optb_eqb_refl. cbn [orb andb]. destruct p; reflexivity.
Qed.

Lemma run_pull_truncated {V} (v : option V) : run_pull false v = None.
Proof. reflexivity. Qed.

(** ** value pulls *)
Lemma value_ok c : c10_wf c = true -> is_value (c_puller c) = true -> ok_C10 c (model_value c) = true.
Proof.
  intros W V. unfold model_value.
  destruct (recv c) as [r clean] eqn:R.
  assert (Hd : c_dst c = None) by now apply wf_value.
  destruct clean.
  - assert (Hc : snd (recv c) = true) by now rewrite R.
    destruct (recv_clean c Hc) as [Hn Hf]. rewrite R in Hn. cbn [fst] in Hn. subst r.
    rewrite firstn_all2 by (rewrite pieces_length; lia).
    assert (Ev : (if is_async (c_puller c) then run_pull true (Some (concat (pieces c))) else Some (concat (pieces c)))
                 = Some (concat (pieces c))) by (destruct (is_async (c_puller c)); reflexivity).
    rewrite Ev. unfold ok_C10. cbn [o_res o_dst o_tmp negb].
    rewrite (pieces_concat c W).
    assert (Hm : must_fail c = false).
    { unfold must_fail. apply orb_false_iff. split.
      - destruct (c_fault c) as [|k|j| |p n]; try reflexivity.
        + destruct Hf.
        + pose proof (nresp_pos c). lia.
        + destruct (c_puller c); try discriminate; reflexivity.
      - destruct (c_puller c); try discriminate; reflexivity. }
    rewrite Hm. unfold expected.
    destruct (c_puller c); try discriminate; cbn [negb andb optb_eqb]; rewrite andb_true_r; now apply bytes_eqb_eq.
  - assert (Ev : (if is_async (c_puller c) then run_pull false (Some (concat (firstn r (pieces c)))) else None)
                 = @None bytes) by (destruct (is_async (c_puller c)); reflexivity).
    rewrite Ev. unfold ok_C10. cbn [o_res o_dst o_tmp negb]. rewrite Hd. reflexivity.
Qed.

(** a value pull on a truncated stream is an error, whatever the consumer built *)
Lemma value_truncated_errors c : is_value (c_puller c) = true -> snd (recv c) = false ->
  o_res (model_C10 c) = RErr /\ o_dst (model_C10 c) = None.
Proof.
  intros V Hc. unfold model_C10, model_value. rewrite V.
  destruct (recv c) as [r clean]. cbn [snd] in Hc. subst clean.
  destruct (is_async (c_puller c)); split; reflexivity.
Qed.

(** * C10_holds *)
Lemma ok_model_C10 c : c10_wf c = true -> ok_C10 c (model_C10 c) = true.
Proof.
  intros W. unfold model_C10. destruct (is_value (c_puller c)) eqn:V; [now apply value_ok|].
  unfold model_file, run_steps.
  destruct (protocol (proto_of c)) as [steps res] eqn:P.
  pose proof (file_inprocess_ok c steps res W V P) as Hin. cbn zeta in Hin.
  destruct (c_fault c) as [|k|j| |p n] eqn:F; try exact Hin.
  destruct (cut_at p (N.to_nat n) steps) as [pre|] eqn:C; [|exact Hin].
  apply (file_killed_ok c p n pre W V F). now rewrite P.
Qed.

(** * consequences stated on cases *)

Lemma not_killed_steps c : (forall p n, c_fault c <> FKill p n) -> run_steps c = protocol (proto_of c).
Proof.
  intros H. unfold run_steps. destruct (protocol (proto_of c)) as [steps res].
  destruct (c_fault c) as [|k|j| |p n]; try reflexivity. exfalso. now apply (H p n).
Qed.

(** every in-process failure of a file pull leaves the destination as it was and no temp file *)
Lemma case_failure c : is_value (c_puller c) = false ->
  o_res (model_C10 c) = RErr ->
  o_dst (model_C10 c) = c_dst c /\ o_tmp (model_C10 c) = false.
Proof.
  intros V. unfold model_C10, model_file, run_steps. rewrite V.
  destruct (protocol (proto_of c)) as [steps res] eqn:P.
  assert (G : res = RErr ->
    f_dst (apply_steps steps (mkFs (c_dst c) (c_tmp c))) = c_dst c /\
    is_some (f_tmp (apply_steps steps (mkFs (c_dst c) (c_tmp c)))) = false).
  { intros ->. replace steps with (fst (protocol (proto_of c))) by now rewrite P.
    rewrite protocol_failure by now rewrite P. split; reflexivity. }
  destruct (c_fault c) as [|k|j| |p n]; cbn [o_res o_dst o_tmp]; try exact G.
  destruct (cut_at p (N.to_nat n) steps); cbn [o_res o_dst o_tmp]; [discriminate|exact G].
Qed.

(** a reported success published exactly the complete content, and nothing was wrong *)
Lemma case_success c : c10_wf c = true -> is_value (c_puller c) = false ->
  o_res (model_C10 c) = ROk ->
  o_dst (model_C10 c) = Some (expected c) /\ o_tmp (model_C10 c) = false /\ must_fail c = false.
Proof.
  intros W V Hr. pose proof (ok_model_C10 c W) as H. unfold ok_C10 in H. rewrite Hr in H.
  rewrite !andb_true_iff in H. destruct H as [[H1 H2] H3].
  apply optb_eqb_eq in H2. repeat split; [exact H2|now destruct (o_tmp (model_C10 c))|now destruct (must_fail c)].
Qed.

(** whatever must fail does fail *)
Lemma case_must_fail c : c10_wf c = true -> must_fail c = true -> o_res (model_C10 c) <> ROk.
Proof.
  intros W Hm Hr. pose proof (ok_model_C10 c W) as H. unfold ok_C10 in H. rewrite Hr, Hm in H. discriminate.
Qed.

(** the observation of an in-process pull depends on the received content, not
    on how it was cut into pieces *)
Lemma protocol_segmentation_independent p p' s0 :
  concat (pr_pieces p) = concat (pr_pieces p') ->
  pr_clean p = pr_clean p' -> pr_trailer p = pr_trailer p' -> pr_reject p = pr_reject p' ->
  snd (protocol p) = snd (protocol p') /\
  apply_steps (fst (protocol p)) s0 = apply_steps (fst (protocol p')) s0.
Proof.
  intros Ec El Et Ej.
  destruct (protocol_cases p) as [Q [Hq [[Hr E]|[Hr [Hc [Hj [Hs [Hw E]]]]]]]];
  destruct (protocol_cases p') as [Q' [Hq' [[Hr' E']|[Hr' [Hc' [Hj' [Hs' [Hw' E']]]]]]]].
  - split; [congruence|]. rewrite !protocol_failure by assumption. reflexivity.
  - exfalso. clear E E'. revert Hr. unfold protocol, content in *.
    pose proof (fill_summary (pr_trailer p) (pr_pieces p)) as [_ [Fs _]]. cbn zeta in Fs.
    destruct (fill (pr_trailer p) [] (pr_pieces p)) as [fsteps held]. cbn [snd] in Fs. rewrite Fs.
    rewrite El, Hc', Ej, Hj', Et, Ec, Hs'. cbn [negb snd]. discriminate.
  - exfalso. clear E E'. revert Hr'. unfold protocol, content in *.
    pose proof (fill_summary (pr_trailer p') (pr_pieces p')) as [_ [Fs _]]. cbn zeta in Fs.
    destruct (fill (pr_trailer p') [] (pr_pieces p')) as [fsteps held]. cbn [snd] in Fs. rewrite Fs.
    rewrite <- El, Hc, <- Ej, Hj, <- Et, <- Ec, Hs. cbn [negb snd]. discriminate.
  - split; [congruence|].
    destruct (protocol_success p s0 Hr) as [-> _]. destruct (protocol_success p' s0 Hr') as [-> _].
    unfold content. now rewrite Ec, Et.
Qed.

(** * TrailerHold, as stated in the property *)

Lemma trailer_hold_split n writes :
  concat (fst (hold_run n [] writes)) ++ snd (hold_run n [] writes) = concat writes /\
  length (snd (hold_run n [] writes)) = Nat.min n (length (concat writes)).
Proof.
  pose proof (hold_run_spec n writes [] (Nat.le_0_l n)) as [H1 H2].
  cbn [app length] in *. now rewrite Nat.add_0_l in H2.
Qed.

Lemma trailer_hold_committed n writes : n <= length (concat writes) ->
  concat (fst (hold_run n [] writes)) = firstn (length (concat writes) - n) (concat writes) /\
  snd (hold_run n [] writes) = skipn (length (concat writes) - n) (concat writes).
Proof.
  intros Hn. destruct (trailer_hold_split n writes) as [H1 H2].
  set (a := concat (fst (hold_run n [] writes))) in *.
  set (b := snd (hold_run n [] writes)) in *.
  assert (La : length (concat writes) - n = length a).
  { apply (f_equal (@length _)) in H1. rewrite app_length in H1. lia. }
  rewrite La, <- H1. split.
  - rewrite firstn_app, Nat.sub_diag, firstn_O, app_nil_r, firstn_all. reflexivity.
  - rewrite skipn_app, Nat.sub_diag, skipn_all, skipn_O. reflexivity.
Qed.

Lemma short_stream_errors n writes :
  into_trailer_errors n (snd (hold_run n [] writes)) = (length (concat writes) <? n).
Proof.
  destruct (trailer_hold_split n writes) as [_ H2]. unfold into_trailer_errors. rewrite H2.
  destruct (Nat.ltb_spec (Nat.min n (length (concat writes))) n), (Nat.ltb_spec (length (concat writes)) n); try reflexivity; lia.
Qed.
