(** Agreement of the hand-written routing / dispatch model (Model/Route.v) with
    the Gallina renderings of route, route_request_view, dispatch_view and
    dispatch that bin/rs2v regenerates from /repo/src/server_request.rs on every
    run (Gen/RouteGen.v).  The code's decision chain, its notify handling, the
    error code of each rejection and the number of handler calls are the
    model's.  NOT tied: the *texts* of the error responses built from
    [format!] / string literals ([TOpaque]); the statements below hold for the
    model's choice of those texts.  A function that could not be translated is
    [None] and its lemma degrades to [True]. *)
From RepeV Require Import Model.Route Base.GenRoutePrelude Gen.RouteGen.
From RepeV Require Export Proofs.GenAgreeBase.
From Coq Require Import ZifyBool ZifyN ZifyNat.
Ltac Zify.zify_post_hook ::= Z.div_mod_to_equations.

(** ** what the renderings are compared with *)
(** [route], as the code returns it: the model's decision, the notify flag of
    the request, the path (the request's query) and the handler bound to its
    router; the message text dropped *)
Definition route_spec (rt : router) (r : request) : route_outcome :=
  match Route.route rt r with
  | RReject c _ => ROReject (is_notify r) c TOpaque
  | RDispatch m h => RODispatch (rt, (m, h)) (is_notify r) (q_query r)
  end.

(** [dispatch_view] ([View]) / [dispatch] ([Owned]): ONE handler call; a notify
    gets no response whatever the handler returned; otherwise the handler's
    message, or the error response with the code and text of its error *)
Definition dispatch_spec (m : mode) (bh : bound_handler) (r : request) (notify : bool) (e : heff)
  : dres (option gresp) * heff :=
  let '(c, e') := call_handler m bh r e in
  match c with
  | HPanicked => (DUnwind, e')
  | HReturned v =>
      (DRet (if notify then None
             else Some (match v with
                        | ROk p => p
                        | RErr x => GError m r (re_code x) (TText (re_text x))
                        end)), e')
  end.

(** a rendered response as a model response; [txt] stands for an opaque text *)
Definition text_of (txt : list byte) (t : gtext) : list byte :=
  match t with TOpaque => txt | TText s => s end.
Definition resp_of (txt : list byte) (g : gresp) : resp :=
  match g with
  | GHandler p => p
  | GError m r c t => err_resp m r c (text_of txt t)
  end.
(** the text the model puts into the error response of a rejected request *)
Definition reject_text (rt : router) (r : request) : list byte :=
  match Route.route rt r with RReject _ msg => msg | RDispatch _ _ => [] end.

(** [route_request_view]: reject (answer unless notify) or dispatch on the View path *)
Definition route_request_view_spec (rt : router) (r : request) (e : heff) : dres (option gresp) * heff :=
  match Route.route rt r with
  | RReject c _ => (DRet (if is_notify r then None else Some (GError View r c TOpaque)), e)
  | RDispatch m h => dispatch_spec View (rt, (m, h)) r (is_notify r) e
  end.

(** ** tactics: case analysis on every test the two sides make; arithmetic by [lia] *)
Ltac split_tests :=
  repeat (match goal with
          | |- context [if ?b then _ else _] => destruct b eqn:?
          | |- context [match ?o with Some _ => _ | None => _ end] => destruct o as [[? ?]|] eqn:?
          | |- context [match ?o with Some _ => _ | None => _ end] => destruct o eqn:?
          | |- context [match ?o with ROk _ => _ | RErr _ => _ end] => destruct o eqn:?
          | |- context [match ?o with QFRawBinary => _ | QFJsonPointer => _ end] => destruct o eqn:?
          | |- context [match ?o with HReturned _ => _ | HPanicked => _ end] => destruct o eqn:?
          | |- context [match ?o with DRet _ => _ | DUnwind => _ end] => destruct o eqn:?
          | |- context [match ?o with RODispatch _ _ _ => _ | ROReject _ _ _ => _ end] => destruct o eqn:?
          | |- context [let '(_, _) := ?p in _] => destruct p eqn:?
          | H : context [if ?b then _ else _] |- _ => destruct b eqn:?
          | H : context [match ?o with Some _ => _ | None => _ end] |- _ => destruct o eqn:?
          end; cbv beta iota zeta in *; try discriminate).
Ltac done :=
  try reflexivity; try discriminate; try congruence; try (exfalso; lia);
  try (repeat match goal with H : Some _ = Some _ |- _ => inversion H; clear H; subst
                           | H : ROk _ = ROk _ |- _ => inversion H; clear H; subst
                           | H : RErr _ = RErr _ |- _ => inversion H; clear H; subst
                           | H : (_, _) = (_, _) |- _ => inversion H; clear H; subst end;
       try reflexivity; try congruence; try (exfalso; lia); try (repeat f_equal; lia)).

(** ** QueryFormat::try_from: the variant with that discriminant, or the number back *)
Lemma qf_try_from_agrees :
  match gen_qf_try_from with
  | Some f => forall x, f x = match qf_try_from x with Some q => ROk q | None => RErr x end
  | None => True
  end.
Proof.
  gen_start. all: intros x; unfold qf_try_from, QF_RAW_BINARY, QF_JSON_POINTER; cbv zeta.
  all: split_tests; done.
Qed.

(** ** route *)
Lemma route_agrees :
  match gen_route with
  | Some f => forall utf8 rt r, utf8 (q_query r) = o_utf8 r -> f utf8 rt r (q_query r) = route_spec rt r
  | None => True
  end.
Proof.
  pose proof qf_try_from_agrees as Hq.
  gen_start. all: intros utf8 rt r Hu; callee Hq; rewrite ?Hq.
  all: unfold route_spec, Route.route, from_utf8, router_get_bound, qf_try_from, opt_unwrap_or, res_unwrap_or, is_notify,
         REPE_VERSION, QF_RAW_BINARY, QF_JSON_POINTER, EC_VERSION, EC_QUERY, EC_NOTFOUND; cbv zeta; rewrite ?Hu.
  all: destruct (router_get rt (q_query r)) as [[m h]|] eqn:Hg; cbn [option_map].
  all: split_tests; rewrite ?Hg in *; cbn [option_map] in *; done.
Qed.

(** ** dispatch_view, dispatch *)
Lemma dispatch_view_agrees : agrees4 gen_dispatch_view (dispatch_spec View).
Proof.
  gen_start. all: intros bh r notify e; unfold dispatch_spec.
  all: destruct (call_handler View bh r e) as [c e1] eqn:Hc.
  all: repeat (split_tests; rewrite ?Hc in *); done.
Qed.

Lemma dispatch_agrees : agrees4 gen_dispatch (dispatch_spec Owned).
Proof.
  gen_start. all: intros bh r notify e; unfold dispatch_spec.
  all: destruct (call_handler Owned bh r e) as [c e1] eqn:Hc.
  all: repeat (split_tests; rewrite ?Hc in *); done.
Qed.

(** ** route_request_view *)
Lemma route_request_view_agrees :
  match gen_route_request_view with
  | Some f => forall utf8 rt r e, utf8 (q_query r) = o_utf8 r -> f utf8 rt r e = route_request_view_spec rt r e
  | None => True
  end.
Proof.
  pose proof route_agrees as Hr. pose proof dispatch_view_agrees as Hd.
  gen_start. all: intros utf8 rt r e Hu; callee Hr; callee Hd.
  all: rewrite ?(Hr utf8 rt r Hu), ?Hd; unfold route_request_view_spec, route_spec.
  all: destruct (Route.route rt r) as [c msg|m h]; cbv beta iota.
  all: rewrite ?Hd; try (destruct (dispatch_spec View (rt, (m, h)) r (is_notify r) e) as [[o|] e1]; reflexivity).
  all: split_tests; done.
Qed.

(** ** the specifications are the model's steps (statements about Model/Route.v only) *)
Lemma call_handler_eq m rt mount h r e :
  call_handler m (rt, (mount, h)) r e =
  let '(res, n, k) := run_handler m rt mount h r in
  (match res with
   | HOk p => HReturned (ROk (GHandler p))
   | HErr c msg => HReturned (RErr (mkRError c msg))
   | HPanic => HPanicked
   end, mkEff (S (e_calls e)) (e_inv e ++ inv_of h n) (e_mw e + k)).
Proof. reflexivity. Qed.

(** the blocking / async TCP loops and the WebSocket inline arm: [route_request_view], then the
    writer's [finish]; a handler's panic unwinds the connection ("no frame" in the model) *)
Lemma inline_step_is_route_request_view finish rt r :
  let '(d, e) := route_request_view_spec rt r eff0 in
  inline_step finish rt r =
    mkStep (match d with
            | DRet o => option_map (fun g => finish r (resp_of (reject_text rt r) g)) o
            | DUnwind => None
            end) (e_inv e) (e_mw e)
  /\ e_calls e = match Route.route rt r with RDispatch _ _ => 1%nat | RReject _ _ => O end.
Proof.
  unfold route_request_view_spec, inline_step, reject_text, dispatch_spec.
  destruct (Route.route rt r) as [c msg|mount h].
  - cbn [e_inv e_mw e_calls eff0]. destruct (is_notify r); split; reflexivity.
  - rewrite call_handler_eq. destruct (run_handler View rt mount h r) as [[res n] k].
    destruct res as [p|c msg|]; cbn [e_inv e_mw e_calls eff0 app Nat.add];
      destruct (is_notify r); split; reflexivity.
Qed.

(** the WebSocket off-reader arm when a permit is free: [dispatch] on the owned request, the
    caller stamps the query and turns a caught panic into InternalError *)
Lemma offreader_dispatch_is_dispatch rt mount h r :
  o_sat r = false ->
  let '(d, e) := dispatch_spec Owned (rt, (mount, h)) r (is_notify r) eff0 in
  offreader_dispatch rt mount h r =
    mkStep (match d with
            | DRet o => option_map (fun g => finish_stamp r (resp_of [] g)) o
            | DUnwind => if is_notify r then None
                         else Some (finish_stamp r (err_like r EC_INTERNAL msg_panicked))
            end) (e_inv e) (e_mw e)
  /\ e_calls e = 1%nat.
Proof.
  intros Hs. unfold offreader_dispatch, dispatch_spec. rewrite Hs, call_handler_eq.
  destruct (run_handler Owned rt mount h r) as [[res n] k].
  destruct res as [p|c msg|]; cbn [e_inv e_mw e_calls eff0 app Nat.add];
    destruct (is_notify r); split; reflexivity.
Qed.

(** ** the bundle quoted by Props/C03.v *)
Lemma c03_source_translation :
  match gen_qf_try_from with
  | Some f => forall x, f x = match qf_try_from x with Some q => ROk q | None => RErr x end
  | None => True
  end /\
  match gen_route with
  | Some f => forall utf8 rt r, utf8 (q_query r) = o_utf8 r -> f utf8 rt r (q_query r) = route_spec rt r
  | None => True
  end /\
  agrees4 gen_dispatch_view (dispatch_spec View) /\
  agrees4 gen_dispatch (dispatch_spec Owned) /\
  match gen_route_request_view with
  | Some f => forall utf8 rt r e, utf8 (q_query r) = o_utf8 r -> f utf8 rt r e = route_request_view_spec rt r e
  | None => True
  end.
Proof.
  exact (conj qf_try_from_agrees (conj route_agrees (conj dispatch_view_agrees (conj dispatch_agrees route_request_view_agrees)))).
Qed.
