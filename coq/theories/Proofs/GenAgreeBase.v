(** What "the generated rendering agrees with the hand model" means, and the
    tactics shared by Proofs/StreamGenAgree.v and Proofs/FrameGenAgree.v.  A
    function that bin/rs2v could not translate is [None] and its agreement
    statement degrades to [True]. *)
From Coq Require Import List NArith.

Definition agrees1 {A B} (g : option (A -> B)) (m : A -> B) : Prop :=
  match g with Some f => forall a, f a = m a | None => True end.
Definition agrees2 {A B C} (g : option (A -> B -> C)) (m : A -> B -> C) : Prop :=
  match g with Some f => forall a b, f a b = m a b | None => True end.
Definition agrees3 {A B C D} (g : option (A -> B -> C -> D)) (m : A -> B -> C -> D) : Prop :=
  match g with Some f => forall a b c, f a b c = m a b c | None => True end.
Definition agrees4 {A B C D E} (g : option (A -> B -> C -> D -> E)) (m : A -> B -> C -> D -> E) : Prop :=
  match g with Some f => forall a b c d, f a b c d = m a b c d | None => True end.
Definition agrees5 {A B C D E F} (g : option (A -> B -> C -> D -> E -> F)) (m : A -> B -> C -> D -> E -> F) : Prop :=
  match g with Some f => forall a b c d e, f a b c d e = m a b c d e | None => True end.

(** reduce [match gen_X with Some f => P f | None => True end] to [P body_X] with
    [body_X] unfolded, or close the goal when [gen_X] is [None]; every later
    sentence of a proof starts with [all:] so that it is skipped in that case
    (and no proof mentions a [body_X] by name: it may not exist) *)
Ltac gen_start :=
  unfold agrees1, agrees2, agrees3, agrees4, agrees5;
  lazymatch goal with
  | |- match ?g with Some _ => _ | None => _ end =>
      let g' := eval red in g in
      change g with g'; cbv beta iota;
      lazymatch g' with Some ?f => unfold f | _ => idtac end
  end;
  lazymatch goal with |- True => exact I | |- _ => idtac end.
(** use the agreement lemma [H] of a callee (its [gen_] is [Some] here, or the caller would be [None]) *)
Ltac callee H := unfold agrees1, agrees2, agrees3, agrees4, agrees5 in H;
  lazymatch type of H with
  | match ?g with Some _ => _ | None => _ end =>
      let g' := eval red in g in change g with g' in H; cbv beta iota in H
  end.

Ltac by_agree H :=
  lazymatch goal with
  | |- match ?g with Some _ => _ | None => _ end =>
      let g' := eval red in g in
      change g with g' in H; change g with g'; cbv beta iota in H; cbv beta iota
  end;
  lazymatch goal with |- True => exact I | |- _ => intros; try (rewrite H; reflexivity) end.
