(** Proofs about the router model (Model/Router.v): mount matching, lookup
    precedence, relative paths, middleware uniformity, and the oracle. *)
From RepeV Require Import Model.JsonPtr Model.Router Proofs.JsonPtrProofs.
From Coq Require Import ZifyBool ZifyN ZifyNat.

(** * prefixes *)

Lemma strip_prefix_spec pre : forall s r, strip_prefix pre s = Some r <-> s = pre ++ r.
Proof.
  induction pre as [|a pre IH]; intros [|b s] r; cbn [strip_prefix app].
  - split; congruence.
  - split; congruence.
  - split; discriminate.
  - destruct (N.eqb_spec a b) as [E|E].
    + subst b. rewrite IH. split; [intros H; rewrite H; reflexivity|intros H; injection H as H; exact H].
    + split; [discriminate|]. intros H. injection H as H1 H2. congruence.
Qed.

Lemma strip_prefix_app pre r : strip_prefix pre (pre ++ r) = Some r.
Proof. apply strip_prefix_spec. reflexivity. Qed.

Lemma prefix_of_spec a : forall b, prefix_of a b = true <-> exists r, b = a ++ r.
Proof.
  induction a as [|x a IH]; intros [|y b]; cbn [prefix_of app].
  - split; [intros _; exists []; reflexivity|reflexivity].
  - split; [intros _; eexists; reflexivity|reflexivity].
  - split; [discriminate|]. intros [r H]. discriminate.
  - rewrite andb_true_iff, N.eqb_eq, IH. split.
    + intros [E [r H]]. subst. exists r. reflexivity.
    + intros [r H]. injection H as H1 H2. split; [symmetry; exact H1|]. exists r. exact H2.
Qed.

Lemma starts_with_slash_iff s : starts_with_slash s = true <-> exists r, s = 47 :: r.
Proof.
  destruct s as [|c s]; cbn [starts_with_slash].
  - split; [discriminate|]. intros [r H]. discriminate.
  - rewrite N.eqb_eq. split; [intros H; subst; eexists; reflexivity|]. intros [r H]. congruence.
Qed.

Lemma app_cons_ne (pre : str) c r : pre ++ c :: r <> pre.
Proof.
  intros H. apply (f_equal (@length N)) in H. rewrite app_length in H. cbn [length] in H. lia.
Qed.

Lemma matches_nonempty pre p : pre <> [] ->
  matches pre p
  = if str_eqb p pre then true
    else match strip_prefix pre p with Some rest => starts_with_slash rest | None => false end.
Proof. destruct pre; [contradiction|reflexivity]. Qed.

Lemma matches_iff pre p : matches pre p = true <-> covers_prop pre p.
Proof.
  unfold covers_prop. destruct pre as [|a pre'] eqn:Epre.
  - split; [intros _; left; reflexivity|reflexivity].
  - rewrite <- Epre. assert (Hne : pre <> []) by (rewrite Epre; discriminate).
    rewrite (matches_nonempty pre p Hne). split.
    + destruct (str_eqb p pre) eqn:E; [apply str_eqb_eq in E; tauto|].
      destruct (strip_prefix pre p) as [rest|] eqn:E1; [|discriminate].
      intros H. apply starts_with_slash_iff in H as [r H]. subst rest.
      apply strip_prefix_spec in E1. right. right. exists r. exact E1.
    + intros [H|[H|[r H]]]; [contradiction| |].
      * subst p. rewrite str_eqb_refl. reflexivity.
      * destruct (str_eqb p pre); [reflexivity|]. subst p. rewrite strip_prefix_app. reflexivity.
Qed.

Lemma covers_iff pre p : covers pre p = true <-> covers_prop pre p.
Proof.
  unfold covers_prop, covers. destruct pre as [|a pre'] eqn:Epre.
  - split; [intros _; left; reflexivity|reflexivity].
  - rewrite <- Epre. assert (Hne : pre <> []) by (rewrite Epre; discriminate).
    rewrite orb_true_iff, str_eqb_eq, prefix_of_spec. split.
    + intros [H|[r H]]; [tauto|]. rewrite <- app_assoc in H. right. right. exists r. exact H.
    + intros [H|[H|[r H]]]; [contradiction|tauto|]. right. exists r. rewrite <- app_assoc. exact H.
Qed.

Lemma matches_covers pre p : matches pre p = covers pre p.
Proof. apply eq_true_iff_eq. rewrite matches_iff, covers_iff. reflexivity. Qed.

(** a path that continues the prefix without a '/' boundary is not covered *)
Lemma matches_no_boundary pre c r : pre <> [] -> c <> 47 -> matches pre (pre ++ c :: r) = false.
Proof.
  intros Hne Hc. destruct (matches pre (pre ++ c :: r)) eqn:E; [|reflexivity].
  apply matches_iff in E as [H|[H|[r' H]]].
  - contradiction.
  - exfalso. exact (app_cons_ne pre c r H).
  - apply app_inv_head in H. congruence.
Qed.

(** * what a mount makes of a covered path *)

Lemma remaining_app pre r : remaining pre (pre ++ r) = r.
Proof.
  unfold remaining. rewrite skipn_app, skipn_all, Nat.sub_diag. reflexivity.
Qed.

Lemma remaining_self pre : remaining pre pre = [].
Proof. unfold remaining. apply skipn_all. Qed.

Lemma struct_relative_covered pre p :
  matches pre p = true -> struct_relative pre p = Some (remaining pre p).
Proof.
  intros H. apply matches_iff in H. destruct pre as [|a pre'] eqn:Epre; [reflexivity|].
  rewrite <- Epre in *. assert (Hne : pre <> []) by (rewrite Epre; discriminate).
  replace (struct_relative pre p)
    with (if str_eqb p pre then Some []
          else match strip_prefix pre p with
               | Some rest => if starts_with_slash rest then Some rest else None
               | None => None
               end) by (rewrite Epre; reflexivity).
  destruct H as [H|[H|[r H]]]; [contradiction| |].
  - subst p. rewrite str_eqb_refl, remaining_self. reflexivity.
  - destruct (str_eqb p pre) eqn:E.
    + apply str_eqb_eq in E. subst p. exfalso. exact (app_cons_ne pre 47 r E).
    + subst p. rewrite strip_prefix_app, remaining_app. reflexivity.
Qed.

Lemma registry_pointer_covered pre p :
  matches pre p = true ->
  registry_pointer pre p = Some (match remaining pre p with [] => [47] | rel => rel end).
Proof.
  intros H. apply matches_iff in H. destruct pre as [|a pre'] eqn:Epre.
  - unfold remaining. cbn [length skipn registry_pointer]. destruct p; reflexivity.
  - rewrite <- Epre in *. assert (Hne : pre <> []) by (rewrite Epre; discriminate).
    replace (registry_pointer pre p)
      with (if str_eqb p pre then Some [47]
            else match strip_prefix pre p with
                 | Some rest => if starts_with_slash rest then Some rest else None
                 | None => None
                 end) by (rewrite Epre; reflexivity).
    destruct H as [H|[H|[r H]]]; [contradiction| |].
    + subst p. rewrite str_eqb_refl, remaining_self. reflexivity.
    + destruct (str_eqb p pre) eqn:E.
      * apply str_eqb_eq in E. subst p. exfalso. exact (app_cons_ne pre 47 r E).
      * subst p. rewrite strip_prefix_app, remaining_app. reflexivity.
Qed.

(** * normalisation of roots and prefixes *)

Lemma norm_root_shape root : norm_root root = [] \/ exists r, norm_root root = 47 :: r.
Proof.
  destruct root as [|c r]; [left; reflexivity|]. cbn [norm_root].
  destruct (N.eqb_spec c 47) as [E|E].
  - subst c. destruct r; [left; reflexivity|right; eexists; reflexivity].
  - right. eexists. reflexivity.
Qed.

Lemma trim_end_slashes_cons c s :
  trim_end_slashes (c :: s)
  = match trim_end_slashes s with [] => if c =? 47 then [] else [c] | r => c :: r end.
Proof. reflexivity. Qed.

(** a trimmed string does not end in '/' *)
Lemma trim_end_slashes_last s : forall x, trim_end_slashes s <> x ++ [47].
Proof.
  induction s as [|c s IH]; intros x.
  - cbn [trim_end_slashes]. destruct x; discriminate.
  - rewrite trim_end_slashes_cons. destruct (trim_end_slashes s) as [|d r] eqn:E.
    + destruct (N.eqb_spec c 47) as [E1|E1]; [destruct x; discriminate|].
      destruct x as [|y x]; cbn [app]; [congruence|]. destruct x; discriminate.
    + destruct x as [|y x]; cbn [app]; [discriminate|].
      intros H. injection H as H1 H2. exact (IH x H2).
Qed.

(** trimming removes only '/' bytes from the end *)
Lemma trim_end_slashes_spec s : exists k, s = trim_end_slashes s ++ repeat 47 k.
Proof.
  induction s as [|c s [k IH]].
  - exists 0%nat. reflexivity.
  - rewrite trim_end_slashes_cons. destruct (trim_end_slashes s) as [|d r] eqn:E.
    + destruct (N.eqb_spec c 47) as [E1|E1].
      * subst c. exists (S k). cbn [app repeat] in *. rewrite IH at 1. reflexivity.
      * exists k. cbn [app] in *. rewrite IH at 1. reflexivity.
    + exists k. cbn [app] in *. rewrite IH at 1. reflexivity.
Qed.

Lemma norm_root_not_single root a : norm_root root <> [a].
Proof.
  destruct root as [|c r]; [discriminate|]. cbn [norm_root].
  destruct (c =? 47); [destruct r; discriminate|discriminate].
Qed.

(** a registry prefix never ends in '/' *)
Lemma norm_prefix_no_trailing_slash p x : norm_prefix p <> x ++ [47].
Proof.
  unfold norm_prefix. destruct (norm_root p) as [|a [|b r]] eqn:E.
  - destruct x; discriminate.
  - exfalso. exact (norm_root_not_single p a E).
  - apply trim_end_slashes_last.
Qed.

(** ... and differs from the given prefix only by a leading '/' and trailing '/' bytes *)
Lemma norm_prefix_spec p : exists k, norm_root p = norm_prefix p ++ repeat 47 k.
Proof.
  unfold norm_prefix. destruct (norm_root p) as [|a [|b r]] eqn:E.
  - exists 0%nat. reflexivity.
  - exists 0%nat. reflexivity.
  - apply trim_end_slashes_spec.
Qed.

(** * generic list lemmas *)

Lemma find_map {A B} (f : B -> bool) (g : A -> B) l :
  find f (map g l) = option_map g (find (fun x => f (g x)) l).
Proof.
  induction l as [|x l IH]; cbn [map find option_map]; [reflexivity|].
  destruct (f (g x)); [reflexivity|exact IH].
Qed.

Lemma find_ext {A} (f g : A -> bool) l : (forall x, f x = g x) -> find f l = find g l.
Proof.
  intros H. induction l as [|x l IH]; cbn [find]; [reflexivity|]. rewrite H, IH. reflexivity.
Qed.

Lemma find_app {A} (f : A -> bool) l1 l2 :
  find f (l1 ++ l2) = match find f l1 with Some x => Some x | None => find f l2 end.
Proof.
  induction l1 as [|x l1 IH]; cbn [app find]; [reflexivity|]. destruct (f x); [reflexivity|exact IH].
Qed.

Lemma find_none_iff {A} (f : A -> bool) l : find f l = None <-> forall x, In x l -> f x = false.
Proof.
  induction l as [|y l IH]; cbn [find In].
  - split; [intros _ x []|reflexivity].
  - destruct (f y) eqn:E.
    + split; [discriminate|]. intros H. rewrite (H y (or_introl eq_refl)) in E. discriminate.
    + rewrite IH. split; [intros H x [Hx|Hx]; [subst; exact E|exact (H x Hx)]|].
      intros H x Hx. apply H. right. exact Hx.
Qed.

Lemma listN_eqb_refl l : listN_eqb l l = true.
Proof. induction l as [|x l IH]; cbn [listN_eqb]; [reflexivity|]. rewrite N.eqb_refl, IH. reflexivity. Qed.

Lemma listN_eqb_eq a : forall b, listN_eqb a b = true <-> a = b.
Proof.
  induction a as [|x a IH]; intros [|y b]; cbn [listN_eqb]; try (split; [discriminate|discriminate]).
  - split; reflexivity.
  - rewrite andb_true_iff, N.eqb_eq, IH. split.
    + intros [H1 H2]. subst. reflexivity.
    + intros H. inversion H. split; reflexivity.
Qed.

(** * the map of exact routes *)

Lemma map_get_insert m e p :
  map_get (map_insert m e) p = if str_eqb (e_key e) p then Some e else map_get m p.
Proof.
  induction m as [|x m IH]; cbn [map_insert map_get]; [reflexivity|].
  destruct (str_eqb (e_key x) (e_key e)) eqn:E.
  - apply str_eqb_eq in E. cbn [map_get]. rewrite E. destruct (str_eqb (e_key e) p); reflexivity.
  - cbn [map_get]. rewrite IH. destruct (str_eqb (e_key x) p) eqn:E1; [|reflexivity].
    apply str_eqb_eq in E1. subst p. rewrite str_eqb_neq in E.
    destruct (str_eqb (e_key e) (e_key x)) eqn:E2; [|reflexivity].
    apply str_eqb_eq in E2. congruence.
Qed.

Lemma map_get_rebuild mws m p :
  map_get (map (rebuild mws) m) p = option_map (rebuild mws) (map_get m p).
Proof.
  induction m as [|x m IH]; cbn [map map_get option_map]; [reflexivity|].
  change (e_key (rebuild mws x)) with (e_key x). destruct (str_eqb (e_key x) p); [reflexivity|exact IH].
Qed.

Lemma Forall_map_insert (P : entry -> Prop) m e : Forall P m -> P e -> Forall P (map_insert m e).
Proof.
  intros Hm He. induction Hm as [|x m Hx Hm IH]; cbn [map_insert].
  - constructor; [exact He|constructor].
  - destruct (str_eqb (e_key x) (e_key e)); constructor; assumption.
Qed.

(** * histories *)

Lemma mws_of_app a b : mws_of (a ++ b) = mws_of a ++ mws_of b.
Proof.
  induction a as [|o a IH]; cbn [app mws_of]; [reflexivity|].
  destruct o; rewrite IH; reflexivity.
Qed.

Lemma regs_of_app a b : regs_of (a ++ b) = regs_of a ++ regs_of b.
Proof.
  induction a as [|o a IH]; cbn [app regs_of]; [reflexivity|].
  destruct o; rewrite IH; reflexivity.
Qed.

Lemma structs_of_app a b : structs_of (a ++ b) = structs_of a ++ structs_of b.
Proof.
  induction a as [|o a IH]; cbn [app structs_of]; [reflexivity|].
  destruct o; rewrite IH; reflexivity.
Qed.

Lemma last_route_app a b p :
  last_route (a ++ b) p = match last_route b p with Some h => Some h | None => last_route a p end.
Proof.
  induction a as [|o a IH]; cbn [app last_route].
  - destruct (last_route b p); reflexivity.
  - rewrite IH. destruct (last_route b p); [reflexivity|]. reflexivity.
Qed.

Lemma last_route_skip ops1 o ops2 p :
  (forall q h, o <> AddRoute q h) -> last_route (ops1 ++ o :: ops2) p = last_route (ops1 ++ ops2) p.
Proof.
  intros H. rewrite !last_route_app. cbn [last_route]. destruct (last_route ops2 p); [reflexivity|].
  destruct o as [q h| | |]; try reflexivity. exfalso. exact (H q h eq_refl).
Qed.

Lemma last_route_none ops p : (forall h, ~ In (AddRoute p h) ops) -> last_route ops p = None.
Proof.
  induction ops as [|o ops IH]; intros H; cbn [last_route]; [reflexivity|].
  rewrite IH by (intros h Hin; apply (H h); right; exact Hin).
  destruct o as [q h| | |]; try reflexivity.
  destruct (str_eqb q p) eqn:E; [|reflexivity].
  apply str_eqb_eq in E. subst q. exfalso. apply (H h). left. reflexivity.
Qed.

Lemma run_ops_snoc ops o : run_ops (ops ++ [o]) = rstep (run_ops ops) o.
Proof. unfold run_ops. rewrite fold_left_app. reflexivity. Qed.

(** * the state reached by a history *)

Definition mk_mount (mws : list N) (m : str * N) : entry :=
  mkEntry (fst m) (snd m) (wrap (snd m) mws).

Record run_inv (ops : list rop) (r : router) : Prop := mkRunInv {
  ri_mws : r_mws r = mws_of ops;
  ri_regs : r_regs r = map (mk_mount (mws_of ops)) (regs_of ops);
  ri_structs : r_structs r = map (mk_mount (mws_of ops)) (structs_of ops);
  ri_map : forall p, map_get (r_map r) p
                     = option_map (fun h => mkEntry p h (wrap h (mws_of ops))) (last_route ops p);
  ri_map_ok : Forall (fun e => e_disp e = wrap (e_raw e) (mws_of ops)) (r_map r)
}.

Lemma run_inv_empty : run_inv [] router_empty.
Proof. constructor; try reflexivity. constructor. Qed.

Lemma rebuild_mount mws mws' m : rebuild mws' (mk_mount mws m) = mk_mount mws' m.
Proof. reflexivity. Qed.

Lemma run_inv_step ops r o : run_inv ops r -> run_inv (ops ++ [o]) (rstep r o).
Proof.
  intros [Hm Hr Hs Hg Hok]. destruct o as [q h|q h|q h|m].
  - (* AddRoute *)
    assert (Emw : mws_of (ops ++ [AddRoute q h]) = mws_of ops)
      by (rewrite mws_of_app; apply app_nil_r).
    constructor; cbn [rstep r_mws r_regs r_structs r_map]; rewrite ?Emw.
    + exact Hm.
    + rewrite regs_of_app, app_nil_r. exact Hr.
    + rewrite structs_of_app, app_nil_r. exact Hs.
    + intros p. rewrite map_get_insert, last_route_app. cbn [e_key last_route].
      destruct (str_eqb q p) eqn:E.
      * apply str_eqb_eq in E. subst q. cbn [option_map]. rewrite Hm. reflexivity.
      * apply Hg.
    + apply Forall_map_insert; [exact Hok|]. cbn [e_disp e_raw]. rewrite Hm. reflexivity.
  - (* AddRegistry *)
    assert (Emw : mws_of (ops ++ [AddRegistry q h]) = mws_of ops)
      by (rewrite mws_of_app; apply app_nil_r).
    constructor; cbn [rstep r_mws r_regs r_structs r_map]; rewrite ?Emw.
    + exact Hm.
    + rewrite regs_of_app, map_app, Hr, Hm. reflexivity.
    + rewrite structs_of_app, app_nil_r. exact Hs.
    + intros p. rewrite last_route_app. cbn [last_route]. apply Hg.
    + exact Hok.
  - (* AddStruct *)
    assert (Emw : mws_of (ops ++ [AddStruct q h]) = mws_of ops)
      by (rewrite mws_of_app; apply app_nil_r).
    constructor; cbn [rstep r_mws r_regs r_structs r_map]; rewrite ?Emw.
    + exact Hm.
    + rewrite regs_of_app, app_nil_r. exact Hr.
    + rewrite structs_of_app, map_app, Hs, Hm. reflexivity.
    + intros p. rewrite last_route_app. cbn [last_route]. apply Hg.
    + exact Hok.
  - (* AddMw *)
    assert (Emw : mws_of (ops ++ [AddMw m]) = mws_of ops ++ [m]) by (rewrite mws_of_app; reflexivity).
    constructor; cbn [rstep r_mws r_regs r_structs r_map]; rewrite ?Emw, ?Hm.
    + reflexivity.
    + rewrite regs_of_app, app_nil_r, Hr, map_map. apply map_ext. intros x. apply rebuild_mount.
    + rewrite structs_of_app, app_nil_r, Hs, map_map. apply map_ext. intros x. apply rebuild_mount.
    + intros p. rewrite map_get_rebuild, Hg, last_route_app. cbn [last_route].
      destruct (last_route ops p); reflexivity.
    + apply Forall_map. apply Forall_forall. intros e _. reflexivity.
Qed.

Lemma run_inv_holds ops : run_inv ops (run_ops ops).
Proof.
  induction ops as [|o ops IH] using rev_ind; [exact run_inv_empty|].
  rewrite run_ops_snoc. apply run_inv_step. exact IH.
Qed.

(** * middleware uniformity *)

Lemma mw_uniform ops e :
  In e (all_entries (run_ops ops)) -> e_disp e = wrap (e_raw e) (mws_of ops).
Proof.
  destruct (run_inv_holds ops) as [Hm Hr Hs Hg Hok]. unfold all_entries.
  rewrite !in_app_iff. intros [H|[H|H]].
  - rewrite Forall_forall in Hok. exact (Hok e H).
  - rewrite Hr in H. apply in_map_iff in H as [x [Hx _]]. subst e. reflexivity.
  - rewrite Hs in H. apply in_map_iff in H as [x [Hx _]]. subst e. reflexivity.
Qed.

Lemma mws_registered ops : r_mws (run_ops ops) = mws_of ops.
Proof. exact (ri_mws _ _ (run_inv_holds ops)). Qed.

(** * lookup as a function of the history *)

Lemma lookup_spec ops p : lookup (run_ops ops) p = spec_lookup ops p.
Proof.
  destruct (run_inv_holds ops) as [Hm Hr Hs Hg Hok].
  unfold lookup, router_get, spec_lookup. rewrite Hg.
  destruct (last_route ops p) as [h|]; cbn [option_map]; [reflexivity|].
  rewrite Hr, find_map. cbn [mk_mount e_key].
  destruct (find (fun m => matches (fst m) p) (regs_of ops)) as [[pre h]|]; cbn [option_map]; [reflexivity|].
  rewrite Hs, find_map. cbn [mk_mount e_key].
  destruct (find (fun m => matches (fst m) p) (structs_of ops)) as [[pre h]|]; cbn [option_map]; reflexivity.
Qed.

(** * consequences *)

Lemma exact_wins ops1 p h ops2 :
  (forall h', ~ In (AddRoute p h') ops2) ->
  lookup (run_ops (ops1 ++ AddRoute p h :: ops2)) p
  = ARoute h (mws_of (ops1 ++ AddRoute p h :: ops2)).
Proof.
  intros H. rewrite lookup_spec. unfold spec_lookup.
  rewrite last_route_app. cbn [last_route]. rewrite (last_route_none ops2 p H), str_eqb_refl.
  reflexivity.
Qed.

Lemma exact_route_shadows_mounts ops p h :
  In (AddRoute p h) ops -> exists h', lookup (run_ops ops) p = ARoute h' (mws_of ops).
Proof.
  intros H. rewrite lookup_spec. unfold spec_lookup.
  destruct (last_route ops p) as [h'|] eqn:E; [exists h'; reflexivity|].
  exfalso. induction ops as [|o ops IH]; [contradiction|].
  cbn [last_route] in E. destruct (last_route ops p) eqn:E1; [discriminate|].
  destruct H as [H|H]; [|exact (IH H eq_refl)].
  subst o. rewrite str_eqb_refl in E. discriminate.
Qed.

Lemma find_matches_none l p : no_cover l p -> find (fun m => matches (fst m) p) l = None.
Proof.
  intros H. apply find_none_iff. intros m Hm. destruct (matches (fst m) p) eqn:E; [|reflexivity].
  apply matches_iff in E. exfalso. exact (H m Hm E).
Qed.

Lemma registry_receives ops1 raw h ops2 p :
  let ops := ops1 ++ AddRegistry raw h :: ops2 in
  let pre := norm_prefix raw in
  last_route ops p = None -> no_cover (regs_of ops1) p -> covers_prop pre p ->
  lookup (run_ops ops) p
  = AReg h (mws_of ops) (Some (match remaining pre p with [] => [47] | rel => rel end)).
Proof.
  intros ops pre Hl Hn Hc. rewrite lookup_spec. unfold spec_lookup. rewrite Hl.
  unfold ops. rewrite regs_of_app, find_app, (find_matches_none _ _ Hn). cbn [regs_of find fst].
  apply matches_iff in Hc. fold pre. rewrite Hc, (registry_pointer_covered pre p Hc). reflexivity.
Qed.

Lemma registry_ignores ops1 raw h ops2 p :
  ~ covers_prop (norm_prefix raw) p ->
  lookup (run_ops (ops1 ++ AddRegistry raw h :: ops2)) p = lookup (run_ops (ops1 ++ ops2)) p.
Proof.
  intros Hc. rewrite !lookup_spec. unfold spec_lookup.
  rewrite !last_route_app, !mws_of_app, !regs_of_app, !structs_of_app, !find_app.
  cbn [last_route mws_of regs_of structs_of find fst].
  destruct (matches (norm_prefix raw) p) eqn:E; [apply matches_iff in E; contradiction|].
  destruct (last_route ops2 p); reflexivity.
Qed.

Lemma struct_receives ops1 raw h ops2 p :
  let ops := ops1 ++ AddStruct raw h :: ops2 in
  let root := norm_root raw in
  last_route ops p = None -> no_cover (regs_of ops) p -> no_cover (structs_of ops1) p ->
  covers_prop root p ->
  lookup (run_ops ops) p = AStruct h (mws_of ops) (Some (struct_segments (remaining root p))).
Proof.
  intros ops root Hl Hnr Hn Hc. rewrite lookup_spec. unfold spec_lookup. rewrite Hl.
  rewrite (find_matches_none _ _ Hnr).
  unfold ops. rewrite structs_of_app, find_app, (find_matches_none _ _ Hn). cbn [structs_of find fst].
  apply matches_iff in Hc. fold root. rewrite Hc, (struct_relative_covered root p Hc). reflexivity.
Qed.

Lemma struct_ignores ops1 raw h ops2 p :
  ~ covers_prop (norm_root raw) p ->
  lookup (run_ops (ops1 ++ AddStruct raw h :: ops2)) p = lookup (run_ops (ops1 ++ ops2)) p.
Proof.
  intros Hc. rewrite !lookup_spec. unfold spec_lookup.
  rewrite !last_route_app, !mws_of_app, !regs_of_app, !structs_of_app, !find_app.
  cbn [last_route mws_of regs_of structs_of find fst].
  destruct (matches (norm_root raw) p) eqn:E; [apply matches_iff in E; contradiction|].
  destruct (last_route ops2 p); reflexivity.
Qed.

(** ** with distinct handler identities: "is answered by this mount" is an iff *)

Lemma hids_app a b : hids (a ++ b) = hids a ++ hids b.
Proof.
  induction a as [|o a IH]; cbn [app hids]; [reflexivity|]. destruct o; rewrite IH; reflexivity.
Qed.

Lemma last_route_hid ops p h : last_route ops p = Some h -> In h (hids ops).
Proof.
  induction ops as [|o ops IH]; cbn [last_route]; [discriminate|].
  destruct (last_route ops p) as [h'|].
  - intros H. injection H as H. subst h'. specialize (IH eq_refl). destruct o; cbn [hids In]; tauto.
  - destruct o as [q h'| | |]; try discriminate.
    destruct (str_eqb q p); [|discriminate]. intros H. injection H as H. left. exact H.
Qed.

Lemma regs_of_hid ops m : In m (regs_of ops) -> In (snd m) (hids ops).
Proof.
  induction ops as [|o ops IH]; cbn [regs_of]; [contradiction|].
  destruct o; cbn [hids In]; try (intros H; right; exact (IH H)); try exact IH.
  intros [H|H]; [subst m; left; reflexivity|right; exact (IH H)].
Qed.

Lemma structs_of_hid ops m : In m (structs_of ops) -> In (snd m) (hids ops).
Proof.
  induction ops as [|o ops IH]; cbn [structs_of]; [contradiction|].
  destruct o; cbn [hids In]; try (intros H; right; exact (IH H)); try exact IH.
  intros [H|H]; [subst m; left; reflexivity|right; exact (IH H)].
Qed.

Lemma answered_by_hid ops p h : answered_by (lookup (run_ops ops) p) = Some h -> In h (hids ops).
Proof.
  rewrite lookup_spec. unfold spec_lookup.
  destruct (last_route ops p) as [h'|] eqn:E.
  - cbn [answered_by]. intros H. injection H as H. subst h'. exact (last_route_hid ops p h E).
  - destruct (find (fun m => matches (fst m) p) (regs_of ops)) as [[pre h']|] eqn:E1.
    + cbn [answered_by]. intros H. injection H as H. subst h'.
      apply find_some in E1 as [E1 _]. exact (regs_of_hid ops _ E1).
    + destruct (find (fun m => matches (fst m) p) (structs_of ops)) as [[pre h']|] eqn:E2.
      * cbn [answered_by]. intros H. injection H as H. subst h'.
        apply find_some in E2 as [E2 _]. exact (structs_of_hid ops _ E2).
      * discriminate.
Qed.

Lemma nodup_middle (a : list N) h b : NoDup (a ++ h :: b) -> ~ In h (a ++ b).
Proof. intros H. exact (NoDup_remove_2 a b h H). Qed.

Lemma registry_receives_iff ops1 raw h ops2 p :
  let ops := ops1 ++ AddRegistry raw h :: ops2 in
  NoDup (hids ops) ->
  (answered_by (lookup (run_ops ops) p) = Some h
   <-> last_route ops p = None /\ no_cover (regs_of ops1) p /\ covers_prop (norm_prefix raw) p).
Proof.
  intros ops Hnd.
  assert (Hfresh : ~ In h (hids (ops1 ++ ops2))).
  { unfold ops in Hnd. rewrite hids_app in Hnd. cbn [hids] in Hnd. rewrite hids_app. exact (nodup_middle _ _ _ Hnd). }
  split.
  - intros Ha.
    assert (Hc : covers_prop (norm_prefix raw) p).
    { destruct (matches (norm_prefix raw) p) eqn:E; [apply matches_iff; exact E|]. exfalso.
      assert (Hn : ~ covers_prop (norm_prefix raw) p) by (rewrite <- matches_iff; congruence).
      unfold ops in Ha. rewrite (registry_ignores ops1 raw h ops2 p Hn) in Ha.
      exact (Hfresh (answered_by_hid _ _ _ Ha)). }
    assert (Hl : last_route ops p = None).
    { destruct (last_route ops p) as [h'|] eqn:E; [|reflexivity]. exfalso.
      pose proof Ha as Ha'. rewrite lookup_spec in Ha'. unfold spec_lookup in Ha'. rewrite E in Ha'.
      cbn [answered_by] in Ha'. injection Ha' as Ha'. subst h'.
      unfold ops in E. rewrite last_route_skip in E by (intros; discriminate).
      exact (Hfresh (last_route_hid _ _ _ E)). }
    split; [exact Hl|]. split; [|exact Hc].
    intros m Hm Hcm.
    rewrite lookup_spec in Ha. unfold spec_lookup in Ha. rewrite Hl in Ha.
    unfold ops in Ha. rewrite regs_of_app, find_app in Ha.
    destruct (find (fun m => matches (fst m) p) (regs_of ops1)) as [[pre' h']|] eqn:E.
    + cbn [answered_by] in Ha. injection Ha as Ha. subst h'.
      apply find_some in E as [E _]. apply regs_of_hid in E. cbn [snd] in E.
      apply Hfresh. rewrite hids_app, in_app_iff. left. exact E.
    + rewrite find_none_iff in E. specialize (E m Hm). apply matches_iff in Hcm. congruence.
  - intros [Hl [Hn Hc]]. unfold ops. rewrite (registry_receives ops1 raw h ops2 p Hl Hn Hc). reflexivity.
Qed.

Lemma struct_receives_iff ops1 raw h ops2 p :
  let ops := ops1 ++ AddStruct raw h :: ops2 in
  NoDup (hids ops) ->
  (answered_by (lookup (run_ops ops) p) = Some h
   <-> last_route ops p = None /\ no_cover (regs_of ops) p /\ no_cover (structs_of ops1) p /\
       covers_prop (norm_root raw) p).
Proof.
  intros ops Hnd.
  assert (Hfresh : ~ In h (hids (ops1 ++ ops2))).
  { unfold ops in Hnd. rewrite hids_app in Hnd. cbn [hids] in Hnd. rewrite hids_app. exact (nodup_middle _ _ _ Hnd). }
  assert (Hregs : regs_of ops = regs_of (ops1 ++ ops2)).
  { unfold ops. rewrite !regs_of_app. reflexivity. }
  split.
  - intros Ha.
    assert (Hc : covers_prop (norm_root raw) p).
    { destruct (matches (norm_root raw) p) eqn:E; [apply matches_iff; exact E|]. exfalso.
      assert (Hn : ~ covers_prop (norm_root raw) p) by (rewrite <- matches_iff; congruence).
      unfold ops in Ha. rewrite (struct_ignores ops1 raw h ops2 p Hn) in Ha.
      exact (Hfresh (answered_by_hid _ _ _ Ha)). }
    assert (Hl : last_route ops p = None).
    { destruct (last_route ops p) as [h'|] eqn:E; [|reflexivity]. exfalso.
      pose proof Ha as Ha'. rewrite lookup_spec in Ha'. unfold spec_lookup in Ha'. rewrite E in Ha'.
      cbn [answered_by] in Ha'. injection Ha' as Ha'. subst h'.
      unfold ops in E. rewrite last_route_skip in E by (intros; discriminate).
      exact (Hfresh (last_route_hid _ _ _ E)). }
    rewrite lookup_spec in Ha. unfold spec_lookup in Ha. rewrite Hl in Ha.
    destruct (find (fun m => matches (fst m) p) (regs_of ops)) as [[pre' h']|] eqn:Er.
    { exfalso. cbn [answered_by] in Ha. injection Ha as Ha. subst h'.
      apply find_some in Er as [Er _]. rewrite Hregs in Er. apply regs_of_hid in Er. exact (Hfresh Er). }
    split; [exact Hl|]. split.
    { intros m Hm Hcm. rewrite find_none_iff in Er. specialize (Er m Hm). apply matches_iff in Hcm. congruence. }
    split; [|exact Hc].
    intros m Hm Hcm. unfold ops in Ha. rewrite structs_of_app, find_app in Ha.
    destruct (find (fun m => matches (fst m) p) (structs_of ops1)) as [[pre' h']|] eqn:E.
    + cbn [answered_by] in Ha. injection Ha as Ha. subst h'.
      apply find_some in E as [E _]. apply structs_of_hid in E. cbn [snd] in E.
      apply Hfresh. rewrite hids_app, in_app_iff. left. exact E.
    + rewrite find_none_iff in E. specialize (E m Hm). apply matches_iff in Hcm. congruence.
  - intros [Hl [Hnr [Hn Hc]]]. unfold ops. rewrite (struct_receives ops1 raw h ops2 p Hl Hnr Hn Hc). reflexivity.
Qed.

(** * the oracle accepts the model *)

Lemma ok_answer_spec ops p : ok_answer ops p (spec_lookup ops p) = true.
Proof.
  unfold ok_answer, spec_lookup.
  destruct (last_route ops p) as [h|]; [rewrite N.eqb_refl, listN_eqb_refl; reflexivity|].
  rewrite (find_ext (fun m => covers (fst m) p) (fun m => matches (fst m) p))
    by (intros x; symmetry; apply matches_covers).
  destruct (find (fun m => matches (fst m) p) (regs_of ops)) as [[pre h]|] eqn:E.
  - apply find_some in E as [_ E]. cbn [fst] in E.
    rewrite (registry_pointer_covered pre p E), N.eqb_refl, listN_eqb_refl, str_eqb_refl. reflexivity.
  - rewrite (find_ext (fun m => covers (fst m) p) (fun m => matches (fst m) p))
      by (intros x; symmetry; apply matches_covers).
    destruct (find (fun m => matches (fst m) p) (structs_of ops)) as [[pre h]|] eqn:E1; [|reflexivity].
    apply find_some in E1 as [_ E1]. cbn [fst] in E1.
    rewrite (struct_relative_covered pre p E1), N.eqb_refl, listN_eqb_refl. cbn [andb].
    destruct (well_escaped (remaining pre p) && pointer_shaped (remaining pre p)) eqn:Eq; [|reflexivity].
    apply andb_true_iff in Eq as [Hw Hs].
    rewrite (render_struct_segments _ Hw Hs). apply str_eqb_refl.
Qed.

Lemma ok_model_C07 ops paths : ok_C07 ops paths (model_C07 ops paths) = true.
Proof.
  unfold ok_C07, model_C07. induction paths as [|p paths IH]; cbn [map ok_answers]; [reflexivity|].
  rewrite lookup_spec, ok_answer_spec, IH. reflexivity.
Qed.

(** * what the oracle demands, in plain terms *)

Lemma ok_answer_struct_sound ops p h m segs :
  ok_answer ops p (AStruct h m (Some segs)) = true ->
  exists pre, In (pre, h) (structs_of ops) /\ covers_prop pre p /\ m = mws_of ops /\
    (well_escaped (remaining pre p) = true -> pointer_shaped (remaining pre p) = true ->
     render segs = remaining pre p).
Proof.
  unfold ok_answer. destruct (last_route ops p); [discriminate|].
  destruct (find (fun m => covers (fst m) p) (regs_of ops)) as [[pre' h']|]; [discriminate|].
  destruct (find (fun m => covers (fst m) p) (structs_of ops)) as [[pre h']|] eqn:E; [|discriminate].
  apply find_some in E as [E1 E2]. cbn [fst] in E2.
  intros H. apply andb_true_iff in H as [H H3]. apply andb_true_iff in H as [H1 H2].
  apply N.eqb_eq in H1. subst h'. apply listN_eqb_eq in H2.
  exists pre. split; [exact E1|]. split; [apply covers_iff; exact E2|]. split; [exact H2|].
  intros Hw Hs. rewrite Hw, Hs in H3. cbn [andb] in H3. apply str_eqb_eq in H3. exact H3.
Qed.

(** * all-same oracle of the owned/borrowed comparison *)

Lemma all_same_iff r rs : all_same r rs = true <-> forall x, In x rs -> x = r.
Proof.
  induction rs as [|y rs IH]; cbn [all_same In].
  - split; [intros _ x []|reflexivity].
  - rewrite andb_true_iff, str_eqb_eq, IH. split.
    + intros [H1 H2] x [Hx|Hx]; [subst; reflexivity|exact (H2 x Hx)].
    + intros H. split; [apply H; left; reflexivity|]. intros x Hx. apply H. right. exact Hx.
Qed.

Lemma ok_C07_pair_iff rs :
  ok_C07_pair rs = true <-> exists r, rs <> [] /\ forall x, In x rs -> x = r.
Proof.
  destruct rs as [|r rs]; cbn [ok_C07_pair].
  - split; [discriminate|]. intros [r [H _]]. contradiction.
  - rewrite all_same_iff. split.
    + intros H. exists r. split; [discriminate|]. intros x [Hx|Hx]; [subst; reflexivity|exact (H x Hx)].
    + intros [r' [_ H]] x Hx. rewrite (H x (or_intror Hx)). symmetry. apply H. left. reflexivity.
Qed.
