(** The discriminants that the rendered [QueryFormat::V as u16] / [BodyFormat::V as u16]
    stand for (Base/GenVecPrelude.v) are the ones re-read from /repo/src/constants.rs by
    bin/extract-tables (each clause degrades to True when the source could not be parsed). *)
From RepeV Require Import Gen.Tables Proofs.TablesC01 Base.GenVecPrelude.

Lemma c01_format_codes_agree :
  agrees src_QueryFormat_RawBinary QF_RAW_BINARY /\ agrees src_QueryFormat_JsonPointer QF_JSON_POINTER /\
  agrees src_BodyFormat_RawBinary BF_RAW_BINARY /\ agrees src_BodyFormat_Beve BF_BEVE /\
  agrees src_BodyFormat_Json BF_JSON /\ agrees src_BodyFormat_Utf8 BF_UTF8.
Proof. repeat split; vm_compute; first [reflexivity | exact I]. Qed.
