(** Agreement of the hand-written models of frame construction (Model/Message.v:
    [to_vec], [into_wire_bytes], [build], [stamp], [echo_query]) with the Gallina
    rendering that bin/rs2v regenerates from /repo/src/header.rs and
    src/message.rs on every run (Gen/BuildGen.v).  The rendering keeps every
    panicking operation of the Rust text (overflow-checked [+], bounds-checked
    [copy_within] / [copy_from_slice]); where the code adds lengths with
    overflow-checked u64 [+] and the model adds in [N], the statement says
    exactly when they differ (the sum reaches 2^64).  A function that could not
    be translated is [None] and its lemma degrades to [True]. *)
From RepeV Require Import Model.Message Proofs.HeaderProofs Proofs.MessageProofs Base.GenVecPrelude Gen.FrameGen Gen.BuildGen.
From RepeV Require Import Proofs.FrameGenAgree.
From RepeV Require Export Proofs.GenAgreeBase.
From Coq Require Import ZifyBool ZifyN ZifyNat.
Ltac Zify.zify_post_hook ::= Z.div_mod_to_equations.

(** ** the checked Vec operations succeed inside their bounds *)
Lemma copy_chk_ok (buf : list byte) a b src :
  a <= b -> b <= lenN buf -> b - a = lenN src -> copy_chk buf a b src = Ok (overwrite buf (N.to_nat a) src).
Proof. intros H1 H2 H3. unfold copy_chk. replace ((a <=? b) && (b <=? lenN buf) && (b - a =? lenN src)) with true by lia. reflexivity. Qed.

Lemma copy_within_chk_ok (v : list byte) s e d :
  s <= e -> e <= lenN v -> d + (e - s) <= lenN v ->
  copy_within_chk v s e d = Ok (copy_within v (N.to_nat s) (N.to_nat e) (N.to_nat d)).
Proof. intros H1 H2 H3. unfold copy_within_chk. replace ((s <=? e) && (e <=? lenN v) && (d + (e - s) <=? lenN v)) with true by lia. reflexivity. Qed.

Lemma vec_resize_grow (v : list byte) n x :
  lenN v <= n -> vec_resize v n x = v ++ repeat x (N.to_nat n - length v).
Proof.
  intros H. unfold vec_resize. destruct (n <=? lenN v) eqn:E; [|reflexivity].
  assert (Hn : N.to_nat n = length v) by (unfold lenN in *; lia).
  rewrite Hn, firstn_all, Nat.sub_diag. cbn [repeat]. now rewrite app_nil_r.
Qed.

Lemma lenN_app {A} (a b : list A) : lenN (a ++ b) = lenN a + lenN b.
Proof. unfold lenN. rewrite app_length. lia. Qed.
Lemma lenN_repeat {A} (x : A) n : lenN (repeat x n) = N.of_nat n.
Proof. unfold lenN. now rewrite repeat_length. Qed.
Lemma lenN_encode h : lenN (encode h) = 48.
Proof. unfold lenN. now rewrite encode_length. Qed.
Lemma lenN_overwrite (v src : list byte) off :
  (off + length src <= length v)%nat -> lenN (overwrite v off src) = lenN v.
Proof.
  intros H. unfold lenN, overwrite. rewrite !app_length, firstn_length, skipn_length. lia.
Qed.
Lemma lenN_copy_within (v : list byte) s e d :
  (s <= e)%nat -> (e <= length v)%nat -> (d + (e - s) <= length v)%nat -> lenN (copy_within v s e d) = lenN v.
Proof. intros H1 H2 H3. unfold copy_within. apply lenN_overwrite. rewrite slice_length by lia. lia. Qed.
Lemma is_empty_nil {A} (l : list A) : (lenN l =? 0) = match l with [] => true | _ => false end.
Proof. destruct l; reflexivity. Qed.

Ltac split_ifs :=
  repeat (match goal with
          | |- context [if ?b then _ else _] => destruct b eqn:?
          | H : context [if ?b then _ else _] |- _ => destruct b eqn:?
          end; cbv beta iota in *; try discriminate).
(** field updates of a local header / message, innermost first (never by unfolding: the nesting is deep) *)
Lemma set_h_length_mk a0 a1 a2 a3 a4 a5 a6 a7 a8 a9 a10 v : set_h_length (mkHeader a0 a1 a2 a3 a4 a5 a6 a7 a8 a9 a10) v = mkHeader v a1 a2 a3 a4 a5 a6 a7 a8 a9 a10.
Proof. reflexivity. Qed.
Lemma set_h_spec_mk a0 a1 a2 a3 a4 a5 a6 a7 a8 a9 a10 v : set_h_spec (mkHeader a0 a1 a2 a3 a4 a5 a6 a7 a8 a9 a10) v = mkHeader a0 v a2 a3 a4 a5 a6 a7 a8 a9 a10.
Proof. reflexivity. Qed.
Lemma set_h_version_mk a0 a1 a2 a3 a4 a5 a6 a7 a8 a9 a10 v : set_h_version (mkHeader a0 a1 a2 a3 a4 a5 a6 a7 a8 a9 a10) v = mkHeader a0 a1 v a3 a4 a5 a6 a7 a8 a9 a10.
Proof. reflexivity. Qed.
Lemma set_h_notify_mk a0 a1 a2 a3 a4 a5 a6 a7 a8 a9 a10 v : set_h_notify (mkHeader a0 a1 a2 a3 a4 a5 a6 a7 a8 a9 a10) v = mkHeader a0 a1 a2 v a4 a5 a6 a7 a8 a9 a10.
Proof. reflexivity. Qed.
Lemma set_h_reserved_mk a0 a1 a2 a3 a4 a5 a6 a7 a8 a9 a10 v : set_h_reserved (mkHeader a0 a1 a2 a3 a4 a5 a6 a7 a8 a9 a10) v = mkHeader a0 a1 a2 a3 v a5 a6 a7 a8 a9 a10.
Proof. reflexivity. Qed.
Lemma set_h_id_mk a0 a1 a2 a3 a4 a5 a6 a7 a8 a9 a10 v : set_h_id (mkHeader a0 a1 a2 a3 a4 a5 a6 a7 a8 a9 a10) v = mkHeader a0 a1 a2 a3 a4 v a6 a7 a8 a9 a10.
Proof. reflexivity. Qed.
Lemma set_h_qlen_mk a0 a1 a2 a3 a4 a5 a6 a7 a8 a9 a10 v : set_h_qlen (mkHeader a0 a1 a2 a3 a4 a5 a6 a7 a8 a9 a10) v = mkHeader a0 a1 a2 a3 a4 a5 v a7 a8 a9 a10.
Proof. reflexivity. Qed.
Lemma set_h_blen_mk a0 a1 a2 a3 a4 a5 a6 a7 a8 a9 a10 v : set_h_blen (mkHeader a0 a1 a2 a3 a4 a5 a6 a7 a8 a9 a10) v = mkHeader a0 a1 a2 a3 a4 a5 a6 v a8 a9 a10.
Proof. reflexivity. Qed.
Lemma set_h_qfmt_mk a0 a1 a2 a3 a4 a5 a6 a7 a8 a9 a10 v : set_h_qfmt (mkHeader a0 a1 a2 a3 a4 a5 a6 a7 a8 a9 a10) v = mkHeader a0 a1 a2 a3 a4 a5 a6 a7 v a9 a10.
Proof. reflexivity. Qed.
Lemma set_h_bfmt_mk a0 a1 a2 a3 a4 a5 a6 a7 a8 a9 a10 v : set_h_bfmt (mkHeader a0 a1 a2 a3 a4 a5 a6 a7 a8 a9 a10) v = mkHeader a0 a1 a2 a3 a4 a5 a6 a7 a8 v a10.
Proof. reflexivity. Qed.
Lemma set_h_ec_mk a0 a1 a2 a3 a4 a5 a6 a7 a8 a9 a10 v : set_h_ec (mkHeader a0 a1 a2 a3 a4 a5 a6 a7 a8 a9 a10) v = mkHeader a0 a1 a2 a3 a4 a5 a6 a7 a8 a9 v.
Proof. reflexivity. Qed.
Lemma set_m_hdr_mk h q b v : set_m_hdr (mkMessage h q b) v = mkMessage v q b. Proof. reflexivity. Qed.
Lemma set_m_query_mk h q b v : set_m_query (mkMessage h q b) v = mkMessage h v b. Proof. reflexivity. Qed.
Lemma set_m_body_mk h q b v : set_m_body (mkMessage h q b) v = mkMessage h q v. Proof. reflexivity. Qed.
Ltac hdr_norm :=
  repeat (progress (
    rewrite ?set_h_length_mk, ?set_h_spec_mk, ?set_h_version_mk, ?set_h_notify_mk, ?set_h_reserved_mk, ?set_h_id_mk, ?set_h_qlen_mk,
            ?set_h_blen_mk, ?set_h_qfmt_mk, ?set_h_bfmt_mk, ?set_h_ec_mk, ?set_m_hdr_mk, ?set_m_query_mk, ?set_m_body_mk in *;
    cbn [h_length h_spec h_version h_notify h_reserved h_id h_qlen h_blen h_qfmt h_bfmt h_ec m_hdr m_query m_body] in *)).
Ltac len_lia := unfold lenN, HEADER_SIZE, byte in *; lia.
Ltac done :=
  try reflexivity; try discriminate; try congruence; try (exfalso; lia); try (repeat f_equal; lia).

(** ** Header::new *)
Lemma header_new_agrees :
  match gen_header_new with
  | Some f => f = Ok (mkHeader 0 REPE_SPEC REPE_VERSION 0 0 0 0 0 0 0 0)
  | None => True
  end.
Proof. gen_start. all: reflexivity. Qed.

(** ** MessageBuilder::build: the code adds [48 + |q| + |b|] with overflow-checked u64 [+] *)
Lemma build_agrees :
  match gen_build with
  | Some f => forall b,
      f b = if HEADER_SIZE + lenN (b_query b) + lenN (b_body b) <? two64 then Ok (build b) else Panic
  | None => True
  end.
Proof.
  pose proof header_new_agrees as Hn.
  gen_start. all: intros b; callee Hn; rewrite ?Hn; cbn [bind].
  all: hdr_norm.
  all: unfold build, add64, bind, HEADER_SIZE, QF_RAW_BINARY, BF_RAW_BINARY in *; cbv zeta.
  all: destruct (b_notify b); split_ifs; hdr_norm; done.
Qed.

(** ** response_echo_query, stamp_response_query *)
Lemma response_echo_query_agrees :
  match gen_response_echo_query with
  | Some f => forall resp q, f resp q = Ok (echo_query (m_query resp) q)
  | None => True
  end.
Proof.
  gen_start. all: intros resp q; unfold echo_query; rewrite ?is_empty_nil.
  all: destruct (m_query resp); split_ifs; done.
Qed.

(** the code recomputes [48 + |q| + body_length] with overflow-checked u64 [+]; [body_length] is a
    field of the response header (any u64), so the sum can reach 2^64: exactly then the code panics
    (debug profile) where the model adds in [N] *)
Lemma stamp_response_query_agrees :
  match gen_stamp_response_query with
  | Some f => forall resp q,
      f resp q = if (lenN q =? 0) || negb (lenN (m_query resp) =? 0) || (HEADER_SIZE + lenN q + h_blen (m_hdr resp) <? two64)
                 then Ok (stamp resp q) else Panic
  | None => True
  end.
Proof.
  gen_start. all: intros [[a0 a1 a2 a3 a4 a5 a6 a7 a8 a9 a10] rq rb] q; unfold stamp, patch_lengths; rewrite ?is_empty_nil; hdr_norm.
  all: destruct q as [|x q], rq as [|y rq]; cbn [orb negb]; cbv beta iota zeta; try reflexivity.
  all: hdr_norm; unfold add64, bind, HEADER_SIZE in *; split_ifs; hdr_norm; done.
Qed.

(** ** Message::to_vec: [Vec::with_capacity(48 + |q| + |b|)] computes its argument with
    overflow-checked [+]; Header::encode stores the two u8 fields as they are *)
Lemma to_vec_agrees :
  match gen_to_vec with
  | Some f => forall m, h_version (m_hdr m) < 256 -> h_notify (m_hdr m) < 256 ->
      f m = if HEADER_SIZE + lenN (m_query m) + lenN (m_body m) <? two64 then Ok (to_vec m) else Panic
  | None => True
  end.
Proof.
  pose proof encode_agrees as He.
  gen_start. all: intros m Hv Hn; callee He; rewrite ?(He _ Hv Hn); unfold to_vec; rewrite ?is_empty_nil.
  all: unfold add64, bind, HEADER_SIZE in *; cbv zeta; rewrite ?app_nil_l.
  all: destruct (m_query m), (m_body m); split_ifs; rewrite ?app_nil_r, <- ?app_assoc; done.
Qed.

(** ** Message::into_wire_bytes; [cap] is the capacity of the body vector *)
Lemma into_wire_bytes_agrees :
  match gen_into_wire_bytes with
  | Some f => forall cap m, h_version (m_hdr m) < 256 -> h_notify (m_hdr m) < 256 ->
      f cap m = if HEADER_SIZE + lenN (m_query m) + lenN (m_body m) <? two64 then Ok (into_wire_bytes cap m) else Panic
  | None => True
  end.
Proof.
  pose proof encode_agrees as He.
  gen_start. all: intros cap m Hv Hn; callee He; rewrite ?(He _ Hv Hn); unfold into_wire_bytes; rewrite ?is_empty_nil.
  all: cbv zeta.
  all: destruct m as [h q b]; cbn [m_hdr m_query m_body] in *.
  all: pose proof (lenN_encode h) as Hel; set (enc := encode h) in *; clearbody enc; clear He.
  all: unfold add64; cbn [bind].
  all: destruct (HEADER_SIZE + lenN q + lenN b <? two64) eqn:Hsum;
       [ replace (HEADER_SIZE + lenN q <? two64) with true by (unfold HEADER_SIZE in *; lia); cbn [bind];
         rewrite Hsum; cbn [bind]
       | destruct (HEADER_SIZE + lenN q <? two64); cbn [bind]; [rewrite Hsum|]; reflexivity ].
  all: replace (N.of_nat (48 + length q + length b)) with (HEADER_SIZE + lenN q + lenN b) by (unfold HEADER_SIZE, lenN; lia).
  all: destruct (HEADER_SIZE + lenN q + lenN b <=? cap) eqn:Hcap; cbn [bind].
  (* the fresh buffer *)
  all: try (rewrite ?app_nil_l; replace (0 <? lenN b) with (negb (lenN b =? 0)) by lia; rewrite ?is_empty_nil;
            destruct q, b; cbn [negb]; cbv beta iota; rewrite ?app_nil_r, <- ?app_assoc; reflexivity).
  (* in place *)
  all: rewrite vec_resize_grow by lia.
  all: replace (N.to_nat (HEADER_SIZE + lenN q + lenN b) - length b)%nat with (48 + length q + length b - length b)%nat
         by (unfold HEADER_SIZE, lenN; lia).
  all: unfold byte in *; set (v1 := b ++ repeat 0 (48 + length q + length b - length b)) in *.
  all: assert (L1 : lenN v1 = HEADER_SIZE + lenN q + lenN b) by (subst v1; rewrite lenN_app, lenN_repeat; unfold HEADER_SIZE, lenN; lia).
  all: replace (0 <? length b)%nat with (0 <? lenN b) by (unfold lenN; lia).
  all: assert (L2 : lenN (copy_within v1 0 (length b) (48 + length q)) = lenN v1)
         by (apply lenN_copy_within; len_lia).
  all: destruct (0 <? lenN b) eqn:Hb; cbn [bind];
       [ rewrite copy_within_chk_ok by len_lia; cbn [bind];
         replace (N.to_nat 0) with 0%nat by reflexivity; replace (N.to_nat (lenN b)) with (length b) by len_lia;
         replace (N.to_nat (HEADER_SIZE + lenN q)) with (48 + length q)%nat by len_lia;
         set (v2 := copy_within v1 0 (length b) (48 + length q)) in *
       | set (v2 := v1) in * ].
  all: assert (L3 : lenN v2 = HEADER_SIZE + lenN q + lenN b) by (subst v2; len_lia).
  all: rewrite copy_chk_ok by len_lia; cbn [bind].
  all: replace (N.to_nat 0) with 0%nat by reflexivity.
  all: assert (L4 : lenN (overwrite v2 0 enc) = lenN v2) by (apply lenN_overwrite; len_lia).
  all: destruct q as [|x q]; cbn [negb]; cbv beta iota; [reflexivity|].
  all: rewrite copy_chk_ok by len_lia; cbn [bind].
  all: reflexivity.
Qed.

(** ** the bundle quoted by Props/C01.v: the clauses of Proofs/FrameGenAgree.v, then the frame constructors *)
Lemma c01_source_translation_build :
  agrees1 gen_decode decode /\
  match gen_encode with
  | Some f => forall h, h_version h < 256 -> h_notify h < 256 -> f h = Ok (encode h)
  | None => True
  end /\
  match gen_msg_new with
  | Some f => forall h q b,
      f h q b = if HEADER_SIZE + lenN q + lenN b <? two64 then msg_new h q b else Panic
  | None => True
  end /\
  agrees1 gen_from_slice from_slice /\
  agrees1 gen_from_slice_exact from_slice_exact /\
  match gen_header_new with
  | Some f => f = Ok (mkHeader 0 REPE_SPEC REPE_VERSION 0 0 0 0 0 0 0 0)
  | None => True
  end /\
  match gen_to_vec with
  | Some f => forall m, h_version (m_hdr m) < 256 -> h_notify (m_hdr m) < 256 ->
      f m = if HEADER_SIZE + lenN (m_query m) + lenN (m_body m) <? two64 then Ok (to_vec m) else Panic
  | None => True
  end /\
  match gen_into_wire_bytes with
  | Some f => forall cap m, h_version (m_hdr m) < 256 -> h_notify (m_hdr m) < 256 ->
      f cap m = if HEADER_SIZE + lenN (m_query m) + lenN (m_body m) <? two64 then Ok (into_wire_bytes cap m) else Panic
  | None => True
  end /\
  match gen_build with
  | Some f => forall b,
      f b = if HEADER_SIZE + lenN (b_query b) + lenN (b_body b) <? two64 then Ok (build b) else Panic
  | None => True
  end /\
  match gen_stamp_response_query with
  | Some f => forall resp q,
      f resp q = if (lenN q =? 0) || negb (lenN (m_query resp) =? 0) || (HEADER_SIZE + lenN q + h_blen (m_hdr resp) <? two64)
                 then Ok (stamp resp q) else Panic
  | None => True
  end /\
  match gen_response_echo_query with
  | Some f => forall resp q, f resp q = Ok (echo_query (m_query resp) q)
  | None => True
  end.
Proof.
  exact (conj decode_agrees (conj encode_agrees (conj msg_new_agrees (conj from_slice_agrees (conj from_slice_exact_agrees
        (conj header_new_agrees (conj to_vec_agrees (conj into_wire_bytes_agrees (conj build_agrees
        (conj stamp_response_query_agrees response_echo_query_agrees)))))))))).
Qed.
