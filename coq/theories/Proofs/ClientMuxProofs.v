(** Proofs about the client multiplexing model (Model/ClientMux.v). *)
From RepeV Require Import Model.ClientMux Proofs.PeersProofs.
From Coq Require Import ZifyBool ZifyN ZifyNat.
Ltac Zify.zify_post_hook ::= Z.div_mod_to_equations.

Ltac simp_m := cbn [m_next m_pending m_issued m_wire m_matched m_out m_sub m_dropped] in *.

(** * association lists *)

Lemma assoc_fun {V} (l : list (N * V)) k v v' :
  NoDup (map fst l) -> In (k, v) l -> In (k, v') l -> v = v'.
Proof.
  intros ND H1 H2. apply (In_aget l k v ND) in H1. apply (In_aget l k v' ND) in H2. congruence.
Qed.

Lemma assoc_inj (l : list (N * N)) k k' v :
  NoDup (map snd l) -> In (k, v) l -> In (k', v) l -> k = k'.
Proof.
  induction l as [|[k0 v0] l IH]; cbn [map snd In]; intros ND H1 H2; [contradiction|].
  inversion ND as [|x xs Hnot ND']; subst x xs.
  destruct H1 as [H1|H1], H2 as [H2|H2].
  - congruence.
  - inversion H1; subst k0 v0. exfalso. apply Hnot. apply (in_map snd) in H2. exact H2.
  - inversion H2; subst k0 v0. exfalso. apply Hnot. apply (in_map snd) in H1. exact H1.
  - exact (IH ND' H1 H2).
Qed.

Lemma aset_fresh {V} (l : list (N * V)) k v : aget l k = None -> aset l k v = l ++ [(k, v)].
Proof.
  induction l as [|[k0 v0] l IH]; cbn [aget aset app]; [reflexivity|].
  destruct (k0 =? k); [discriminate|]. intros H. rewrite (IH H). reflexivity.
Qed.

Lemma In_adel {V} (l : list (N * V)) k k' v :
  In (k', v) (adel l k) <-> k' <> k /\ In (k', v) l.
Proof.
  induction l as [|[k0 v0] l IH]; cbn [adel In]; [tauto|].
  destruct (N.eqb_spec k0 k) as [E|E].
  - subst k0. rewrite IH. split; [tauto|]. intros [H1 [H2|H2]]; [inversion H2; congruence|tauto].
  - cbn [In]. rewrite IH. split.
    + intros [H|H]; [inversion H; subst; tauto|tauto].
    + tauto.
Qed.

Lemma aget_Some_fst {V} (l : list (N * V)) k v : aget l k = Some v -> In k (map fst l).
Proof. intros H. apply aget_Some_In in H. apply (in_map fst) in H. exact H. Qed.

Lemma aget_not_None {V} (l : list (N * V)) k : aget l k <> None <-> In k (map fst l).
Proof.
  split.
  - intros H. destruct (aget l k) eqn:E; [|congruence]. eapply aget_Some_fst; eassumption.
  - intros H E. apply aget_None in E. tauto.
Qed.

Lemma isSome_true {A} (o : option A) : isSome o = true <-> o <> None.
Proof. destruct o; cbn; split; congruence. Qed.
Lemma isSome_false {A} (o : option A) : isSome o = false <-> o = None.
Proof. destruct o; cbn; split; congruence. Qed.

(** * the invariant *)

Record Inv (ws : bool) (s : mux) : Prop := mkInv {
  I_next : 1 <= m_next s;
  I_small : m_next s < two64;
  I_iss_c : NoDup (map fst (m_issued s));
  I_pend_nd : NoDup (map fst (m_pending s));
  I_pend_iss : forall id c, In (id, c) (m_pending s) ->
      In (c, id) (m_issued s) /\ aget (m_out s) c = None /\ (forall f, m_matched s <> Some (c, f));
  I_wire : forall c id, In (c, id) (m_wire s) -> In (c, id) (m_issued s);
  I_wire_nd : NoDup (map fst (m_wire s));
  I_match : forall c f, m_matched s = Some (c, f) ->
      In (c, f_id f) (m_issued s) /\ (ws = true -> f_notify f = 0);
  I_out_nd : NoDup (map fst (m_out s));
  I_out : forall c f, In (c, OGot f) (m_out s) ->
      In (c, f_id f) (m_issued s) /\ (ws = true -> f_notify f = 0);
  I_live : forall c id, In (c, id) (m_issued s) -> aget (m_out s) c = None ->
      aget (m_pending s) id = Some c \/ exists f, m_matched s = Some (c, f)
}.

Lemma Inv0 ws : Inv ws mux0.
Proof.
  constructor; cbn; try constructor; try (intros; contradiction); try (intros; discriminate); try lia; try reflexivity.
Qed.

Lemma deliver_matched s : m_matched (deliver s) = None.
Proof.
  unfold deliver. destruct (m_matched s) as [[c f]|] eqn:M; [|exact M].
  destruct (aget (m_out s) c); reflexivity.
Qed.

Lemma Inv_deliver ws s : Inv ws s -> Inv ws (deliver s).
Proof.
  intros HI. unfold deliver. destruct (m_matched s) as [[c f]|] eqn:M; [|exact HI].
  destruct HI as [H1 H2 H3 H6 H7 H8 H9 H10 H11 H12 H14].
  destruct (aget (m_out s) c) as [o|] eqn:O.
  - constructor; simp_m; try assumption.
    + intros id c' Hin. destruct (H7 id c' Hin) as [A [B C]]. repeat split; try assumption. discriminate.
    + intros c' f' Hm. discriminate.
    + intros c' id Hin Ho. destruct (H14 c' id Hin Ho) as [A|[f' A]]; [left; exact A|].
      rewrite M in A. inversion A; subst c' f'. congruence.
  - assert (Hc : forall id c', In (id, c') (m_pending s) -> c' <> c).
    { intros id c' Hin E. subst c'. destruct (H7 id c Hin) as [_ [_ C]]. exact (C f M). }
    constructor; simp_m; try assumption.
    + intros id c' Hin. destruct (H7 id c' Hin) as [A [B C]]. repeat split; try assumption.
      * rewrite aget_app, B. cbn [aget]. destruct (N.eqb_spec c c') as [E|E]; [|reflexivity].
        exfalso. apply (Hc id c' Hin). congruence.
      * discriminate.
    + intros c' f' Hm. discriminate.
    + rewrite map_app. cbn [map fst]. apply NoDup_snoc; [assumption|]. apply aget_None. exact O.
    + intros c' f' Hin. apply in_app_or in Hin. destruct Hin as [Hin|[Hin|[]]]; [exact (H12 c' f' Hin)|].
      inversion Hin; subst c' f'. exact (H10 c f M).
    + intros c' id Hin Ho. rewrite aget_app in Ho. destruct (aget (m_out s) c') eqn:E; [discriminate|].
      cbn [aget] in Ho. destruct (N.eqb_spec c c') as [E1|E1]; [discriminate|].
      destruct (H14 c' id Hin E) as [A|[f' A]]; [left; exact A|]. congruence.
Qed.

Lemma Inv_route ws s f : Inv ws s -> m_matched s = None -> Inv ws (route ws s f).
Proof.
  intros [H1 H2 H3 H6 H7 H8 H9 H10 H11 H12 H14] M.
  unfold route. destruct (ws && negb (f_notify f =? 0)) eqn:E.
  - constructor; simp_m; assumption.
  - destruct (aget (m_pending s) (f_id f)) as [c|] eqn:P; [|constructor; simp_m; assumption].
    pose proof (aget_Some_In _ _ _ P) as Pin. destruct (H7 _ _ Pin) as [A [B C]].
    constructor; simp_m; try assumption.
    + apply NoDup_adel. assumption.
    + intros id c' Hin. apply In_adel in Hin. destruct Hin as [Hne Hin].
      destruct (H7 id c' Hin) as [A' [B' C']]. repeat split; try assumption.
      intros f' Hm. inversion Hm; subst c' f'. apply Hne. exact (assoc_fun _ _ _ _ H3 A' A).
    + intros c' f' Hm. inversion Hm; subst c' f'. split; [exact A|].
      intros Hw. subst ws. cbn [andb] in E. apply negb_false_iff, N.eqb_eq in E. exact E.
    + intros c' id Hin Ho. destruct (H14 c' id Hin Ho) as [A'|[f' A']]; [|congruence].
      destruct (N.eqb_spec (f_id f) id) as [E1|E1].
      * right. subst id. rewrite P in A'. inversion A'; subst c'. exists f. reflexivity.
      * left. rewrite aget_adel. destruct (N.eqb_spec (f_id f) id); [contradiction|exact A'].
Qed.

(** a caller without a pending entry ends (refused, a forwarded notify, or a
    give-up whose entry is no longer its own) *)
Lemma Inv_out_only ws s c o nx :
  Inv ws s -> (forall id, ~ In (id, c) (m_pending s)) -> aget (m_out s) c = None -> (forall f, o <> OGot f) ->
  1 <= nx -> nx < two64 ->
  Inv ws (mkMux nx (m_pending s) (m_issued s) (m_wire s) (m_matched s) (m_out s ++ [(c, o)]) (m_sub s) (m_dropped s)).
Proof.
  intros [H1 H2 H3 H6 H7 H8 H9 H10 H11 H12 H14] Hnp Ho Hno Hn1 Hn2.
  constructor; simp_m; try assumption.
  - intros id c' Hin. destruct (H7 id c' Hin) as [A [B C]]. repeat split; try assumption.
    rewrite aget_app, B. cbn [aget]. destruct (N.eqb_spec c c') as [E|E]; [|reflexivity].
    subst c'. exfalso. exact (Hnp id Hin).
  - rewrite map_app. cbn [map fst]. apply NoDup_snoc; [assumption|]. apply aget_None. exact Ho.
  - intros c' f' Hin. apply in_app_or in Hin. destruct Hin as [Hin|[Hin|[]]]; [exact (H12 c' f' Hin)|].
    inversion Hin. exfalso. eapply Hno. eauto.
  - intros c' id' Hin Ho'. rewrite aget_app in Ho'. destruct (aget (m_out s) c') eqn:E; [discriminate|].
    exact (H14 c' id' Hin E).
Qed.

Lemma unissued_not_pending ws s c : Inv ws s -> aget (m_issued s) c = None -> forall id, ~ In (id, c) (m_pending s).
Proof.
  intros HI Hi id Hin. destruct (I_pend_iss _ _ HI _ _ Hin) as [A _].
  apply aget_None in Hi. apply Hi. apply (in_map fst) in A. exact A.
Qed.

Lemma Inv_finish ws s c id o :
  Inv ws s -> aget (m_issued s) c = Some id -> aget (m_out s) c = None -> (forall f, o <> OGot f) ->
  Inv ws (finish s c o).
Proof.
  intros HI Hi Ho Hno. unfold finish. rewrite Hi. pose proof (aget_Some_In _ _ _ Hi) as Iin.
  assert (Hown : forall id', In (id', c) (m_pending s) -> aget (m_pending s) id = Some c).
  { intros id' Hin. destruct (I_pend_iss _ _ HI _ _ Hin) as [A _].
    assert (id' = id) by exact (assoc_fun _ _ _ _ (I_iss_c _ _ HI) A Iin). subst id'.
    exact (In_aget _ _ _ (I_pend_nd _ _ HI) Hin). }
  destruct (aget (m_pending s) id) as [c0|] eqn:P; [destruct (N.eqb_spec c0 c) as [E0|E0]|].
  - subst c0. destruct HI as [H1 H2 H3 H6 H7 H8 H9 H10 H11 H12 H14].
    constructor; simp_m; try assumption.
    + apply NoDup_adel. assumption.
    + intros id' c' Hin. apply In_adel in Hin. destruct Hin as [Hne Hin].
      destruct (H7 id' c' Hin) as [A [B C]]. repeat split; try assumption.
      rewrite aget_app, B. cbn [aget]. destruct (N.eqb_spec c c') as [E|E]; [|reflexivity].
      subst c'. exfalso. apply Hne. exact (assoc_fun _ _ _ _ H3 A Iin).
    + rewrite map_app. cbn [map fst]. apply NoDup_snoc; [assumption|]. apply aget_None. exact Ho.
    + intros c' f' Hin. apply in_app_or in Hin. destruct Hin as [Hin|[Hin|[]]]; [exact (H12 c' f' Hin)|].
      inversion Hin. exfalso. eapply Hno. eauto.
    + intros c' id' Hin Ho'. rewrite aget_app in Ho'. destruct (aget (m_out s) c') eqn:E; [discriminate|].
      cbn [aget] in Ho'. destruct (N.eqb_spec c c') as [E1|E1]; [discriminate|].
      destruct (H14 c' id' Hin E) as [A|A]; [|right; exact A]. left.
      rewrite aget_adel. destruct (N.eqb_spec id id') as [E2|E2]; [|exact A].
      subst id'. exfalso. apply E1. congruence.
  - apply (Inv_out_only ws s c o (m_next s) HI); try assumption; try exact (I_next _ _ HI); try exact (I_small _ _ HI).
    intros id' Hin. specialize (Hown id' Hin). congruence.
  - apply (Inv_out_only ws s c o (m_next s) HI); try assumption; try exact (I_next _ _ HI); try exact (I_small _ _ HI).
    intros id' Hin. specialize (Hown id' Hin). congruence.
Qed.

(** an accepted registration of caller c under the id [id] (counter-issued or
    caller-supplied; the id may have been used before, it only must not be pending) *)
Lemma Inv_register ws s c id nx :
  Inv ws s -> aget (m_issued s) c = None -> aget (m_out s) c = None ->
  aget (m_pending s) id = None -> 1 <= nx -> nx < two64 ->
  Inv ws (mkMux nx (aset (m_pending s) id c)
            (m_issued s ++ [(c, id)]) (m_wire s) (m_matched s) (m_out s) (m_sub s) (m_dropped s)).
Proof.
  intros [H1 H2 H3 H6 H7 H8 H9 H10 H11 H12 H14] Hc Ho Pn Hn1 Hn2.
  rewrite (aset_fresh _ _ _ Pn).
  assert (Hnc : ~ In c (map fst (m_issued s))) by (apply aget_None; exact Hc).
  constructor; simp_m; try assumption.
  - rewrite map_app. cbn [map fst]. apply NoDup_snoc; assumption.
  - rewrite map_app. cbn [map fst]. apply NoDup_snoc; [assumption|]. apply aget_None. exact Pn.
  - intros id' c' Hin. apply in_app_or in Hin. destruct Hin as [Hin|[Hin|[]]].
    + destruct (H7 id' c' Hin) as [A [B C]]. repeat split; try assumption. apply in_or_app. left. exact A.
    + inversion Hin; subst id' c'. repeat split.
      * apply in_or_app. right. left. reflexivity.
      * exact Ho.
      * intros f Hm. destruct (H10 c f Hm) as [A _]. apply Hnc. apply (in_map fst) in A. exact A.
  - intros c' id' Hin. apply in_or_app. left. exact (H8 c' id' Hin).
  - intros c' f Hm. destruct (H10 c' f Hm) as [A B]. split; [apply in_or_app; left; exact A|exact B].
  - intros c' f Hin. destruct (H12 c' f Hin) as [A B]. split; [apply in_or_app; left; exact A|exact B].
  - intros c' id' Hin Ho'. apply in_app_or in Hin. destruct Hin as [Hin|[Hin|[]]].
    + destruct (H14 c' id' Hin Ho') as [A|A]; [|right; exact A]. left. rewrite aget_app, A. reflexivity.
    + inversion Hin; subst c' id'. left. rewrite aget_app, Pn. cbn [aget]. rewrite N.eqb_refl. reflexivity.
Qed.

Lemma Inv_write ws s c id :
  Inv ws s -> aget (m_issued s) c = Some id -> aget (m_wire s) c = None ->
  Inv ws (mkMux (m_next s) (m_pending s) (m_issued s) (m_wire s ++ [(c, id)]) (m_matched s)
                (m_out s) (m_sub s) (m_dropped s)).
Proof.
  intros [H1 H2 H3 H6 H7 H8 H9 H10 H11 H12 H14] Hi Hw.
  constructor; simp_m; try assumption.
  - intros c' id' Hin. apply in_app_or in Hin. destruct Hin as [Hin|[Hin|[]]]; [exact (H8 c' id' Hin)|].
    inversion Hin; subst c' id'. apply aget_Some_In. exact Hi.
  - rewrite map_app. cbn [map fst]. apply NoDup_snoc; [assumption|]. apply aget_None. exact Hw.
Qed.

Lemma enabled_new s c :
  negb (isSome (aget (m_issued s) c)) && negb (isSome (aget (m_out s) c)) = true ->
  aget (m_issued s) c = None /\ aget (m_out s) c = None.
Proof.
  intros En. apply andb_true_iff in En. destruct En as [E1 E2].
  apply negb_true_iff, isSome_false in E1. apply negb_true_iff, isSome_false in E2. tauto.
Qed.

Lemma Inv_step ws s st :
  Inv ws s -> m_next s + 1 < two64 -> Inv ws (mstep ws s st).
Proof.
  intros HI Hb. unfold mstep. destruct (enabled s st) eqn:En; cbn [negb]; [|exact HI].
  pose proof (I_next _ _ HI) as Hn1.
  assert (Hmod : (m_next s + 1) mod two64 = m_next s + 1) by (apply N.mod_small; exact Hb).
  destruct st as [c|c|f|a| |c|c|c id|c]; cbn [enabled] in En.
  - apply enabled_new in En. destruct En as [Ei Eo]. rewrite Hmod.
    destruct (aget (m_pending s) (m_next s)) as [o|] eqn:P; cbn [isSome].
    + apply Inv_out_only; try assumption; try lia; [eapply unissued_not_pending; eassumption|intros f; discriminate].
    + apply Inv_register; try assumption; try lia.
  - destruct (aget (m_issued s) c) as [id|] eqn:Hi; [|exact HI].
    apply andb_true_iff in En. destruct En as [En _]. apply andb_true_iff in En. destruct En as [_ En].
    apply negb_true_iff, isSome_false in En. apply Inv_write; assumption.
  - apply Inv_route; [apply Inv_deliver; exact HI|apply deliver_matched].
  - destruct (frame_of s a) as [f|]; [|exact HI].
    apply Inv_route; [apply Inv_deliver; exact HI|apply deliver_matched].
  - apply Inv_deliver. exact HI.
  - apply andb_true_iff in En. destruct En as [En1 En2].
    apply negb_true_iff, isSome_false in En2. apply isSome_true in En1.
    destruct (aget (m_wire s) c) as [id|] eqn:Hw; [|congruence].
    apply aget_Some_In in Hw. apply (I_wire _ _ HI) in Hw. apply (In_aget _ _ _ (I_iss_c _ _ HI)) in Hw.
    eapply Inv_finish; try eassumption. intros f; discriminate.
  - apply andb_true_iff in En. destruct En as [En1 En2].
    apply negb_true_iff, isSome_false in En2. apply isSome_true in En1.
    destruct (aget (m_issued s) c) as [id|] eqn:Hw; [|congruence].
    eapply Inv_finish; try eassumption. intros f; discriminate.
  - apply enabled_new in En. destruct En as [Ei Eo]. pose proof (I_small _ _ HI).
    destruct (aget (m_pending s) id) as [o|] eqn:P; cbn [isSome].
    + apply Inv_out_only; try assumption; [eapply unissued_not_pending; eassumption|intros f; discriminate].
    + apply Inv_register; try assumption.
  - apply enabled_new in En. destruct En as [Ei Eo]. pose proof (I_small _ _ HI).
    apply Inv_out_only; try assumption; [eapply unissued_not_pending; eassumption|intros f; discriminate].
Qed.

Lemma deliver_next s : m_next (deliver s) = m_next s.
Proof. unfold deliver. destruct (m_matched s) as [[c f]|]; [destruct (aget (m_out s) c)|]; reflexivity. Qed.
Lemma route_next ws s f : m_next (route ws s f) = m_next s.
Proof.
  unfold route. destruct (ws && negb (f_notify f =? 0)); [reflexivity|].
  destruct (aget (m_pending s) (f_id f)); reflexivity.
Qed.
Lemma finish_next s c o : m_next (finish s c o) = m_next s.
Proof. unfold finish. destruct (aget (m_issued s) c); reflexivity. Qed.

Lemma next_step ws s st : m_next s + 1 < two64 -> m_next (mstep ws s st) <= m_next s + 1.
Proof.
  intros Hb. unfold mstep. destruct (negb (enabled s st)); [lia|].
  assert (Hmod : (m_next s + 1) mod two64 = m_next s + 1) by (apply N.mod_small; exact Hb).
  destruct st as [c|c|f|a| |c|c|c id|c].
  - destruct (isSome (aget (m_pending s) (m_next s))); simp_m; lia.
  - destruct (aget (m_issued s) c); simp_m; lia.
  - rewrite route_next, deliver_next. lia.
  - destruct (frame_of s a); [rewrite route_next, deliver_next|]; lia.
  - rewrite deliver_next. lia.
  - rewrite finish_next. lia.
  - rewrite finish_next. lia.
  - destruct (isSome (aget (m_pending s) id)); simp_m; lia.
  - simp_m. lia.
Qed.

(** every state reachable by fewer than 2^64 - 2 steps satisfies the invariant *)
Lemma Inv_run ws l : forall s,
  Inv ws s -> m_next s + N.of_nat (length l) < two64 -> Inv ws (run ws s l).
Proof.
  induction l as [|st l IH]; intros s HI Hb; cbn [run fold_left]; [exact HI|].
  cbn [length] in Hb.
  apply IH.
  - apply Inv_step; [exact HI|lia].
  - pose proof (next_step ws s st). lia.
Qed.

Lemma Inv_reach ws l : N.of_nat (length l) + 2 < two64 -> Inv ws (run ws mux0 l).
Proof. intros Hb. apply Inv_run; [apply Inv0|]. cbn [mux0 m_next]. lia. Qed.

(** ** without caller-supplied ids every registration is fresh *)

Definition Low (s : mux) : Prop := forall c id, In (c, id) (m_issued s) -> id < m_next s.

Lemma deliver_issued s : m_issued (deliver s) = m_issued s.
Proof. unfold deliver. destruct (m_matched s) as [[c f]|]; [destruct (aget (m_out s) c)|]; reflexivity. Qed.
Lemma route_issued ws s f : m_issued (route ws s f) = m_issued s.
Proof.
  unfold route. destruct (ws && negb (f_notify f =? 0)); [reflexivity|].
  destruct (aget (m_pending s) (f_id f)); reflexivity.
Qed.
Lemma finish_issued s c o : m_issued (finish s c o) = m_issued s.
Proof. unfold finish. destruct (aget (m_issued s) c); reflexivity. Qed.

Lemma Low_step ws s st : Low s -> m_next s + 1 < two64 -> is_forward st = false -> Low (mstep ws s st).
Proof.
  intros HL Hb Hnf. unfold mstep. destruct (negb (enabled s st)); [exact HL|].
  assert (Hmod : (m_next s + 1) mod two64 = m_next s + 1) by (apply N.mod_small; exact Hb).
  unfold Low in *.
  destruct st as [c|c|f|a| |c|c|c id|c]; try discriminate.
  - destruct (isSome (aget (m_pending s) (m_next s))); simp_m; rewrite Hmod; intros c' id Hin.
    + specialize (HL c' id Hin). lia.
    + apply in_app_or in Hin. destruct Hin as [Hin|[Hin|[]]]; [specialize (HL c' id Hin); lia|].
      inversion Hin; subst. lia.
  - destruct (aget (m_issued s) c); simp_m; exact HL.
  - rewrite route_next, route_issued, deliver_next, deliver_issued. exact HL.
  - destruct (frame_of s a); [rewrite route_next, route_issued, deliver_next, deliver_issued|]; exact HL.
  - rewrite deliver_next, deliver_issued. exact HL.
  - rewrite finish_next, finish_issued. exact HL.
  - rewrite finish_next, finish_issued. exact HL.
Qed.

Lemma Low_pending ws s : Inv ws s -> Low s -> aget (m_pending s) (m_next s) = None.
Proof.
  intros HI HL. destruct (aget (m_pending s) (m_next s)) as [c|] eqn:E; [|reflexivity].
  apply aget_Some_In in E. destruct (I_pend_iss _ _ HI _ _ E) as [A _]. specialize (HL _ _ A). lia.
Qed.

Lemma Low_fresh s st : Low s -> is_forward st = false -> fresh_reg s st = true.
Proof.
  intros HL Hnf. destruct st; try reflexivity; try discriminate. cbn [fresh_reg].
  apply orb_true_iff. right. apply negb_true_iff. apply memN_false. intros Hin.
  apply in_map_iff in Hin. destruct Hin as [[c' id] [E Hin]]. cbn [snd] in E. subst id.
  specialize (HL _ _ Hin). lia.
Qed.

Lemma nofwd_run ws l : forall s,
  Inv ws s -> Low s -> m_next s + N.of_nat (length l) < two64 -> existsb is_forward l = false ->
  all_fresh ws s l = true /\ Low (run ws s l).
Proof.
  induction l as [|st l IH]; intros s HI HL Hb Hnf; cbn [run fold_left all_fresh]; [split; [reflexivity|exact HL]|].
  cbn [existsb] in Hnf. apply orb_false_iff in Hnf. destruct Hnf as [Hnf1 Hnf2]. cbn [length] in Hb.
  pose proof (Low_fresh s st HL Hnf1) as Hf. rewrite Hf. cbn [andb].
  apply IH.
  - apply Inv_step; [exact HI|lia].
  - apply Low_step; [exact HL|lia|exact Hnf1].
  - pose proof (next_step ws s st). lia.
  - exact Hnf2.
Qed.

Lemma Low0 : Low mux0.
Proof. intros c id H. contradiction. Qed.

Lemma nofwd_all_fresh ws l : N.of_nat (length l) + 2 < two64 -> existsb is_forward l = false ->
  all_fresh ws mux0 l = true.
Proof.
  intros Hb Hnf. apply (nofwd_run ws l mux0 (Inv0 ws) Low0); [cbn [mux0 m_next]; lia|exact Hnf].
Qed.

(** * the named properties, for every reachable state *)

Lemma ids_fresh_inv ws s id c : Inv ws s -> Low s -> In (id, c) (m_pending s) -> id < m_next s.
Proof.
  intros HI HL Hin. destruct (I_pend_iss _ _ HI _ _ Hin) as [A _]. exact (HL _ _ A).
Qed.

Lemma sub_nodup_snd (iss l : list (N * N)) :
  NoDup (map snd iss) -> (forall c id, In (c, id) l -> In (c, id) iss) -> NoDup (map fst l) ->
  NoDup (map snd l).
Proof.
  intros Hid. induction l as [|[c id] l IH]; cbn [map fst snd]; intros Hsub ND; [constructor|].
  inversion ND as [|x xs Hnot ND']; subst x xs. constructor.
  - intros Hin. apply in_map_iff in Hin. destruct Hin as [[c' id'] [E Hin]]. cbn [snd] in E. subst id'.
    assert (c = c'). { eapply assoc_inj; [exact Hid| |]; apply Hsub; [left; reflexivity|right; exact Hin]. }
    subst c'. apply Hnot. apply (in_map fst) in Hin. exact Hin.
  - apply IH; [|exact ND']. intros c' id' H. apply Hsub. right. exact H.
Qed.

(** no id has been registered twice *)
Definition Uniq (s : mux) : Prop := NoDup (map snd (m_issued s)).

Lemma ids_distinct_inv ws s : Inv ws s -> Uniq s -> NoDup (map snd (m_issued s)) /\ NoDup (map snd (m_wire s)).
Proof.
  intros HI HU. split; [exact HU|].
  eapply sub_nodup_snd; [exact HU|exact (I_wire _ _ HI)|exact (I_wire_nd _ _ HI)].
Qed.

Lemma pending_inj_inv ws s id1 id2 c :
  Inv ws s -> In (id1, c) (m_pending s) -> In (id2, c) (m_pending s) -> id1 = id2.
Proof.
  intros HI H1 H2. destruct (I_pend_iss _ _ HI _ _ H1) as [A1 _]. destruct (I_pend_iss _ _ HI _ _ H2) as [A2 _].
  exact (assoc_fun _ _ _ _ (I_iss_c _ _ HI) A1 A2).
Qed.

Lemma own_response_inv ws s c f :
  Inv ws s -> In (c, OGot f) (m_out s) -> aget (m_issued s) c = Some (f_id f).
Proof.
  intros HI Hin. destruct (I_out _ _ HI _ _ Hin) as [A _]. exact (In_aget _ _ _ (I_iss_c _ _ HI) A).
Qed.

Lemma deliver_none s : m_matched s = None -> deliver s = s.
Proof. intros M. unfold deliver. rewrite M. reflexivity. Qed.

Lemma deliver_pending s : m_pending (deliver s) = m_pending s.
Proof. unfold deliver. destruct (m_matched s) as [[c f]|]; [destruct (aget (m_out s) c)|]; reflexivity. Qed.
Lemma deliver_wire s : m_wire (deliver s) = m_wire s.
Proof. unfold deliver. destruct (m_matched s) as [[c f]|]; [destruct (aget (m_out s) c)|]; reflexivity. Qed.
Lemma deliver_sub s : m_sub (deliver s) = m_sub s.
Proof. unfold deliver. destruct (m_matched s) as [[c f]|]; [destruct (aget (m_out s) c)|]; reflexivity. Qed.
Lemma mstep_recv ws s f : mstep ws s (Recv f) = route ws (deliver s) f.
Proof. reflexivity. Qed.

(** a response with an id that is not pending changes nothing (it is logged and dropped) *)
Lemma unknown_dropped_gen ws s f :
  m_matched s = None -> ws && negb (f_notify f =? 0) = false -> aget (m_pending s) (f_id f) = None ->
  mstep ws s (Recv f)
  = mkMux (m_next s) (m_pending s) (m_issued s) (m_wire s) (m_matched s) (m_out s) (m_sub s) (m_dropped s ++ [f]).
Proof.
  intros M E P. rewrite mstep_recv, (deliver_none s M). unfold route. rewrite E, P. reflexivity.
Qed.

(** once the reader has taken a response with some id, that id is no longer pending *)
Lemma recv_clears_id ws s f :
  ws && negb (f_notify f =? 0) = false -> aget (m_pending (mstep ws s (Recv f))) (f_id f) = None.
Proof.
  intros E. rewrite mstep_recv. unfold route. rewrite E.
  destruct (aget (m_pending (deliver s)) (f_id f)) as [c|] eqn:P; simp_m.
  - rewrite aget_adel, N.eqb_refl. reflexivity.
  - exact P.
Qed.

(** a second response with the same id changes nothing but the log: the first
    one is handed to its caller (as it would have been anyway), the copy is dropped *)
Lemma duplicate_dropped_gen ws s f f' :
  ws && negb (f_notify f =? 0) = false -> ws && negb (f_notify f' =? 0) = false -> f_id f' = f_id f ->
  let s1 := mstep ws s (Recv f) in
  let d := deliver s1 in
  mstep ws s1 (Recv f')
  = mkMux (m_next d) (m_pending d) (m_issued d) (m_wire d) (m_matched d) (m_out d) (m_sub d) (m_dropped d ++ [f']).
Proof.
  intros E E' Hid s1 d. rewrite mstep_recv. fold d. unfold route. rewrite E'.
  unfold d. rewrite deliver_pending. rewrite Hid. unfold s1. rewrite (recv_clears_id ws s f E). reflexivity.
Qed.

(** WebSocket client: a frame whose notify byte is set goes to the subscriber
    and nowhere else, whatever its id *)
Lemma ws_notify_gen s f :
  f_notify f <> 0 ->
  let d := deliver s in
  mstep true s (Recv f)
  = mkMux (m_next d) (m_pending d) (m_issued d) (m_wire d) (m_matched d) (m_out d) (m_sub d ++ [f]) (m_dropped d).
Proof.
  intros Hn d. rewrite mstep_recv. fold d. unfold route.
  assert (E : f_notify f =? 0 = false) by (apply N.eqb_neq; exact Hn). rewrite E. reflexivity.
Qed.

Lemma disabled_stutter ws s st : enabled s st = false -> mstep ws s st = s.
Proof. intros E. unfold mstep. rewrite E. reflexivity. Qed.

(** * history: what the outcomes, the subscriber and the oracle's reading of
    the schedule have to do with each other *)

Lemma reply_tags_app a b : reply_tags (a ++ b) = reply_tags a ++ reply_tags b.
Proof.
  induction a as [|st a IH]; cbn [app reply_tags]; [reflexivity|].
  destruct st as [c|c|f|[k v|i v|k v|i v]| |c|c|c i|c]; cbn [app]; rewrite IH; reflexivity.
Qed.
Lemma notify_tags_app a b : notify_tags (a ++ b) = notify_tags a ++ notify_tags b.
Proof.
  induction a as [|st a IH]; cbn [app notify_tags]; [reflexivity|].
  destruct st as [c|c|f|[k v|i v|k v|i v]| |c|c|c i|c]; cbn [app]; rewrite IH; reflexivity.
Qed.
Lemma replied_app a b c : replied (a ++ b) c = replied a c || replied b c.
Proof. unfold replied. apply existsb_app. Qed.
Lemma timed_out_app a b c : timed_out (a ++ b) c = timed_out a c || timed_out b c.
Proof. unfold timed_out. apply existsb_app. Qed.
Lemma cancelled_app a b c : cancelled (a ++ b) c = cancelled a c || cancelled b c.
Proof. unfold cancelled. apply existsb_app. Qed.

Record Hist (ws : bool) (h : list step) (s : mux) : Prop := mkHist {
  H_tag : forall c f, m_matched s = Some (c, f) \/ In (c, OGot f) (m_out s) ->
      f_tag f mod 4096 = c /\ In (f_tag f) (reply_tags h);
  H_to : forall c, In (c, OTimeout) (m_out s) -> timed_out h c = true;
  H_ca : forall c, In (c, OCancel) (m_out s) -> cancelled h c = true;
  H_rep : forall c, replied h c = true -> aget (m_out s) c <> None \/ exists f, m_matched s = Some (c, f);
  H_ref : forall c, In (c, ORefused) (m_out s) -> may_refuse h c = true;
  H_nfy : forall c, In (c, ONotified) (m_out s) -> notify_forwarded h c = true;
  H_low : existsb is_forward h = false -> Low s;
  H_sub : map f_tag (m_sub s) = if ws then notify_tags h else []
}.

Lemma may_refuse_mono a b c : may_refuse a c = true -> may_refuse (a ++ b) c = true.
Proof.
  unfold may_refuse. rewrite !existsb_app. intros H. apply orb_true_iff in H. destruct H as [H|H].
  - rewrite H. reflexivity.
  - apply andb_true_iff in H. destruct H as [H1 H2]. rewrite H1, H2. cbn [orb andb]. apply orb_true_r.
Qed.
Lemma notify_forwarded_mono a b c : notify_forwarded a c = true -> notify_forwarded (a ++ b) c = true.
Proof. unfold notify_forwarded. rewrite existsb_app. intros H. rewrite H. reflexivity. Qed.
Lemma nofwd_app_l a b : existsb is_forward (a ++ b) = false -> existsb is_forward a = false.
Proof. rewrite existsb_app. intros H. apply orb_false_iff in H. tauto. Qed.

Lemma Hist0 ws : Hist ws [] mux0.
Proof.
  constructor; cbn.
  - intros c f [H|H]; [discriminate|contradiction].
  - intros c H; contradiction.
  - intros c H; contradiction.
  - intros c H; discriminate.
  - intros c H; contradiction.
  - intros c H; contradiction.
  - intros _. exact Low0.
  - destruct ws; reflexivity.
Qed.

Lemma Hist_deliver ws h s : Hist ws h s -> Hist ws h (deliver s).
Proof.
  intros HH. unfold deliver. destruct (m_matched s) as [[c f]|] eqn:M; [|exact HH].
  destruct HH as [T1 T2 T3 T4 T6 T7 T8 T5].
  destruct (aget (m_out s) c) as [o|] eqn:O; constructor; simp_m; try assumption.
  - intros c' f' [H|H]; [discriminate|]. apply T1. right. exact H.
  - intros c' Hr. destruct (T4 c' Hr) as [A|[f' A]]; [left; exact A|]. rewrite M in A. inversion A; subst c' f'. left. congruence.
  - intros c' f' [H|H]; [discriminate|]. apply in_app_or in H. destruct H as [H|[H|[]]].
    + apply T1. right. exact H.
    + inversion H; subst c' f'. apply T1. left. exact M.
  - intros c' H. apply in_app_or in H. destruct H as [H|[H|[]]]; [exact (T2 c' H)|discriminate].
  - intros c' H. apply in_app_or in H. destruct H as [H|[H|[]]]; [exact (T3 c' H)|discriminate].
  - intros c' Hr. left. rewrite aget_app. destruct (T4 c' Hr) as [A|[f' A]].
    + destruct (aget (m_out s) c'); congruence.
    + rewrite M in A. inversion A; subst c' f'. rewrite O. cbn [aget]. rewrite N.eqb_refl. discriminate.
  - intros c' H. apply in_app_or in H. destruct H as [H|[H|[]]]; [exact (T6 c' H)|discriminate].
  - intros c' H. apply in_app_or in H. destruct H as [H|[H|[]]]; [exact (T7 c' H)|discriminate].
Qed.

(** steps that neither add a reply nor a notification to the history *)
Definition quiet (st : step) : bool := match st with Srv _ | Recv _ => false | _ => true end.

Lemma quiet_hist st h c : quiet st = true ->
  reply_tags (h ++ [st]) = reply_tags h /\ notify_tags (h ++ [st]) = notify_tags h /\
  replied (h ++ [st]) c = replied h c.
Proof.
  intros Q. rewrite reply_tags_app, notify_tags_app, replied_app.
  destruct st; try discriminate; cbn; rewrite ?app_nil_r, ?orb_false_r; repeat split; reflexivity.
Qed.

Lemma Hist_weaken ws h st s :
  quiet st = true -> Hist ws h s -> Hist ws (h ++ [st]) s.
Proof.
  intros Q [T1 T2 T3 T4 T6 T7 T8 T5]. constructor.
  - intros c f H. destruct (quiet_hist st h c Q) as [E _]. rewrite E. exact (T1 c f H).
  - intros c H. rewrite timed_out_app, (T2 c H). reflexivity.
  - intros c H. rewrite cancelled_app, (T3 c H). reflexivity.
  - intros c H. destruct (quiet_hist st h c Q) as [_ [_ E]]. rewrite E in H. exact (T4 c H).
  - intros c H. apply may_refuse_mono. exact (T6 c H).
  - intros c H. apply notify_forwarded_mono. exact (T7 c H).
  - intros E. exact (T8 (nofwd_app_l _ _ E)).
  - destruct (quiet_hist st h 0 Q) as [_ [E _]]. rewrite E. exact T5.
Qed.

(** the state changes, the outcomes, the matched frame and the subscriber do not *)
Lemma Hist_same ws h s s' :
  Hist ws h s -> m_matched s' = m_matched s -> m_out s' = m_out s -> m_sub s' = m_sub s ->
  (existsb is_forward h = false -> Low s') -> Hist ws h s'.
Proof.
  intros [T1 T2 T3 T4 T6 T7 T8 T5] E1 E2 E3 HL. constructor; rewrite ?E1, ?E2, ?E3; assumption.
Qed.

(** one call ends with an outcome other than a delivery *)
Lemma Hist_out ws h s s' c o :
  Hist ws h s -> m_matched s' = m_matched s -> m_out s' = m_out s ++ [(c, o)] -> m_sub s' = m_sub s ->
  (existsb is_forward h = false -> Low s') ->
  (forall f, o <> OGot f) ->
  (o = OTimeout -> timed_out h c = true) -> (o = OCancel -> cancelled h c = true) ->
  (o = ORefused -> may_refuse h c = true) -> (o = ONotified -> notify_forwarded h c = true) ->
  Hist ws h s'.
Proof.
  intros [T1 T2 T3 T4 T6 T7 T8 T5] E1 E2 E3 HL Hno Hto Hca Hre Hnf. constructor; rewrite ?E1, ?E2, ?E3; try assumption.
  - intros c' f' [H|H]; [apply T1; left; exact H|]. apply in_app_or in H. destruct H as [H|[H|[]]].
    + apply T1. right. exact H.
    + inversion H. exfalso. eapply Hno. eauto.
  - intros c' H. apply in_app_or in H. destruct H as [H|[H|[]]]; [exact (T2 c' H)|].
    inversion H; subst c' o. apply Hto. reflexivity.
  - intros c' H. apply in_app_or in H. destruct H as [H|[H|[]]]; [exact (T3 c' H)|].
    inversion H; subst c' o. apply Hca. reflexivity.
  - intros c' Hr. destruct (T4 c' Hr) as [A|A]; [|right; exact A]. left. rewrite aget_app.
    destruct (aget (m_out s) c'); congruence.
  - intros c' H. apply in_app_or in H. destruct H as [H|[H|[]]]; [exact (T6 c' H)|].
    inversion H; subst c' o. apply Hre. reflexivity.
  - intros c' H. apply in_app_or in H. destruct H as [H|[H|[]]]; [exact (T7 c' H)|].
    inversion H; subst c' o. apply Hnf. reflexivity.
Qed.

Lemma tag_mod k v : k < 4096 -> tag_of k v mod 4096 = k.
Proof. intros H. unfold tag_of. lia. Qed.

(** the reader takes a frame that the server sent as item [a] *)
Lemma Hist_srv ws n h s a f :
  Inv ws s -> Hist ws h s -> n < unknown_k -> step_ok ws n (Srv a) = true -> frame_of s a = Some f ->
  srv_own s (Srv a) = true ->
  Hist ws (h ++ [Srv a]) (route ws (deliver s) f).
Proof.
  intros HI HH Hn Hok Hf Hso.
  assert (Hsod : srv_own (deliver s) (Srv a) = true).
  { destruct a; cbn [srv_own] in *; rewrite ?deliver_wire, ?deliver_pending; exact Hso. }
  clear Hso. revert Hsod.
  pose proof (Inv_deliver ws s HI) as HId. pose proof (Hist_deliver ws h s HH) as HHd.
  pose proof (deliver_matched s) as Md.
  assert (Hfd : frame_of (deliver s) a = Some f).
  { destruct a; cbn [frame_of] in *; rewrite ?deliver_wire, ?deliver_issued; exact Hf. }
  revert HId HHd Md Hfd. generalize (deliver s). clear s HI HH Hf. intros s HI [T1 T2 T3 T4 T6 T7 T8 T5] M Hf Hso.
  unfold step_ok in Hok. cbn [is_raw negb andb] in Hok. apply andb_true_iff in Hok. destruct Hok as [Hok _].
  apply andb_true_iff in Hok. destruct Hok as [Hc Hw].
  unfold unknown_k in Hn.
  destruct a as [k v|id v|k v|id v]; cbn [frame_of] in Hf.
  - (* reply *)
    destruct (aget (m_wire s) k) as [id|] eqn:W; [|discriminate]. inversion Hf; subst f; clear Hf.
    cbn [step_caller_ok] in Hc. apply N.ltb_lt in Hc.
    pose proof W as W0. apply aget_Some_In in W. apply (I_wire _ _ HI) in W.
    unfold route. cbn [f_notify f_id]. rewrite N.eqb_refl. cbn [negb]. rewrite andb_false_r.
    destruct (aget (m_pending s) id) as [c|] eqn:P.
    + assert (c = k) by (cbn [srv_own] in Hso; rewrite W0, P in Hso; apply N.eqb_eq; exact Hso). subst c.
      constructor; simp_m.
      * intros c f [H|H].
        -- inversion H; subst c f. cbn [f_tag]. split; [apply tag_mod; lia|].
           rewrite reply_tags_app. apply in_or_app. right. left. reflexivity.
        -- destruct (T1 c f (or_intror H)) as [A1 A2]. split; [exact A1|].
           rewrite reply_tags_app. apply in_or_app. left. exact A2.
      * intros c H. rewrite timed_out_app, (T2 c H). reflexivity.
      * intros c H. rewrite cancelled_app, (T3 c H). reflexivity.
      * intros c H. rewrite replied_app in H. apply orb_true_iff in H. destruct H as [H|H].
        -- destruct (T4 c H) as [B|[f B]]; [left; exact B|congruence].
        -- cbn in H. rewrite orb_false_r in H. apply N.eqb_eq in H. subst c. right. eexists. reflexivity.
      * intros c H. apply may_refuse_mono. exact (T6 c H).
      * intros c H. apply notify_forwarded_mono. exact (T7 c H).
      * intros E. exact (T8 (nofwd_app_l _ _ E)).
      * rewrite notify_tags_app. cbn [notify_tags]. rewrite app_nil_r. exact T5.
    + constructor; simp_m.
      * intros c f H. destruct (T1 c f H) as [A1 A2]. split; [exact A1|].
        rewrite reply_tags_app. apply in_or_app. left. exact A2.
      * intros c H. rewrite timed_out_app, (T2 c H). reflexivity.
      * intros c H. rewrite cancelled_app, (T3 c H). reflexivity.
      * intros c H. rewrite replied_app in H. apply orb_true_iff in H. destruct H as [H|H]; [exact (T4 c H)|].
        cbn in H. rewrite orb_false_r in H. apply N.eqb_eq in H. subst c. left. intros Ho.
        destruct (I_live _ _ HI _ _ W Ho) as [B|[f B]]; congruence.
      * intros c H. apply may_refuse_mono. exact (T6 c H).
      * intros c H. apply notify_forwarded_mono. exact (T7 c H).
      * intros E. exact (T8 (nofwd_app_l _ _ E)).
      * rewrite notify_tags_app. cbn [notify_tags]. rewrite app_nil_r. exact T5.
  - (* unknown id *)
    destruct (memN id (map snd (m_issued s))) eqn:Mi; [discriminate|]. inversion Hf; subst f; clear Hf.
    apply memN_false in Mi.
    unfold route. cbn [f_notify f_id]. rewrite N.eqb_refl. cbn [negb]. rewrite andb_false_r.
    assert (P : aget (m_pending s) id = None).
    { destruct (aget (m_pending s) id) as [c|] eqn:P; [|reflexivity]. exfalso. apply Mi.
      apply aget_Some_In in P. destruct (I_pend_iss _ _ HI _ _ P) as [A _]. apply (in_map snd) in A. exact A. }
    rewrite P. constructor; simp_m.
    + intros c f H. destruct (T1 c f H) as [A1 A2]. split; [exact A1|].
      rewrite reply_tags_app. apply in_or_app. left. exact A2.
    + intros c H. rewrite timed_out_app, (T2 c H). reflexivity.
    + intros c H. rewrite cancelled_app, (T3 c H). reflexivity.
    + intros c H. rewrite replied_app in H. cbn in H. rewrite orb_false_r in H. exact (T4 c H).
    + intros c H. apply may_refuse_mono. exact (T6 c H).
    + intros c H. apply notify_forwarded_mono. exact (T7 c H).
    + intros E. exact (T8 (nofwd_app_l _ _ E)).
    + rewrite notify_tags_app. cbn [notify_tags]. rewrite app_nil_r. exact T5.
  - (* notification reusing an in-flight id *)
    destruct (aget (m_wire s) k) as [id|] eqn:W; [|discriminate]. inversion Hf; subst f; clear Hf.
    cbn [is_notify negb] in Hw. rewrite orb_false_r in Hw. subst ws.
    unfold route. cbn [f_notify f_id andb]. replace (1 =? 0) with false by reflexivity. cbn [negb].
    constructor; simp_m.
    + intros c f H. destruct (T1 c f H) as [A1 A2]. split; [exact A1|].
      rewrite reply_tags_app. apply in_or_app. left. exact A2.
    + intros c H. rewrite timed_out_app, (T2 c H). reflexivity.
    + intros c H. rewrite cancelled_app, (T3 c H). reflexivity.
    + intros c H. rewrite replied_app in H. cbn in H. rewrite orb_false_r in H. exact (T4 c H).
    + intros c H. apply may_refuse_mono. exact (T6 c H).
    + intros c H. apply notify_forwarded_mono. exact (T7 c H).
    + intros E. exact (T8 (nofwd_app_l _ _ E)).
    + rewrite map_app, T5, notify_tags_app. reflexivity.
  - inversion Hf; subst f; clear Hf.
    cbn [is_notify negb] in Hw. rewrite orb_false_r in Hw. subst ws.
    unfold route. cbn [f_notify f_id andb]. replace (1 =? 0) with false by reflexivity. cbn [negb].
    constructor; simp_m.
    + intros c f H. destruct (T1 c f H) as [A1 A2]. split; [exact A1|].
      rewrite reply_tags_app. apply in_or_app. left. exact A2.
    + intros c H. rewrite timed_out_app, (T2 c H). reflexivity.
    + intros c H. rewrite cancelled_app, (T3 c H). reflexivity.
    + intros c H. rewrite replied_app in H. cbn in H. rewrite orb_false_r in H. exact (T4 c H).
    + intros c H. apply may_refuse_mono. exact (T6 c H).
    + intros c H. apply notify_forwarded_mono. exact (T7 c H).
    + intros E. exact (T8 (nofwd_app_l _ _ E)).
    + rewrite map_app, T5, notify_tags_app. reflexivity.
Qed.

Lemma existsb_snoc_true {A} (f : A -> bool) h x : f x = true -> existsb f (h ++ [x]) = true.
Proof. intros H. rewrite existsb_app. cbn [existsb]. rewrite H. cbn [orb]. apply orb_true_r. Qed.

Lemma Hist_step ws n h s st :
  Inv ws s -> Hist ws h s -> n < unknown_k -> step_ok ws n st = true -> enabled s st = true ->
  m_next s + 1 < two64 -> srv_own s st = true ->
  Hist ws (h ++ [st]) (mstep ws s st).
Proof.
  intros HI HH Hn Hok En Hb Hso. unfold mstep. rewrite En. cbn [negb].
  assert (Hmod : (m_next s + 1) mod two64 = m_next s + 1) by (apply N.mod_small; exact Hb).
  destruct st as [c|c|f|a| |c|c|c id|c].
  - pose proof (Hist_weaken ws h (Register c) s eq_refl HH) as HHw.
    cbn [enabled] in En. apply enabled_new in En. destruct En as [Ei Eo].
    destruct (aget (m_pending s) (m_next s)) as [o|] eqn:P; cbn [isSome].
    + eapply (Hist_out ws _ s _ c ORefused HHw); simp_m; try reflexivity.
      * intros E. pose proof (H_low _ _ _ HHw E) as L. intros c' id' Hin. simp_m. rewrite Hmod.
        specialize (L c' id' Hin). lia.
      * intros f X; discriminate X.
      * intros X; discriminate X.
      * intros X; discriminate X.
      * intros _. destruct (existsb is_forward h) eqn:F.
        -- unfold may_refuse. apply orb_true_iff. right. apply andb_true_iff. split.
           ++ apply existsb_snoc_true. apply N.eqb_refl.
           ++ rewrite existsb_app, F. reflexivity.
        -- exfalso. pose proof (Low_pending ws s HI (H_low _ _ _ HH F)) as Q. congruence.
      * intros X; discriminate X.
    + eapply (Hist_same ws _ s _ HHw); simp_m; try reflexivity.
      intros E. pose proof (H_low _ _ _ HHw E) as L. intros c' id' Hin. simp_m. rewrite Hmod.
      apply in_app_or in Hin. destruct Hin as [Hin|[Hin|[]]]; [specialize (L c' id' Hin); lia|].
      inversion Hin; subst. lia.
  - pose proof (Hist_weaken ws h (Write c) s eq_refl HH) as HHw.
    destruct (aget (m_issued s) c); [|exact HHw].
    eapply (Hist_same ws _ s _ HHw); simp_m; try reflexivity. intros E. exact (H_low _ _ _ HHw E).
  - unfold step_ok in Hok. cbn [is_raw negb andb] in Hok. discriminate.
  - cbn [enabled] in En. destruct (frame_of s a) as [f|] eqn:Hf; [|discriminate].
    eapply Hist_srv; eassumption.
  - apply Hist_deliver. apply Hist_weaken; [reflexivity|exact HH].
  - pose proof (Hist_weaken ws h (Timeout c) s eq_refl HH) as HHw.
    cbn [enabled] in En. apply andb_true_iff in En. destruct En as [En1 _]. apply isSome_true in En1.
    destruct (aget (m_wire s) c) as [id|] eqn:Hw; [|congruence].
    apply aget_Some_In in Hw. apply (I_wire _ _ HI) in Hw. apply (In_aget _ _ _ (I_iss_c _ _ HI)) in Hw.
    unfold finish. rewrite Hw.
    eapply (Hist_out ws _ s _ c OTimeout HHw); simp_m; try reflexivity.
    + intros E. exact (H_low _ _ _ HHw E).
    + intros f X; discriminate X.
    + intros _. unfold timed_out. apply existsb_snoc_true. apply N.eqb_refl.
    + intros X; discriminate X.
    + intros X; discriminate X.
    + intros X; discriminate X.
  - pose proof (Hist_weaken ws h (Cancel c) s eq_refl HH) as HHw.
    cbn [enabled] in En. apply andb_true_iff in En. destruct En as [En1 _]. apply isSome_true in En1.
    destruct (aget (m_issued s) c) as [id|] eqn:Hw; [|congruence].
    unfold finish. rewrite Hw.
    eapply (Hist_out ws _ s _ c OCancel HHw); simp_m; try reflexivity.
    + intros E. exact (H_low _ _ _ HHw E).
    + intros f X; discriminate X.
    + intros X; discriminate X.
    + intros _. unfold cancelled. apply existsb_snoc_true. apply N.eqb_refl.
    + intros X; discriminate X.
    + intros X; discriminate X.
  - pose proof (Hist_weaken ws h (Forward c id) s eq_refl HH) as HHw.
    assert (Hfw : existsb is_forward (h ++ [Forward c id]) = false -> False).
    { intros E. rewrite (existsb_snoc_true is_forward h (Forward c id) eq_refl) in E. discriminate. }
    destruct (aget (m_pending s) id) as [o|] eqn:P; cbn [isSome].
    + eapply (Hist_out ws _ s _ c ORefused HHw); simp_m; try reflexivity.
      * intros E. exfalso. exact (Hfw E).
      * intros f X; discriminate X.
      * intros X; discriminate X.
      * intros X; discriminate X.
      * intros _. unfold may_refuse. apply orb_true_iff. left. apply existsb_snoc_true. apply N.eqb_refl.
      * intros X; discriminate X.
    + eapply (Hist_same ws _ s _ HHw); simp_m; try reflexivity. intros E. exfalso. exact (Hfw E).
  - pose proof (Hist_weaken ws h (FwdNotify c) s eq_refl HH) as HHw.
    eapply (Hist_out ws _ s _ c ONotified HHw); simp_m; try reflexivity.
    + intros E. exfalso. rewrite (existsb_snoc_true is_forward h (FwdNotify c) eq_refl) in E. discriminate.
    + intros f X; discriminate X.
    + intros X; discriminate X.
    + intros X; discriminate X.
    + intros X; discriminate X.
    + intros _. unfold notify_forwarded. apply existsb_snoc_true. apply N.eqb_refl.
Qed.

(** * counter-issued ids *)

Lemma is_counter_snoc h st c :
  is_counter (h ++ [st]) c = is_counter h c || (match st with Register k => k =? c | _ => false end).
Proof. unfold is_counter. rewrite existsb_app. cbn [existsb]. rewrite orb_false_r. reflexivity. Qed.

Record Cnt (h : list step) (s : mux) : Prop := mkCnt {
  K_lt : forall c id, In (c, id) (m_issued s) -> is_counter h c = true -> id < m_next s;
  K_done : forall c, is_counter h c = true -> aget (m_issued s) c <> None \/ aget (m_out s) c <> None;
  K_inj : forall c c' id, In (c, id) (m_issued s) -> In (c', id) (m_issued s) ->
      is_counter h c = true -> is_counter h c' = true -> c = c'
}.

Lemma Cnt0 : Cnt [] mux0.
Proof. constructor; cbn; intros; try contradiction; discriminate. Qed.

Lemma Cnt_same h h' s s' :
  (forall c, is_counter h' c = is_counter h c) -> m_issued s' = m_issued s -> m_next s' = m_next s ->
  (forall c, aget (m_out s) c <> None -> aget (m_out s') c <> None) -> Cnt h s -> Cnt h' s'.
Proof.
  intros Hc Ei En Ho [K1 K2 K3]. constructor; rewrite ?Ei, ?En.
  - intros c id Hin C. rewrite Hc in C. exact (K1 c id Hin C).
  - intros c C. rewrite Hc in C. destruct (K2 c C) as [A|A]; [left; exact A|right; exact (Ho c A)].
  - intros c c' id H1 H2 C C'. rewrite Hc in C, C'. exact (K3 c c' id H1 H2 C C').
Qed.

Lemma out_ext_step ws s st : exists t, m_out (mstep ws s st) = m_out s ++ t.
Proof.
  unfold mstep. destruct (negb (enabled s st)); [exists []; rewrite app_nil_r; reflexivity|].
  assert (D : forall s0, exists t, m_out (deliver s0) = m_out s0 ++ t).
  { intros s0. unfold deliver. destruct (m_matched s0) as [[c f]|]; [destruct (aget (m_out s0) c)|]; simp_m;
      try (exists []; rewrite app_nil_r; reflexivity). eexists. reflexivity. }
  assert (R : forall s0 f, m_out (route ws s0 f) = m_out s0).
  { intros s0 f. unfold route. destruct (ws && negb (f_notify f =? 0)); [reflexivity|].
    destruct (aget (m_pending s0) (f_id f)); reflexivity. }
  assert (F : forall c o, exists t, m_out (finish s c o) = m_out s ++ t).
  { intros c o. unfold finish. destruct (aget (m_issued s) c); simp_m; [eexists; reflexivity|exists []; rewrite app_nil_r; reflexivity]. }
  destruct st as [c|c|f|a| |c|c|c id|c].
  - destruct (isSome (aget (m_pending s) (m_next s))); simp_m; [eexists; reflexivity|exists []; rewrite app_nil_r; reflexivity].
  - destruct (aget (m_issued s) c); simp_m; exists []; rewrite app_nil_r; reflexivity.
  - rewrite R. apply D.
  - destruct (frame_of s a); [rewrite R; apply D|exists []; rewrite app_nil_r; reflexivity].
  - apply D.
  - apply F.
  - apply F.
  - destruct (isSome (aget (m_pending s) id)); simp_m; [eexists; reflexivity|exists []; rewrite app_nil_r; reflexivity].
  - simp_m. eexists. reflexivity.
Qed.

Lemma out_mono_step ws s st c : aget (m_out s) c <> None -> aget (m_out (mstep ws s st)) c <> None.
Proof.
  intros H. destruct (out_ext_step ws s st) as [t E]. rewrite E, aget_app. destruct (aget (m_out s) c); congruence.
Qed.

Definition registers (st : step) : bool := match st with Register _ | Forward _ _ => true | _ => false end.

Lemma noreg_step ws s st : registers st = false ->
  m_issued (mstep ws s st) = m_issued s /\ m_next (mstep ws s st) = m_next s.
Proof.
  intros Hr. unfold mstep. destruct (negb (enabled s st)); [split; reflexivity|].
  destruct st as [c|c|f|a| |c|c|c id|c]; try discriminate.
  - destruct (aget (m_issued s) c); split; reflexivity.
  - rewrite route_issued, route_next, deliver_issued, deliver_next. split; reflexivity.
  - destruct (frame_of s a); [rewrite route_issued, route_next, deliver_issued, deliver_next|]; split; reflexivity.
  - rewrite deliver_issued, deliver_next. split; reflexivity.
  - rewrite finish_issued, finish_next. split; reflexivity.
  - rewrite finish_issued, finish_next. split; reflexivity.
  - split; reflexivity.
Qed.

Lemma Cnt_step ws h s st :
  Inv ws s -> Cnt h s -> enabled s st = true -> m_next s + 1 < two64 -> Cnt (h ++ [st]) (mstep ws s st).
Proof.
  intros HI HC En Hb.
  destruct (registers st) eqn:Hr.
  - assert (Hmod : (m_next s + 1) mod two64 = m_next s + 1) by (apply N.mod_small; exact Hb).
    destruct HC as [K1 K2 K3]. unfold mstep. rewrite En. cbn [negb].
    destruct st as [c|c|f|a| |c|c|c id|c]; try discriminate; cbn [enabled] in En;
      apply enabled_new in En; destruct En as [Ei Eo].
    + (* Register c *)
      assert (Hnew : forall id, ~ In (c, id) (m_issued s)).
      { intros id Hin. apply aget_None in Ei. apply Ei. apply (in_map fst) in Hin. exact Hin. }
      assert (Hold : forall x id, In (x, id) (m_issued s) -> is_counter (h ++ [Register c]) x = true -> is_counter h x = true).
      { intros x id Hin C. rewrite is_counter_snoc in C. apply orb_true_iff in C. destruct C as [C|C]; [exact C|].
        apply N.eqb_eq in C. subst x. exfalso. exact (Hnew id Hin). }
      destruct (isSome (aget (m_pending s) (m_next s))); constructor; simp_m; rewrite ?Hmod.
      * intros x id Hin C. specialize (K1 x id Hin (Hold x id Hin C)). lia.
      * intros x C. rewrite is_counter_snoc in C. apply orb_true_iff in C. destruct C as [C|C].
        -- destruct (K2 x C) as [A|A]; [left; exact A|right]. rewrite aget_app. destruct (aget (m_out s) x); congruence.
        -- apply N.eqb_eq in C. subst x. right. rewrite aget_app, Eo. cbn [aget]. rewrite N.eqb_refl. discriminate.
      * intros x x' id H1 H2 C C'. exact (K3 x x' id H1 H2 (Hold x id H1 C) (Hold x' id H2 C')).
      * intros x id Hin C. apply in_app_or in Hin. destruct Hin as [Hin|[Hin|[]]].
        -- specialize (K1 x id Hin (Hold x id Hin C)). lia.
        -- inversion Hin; subst. lia.
      * intros x C. rewrite is_counter_snoc in C. apply orb_true_iff in C. destruct C as [C|C].
        -- destruct (K2 x C) as [A|A]; [left|right; exact A]. rewrite aget_app. destruct (aget (m_issued s) x); congruence.
        -- apply N.eqb_eq in C. subst x. left. rewrite aget_app, Ei. cbn [aget]. rewrite N.eqb_refl. discriminate.
      * intros x x' id H1 H2 C C'. apply in_app_or in H1. apply in_app_or in H2.
        destruct H1 as [H1|[H1|[]]], H2 as [H2|[H2|[]]].
        -- exact (K3 x x' id H1 H2 (Hold x id H1 C) (Hold x' id H2 C')).
        -- inversion H2; subst x' id. specialize (K1 x _ H1 (Hold x _ H1 C)). lia.
        -- inversion H1; subst x id. specialize (K1 x' _ H2 (Hold x' _ H2 C')). lia.
        -- inversion H1; inversion H2; subst. reflexivity.
    + (* Forward c id *)
      assert (Hcf : is_counter h c = false).
      { destruct (is_counter h c) eqn:C; [|reflexivity]. destruct (K2 c C); congruence. }
      assert (Hsame : forall x, is_counter (h ++ [Forward c id]) x = is_counter h x).
      { intros x. rewrite is_counter_snoc. apply orb_false_r. }
      destruct (isSome (aget (m_pending s) id)); constructor; simp_m.
      * intros x i Hin C. rewrite Hsame in C. exact (K1 x i Hin C).
      * intros x C. rewrite Hsame in C. destruct (K2 x C) as [A|A]; [left; exact A|right].
        rewrite aget_app. destruct (aget (m_out s) x); congruence.
      * intros x x' i H1 H2 C C'. rewrite Hsame in C, C'. exact (K3 x x' i H1 H2 C C').
      * intros x i Hin C. rewrite Hsame in C. apply in_app_or in Hin. destruct Hin as [Hin|[Hin|[]]]; [exact (K1 x i Hin C)|].
        inversion Hin; subst x i. congruence.
      * intros x C. rewrite Hsame in C. destruct (K2 x C) as [A|A]; [left|right; exact A].
        rewrite aget_app. destruct (aget (m_issued s) x); congruence.
      * intros x x' i H1 H2 C C'. rewrite Hsame in C, C'. apply in_app_or in H1. apply in_app_or in H2.
        destruct H1 as [H1|[H1|[]]], H2 as [H2|[H2|[]]].
        -- exact (K3 x x' i H1 H2 C C').
        -- inversion H2; subst x' i. congruence.
        -- inversion H1; subst x i. congruence.
        -- inversion H1; inversion H2; subst. reflexivity.
  - destruct (noreg_step ws s st Hr) as [Ei En'].
    apply (Cnt_same h (h ++ [st]) s); try assumption.
    + intros c. rewrite is_counter_snoc. destruct st; try discriminate; apply orb_false_r.
    + intros c. apply out_mono_step.
Qed.

Lemma inj_nodup_snd (l : list (N * N)) :
  NoDup (map fst l) -> (forall c c' id, In (c, id) l -> In (c', id) l -> c = c') -> NoDup (map snd l).
Proof.
  induction l as [|[c id] l IH]; cbn [map fst snd]; intros ND Hinj; [constructor|].
  inversion ND as [|x xs Hnot ND']; subst x xs. constructor.
  - intros Hin. apply in_map_iff in Hin. destruct Hin as [[c' id'] [E Hin]]. cbn [snd] in E. subst id'.
    assert (c = c') by (apply (Hinj c c' id); [left; reflexivity|right; exact Hin]). subst c'.
    apply Hnot. apply (in_map fst) in Hin. exact Hin.
  - apply IH; [exact ND'|]. intros x x' i H1 H2. apply (Hinj x x' i); right; assumption.
Qed.

(** the ids that counter-issued calls put on the wire are pairwise distinct *)
Lemma counter_ids_nodup ws h s : Inv ws s -> Cnt h s ->
  NoDup (map snd (filter (fun ci => is_counter h (fst ci)) (m_wire s))).
Proof.
  intros HI [K1 K2 K3]. apply inj_nodup_snd.
  - apply NoDup_filter_fst. exact (I_wire_nd _ _ HI).
  - intros c c' id H1 H2. apply filter_In in H1. apply filter_In in H2. destruct H1 as [H1 C], H2 as [H2 C'].
    cbn [fst] in C, C'. apply (K3 c c' id); try assumption; apply (I_wire _ _ HI); assumption.
Qed.

Lemma Hist_run ws n l : forall h s,
  Inv ws s -> Hist ws h s -> Cnt h s -> n < unknown_k -> forallb (step_ok ws n) l = true -> all_enabled ws s l = true ->
  all_srv_own ws s l = true -> m_next s + N.of_nat (length l) < two64 ->
  Inv ws (run ws s l) /\ Hist ws (h ++ l) (run ws s l) /\ Cnt (h ++ l) (run ws s l).
Proof.
  induction l as [|st l IH]; intros h s HI HH HC Hn Hok En Hf Hb; cbn [run fold_left].
  - rewrite app_nil_r. split; [assumption|split; assumption].
  - cbn [forallb] in Hok. apply andb_true_iff in Hok. destruct Hok as [Hok1 Hok2].
    cbn [all_enabled] in En. apply andb_true_iff in En. destruct En as [En1 En2].
    cbn [all_srv_own] in Hf. apply andb_true_iff in Hf. destruct Hf as [Hf1 Hf2].
    cbn [length] in Hb.
    replace (h ++ st :: l) with ((h ++ [st]) ++ l) by (rewrite <- app_assoc; reflexivity).
    apply IH; try assumption.
    + apply Inv_step; [exact HI|lia].
    + eapply Hist_step; try eassumption. lia.
    + apply Cnt_step; try assumption. lia.
    + pose proof (next_step ws s st). lia.
Qed.

(** * sorting keeps distinctness *)

Lemma In_ins_sorted x y l : In x (ins_sorted y l) <-> x = y \/ In x l.
Proof.
  induction l as [|z l IH]; cbn [ins_sorted In]; [intuition congruence|].
  destruct (y <=? z); cbn [In]; [intuition congruence|]. rewrite IH. intuition congruence.
Qed.

Lemma NoDup_ins_sorted y l : NoDup l -> ~ In y l -> NoDup (ins_sorted y l).
Proof.
  induction l as [|z l IH]; cbn [ins_sorted]; intros ND Hn.
  - constructor; [tauto|constructor].
  - destruct (y <=? z); [constructor; assumption|].
    inversion ND as [|a b Hz ND']; subst a b. cbn [In] in Hn. constructor.
    + rewrite In_ins_sorted. intros [E|H]; [subst z; tauto|tauto].
    + apply IH; tauto.
Qed.

Lemma In_sortN x l : In x (sortN l) <-> In x l.
Proof.
  induction l as [|y l IH]; cbn [sortN fold_right In]; [tauto|].
  fold (sortN l). rewrite In_ins_sorted, IH. intuition congruence.
Qed.

Lemma NoDup_sortN l : NoDup l -> NoDup (sortN l).
Proof.
  induction l as [|y l IH]; cbn [sortN fold_right]; intros ND; [constructor|].
  fold (sortN l). inversion ND as [|a b Hy ND']; subst a b.
  apply NoDup_ins_sorted; [exact (IH ND')|]. rewrite In_sortN. exact Hy.
Qed.

Lemma nodupb_NoDup l : NoDup l -> nodupb l = true.
Proof.
  induction l as [|x l IH]; cbn [nodupb]; intros ND; [reflexivity|].
  inversion ND as [|a b Hx ND']; subst a b. rewrite (IH ND'), andb_true_r.
  apply negb_true_iff. apply memN_false. exact Hx.
Qed.

Lemma NoDup_nodupb l : nodupb l = true -> NoDup l.
Proof.
  induction l as [|x l IH]; cbn [nodupb]; intros H; [constructor|].
  apply andb_true_iff in H. destruct H as [H1 H2]. constructor; [|exact (IH H2)].
  apply memN_false. apply negb_true_iff. exact H1.
Qed.

(** * the oracle accepts the model *)

Lemma ok_callers_map l s cs :
  (forall c, In c cs -> ok_caller l c (oc_of s c) = true) -> ok_callers l cs (map (oc_of s) cs) = true.
Proof.
  induction cs as [|c cs IH]; cbn [map ok_callers]; intros H; [reflexivity|].
  rewrite (H c (or_introl eq_refl)). cbn [andb]. apply IH. intros c' Hc'. apply H. right. exact Hc'.
Qed.

Lemma ok_caller_final ws l s c :
  Hist ws l s -> m_matched s = None -> ok_caller l c (oc_of s c) = true.
Proof.
  intros [T1 T2 T3 T4 T6 T7 T8 T5] M. unfold oc_of. destruct (aget (m_out s) c) as [[f| | | |]|] eqn:O; cbn [ok_caller].
  - apply aget_Some_In in O. destruct (T1 c f (or_intror O)) as [A B].
    rewrite A, N.eqb_refl. cbn [andb]. apply memN_In. exact B.
  - apply aget_Some_In in O. exact (T2 c O).
  - apply aget_Some_In in O. exact (T3 c O).
  - apply aget_Some_In in O. exact (T6 c O).
  - apply aget_Some_In in O. exact (T7 c O).
  - destruct (replied l c) eqn:R; [|reflexivity]. exfalso.
    destruct (T4 c R) as [A|[f A]]; congruence.
Qed.

Lemma listN_eqb_refl' l : listN_eqb l l = true.
Proof. exact (listN_eqb_refl l). Qed.

Lemma C04_holds_lemma cs : c04_wf cs = true -> ok_C04 cs (model_C04 cs) = true.
Proof.
  unfold c04_wf. intros Hwf.
  apply andb_true_iff in Hwf. destruct Hwf as [Hwf _].
  apply andb_true_iff in Hwf. destruct Hwf as [Hwf Hso].
  apply andb_true_iff in Hwf. destruct Hwf as [Hwf Hen].
  apply andb_true_iff in Hwf. destruct Hwf as [Hwf Hok].
  apply andb_true_iff in Hwf. destruct Hwf as [Hn Hlen].
  apply N.ltb_lt in Hn. apply N.ltb_lt in Hlen.
  destruct (Hist_run (c_ws cs) (c_n cs) (c_sched cs) [] mux0 (Inv0 _) (Hist0 _) Cnt0 Hn Hok Hen Hso) as [HI [HH HC]].
  { cbn [mux0 m_next]. unfold two32, two64 in *. lia. }
  cbn [app] in HH, HC.
  pose proof (Inv_deliver _ _ HI) as HId. pose proof (Hist_deliver _ _ _ HH) as HHd.
  unfold ok_C04, model_C04, obs_of. cbn [o_out o_sub o_ids].
  rewrite ok_callers_map.
  - cbn [andb]. rewrite (H_sub _ _ _ HHd), listN_eqb_refl. cbn [andb].
    unfold counter_ids. apply nodupb_NoDup, NoDup_sortN. rewrite deliver_wire.
    exact (counter_ids_nodup _ _ _ HI HC).
  - intros c _. eapply ok_caller_final; [exact HHd|apply deliver_matched].
Qed.

(** * batch workers *)

Lemma nth_error_set_nth {A} (l : list A) i j x :
  nth_error (set_nth i x l) j
  = if Nat.eqb i j then (match nth_error l j with Some _ => Some x | None => None end) else nth_error l j.
Proof.
  revert i j. induction l as [|y l IH]; intros i j.
  - destruct i; cbn [set_nth]; destruct j; cbn [nth_error Nat.eqb]; try reflexivity.
    destruct (Nat.eqb i j); reflexivity.
  - destruct i as [|i], j as [|j]; cbn [set_nth nth_error Nat.eqb]; try reflexivity. apply IH.
Qed.

Lemma set_nth_length {A} (l : list A) i x : length (set_nth i x l) = length l.
Proof.
  revert i. induction l as [|y l IH]; intros i; destruct i; cbn [set_nth length]; try reflexivity.
  rewrite IH. reflexivity.
Qed.

(** an item (index, request) is genuine when the request is the one at that index *)
Definition genuine (reqs : list N) (it : N * N) : Prop := nth_error reqs (N.to_nat (fst it)) = Some (snd it).

Lemma combine_seq_genuine (suffix : list N) : forall pre,
  Forall (genuine (pre ++ suffix)) (combine (map N.of_nat (seq (length pre) (length suffix))) suffix).
Proof.
  induction suffix as [|r suffix IH]; intros pre; cbn [length seq map combine]; [constructor|].
  constructor.
  - unfold genuine. cbn [fst snd]. rewrite Nat2N.id. rewrite nth_error_app2 by lia.
    replace (length pre - length pre)%nat with 0%nat by lia. reflexivity.
  - specialize (IH (pre ++ [r])). rewrite <- app_assoc in IH. cbn [app] in IH.
    rewrite app_length in IH. cbn [length] in IH. replace (length pre + 1)%nat with (S (length pre)) in IH by lia.
    exact IH.
Qed.

Lemma indexed_genuine reqs : Forall (genuine reqs) (indexed reqs).
Proof. exact (combine_seq_genuine reqs []). Qed.

Record Binv (res_of : N -> N) (reqs : list N) (s : batch) : Prop := mkBinv {
  B_queue : Forall (genuine reqs) (b_queue s);
  B_hold : forall w it, In (w, it) (b_hold s) -> genuine reqs it;
  B_res : forall i r, nth_error (b_res s) i = Some (Some r) ->
      exists q, nth_error reqs i = Some q /\ r = res_of q
}.

Lemma Binv0 res_of reqs : Binv res_of reqs (batch0 reqs).
Proof.
  constructor; cbn [batch0 b_queue b_hold b_res].
  - apply indexed_genuine.
  - intros w it H. contradiction.
  - intros i r H. exfalso. apply nth_error_In in H. apply repeat_spec in H. discriminate.
Qed.

Lemma Binv_step res_of reqs s w : Binv res_of reqs s -> Binv res_of reqs (bstep res_of s w).
Proof.
  intros [Q H R]. unfold bstep. destruct (aget (b_hold s) w) as [[i r]|] eqn:E.
  - apply aget_Some_In in E. pose proof (H _ _ E) as G. unfold genuine in G. cbn [fst snd] in G.
    constructor; cbn [b_queue b_hold b_res].
    + exact Q.
    + intros w' it Hin. destruct it as [i' r']. apply In_adel in Hin. destruct Hin as [_ Hin]. exact (H _ _ Hin).
    + intros j x Hj. rewrite nth_error_set_nth in Hj. destruct (Nat.eqb_spec (N.to_nat i) j) as [Ej|Ej].
      * subst j. destruct (nth_error (b_res s) (N.to_nat i)); [|discriminate]. inversion Hj; subst x.
        exists r. split; [exact G|reflexivity].
      * exact (R j x Hj).
  - destruct (b_queue s) as [|it q] eqn:Eq; [constructor; rewrite ?Eq; assumption|].
    inversion Q as [|a b Ga Gq]; subst a b.
    constructor; cbn [b_queue b_hold b_res].
    + exact Gq.
    + intros w' it' [Hin|Hin]; [inversion Hin; subst; exact Ga|exact (H _ _ Hin)].
    + exact R.
Qed.

Lemma Binv_run res_of reqs sched : Binv res_of reqs (brun res_of reqs sched).
Proof.
  unfold brun. generalize (Binv0 res_of reqs). generalize (batch0 reqs).
  induction sched as [|w sched IH]; intros s HB; cbn [fold_left]; [exact HB|].
  apply IH. apply Binv_step. exact HB.
Qed.

(** no request is lost: an index without a result is still queued or held *)
Record Bfull (reqs : list N) (s : batch) : Prop := mkBfull {
  F_len : length (b_res s) = length reqs;
  F_nd : NoDup (map fst (b_hold s));
  F_none : forall i, nth_error (b_res s) i = Some None ->
      (exists r, In (N.of_nat i, r) (b_queue s)) \/ (exists w r, In (w, (N.of_nat i, r)) (b_hold s))
}.

Lemma In_combine_seq (l : list N) : forall a i r,
  nth_error l i = Some r -> In (N.of_nat (a + i), r) (combine (map N.of_nat (seq a (length l))) l).
Proof.
  induction l as [|x l IH]; intros a i r H; [destruct i; discriminate|].
  cbn [length seq map combine]. destruct i as [|i]; cbn [nth_error] in H.
  - inversion H; subst x. left. rewrite Nat.add_0_r. reflexivity.
  - right. replace (a + S i)%nat with (S a + i)%nat by lia. apply IH. exact H.
Qed.

Lemma nth_error_repeat_None {A} (n i : nat) (x : option A) :
  nth_error (repeat (@None A) n) i = Some x -> (i < n)%nat.
Proof. intros H. rewrite <- (repeat_length (@None A) n). apply nth_error_Some. congruence. Qed.

Lemma Bfull0 reqs : Bfull reqs (batch0 reqs).
Proof.
  constructor; cbn [batch0 b_queue b_hold b_res].
  - apply repeat_length.
  - constructor.
  - intros i H. left. apply nth_error_repeat_None in H.
    destruct (nth_error reqs i) as [r|] eqn:E; [|apply nth_error_None in E; lia].
    exists r. exact (In_combine_seq reqs 0 i r E).
Qed.

Lemma Bfull_step res_of reqs s w : Bfull reqs s -> Bfull reqs (bstep res_of s w).
Proof.
  intros [L ND F]. unfold bstep. destruct (aget (b_hold s) w) as [[i0 r0]|] eqn:E.
  - constructor; cbn [b_queue b_hold b_res].
    + rewrite set_nth_length. exact L.
    + apply NoDup_adel. exact ND.
    + intros i H. rewrite nth_error_set_nth in H. destruct (Nat.eqb_spec (N.to_nat i0) i) as [Ei|Ei].
      * destruct (nth_error (b_res s) i); discriminate.
      * destruct (F i H) as [A|[w' [r A]]]; [left; exact A|]. right. exists w', r.
        apply In_adel. split; [|exact A]. intros Ew. subst w'.
        apply aget_Some_In in E. pose proof (assoc_fun _ _ _ _ ND E A) as X. inversion X. subst i0.
        apply Ei. apply Nat2N.id.
  - destruct (b_queue s) as [|it q] eqn:Eq; [constructor; rewrite ?Eq; assumption|].
    constructor; cbn [b_queue b_hold b_res].
    + exact L.
    + cbn [map fst]. constructor; [apply aget_None; exact E|exact ND].
    + intros i H. destruct (F i H) as [[r [A|A]]|[w' [r A]]].
      * right. exists w, r. left. subst it. reflexivity.
      * left. exists r. exact A.
      * right. exists w', r. right. exact A.
Qed.

Lemma Bfull_run res_of reqs sched : Bfull reqs (brun res_of reqs sched).
Proof.
  unfold brun. generalize (Bfull0 reqs). generalize (batch0 reqs).
  induction sched as [|w sched IH]; intros s HB; cbn [fold_left]; [exact HB|].
  apply IH. apply Bfull_step. exact HB.
Qed.

(** whatever the workers' schedule, a stored result sits at the index of the
    request it answers; and when all workers are done every request has its result *)
Lemma batch_aligned_lemma res_of reqs sched i r :
  nth_error (b_res (brun res_of reqs sched)) i = Some (Some r) ->
  exists q, nth_error reqs i = Some q /\ r = res_of q.
Proof. exact (B_res _ _ _ (Binv_run res_of reqs sched) i r). Qed.

Lemma batch_complete_lemma res_of reqs sched i q :
  b_queue (brun res_of reqs sched) = [] -> b_hold (brun res_of reqs sched) = [] ->
  nth_error reqs i = Some q ->
  nth_error (b_res (brun res_of reqs sched)) i = Some (Some (res_of q)).
Proof.
  intros Hq Hh Hi. pose proof (Bfull_run res_of reqs sched) as [L ND F].
  pose proof (Binv_run res_of reqs sched) as [_ _ R].
  destruct (nth_error (b_res (brun res_of reqs sched)) i) as [[r|]|] eqn:E.
  - destruct (R i r E) as [q' [A B]]. congruence.
  - exfalso. destruct (F i E) as [[r A]|[w [r A]]]; [rewrite Hq in A|rewrite Hh in A]; contradiction.
  - exfalso. apply nth_error_None in E. rewrite L in E.
    assert (nth_error reqs i <> None) by congruence. apply nth_error_Some in H. lia.
Qed.

(** * statements over every reachable state *)

Lemma next_run ws l : forall s, m_next s + N.of_nat (length l) < two64 ->
  m_next (run ws s l) <= m_next s + N.of_nat (length l).
Proof.
  induction l as [|st l IH]; intros s Hb; cbn [run fold_left length]; [lia|].
  cbn [length] in Hb. pose proof (next_step ws s st). 
  assert (m_next s + 1 < two64) by lia. specialize (H H0).
  fold (run ws (mstep ws s st) l). specialize (IH (mstep ws s st)). lia.
Qed.

Lemma nofwd_reach ws l : N.of_nat (length l) + 2 < two64 -> existsb is_forward l = false ->
  Inv ws (run ws mux0 l) /\ Low (run ws mux0 l).
Proof.
  intros Hb Hnf. destruct (nofwd_run ws l mux0 (Inv0 ws) Low0) as [F L]; [cbn [mux0 m_next]; lia|exact Hnf|].
  split; [apply Inv_reach; exact Hb|exact L].
Qed.

Lemma ids_fresh_reach ws l id c : N.of_nat (length l) + 2 < two64 -> existsb is_forward l = false ->
  In (id, c) (m_pending (run ws mux0 l)) -> id < m_next (run ws mux0 l).
Proof. intros Hb Hnf. destruct (nofwd_reach ws l Hb Hnf) as [HI HL]. exact (ids_fresh_inv ws _ id c HI HL). Qed.

Lemma register_never_collides_reach ws l : N.of_nat (length l) + 2 < two64 -> existsb is_forward l = false ->
  aget (m_pending (run ws mux0 l)) (m_next (run ws mux0 l)) = None.
Proof. intros Hb Hnf. destruct (nofwd_reach ws l Hb Hnf) as [HI HL]. exact (Low_pending ws _ HI HL). Qed.

(** ** when no accepted registration reuses an id *)

Lemma Uniq_step ws s st : Uniq s -> fresh_reg s st = true -> Uniq (mstep ws s st).
Proof.
  intros HU Hf. destruct (registers st) eqn:Hr.
  - unfold mstep. destruct (negb (enabled s st)); [exact HU|]. unfold Uniq in *.
    destruct st as [c|c|f|a| |c|c|c id|c]; try discriminate; cbn [fresh_reg] in Hf.
    + destruct (isSome (aget (m_pending s) (m_next s))); simp_m; [exact HU|].
      cbn [orb] in Hf. apply negb_true_iff, memN_false in Hf.
      rewrite map_app. cbn [map snd]. apply NoDup_snoc; assumption.
    + destruct (isSome (aget (m_pending s) id)); simp_m; [exact HU|].
      cbn [orb] in Hf. apply negb_true_iff, memN_false in Hf.
      rewrite map_app. cbn [map snd]. apply NoDup_snoc; assumption.
  - unfold Uniq. destruct (noreg_step ws s st Hr) as [E _]. rewrite E. exact HU.
Qed.

Lemma Uniq_run ws l : forall s, Uniq s -> all_fresh ws s l = true -> Uniq (run ws s l).
Proof.
  induction l as [|st l IH]; intros s HU Hf; cbn [run fold_left]; [exact HU|].
  cbn [all_fresh] in Hf. apply andb_true_iff in Hf. destruct Hf as [Hf1 Hf2].
  apply IH; [apply Uniq_step; assumption|exact Hf2].
Qed.

Lemma Uniq0 : Uniq mux0.
Proof. constructor. Qed.

Lemma ids_distinct_reach ws l : N.of_nat (length l) + 2 < two64 -> all_fresh ws mux0 l = true ->
  NoDup (map snd (m_issued (run ws mux0 l))) /\ NoDup (map snd (m_wire (run ws mux0 l))).
Proof.
  intros Hb Hf. apply (ids_distinct_inv ws); [apply Inv_reach; exact Hb|apply Uniq_run; [exact Uniq0|exact Hf]].
Qed.

(** the legacy cleanup (remove by id alone) is the same function wherever no id
    was registered twice *)
Lemma adel_absent {V} (l : list (N * V)) k : aget l k = None -> adel l k = l.
Proof.
  induction l as [|[k0 v0] l IH]; cbn [aget adel]; [reflexivity|].
  destruct (k0 =? k); [discriminate|]. intros H. rewrite (IH H). reflexivity.
Qed.

Lemma finish_legacy_same ws s c o : Inv ws s -> Uniq s -> finish_legacy s c o = finish s c o.
Proof.
  intros HI HU. unfold finish_legacy, finish. destruct (aget (m_issued s) c) as [id|] eqn:Hi; [|reflexivity].
  destruct (aget (m_pending s) id) as [c0|] eqn:P.
  - destruct (N.eqb_spec c0 c) as [E|E]; [reflexivity|]. exfalso. apply E.
    apply aget_Some_In in P. destruct (I_pend_iss _ _ HI _ _ P) as [A _]. apply aget_Some_In in Hi.
    exact (assoc_inj _ _ _ _ HU A Hi).
  - rewrite (adel_absent _ _ P). reflexivity.
Qed.

Lemma mstep_legacy_same ws s st : Inv ws s -> Uniq s -> mstep_legacy ws s st = mstep ws s st.
Proof.
  intros HI HU. destruct st; try reflexivity; unfold mstep_legacy, mstep;
    (destruct (enabled s _); cbn [negb]; [apply (finish_legacy_same ws); assumption|reflexivity]).
Qed.

Lemma run_legacy_same ws l : forall s, Inv ws s -> Uniq s -> m_next s + N.of_nat (length l) < two64 ->
  all_fresh ws s l = true -> run_legacy ws s l = run ws s l.
Proof.
  induction l as [|st l IH]; intros s HI HU Hb Hf; cbn [run_legacy run fold_left]; [reflexivity|].
  cbn [all_fresh] in Hf. apply andb_true_iff in Hf. destruct Hf as [Hf1 Hf2]. cbn [length] in Hb.
  rewrite (mstep_legacy_same ws s st HI HU).
  apply IH.
  - apply Inv_step; [exact HI|lia].
  - apply Uniq_step; assumption.
  - pose proof (next_step ws s st). lia.
  - exact Hf2.
Qed.

Lemma legacy_same_reach ws l : N.of_nat (length l) + 2 < two64 -> all_fresh ws mux0 l = true ->
  run_legacy ws mux0 l = run ws mux0 l.
Proof. intros Hb Hf. apply run_legacy_same; [apply Inv0|exact Uniq0|cbn [mux0 m_next]; lia|exact Hf]. Qed.

(** ** counter-issued ids strictly increase *)

Lemma next_mono_step ws s st : m_next s + 1 < two64 -> m_next s <= m_next (mstep ws s st).
Proof.
  intros Hb. destruct (registers st) eqn:Hr.
  - unfold mstep. destruct (negb (enabled s st)); [lia|].
    assert (Hmod : (m_next s + 1) mod two64 = m_next s + 1) by (apply N.mod_small; exact Hb).
    destruct st as [c|c|f|a| |c|c|c id|c]; try discriminate.
    + destruct (isSome (aget (m_pending s) (m_next s))); simp_m; lia.
    + destruct (isSome (aget (m_pending s) id)); simp_m; lia.
  - destruct (noreg_step ws s st Hr) as [_ E]. rewrite E. lia.
Qed.

Lemma next_mono_run ws l : forall s, m_next s + N.of_nat (length l) < two64 -> m_next s <= m_next (run ws s l).
Proof.
  induction l as [|st l IH]; intros s Hb; cbn [run fold_left]; [lia|]. cbn [length] in Hb.
  pose proof (next_mono_step ws s st). pose proof (next_step ws s st).
  fold (run ws (mstep ws s st) l). specialize (IH (mstep ws s st)). lia.
Qed.

Lemma counter_ids_increase ws l1 l2 c :
  N.of_nat (length l1 + length l2) + 3 < two64 -> enabled (run ws mux0 l1) (Register c) = true ->
  m_next (run ws mux0 l1) < m_next (run ws mux0 (l1 ++ Register c :: l2)).
Proof.
  intros Hb En. unfold run at 2. rewrite fold_left_app. cbn [fold_left]. fold (run ws mux0 l1).
  set (s := run ws mux0 l1) in *. fold (run ws (mstep ws s (Register c)) l2).
  assert (Hs : m_next s <= 1 + N.of_nat (length l1)).
  { pose proof (next_run ws l1 mux0) as Hn. cbn [mux0 m_next] in Hn. apply Hn. lia. }
  assert (H1 : m_next (mstep ws s (Register c)) = m_next s + 1).
  { unfold mstep. rewrite En. cbn [negb].
    assert (Hmod : (m_next s + 1) mod two64 = m_next s + 1) by (apply N.mod_small; lia).
    destruct (isSome (aget (m_pending s) (m_next s))); simp_m; exact Hmod. }
  pose proof (next_mono_run ws l2 (mstep ws s (Register c))) as H2. rewrite H1 in H2.
  assert (m_next s + 1 + N.of_nat (length l2) < two64) by lia. specialize (H2 H). lia.
Qed.

Lemma pending_inj_reach ws l : N.of_nat (length l) + 2 < two64 ->
  NoDup (map fst (m_pending (run ws mux0 l))) /\
  forall id1 id2 c, In (id1, c) (m_pending (run ws mux0 l)) -> In (id2, c) (m_pending (run ws mux0 l)) -> id1 = id2.
Proof.
  intros Hb. pose proof (Inv_reach ws l Hb) as HI. split; [exact (I_pend_nd _ _ HI)|].
  intros id1 id2 c. apply (pending_inj_inv ws). exact HI.
Qed.

Lemma own_response_reach ws l c f : N.of_nat (length l) + 2 < two64 ->
  In (c, OGot f) (m_out (run ws mux0 l)) -> aget (m_issued (run ws mux0 l)) c = Some (f_id f).
Proof. intros Hb. apply (own_response_inv ws). apply Inv_reach; assumption. Qed.

Lemma at_most_one_reach ws l : N.of_nat (length l) + 2 < two64 ->
  NoDup (map fst (m_out (run ws mux0 l))).
Proof. intros Hb. exact (I_out_nd _ _ (Inv_reach ws l Hb)). Qed.

Lemma ws_no_notify_to_caller_reach l c f : N.of_nat (length l) + 2 < two64 ->
  In (c, OGot f) (m_out (run true mux0 l)) -> f_notify f = 0.
Proof. intros Hb Hin. destruct (I_out _ _ (Inv_reach true l Hb) _ _ Hin) as [_ A]. exact (A eq_refl). Qed.

Lemma ws_notify_readable s f : f_notify f <> 0 ->
  let s' := mstep true s (Recv f) in
  m_pending s' = m_pending s /\ m_out s' = m_out (deliver s) /\ m_sub s' = m_sub s ++ [f] /\
  m_dropped s' = m_dropped (deliver s) /\ m_matched s' = None.
Proof.
  intros Hn s'. unfold s'. rewrite (ws_notify_gen s f Hn). simp_m.
  rewrite deliver_pending, deliver_sub, deliver_matched. repeat split; reflexivity.
Qed.

(** * a call with a caller-supplied id that is in flight *)

Lemma forward_refused_state ws s c id o :
  aget (m_pending s) id = Some o -> enabled s (Forward c id) = true ->
  mstep ws s (Forward c id)
  = mkMux (m_next s) (m_pending s) (m_issued s) (m_wire s) (m_matched s) (m_out s ++ [(c, ORefused)]) (m_sub s) (m_dropped s).
Proof. intros P En. unfold mstep. rewrite En, P. reflexivity. Qed.

Lemma forward_keeps ws s c id o :
  aget (m_pending s) id = Some o ->
  m_pending (mstep ws s (Forward c id)) = m_pending s /\ m_matched (mstep ws s (Forward c id)) = m_matched s /\
  m_issued (mstep ws s (Forward c id)) = m_issued s /\ m_next (mstep ws s (Forward c id)) = m_next s.
Proof.
  intros P. unfold mstep. destruct (negb (enabled s (Forward c id))); [repeat split; reflexivity|].
  rewrite P. repeat split; reflexivity.
Qed.

Lemma forward_refused_owner ws s c id o f :
  aget (m_pending s) id = Some o -> m_matched s = None -> ws && negb (f_notify f =? 0) = false -> f_id f = id ->
  m_matched (mstep ws (mstep ws s (Forward c id)) (Recv f)) = Some (o, f).
Proof.
  intros P M E Hid. destruct (forward_keeps ws s c id o P) as [K1 [K2 _]].
  rewrite mstep_recv. rewrite deliver_none by (rewrite K2; exact M).
  unfold route. rewrite E, K1, Hid, P. reflexivity.
Qed.

Lemma issued_mono_step ws s st c id : In (c, id) (m_issued s) -> In (c, id) (m_issued (mstep ws s st)).
Proof.
  intros Hin. unfold mstep. destruct (negb (enabled s st)); [exact Hin|].
  destruct st as [c0|c0|f|a| |c0|c0|c0 i|c0].
  - destruct (isSome (aget (m_pending s) (m_next s))); simp_m; [exact Hin|apply in_or_app; left; exact Hin].
  - destruct (aget (m_issued s) c0); simp_m; exact Hin.
  - rewrite route_issued, deliver_issued. exact Hin.
  - destruct (frame_of s a); [rewrite route_issued, deliver_issued|]; exact Hin.
  - rewrite deliver_issued. exact Hin.
  - rewrite finish_issued. exact Hin.
  - rewrite finish_issued. exact Hin.
  - destruct (isSome (aget (m_pending s) i)); simp_m; [exact Hin|apply in_or_app; left; exact Hin].
  - simp_m. exact Hin.
Qed.

Lemma issued_mono_run ws l : forall s c id, In (c, id) (m_issued s) -> In (c, id) (m_issued (run ws s l)).
Proof.
  induction l as [|st l IH]; intros s c id Hin; cbn [run fold_left]; [exact Hin|].
  apply (IH (mstep ws s st)). apply issued_mono_step. exact Hin.
Qed.

Lemma forward_refused_continuation ws s c id o l f :
  Inv ws s -> aget (m_pending s) id = Some o ->
  m_next s + N.of_nat (length l) + 1 < two64 ->
  In (o, OGot f) (m_out (run ws (mstep ws s (Forward c id)) l)) -> f_id f = id.
Proof.
  intros HI P Hb Hin.
  assert (HI' : Inv ws (mstep ws s (Forward c id))) by (apply Inv_step; [exact HI|lia]).
  destruct (forward_keeps ws s c id o P) as [_ [_ [K3 K4]]].
  assert (HIr : Inv ws (run ws (mstep ws s (Forward c id)) l)).
  { apply Inv_run; [exact HI'|]. rewrite K4. lia. }
  pose proof (own_response_inv ws _ o f HIr Hin) as A.
  apply aget_Some_In in P. destruct (I_pend_iss _ _ HI _ _ P) as [B _].
  rewrite <- K3 in B. apply (issued_mono_run ws l) in B.
  apply (In_aget _ _ _ (I_iss_c _ _ HIr)) in B. congruence.
Qed.

Lemma forward_duplicate_refused_reach ws l0 c id o :
  N.of_nat (length l0) + 2 < two64 ->
  let s := run ws mux0 l0 in
  aget (m_pending s) id = Some o -> enabled s (Forward c id) = true ->
  let s' := mstep ws s (Forward c id) in
  s' = mkMux (m_next s) (m_pending s) (m_issued s) (m_wire s) (m_matched s) (m_out s ++ [(c, ORefused)]) (m_sub s) (m_dropped s) /\
  (forall f, m_matched s = None -> ws && negb (f_notify f =? 0) = false -> f_id f = id ->
     m_matched (mstep ws s' (Recv f)) = Some (o, f)) /\
  (forall l f, N.of_nat (length l0 + length l) + 3 < two64 ->
     In (o, OGot f) (m_out (run ws s' l)) -> f_id f = id).
Proof.
  intros Hb s P En s'. split; [exact (forward_refused_state ws s c id o P En)|]. split.
  - intros f M E Hid. exact (forward_refused_owner ws s c id o f P M E Hid).
  - intros l f Hb2 Hin. eapply (forward_refused_continuation ws s c id o l f); try eassumption.
    + apply Inv_reach; assumption.
    + pose proof (next_run ws l0 mux0) as Hn. cbn [mux0 m_next] in Hn. fold s in Hn.
      assert (1 + N.of_nat (length l0) < two64) by lia. specialize (Hn H). lia.
Qed.

(** a WebSocket client without a subscriber: same calls, nothing delivered *)
Lemma C04_holds_nosub_lemma cs : c04_wf cs = true -> ok_C04_nosub cs (model_C04_nosub cs) = true.
Proof.
  intros H. pose proof (C04_holds_lemma cs H) as K. unfold ok_C04 in K.
  apply andb_prop in K as [K K3]. apply andb_prop in K as [K1 _].
  unfold ok_C04_nosub, model_C04_nosub, drop_sub. cbn [o_out o_sub o_ids].
  rewrite K1, K3. reflexivity.
Qed.
