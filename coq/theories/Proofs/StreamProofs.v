(** Proofs about the TransferControl / ReplayRing model (Model/Stream.v) and the
    C11 / C13 oracles (Model/C11.v). *)
From RepeV Require Import Model.C11.
From Coq Require Import ZifyBool ZifyN ZifyNat.
Ltac Zify.zify_post_hook ::= Z.div_mod_to_equations.

Ltac proj :=
  cbn [fst snd t_window t_sent t_acked t_file t_cancelled t_ring t_held t_cap t_peer t_pending
       n_sent n_acked n_cancel n_peer n_ring snap_of
       k_file k_cancel k_prev j_file j_cancel j_pushed j_pending j_prev j_accepted].

Ltac proj_in H :=
  cbn [fst snd t_window t_sent t_acked t_file t_cancelled t_ring t_held t_cap t_peer t_pending
       n_sent n_acked n_cancel n_peer n_ring snap_of
       k_file k_cancel k_prev j_file j_cancel j_pushed j_pending j_prev j_accepted] in H.

Ltac split_match :=
  repeat match goal with
         | |- context [match ?x with _ => _ end] => destruct x eqn:?
         end.

(** * Generalities *)

Lemma ring_push_eq s c :
  ring_push s c =
  mkTc (t_window s) (t_sent s) (t_acked s) (t_file s) (t_cancelled s)
       (fst (evict (t_ring s ++ [c]) (sat_add64 (t_held s) (wire c)) (t_cap s)))
       (snd (evict (t_ring s ++ [c]) (sat_add64 (t_held s) (wire c)) (t_cap s)))
       (t_cap s) (t_peer s) (t_pending s).
Proof. unfold ring_push. destruct (evict _ _ _); reflexivity. Qed.

Lemma exec_cons s o ops : exec s (o :: ops) = exec (fst (step s o)) ops.
Proof. reflexivity. Qed.

Lemma exec_nil s : exec s [] = s.
Proof. reflexivity. Qed.

Lemma tc_eta s :
  mkTc (t_window s) (t_sent s) (t_acked s) (t_file s) (t_cancelled s) (t_ring s) (t_held s)
       (t_cap s) (t_peer s) (t_pending s) = s.
Proof. destruct s; reflexivity. Qed.

(** * C11: credit accounting *)

Lemma step_acked_le_sent s o :
  t_acked s <= t_sent s -> t_acked (fst (step s o)) <= t_sent (fst (step s o)).
Proof.
  intros H. destruct o; cbn [step]; try rewrite ring_push_eq; split_match; proj; lia.
Qed.

Lemma step_window s o : t_window (fst (step s o)) = t_window s.
Proof.
  destruct o; cbn [step]; try rewrite ring_push_eq; split_match; proj; reflexivity.
Qed.

Lemma step_cap s o : t_cap (fst (step s o)) = t_cap s.
Proof.
  destruct o; cbn [step]; try rewrite ring_push_eq; split_match; proj; reflexivity.
Qed.

Lemma exec_acked_le_sent ops : forall s, t_acked s <= t_sent s -> t_acked (exec s ops) <= t_sent (exec s ops).
Proof.
  induction ops as [|o ops IH]; intros s H; [exact H|].
  rewrite exec_cons. apply IH. now apply step_acked_le_sent.
Qed.

Lemma acked_le_sent w c ops : t_acked (exec (init w c) ops) <= t_sent (exec (init w c) ops).
Proof. apply exec_acked_le_sent. cbn [init t_acked t_sent]. lia. Qed.

Lemma stale_ack_no_credit s f n :
  t_acked s <= t_sent s -> (f <> t_file s \/ n <= t_acked s) -> fst (step s (Ack f n)) = s.
Proof.
  intros H Hs. cbn [step]. destruct (f =? t_file s) eqn:Ef; [|reflexivity].
  destruct (t_acked s <? N.min n (t_sent s)) eqn:El; cbn [fst]; [lia|apply tc_eta].
Qed.

Lemma ack_monotone_capped s f n :
  t_acked s <= t_sent s ->
  let s' := fst (step s (Ack f n)) in
  t_acked s <= t_acked s' /\ t_acked s' <= t_sent s' /\ t_sent s' = t_sent s.
Proof.
  intros H. cbn zeta. cbn [step]. split_match; proj; lia.
Qed.

Lemma grant_iff s len :
  t_window s < two64 ->
  (step s (TryCredit len) = (s, OGranted) <->
   t_cancelled s = None /\ (in_flight s = 0 \/ in_flight s + len <= t_window s)).
Proof.
  intros Hw. cbn [step]. unfold in_flight.
  destruct (t_cancelled s) as [r|] eqn:Ec.
  - split; [intros E; discriminate E|intros [E _]; discriminate E].
  - unfold credit_ok.
    destruct ((t_sent s - t_acked s =? 0)
              || (t_sent s - t_acked s + len <? two64) && (t_sent s - t_acked s + len <=? t_window s)) eqn:E.
    + split; [intros _; split; [reflexivity|lia]|reflexivity].
    + split; [intros E'; discriminate E'|intros [_ E']; lia].
Qed.

(** ** a producer that waits for credit *)
Inductive ev := Produce (len : N) | Env (o : op).

Definition env_ok (o : op) : bool := match o with Sent _ => false | _ => true end.

Definition run_ev (s : tc) (e : ev) : tc :=
  match e with
  | Produce len =>
      match snd (step s (TryCredit len)) with
      | OGranted => fst (step s (Sent (t_sent s + len)))
      | _ => s
      end
  | Env o => if env_ok o then fst (step s o) else s
  end.

Definition ev_len (e : ev) : N := match e with Produce l => l | _ => 0 end.

Lemma step_env_in_flight s o :
  env_ok o = true -> t_acked s <= t_sent s -> in_flight (fst (step s o)) <= in_flight s.
Proof.
  intros He H. unfold in_flight.
  destruct o; try discriminate He; cbn [step]; try rewrite ring_push_eq; split_match; proj; lia.
Qed.

Lemma run_ev_inv w M s e :
  ev_len e <= M -> t_window s = w -> t_acked s <= t_sent s -> in_flight s <= N.max w M ->
  t_window (run_ev s e) = w /\ t_acked (run_ev s e) <= t_sent (run_ev s e) /\
  in_flight (run_ev s e) <= N.max w M.
Proof.
  intros Hl Hw Hi Hf. destruct e as [len|o]; cbn [ev_len] in Hl.
  - unfold run_ev. cbn [step]. destruct (t_cancelled s) as [r|]; cbn [snd]; [auto|].
    destruct (credit_ok s len) eqn:Ec; [|auto].
    unfold credit_ok in Ec. unfold in_flight in *. proj.
    destruct (t_sent s <? t_sent s + len) eqn:El; lia.
  - unfold run_ev. destruct (env_ok o) eqn:Ee; [|auto].
    split; [rewrite step_window; exact Hw|].
    split; [now apply step_acked_le_sent|].
    pose proof (step_env_in_flight s o Ee Hi). lia.
Qed.

Lemma producer_bound_gen w M evs : forall s,
  (forall e, In e evs -> ev_len e <= M) ->
  t_window s = w -> t_acked s <= t_sent s -> in_flight s <= N.max w M ->
  in_flight (fold_left run_ev evs s) <= N.max w M.
Proof.
  induction evs as [|e evs IH]; intros s Hall Hw Hi Hf; [exact Hf|].
  cbn [fold_left].
  destruct (run_ev_inv w M s e (Hall e (or_introl eq_refl)) Hw Hi Hf) as (Hw' & Hi' & Hf').
  apply IH; auto. intros e' He'. apply Hall. now right.
Qed.

Lemma producer_bound w c evs M :
  (forall e, In e evs -> ev_len e <= M) ->
  in_flight (fold_left run_ev evs (init w c)) <= N.max w M.
Proof.
  intros Hall. apply producer_bound_gen; auto; unfold in_flight; cbn [init t_window t_acked t_sent]; lia.
Qed.

(** ** cancellation *)
Lemma step_cancel_sticky s r o : t_cancelled s = Some r -> t_cancelled (fst (step s o)) = Some r.
Proof.
  intros H. destruct o; cbn [step]; try rewrite ring_push_eq; rewrite ?H; split_match; proj;
    try exact H; try reflexivity.
Qed.

Lemma cancel_sticky ops : forall s r, t_cancelled s = Some r -> t_cancelled (exec s ops) = Some r.
Proof.
  induction ops as [|o ops IH]; intros s r H; [exact H|].
  rewrite exec_cons. apply IH. now apply step_cancel_sticky.
Qed.

Lemma cancelled_reports s r :
  t_cancelled s = Some r ->
  (forall len, step s (TryCredit len) = (s, OCreditCancelled r)) /\
  step s TryReconnect = (s, OReconnCancelled r) /\
  (forall p f n, step s (Resume p f n) = (s, ORejCancelled)).
Proof. intros H. cbn [step]. rewrite H. repeat split. Qed.

Lemma first_reason_wins s r :
  t_cancelled s = None -> t_cancelled (fst (step s (Cancel r))) = Some r.
Proof. intros H. cbn [step]. rewrite H. reflexivity. Qed.

(** ** the C11 oracle accepts the model *)
Definition rel11 (k : track11) (s : tc) : Prop :=
  k_file k = t_file s /\ k_cancel k = t_cancelled s /\ k_prev k = snap_of s /\ t_acked s <= t_sent s.

Lemma optN_eqb_refl a : optN_eqb a a = true.
Proof. destruct a; cbn [optN_eqb]; [apply N.eqb_refl|reflexivity]. Qed.

Lemma step11 w k s o :
  rel11 k s -> t_window s = w -> w < two64 ->
  step_ok11 w k o (snd (step s o)) (snap_of (fst (step s o))) = true /\
  rel11 (next11 k o (snap_of (fst (step s o)))) (fst (step s o)).
Proof.
  intros (Hf & Hc & Hp & Hi) Hw Hlt.
  destruct k as [kf kc kp]. cbn [k_file k_cancel k_prev] in Hf, Hc, Hp. subst kf kc kp.
  unfold step_ok11, next11, rel11. proj.
  destruct o; cbn [step]; try rewrite ring_push_eq; unfold credit_ok;
    destruct (t_cancelled s) as [cr|] eqn:Ec; proj; rewrite ?Ec;
    repeat match goal with
           | |- context [if ?b then _ else _] =>
               lazymatch b with
               | context [if _ then _ else _] => fail
               | _ => destruct b eqn:?
               end; proj; rewrite ?Ec
           end;
    try match goal with |- context [match t_pending s with _ => _ end] => destruct (t_pending s) eqn:? end;
    proj; rewrite ?Ec; cbn [optN_eqb];
    (split; [try lia|repeat split; try reflexivity; try lia]).
Qed.

Lemma hist_ok_window w c ops : hist_ok w c ops = true -> w < two64.
Proof. unfold hist_ok. intros H. lia. Qed.

Lemma check11_run w ops : forall k s,
  rel11 k s -> t_window s = w -> w < two64 ->
  check11 w k ops (map (fun '(r, s) => (r, snap_of s)) (run s ops)) = true.
Proof.
  induction ops as [|o ops IH]; intros k s Hr Hw Hlt; [reflexivity|].
  cbn [run]. destruct (step11 w k s o Hr Hw Hlt) as [H1 H2].
  pose proof (step_window s o) as Hw'.
  destruct (step s o) as [s' r] eqn:Es. cbn [fst snd] in H1, H2, Hw'. cbn [map check11].
  rewrite H1. cbn [andb]. apply IH; [exact H2|congruence|exact Hlt].
Qed.

Lemma ok_model_C11 w c ops : hist_ok w c ops = true -> ok_C11 w ops (model_trace w c ops) = true.
Proof.
  intros H. unfold ok_C11, model_trace. apply check11_run.
  - unfold rel11, init_track11, init. proj. repeat split; try reflexivity; lia.
  - reflexivity.
  - exact (hist_ok_window w c ops H).
Qed.

(** * C13: replay ring and resume *)

Notation dflt := (mkChunk 0 0 false []).

(** the chunks of the [Push] operations after the last [Advance], oldest first *)
Definition psa_step (acc : list chunk) (o : op) : list chunk :=
  match o with
  | Push off len lst body => acc ++ [mkChunk off len lst body]
  | Advance _ => []
  | _ => acc
  end.

Definition pushed_since_advance (ops : list op) : list chunk := fold_left psa_step ops [].

(** every chunk ever pushed *)
Fixpoint all_pushed (ops : list op) : list chunk :=
  match ops with
  | [] => []
  | Push off len lst body :: ops' => mkChunk off len lst body :: all_pushed ops'
  | _ :: ops' => all_pushed ops'
  end.

(** [bytes_held] is a saturating u64 in the code: the byte accounting is exact
    only while the total number of wire bytes pushed stays below 2^64 *)
Definition wire_small (ops : list op) : Prop := sum_wire (all_pushed ops) < two64.

(** ** lists *)
Lemma last_app_ne {A} (l1 l2 : list A) d : l2 <> [] -> last (l1 ++ l2) d = last l2 d.
Proof.
  intros Hne. induction l1 as [|a l1 IH]; [reflexivity|].
  cbn [app]. destruct (l1 ++ l2) eqn:E.
  - apply app_eq_nil in E. destruct E as [_ E]. contradiction.
  - rewrite <- IH. reflexivity.
Qed.

Lemma last_cons2 {A} (a b : A) l d : last (a :: b :: l) d = last (b :: l) d.
Proof. reflexivity. Qed.

Lemma filter_all {A} (f : A -> bool) l : (forall x, In x l -> f x = true) -> filter f l = l.
Proof.
  induction l as [|a l IH]; intros H; [reflexivity|].
  cbn [filter]. rewrite (H a (or_introl eq_refl)). f_equal. apply IH. intros x Hx. apply H. now right.
Qed.

Lemma sum_wire_cons a l : sum_wire (a :: l) = wire a + sum_wire l.
Proof. reflexivity. Qed.

Lemma sum_wire_app a b : sum_wire (a ++ b) = sum_wire a + sum_wire b.
Proof.
  induction a as [|x a IH]; [cbn [app]; unfold sum_wire at 2; cbn [fold_right]; lia|].
  cbn [app]. rewrite !sum_wire_cons, IH. lia.
Qed.

Lemma sum_wire_nil : sum_wire [] = 0.
Proof. reflexivity. Qed.

Lemma sum_wire_snoc l c : sum_wire (l ++ [c]) = sum_wire l + wire c.
Proof. rewrite sum_wire_app, sum_wire_cons, sum_wire_nil. lia. Qed.

(** ** [evict] *)
Lemma evict_cons2 a b rest held cap :
  evict (a :: b :: rest) held cap =
  if cap <? held then evict (b :: rest) (held - wire a) cap else (a :: b :: rest, held).
Proof. reflexivity. Qed.

Lemma evict_suffix ring : forall held cap, exists pre, ring = pre ++ fst (evict ring held cap).
Proof.
  induction ring as [|a ring IH]; intros held cap; [exists []; reflexivity|].
  destruct ring as [|b rest]; [exists []; reflexivity|].
  rewrite evict_cons2. destruct (cap <? held).
  - destruct (IH (held - wire a) cap) as [pre Hp]. exists (a :: pre). cbn [app]. now rewrite <- Hp.
  - exists []. reflexivity.
Qed.

Lemma evict_last ring : forall held cap d,
  ring <> [] -> fst (evict ring held cap) <> [] /\ last (fst (evict ring held cap)) d = last ring d.
Proof.
  induction ring as [|a ring IH]; intros held cap d Hne; [contradiction|].
  destruct ring as [|b rest]; [split; [discriminate|reflexivity]|].
  rewrite evict_cons2. destruct (cap <? held).
  - rewrite last_cons2. apply IH. discriminate.
  - split; [discriminate|reflexivity].
Qed.

Lemma evict_sum ring : forall held cap,
  held = sum_wire ring ->
  snd (evict ring held cap) = sum_wire (fst (evict ring held cap)) /\
  ((length (fst (evict ring held cap)) <= 1)%nat \/ sum_wire (fst (evict ring held cap)) <= cap).
Proof.
  induction ring as [|a ring IH]; intros held cap Hh; [split; [exact Hh|left; cbn [evict fst length]; lia]|].
  destruct ring as [|b rest]; [split; [exact Hh|left; cbn [evict fst length]; lia]|].
  rewrite evict_cons2. destruct (cap <? held) eqn:E.
  - apply IH. rewrite sum_wire_cons in Hh. lia.
  - cbn [fst snd]. split; [exact Hh|right; lia].
Qed.

(** ** [contiguous] *)
Lemma contiguous_cons2 a b l : contiguous (a :: b :: l) = (ck_end a =? ck_off b) && contiguous (b :: l).
Proof. reflexivity. Qed.

Lemma contiguous_tail a l : contiguous (a :: l) = true -> contiguous l = true.
Proof.
  destruct l as [|b l]; [reflexivity|]. rewrite contiguous_cons2. intros H.
  apply andb_true_iff in H. exact (proj2 H).
Qed.

Lemma contiguous_head a b l : contiguous (a :: b :: l) = true -> ck_end a = ck_off b.
Proof. rewrite contiguous_cons2. intros H. apply andb_true_iff in H. destruct H as [H _]. lia. Qed.

Lemma contiguous_app_r pre l : contiguous (pre ++ l) = true -> contiguous l = true.
Proof.
  induction pre as [|a pre IH]; intros H; [exact H|].
  apply IH. cbn [app] in H. exact (contiguous_tail _ _ H).
Qed.

Lemma contiguous_snoc l c :
  contiguous l = true -> (l = [] \/ ck_end (last l dflt) = ck_off c) -> contiguous (l ++ [c]) = true.
Proof.
  induction l as [|a l IH]; intros Hc He; [reflexivity|].
  destruct l as [|b l].
  - cbn [app]. rewrite contiguous_cons2. destruct He as [He|He]; [discriminate He|].
    cbn [last] in He. cbn [contiguous]. lia.
  - pose proof (contiguous_head _ _ _ Hc) as Hh. apply contiguous_tail in Hc.
    change (contiguous (a :: b :: (l ++ [c])) = true).
    rewrite contiguous_cons2.
    assert (contiguous ((b :: l) ++ [c]) = true) as H.
    { apply IH; [exact Hc|]. right. destruct He as [He|He]; [discriminate He|]. rewrite last_cons2 in He. exact He. }
    cbn [app] in H. rewrite H. rewrite andb_true_r. lia.
Qed.

Lemma contiguous_off_mono l : forall a c,
  contiguous (a :: l) = true -> In c (a :: l) -> ck_off a <= ck_off c.
Proof.
  induction l as [|b l IH]; intros a c Hc Hin.
  - destruct Hin as [<-|[]]. lia.
  - pose proof (contiguous_head _ _ _ Hc) as Hh. apply contiguous_tail in Hc.
    destruct Hin as [<-|Hin]; [lia|].
    assert (ck_off b <= ck_off c) by (apply IH; [exact Hc|exact Hin]).
    unfold ck_end in Hh. lia.
Qed.

Lemma contiguous_off_le_end l : forall a d,
  contiguous (a :: l) = true -> ck_off a <= ck_end (last (a :: l) d).
Proof.
  induction l as [|b l IH]; intros a d Hc.
  - cbn [last]. unfold ck_end. lia.
  - pose proof (contiguous_head _ _ _ Hc) as Hh. apply contiguous_tail in Hc. rewrite last_cons2.
    assert (ck_off b <= ck_end (last (b :: l) d)) by (apply IH; exact Hc).
    unfold ck_end in Hh. lia.
Qed.

(** ** [is_suffix] *)
Lemma chunk_eqb_refl a : chunk_eqb a a = true.
Proof.
  unfold chunk_eqb. rewrite !N.eqb_refl, Bool.eqb_reflx. cbn [andb].
  induction (ck_body a) as [|p x IH]; [reflexivity|].
  rewrite N.eqb_refl. exact IH.
Qed.

Lemma chunks_eqb_refl l : chunks_eqb l l = true.
Proof. induction l as [|a l IH]; [reflexivity|]. cbn [chunks_eqb]. now rewrite chunk_eqb_refl, IH. Qed.

Lemma is_suffix_unfold a b :
  is_suffix a b = chunks_eqb a b || match b with [] => false | _ :: b' => is_suffix a b' end.
Proof. destruct b; reflexivity. Qed.

Lemma is_suffix_app pre cs : is_suffix cs (pre ++ cs) = true.
Proof.
  induction pre as [|a pre IH].
  - cbn [app]. rewrite is_suffix_unfold, chunks_eqb_refl. reflexivity.
  - cbn [app]. rewrite is_suffix_unfold, IH. apply orb_true_r.
Qed.

(** ** [covers], [replay_from] *)
Lemma covers_spec ring n :
  covers ring n = true <->
  (ring = [] /\ n = 0) \/
  (ring <> [] /\ ((exists c, In c ring /\ ck_off c = n) \/ ck_end (last ring (mkChunk 0 0 false [])) = n)).
Proof.
  destruct ring as [|a l].
  - cbn [covers]. split.
    + intros H. left. split; [reflexivity|lia].
    + intros [[_ ->]|[Hne _]]; [reflexivity|contradiction].
  - unfold covers. rewrite orb_true_iff, existsb_exists. split.
    + intros H. right. split; [discriminate|].
      destruct H as [(c & Hin & Hc)|He]; [left; exists c; split; [exact Hin|lia]|right; lia].
    + intros [[E _]|[_ H]]; [discriminate E|].
      destruct H as [(c & Hin & Hc)|He]; [left; exists c; split; [exact Hin|lia]|right; lia].
Qed.

Lemma replay_from_cons a l n :
  replay_from (a :: l) n = if n <=? ck_off a then a :: replay_from l n else replay_from l n.
Proof. reflexivity. Qed.

Lemma replay_from_all a l n :
  contiguous (a :: l) = true -> n <= ck_off a -> replay_from (a :: l) n = a :: l.
Proof.
  intros Hc Hn. unfold replay_from. apply filter_all. intros c Hin.
  pose proof (contiguous_off_mono l a c Hc Hin). lia.
Qed.

Lemma replay_split ring n :
  contiguous ring = true ->
  exists pre, ring = pre ++ replay_from ring n /\ (forall c, In c pre -> ck_off c < n).
Proof.
  induction ring as [|a l IH]; intros Hc.
  - exists []. split; [reflexivity|intros c []].
  - destruct (n <=? ck_off a) eqn:E.
    + exists []. split; [|intros c []]. rewrite replay_from_all; [reflexivity|exact Hc|lia].
    + destruct (IH (contiguous_tail _ _ Hc)) as (pre & Hp & Hlt).
      exists (a :: pre). rewrite replay_from_cons, E. split.
      * cbn [app]. now rewrite <- Hp.
      * intros c [<-|Hin]; [lia|now apply Hlt].
Qed.

Lemma replay_gapless ring n :
  contiguous ring = true -> covers ring n = true ->
  let cs := replay_from ring n in
  is_suffix cs ring = true /\ contiguous cs = true /\
  match cs with
  | [] => ring = [] /\ n = 0 \/ ring <> [] /\ ck_end (last ring (mkChunk 0 0 false [])) = n
  | c0 :: _ => ck_off c0 = n
  end.
Proof.
  intros Hc Hv. cbn zeta.
  destruct (replay_split ring n Hc) as (pre & Hp & Hlt).
  assert (forall c, In c (replay_from ring n) -> n <= ck_off c) as Hge.
  { intros c Hin. unfold replay_from in Hin. apply filter_In in Hin. destruct Hin as [_ Hin]. lia. }
  remember (replay_from ring n) as cs eqn:Ecs. clear Ecs.
  split; [rewrite Hp; apply is_suffix_app|].
  split; [rewrite Hp in Hc; exact (contiguous_app_r _ _ Hc)|].
  apply covers_spec in Hv.
  destruct cs as [|c0 cs'].
  - rewrite app_nil_r in Hp. subst pre.
    destruct Hv as [Hv|[Hne [(c & Hin & Hoff)|He]]].
    + left. exact Hv.
    + specialize (Hlt c Hin). lia.
    + right. split; assumption.
  - pose proof (Hge c0 (or_introl eq_refl)) as Hlo.
    assert (contiguous (c0 :: cs') = true) as Hc' by (rewrite Hp in Hc; exact (contiguous_app_r _ _ Hc)).
    destruct Hv as [[Hv _]|[Hne [(c & Hin & Hoff)|He]]].
    + rewrite Hv in Hp. destruct pre; discriminate Hp.
    + rewrite Hp in Hin. apply in_app_or in Hin. destruct Hin as [Hin|Hin].
      * specialize (Hlt c Hin). lia.
      * pose proof (contiguous_off_mono cs' c0 c Hc' Hin). lia.
    + rewrite Hp in He. rewrite last_app_ne in He by discriminate.
      pose proof (contiguous_off_le_end cs' c0 (mkChunk 0 0 false []) Hc'). lia.
Qed.

(** ** single steps *)
Lemma most_recent_retained s c :
  t_ring (ring_push s c) <> [] /\ last (t_ring (ring_push s c)) c = c.
Proof.
  rewrite ring_push_eq. proj.
  destruct (evict_last (t_ring s ++ [c]) (sat_add64 (t_held s) (wire c)) (t_cap s) c) as [H1 H2].
  - intros E. apply app_eq_nil in E. destruct E as [_ E]. discriminate E.
  - split; [exact H1|]. rewrite H2. apply last_last.
Qed.

Lemma resume_accept_iff s p f n :
  (exists s', step s (Resume p f n) = (s', OResumeOk n)) <->
  t_cancelled s = None /\ f = t_file s /\ covers (t_ring s) n = true.
Proof.
  cbn [step]. destruct (t_cancelled s) as [r|].
  - split; [intros [s' E]; discriminate E|intros [E _]; discriminate E].
  - destruct (f =? t_file s) eqn:Ef; cbn [negb].
    + destruct (covers (t_ring s) n) eqn:Ec; cbn [negb].
      * split; [intros _; repeat split; lia|intros _; eexists; reflexivity].
      * split; [intros [s' E]; discriminate E|intros (_ & _ & E); discriminate E].
    + split; [intros [s' E]; discriminate E|intros (_ & E & _); lia].
Qed.

Lemma advance_empties s f :
  t_ring (fst (step s (Advance f))) = [] /\ t_pending (fst (step s (Advance f))) = None /\
  t_held (fst (step s (Advance f))) = 0.
Proof. cbn [step]. proj. repeat split. Qed.

(** ** invariants of the ring along a history *)
Definition push_ok1 (endo : option N) (o : op) : bool :=
  match o with
  | Push off len _ body =>
      (match endo with Some e => off =? e | None => true end) && (off + len <? two64) && bytes_ok body
  | _ => true
  end.

Definition endo_next (endo : option N) (o : op) : option N :=
  match o with
  | Push off len _ _ => Some (off + len)
  | Advance _ => None
  | _ => endo
  end.

Lemma pushes_ok_cons endo o ops :
  pushes_ok endo (o :: ops) = push_ok1 endo o && pushes_ok (endo_next endo o) ops.
Proof. destruct o; reflexivity. Qed.

Definition endo_rel (endo : option N) (acc : list chunk) : Prop :=
  match endo with
  | None => acc = []
  | Some e => acc <> [] /\ ck_end (last acc dflt) = e
  end.

(** [acc] is the list of chunks pushed since the last advance *)
Definition minvA (endo : option N) (acc : list chunk) (s : tc) : Prop :=
  (exists pre, acc = pre ++ t_ring s) /\ contiguous acc = true /\ endo_rel endo acc /\
  (t_ring s = [] -> acc = []).

Definition bounded (s : tc) : Prop :=
  (length (t_ring s) <= 1)%nat \/ sum_wire (t_ring s) <= t_cap s.

Definition minvB (s : tc) : Prop := t_held s = sum_wire (t_ring s) /\ bounded s.

Definition ring_op (o : op) : bool :=
  match o with Push _ _ _ _ | Advance _ => true | _ => false end.

Lemma step_ring_other s o :
  ring_op o = false ->
  t_ring (fst (step s o)) = t_ring s /\ t_held (fst (step s o)) = t_held s.
Proof.
  intros H. destruct o; try discriminate H; cbn [step]; split_match; proj; split; reflexivity.
Qed.

Lemma stepA endo acc s o :
  minvA endo acc s -> push_ok1 endo o = true ->
  minvA (endo_next endo o) (psa_step acc o) (fst (step s o)).
Proof.
  intros ([pre Hp] & Hc & He & Hn) Hok.
  destruct (ring_op o) eqn:Er.
  - destruct o; try discriminate Er.
    + (* Advance *) cbn [step psa_step endo_next]. unfold minvA, endo_rel. proj.
      repeat split; auto. exists []. reflexivity.
    + (* Push *) cbn [step psa_step endo_next]. rewrite ring_push_eq. unfold minvA. proj.
      set (c := mkChunk off len last body).
      destruct (evict_suffix (t_ring s ++ [c]) (sat_add64 (t_held s) (wire c)) (t_cap s)) as [pre2 Hp2].
      destruct (evict_last (t_ring s ++ [c]) (sat_add64 (t_held s) (wire c)) (t_cap s) dflt) as [Hne _].
      { intros E. apply app_eq_nil in E. destruct E as [_ E]. discriminate E. }
      split; [|split; [|split]].
      * exists (pre ++ pre2). rewrite Hp. rewrite <- !app_assoc. f_equal. exact Hp2.
      * apply contiguous_snoc; [exact Hc|].
        cbn [push_ok1] in Hok. destruct endo as [e|]; cbn [endo_rel] in He.
        -- right. destruct He as [_ He]. rewrite He. cbn [c ck_off]. lia.
        -- left. exact He.
      * cbn [endo_rel]. split.
        -- intros E. apply app_eq_nil in E. destruct E as [_ E]. discriminate E.
        -- rewrite last_last. reflexivity.
      * intros E. contradiction.
  - destruct (step_ring_other s o Er) as [Hr _].
    unfold minvA. rewrite Hr.
    replace (psa_step acc o) with acc by (destruct o; try discriminate Er; reflexivity).
    replace (endo_next endo o) with endo by (destruct o; try discriminate Er; reflexivity).
    repeat split; auto. exists pre. exact Hp.
Qed.

Lemma all_pushed_cons o ops :
  sum_wire (all_pushed (o :: ops)) =
  match o with Push off len lst body => wire (mkChunk off len lst body) | _ => 0 end + sum_wire (all_pushed ops).
Proof. destruct o; cbn [all_pushed]; rewrite ?sum_wire_cons; lia. Qed.

Lemma stepB s o rest :
  minvB s -> sum_wire (t_ring s) + sum_wire (all_pushed (o :: rest)) < two64 ->
  minvB (fst (step s o)) /\
  sum_wire (t_ring (fst (step s o))) + sum_wire (all_pushed rest) < two64.
Proof.
  intros [Hh Hb] Hw. rewrite all_pushed_cons in Hw.
  destruct (ring_op o) eqn:Er.
  - destruct o; try discriminate Er.
    + cbn [step]. unfold minvB, bounded. proj. rewrite !sum_wire_nil. cbn [length].
      split; [split; [reflexivity|left; lia]|lia].
    + cbn [step]. rewrite ring_push_eq. unfold minvB, bounded. proj.
      set (c := mkChunk off len last body) in *.
      assert (sat_add64 (t_held s) (wire c) = sum_wire (t_ring s ++ [c])) as Hs.
      { unfold sat_add64. rewrite sum_wire_snoc, Hh. lia. }
      destruct (evict_sum (t_ring s ++ [c]) (sat_add64 (t_held s) (wire c)) (t_cap s) Hs) as [H1 H2].
      destruct (evict_suffix (t_ring s ++ [c]) (sat_add64 (t_held s) (wire c)) (t_cap s)) as [pre2 Hp2].
      split; [split; [exact H1|exact H2]|].
      pose proof (sum_wire_snoc (t_ring s) c) as Hs2.
      rewrite Hp2 in Hs2 at 1. rewrite sum_wire_app in Hs2. lia.
  - destruct (step_ring_other s o Er) as [Hr Hh'].
    unfold minvB, bounded. rewrite Hr, Hh', step_cap.
    split; [split; [exact Hh|exact Hb]|].
    destruct o; try discriminate Er; lia.
Qed.

Lemma execA ops : forall endo acc s,
  minvA endo acc s -> pushes_ok endo ops = true ->
  exists endo', minvA endo' (fold_left psa_step ops acc) (exec s ops).
Proof.
  induction ops as [|o ops IH]; intros endo acc s Hi Hp; [exists endo; exact Hi|].
  rewrite pushes_ok_cons in Hp. apply andb_true_iff in Hp. destruct Hp as [Hp1 Hp2].
  rewrite exec_cons. cbn [fold_left]. apply (IH (endo_next endo o)); [|exact Hp2].
  apply stepA; assumption.
Qed.

Lemma execB ops : forall s,
  minvB s -> sum_wire (t_ring s) + sum_wire (all_pushed ops) < two64 -> minvB (exec s ops).
Proof.
  induction ops as [|o ops IH]; intros s Hi Hw; [exact Hi|].
  rewrite exec_cons. destruct (stepB s o ops Hi Hw) as [Hi' Hw']. apply IH; assumption.
Qed.

Lemma exec_cap ops : forall s, t_cap (exec s ops) = t_cap s.
Proof.
  induction ops as [|o ops IH]; intros s; [reflexivity|]. rewrite exec_cons, IH. apply step_cap.
Qed.

Lemma hist_ok_pushes w c ops : hist_ok w c ops = true -> pushes_ok None ops = true.
Proof. unfold hist_ok. intros H. apply andb_true_iff in H. exact (proj2 H). Qed.

Lemma minvA_init w c : minvA None [] (init w c).
Proof. unfold minvA, endo_rel, init. proj. repeat split; auto. exists []. reflexivity. Qed.

Lemma minvB_init w c : minvB (init w c).
Proof. unfold minvB, bounded, init. proj. split; [reflexivity|left; cbn [length]; lia]. Qed.

Lemma ring_suffix w c ops :
  hist_ok w c ops = true -> exists pre, pushed_since_advance ops = pre ++ t_ring (exec (init w c) ops).
Proof.
  intros H. destruct (execA ops None [] (init w c) (minvA_init w c) (hist_ok_pushes _ _ _ H)) as [e Hi].
  exact (proj1 Hi).
Qed.

Lemma ring_contiguous w c ops :
  hist_ok w c ops = true -> contiguous (t_ring (exec (init w c) ops)) = true.
Proof.
  intros H. destruct (execA ops None [] (init w c) (minvA_init w c) (hist_ok_pushes _ _ _ H)) as [e Hi].
  destruct Hi as ([pre Hp] & Hc & _). rewrite Hp in Hc. exact (contiguous_app_r _ _ Hc).
Qed.

Lemma ring_bounded w c ops :
  hist_ok w c ops = true -> wire_small ops ->
  let s := exec (init w c) ops in
  (length (t_ring s) <= 1)%nat \/ sum_wire (t_ring s) <= t_cap s.
Proof.
  intros _ Hw. cbn zeta.
  assert (minvB (exec (init w c) ops)) as [_ Hb].
  { apply execB; [apply minvB_init|]. unfold wire_small in Hw. cbn [init t_ring]. rewrite sum_wire_nil. lia. }
  exact Hb.
Qed.

(** ** the C13 oracle accepts the model *)
Definition cancelled_b (s : tc) : bool := match t_cancelled s with Some _ => true | None => false end.

Definition trk (k : track13) (s : tc) (acc : list chunk) : Prop :=
  j_file k = t_file s /\ j_cancel k = cancelled_b s /\ j_pushed k = acc /\
  j_pending k = t_pending s /\ j_prev k = snap_of s /\
  (forall a, j_accepted k = Some a -> covers (t_ring s) a = true).

Lemma covers_alt ring n :
  match ring with
  | [] => n =? 0
  | c :: l => existsb (fun c0 : chunk => ck_off c0 =? n) (c :: l) || (last_end (c :: l) =? n)
  end = covers ring n.
Proof. destruct ring; reflexivity. Qed.

Ltac fin13 :=
  proj; repeat split; try reflexivity; try (let a := fresh in let Ha := fresh in intros a Ha; discriminate Ha).

Lemma step13 cap k s o endo acc :
  trk k s acc -> minvA endo acc s -> t_cap s = cap ->
  minvA (endo_next endo o) (psa_step acc o) (fst (step s o)) ->
  bounded (fst (step s o)) ->
  step_ok13 cap k o (snd (step s o)) (snap_of (fst (step s o))) = true /\
  trk (next13 k o (snd (step s o)) (snap_of (fst (step s o)))) (fst (step s o)) (psa_step acc o).
Proof.
  intros (Hf & Hcn & Hpu & Hpe & Hpr & Hac) ([pre Hp] & Hc & He & Hn) Hcap ([pre' Hp'] & Hc' & He' & Hn') Hb.
  destruct k as [kf kc kp kn kv ka]. cbn [j_file j_cancel j_pushed j_pending j_prev j_accepted] in *.
  subst kf kc kp kn kv.
  unfold step_ok13, next13, trk. proj. cbn zeta.
  fold (psa_step acc o).
  assert (is_suffix (t_ring (fst (step s o))) (psa_step acc o) = true) as G1
    by (rewrite Hp'; apply is_suffix_app).
  assert ((N.of_nat (length (t_ring (fst (step s o)))) <=? 1)
          || (sum_wire (t_ring (fst (step s o))) <=? cap) = true) as G2.
  { unfold bounded in Hb. rewrite step_cap, Hcap in Hb. lia. }
  assert (match psa_step acc o with
          | [] => true
          | _ :: _ => negb (N.of_nat (length (t_ring (fst (step s o)))) =? 0)
          end = true) as G3.
  { destruct (psa_step acc o) eqn:E; [reflexivity|].
    destruct (t_ring (fst (step s o))); [specialize (Hn' eq_refl); discriminate Hn'|cbn [length]; lia]. }
  rewrite G1, G2, G3. cbn [andb]. clear G1 G2 G3 Hp' Hc' He' Hn' Hb.
  destruct o.
  - (* Sent *) cbn [step]. unfold cancelled_b. fin13.
  - (* Ack *) cbn [step]. unfold cancelled_b.
    destruct (f =? t_file s); [destruct (t_acked s <? N.min o (t_sent s))|]; fin13.
  - (* Advance *) cbn [step]. unfold cancelled_b. fin13.
  - (* Resume *) rewrite covers_alt. cbn [step]. unfold cancelled_b.
    destruct (t_cancelled s) as [r|] eqn:Ec.
    + proj. rewrite Ec, optN_eqb_refl. fin13.
    + destruct (f =? t_file s) eqn:Ef; cbn [negb].
      * destruct (covers (t_ring s) o) eqn:Ev; cbn [negb]; proj; rewrite ?Ec.
        -- cbn [negb andb optN_eqb]. rewrite !N.eqb_refl. repeat split; try reflexivity.
           intros a Ha. injection Ha as <-. exact Ev.
        -- cbn [negb andb]. rewrite optN_eqb_refl. fin13.
      * proj. rewrite Ec. cbn [negb andb]. rewrite optN_eqb_refl. fin13.
  - (* Cancel *) cbn [step]. unfold cancelled_b.
    destruct (t_cancelled s) as [r0|] eqn:Ec; proj; rewrite ?Ec; fin13.
  - (* Push *) cbn [step]. rewrite ring_push_eq. unfold cancelled_b. fin13.
  - (* SetPeer *) cbn [step]. unfold cancelled_b. fin13.
  - (* TryCredit *) cbn [step]. unfold cancelled_b.
    destruct (t_cancelled s) as [r0|] eqn:Ec; proj; rewrite ?Ec; fin13.
  - (* TryReconnect *) cbn [step]. unfold cancelled_b.
    destruct (t_cancelled s) as [r|] eqn:Ec; [|destruct (t_pending s) as [pn|] eqn:Epn]; proj;
      rewrite ?Ec, ?Epn; cbn [negb andb optN_eqb]; rewrite ?N.eqb_refl; fin13.
  - (* Replay *) cbn [step]. unfold cancelled_b. proj.
    split; [|fin13].
    destruct ka as [a|]; [|reflexivity]. destruct (a =? o) eqn:Ea; [|reflexivity].
    assert (a = o) by lia. subst a. specialize (Hac o eq_refl).
    assert (contiguous (t_ring s) = true) as Hcr by (rewrite Hp in Hc; exact (contiguous_app_r _ _ Hc)).
    destruct (replay_gapless (t_ring s) o Hcr Hac) as (_ & _ & G).
    destruct (replay_split (t_ring s) o Hcr) as (pre2 & Hp2 & _).
    remember (replay_from (t_ring s) o) as cs eqn:Ecs. clear Ecs.
    apply andb_true_iff. split.
    + rewrite Hp, Hp2, app_assoc. apply is_suffix_app.
    + destruct cs as [|c0 cs'].
      * destruct G as [[G1 G2]|[G1 G2]].
        -- rewrite (Hn G1). cbn [last_end]. lia.
        -- rewrite Hp. rewrite <- G2. unfold last_end.
           destruct (pre ++ t_ring s) eqn:E.
           ++ apply app_eq_nil in E. destruct E as [_ E]. contradiction.
           ++ rewrite <- E. rewrite last_app_ne by exact G1. apply N.eqb_refl.
      * lia.
Qed.

Lemma run_cons s o ops :
  run s (o :: ops) = (snd (step s o), fst (step s o)) :: run (fst (step s o)) ops.
Proof. cbn [run]. destruct (step s o); reflexivity. Qed.

Lemma check13_run cap ops : forall k s endo acc,
  trk k s acc -> minvA endo acc s -> minvB s -> t_cap s = cap ->
  pushes_ok endo ops = true -> sum_wire (t_ring s) + sum_wire (all_pushed ops) < two64 ->
  check13 cap k ops (map (fun '(r, s) => (r, snap_of s)) (run s ops)) = true.
Proof.
  induction ops as [|o ops IH]; intros k s endo acc Ht HA HB Hcap Hp Hw; [reflexivity|].
  rewrite pushes_ok_cons in Hp. apply andb_true_iff in Hp. destruct Hp as [Hp1 Hp2].
  pose proof (stepA endo acc s o HA Hp1) as HA'.
  destruct (stepB s o ops HB Hw) as [HB' Hw'].
  destruct (step13 cap k s o endo acc Ht HA Hcap HA' (proj2 HB')) as [H1 H2].
  pose proof (step_cap s o) as Hcap'.
  rewrite run_cons. cbn [map check13].
  rewrite H1. cbn [andb].
  apply (IH _ (fst (step s o)) (endo_next endo o) (psa_step acc o)); auto. congruence.
Qed.

Lemma ok_model_C13 w c ops :
  hist_ok w c ops = true -> wire_small ops -> ok_C13 c ops (model_trace w c ops) = true.
Proof.
  intros H Hw. unfold ok_C13, model_trace.
  apply (check13_run c ops init_track13 (init w c) None []).
  - unfold trk, init_track13, init, cancelled_b. proj. repeat split; try reflexivity.
    intros a Ha. discriminate Ha.
  - apply minvA_init.
  - apply minvB_init.
  - reflexivity.
  - exact (hist_ok_pushes w c ops H).
  - unfold wire_small in Hw. cbn [init t_ring]. rewrite sum_wire_nil. lia.
Qed.

(** ** [wire_small] cannot be dropped: with two bodies of 2^63 bytes the
    saturating [bytes_held] under-counts, nothing is evicted, and the ring
    holds two chunks whose wire size exceeds the capacity.  (Such bodies
    cannot be materialised, so this is stated for an abstract body.) *)
Lemma big_body_exists (n : N) : exists b, bytes_ok b = true /\ N.of_nat (length b) = n.
Proof.
  exists (repeat 0 (N.to_nat n)). split.
  - induction (N.to_nat n) as [|m IH]; [reflexivity|].
    change (repeat 0 (S m)) with (0 :: repeat 0 m). rewrite bytes_ok_cons, IH. reflexivity.
  - rewrite repeat_length. apply N2Nat.id.
Qed.

Lemma step_ok13_unbounded cap k o r sn :
  (N.of_nat (length (n_ring sn)) <=? 1) || (sum_wire (n_ring sn) <=? cap) = false ->
  step_ok13 cap k o r sn = false.
Proof. intros H. unfold step_ok13. cbn zeta. rewrite H, andb_false_r. reflexivity. Qed.

Lemma saturation_breaks_bound b :
  bytes_ok b = true -> N.of_nat (length b) = 9223372036854775808 ->
  let ops := [Push 0 0 false b; Push 0 0 false b] in
  let cap := 18446744073709551615 in
  hist_ok 0 cap ops = true /\ ok_C13 cap ops (model_trace 0 cap ops) = false.
Proof.
  intros Hb Hl. cbn zeta. split.
  - unfold hist_ok. cbn [forallb op_ok pushes_ok]. rewrite Hb. reflexivity.
  - unfold ok_C13, model_trace. rewrite !run_cons. cbn [map check13].
    set (c := mkChunk 0 0 false b).
    assert (wire c = 9223372036854775808) as Hw by exact Hl.
    set (s1 := fst (step (init 0 18446744073709551615) (Push 0 0 false b))).
    assert (t_ring s1 = [c] /\ t_held s1 = 9223372036854775808 /\ t_cap s1 = 18446744073709551615)
      as (Hr1 & Hh1 & Hc1).
    { unfold s1. cbn [step]. rewrite ring_push_eq. proj. cbn [init t_ring t_held t_cap app evict fst snd].
      fold c. unfold sat_add64, two64. rewrite Hw. repeat split. }
    set (s2 := fst (step s1 (Push 0 0 false b))).
    assert (t_ring s2 = [c; c]) as Hr2.
    { unfold s2. cbn [step]. rewrite ring_push_eq. proj. fold c. rewrite Hr1, Hh1, Hc1, Hw.
      cbn [app]. rewrite evict_cons2.
      replace (18446744073709551615 <? sat_add64 9223372036854775808 9223372036854775808) with false
        by (unfold sat_add64, two64; lia).
      reflexivity. }
    rewrite (step_ok13_unbounded _ _ _ _ (snap_of s2)).
    + cbn [andb]. apply andb_false_r.
    + unfold snap_of. cbn [n_ring]. rewrite Hr2. rewrite !sum_wire_cons, sum_wire_nil, Hw.
      cbn [length]. reflexivity.
Qed.

Lemma C13_needs_wire_small :
  exists w c ops, hist_ok w c ops = true /\ ok_C13 c ops (model_trace w c ops) = false.
Proof.
  destruct (big_body_exists 9223372036854775808) as (b & Hb & Hl).
  exists 0, 18446744073709551615, [Push 0 0 false b; Push 0 0 false b].
  exact (saturation_breaks_bound b Hb Hl).
Qed.
