(** Lemmas about the outbound size guard (Model/Limits.v). *)
From RepeV Require Import Model.Limits Proofs.HeaderProofs Proofs.MessageProofs.
From Coq Require Import ZifyBool ZifyN ZifyNat.
Ltac Zify.zify_post_hook ::= Z.div_mod_to_equations.

(** ** decimal rendering *)

Lemma dec_digits_S f n acc :
  dec_digits (S f) n acc =
  if n / 10 =? 0 then (48 + n mod 10) :: acc else dec_digits f (n / 10) ((48 + n mod 10) :: acc).
Proof. reflexivity. Qed.

Lemma dec_digits_length_le fuel : forall n acc,
  (length (dec_digits fuel n acc) <= fuel + length acc)%nat.
Proof.
  induction fuel as [|f IH]; intros n acc.
  - cbn [dec_digits]. lia.
  - rewrite dec_digits_S. destruct (n / 10 =? 0).
    + cbn [length]. lia.
    + pose proof (IH (n / 10) ((48 + n mod 10) :: acc)) as H. cbn [length] in H. lia.
Qed.

Lemma dec_digits_length_ge fuel : forall n acc,
  (length acc <= length (dec_digits fuel n acc))%nat.
Proof.
  induction fuel as [|f IH]; intros n acc.
  - cbn [dec_digits]. lia.
  - rewrite dec_digits_S. destruct (n / 10 =? 0).
    + cbn [length]. lia.
    + pose proof (IH (n / 10) ((48 + n mod 10) :: acc)) as H. cbn [length] in H. lia.
Qed.

Lemma dec_digits_ok fuel : forall n acc,
  bytes_ok acc = true -> bytes_ok (dec_digits fuel n acc) = true.
Proof.
  induction fuel as [|f IH]; intros n acc Hacc.
  - exact Hacc.
  - rewrite dec_digits_S.
    assert (bytes_ok ((48 + n mod 10) :: acc) = true) as Hacc'.
    { rewrite bytes_ok_cons, Hacc, andb_true_r.
      pose proof (N.mod_lt n 10 ltac:(discriminate)) as Hm.
      apply N.ltb_lt. generalize dependent (n mod 10). intros x Hx. lia. }
    destruct (n / 10 =? 0); [exact Hacc'|]. apply IH. exact Hacc'.
Qed.

Lemma dec_length_le n : (length (dec n) <= 20)%nat.
Proof. unfold dec. pose proof (dec_digits_length_le 20 n []) as H. cbn [length] in H. lia. Qed.

Lemma dec_length_pos n : (1 <= length (dec n))%nat.
Proof.
  unfold dec. rewrite dec_digits_S. destruct (n / 10 =? 0).
  - cbn [length]. lia.
  - exact (dec_digits_length_ge 19 (n / 10) [48 + n mod 10]).
Qed.

Lemma dec_nonempty n : dec n <> [].
Proof.
  intros H. pose proof (dec_length_pos n) as P. rewrite H in P. cbn [length] in P. lia.
Qed.

Lemma dec_ok n : bytes_ok (dec n) = true.
Proof. unfold dec. apply dec_digits_ok. reflexivity. Qed.

(** ** the replacement text *)

Lemma txt1_length : length txt1 = 12%nat. Proof. reflexivity. Qed.
Lemma txt2_length : length txt2 = 17%nat. Proof. reflexivity. Qed.
Lemma txt3_length : length txt3 = 85%nat. Proof. reflexivity. Qed.
Lemma txt1_ok : bytes_ok txt1 = true. Proof. vm_compute. reflexivity. Qed.
Lemma txt2_ok : bytes_ok txt2 = true. Proof. vm_compute. reflexivity. Qed.
Lemma txt3_ok : bytes_ok txt3 = true. Proof. vm_compute. reflexivity. Qed.

Lemma replacement_bound_eq : replacement_bound = 202.
Proof. vm_compute. reflexivity. Qed.

Lemma replacement_text_length size limit :
  length (replacement_text size limit) =
  (114 + length (dec size) + length (dec limit))%nat.
Proof.
  unfold replacement_text. rewrite !app_length, txt1_length, txt2_length, txt3_length. lia.
Qed.

Lemma replacement_text_ok size limit : bytes_ok (replacement_text size limit) = true.
Proof.
  unfold replacement_text.
  rewrite !bytes_ok_app, txt1_ok, txt2_ok, txt3_ok, !dec_ok. reflexivity.
Qed.

Lemma replacement_text_bounds size limit :
  (116 <= length (replacement_text size limit) <= 154)%nat.
Proof.
  rewrite replacement_text_length.
  pose proof (dec_length_le size). pose proof (dec_length_le limit).
  pose proof (dec_length_pos size). pose proof (dec_length_pos limit). lia.
Qed.

Lemma replacement_len_le_bound size limit : replacement_len size limit <= replacement_bound.
Proof.
  unfold replacement_len. rewrite replacement_bound_eq.
  pose proof (replacement_text_bounds size limit) as H.
  unfold lenN, HEADER_SIZE. lia.
Qed.

(** ** the replacement message *)

Lemma replacement_id id size limit : h_id (m_hdr (replacement id size limit)) = id.
Proof. reflexivity. Qed.
Lemma replacement_ec id size limit : h_ec (m_hdr (replacement id size limit)) = 9.
Proof. reflexivity. Qed.
Lemma replacement_query id size limit : m_query (replacement id size limit) = [].
Proof. reflexivity. Qed.
Lemma replacement_body id size limit :
  m_body (replacement id size limit) = replacement_text size limit.
Proof. reflexivity. Qed.

Lemma lenN_to_vec m : lenN (to_vec m) = HEADER_SIZE + lenN (m_query m) + lenN (m_body m).
Proof. unfold lenN, HEADER_SIZE. rewrite to_vec_length. lia. Qed.

Lemma replacement_to_vec_len id size limit :
  lenN (to_vec (replacement id size limit)) = replacement_len size limit.
Proof.
  rewrite lenN_to_vec, replacement_query, replacement_body.
  unfold replacement_len, lenN. cbn [length]. lia.
Qed.

Lemma replacement_ok id size limit : id < two64 -> msg_ok (replacement id size limit) = true.
Proof.
  intros Hid. unfold msg_ok, hdr_ok, replacement.
  cbn [m_hdr m_query m_body h_length h_spec h_version h_notify h_reserved h_id h_qlen h_blen
       h_qfmt h_bfmt h_ec].
  rewrite replacement_text_ok.
  pose proof (replacement_text_bounds size limit) as Hb.
  unfold lenN. generalize dependent (length (replacement_text size limit)). intros t Hb.
  change (bytes_ok []) with true. cbn [length].
  unfold HEADER_SIZE, REPE_SPEC, REPE_VERSION, two64, two32, two16, two8 in *.
  lia.
Qed.

Lemma replacement_round_trip id size limit :
  id < two64 ->
  from_slice_exact (to_vec (replacement id size limit)) = Ok (replacement id size limit).
Proof. intros Hid. apply from_slice_exact_round_trip. now apply replacement_ok. Qed.

(** frames of consistent messages determine the message *)
Lemma to_vec_inj a b : msg_ok a = true -> msg_ok b = true -> to_vec a = to_vec b -> a = b.
Proof.
  intros Ha Hb H.
  pose proof (from_slice_exact_round_trip a Ha) as Ra.
  pose proof (from_slice_exact_round_trip b Hb) as Rb.
  rewrite H, Rb in Ra. now injection Ra.
Qed.

Lemma replacement_differs_ec id size limit m :
  id < two64 -> msg_ok m = true -> h_ec (m_hdr m) <> 9 ->
  to_vec (replacement id size limit) <> to_vec m.
Proof.
  intros Hid Hm Hec H. apply Hec.
  rewrite <- (to_vec_inj _ _ (replacement_ok id size limit Hid) Hm H). reflexivity.
Qed.

Lemma bytes_eqb_neq a b : a <> b -> bytes_eqb a b = false.
Proof.
  intros H. destruct (bytes_eqb a b) eqn:E; [|reflexivity].
  apply bytes_eqb_eq in E. contradiction.
Qed.

(** ** check_outbound / frame_outbound / client_send *)

Lemma frame_outbound_within lim m :
  check_outbound lim (HEADER_SIZE + lenN (m_query m) + lenN (m_body m)) = true ->
  frame_outbound lim m = (Some (to_vec m), false).
Proof.
  intros H. unfold frame_outbound. cbv zeta. rewrite !into_wire_bytes_eq.
  destruct lim as [l|]; [|reflexivity].
  unfold check_outbound in H.
  destruct (l <? HEADER_SIZE + lenN (m_query m) + lenN (m_body m)); [discriminate|reflexivity].
Qed.

Lemma frame_outbound_none m : frame_outbound None m = (Some (to_vec m), false).
Proof. apply frame_outbound_within. reflexivity. Qed.

Lemma frame_outbound_notify l m :
  l < HEADER_SIZE + lenN (m_query m) + lenN (m_body m) -> h_notify (m_hdr m) <> 0 ->
  frame_outbound (Some l) m = (None, true).
Proof.
  intros Hl Hn. unfold frame_outbound. cbv zeta.
  apply N.ltb_lt in Hl. rewrite Hl. apply N.eqb_neq in Hn. rewrite Hn. reflexivity.
Qed.

Lemma frame_outbound_replaced_eq l m :
  l < HEADER_SIZE + lenN (m_query m) + lenN (m_body m) -> h_notify (m_hdr m) = 0 ->
  frame_outbound (Some l) m =
  (Some (to_vec (replacement (h_id (m_hdr m))
                   (HEADER_SIZE + lenN (m_query m) + lenN (m_body m)) l)), true).
Proof.
  intros Hl Hn. unfold frame_outbound. cbv zeta.
  apply N.ltb_lt in Hl. rewrite Hl, Hn, N.eqb_refl, into_wire_bytes_eq. reflexivity.
Qed.

Lemma frame_outbound_replaced l m :
  l < HEADER_SIZE + lenN (m_query m) + lenN (m_body m) -> h_notify (m_hdr m) = 0 ->
  h_id (m_hdr m) < two64 ->
  exists r, frame_outbound (Some l) m = (Some (to_vec r), true) /\ msg_ok r = true /\
    h_id (m_hdr r) = h_id (m_hdr m) /\ h_ec (m_hdr r) = 9 /\ m_query r = [] /\
    lenN (to_vec r) <= replacement_bound /\ from_slice_exact (to_vec r) = Ok r.
Proof.
  intros Hl Hn Hid.
  exists (replacement (h_id (m_hdr m)) (HEADER_SIZE + lenN (m_query m) + lenN (m_body m)) l).
  split; [now apply frame_outbound_replaced_eq|].
  split; [now apply replacement_ok|].
  split; [reflexivity|]. split; [reflexivity|]. split; [reflexivity|].
  split; [rewrite replacement_to_vec_len; apply replacement_len_le_bound|].
  now apply replacement_round_trip.
Qed.

Lemma frame_outbound_le_limit l m bs rep :
  replacement_bound <= l -> frame_outbound (Some l) m = (Some bs, rep) -> lenN bs <= l.
Proof.
  intros Hb H.
  destruct (l <? HEADER_SIZE + lenN (m_query m) + lenN (m_body m)) eqn:E.
  - apply N.ltb_lt in E. destruct (h_notify (m_hdr m) =? 0) eqn:En.
    + apply N.eqb_eq in En. rewrite (frame_outbound_replaced_eq l m E En) in H.
      injection H as <- _. rewrite replacement_to_vec_len.
      pose proof (replacement_len_le_bound
                    (HEADER_SIZE + lenN (m_query m) + lenN (m_body m)) l) as P. lia.
    + apply N.eqb_neq in En. rewrite (frame_outbound_notify l m E En) in H. discriminate.
  - rewrite frame_outbound_within in H by (unfold check_outbound; now rewrite E).
    injection H as <- _. rewrite lenN_to_vec. lia.
Qed.

Lemma client_send_refused l m : l < lenN (to_vec m) -> client_send (Some l) m = None.
Proof.
  intros H. unfold client_send, check_outbound. cbv zeta.
  apply N.ltb_lt in H. rewrite H. reflexivity.
Qed.

Lemma client_send_within lim m :
  check_outbound lim (lenN (to_vec m)) = true -> client_send lim m = Some (to_vec m).
Proof. intros H. unfold client_send. cbv zeta. rewrite H. reflexivity. Qed.

(** ** what the peer observes *)

Lemma sent_of_self m : msg_ok m = true ->
  sent_of m (Some (to_vec m)) =
  SFrame (HEADER_SIZE + lenN (m_query m) + lenN (m_body m)) (h_id (m_hdr m)) (h_ec (m_hdr m)) true.
Proof.
  intros H. unfold sent_of.
  rewrite (from_slice_exact_round_trip m H), bytes_eqb_refl, lenN_to_vec. reflexivity.
Qed.

Lemma sent_of_replacement m id size limit :
  id < two64 ->
  sent_of m (Some (to_vec (replacement id size limit))) =
  SFrame (replacement_len size limit) id 9
    (bytes_eqb (to_vec (replacement id size limit)) (to_vec m)).
Proof.
  intros Hid. unfold sent_of.
  rewrite (replacement_round_trip id size limit Hid), replacement_to_vec_len. reflexivity.
Qed.

(** the condition under which a replaced response is distinguishable from the
    offered message: the offered message is not itself the replacement that
    would be produced for it *)
Definition not_self_replacement (c : c17_case) : Prop :=
  forall l, v_limit c = Some l ->
    to_vec (replacement (h_id (m_hdr (v_msg c)))
              (HEADER_SIZE + lenN (m_query (v_msg c)) + lenN (m_body (v_msg c))) l)
    <> to_vec (v_msg c).

Lemma ec_not_self_replacement c :
  c17_wf c = true -> h_ec (m_hdr (v_msg c)) <> 9 -> not_self_replacement c.
Proof.
  intros Hwf Hec l _. unfold c17_wf in Hwf.
  apply andb_true_iff in Hwf as [Hwf _]. apply andb_true_iff in Hwf as [Hok _].
  pose proof (msg_ok_parts _ Hok) as (Hh & _).
  apply replacement_differs_ec; [|assumption|assumption].
  unfold hdr_ok in Hh. lia.
Qed.

(** ** the model on one case, by cases on the decision *)

Lemma model_C17_abs_agrees_gen c :
  c17_wf c = true -> not_self_replacement c ->
  model_C17 c = model_C17_abs (h_ec (m_hdr (v_msg c))) (abs_of c).
Proof.
  intros Hwf Hns. destruct c as [p lim m]. unfold not_self_replacement in Hns.
  unfold c17_wf in Hwf. cbn [v_path v_limit v_msg] in *.
  apply andb_true_iff in Hwf as [Hwf _]. apply andb_true_iff in Hwf as [Hok _].
  pose proof (msg_ok_parts _ Hok) as (Hh & _).
  assert (h_id (m_hdr m) < two64) as Hid by (unfold hdr_ok in Hh; lia).
  unfold model_C17, model_C17_abs, abs_of.
  cbn [v_path v_limit v_msg a_path a_limit a_flen a_id a_notify].
  destruct (is_client p) eqn:Ec.
  - unfold client_send, check_outbound. cbv zeta. rewrite lenN_to_vec.
    destruct lim as [l|].
    + destruct (l <? HEADER_SIZE + lenN (m_query m) + lenN (m_body m)) eqn:E; cbn [negb].
      * reflexivity.
      * rewrite (sent_of_self m Hok). reflexivity.
    + rewrite (sent_of_self m Hok). reflexivity.
  - destruct lim as [l|].
    + destruct (l <? HEADER_SIZE + lenN (m_query m) + lenN (m_body m)) eqn:E.
      * apply N.ltb_lt in E. destruct (h_notify (m_hdr m) =? 0) eqn:En; cbn [negb].
        -- apply N.eqb_eq in En. rewrite (frame_outbound_replaced_eq l m E En).
           rewrite (sent_of_replacement m _ _ l Hid).
           rewrite (bytes_eqb_neq _ _ (Hns l eq_refl)). reflexivity.
        -- apply N.eqb_neq in En. rewrite (frame_outbound_notify l m E En). reflexivity.
      * rewrite frame_outbound_within by (unfold check_outbound; now rewrite E).
        rewrite (sent_of_self m Hok). reflexivity.
    + rewrite frame_outbound_none, (sent_of_self m Hok). reflexivity.
Qed.

Lemma model_C17_abs_agrees c :
  c17_wf c = true -> h_notify (m_hdr (v_msg c)) <= 1 -> h_ec (m_hdr (v_msg c)) <> 9 ->
  model_C17 c = model_C17_abs (h_ec (m_hdr (v_msg c))) (abs_of c).
Proof.
  intros Hwf _ Hec. apply model_C17_abs_agrees_gen; [assumption|].
  now apply ec_not_self_replacement.
Qed.

Lemma ok_C17_abs_of c o : ok_C17_abs (abs_of c) o = ok_C17 c o.
Proof. reflexivity. Qed.

Lemma ok_model_C17_abs ec a : ok_C17_abs a (model_C17_abs ec a) = true.
Proof.
  destruct a as [p lim flen id ntf]. unfold ok_C17_abs, model_C17_abs.
  cbn [a_path a_limit a_flen a_id a_notify].
  destruct lim as [l|].
  - pose proof (replacement_len_le_bound flen l) as Hb.
    generalize dependent (replacement_len flen l). intros rl Hb.
    destruct (l <? flen) eqn:E; destruct (is_client p) eqn:Ec; destruct ntf;
      cbn [w_sent w_reported w_alive orb andb negb];
      rewrite ?N.eqb_refl; cbn [andb negb];
      try (destruct (has_hooks p); cbn [andb orb]);
      try (destruct (replacement_bound <=? l) eqn:Eb); try reflexivity; try lia.
  - destruct (is_client p); cbn [w_sent w_reported w_alive andb negb];
      rewrite N.eqb_refl; reflexivity.
Qed.

Lemma ok_model_C17_abs_wf ec a :
  (match a_limit a with Some l => l < two64 | None => True end) ->
  ok_C17_abs a (model_C17_abs ec a) = true.
Proof. intros _. apply ok_model_C17_abs. Qed.

Lemma ok_model_C17_gen c :
  c17_wf c = true -> not_self_replacement c -> ok_C17 c (model_C17 c) = true.
Proof.
  intros Hwf Hns. rewrite (model_C17_abs_agrees_gen c Hwf Hns), <- ok_C17_abs_of.
  apply ok_model_C17_abs.
Qed.

Lemma ok_model_C17 c :
  c17_wf c = true -> h_ec (m_hdr (v_msg c)) <> 9 -> ok_C17 c (model_C17 c) = true.
Proof. intros Hwf Hec. apply ok_model_C17_gen; [assumption|now apply ec_not_self_replacement]. Qed.

(** the oracle rejects the model exactly when the offered response coincides
    with its own replacement: the concrete witness *)
Definition c17_self_replacement : c17_case :=
  mkC17 PInlineResponse (Some 100) (replacement 7 168 100).

Lemma c17_self_replacement_wf : c17_wf c17_self_replacement = true.
Proof. vm_compute. reflexivity. Qed.

Lemma c17_self_replacement_rejected :
  ok_C17 c17_self_replacement (model_C17 c17_self_replacement) = false.
Proof. vm_compute. reflexivity. Qed.

Lemma c17_self_replacement_abs_differs :
  c17_obs_eqb (model_C17 c17_self_replacement)
    (model_C17_abs (h_ec (m_hdr (v_msg c17_self_replacement))) (abs_of c17_self_replacement))
  = false.
Proof. vm_compute. reflexivity. Qed.
